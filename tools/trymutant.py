#!/usr/bin/env python3
"""Applies a patch to a scratch copy of /repo (never to /repo itself), runs the given checks against the copy, reverts.
Usage: trymutant.py <patch.diff> <tier> <ID> [<ID>...]"""
import subprocess, sys, os, json, time
patch, tier, ids = os.path.abspath(sys.argv[1]), sys.argv[2], sys.argv[3:]
COPY = os.environ.get("MUTREPO", "/tmp/mutrepo")
def sh(cmd, **kw):
    return subprocess.run(cmd, shell=True, stdout=subprocess.PIPE, stderr=subprocess.STDOUT, text=True, **kw)
head = sh("git -C /repo rev-parse HEAD").stdout.strip()
if not os.path.isdir(COPY) or sh("git -C %s rev-parse HEAD" % COPY).stdout.strip() != head:
    sh("rm -rf %s && cp -r /repo %s" % (COPY, COPY))
sh("git -C %s checkout -- . && git -C %s clean -fdq" % (COPY, COPY))
r = sh("git -C %s apply --whitespace=nowarn %s" % (COPY, patch))
if r.returncode != 0:
    print("PATCH DOES NOT APPLY:", r.stdout); sys.exit(2)
out = {}
env = dict(os.environ, VERIF_REPO=COPY)
try:
    for i in ids:
        t0 = time.time()
        r = sh("cd /verif && ./check %s %s" % (i, tier), env=env)
        lines = [l for l in r.stdout.splitlines() if l.startswith("VIOLATION") or l.startswith("  class=")]
        summ = [l for l in r.stdout.splitlines() if (" quick:" in l or " thorough:" in l)]
        out[i] = {"rc": r.returncode, "violations": lines[:6], "summary": summ[-1:], "secs": int(time.time()-t0)}
        print(i, "rc=%d" % r.returncode, (lines[1][:300] if len(lines) > 1 else ""), flush=True)
        if r.returncode not in (0, 1):
            print(r.stdout[-1500:])
finally:
    sh("git -C %s checkout -- ." % COPY)
print("RESULT " + json.dumps(out))
