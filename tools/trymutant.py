#!/usr/bin/env python3
"""Applies a patch to /repo, runs the given checks, reverts. Usage: trymutant.py <patch.diff> <tier> <ID> [<ID>...]"""
import subprocess, sys, os, json, time
patch, tier, ids = sys.argv[1], sys.argv[2], sys.argv[3:]
def sh(cmd, **kw):
    return subprocess.run(cmd, shell=True, stdout=subprocess.PIPE, stderr=subprocess.STDOUT, text=True, **kw)
st = sh("git -C /repo status --porcelain").stdout.strip()
if st:
    print("REPO NOT CLEAN:\n" + st); sys.exit(2)
r = sh("git -C /repo apply --whitespace=nowarn %s" % patch)
if r.returncode != 0:
    print("PATCH DOES NOT APPLY:", r.stdout); sys.exit(2)
out = {}
try:
    for i in ids:
        t0 = time.time()
        r = sh("cd /verif && ./check %s %s" % (i, tier))
        lines = [l for l in r.stdout.splitlines() if l.startswith("VIOLATION") or l.startswith("  class=")]
        summ = [l for l in r.stdout.splitlines() if (" quick:" in l or " thorough:" in l)]
        out[i] = {"rc": r.returncode, "violations": lines[:6], "summary": summ[-1:] , "secs": int(time.time()-t0)}
        print(i, "rc=%d" % r.returncode, (lines[1][:300] if len(lines) > 1 else ""), flush=True)
        if r.returncode not in (0, 1):
            print(r.stdout[-1500:])
finally:
    sh("git -C /repo checkout -- .")
print(json.dumps(out))
