#!/bin/bash
# regress_seeded.sh [tier] [ids...]: runs every kept seeded change against the check(s) of its property (scratch copy, never /repo)
tier=${1:-quick}; shift
cd /verif
ids=${@:-$(ls seeded | grep -v unconfirmed)}
for s in $ids; do
  p=$(python3 -c "import json;print(json.load(open('seeded/$s/meta.json'))['property'])")
  r=$(python3 tools/trymutant.py seeded/$s/patch.diff $tier $p 2>&1 | grep -a -E "^(C[0-9]+ rc=|PATCH)" | cut -c1-220)
  echo "$s :: $r"
done
