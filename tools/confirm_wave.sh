#!/bin/bash
# confirm_wave.sh <suffix> <ids...>: confirms variants c and d of each /tmp/mut/<id><suffix> worktree (sequential per worktree, worktrees in parallel)
sfx=$1; shift
for p in "$@"; do
  ( for v in ${VARIANTS:-c d}; do
      [ -f /tmp/mut/${p}${sfx}/_out/$v/patch.diff ] || continue
      python3 /verif/tools/confirm_mutant.py /tmp/mut/${p}${sfx} $v > /tmp/mut/${p}${sfx}/_out/$v/confirm.log 2>&1
    done; echo done $p ) &
done
wait
