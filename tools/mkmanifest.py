#!/usr/bin/env python3
"""Regenerates MANIFEST.json from tools/checks.py (single source of truth for the registered checks)."""
import json, os, sys
sys.path.insert(0, os.path.dirname(os.path.abspath(__file__)))
from checks import PROPS, NOT_APPLICABLE, ENGINES, HOOK_COMMITS

VERIF = os.path.dirname(os.path.dirname(os.path.abspath(__file__)))
m = {
    "version": 1,
    "setup_cmd": "./check --build-all",
    "hooks": {
        "guard": "verif",
        "enable": "every check rebuilds its engine with: go test -c -tags verif,intest -overlay .build/overlay.json -modfile .build/go.mod (tools/vbuild.py); "
                  "the overlay maps /verif/sim into the module as virtual packages and adds verif-tagged export shims; hooks committed to /repo are listed in source_commits",
        "baseline_off_cmd": "cd /repo && go build ./... && go test -mod=mod -vet=off -count=1 -timeout 25m ./... && cd integration_tests && go test -mod=mod -vet=off -count=1 -timeout 25m ./...",
        "source_commits": HOOK_COMMITS,
        "add_only": True,
    },
    "engines": ENGINES,
    "checks": [],
    "not_applicable": NOT_APPLICABLE,
    "notes": "All checks are deterministic simulations with fault injection (DESIGN.md). Exit 2 = infrastructure trouble, never a verdict.",
}
for pid in sorted(PROPS):
    p = PROPS[pid]
    m["checks"].append({
        "property_id": pid,
        "quick_cmd": "./check %s quick" % pid,
        "thorough_cmd": "./check %s thorough" % pid,
        "evidence_file": "evidence/%s.json" % pid,
        "replay_cmd_template": "./check %s --replay {path}" % pid,
        "engine": p["engine"],
        "level_claimed": {"category": p["level"], "text": p["level_text"], "design_ref": "DESIGN.md section 3, " + pid},
        "level_note": p["level_note"],
        "technique": p.get("technique", "deterministic simulation with fault injection (seeded schedule and fault search, history oracle)"),
    })
json.dump(m, open(os.path.join(VERIF, "MANIFEST.json"), "w"), indent=1)
print("MANIFEST.json: %d checks, %d not applicable" % (len(m["checks"]), len(NOT_APPLICABLE)))
