#!/usr/bin/env python3
"""Re-confirms every kept seeded change against the SECOND module of the baseline (integration_tests): the change is
applied to a scratch worktree of /repo, the stable tests of that module must still pass (one re-run of failures).
Records the result in seeded/<id>/meta.json. Usage: recheck_integration.py [ids...]"""
import json, os, subprocess, sys, glob, concurrent.futures as cf
stable = [t for t in json.load(open("/root/.vp/BASELINE.json"))["stable_pass"] if t.startswith("integration_tests")]
env = dict(os.environ, GOFLAGS="-mod=mod", GOPROXY="off"); env.pop("GOTOOLCHAIN", None)
ids = sys.argv[1:] or sorted(os.path.basename(d) for d in glob.glob("/verif/seeded/C*") if "unconfirmed" not in d)
def sh(cmd, cwd=None, timeout=3600):
    return subprocess.run(cmd, shell=True, cwd=cwd, env=env, stdout=subprocess.PIPE, stderr=subprocess.STDOUT, text=True, timeout=timeout)
def run_tests(wt):
    p = sh("go test -mod=mod -json -vet=off -count=1 -timeout 25m ./...", cwd=os.path.join(wt, "integration_tests"))
    got = {}
    for l in p.stdout.splitlines():
        if l.startswith("{"):
            try: e = json.loads(l)
            except Exception: continue
            if e.get("Test") and e.get("Action") in ("pass", "fail", "skip"):
                got[e["Package"] + "::" + e["Test"]] = e["Action"]
    return got
def work(args):
    slot, batch = args
    wt = "/tmp/itw%d" % slot
    sh("git -C /repo worktree remove --force %s" % wt); sh("rm -rf %s" % wt)
    r = sh("git -C /repo worktree add --detach %s HEAD" % wt)
    out = {}
    for sid in batch:
        patch = "/verif/seeded/%s/patch.diff" % sid
        sh("git checkout -- . && git clean -fdq", cwd=wt)
        if sh("git apply --whitespace=nowarn %s" % patch, cwd=wt).returncode != 0:
            out[sid] = {"applies_to_current_head": False}
            continue
        got = run_tests(wt)
        bad = sorted(t for t in stable if got.get(t) != "pass")
        if bad:
            again = run_tests(wt)
            bad = sorted(t for t in bad if again.get(t) != "pass")
        out[sid] = {"applies_to_current_head": True, "integration_tests_stable_pass": not bad, "failing": bad[:12]}
        print(sid, out[sid], flush=True)
    sh("git -C /repo worktree remove --force %s" % wt)
    return out
N = 6
batches = [(k, ids[k::N]) for k in range(N)]
res = {}
with cf.ThreadPoolExecutor(N) as ex:
    for o in ex.map(work, batches):
        res.update(o)
for sid, r in res.items():
    p = "/verif/seeded/%s/meta.json" % sid
    m = json.load(open(p)); m["integration_tests_module"] = r; json.dump(m, open(p, "w"), indent=1)
print("done", sum(1 for r in res.values() if r.get("integration_tests_stable_pass")), "pass of", len(res))
print("FAILING:", {k: v.get("failing") for k, v in res.items() if v.get("applies_to_current_head") and not v.get("integration_tests_stable_pass")})
print("NOT APPLYING:", [k for k, v in res.items() if not v.get("applies_to_current_head")])
