#!/usr/bin/env python3
"""keep_mutant.py <src _out/x dir> <seeded id> <property> '<needs>' '<caught json>'"""
import json, os, shutil, sys
src, sid, prop, needs, caught = sys.argv[1:6]
dst = os.path.join("/verif/seeded", sid)
os.makedirs(dst, exist_ok=True)
for f in ("patch.diff", "demo_test.go", "README.md", "RUN.txt"):
    if os.path.exists(os.path.join(src, f)):
        shutil.copy(os.path.join(src, f), os.path.join(dst, f))
conf = {}
if os.path.exists(os.path.join(src, "CONFIRM.json")):
    conf = json.load(open(os.path.join(src, "CONFIRM.json")))
meta = {
    "id": sid, "property": prop, "origin": "independent sub-agent given only the property text and a scratch worktree",
    "needs_to_manifest": needs,
    "confirmed_in_scratch_worktree": {k: conf.get(k) for k in ("demo_clean_pass", "patch_applies", "builds", "demo_mutant_fails", "unit_pass", "confirmed")},
    "what_was_run": ["tools/confirm_mutant.py: demo passes on the clean tree, patch applies and builds, demo fails with the patch, every test of BASELINE.json stable_pass in the main module still passes with the patch",
                     "tools/trymutant.py: patch applied to a scratch copy of /repo, registered checks run against the copy (VERIF_REPO)"],
    "checks": json.loads(caught),
}
json.dump(meta, open(os.path.join(dst, "meta.json"), "w"), indent=1)
print("kept", dst)
