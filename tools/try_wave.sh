#!/bin/bash
# try_wave.sh <suffix> <tier> <ids...>: runs the check of each property against variants c and d delivered in /tmp/mut/<id><suffix>/_out
sfx=$1; tier=$2; shift; shift
for p in "$@"; do
  for v in ${VARIANTS:-c d}; do
    f=/tmp/mut/${p}${sfx}/_out/$v/patch.diff
    [ -f $f ] || continue
    r=$(MUTREPO=${MUTREPO:-/tmp/mutrepo3} python3 /verif/tools/trymutant.py $f $tier $p 2>&1 | grep -a -E "^(C[0-9]+ rc=|PATCH)" | cut -c1-260)
    echo "$p$v :: $r"
  done
done
