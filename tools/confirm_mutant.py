#!/usr/bin/env python3
"""Confirms a candidate mutation delivered by a sub-agent, in ITS scratch worktree:
demo passes on the clean tree, patch applies, builds, demo fails with the patch, the repository's unit tests
of the relevant packages still pass with the patch. Usage: confirm_mutant.py <worktree> <a|b> [--skip-unit]"""
import json, os, re, subprocess, sys, shutil, time
wt, var = sys.argv[1], sys.argv[2]
out = os.path.join(wt, "_out", var)
env = dict(os.environ, GOFLAGS="-mod=mod", GOPROXY="off")
env.pop("GOTOOLCHAIN", None)
def run(cmd, timeout=1800):
    p = subprocess.run(cmd, cwd=wt, env=env, shell=True, stdout=subprocess.PIPE, stderr=subprocess.STDOUT, text=True, timeout=timeout)
    return p.returncode, p.stdout
res = {"worktree": wt, "variant": var}
run("git checkout -- .")
demo = open(os.path.join(out, "demo_test.go")).read()
ddir = "/nonexistent-dir-to-remove"
pkg = re.search(r"^package\s+(\w+)", demo, re.M).group(1)
runtxt = open(os.path.join(out, "RUN.txt")).read() if os.path.exists(os.path.join(out, "RUN.txt")) else ""
dest = None
for m in re.finditer(r"(?:^|[\s`'\"=])((?:/tmp/mut/\w+/)?[\w./-]+_test\.go)", runtxt):
    cand = m.group(1)
    if "_out/" in cand:
        continue
    cand = cand.replace(wt + "/", "")
    if "/" in cand:
        dest = cand
        break
tests = re.findall(r"^func (Test\w+)\(", demo, re.M)
runflag = "-run '^(%s)$'" % "|".join(tests) if tests else ""
created_dir = None
if dest and os.path.isdir(os.path.join(wt, os.path.dirname(dest))):
    # the demo lives inside an existing package directory
    target = os.path.join(wt, dest)
    pkgdir = os.path.dirname(dest)
else:
    pkgdir = pkg if not dest else os.path.dirname(dest)
    created_dir = os.path.join(wt, pkgdir)
    shutil.rmtree(created_dir, ignore_errors=True)
    os.makedirs(created_dir)
    target = os.path.join(created_dir, "demo_test.go")
ddir = created_dir or "/nonexistent-dir-to-remove"
shutil.copy(os.path.join(out, "demo_test.go"), target)
rc, o = run("go test -mod=mod -vet=off -count=1 ./%s/ %s" % (pkgdir, runflag))
res["demo_clean_pass"] = rc == 0
res["demo_clean_tail"] = o[-600:]
rc, o = run("git apply --whitespace=nowarn _out/%s/patch.diff" % var)
res["patch_applies"] = rc == 0
if rc == 0:
    rc, o = run("go build ./...")
    res["builds"] = rc == 0
    rc, o = run("go test -mod=mod -vet=off -count=1 ./%s/ %s" % (pkgdir, runflag))
    res["demo_mutant_fails"] = rc != 0
    res["demo_mutant_tail"] = o[-1200:]
    if "--skip-unit" not in sys.argv:
        t0 = time.time()
        stable = set(json.load(open("/root/.vp/BASELINE.json"))["stable_pass"])
        def stable_failures(pkgs):
            rc, o = run("go test -mod=mod -json -vet=off -count=1 -timeout 25m %s" % pkgs)
            got = {}
            for l in o.splitlines():
                if not l.startswith("{"):
                    continue
                try:
                    e = json.loads(l)
                except Exception:
                    continue
                if e.get("Test") and e.get("Action") in ("pass", "fail", "skip"):
                    got[e["Package"] + "::" + e["Test"]] = e["Action"]
            pk = set(k.split("::")[0] for k in got)
            return sorted(t for t in stable if t.split("::")[0] in pk and got.get(t) != "pass")
        bad = stable_failures("./...")
        # the second module of the baseline (218 of the 811 stable tests live there)
        def stable_failures_it():
            p = subprocess.run("go test -mod=mod -json -vet=off -count=1 -timeout 25m ./...", cwd=os.path.join(wt, "integration_tests"), env=env, shell=True,
                               stdout=subprocess.PIPE, stderr=subprocess.STDOUT, text=True, timeout=3600)
            got = {}
            for l in p.stdout.splitlines():
                if l.startswith("{"):
                    try:
                        e = json.loads(l)
                    except Exception:
                        continue
                    if e.get("Test") and e.get("Action") in ("pass", "fail", "skip"):
                        got[e["Package"] + "::" + e["Test"]] = e["Action"]
            return sorted(t for t in stable if t.startswith("integration_tests") and got.get(t) != "pass")
        bad_it = stable_failures_it()
        if bad_it:
            again = set(stable_failures_it())
            bad_it = [t for t in bad_it if t in again]
        res["integration_fail_lines"] = bad_it[:20]
        if bad:
            # timing-sensitive tests can flake under load: re-run the affected packages once
            pkgs = " ".join(sorted(set("./" + t.split("::")[0].replace("github.com/tikv/client-go/v2/", "") for t in bad)))
            bad = stable_failures(pkgs)
        res["unit_pass"] = not bad and not bad_it
        res["unit_seconds"] = int(time.time() - t0)
        res["unit_fail_lines"] = bad[:20]
run("git checkout -- .")
shutil.rmtree(ddir, ignore_errors=True)
if not created_dir and os.path.exists(target):
    os.remove(target)
res["confirmed"] = bool(res.get("demo_clean_pass") and res.get("patch_applies") and res.get("builds") and res.get("demo_mutant_fails") and res.get("unit_pass", True))
json.dump(res, open(os.path.join(out, "CONFIRM.json"), "w"), indent=1)
print(json.dumps({k: v for k, v in res.items() if not k.endswith("_tail")}))
