#!/usr/bin/env python3
"""For the kept seeded changes that the integration_tests module flagged: runs only the flagged top-level tests again,
sequentially, on a quiet machine - first on the clean tree (a test that fails there is flaky and flags nothing), then
with the change (up to two tries). Updates seeded/<id>/meta.json: valid_seeded_change true/false with the reason."""
import json, os, subprocess, glob, re
env = dict(os.environ, GOFLAGS="-mod=mod", GOPROXY="off"); env.pop("GOTOOLCHAIN", None)
WT = "/tmp/itv"
def sh(cmd, cwd=None):
    return subprocess.run(cmd, shell=True, cwd=cwd, env=env, stdout=subprocess.PIPE, stderr=subprocess.STDOUT, text=True, timeout=3600)
sh("git -C /repo worktree remove --force %s" % WT); sh("rm -rf %s" % WT); sh("git -C /repo worktree add --detach %s HEAD" % WT)
def run(tests):
    """tests: list of 'pkg::Top/Sub'; returns set of failing ones"""
    bypkg = {}
    for t in tests:
        pkg, name = t.split("::")
        bypkg.setdefault(pkg, set()).add(name.split("/")[0])
    got = {}
    for pkg, tops in bypkg.items():
        d = os.path.join(WT, pkg)
        p = sh("go test -mod=mod -json -vet=off -count=1 -timeout 25m -run '^(%s)$' ." % "|".join(sorted(tops)), cwd=d)
        for l in p.stdout.splitlines():
            if l.startswith("{"):
                try: e = json.loads(l)
                except Exception: continue
                if e.get("Test") and e.get("Action") in ("pass", "fail", "skip"):
                    got[pkg + "::" + e["Test"]] = e["Action"]
    return set(t for t in tests if got.get(t) != "pass")
clean_cache = {}
for mp in sorted(glob.glob("/verif/seeded/C*/meta.json")):
    m = json.load(open(mp))
    it = m.get("integration_tests_module") or {}
    sid = m["id"]
    if not it.get("applies_to_current_head") or it.get("hang") or "reverified_failing" in it:
        continue
    if it.get("integration_tests_stable_pass"):
        m["valid_seeded_change"] = True
        json.dump(m, open(mp, "w"), indent=1)
        continue
    tests = it["failing"]
    sh("git checkout -- . && git clean -fdq", cwd=WT)
    key = tuple(sorted(tests))
    if key not in clean_cache:
        clean_cache[key] = run(tests)
    flaky = clean_cache[key]
    sh("git apply --whitespace=nowarn /verif/seeded/%s/patch.diff" % sid, cwd=WT)
    bad = run(tests)
    if bad:
        bad = bad & run(sorted(bad))
    bad -= flaky
    m["valid_seeded_change"] = not bad
    m["integration_tests_module"]["reverified_failing"] = sorted(bad)
    m["integration_tests_module"]["flaky_on_clean_tree"] = sorted(flaky)
    if bad:
        m["invalid_reason"] = "stable tests of the integration_tests module fail with the change: " + ", ".join(sorted(bad)[:4])
    json.dump(m, open(mp, "w"), indent=1)
    print(sid, "VALID" if not bad else "INVALID", sorted(bad)[:4], "flaky:", sorted(flaky)[:3], flush=True)
sh("git -C /repo worktree remove --force %s" % WT)
