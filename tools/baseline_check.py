#!/usr/bin/env python3
"""Runs the repository's test suite with the hook guard OFF (no build tag) and compares it with the stable tests of
/root/.vp/BASELINE.json: every test listed under stable_pass must pass. Usage: baseline_check.py [repo dir]"""
import json, os, subprocess, sys
repo = sys.argv[1] if len(sys.argv) > 1 else "/repo"
env = dict(os.environ, GOFLAGS="-mod=mod", GOPROXY="off")
env.pop("GOTOOLCHAIN", None)
stable = set(json.load(open("/root/.vp/BASELINE.json"))["stable_pass"])
def run(pkgs):
    p = subprocess.run("go test -mod=mod -json -vet=off -count=1 -timeout 25m %s" % pkgs, cwd=repo, env=env, shell=True,
                       stdout=subprocess.PIPE, stderr=subprocess.STDOUT, text=True)
    got = {}
    for l in p.stdout.splitlines():
        if l.startswith("{"):
            try:
                e = json.loads(l)
            except Exception:
                continue
            if e.get("Test") and e.get("Action") in ("pass", "fail", "skip"):
                got[e["Package"] + "::" + e["Test"]] = e["Action"]
    return got
MODS = [".", "./integration_tests"]   # the modules of /w/out/gomods.txt
def run_all():
    got = {}
    for m in MODS:
        got.update(run_in(m, "./..."))
    return got
def run_in(mod, pkgs):
    global repo
    base = repo
    repo = os.path.join(base, mod)
    try:
        return run(pkgs)
    finally:
        repo = base
got = run_all()
bad = sorted(t for t in stable if got.get(t) != "pass")
if bad:
    again = run_all()   # timing-sensitive tests flake under load: one re-run
    bad = sorted(t for t in bad if again.get(t) != "pass")
print("stable tests: %d, passing: %d, not passing: %d" % (len(stable), len(stable) - len(bad), len(bad)))
for t in bad[:30]:
    print("  NOT PASSING", t)
sys.exit(1 if bad else 0)
