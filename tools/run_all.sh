#!/bin/bash
# run_all.sh <tier> [ids...]: runs the registered checks one after the other, prints one summary per check
tier=${1:-quick}; shift
ids=${@:-C01 C02 C03 C04 C05 C06 C07 C09 C10 C11 C12 C13 C14 C15 C16 C17 C18 C20}
cd /verif
for c in $ids; do
  s=$(date +%s)
  ./check $c $tier > .build/out/$c.$tier.log 2>&1; rc=$?
  echo "$c $tier rc=$rc $(( $(date +%s)-s ))s :: $(grep -E "^C[0-9]+ $tier:" .build/out/$c.$tier.log | tail -1)"
  grep -E "^(VIOLATION|  class)" .build/out/$c.$tier.log | cut -c1-300 | head -12
done
