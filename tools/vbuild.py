#!/usr/bin/env python3
"""Build a simulation engine (a Go test binary) against /repo's *current working tree*.

The harness sources live only under /verif/sim. They are mapped into the
client-go module with a Go build overlay:

  /verif/sim/<dir>/x.go              -> /repo/verifsim/<dir>/x.go           (virtual package)
  /verif/sim/shims/<pkg path>/x.go   -> /repo/<pkg path>/zz_verifshim_x.go  (tag-guarded export shims)

so that harness packages may import the module's internal/ packages. Nothing is
ever written into /repo. The module file used for the build is a copy of
/repo/go.mod (taken on every build) plus the harness' own requirements.
"""
import json, os, subprocess, sys, shutil, hashlib, time

VERIF = os.path.dirname(os.path.dirname(os.path.abspath(__file__)))
REPO = os.environ.get("VERIF_REPO", "/repo")
BUILD = os.path.join(VERIF, ".build")
if os.path.realpath(REPO) != "/repo":
    # builds against a scratch copy of the repository get their own directory
    BUILD = os.path.join(VERIF, ".build", "alt-" + hashlib.sha1(os.path.realpath(REPO).encode()).hexdigest()[:10])
SIM = os.path.join(VERIF, "sim")


def write_if_changed(path, data):
    if os.path.exists(path) and open(path).read() == data:
        return
    tmp = "%s.tmp.%d" % (path, os.getpid())
    open(tmp, "w").write(data)
    os.replace(tmp, path)

EXTRA_REQUIRE = [
    "github.com/anishathalye/porcupine v1.3.0",
]

def goenv():
    env = dict(os.environ)
    env["GOFLAGS"] = "-mod=mod"
    env["GOPROXY"] = "off"
    env.pop("GOTOOLCHAIN", None)   # default go (1.23) auto-switches to the cached go1.25.12
    env.pop("GOSUMDB", None)
    env["GONOSUMDB"] = "*"
    env["GONOSUMCHECK"] = "1"
    env["GONOSUMDB"] = "*"
    env["GOFLAGS"] = "-mod=mod"
    env["GONOPROXY"] = ""
    env["GOPRIVATE"] = "*"
    return env

def gen_modfile():
    os.makedirs(BUILD, exist_ok=True)
    src = open(os.path.join(REPO, "go.mod")).read()
    extra = "\nrequire (\n" + "".join("\t%s\n" % r for r in EXTRA_REQUIRE) + ")\n"
    mod = os.path.join(BUILD, "go.mod")
    new = src + extra
    write_if_changed(mod, new)
    sums = open(os.path.join(REPO, "go.sum")).read()
    extra_sum = os.path.join(VERIF, "tools", "extra.sum")
    if os.path.exists(extra_sum):
        sums += open(extra_sum).read()
    sumf = os.path.join(BUILD, "go.sum")
    write_if_changed(sumf, sums)
    return mod

def gen_overlay():
    replace = {}
    for root, dirs, files in os.walk(SIM):
        dirs.sort()
        rel = os.path.relpath(root, SIM)
        for f in sorted(files):
            if not f.endswith(".go"):
                continue
            srcp = os.path.join(root, f)
            if rel == "shims" or rel.startswith("shims" + os.sep):
                pkg = os.path.relpath(root, os.path.join(SIM, "shims"))
                dst = os.path.join(REPO, pkg, "zz_verifshim_" + f)
            else:
                dst = os.path.join(REPO, "verifsim", rel, f)
            replace[dst] = srcp
    ov = os.path.join(BUILD, "overlay.json")
    data = json.dumps({"Replace": replace}, indent=1, sort_keys=True)
    write_if_changed(ov, data)
    return ov

def build(engine, race=False, quiet=False):
    """returns (binary path, seconds) or raises"""
    t0 = time.time()
    mod = gen_modfile()
    ov = gen_overlay()
    out = os.path.join(BUILD, engine + (".race" if race else "") + ".test")
    cmd = ["go", "test", "-c", "-vet=off", "-tags", "verif,intest",
           "-overlay", ov, "-modfile", mod, "-o", out]
    if race:
        cmd.append("-race")
    cmd.append("./verifsim/engines/" + engine)
    p = subprocess.run(cmd, cwd=REPO, env=goenv(), stdout=subprocess.PIPE, stderr=subprocess.STDOUT, text=True)
    if p.returncode != 0:
        sys.stderr.write(p.stdout)
        raise SystemExit(2)
    if not quiet and p.stdout.strip():
        sys.stderr.write(p.stdout)
    return out, time.time() - t0

if __name__ == "__main__":
    if len(sys.argv) < 2:
        print("usage: vbuild.py <engine> [--race]")
        sys.exit(2)
    b, s = build(sys.argv[1], race="--race" in sys.argv)
    print("built %s in %.1fs" % (b, s))
