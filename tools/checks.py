"""Table of registered checks: property -> engine, modes, budgets, evidence texts."""

REAL_TXN = ("modes without suffix - real code: tikv.KVStore, txnkv/transaction, txnkv/txnsnapshot, txnkv/txnlock, internal/locate (region cache, "
            "request sender, replica selector), config/retry, oracle/oracles.pdOracle, internal/unionstore, internal/apicodec, "
            "internal/mockstore/mocktikv (RPC handlers + MVCCLevelDB + Cluster); stub: gRPC/batch client (SimTransport), PD (SimPD/TSO over "
            "the repo's mock cluster), wall clock (testing/synctest fake clock); modes ending in -R - the same client code, but the TiKV server is the "
            "reference store sim/refkv (2PC, async commit, 1PC, CheckSecondaryLocks, Flush) behind the same simulated transport, with the region / "
            "epoch / leader checks of mocktikv.Session over the shared mocktikv.Cluster. Per-run knobs (each on its own random stream): assertion levels and flags, replica-read types "
            "and staleness-read-only snapshots (the reference store serves flagged reads on followers, answers stale reads DataIsNotReady by plan), asynchronous batch gets "
            "(config.EnableAsyncBatchGet), response-level lock errors of batch gets and a store that refuses async commit / 1PC (reference store), lock-only-if-exists lock steps, "
            "late starts of background goroutines (verif yield hook), 20 kinds of region error plus a request that is executed and answered UndeterminedResult")

PROPS = {
    "C01": {
        "engine": "txnsim",
        "level_text": "seeded deterministic simulation of 2-6 concurrent transactions on 1-3 clients with injected message loss, duplication, delay, region errors and topology changes; every read, every Commit acknowledgement and the final per-key MVCC records are checked against the timestamp-ordered committed history (snapshot reads, atomic outcome, write-write conflicts, locking reads, inserts, external consistency)",
        "level_note": "trusted: the simulator (simkit), the repository's mock TiKV as the server, the oracle; sampling, not exhaustive; 2PC only on the mock backend",
        "level": "exploration",
        "modes": [
            {"mode": "workload", "quick": {"runs": 3000}, "thorough": {"runs": 120000}},
            {"mode": "nofault", "quick": {"runs": 1500}, "thorough": {"runs": 60000}},
            {"mode": "workload-R", "quick": {"runs": 2000}, "thorough": {"runs": 100000}},
            {"mode": "nofault-R", "quick": {"runs": 1000}, "thorough": {"runs": 50000}},
            {"mode": "lockretry", "quick": {"runs": 1500}, "thorough": {"runs": 60000}},
            {"mode": "lockretry-R", "quick": {"runs": 1000}, "thorough": {"runs": 40000}},
            # the shape family of C02 (stale locks naming an abandoned primary), judged by the C01 oracle: its no-crash
            # positions keep the victim alive while another client meets its stale and its live locks
            {"mode": "stalelock", "quick": {"runs": 33 * 20}, "thorough": {"runs": 33 * 1000}},
            {"mode": "stalelock-R", "quick": {"runs": 33 * 15}, "thorough": {"runs": 33 * 1000}},
            {"mode": "directed", "quick": {"runs": 64}, "thorough": {"runs": 64}},
        ],
        "rule": ("each evaluation is one simulated run: 2-6 generated transaction programs (optimistic/pessimistic; get, batch-get, "
                 "iter, reverse iter, set, insert, delete, lock-keys, commit/rollback) on 1-3 KVStore clients over 1-3 stores and 1-4 regions, "
                 "all RPC/TSO interleavings decided by the seeded simulator, with injected message loss, duplication, delay, region errors, "
                 "splits, merges and leader moves; a run is non-trivial when at least two transactions ran to their end; distinct = distinct "
                 "canonical RPC traces (hash of the sequence of request identities and fates) Modes lockretry / lockretry-R: pessimistic lock statements over several keys that fail behind a short-lived blocker and are retried at once with a fresh for-update ts while the clean-up of the failed attempt is delayed (failpoint knob beforeAsyncPessimisticRollback, go-start yield hook), fair-locking stages with existence checks followed by an insert, writers that try to get in while the lockers hold the keys; two thirds of these runs are free of message faults so that the lock-exclusion rule applies (no other transaction's commit is applied on a key between the return of a successful LockKeys and the begin of the locker's ending call). All workload modes: background goroutines of a transaction may start late (knob go_delay_pm), lock calls may ask for existence only (judged)."),
        "real_vs_stub": REAL_TXN,
        "assumptions": [
            "modes without suffix: the repository's mocktikv is the TiKV server (2PC, optimistic and pessimistic); modes ending in -R: the reference backend sim/refkv (2PC, async commit, 1PC mixed within a run)",
            "ground truth is read from the store object directly (MvccGetByKey), never through the client under test",
            "seeded sampling of schedules and faults, not exhaustive",
        ],
    },
    "C02": {
        "engine": "txnsim",
        "level_text": "for every generated small transaction shape the committing client is crashed at every RPC/TSO position of Commit in both variants (position dimension enumerated completely); survivors recover after the TTL; the MVCC records of all keys are audited for one all-or-nothing outcome consistent with what the victim was told, no lock left, and all concurrent snapshot reads consistent",
        "level_note": "trusted: simkit, crash = permanent partition, mock TiKV; shapes, companions and survivor schedules are sampled",
        "level": "fault_enumeration",
        "modes": [
            {"mode": "crash", "quick": {"runs": 35 * 60}, "thorough": {"runs": 35 * 3000}},
            {"mode": "crashfaults", "quick": {"runs": 35 * 40}, "thorough": {"runs": 35 * 3000}},
            {"mode": "crash-R", "quick": {"runs": 1400}, "thorough": {"runs": 105000}},
            {"mode": "crashfaults-R", "quick": {"runs": 700}, "thorough": {"runs": 70000}},
            {"mode": "stalelock", "quick": {"runs": 33 * 40}, "thorough": {"runs": 33 * 2000}},
            {"mode": "stalelock-R", "quick": {"runs": 33 * 30}, "thorough": {"runs": 33 * 2000}},
            {"mode": "directed", "quick": {"runs": 64}, "thorough": {"runs": 64}},
        ],
        "rule": ("run index = shape x position: for every generated small transaction shape (1-4 keys over 1-3 regions, put/delete/insert/"
                 "lock-only, optimistic/pessimistic, with sampled companions: seed writer, readers, conflicting writer, split) the committing "
                 "client is crashed at every RPC position 0..15 of Commit in both variants (request never delivered / delivered but unanswered) "
                 "and at TSO positions 0..2; positions beyond the real request count are no-ops and are not counted as non-trivial; "
                 "non-trivial = the planned crash actually fired; distinct = distinct canonical RPC traces; modes stalelock / stalelock-R: the victim is a "
                 "pessimistic transaction whose first lock statement fails on a blocked key and whose clean-up messages are lost (stale locks naming the OLD "
                 "primary stay behind), which goes on with a new primary; crash positions 0..15 of its Commit x 2 variants + no crash are enumerated per shape; "
                 "one surviving client first writes to the stale keys (resolving the stale locks) and later reads the keys of the crashed Commit"),
        "real_vs_stub": REAL_TXN,
        "assumptions": ["client crash = permanent total partition of that client from TiKV and PD (DESIGN.md 2.4)",
                        "modes crash / crashfaults: backend M (mocktikv), 2PC only; modes *-R: reference backend, 2PC / async commit / 1PC", "position space is enumerated completely per shape, shapes and companions are sampled"],
    },
    "C03": {
        "engine": "txnsim",
        "level_text": "single faults of 12 kinds enumerated at every RPC position of Commit per shape plus sampled multi-fault placements; the class of the error Commit returned is compared with the final per-key MVCC truth, and an undetermined result must be explained by a commit-point request whose outcome was lost",
        "level_note": "trusted: simkit, mock TiKV, the classification of commit-point requests made from the wire trace",
        "level": "fault_enumeration",
        "modes": [
            {"mode": "faults", "quick": {"runs": 200 * 12}, "thorough": {"runs": 200 * 600}},
            {"mode": "faults-R", "quick": {"runs": 1600}, "thorough": {"runs": 100000}},
            {"mode": "directed", "quick": {"runs": 64}, "thorough": {"runs": 64}},
        ],
        "rule": ("run index = shape x fault placement: per shape every single fault from {drop request, drop response (immediate / time-out), "
                 "NotLeader, EpochNotMatch, ServerIsBusy, StaleCommand, region split, leader move, multi-second stall (lock outlives its ttl, "
                 "resolvers race the committer), duplicate} at every RPC position 0..11 of Commit, then 56 sampled double/triple placements; "
                 "non-trivial = a planned fault fired; distinct = distinct canonical RPC traces When the enumerated fault is a stall of the committer, half of the status checks of the other clients are delayed (a check asked before the expiry instant and answered after it)."),
        "real_vs_stub": REAL_TXN,
        "assumptions": ["mode faults: backend M (mocktikv), 2PC only; mode faults-R: reference backend, 2PC / async commit / 1PC", "single faults enumerated per shape; pairs, non-healing faults and context cancellation sampled"],
    },
    "C04": {
        "engine": "txnsim",
        "level_text": "a passive monitor evaluates nine ordering/timestamp/mutation rules over the complete wire trace, TSO log and API history of every run of four transactional workloads (mixed, fault enumeration, crash enumeration, contention)",
        "level_note": "trusted: simkit's trace (every request/response crossing the tikv.Client seam, stamped with a global sequence), the rules as written in DESIGN.md",
        "level": "exploration",
        "modes": [
            {"mode": "workload", "quick": {"runs": 1500}, "thorough": {"runs": 60000}},
            {"mode": "faults", "quick": {"runs": 1200}, "thorough": {"runs": 60000}},
            {"mode": "crash", "quick": {"runs": 700}, "thorough": {"runs": 35000}},
            {"mode": "leftover", "quick": {"runs": 800}, "thorough": {"runs": 30000}},
            {"mode": "workload-R", "quick": {"runs": 1000}, "thorough": {"runs": 50000}},
            {"mode": "faults-R", "quick": {"runs": 800}, "thorough": {"runs": 40000}},
            {"mode": "crash-R", "quick": {"runs": 700}, "thorough": {"runs": 35000}},
        ],
        "rule": ("a passive monitor over the complete wire trace (every tikvrpc request/response crossing the tikv.Client seam), the TSO issuance log "
                 "and the API history of every run of the transactional workloads (mixed workload, fault enumeration, crash enumeration, contention); "
                 "rules R1-R9 of DESIGN.md 3/C04, each with its own evaluation counter in fault_and_probe_counters (c04.*); non-trivial as in the source mode; in a third of the runs most transactions carry an assertion level (fast/strict) and exist / not-exist / unknown flags on written keys (true and false ones: a false one makes Commit fail definitely, probe.commit.assertion-failed), R9 compares every prewritten mutation's assertion with what flags and level imply"),
        "real_vs_stub": REAL_TXN,
        "assumptions": ["the statement's tail is cut off in properties.jsonl; R9 covers what is legible", "backend M: no async commit / 1PC requests are produced"],
    },
    "C05": {
        "engine": "txnsim",
        "level_text": "MVCC histories with leftover locks of every kind are produced by crashing writers at random points; a reader client reads through point get, batch get, forward and reverse scan (cold/warm cache, batch sizes 2/3/5/256, key-only, snapshot timestamp moved) at timestamps around every start/commit ts while writers run, after they ended and after recovery; every result is compared with the MVCC truth at its timestamp; fault-free reads must end within ttl + back-off budget",
        "level_note": "trusted: simkit, mock TiKV, truth read from the store after recovery; timestamps above the newest issued TSO are not read (not valid snapshots)",
        "level": "exploration",
        "modes": [
            {"mode": "reads", "quick": {"runs": 3000}, "thorough": {"runs": 120000}},
            {"mode": "reads-R", "quick": {"runs": 1500}, "thorough": {"runs": 80000}},
            # locks of a transaction that abandoned a primary: a resolver's cached verdict must not be applied to its later locks
            {"mode": "stalelock", "quick": {"runs": 300}, "thorough": {"runs": 12000}},
            {"mode": "stalelock-R", "quick": {"runs": 300}, "thorough": {"runs": 12000}},
        ],
        "rule": ("2-5 writer transactions on two clients (one or both crashed at a random RPC of a Commit: leftover pending / committed-primary / pessimistic locks), "
                 "splits, merges, leader moves and region errors; a third client performs 6-15 snapshot read groups (2-5 reads each on one snapshot object) over "
                 "get / batch-get with duplicates / iter / reverse iter with bounds on and off region borders; non-trivial = at least one transaction ended; "
                 "distinct = canonical RPC traces"),
        "real_vs_stub": REAL_TXN,
        "assumptions": ["backend M (mocktikv)", "reads at the max timestamp only after recovery"],
    },
    "C07": {
        "engine": "txnsim",
        "level_text": "long transactions mixing get / batch-get / iter / reverse-iter with sets, deletes and savepoint steps (staging, release, cleanup, checkpoint, revert) over committed data, while other transactions commit and the topology changes; every read is compared with the model snapshot-truth overlaid with a stack-of-maps buffer",
        "level_note": "trusted: simkit, mock TiKV, the map model; adversarial byte-string inputs for the in-memory tree are out of reach of this technique (C08, not applicable)",
        "level": "exploration",
        "modes": [
            {"mode": "ryw", "quick": {"runs": 3000}, "thorough": {"runs": 120000}},
            {"mode": "workload", "quick": {"runs": 1000}, "thorough": {"runs": 40000}},
            {"mode": "ryw-R", "quick": {"runs": 1000}, "thorough": {"runs": 50000}},
            {"mode": "directed", "quick": {"runs": 64}, "thorough": {"runs": 64}},
        ],
        "rule": ("mode ryw: a preloading transaction, 1-2 transactions of 3-14 steps with savepoints, 0-2 concurrent committers, region errors / splits / merges / leader moves; "
                 "mode workload: the C01 mixed workload (reads of own writes); non-trivial = at least one transaction ended; distinct = canonical RPC traces"),
        "real_vs_stub": REAL_TXN,
        "assumptions": ["keys are few and short: the property's adversarial key sets belong to C08"],
    },
    "C09": {
        "engine": "locatesim",
        "level_text": "a real RegionCache (with its background goroutines) over the real CodecPDClient over a simulated PD (answers parked, delayed, reordered between concurrent lookups, or computed from a topology snapshot k events old for follower-allowed requests) over mocktikv.Cluster (1-3 stores, 1-6 regions); events from the seed: split (either half keeps the id), merge (into either neighbour), leader transfer, add / remove peer, store stop / start, cache TTL expiry, InvalidateCachedRegion, OnRegionEpochNotMatch, OnSendFail; 1-3 actors call every lookup API (LocateKey, LocateEndKey, TryLocateKey, LocateRegionByID, LocateKeyRange, BatchLocateKeyRanges, GroupKeysByRegion, BatchLoadRegions*, ListRegionIDsInKeyRange, LoadRegionsInKeyRange) from cold / warm / partially invalidated / expired caches and send Get / RawGet through a real RegionRequestSender to the mock store; oracles: containment of the key asked for, gap-free in-order coverage of every requested range incl. an unbounded last region, key grouping is a partition into containing regions, white-box non-regression of the sorted index at check points around every delivered PD answer / store response / event (an installed entry is not older than the valid entry of the same region id, nor than a valid entry that starts inside its range), convergence after the last event (every Get reaches the current leader within 30 simulated s / 200 requests), no panic",
        "level_note": "trusted: the simulated PD (consistent snapshots, stale only for follower-allowed requests), the mock cluster as topology ground truth, the readings stated in sim/engines/locatesim/CHECK.md (wider stale entries that start before a new entry are not judged, as the property's mechanism text says); <= 6 regions, so the continuation paths for more than 128 regions per PD batch are not reached",
        "level": "exploration",
        "modes": [
            {"mode": "mix", "quick": {"runs": 6000}, "thorough": {"runs": 160000}},
            {"mode": "batch", "quick": {"runs": 3008}, "thorough": {"runs": 80000}},
            {"mode": "send", "quick": {"runs": 3008}, "thorough": {"runs": 80000}},
        ],
        "rule": "seeded actor programs over all lookup APIs, topology events and PD answer schedules; non-trivial = at least three calls returned a result and the run had more than one region or at least one applied event; distinct = canonical traces A third of the multi-store runs have a TiFlash store holding a learner peer of every region (TiKV followers removed and re-added later are then listed behind it).",
        "real_vs_stub": "real code: internal/locate (RegionCache with background goroutines, SortedRegions, CodecPDClient, store cache, RegionRequestSender, replica selector), config/retry, internal/apicodec (v1), tikvrpc, internal/mockstore/mocktikv (Cluster, RPCClient, Session checks, MVCC store); stub: PD region queries (simPD over snapshots of the mock cluster), gRPC client (simClient), store liveness probe, clock",
        "assumptions": ["every region always has a leader known to PD; one store down at a time", "a PD answer is a consistent snapshot (current or k events old), never a list with holes", "no buckets, down / pending peers, TiFlash, witnesses, forwarding; API v1 transactional key mode", "LocateEndKey is never called with an empty key (known finding F1)"],
    },
    "C15": {
        "engine": "keyspacesim",
        "level_text": "keyspace-bound clients (transactional: tikv.NewTestKeyspaceTiKVStore with codec v2; raw: rawkv.Client with API v2) for keyspace A, drawn from 14 ids incl. ones that carry into the next byte, and for its two neighbours A-1 and A+1, over the simulated network and PD against one shared store (repo mock / reference TiKV model) that also holds sentinel records just outside A's bounds and v1-style records; region borders exactly on keyspace prefixes and ends, inside keyspaces, spanning both bounds, or one region for everything (memcomparable region keys); splits, merges, leader moves, region errors incl. an EpochNotMatch that lists every region and KeyNotInRegion; workloads: optimistic / pessimistic / async-commit / 1PC / pipelined transactions with get, batch get, scans in both directions with empty bounds, lock keys, a writer crashed inside Commit whose locks survivors scan, resolve and read through, ScanLocks, ResolveLocksForRange, DeleteRange, SplitRegions, raw put / get / delete / batch ops / scans / delete-range / checksum / CAS; oracles: per-keyspace model over LOGICAL keys (sorted map / committed versions) and final store state, a reflective wire monitor below the codec (every key-bearing field of every request inside [prefix, end], context carries V2 and the keyspace id), above the codec (no response, lock, key-error or region-descriptor key still prefixed) and at API level (error keys, lock descriptions, LocateKey bounds logical), isolation audit (everything outside A byte-identical before and after), request-storm liveness, and for every command that crosses: context attach, region-error synthesis, batch conversion",
        "level_note": "trusted: the models, the wire monitor's field list, the front that supplies what the mock lacks (see sim/engines/keyspacesim/CHECK.md); the property's quantifier over the whole command catalogue is input enumeration, not something a simulated execution provides: it is decided by the auxiliary mode catalogue (NOT a simulation: one complete enumeration of the 53 named command types paired with their request messages by reflection - context attach, region-error synthesis and read-back, batched wire form in both directions, and the API v2 codec with every key-bearing field filled, request and response direction; counters catalogue.* say per command what was judged and what is outside a clause), while the simulated modes list which command types crossed the wire (about 31); unbounded reverse scans are judged only in layouts where every keyspace lies within one region (known finding F1 applies to both codecs alike)",
        "level": "exploration",
        "modes": [
            {"mode": "txn", "quick": {"runs": 3008}, "thorough": {"runs": 100000}},
            {"mode": "txn-R", "quick": {"runs": 3008}, "thorough": {"runs": 100000}},
            {"mode": "locks", "quick": {"runs": 2000}, "thorough": {"runs": 60000}},
            {"mode": "locks-R", "quick": {"runs": 2000}, "thorough": {"runs": 60000}},
            {"mode": "raw", "quick": {"runs": 3008}, "thorough": {"runs": 100000}},
            {"mode": "pipe-R", "quick": {"runs": 2000}, "thorough": {"runs": 50000}},
            {"mode": "catalogue", "quick": {"runs": 16}, "thorough": {"runs": 16}},
        ],
        "rule": "seeded programs per keyspace with topology events and region errors; non-trivial = not aborted, at least 5 judged calls and at least 2 command types crossed the wire; distinct = canonical RPC traces of the live clients",
        "real_vs_stub": "real code: internal/apicodec (v2), tikv.CodecClient, locate.CodecPDClient with keyspace, tikv.KVStore, rawkv.Client, txnkv/transaction, txnkv/txnsnapshot, txnkv/txnlock, txnkv/rangetask, tikv/gc.go, tikv/split_region.go, internal/locate, config/retry, tikvrpc; server: mocktikv RPC server + MVCCLevelDB (modes without suffix, raw commands executed on the mock's raw engine by the front), reference model sim/refkv (modes -R); stub: network, PD (SimPD with a wrapper serving LoadKeyspace), clock, store liveness",
        "assumptions": ["no key or region border that is a proper prefix of a keyspace end bound with trailing zero bytes", "no message is lost except at the planned writer crash", "raw TTLs are not used"],
    },
    "C16": {
        "engine": "pipesim",
        "level_text": "mode buffer: the real PipelinedMemDB with a simulator-owned flush function (parks in the simulator, which decides from the seed when each flush ends relative to the next reads and writes and whether it fails, fully or after n mutations) and buffer getter; seeded programs of Set / Delete / flags / Get / GetLocal / BatchGet / Flush(force or threshold-driven) / FlushWait / Staging / Release / Cleanup under three threshold families; oracle: a three-level map model {mutable, flushing, flushed}: every read returns the latest write at any level, deletions hide, every buffered mutation is handed to exactly one flush, generations +1, at most one flush in flight, a flush error is reported and nothing is lost silently, the cache never serves a value staler than a flush; modes txn / txn-faults: a real pipelined KVTxn (flush / resolve concurrency varied, thresholds lowered through the existing failpoints) over the simulated network against the reference TiKV model (Flush with generations, BufferBatchGet, range ResolveLock), region borders on the smallest / largest flushed key, single flushed key, rollback after one flush, flush RPC failures; oracle: reads inside the transaction, after Commit / Rollback and the end of the background work no lock of the transaction is left anywhere (mode txn: only retried faults), one outcome decided on the primary on every flushed key, later and concurrent readers see exactly it (txn-faults: lossy faults, judged after recovery)",
        "level_note": "trusted: the three-level model, the reference TiKV model sim/refkv (its Flush ignores assertions and CheckNotExists existence, so the generator avoids insert-then-delete within one generation), the application obeys the documented rules (no use after a reported flush error except rollback); one writing pipelined transaction per run",
        "level": "exploration",
        "modes": [
            {"mode": "buffer", "quick": {"runs": 32000}, "thorough": {"runs": 800000}},
            {"mode": "txn", "quick": {"runs": 6400}, "thorough": {"runs": 160000}},
            {"mode": "txn-faults", "quick": {"runs": 4800}, "thorough": {"runs": 80000}},
        ],
        "rule": "buffer: seeded programs with explicit flush ends; non-trivial = a read or write executed while a flush was parked, or a flush failure was reported; txn*: non-trivial = the transaction began, a Flush RPC of it executed and the end call was reached; distinct = canonical step / RPC traces",
        "real_vs_stub": "real code: internal/unionstore (PipelinedMemDB, ART), txnkv/transaction (pipelined flush, committer, ttl manager), txnkv/txnsnapshot (buffer tier), txnkv/rangetask, txnkv/txnlock, internal/locate, config/retry; stub: PD/TSO, network (SimTransport), TiKV = reference model sim/refkv; mode buffer: the flush function and the buffer getter are the simulator",
        "assumptions": ["single goroutine per transaction; flag operations outside staging levels", "conflicts between two pipelined writers are not explored"],
    },
    "C10": {
        "engine": "sendsim",
        "level_text": "one RegionRequestSender.SendReqCtx / SendReqAsync call at a time on the simulated clock against a 3-replica region (variants: learner, unreachable / slow stores, labels, forwarding); a client stub answers attempt i from a fault script over the property's alphabet (17 concrete symbols + ok; tails either ok or 'repeat the last n symbols forever'); ALL scripts of length <= 3 x 2 tails x 19 configurations are enumerated (198360 scenarios), longer scripts are sampled with replica-read mode, command kind, budgets, deadlines, cancellation, validator verdicts; oracle: the call returns within a stated simulated-time / attempt budget, no more than 64 consecutive attempts without simulated time passing, a returned success is pointer-identical to the stub's answer to the last attempt, returned region errors were delivered or are the client's fake one, writes never carry replica-read / stale-read flags, no attempt after a rejected validation, every re-send carries the retry marker",
        "level_note": "trusted: the scripted client stub (follows the real client's conventions), the budgets stated in sim/engines/sendsim/CHECK.md; the enumeration is complete for scripts up to length 3 only",
        "level": "fault_enumeration",
        "modes": [
            {"mode": "enum", "quick": {"runs": 200000}, "thorough": {"runs": 200000}},
            {"mode": "random", "quick": {"runs": 40000}, "thorough": {"runs": 1000000}},
        ],
        "rule": ("mode enum: run index = (script of length <= 3 over 17 fault symbols, tail, configuration), complete and independent of the seed; mode random: seeded scripts up to length 12 crossed with "
                 "configurations; non-trivial = the call made at least two attempts; distinct = canonical attempt logs (target, flags, pause, answer)"),
        "real_vs_stub": "real code: internal/locate RegionRequestSender, replicaSelector, RegionCache (with background goroutines), store cache, config/retry Backoffer, tikvrpc; stub: tikv.Client (scripted answers), PD = the repo's mock PD over mocktikv.Cluster, store liveness through the package's testing knob",
        "assumptions": ["one call at a time (no concurrent senders on one cache)"],
    },
    "C11": {
        "engine": "rawsim",
        "level_text": "a real rawkv.Client over the simulated network / PD against the mock raw engine; 1-3 actors issue all 14 API calls over keys on and off region borders, duplicates in batches, empty bounds, limits ending on borders, TTLs, CAS, checksum, while regions split / merge / change leader between the region lookup and the request and between the partial requests of one call (scheduled events and RPC-attached topology fates) and region errors are injected; mode exact (no lost message): with one actor every result is compared operation by operation with a sorted-map model, with several actors per-key linearizability (porcupine); mode lossy adds lost / duplicated messages and checks per-key linearizability with maybe-applied writes",
        "level_note": "trusted: the sorted-map model, the thin front in sim/engines/rawsim/world.go that supplies what the mock raw engine lacks (protobuf round trip, TTL in simulated time, CAS on an absent key, key-only, region check of batch delete) and audits routing; porcupine searches are step-bounded (Unknown = inconclusive, counted)",
        "level": "exploration",
        "modes": [
            {"mode": "exact", "quick": {"runs": 6400}, "thorough": {"runs": 64000}},
            {"mode": "lossy", "quick": {"runs": 3200}, "thorough": {"runs": 64000}},
        ],
        "rule": "seeded programs of 1-3 actors over raw keys with topology events; non-trivial = at least one multi-region call ran and a fault or topology event fired; distinct = canonical RPC traces",
        "real_vs_stub": "real code: rawkv.Client, internal/kvrpc, internal/locate (region cache, sender), config/retry, mocktikv raw handlers and raw engine; stub: transport (SimTransport), PD (SimPD over the mock cluster with raw-mode TiKV-faithful split/merge), clock",
        "assumptions": ["API v1 raw mode, default column family"],
    },
    "C13": {
        "engine": "oraclesim",
        "level_text": "the real pdOracle (with its updater goroutine), KVStore.GetTimestampWithRetry and KVTxn.GetTimestampForCommit over a simulated PD whose allocation and answer are separate events with latencies 0.1 ms - 3 s (answers overtake each other), clock skew, lost requests / answers; 1-8 callers issue every API of the property incl. interval changes and sleeps that drive the adaptive interval through its states; mode cas adds the verif yield points in setLastTS / validation so that the seeded scheduler interleaves the compare-and-swap loop; oracle over the recorded history with PD's issuance log as ground truth: real-time order and distinctness of issued timestamps, monotone and never-ahead low-resolution timestamp, IsExpired == (UntilExpired <= 0), commit-wait result > constraint or error, validation accepts everything issued before the call and rejects everything beyond what PD has issued when it returns",
        "level_note": "trusted: the simulated PD / TSO log, the readings stated in sim/engines/oraclesim/CHECK.md (MaxUint64 = 'read latest' marker: refused for stale reads, not judged for normal reads; a timestamp issued during the call may get either answer)",
        "level": "exploration",
        "modes": [
            {"mode": "calls", "quick": {"runs": 4000}, "thorough": {"runs": 50000}},
            {"mode": "cas", "quick": {"runs": 8000}, "thorough": {"runs": 100000}},
            # the commit-wait clause on the commit timestamps whole transactions really get (engine txnsim, reference
            # backend: 2PC, async commit, 1PC; causal consistency on / off)
            {"mode": "commitwait-R", "engine": "txnsim", "quick": {"runs": 1000}, "thorough": {"runs": 40000}},
        ],
        "rule": "seeded caller programs and PD latencies; mode cas: seeded release order of parked goroutines at the yield points; non-trivial = at least two callers overlapped; distinct = canonical call histories",
        "real_vs_stub": "real code: oracle/oracles.pdOracle, oracle/oracle.go, tikv.KVStore timestamp retry, KVTxn.GetTimestampForCommit; stub: PD/TSO (simulated), TiKV client (never used), clock",
        "assumptions": ["lock TTLs in 0..600000 ms (IsExpired / UntilExpired arithmetic overflows only near 2^63 ms)"],
    },
    "C18": {
        "engine": "batchsim",
        "level_text": "the real RPCClient / connection pool / batchConn / priority queue / send and receive loops / stream re-creation with the real Backoffer run over a SIMULATED BatchCommands stream (verif seam in internal/client: dial, connection-ready wait and stream creation; nine yield points); 2-32 callers send payload-tagged requests (sync and async API) with priorities, time-outs, contexts cancelled at seed-chosen instants, forwarding hosts, Close / CloseAddr at a seed-chosen instant; the simulator delays, reorders and regroups responses, answers unknown and duplicate ids, breaks the stream on Recv and / or Send, makes re-creation fail n times; a third of the runs send region-wide ResolveLock calls through the collapsing wrapper (client_collapse.go: overlapping calls of one region and transaction share one request on the wire; about half of them are merged); mode nodeadline gives 70 % of the asynchronous calls no deadline at all, so that 'returns exactly once' has to come from the library alone; oracle: every call returns exactly once with the tag of its own request or an allowed error class, never blocked beyond its time-out plus a stated slack, no call left blocked after Close, no panic, no goroutine left",
        "level_note": "trusted: the simulated stream (Send never parks because the library calls it under its try-lock; Recv parks), the echo server; about 1-2 % of runs are not bit-for-bit replayable because of Go's random choice among ready select cases inside the library (violations are reported only after two confirming replays)",
        "level": "exploration",
        "modes": [
            {"mode": "mix", "quick": {"runs": 16000}, "thorough": {"runs": 400000}},
            {"mode": "nofault", "quick": {"runs": 4000}, "thorough": {"runs": 32000}},
            {"mode": "ambig", "quick": {"runs": 4000}, "thorough": {"runs": 64000}},
            # asynchronous calls without any deadline: "returns exactly once" has to come from the library alone
            # (known findings F42, F43 on the unchanged tree; a request that was SENT and is lost on close is new)
            {"mode": "nodeadline", "quick": {"runs": 4000}, "thorough": {"runs": 100000}},
        ],
        "rule": "seeded caller programs, fault plans and yield release orders; non-trivial = a call got its own response and a fault fired or a batch carried more than one request; distinct = canonical traces of dials, streams, sends, deliveries, breaks, returns The first wait for a connection may take 1-80 ms of simulated time (net.slow_connect) while the send loop holds its first batch; 15 % of the synchronous calls carry a context deadline later than their own time-out.",
        "real_vs_stub": "real code: internal/client (client.go, client_batch.go, conn_batch.go, client_async.go, conn_pool.go, priority_queue.go); stub: gRPC connection and BatchCommands stream (simulated), echo server, clock",
        "assumptions": ["interleavings inside batchCommandsClient.send are not explored"],
    },
    "C12": {
        "engine": "mvccdiff",
        "level_text": "the repository's mock store (MVCCLevelDB methods and the ResolveLock / ScanLock RPC handlers) and a reference MVCC model receive the same stream of protocol commands of up to 4 virtual transactions over 4 keys - delivered late, reordered and duplicated as a lossy network would, with TSO-style pairwise distinct timestamps in all relative orders - and every answer (value, error class) and the full per-key state (lock fields, write records) are compared after every command",
        "level_note": "trusted: the reference model sim/refkv (TiKV semantics where the statement names TiKV; two documented readings where the statement is silent: which of several applicable errors is reported first, no existence check in the prewrite of a pessimistic transaction); deadlock and key-is-locked answers are one class; seeded sampling",
        "level": "exploration",
        "modes": [
            {"mode": "full", "quick": {"runs": 24000}, "thorough": {"runs": 1200000}},
            {"mode": "short", "quick": {"runs": 16000}, "thorough": {"runs": 800000}},
            {"mode": "enum", "quick": {"runs": 71000}, "thorough": {"runs": 2900000}},
        ],
        "rule": ("mode full: 4-27 fresh commands (prewrite optimistic/pessimistic with put/del/lock/insert/check-not-exists, pessimistic lock/rollback, commit, batch rollback, cleanup, "
                 "check-txn-status, heart-beat, resolve single/batch incl. through the RPC handler, scan-lock incl. through the RPC handler with range and limit, GC, get, batch get, scan, reverse scan), "
                 "25% delivered up to 12 slots late, 14% duplicated; mode short: 2-6 commands; the property's input constraints are enforced on the delivered sequence; "
                 "non-trivial = at least 3 delivered commands; distinct = distinct (command, answer) logs"),
        "real_vs_stub": "real code: internal/mockstore/mocktikv MVCCLevelDB (on in-memory goleveldb) and its RPC handlers for ResolveLock/ScanLock; reference: sim/refkv (written for this work)",
        "assumptions": ["commands are applied one at a time (the mock serialises them under its mutex)", "keys are short and few; key encoding is C19 (not applicable)"],
    },
    "C14": {
        "engine": "txnsim",
        "level_text": "leftover locks of every kind (writers crashed at random points of Commit, pessimistic locks, committed primaries with unresolved secondaries), 1-6 regions with splits/merges/leader moves while the GC phase runs; then (1) a recording range-task handler checks that RunOnRange hands out consecutive, non-overlapping sub-ranges covering exactly the requested range incl. the unbounded end, and propagates a handler failure, (2) KVStore.GC or ResolveLocksForRange with scan limits 1/2/3/8 and worker concurrency 1-8 must leave no lock at or below the safe point, every transaction atomically committed or rolled back (shared MVCC oracle), reads consistent, (3) a read below the cached transaction safe point is refused with aborted-by-GC and a read at it is served, (4) DeleteRangeTask removes exactly [start,end)",
        "level_note": "trusted: simkit, mock TiKV (with the ScanLock / batch ResolveLock handler fixes of this work), MVCC truth read from the store; the mock PD's GC state is per client",
        "level": "exploration",
        "modes": [
            {"mode": "gc", "quick": {"runs": 2400}, "thorough": {"runs": 100000}},
            {"mode": "gc-R", "quick": {"runs": 1200}, "thorough": {"runs": 60000}},
        ],
        "rule": ("mode gc: mode reads' writers and crashes, extra region splits, a GC plan from the seed (range bounds incl. empty = unbounded, regions per task 1-3, concurrency 1-8, "
                 "scan limit 0 (KVStore.GC) / 1 / 2 / 3 / 8, optional injected handler failure, optional delete-range); non-trivial = at least one transaction ended; distinct = canonical RPC traces Request-attached topology fates on GC requests include topo-merge-aft (the region absorbs its right neighbour right after a ScanLock / ResolveLock was executed)."),
        "real_vs_stub": REAL_TXN + "; also real: tikv/gc.go, txnkv/rangetask, tikv/safepoint.go cache",
        "assumptions": ["backend M (mocktikv)", "populations are small (<= 6 keys): 'any number of locks per region relative to the scan limit' is explored through small limits"],
    },
    "C17": {
        "engine": "latchsim",
        "level_text": "the real Latches / LatchesScheduler; mode direct-enum enumerates completely every scenario of 1-3 transactions x 1-2 colliding keys with every relative timestamp order and, inside each, every interleaving of acquire/release steps at method and slot granularity (states merged); mode direct samples 2-4 transactions x 1-3 keys; mode sched runs the scheduler goroutine and 2-4 callers with every shared-memory step (verif-tagged yield points in acquireSlot / releaseSlot / wakeup / Lock) released one at a time by the seeded simulator; mode direct-wide samples one slot with six keys, four transactions and TSO-scaled timestamps minutes apart, which makes the slot-list recycling run; a per-KEY reference latch model checks exclusivity, the exact staleness verdict and progress (every Lock returns within a step bound after the last unlock)",
        "level_note": "trusted: the per-key reference model (sim/engines/latchsim/model.go), the hook placement (never under a mutex); exhaustive only at the stated step granularity on one thread; mode direct-wide (one slot, six keys, four transactions, TSO-scaled timestamps minutes apart) makes the slot-list recycling run; the recycling deliberately forgets released keys, which is recorded as known finding F28",
        "level": "exploration",
        "modes": [
            {"mode": "direct-enum", "quick": {"runs": 90000}, "thorough": {"runs": 400000}},
            {"mode": "direct", "quick": {"runs": 1600}, "thorough": {"runs": 16000}},
            {"mode": "sched", "quick": {"runs": 16000}, "thorough": {"runs": 160000}},
            {"mode": "direct-wide", "quick": {"runs": 3200}, "thorough": {"runs": 160000}},
            # the scheduler as the transactional client uses it (engine txnsim: stores with local latches enabled)
            {"mode": "latch", "engine": "txnsim", "quick": {"runs": 6000}, "thorough": {"runs": 150000}},
        ],
        "rule": ("direct-enum: run index = scenario of the complete enumeration (every shape x every timestamp order x {no commit fails, the commit of transaction f fails and it unlocks without a commit ts}; the enumeration ends by itself: 82200 scenarios in the quick tier, more with the thorough tier's larger key pool), all step interleavings explored inside a run; "
                 "direct: seeded scenarios, exploration cut at 3000 distinct states; sched: seeded schedules of parked goroutines; non-trivial = at least two transactions contend; distinct = canonical step histories; mode latch: 3-7 mostly optimistic transactions of 1-2 stores that run with 1 / 2 / 8 / 256 latch slots over 2-4 keys (multi-key commits, stale refusals), region errors and topology changes in a quarter of the runs; judged: no transaction stays inside Commit once nothing is in flight and nothing was sent for five simulated minutes"),
        "real_vs_stub": "modes direct*, sched (engine latchsim): real code internal/latch (latch.go, scheduler.go) with the verif yield hooks; nothing stubbed. Mode latch (engine txnsim): the scheduler as KVTxn.Commit uses it - real tikv.KVStore with EnableTxnLocalLatches, txnkv/transaction, internal/latch, the repository's mock TiKV; stub: transport, PD/TSO, clock (as for C01)",
        "assumptions": ["memory-model effects below the granularity of the yield points are out of scope"],
    },
    "C20": {
        "engine": "backoffsim",
        "level_text": "the real retry.Backoffer runs on the simulated clock; generated programs (back-offs over own and exported kinds with per-call maxima, budgets 0..700 s, weights 1-3, clone / fork groups in the library's three usage shapes on concurrent goroutines / merge / reset) with a canceller and a killer acting at seed-chosen instants incl. mid-sleep; a shadow model of what every lineage really slept judges every call: budget plus one step, excluded-kind limit, per-call maximum and cap, exhaustion error kind, cancellation and kill behaviour, fork/clone start and merge accounting; tiny programs are enumerated completely up to length 3 (quick) / 4 (thorough)",
        "level_note": "trusted: the shadow model (sim/engines/backoffsim/CHECK.md lists every demand and the reading chosen where the sentence is open: budget 0 = unlimited, a kill is only observed after the running sleep, fork merges follow the library's usage discipline)",
        "level": "exploration",
        "modes": [
            {"mode": "forks", "quick": {"runs": 20000}, "thorough": {"runs": 400000}},
            {"mode": "seq", "quick": {"runs": 32000}, "thorough": {"runs": 400000}},
        ],
        "rule": ("mode seq: one goroutine (every 2nd run from the complete enumeration of tiny programs over a 10-step alphabet x 12 budget/weight combinations, the others seeded samples); "
                 "mode forks: plus concurrent fork groups, cancellation of fork contexts, merges; non-trivial = at least two calls really slept and (forks) a group with >= 2 concurrent members ran; "
                 "distinct = canonical traces of all calls with instants, slept time, error class, counters Programs contain SetCtx steps (a context of its own, not derived from the old one, after the back-offer was used) whose cancel function the canceller may fire."),
        "real_vs_stub": "real code: config/retry (Backoffer, Config, back-off functions), kv.Variables; nothing stubbed except the clock (testing/synctest) and math/rand seeding",
        "assumptions": ["limits and caps are read from the library's objects through a read-only export shim, never copied"],
    },
    "C06": {
        "engine": "txnsim",
        "level_text": "contending transactions with failing LockKeys steps under region errors and topology changes but no message loss; TTLs are set so that nothing can expire; once the clients' background work has drained the store is scanned for locks of ended transactions",
        "level_note": "trusted: simkit, drain detection (no RPC in flight or submitted for 12 simulated seconds), lock dump read from the store object",
        "level": "exploration",
        "modes": [
            {"mode": "leftover", "quick": {"runs": 3000}, "thorough": {"runs": 120000}},
            {"mode": "leftover-R", "quick": {"runs": 1500}, "thorough": {"runs": 80000}},
        ],
        "rule": ("2-5 contending transactions (70% pessimistic) with LockKeys option mixes (wait/no-wait/timeouts, return-values, check-existence), "
                 "commit/rollback; region errors, delays, splits, merges and leader moves injected, never a lost message; lock TTLs set to 10 simulated minutes so "
                 "nothing can expire; after all transactions ended the simulator waits until no RPC was in flight or submitted for 12 simulated seconds and "
                 "then lists the locks in the store; non-trivial = at least two transactions ended; distinct = canonical RPC traces"),
        "real_vs_stub": REAL_TXN,
        "assumptions": ["backend M (mocktikv)", "aggressive-locking call sequences are generated only in the reference-backend configuration"],
    },
}

NOT_APPLICABLE = [
    {"property_id": "C08", "reason": "pure function of an operation sequence on a single-threaded in-memory structure: no schedule, clock, I/O, fault or second party for a simulator to control (DESIGN.md section 4)"},
    {"property_id": "C19", "reason": "pure functions of their input (memory-comparable codecs): nothing for a scheduler, clock or fault to act on (DESIGN.md section 4)"},
]

# quick tier of the transactional engine: four times the first budgets (a run costs about 1 ms of a core; every property
# still finishes well under a minute on 16 cores)
for _p in ("C01", "C02", "C03", "C04", "C05", "C06", "C07", "C14"):
    for _m in PROPS[_p]["modes"]:
        if _m["mode"] != "directed":
            _m["quick"]["runs"] *= 4

# the other cheap engines: larger quick budgets as well (each still ends within about half a minute)
for _p, _f in (("C09", 4), ("C11", 4), ("C13", 3), ("C16", 3), ("C18", 3), ("C20", 2)):
    for _m in PROPS[_p]["modes"]:
        if "enum" not in _m["mode"]:
            _m["quick"]["runs"] *= _f

ENGINES = [
    {"name": "txnsim", "path": "sim/engines/txnsim", "serves_properties": ["C01", "C02", "C03", "C04", "C05", "C06", "C07", "C14"],
     "kind_free_text": "whole-system deterministic simulation of transactional clients (synctest bubble, simulated transport / PD / TSO, seeded fault injection, MVCC ground-truth oracles)"},
]

ENGINES.append({"name": "mvccdiff", "path": "sim/engines/mvccdiff", "serves_properties": ["C12"],
                "kind_free_text": "differential execution of the mock store against the reference MVCC model under a simulated lossy/reordering/duplicating delivery of protocol commands"})

ENGINES.append({"name": "backoffsim", "path": "sim/engines/backoffsim", "serves_properties": ["C20"],
                "kind_free_text": "the real Backoffer on the simulated clock with concurrent forks, seeded cancellation / kill instants and a shadow accounting model"})

ENGINES.append({"name": "latchsim", "path": "sim/engines/latchsim", "serves_properties": ["C17"],
                "kind_free_text": "exhaustive and seeded interleaving exploration of the local latch scheduler against a per-key reference model (yield hooks in internal/latch)"})

for _e in (("locatesim", ["C09"], "region cache over a simulated, reordering and stale PD with topology events; containment, coverage, index non-regression and convergence oracles"),
           ("keyspacesim", ["C15"], "keyspace-bound transactional and raw clients beside neighbour keyspaces and sentinels; logical-key models, reflective wire monitor, isolation audit"),
           ("pipesim", ["C16"], "pipelined buffer with a simulator-owned flush against a three-level model; pipelined transactions over the simulated network against the reference TiKV model"),
           ("sendsim", ["C10"], "fault-script enumeration and sampling for one RegionRequestSender call on the simulated clock"),
           ("rawsim", ["C11"], "raw KV client over the simulated network with topology changes; sorted-map model and per-key linearizability"),
           ("oraclesim", ["C13"], "pdOracle over a simulated, reordering PD; history oracle against the TSO issuance log; yield hooks for the CAS loop"),
           ("batchsim", ["C18"], "batch client over a simulated BatchCommands stream with stream breaks, cancellation, close; exactly-once / own-response oracle")):
    ENGINES.append({"name": _e[0], "path": "sim/engines/" + _e[0], "serves_properties": _e[1], "kind_free_text": _e[2]})

HOOK_COMMITS = ["a62b6a3 verif hook: internal/simhook yield points in the local latch scheduler",
                "d5b2db1 verif hook: yield points in pdOracle.setLastTS and getCurrentTSForValidation",
                "fc43e7d verif hook: simulated batch stream seam and yield points in the batch client",
                "2817407 verif hook: yield points at the start of a transaction's background goroutines"]
