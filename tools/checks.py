"""Table of registered checks: property -> engine, modes, budgets, evidence texts."""

REAL_TXN = ("real code: tikv.KVStore, txnkv/transaction, txnkv/txnsnapshot, txnkv/txnlock, internal/locate (region cache, "
            "request sender, replica selector), config/retry, oracle/oracles.pdOracle, internal/unionstore, internal/apicodec, "
            "internal/mockstore/mocktikv (RPC handlers + MVCCLevelDB + Cluster); stub: gRPC/batch client (SimTransport), PD (SimPD/TSO over "
            "the repo's mock cluster), wall clock (testing/synctest fake clock)")

PROPS = {
    "C01": {
        "engine": "txnsim",
        "level": "exploration",
        "modes": [
            {"mode": "workload", "quick": {"runs": 3000}, "thorough": {"runs": 120000}},
            {"mode": "nofault", "quick": {"runs": 1500}, "thorough": {"runs": 60000}},
        ],
        "rule": ("each evaluation is one simulated run: 2-6 generated transaction programs (optimistic/pessimistic; get, batch-get, "
                 "iter, reverse iter, set, insert, delete, lock-keys, commit/rollback) on 1-3 KVStore clients over 1-3 stores and 1-4 regions, "
                 "all RPC/TSO interleavings decided by the seeded simulator, with injected message loss, duplication, delay, region errors, "
                 "splits, merges and leader moves; a run is non-trivial when at least two transactions ran to their end; distinct = distinct "
                 "canonical RPC traces (hash of the sequence of request identities and fates)"),
        "real_vs_stub": REAL_TXN,
        "assumptions": [
            "the repository's mocktikv is the TiKV server (2PC, optimistic and pessimistic); async commit / 1PC need the reference backend",
            "ground truth is read from the store object directly (MvccGetByKey), never through the client under test",
            "seeded sampling of schedules and faults, not exhaustive",
        ],
    },
    "C02": {
        "engine": "txnsim",
        "level": "fault_enumeration",
        "modes": [
            {"mode": "crash", "quick": {"runs": 35 * 60}, "thorough": {"runs": 35 * 3000}},
        ],
        "rule": ("run index = shape x position: for every generated small transaction shape (1-4 keys over 1-3 regions, put/delete/insert/"
                 "lock-only, optimistic/pessimistic, with sampled companions: seed writer, readers, conflicting writer, split) the committing "
                 "client is crashed at every RPC position 0..15 of Commit in both variants (request never delivered / delivered but unanswered) "
                 "and at TSO positions 0..2; positions beyond the real request count are no-ops and are not counted as non-trivial; "
                 "non-trivial = the planned crash actually fired; distinct = distinct canonical RPC traces"),
        "real_vs_stub": REAL_TXN,
        "assumptions": ["client crash = permanent total partition of that client from TiKV and PD (DESIGN.md 2.4)",
                        "backend M (mocktikv): 2PC only", "position space is enumerated completely per shape, shapes and companions are sampled"],
    },
    "C03": {
        "engine": "txnsim",
        "level": "fault_enumeration",
        "modes": [
            {"mode": "faults", "quick": {"runs": 200 * 12}, "thorough": {"runs": 200 * 600}},
        ],
        "rule": ("run index = shape x fault placement: per shape every single fault from {drop request, drop response (immediate / time-out), "
                 "NotLeader, EpochNotMatch, ServerIsBusy, StaleCommand, region split, leader move, multi-second stall (lock outlives its ttl, "
                 "resolvers race the committer), duplicate} at every RPC position 0..11 of Commit, then 56 sampled double/triple placements; "
                 "non-trivial = a planned fault fired; distinct = distinct canonical RPC traces"),
        "real_vs_stub": REAL_TXN,
        "assumptions": ["backend M (mocktikv): 2PC only", "single faults enumerated per shape; pairs sampled"],
    },
    "C04": {
        "engine": "txnsim",
        "level": "exploration",
        "modes": [
            {"mode": "workload", "quick": {"runs": 1500}, "thorough": {"runs": 60000}},
            {"mode": "faults", "quick": {"runs": 1200}, "thorough": {"runs": 60000}},
            {"mode": "crash", "quick": {"runs": 700}, "thorough": {"runs": 35000}},
            {"mode": "leftover", "quick": {"runs": 800}, "thorough": {"runs": 30000}},
        ],
        "rule": ("a passive monitor over the complete wire trace (every tikvrpc request/response crossing the tikv.Client seam), the TSO issuance log "
                 "and the API history of every run of the transactional workloads (mixed workload, fault enumeration, crash enumeration, contention); "
                 "rules R1-R9 of DESIGN.md 3/C04, each with its own evaluation counter in fault_and_probe_counters (c04.*); non-trivial as in the source mode"),
        "real_vs_stub": REAL_TXN,
        "assumptions": ["the statement's tail is cut off in properties.jsonl; R9 covers what is legible", "backend M: no async commit / 1PC requests are produced"],
    },
    "C06": {
        "engine": "txnsim",
        "level": "exploration",
        "modes": [
            {"mode": "leftover", "quick": {"runs": 3000}, "thorough": {"runs": 120000}},
        ],
        "rule": ("2-5 contending transactions (70% pessimistic) with LockKeys option mixes (wait/no-wait/timeouts, return-values, check-existence), "
                 "commit/rollback; region errors, delays, splits, merges and leader moves injected, never a lost message; lock TTLs set to 10 simulated minutes so "
                 "nothing can expire; after all transactions ended the simulator waits until no RPC was in flight or submitted for 12 simulated seconds and "
                 "then lists the locks in the store; non-trivial = at least two transactions ended; distinct = canonical RPC traces"),
        "real_vs_stub": REAL_TXN,
        "assumptions": ["backend M (mocktikv)", "aggressive-locking call sequences are generated only in the reference-backend configuration"],
    },
}
