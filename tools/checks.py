"""Table of registered checks: property -> engine, modes, budgets, evidence texts."""

REAL_TXN = ("real code: tikv.KVStore, txnkv/transaction, txnkv/txnsnapshot, txnkv/txnlock, internal/locate (region cache, "
            "request sender, replica selector), config/retry, oracle/oracles.pdOracle, internal/unionstore, internal/apicodec, "
            "internal/mockstore/mocktikv (RPC handlers + MVCCLevelDB + Cluster); stub: gRPC/batch client (SimTransport), PD (SimPD/TSO over "
            "the repo's mock cluster), wall clock (testing/synctest fake clock)")

PROPS = {
    "C01": {
        "engine": "txnsim",
        "level": "exploration",
        "modes": [
            {"mode": "workload", "quick": {"runs": 3000}, "thorough": {"runs": 120000}},
            {"mode": "nofault", "quick": {"runs": 1500}, "thorough": {"runs": 60000}},
        ],
        "rule": ("each evaluation is one simulated run: 2-6 generated transaction programs (optimistic/pessimistic; get, batch-get, "
                 "iter, reverse iter, set, insert, delete, lock-keys, commit/rollback) on 1-3 KVStore clients over 1-3 stores and 1-4 regions, "
                 "all RPC/TSO interleavings decided by the seeded simulator, with injected message loss, duplication, delay, region errors, "
                 "splits, merges and leader moves; a run is non-trivial when at least two transactions ran to their end; distinct = distinct "
                 "canonical RPC traces (hash of the sequence of request identities and fates)"),
        "real_vs_stub": REAL_TXN,
        "assumptions": [
            "the repository's mocktikv is the TiKV server (2PC, optimistic and pessimistic); async commit / 1PC need the reference backend",
            "ground truth is read from the store object directly (MvccGetByKey), never through the client under test",
            "seeded sampling of schedules and faults, not exhaustive",
        ],
    },
}
