// Package refkv is a small executable reference model of TiKV's Percolator MVCC
// store: an ordered map of keys to {lock, write records}. It is the oracle of the
// C12 differential check of the repository's mock store and (with the RPC layer in
// server.go) the reference backend for commit modes the mock does not implement.
//
// Where TiKV and the repository's mock differ and the C12 statement names TiKV as the
// reference, this model follows TiKV.
package refkv

import (
	"bytes"
	"fmt"
	"math"
	"sort"

	"github.com/pingcap/kvproto/pkg/kvrpcpb"
)

// Lock is the lock on a key.
type Lock struct {
	StartTS     uint64
	Primary     []byte
	Op          kvrpcpb.Op // Put, Del, Lock, PessimisticLock
	Value       []byte
	TTL         uint64
	ForUpdateTS uint64
	TxnSize     uint64
	MinCommitTS uint64
	Async       bool
	Secondaries [][]byte
	Generation  uint64
}

// Write is one committed (or rollback) record of a key.
type Write struct {
	CommitTS uint64
	StartTS  uint64
	Kind     kvrpcpb.Op // Put, Del, Lock, Rollback
	Value    []byte
}

type keyState struct {
	lock   *Lock
	writes []Write // descending commit ts
}

// Store is the reference MVCC store.
type Store struct {
	keys map[string]*keyState
	// MaxTS is the greatest read / caller timestamp seen (async commit).
	MaxTS uint64
}

// New creates an empty store.
func New() *Store { return &Store{keys: map[string]*keyState{}} }

// Err is an error answer of the model.
type Err struct {
	Class    string // locked conflict exists txn-lock-not-found abort already-committed self-rolled-back commit-ts-expired txn-not-found assertion other
	Key      []byte
	StartTS  uint64 // the requesting transaction (conflict) / the attempted commit ts (commit-ts-expired)
	LockTS   uint64 // locked: owner; conflict: conflicting start ts
	CommitTS uint64 // already-committed / conflict commit ts / min commit ts
	Lock     *Lock
	Msg      string
	// Assertion: the assertion that failed (class assertion)
	Assertion kvrpcpb.Assertion
	// Also lists the other error classes that apply to the same request: which of several
	// applicable errors is reported first is not part of the reference semantics.
	Also []string
}

func (e *Err) Error() string {
	return fmt.Sprintf("%s key=%q ts=%d commit=%d %s", e.Class, e.Key, e.LockTS, e.CommitTS, e.Msg)
}

func (s *Store) ks(key []byte) *keyState {
	k := s.keys[string(key)]
	if k == nil {
		k = &keyState{}
		s.keys[string(key)] = k
	}
	return k
}

func (s *Store) peek(key []byte) *keyState {
	if k := s.keys[string(key)]; k != nil {
		return k
	}
	return &keyState{}
}

func (k *keyState) addWrite(w Write) {
	k.writes = append(k.writes, w)
	sort.SliceStable(k.writes, func(i, j int) bool { return k.writes[i].CommitTS > k.writes[j].CommitTS })
}

// recordOf returns the write record of transaction startTS on the key.
func (k *keyState) recordOf(startTS uint64) (Write, bool) {
	for _, w := range k.writes {
		if w.StartTS == startTS {
			return w, true
		}
	}
	return Write{}, false
}

func physical(ts uint64) uint64 { return ts >> 18 }

func lockedErr(key []byte, l *Lock) *Err {
	cp := *l
	return &Err{Class: "locked", Key: key, LockTS: l.StartTS, Lock: &cp}
}

// sortedKeys returns the keys of [start,end) in ascending order.
func (s *Store) sortedKeys(start, end []byte) []string {
	var out []string
	for k := range s.keys {
		if len(start) > 0 && k < string(start) {
			continue
		}
		if len(end) > 0 && k >= string(end) {
			continue
		}
		out = append(out, k)
	}
	sort.Strings(out)
	return out
}

func contains(ts []uint64, x uint64) bool {
	for _, t := range ts {
		if t == x {
			return true
		}
	}
	return false
}

// ReadOpts are the per-request read options.
type ReadOpts struct {
	Resolved  []uint64
	Committed []uint64
	RC        bool // read committed: locks are not checked
	// BypassByMinCommit: a lock whose min_commit_ts is above the read ts does not block (TiKV);
	// the repository's mock does not implement this.
	BypassByMinCommit bool
}

// Get returns the value visible at ts, or the blocking lock.
func (s *Store) Get(key []byte, ts uint64, o ReadOpts) ([]byte, uint64, *Err) {
	k := s.peek(key)
	if ts != math.MaxUint64 && ts > s.MaxTS {
		s.MaxTS = ts
	}
	readTS := ts
	if l := k.lock; l != nil && !o.RC && l.StartTS <= ts && (l.Op == kvrpcpb.Op_Put || l.Op == kvrpcpb.Op_Del) {
		switch {
		case ts == math.MaxUint64 && bytes.Equal(l.Primary, key):
			readTS = l.StartTS - 1 // point get of the latest version ignores the primary lock
		case contains(o.Resolved, l.StartTS):
		case contains(o.Committed, l.StartTS):
			if l.Op == kvrpcpb.Op_Put {
				return l.Value, 0, nil
			}
			return nil, 0, nil
		case o.BypassByMinCommit && l.MinCommitTS > ts:
		default:
			return nil, 0, lockedErr(key, l)
		}
	}
	for _, w := range k.writes {
		if w.CommitTS > readTS || w.Kind == kvrpcpb.Op_Rollback || w.Kind == kvrpcpb.Op_Lock {
			continue
		}
		if w.Kind == kvrpcpb.Op_Del {
			return nil, 0, nil
		}
		return w.Value, w.CommitTS, nil
	}
	return nil, 0, nil
}

// observe raises max_ts: every read, whatever it finds, forbids later async commits at or below its ts.
func (s *Store) observe(ts uint64) {
	if ts != math.MaxUint64 && ts > s.MaxTS {
		s.MaxTS = ts
	}
}

// Pair is a scan / batch-get result entry.
type Pair struct {
	Key   []byte
	Value []byte
	Err   *Err
}

// BatchGet reads several keys (absent keys are skipped, blocked keys are reported).
func (s *Store) BatchGet(keys [][]byte, ts uint64, o ReadOpts) []Pair {
	s.observe(ts)
	var out []Pair
	for _, k := range keys {
		v, _, err := s.Get(k, ts, o)
		if v == nil && err == nil {
			continue
		}
		out = append(out, Pair{Key: k, Value: v, Err: err})
	}
	return out
}

// Scan reads [start,end) in ascending order up to limit entries.
func (s *Store) Scan(start, end []byte, limit int, ts uint64, o ReadOpts) []Pair {
	s.observe(ts)
	var out []Pair
	for _, k := range s.sortedKeys(start, end) {
		if len(out) >= limit {
			break
		}
		v, _, err := s.Get([]byte(k), ts, o)
		if err != nil {
			out = append(out, Pair{Key: []byte(k), Err: err})
		} else if v != nil {
			out = append(out, Pair{Key: []byte(k), Value: v})
		}
	}
	return out
}

// ReverseScan reads [start,end) in descending order up to limit entries.
func (s *Store) ReverseScan(start, end []byte, limit int, ts uint64, o ReadOpts) []Pair {
	s.observe(ts)
	ks := s.sortedKeys(start, end)
	var out []Pair
	for i := len(ks) - 1; i >= 0 && len(out) < limit; i-- {
		k := ks[i]
		v, _, err := s.Get([]byte(k), ts, o)
		if err != nil {
			out = append(out, Pair{Key: []byte(k), Err: err})
		} else if len(v) != 0 {
			out = append(out, Pair{Key: []byte(k), Value: v})
		}
	}
	return out
}

// newestWrite returns the newest record of the key.
func (k *keyState) newestWrite() (Write, bool) {
	if len(k.writes) == 0 {
		return Write{}, false
	}
	return k.writes[0], true
}

// existsAtLatest reports whether the newest Put/Del record is a Put.
func (k *keyState) latestValue() ([]byte, bool) {
	for _, w := range k.writes {
		switch w.Kind {
		case kvrpcpb.Op_Put:
			return w.Value, true
		case kvrpcpb.Op_Del:
			return nil, false
		}
	}
	return nil, false
}

// existsAt reports whether a value is visible at ts (locks ignored).
func (k *keyState) existsAt(ts uint64) bool {
	for _, w := range k.writes {
		if w.CommitTS > ts {
			continue
		}
		switch w.Kind {
		case kvrpcpb.Op_Put:
			return true
		case kvrpcpb.Op_Del:
			return false
		}
	}
	return false
}

// checkNewer performs the write-conflict / own-rollback check against ts
// (start ts for prewrite, for-update ts for pessimistic locks).
func (k *keyState) checkNewer(key []byte, startTS, ts uint64) *Err {
	var self, conf *Err
	for _, w := range k.writes {
		if w.CommitTS < startTS {
			break
		}
		if w.Kind == kvrpcpb.Op_Rollback && w.CommitTS == startTS && w.StartTS == startTS {
			self = &Err{Class: "self-rolled-back", Key: key, LockTS: startTS}
		}
	}
	if w, ok := k.newestWrite(); ok && w.CommitTS > ts {
		conf = &Err{Class: "conflict", Key: key, StartTS: startTS, LockTS: w.StartTS, CommitTS: w.CommitTS}
	}
	switch {
	case self != nil && conf != nil:
		self.Also = []string{"conflict"}
		return self
	case self != nil:
		return self
	}
	return conf
}

// PrewriteOpts carries the request-level fields of a prewrite.
type PrewriteOpts struct {
	StartTS     uint64
	Primary     []byte
	TTL         uint64
	TxnSize     uint64
	ForUpdateTS uint64
	MinCommitTS uint64
	Actions     []kvrpcpb.PrewriteRequest_PessimisticAction
	Resolved    []uint64
	// async commit / 1PC
	Async       bool
	Secondaries [][]byte
	TryOnePC    bool
	MaxCommitTS uint64
	IsRetry     bool
	// MockSemantics switches the two definitional choices on which the repository's mock is
	// documented to differ from TiKV to the mock's behaviour (never used by the C12 oracle).
	SkipConstraintForUnlocked bool // TiKV: first-attempt prewrite of a non-locked key of a pessimistic txn skips the conflict check
	// NoExistenceCheckForPessimistic: a pessimistic transaction's prewrite does not check Insert /
	// CheckNotExists for existence (the check belongs to the lock request); the conflict check stays.
	// This is the mock's reading of a case on which the property is silent.
	NoExistenceCheckForPessimistic bool
	// AssertionLevel (TiKV's check_assertion): Off - mutation assertions are ignored; Fast - an assertion is judged
	// where the newest version was read for the conflict check anyway; Strict - always
	AssertionLevel kvrpcpb.AssertionLevel
	// ForceFallback: the store refuses async commit / 1PC for this request (answers min_commit_ts 0 and writes plain
	// locks), as TiKV does when the calculated commit ts would be too large: the client falls back to 2PC
	ForceFallback bool
}

// PrewriteResult is the answer to a prewrite.
type PrewriteResult struct {
	Errs        map[string]*Err // per key
	MinCommitTS uint64
	OnePCCommit uint64
}

// Prewrite applies a prewrite request: all mutations or none.
func (s *Store) Prewrite(muts []*kvrpcpb.Mutation, o PrewriteOpts) PrewriteResult {
	res := PrewriteResult{Errs: map[string]*Err{}}
	type pend struct {
		key  []byte
		lock *Lock
	}
	var pending []pend
	var maxMin uint64
	ownPlain := false
	for _, m := range muts {
		if m.Op == kvrpcpb.Op_Insert || m.Op == kvrpcpb.Op_CheckNotExists {
			// TiKV (prewrite.rs): "update max_ts for Insert operation to guarantee linearizability and snapshot
			// isolation" - the existence check is a read at start_ts: no async-commit / 1PC transaction may commit
			// at or below it afterwards
			s.observe(o.StartTS)
			break
		}
	}
	for i, m := range muts {
		k := s.peek(m.Key)
		action := kvrpcpb.PrewriteRequest_SKIP_PESSIMISTIC_CHECK
		if i < len(o.Actions) {
			action = o.Actions[i]
		}
		pessimisticTxn := o.ForUpdateTS != 0
		fail := func(e *Err) { res.Errs[string(m.Key)] = e }
		// lock check
		if l := k.lock; l != nil {
			if l.StartTS != o.StartTS {
				e := lockedErr(m.Key, l)
				if action == kvrpcpb.PrewriteRequest_DO_PESSIMISTIC_CHECK {
					e.Lock.TTL = 0 // tells the client to resolve unconditionally
				}
				if _, ex := k.latestValue(); ex && (m.Op == kvrpcpb.Op_Insert || m.Op == kvrpcpb.Op_CheckNotExists) {
					e.Also = append(e.Also, "exists")
				}
				if c := k.checkNewer(m.Key, o.StartTS, o.StartTS); c != nil {
					e.Also = append(e.Also, c.Class)
					e.Also = append(e.Also, c.Also...)
				}
				fail(e)
				continue
			}
			if l.Op != kvrpcpb.Op_PessimisticLock {
				// own prewrite lock: idempotent
				if m.Op != kvrpcpb.Op_CheckNotExists {
					if l.MinCommitTS > maxMin {
						maxMin = l.MinCommitTS
					}
					if (o.Async || o.TryOnePC) && !l.Async {
						// TiKV (check_lock): a duplicate over an own lock that is not an async-commit lock reports
						// min_commit_ts 0, which makes the whole request fall back to 2PC - the lock was written by an
						// attempt that had fallen back (or this is a 1PC retry: 1PC leaves no lock behind, so the first
						// attempt cannot have committed that way)
						ownPlain = true
					}
				}
				continue
			}
			// own pessimistic lock: converted below, no write-conflict re-check (TiKV)
		} else if action == kvrpcpb.PrewriteRequest_DO_PESSIMISTIC_CHECK {
			fail(&Err{Class: "abort", Key: m.Key, Msg: "pessimistic lock not found"})
			continue
		}
		ownPess := k.lock != nil && k.lock.StartTS == o.StartTS && k.lock.Op == kvrpcpb.Op_PessimisticLock
		if !ownPess {
			skip := pessimisticTxn && o.SkipConstraintForUnlocked && !o.IsRetry
			if !skip {
				_, exists := k.latestValue()
				shouldNotExist := (m.Op == kvrpcpb.Op_Insert || m.Op == kvrpcpb.Op_CheckNotExists) && !(pessimisticTxn && o.NoExistenceCheckForPessimistic)
				if e := k.checkNewer(m.Key, o.StartTS, o.StartTS); e != nil {
					if shouldNotExist && (exists || k.existsAt(o.StartTS)) {
						e.Also = append(e.Also, "exists")
					}
					fail(e)
					continue
				}
				if shouldNotExist && exists {
					fail(&Err{Class: "exists", Key: m.Key})
					continue
				}
			}
		}
		if m.Assertion != kvrpcpb.Assertion_None && o.AssertionLevel != kvrpcpb.AssertionLevel_Off {
			loaded := !ownPess && !(pessimisticTxn && o.SkipConstraintForUnlocked && !o.IsRetry)
			if loaded || o.AssertionLevel == kvrpcpb.AssertionLevel_Strict {
				_, exists := k.latestValue()
				if (m.Assertion == kvrpcpb.Assertion_Exist && !exists) || (m.Assertion == kvrpcpb.Assertion_NotExist && exists) {
					fail(&Err{Class: "assertion", Key: m.Key, LockTS: o.StartTS, Assertion: m.Assertion})
					continue
				}
			}
		}
		if m.Op == kvrpcpb.Op_CheckNotExists {
			continue
		}
		op := m.Op
		if op == kvrpcpb.Op_Insert {
			op = kvrpcpb.Op_Put
		}
		nl := &Lock{StartTS: o.StartTS, Primary: o.Primary, Op: op, Value: m.Value, TTL: o.TTL, TxnSize: o.TxnSize, ForUpdateTS: o.ForUpdateTS}
		if ownPess {
			if k.lock.TTL > nl.TTL {
				nl.TTL = k.lock.TTL
			}
		}
		minCommit := o.MinCommitTS
		if ownPess && k.lock.MinCommitTS > minCommit {
			minCommit = k.lock.MinCommitTS
		}
		if o.Async || o.TryOnePC {
			for _, c := range []uint64{s.MaxTS + 1, o.StartTS + 1, o.ForUpdateTS + 1} {
				if c > minCommit {
					minCommit = c
				}
			}
			nl.MinCommitTS = minCommit
			nl.Async = o.Async
			if bytes.Equal(m.Key, o.Primary) {
				nl.Secondaries = o.Secondaries
			}
			if minCommit > maxMin {
				maxMin = minCommit
			}
		} else if bytes.Equal(o.Primary, m.Key) {
			nl.MinCommitTS = minCommit
		}
		pending = append(pending, pend{m.Key, nl})
	}
	if len(res.Errs) > 0 {
		return res
	}
	fallback := (o.Async || o.TryOnePC) && (o.ForceFallback || ownPlain || (o.MaxCommitTS != 0 && maxMin > o.MaxCommitTS))
	if o.TryOnePC && !fallback {
		for _, p := range pending {
			k := s.ks(p.key)
			k.lock = nil
			k.addWrite(Write{CommitTS: maxMin, StartTS: o.StartTS, Kind: p.lock.Op, Value: p.lock.Value})
		}
		res.OnePCCommit = maxMin
		return res
	}
	for _, p := range pending {
		if fallback {
			p.lock.Async = false
			p.lock.Secondaries = nil
			if !bytes.Equal(p.key, o.Primary) {
				p.lock.MinCommitTS = 0
			}
		}
		s.ks(p.key).lock = p.lock
	}
	if (o.Async || o.TryOnePC) && !fallback {
		res.MinCommitTS = maxMin
	}
	return res
}

// commitLock turns the lock into a write record.
func (s *Store) commitLock(key []byte, commitTS uint64) {
	k := s.ks(key)
	l := k.lock
	kind := l.Op
	if kind == kvrpcpb.Op_PessimisticLock {
		kind = kvrpcpb.Op_Lock // committing a leftover pessimistic lock changes no data
	}
	k.lock = nil
	k.addWrite(Write{CommitTS: commitTS, StartTS: l.StartTS, Kind: kind, Value: l.Value})
}

// rollbackLock removes the lock (if own) and leaves a rollback marker.
func (s *Store) rollbackLock(key []byte, startTS uint64) {
	k := s.ks(key)
	if k.lock != nil && k.lock.StartTS == startTS {
		k.lock = nil
	}
	if _, ok := k.recordOf(startTS); !ok {
		k.addWrite(Write{CommitTS: startTS, StartTS: startTS, Kind: kvrpcpb.Op_Rollback})
	}
}

// Commit commits the keys: all or none.
func (s *Store) Commit(keys [][]byte, startTS, commitTS uint64) *Err {
	for _, key := range keys {
		k := s.peek(key)
		if k.lock == nil || k.lock.StartTS != startTS {
			if w, ok := k.recordOf(startTS); ok && w.Kind != kvrpcpb.Op_Rollback {
				continue
			}
			return &Err{Class: "txn-lock-not-found", Key: key, LockTS: startTS}
		}
		if k.lock.MinCommitTS > commitTS {
			return &Err{Class: "commit-ts-expired", Key: key, LockTS: startTS, CommitTS: k.lock.MinCommitTS}
		}
	}
	for _, key := range keys {
		k := s.peek(key)
		if k.lock != nil && k.lock.StartTS == startTS {
			s.commitLock(key, commitTS)
		}
	}
	return nil
}

// Rollback rolls the keys back: all or none.
func (s *Store) Rollback(keys [][]byte, startTS uint64) *Err {
	for _, key := range keys {
		k := s.peek(key)
		if k.lock != nil && k.lock.StartTS == startTS {
			continue
		}
		if w, ok := k.recordOf(startTS); ok && w.Kind != kvrpcpb.Op_Rollback {
			return &Err{Class: "already-committed", Key: key, CommitTS: w.CommitTS}
		}
	}
	for _, key := range keys {
		s.rollbackLock(key, startTS)
	}
	return nil
}

// Cleanup is the deprecated single-key rollback with ttl check.
func (s *Store) Cleanup(key []byte, startTS, currentTS uint64) *Err {
	k := s.peek(key)
	if k.lock != nil && k.lock.StartTS == startTS {
		if currentTS == 0 || physical(k.lock.StartTS)+k.lock.TTL < physical(currentTS) {
			s.rollbackLock(key, startTS)
			return nil
		}
		return lockedErr(key, k.lock)
	}
	if w, ok := k.recordOf(startTS); ok {
		if w.Kind != kvrpcpb.Op_Rollback {
			return &Err{Class: "already-committed", Key: key, CommitTS: w.CommitTS}
		}
		return nil
	}
	s.rollbackLock(key, startTS)
	return nil
}

// TxnStatus is the answer of CheckTxnStatus.
type TxnStatus struct {
	TTL      uint64
	CommitTS uint64
	Action   kvrpcpb.Action
	Lock     *Lock
}

// CheckTxnStatusV is CheckTxnStatus with the request's verify_is_primary flag (set by every current client): when the
// transaction's lock on the given key names another key as its primary, the key is not the primary - nothing is
// changed and the lock is returned with a primary-mismatch error, so that the caller can go to the real primary.
func (s *Store) CheckTxnStatusV(primary []byte, lockTS, callerStartTS, currentTS uint64, rollbackIfNotExist, resolvingPessimistic, forceSyncCommit, verifyIsPrimary bool) (TxnStatus, *Err) {
	if verifyIsPrimary {
		if k := s.peek(primary); k.lock != nil && k.lock.StartTS == lockTS && !bytes.Equal(k.lock.Primary, primary) {
			return TxnStatus{}, &Err{Class: "primary-mismatch", Key: primary, Lock: k.lock}
		}
	}
	return s.CheckTxnStatus(primary, lockTS, callerStartTS, currentTS, rollbackIfNotExist, resolvingPessimistic, forceSyncCommit)
}

// CheckTxnStatus inspects (and possibly expires or pushes) the primary lock.
func (s *Store) CheckTxnStatus(primary []byte, lockTS, callerStartTS, currentTS uint64, rollbackIfNotExist, resolvingPessimistic, forceSyncCommit bool) (TxnStatus, *Err) {
	if callerStartTS != math.MaxUint64 && callerStartTS > s.MaxTS {
		s.MaxTS = callerStartTS
	}
	k := s.peek(primary)
	if l := k.lock; l != nil && l.StartTS == lockTS {
		if l.Async && !forceSyncCommit {
			cp := *l
			return TxnStatus{TTL: l.TTL, Action: kvrpcpb.Action_NoAction, Lock: &cp}, nil
		}
		if physical(l.StartTS)+l.TTL < physical(currentTS) {
			if resolvingPessimistic && l.Op == kvrpcpb.Op_PessimisticLock {
				s.ks(primary).lock = nil
				return TxnStatus{Action: kvrpcpb.Action_TTLExpirePessimisticRollback}, nil
			}
			s.rollbackLock(primary, lockTS)
			return TxnStatus{Action: kvrpcpb.Action_TTLExpireRollback}, nil
		}
		action := kvrpcpb.Action_NoAction
		if callerStartTS == math.MaxUint64 {
			action = kvrpcpb.Action_MinCommitTSPushed
		} else if l.MinCommitTS > 0 {
			action = kvrpcpb.Action_MinCommitTSPushed
			if l.MinCommitTS < callerStartTS+1 {
				l.MinCommitTS = callerStartTS + 1
				if l.MinCommitTS < currentTS {
					l.MinCommitTS = currentTS
				}
			}
		}
		cp := *l
		return TxnStatus{TTL: l.TTL, Action: action, Lock: &cp}, nil
	}
	if w, ok := k.recordOf(lockTS); ok {
		if w.Kind != kvrpcpb.Op_Rollback {
			return TxnStatus{CommitTS: w.CommitTS}, nil
		}
		return TxnStatus{Action: kvrpcpb.Action_NoAction}, nil
	}
	if rollbackIfNotExist {
		if resolvingPessimistic {
			return TxnStatus{Action: kvrpcpb.Action_LockNotExistDoNothing}, nil
		}
		s.rollbackLock(primary, lockTS)
		return TxnStatus{Action: kvrpcpb.Action_LockNotExistRollback}, nil
	}
	return TxnStatus{}, &Err{Class: "txn-not-found", Key: primary, LockTS: lockTS}
}

// TxnHeartBeat extends the primary lock's ttl.
func (s *Store) TxnHeartBeat(key []byte, startTS, advise uint64) (uint64, *Err) {
	k := s.peek(key)
	if l := k.lock; l != nil && l.StartTS == startTS {
		if !bytes.Equal(l.Primary, key) {
			return 0, &Err{Class: "other", Key: key, Msg: "heart-beat on a non-primary key"}
		}
		if advise > l.TTL {
			l.TTL = advise
		}
		return l.TTL, nil
	}
	return 0, &Err{Class: "other", Key: key, Msg: "lock doesn't exist"}
}

// LockInfo describes a lock found by ScanLock.
type LockInfo struct {
	Key  []byte
	Lock Lock
}

// ScanLock lists the locks of [start,end) with start ts <= maxTS (limit 0 = unlimited).
func (s *Store) ScanLock(start, end []byte, maxTS uint64, limit int) []LockInfo {
	var out []LockInfo
	for _, k := range s.sortedKeys(start, end) {
		if l := s.keys[k].lock; l != nil && l.StartTS <= maxTS {
			out = append(out, LockInfo{Key: []byte(k), Lock: *l})
			if limit > 0 && len(out) >= limit {
				break
			}
		}
	}
	return out
}

// ResolveLock commits (commitTS>0) or rolls back every lock of startTS in [start,end) (or on keys).
func (s *Store) ResolveLock(start, end []byte, keys [][]byte, startTS, commitTS uint64) *Err {
	var targets []string
	if len(keys) > 0 {
		for _, k := range keys {
			targets = append(targets, string(k))
		}
	} else {
		targets = s.sortedKeys(start, end)
	}
	for _, k := range targets {
		ks := s.keys[k]
		if ks == nil || ks.lock == nil || ks.lock.StartTS != startTS {
			continue
		}
		if commitTS > 0 {
			s.commitLock([]byte(k), commitTS)
		} else {
			s.rollbackLock([]byte(k), startTS)
		}
	}
	return nil
}

// BatchResolveLock resolves the locks of several transactions in [start,end).
func (s *Store) BatchResolveLock(start, end []byte, infos map[uint64]uint64) *Err {
	for _, k := range s.sortedKeys(start, end) {
		ks := s.keys[k]
		if ks.lock == nil {
			continue
		}
		if c, ok := infos[ks.lock.StartTS]; ok {
			if c > 0 {
				s.commitLock([]byte(k), c)
			} else {
				s.rollbackLock([]byte(k), ks.lock.StartTS)
			}
		}
	}
	return nil
}

// GC drops the versions no read at or above safePoint can see; refuses over a lock at or below it.
func (s *Store) GC(start, end []byte, safePoint uint64) *Err {
	ks := s.sortedKeys(start, end)
	for _, k := range ks {
		if l := s.keys[k].lock; l != nil && l.StartTS <= safePoint {
			return &Err{Class: "other", Key: []byte(k), Msg: "lock under safe point"}
		}
	}
	for _, k := range ks {
		st := s.keys[k]
		var keep []Write
		kept := false
		for _, w := range st.writes {
			if w.CommitTS > safePoint {
				keep = append(keep, w)
				continue
			}
			switch w.Kind {
			case kvrpcpb.Op_Put:
				if !kept {
					keep = append(keep, w)
				}
				kept = true
			case kvrpcpb.Op_Del:
				kept = true
			}
		}
		st.writes = keep
	}
	return nil
}

// DeleteRange removes every version and lock of [start,end).
func (s *Store) DeleteRange(start, end []byte) {
	for _, k := range s.sortedKeys(start, end) {
		delete(s.keys, k)
	}
}

// PessimisticLockOpts carries the request-level fields of a pessimistic lock request.
type PessimisticLockOpts struct {
	StartTS          uint64
	ForUpdateTS      uint64
	Primary          []byte
	TTL              uint64
	MinCommitTS      uint64
	ReturnValues     bool
	CheckExistence   bool
	LockOnlyIfExists bool
	ForceLock        bool
}

// PessimisticKeyResult is the per-key result of a successful pessimistic lock request.
type PessimisticKeyResult struct {
	Value            []byte
	Exists           bool
	LockedWithConfTS uint64
}

// PessimisticLock locks all keys or none.
func (s *Store) PessimisticLock(muts []*kvrpcpb.Mutation, o PessimisticLockOpts) ([]PessimisticKeyResult, map[string]*Err) {
	if o.ForUpdateTS > s.MaxTS {
		s.MaxTS = o.ForUpdateTS
	}
	errs := map[string]*Err{}
	var results []PessimisticKeyResult
	type pend struct {
		key  []byte
		lock *Lock
	}
	var pending []pend
	for _, m := range muts {
		k := s.peek(m.Key)
		if l := k.lock; l != nil {
			if l.StartTS != o.StartTS {
				errs[string(m.Key)] = lockedErr(m.Key, l)
				continue
			}
			if l.Op != kvrpcpb.Op_PessimisticLock {
				// the transaction's own prewrite lock: a pessimistic lock request over it is refused
				errs[string(m.Key)] = &Err{Class: "abort", Key: m.Key, Msg: "pessimistic lock request over own prewrite lock"}
				continue
			}
		}
		var conf uint64
		if e := k.checkNewer(m.Key, o.StartTS, o.ForUpdateTS); e != nil {
			if e.Class == "conflict" && o.ForceLock {
				conf = e.CommitTS
			} else {
				if _, ex := k.latestValue(); ex && m.Assertion == kvrpcpb.Assertion_NotExist {
					e.Also = append(e.Also, "exists")
				}
				errs[string(m.Key)] = e
				continue
			}
		}
		val, exists := k.latestValue()
		if m.Assertion == kvrpcpb.Assertion_NotExist && exists && conf == 0 {
			errs[string(m.Key)] = &Err{Class: "exists", Key: m.Key}
			continue
		}
		r := PessimisticKeyResult{LockedWithConfTS: conf}
		if o.ReturnValues || conf != 0 {
			r.Value, r.Exists = val, exists
		} else if o.CheckExistence {
			r.Exists = exists
		}
		results = append(results, r)
		if o.LockOnlyIfExists && !exists {
			continue
		}
		if k.lock == nil || k.lock.ForUpdateTS < o.ForUpdateTS {
			fts := o.ForUpdateTS
			if conf > fts {
				fts = conf
			}
			pending = append(pending, pend{m.Key, &Lock{StartTS: o.StartTS, Primary: o.Primary, Op: kvrpcpb.Op_PessimisticLock, TTL: o.TTL, ForUpdateTS: fts, MinCommitTS: o.MinCommitTS}})
		}
	}
	if len(errs) > 0 {
		return nil, errs
	}
	for _, p := range pending {
		s.ks(p.key).lock = p.lock
	}
	return results, nil
}

// PessimisticRollback removes own pessimistic locks with for_update_ts <= forUpdateTS.
func (s *Store) PessimisticRollback(start, end []byte, keys [][]byte, startTS, forUpdateTS uint64) {
	var targets []string
	if len(keys) > 0 {
		for _, k := range keys {
			targets = append(targets, string(k))
		}
	} else {
		targets = s.sortedKeys(start, end)
	}
	for _, k := range targets {
		ks := s.keys[k]
		if ks != nil && ks.lock != nil && ks.lock.Op == kvrpcpb.Op_PessimisticLock && ks.lock.StartTS == startTS && ks.lock.ForUpdateTS <= forUpdateTS {
			ks.lock = nil
		}
	}
}

// KeyDump is the full state of a key.
type KeyDump struct {
	Lock   *Lock
	Writes []Write
}

// Dump returns the full state of a key.
func (s *Store) Dump(key []byte) KeyDump {
	k := s.peek(key)
	d := KeyDump{Writes: append([]Write(nil), k.writes...)}
	if k.lock != nil {
		cp := *k.lock
		d.Lock = &cp
	}
	return d
}

// CheckSecondaryLocks is the async-commit recovery probe: for every key, the
// transaction's lock if it is still there; otherwise its commit ts, or 0 after
// making sure it can never be prewritten (rollback marker).
func (s *Store) CheckSecondaryLocks(keys [][]byte, startTS uint64) ([]LockInfo, uint64) {
	var locks []LockInfo
	for _, key := range keys {
		k := s.peek(key)
		if l := k.lock; l != nil && l.StartTS == startTS {
			if l.Op == kvrpcpb.Op_PessimisticLock {
				// a pessimistic lock means the prewrite never arrived: roll it back
				s.ks(key).lock = nil
				s.rollbackLock(key, startTS)
				return nil, 0
			}
			locks = append(locks, LockInfo{Key: key, Lock: *l})
			continue
		}
		if w, ok := k.recordOf(startTS); ok && w.Kind != kvrpcpb.Op_Rollback {
			return nil, w.CommitTS
		}
		s.rollbackLock(key, startTS)
		return nil, 0
	}
	return locks, 0
}

// Flush is the pipelined-transaction prewrite: optimistic locks carrying a generation; an own
// lock is only overwritten by a higher generation.
func (s *Store) Flush(muts []*kvrpcpb.Mutation, startTS uint64, primary []byte, minCommitTS, generation, ttl uint64) map[string]*Err {
	errs := map[string]*Err{}
	type pend struct {
		key  []byte
		lock *Lock
	}
	var pending []pend
	for _, m := range muts {
		k := s.peek(m.Key)
		if l := k.lock; l != nil {
			if l.StartTS != startTS {
				errs[string(m.Key)] = lockedErr(m.Key, l)
				continue
			}
			if l.Generation >= generation {
				continue // a repeated or older flush
			}
		} else if e := k.checkNewer(m.Key, startTS, startTS); e != nil {
			errs[string(m.Key)] = e
			continue
		}
		if m.Op == kvrpcpb.Op_CheckNotExists {
			continue
		}
		op := m.Op
		if op == kvrpcpb.Op_Insert {
			if _, ok := k.latestValue(); ok && k.lock == nil {
				errs[string(m.Key)] = &Err{Class: "exists", Key: m.Key}
				continue
			}
			op = kvrpcpb.Op_Put
		}
		pending = append(pending, pend{m.Key, &Lock{StartTS: startTS, Primary: primary, Op: op, Value: m.Value, TTL: ttl, MinCommitTS: minCommitTS, Generation: generation, TxnSize: uint64(len(muts))}})
	}
	if len(errs) > 0 {
		return errs
	}
	for _, p := range pending {
		s.ks(p.key).lock = p.lock
	}
	return nil
}

// BufferBatchGet returns what the transaction itself flushed (its own locks): a Put lock
// gives its value, a Delete lock gives an empty value, no own lock gives nothing.
func (s *Store) BufferBatchGet(keys [][]byte, startTS uint64) []Pair {
	var out []Pair
	for _, key := range keys {
		if l := s.peek(key).lock; l != nil && l.StartTS == startTS {
			switch l.Op {
			case kvrpcpb.Op_Put:
				out = append(out, Pair{Key: key, Value: l.Value})
			case kvrpcpb.Op_Del:
				out = append(out, Pair{Key: key, Value: []byte{}})
			}
		}
	}
	return out
}
