package refkv

import (
	"bytes"
	"context"
	"fmt"
	"sort"
	"time"

	"github.com/pingcap/errors"
	"github.com/pingcap/kvproto/pkg/errorpb"
	"github.com/pingcap/kvproto/pkg/kvrpcpb"
	"github.com/pingcap/kvproto/pkg/tikvpb"
	"github.com/tikv/client-go/v2/internal/mockstore/mocktikv"
	"github.com/tikv/client-go/v2/tikvrpc"
)

// Server answers tikvrpc requests from the reference store (backend "R"): the
// commit modes, recovery commands and pipelined-flush commands the repository's
// mock does not implement (async commit, 1PC, CheckSecondaryLocks, Flush /
// BufferBatchGet, batch and lite ResolveLock, ScanLock with range and limit).
// Region, epoch and leader checks are the repository's own (mocktikv.Session over
// the shared mocktikv.Cluster).
type Server struct {
	Store   *Store
	Cluster *mocktikv.Cluster
	// Misrouted records requests whose keys lie outside the addressed region although the
	// epoch matched (the mock panics in that case).
	Misrouted []string
	waits     map[uint64]map[uint64]bool // wait-for edges for deadlock detection
	// TiKVReads enables the min_commit_ts bypass of reads (TiKV semantics).
	TiKVReads bool
	// FollowerReads: a store that holds a non-leader peer serves reads flagged replica-read or stale-read (as TiKV
	// does); off, every request must reach the leader (as in the repository's mock). FollowerServed counts them.
	FollowerReads  bool
	FollowerServed int
	// NotReadyEvery > 0: every n-th stale read finds the store's safe timestamp behind the read (DataIsNotReady)
	NotReadyEvery int
	StaleSeen     int
	NotReady      int
	// RespLevelLockEvery > 0: every n-th BatchGet that meets a lock answers with the lock in the response-level error
	// field and no pairs (TiKV's answer for a lock found in its in-memory lock table)
	RespLevelLockEvery int
	RespLevelLocks     int
	lockedBatchGets    int
	// FallbackEvery > 0: every n-th async-commit / 1PC prewrite request is refused that mode (see PrewriteOpts.ForceFallback)
	FallbackEvery  int
	Fallbacks      int
	asyncPrewrites int
}

// NewServer creates a server over a fresh store.
func NewServer(cluster *mocktikv.Cluster) *Server {
	return &Server{Store: New(), Cluster: cluster, waits: map[uint64]map[uint64]bool{}, TiKVReads: true}
}

// followerServable: the read commands a TiKV follower serves.
func followerServable(t tikvrpc.CmdType) bool {
	switch t {
	case tikvrpc.CmdGet, tikvrpc.CmdBatchGet, tikvrpc.CmdScan, tikvrpc.CmdBufferBatchGet:
		return true
	}
	return false
}

func lockInfo(key []byte, l *Lock) *kvrpcpb.LockInfo {
	return &kvrpcpb.LockInfo{
		Key: key, PrimaryLock: l.Primary, LockVersion: l.StartTS, LockTtl: l.TTL, TxnSize: l.TxnSize, LockType: l.Op,
		LockForUpdateTs: l.ForUpdateTS, UseAsyncCommit: l.Async, MinCommitTs: l.MinCommitTS, Secondaries: l.Secondaries,
	}
}

func keyError(e *Err) *kvrpcpb.KeyError {
	if e == nil {
		return nil
	}
	switch e.Class {
	case "locked":
		return &kvrpcpb.KeyError{Locked: lockInfo(e.Key, e.Lock)}
	case "conflict":
		return &kvrpcpb.KeyError{Conflict: &kvrpcpb.WriteConflict{Key: e.Key, ConflictTs: e.LockTS, ConflictCommitTs: e.CommitTS, StartTs: e.StartTS}}
	case "exists":
		return &kvrpcpb.KeyError{AlreadyExist: &kvrpcpb.AlreadyExist{Key: e.Key}}
	case "txn-lock-not-found":
		return &kvrpcpb.KeyError{Retryable: "retryable: txn not found"}
	case "commit-ts-expired":
		return &kvrpcpb.KeyError{CommitTsExpired: &kvrpcpb.CommitTsExpired{StartTs: e.LockTS, Key: e.Key, MinCommitTs: e.CommitTS, AttemptedCommitTs: e.StartTS}}
	case "txn-not-found":
		return &kvrpcpb.KeyError{TxnNotFound: &kvrpcpb.TxnNotFound{StartTs: e.LockTS, PrimaryKey: e.Key}}
	case "deadlock":
		return &kvrpcpb.KeyError{Deadlock: &kvrpcpb.Deadlock{LockTs: e.LockTS, LockKey: e.Key, DeadlockKeyHash: e.CommitTS}}
	case "self-rolled-back":
		return &kvrpcpb.KeyError{Abort: fmt.Sprintf("txn=%d on key=%q is already rolled back", e.LockTS, e.Key)}
	case "already-committed":
		return &kvrpcpb.KeyError{Abort: "txn already committed"}
	case "assertion":
		return &kvrpcpb.KeyError{AssertionFailed: &kvrpcpb.AssertionFailed{StartTs: e.LockTS, Key: e.Key, Assertion: e.Assertion}}
	case "primary-mismatch":
		return &kvrpcpb.KeyError{PrimaryMismatch: &kvrpcpb.PrimaryMismatch{LockInfo: lockInfo(e.Key, e.Lock)}}
	}
	return &kvrpcpb.KeyError{Abort: e.Error()}
}

func (sv *Server) readOpts(ctx *kvrpcpb.Context) ReadOpts {
	return ReadOpts{Resolved: ctx.GetResolvedLocks(), Committed: ctx.GetCommittedLocks(), RC: ctx.GetIsolationLevel() == kvrpcpb.IsolationLevel_RC, BypassByMinCommit: sv.TiKVReads}
}

func pbPairs(ps []Pair) []*kvrpcpb.KvPair {
	out := make([]*kvrpcpb.KvPair, 0, len(ps))
	for _, p := range ps {
		if p.Err != nil {
			out = append(out, &kvrpcpb.KvPair{Error: keyError(p.Err)})
		} else {
			out = append(out, &kvrpcpb.KvPair{Key: p.Key, Value: p.Value})
		}
	}
	return out
}

func inRange(start, end, key []byte) bool {
	return bytes.Compare(start, key) <= 0 && (len(end) == 0 || bytes.Compare(key, end) < 0)
}

// addWait registers "waiter waits for holder" and reports a cycle.
func (sv *Server) addWait(waiter, holder uint64) bool {
	// is waiter reachable from holder?
	seen := map[uint64]bool{}
	var dfs func(x uint64) bool
	dfs = func(x uint64) bool {
		if x == waiter {
			return true
		}
		if seen[x] {
			return false
		}
		seen[x] = true
		for y := range sv.waits[x] {
			if dfs(y) {
				return true
			}
		}
		return false
	}
	if dfs(holder) {
		return true
	}
	if sv.waits[waiter] == nil {
		sv.waits[waiter] = map[uint64]bool{}
	}
	sv.waits[waiter][holder] = true
	return false
}

func (sv *Server) endTxn(ts uint64) {
	delete(sv.waits, ts)
	for _, m := range sv.waits {
		delete(m, ts)
	}
}

// SendRequest implements simkit.Backend.
func (sv *Server) SendRequest(_ context.Context, addr string, req *tikvrpc.Request, _ time.Duration) (*tikvrpc.Response, error) {
	stores, err := sv.Cluster.GetAndCheckStoreByAddr(addr)
	if err != nil {
		return nil, err
	}
	var storeID uint64
	for _, s := range stores {
		if s.GetState().String() != "Offline" && s.GetState().String() != "Tombstone" {
			storeID = s.GetId()
			break
		}
	}
	if storeID == 0 {
		return nil, errors.New("connection refused")
	}
	sess := mocktikv.VerifNewSession(sv.Cluster, storeID)
	if req.Type != tikvrpc.CmdBroadcastTxnStatus && req.Type != tikvrpc.CmdEmpty {
		if req.StaleRead && followerServable(req.Type) && sv.NotReadyEvery > 0 {
			sv.StaleSeen++
			if sv.StaleSeen%sv.NotReadyEvery == 1%sv.NotReadyEvery {
				sv.NotReady++
				return tikvrpc.GenRegionErrorResp(req, &errorpb.Error{Message: "data is not ready", DataIsNotReady: &errorpb.DataIsNotReady{RegionId: req.Context.GetRegionId(), SafeTs: 1}})
			}
		}
		served := false
		if sv.FollowerReads && (req.ReplicaRead || req.StaleRead) && followerServable(req.Type) {
			// a follower serves a replica read (read index) or a stale read; both see the same single copy of the data
			if re, ok := sess.VerifCheckFollowerRead(&req.Context); ok {
				if re != nil {
					return tikvrpc.GenRegionErrorResp(req, re)
				}
				served = true
				sv.FollowerServed++
			}
		}
		if !served {
			if re := sess.CheckRequestContext(&req.Context); re != nil {
				return tikvrpc.GenRegionErrorResp(req, re)
			}
		}
	}
	start, end := sess.VerifRegionRange()
	check := func(keys ...[]byte) *errorpb.Error {
		for _, k := range keys {
			if !inRange(start, end, k) {
				sv.Misrouted = append(sv.Misrouted, fmt.Sprintf("%s: key %q not in region %d [%q,%q) although the epoch matched", req.Type, k, req.Context.GetRegionId(), start, end))
				return &errorpb.Error{Message: "key not in region", KeyNotInRegion: &errorpb.KeyNotInRegion{Key: k, RegionId: req.Context.GetRegionId(), StartKey: start, EndKey: end}}
			}
		}
		return nil
	}
	resp := &tikvrpc.Response{}
	st := sv.Store
	switch r := req.Req.(type) {
	case *kvrpcpb.GetRequest:
		if re := check(r.Key); re != nil {
			return tikvrpc.GenRegionErrorResp(req, re)
		}
		v, cts, e := st.Get(r.Key, r.Version, sv.readOpts(&req.Context))
		out := &kvrpcpb.GetResponse{Value: v, NotFound: v == nil && e == nil, Error: keyError(e)}
		if r.NeedCommitTs {
			out.CommitTs = cts
		}
		resp.Resp = out
	case *kvrpcpb.BatchGetRequest:
		if re := check(r.Keys...); re != nil {
			return tikvrpc.GenRegionErrorResp(req, re)
		}
		ps := st.BatchGet(r.Keys, r.Version, sv.readOpts(&req.Context))
		out := &kvrpcpb.BatchGetResponse{Pairs: pbPairs(ps)}
		if sv.RespLevelLockEvery > 0 {
			// TiKV reports a lock it meets in its in-memory lock table for the whole request: the error sits in the
			// response, there are no pairs at all
			for _, p := range ps {
				if p.Err != nil {
					sv.lockedBatchGets++
					if sv.lockedBatchGets%sv.RespLevelLockEvery == 0 {
						out = &kvrpcpb.BatchGetResponse{Error: keyError(p.Err)}
						sv.RespLevelLocks++
					}
					break
				}
			}
		}
		resp.Resp = out
	case *kvrpcpb.ScanRequest:
		o := sv.readOpts(&req.Context)
		var ps []Pair
		if !r.Reverse {
			if re := check(r.StartKey); re != nil {
				return tikvrpc.GenRegionErrorResp(req, re)
			}
			e := end
			if len(r.EndKey) > 0 && (len(e) == 0 || bytes.Compare(r.EndKey, e) < 0) {
				e = r.EndKey
			}
			ps = st.Scan(r.StartKey, e, int(r.Limit), r.Version, o)
		} else {
			// TiKV scans [end_key, start_key) backwards, clipped to the region
			lo, hi := r.EndKey, r.StartKey
			if bytes.Compare(lo, start) < 0 {
				lo = start
			}
			if len(hi) == 0 || (len(end) > 0 && bytes.Compare(hi, end) > 0) {
				hi = end
			}
			ps = st.ReverseScan(lo, hi, int(r.Limit), r.Version, o)
		}
		if r.KeyOnly {
			for i := range ps {
				if ps[i].Err == nil {
					ps[i].Value = nil
				}
			}
		}
		resp.Resp = &kvrpcpb.ScanResponse{Pairs: pbPairs(ps)}
	case *kvrpcpb.PrewriteRequest:
		var ks [][]byte
		for _, m := range r.Mutations {
			ks = append(ks, m.Key)
		}
		if re := check(ks...); re != nil {
			return tikvrpc.GenRegionErrorResp(req, re)
		}
		force := false
		if sv.FallbackEvery > 0 && (r.UseAsyncCommit || r.TryOnePc) {
			sv.asyncPrewrites++
			force = sv.asyncPrewrites%sv.FallbackEvery == 0
			if force {
				sv.Fallbacks++
			}
		}
		res := st.Prewrite(r.Mutations, PrewriteOpts{ForceFallback: force, StartTS: r.StartVersion, Primary: r.PrimaryLock, TTL: r.LockTtl, TxnSize: r.TxnSize, ForUpdateTS: r.ForUpdateTs,
			MinCommitTS: r.MinCommitTs, Actions: r.PessimisticActions, Resolved: req.Context.GetResolvedLocks(), Async: r.UseAsyncCommit, Secondaries: r.Secondaries,
			TryOnePC: r.TryOnePc, MaxCommitTS: r.MaxCommitTs, IsRetry: req.Context.GetIsRetryRequest(), SkipConstraintForUnlocked: true, AssertionLevel: r.AssertionLevel})
		out := &kvrpcpb.PrewriteResponse{MinCommitTs: res.MinCommitTS, OnePcCommitTs: res.OnePCCommit}
		// keep every KeyIsLocked error, otherwise only the first error (as TiKV and the mock do)
		keys := make([]string, 0, len(res.Errs))
		for k := range res.Errs {
			keys = append(keys, k)
		}
		sort.Strings(keys)
		for _, k := range keys {
			if e := res.Errs[k]; e.Class != "locked" {
				out.Errors = []*kvrpcpb.KeyError{keyError(e)}
				break
			} else {
				out.Errors = append(out.Errors, keyError(e))
			}
		}
		if res.OnePCCommit != 0 {
			sv.endTxn(r.StartVersion)
		}
		resp.Resp = out
	case *kvrpcpb.CommitRequest:
		if re := check(r.Keys...); re != nil {
			return tikvrpc.GenRegionErrorResp(req, re)
		}
		e := st.Commit(r.Keys, r.StartVersion, r.CommitVersion)
		if e != nil && e.Class == "commit-ts-expired" {
			e.StartTS = r.CommitVersion
		}
		sv.endTxn(r.StartVersion)
		resp.Resp = &kvrpcpb.CommitResponse{Error: keyError(e), CommitVersion: r.CommitVersion}
	case *kvrpcpb.BatchRollbackRequest:
		if re := check(r.Keys...); re != nil {
			return tikvrpc.GenRegionErrorResp(req, re)
		}
		e := st.Rollback(r.Keys, r.StartVersion)
		sv.endTxn(r.StartVersion)
		resp.Resp = &kvrpcpb.BatchRollbackResponse{Error: keyError(e)}
	case *kvrpcpb.CleanupRequest:
		if re := check(r.Key); re != nil {
			return tikvrpc.GenRegionErrorResp(req, re)
		}
		e := st.Cleanup(r.Key, r.StartVersion, r.CurrentTs)
		out := &kvrpcpb.CleanupResponse{}
		if e != nil && e.Class == "already-committed" {
			out.CommitVersion = e.CommitTS
		} else {
			out.Error = keyError(e)
		}
		resp.Resp = out
	case *kvrpcpb.PessimisticLockRequest:
		var ks [][]byte
		for _, m := range r.Mutations {
			ks = append(ks, m.Key)
		}
		if re := check(ks...); re != nil {
			return tikvrpc.GenRegionErrorResp(req, re)
		}
		force := r.WakeUpMode == kvrpcpb.PessimisticLockWakeUpMode_WakeUpModeForceLock
		rs, errs := st.PessimisticLock(r.Mutations, PessimisticLockOpts{StartTS: r.StartVersion, ForUpdateTS: r.ForUpdateTs, Primary: r.PrimaryLock, TTL: r.LockTtl,
			MinCommitTS: r.MinCommitTs, ReturnValues: r.ReturnValues, CheckExistence: r.CheckExistence, LockOnlyIfExists: r.LockOnlyIfExists, ForceLock: force})
		out := &kvrpcpb.PessimisticLockResponse{}
		if len(errs) > 0 {
			keys := make([]string, 0, len(errs))
			for k := range errs {
				keys = append(keys, k)
			}
			sort.Strings(keys)
			for _, k := range keys {
				e := errs[k]
				if e.Class == "locked" {
					if sv.addWait(r.StartVersion, e.LockTS) {
						e = &Err{Class: "deadlock", Key: e.Key, LockTS: e.LockTS, CommitTS: 1}
					}
				}
				out.Errors = append(out.Errors, keyError(e))
			}
			if force {
				for range r.Mutations {
					out.Results = append(out.Results, &kvrpcpb.PessimisticLockKeyResult{Type: kvrpcpb.PessimisticLockKeyResultType_LockResultFailed})
				}
			}
			resp.Resp = out
			break
		}
		if force {
			for _, x := range rs {
				t := kvrpcpb.PessimisticLockKeyResultType_LockResultNormal
				if x.LockedWithConfTS != 0 {
					t = kvrpcpb.PessimisticLockKeyResultType_LockResultLockedWithConflict
				}
				out.Results = append(out.Results, &kvrpcpb.PessimisticLockKeyResult{Type: t, Value: x.Value, Existence: x.Exists, LockedWithConflictTs: x.LockedWithConfTS})
			}
		} else if r.ReturnValues {
			for _, x := range rs {
				out.Values = append(out.Values, x.Value)
				out.NotFounds = append(out.NotFounds, !x.Exists)
			}
		} else if r.CheckExistence {
			for _, x := range rs {
				out.NotFounds = append(out.NotFounds, !x.Exists)
			}
		}
		resp.Resp = out
	case *kvrpcpb.PessimisticRollbackRequest:
		if re := check(r.Keys...); re != nil {
			return tikvrpc.GenRegionErrorResp(req, re)
		}
		st.PessimisticRollback(start, end, r.Keys, r.StartVersion, r.ForUpdateTs)
		resp.Resp = &kvrpcpb.PessimisticRollbackResponse{}
	case *kvrpcpb.CheckTxnStatusRequest:
		if re := check(r.PrimaryKey); re != nil {
			return tikvrpc.GenRegionErrorResp(req, re)
		}
		out := &kvrpcpb.CheckTxnStatusResponse{}
		ts, e := st.CheckTxnStatusV(r.PrimaryKey, r.LockTs, r.CallerStartTs, r.CurrentTs, r.RollbackIfNotExist, r.ResolvingPessimisticLock, r.ForceSyncCommit, r.VerifyIsPrimary)
		if e != nil {
			out.Error = keyError(e)
		} else {
			out.LockTtl, out.CommitVersion, out.Action = ts.TTL, ts.CommitTS, ts.Action
			if ts.Lock != nil {
				out.LockInfo = lockInfo(r.PrimaryKey, ts.Lock)
			}
			if ts.TTL == 0 {
				sv.endTxn(r.LockTs)
			}
		}
		resp.Resp = out
	case *kvrpcpb.CheckSecondaryLocksRequest:
		if re := check(r.Keys...); re != nil {
			return tikvrpc.GenRegionErrorResp(req, re)
		}
		locks, cts := st.CheckSecondaryLocks(r.Keys, r.StartVersion)
		out := &kvrpcpb.CheckSecondaryLocksResponse{CommitTs: cts}
		for _, l := range locks {
			out.Locks = append(out.Locks, lockInfo(l.Key, &l.Lock))
		}
		resp.Resp = out
	case *kvrpcpb.TxnHeartBeatRequest:
		if re := check(r.PrimaryLock); re != nil {
			return tikvrpc.GenRegionErrorResp(req, re)
		}
		ttl, e := st.TxnHeartBeat(r.PrimaryLock, r.StartVersion, r.AdviseLockTtl)
		resp.Resp = &kvrpcpb.TxnHeartBeatResponse{LockTtl: ttl, Error: keyError(e)}
	case *kvrpcpb.ResolveLockRequest:
		var e *Err
		switch {
		case len(r.TxnInfos) > 0:
			infos := map[uint64]uint64{}
			for _, i := range r.TxnInfos {
				infos[i.Txn] = i.Status
				sv.endTxn(i.Txn)
			}
			e = st.BatchResolveLock(start, end, infos)
		case len(r.Keys) > 0:
			if re := check(r.Keys...); re != nil {
				return tikvrpc.GenRegionErrorResp(req, re)
			}
			e = st.ResolveLock(nil, nil, r.Keys, r.StartVersion, r.CommitVersion)
		default:
			e = st.ResolveLock(start, end, nil, r.StartVersion, r.CommitVersion)
			sv.endTxn(r.StartVersion)
		}
		resp.Resp = &kvrpcpb.ResolveLockResponse{Error: keyError(e)}
	case *kvrpcpb.ScanLockRequest:
		lo, hi := start, end
		if len(r.StartKey) > 0 && bytes.Compare(r.StartKey, lo) > 0 {
			lo = r.StartKey
		}
		if len(r.EndKey) > 0 && (len(hi) == 0 || bytes.Compare(r.EndKey, hi) < 0) {
			hi = r.EndKey
		}
		out := &kvrpcpb.ScanLockResponse{}
		for _, l := range st.ScanLock(lo, hi, r.MaxVersion, int(r.Limit)) {
			out.Locks = append(out.Locks, lockInfo(l.Key, &l.Lock))
		}
		resp.Resp = out
	case *kvrpcpb.GCRequest:
		resp.Resp = &kvrpcpb.GCResponse{Error: keyError(st.GC(start, end, r.SafePoint))}
	case *kvrpcpb.DeleteRangeRequest:
		lo, hi := r.StartKey, r.EndKey
		if re := check(lo); re != nil {
			return tikvrpc.GenRegionErrorResp(req, re)
		}
		st.DeleteRange(lo, hi)
		resp.Resp = &kvrpcpb.DeleteRangeResponse{}
	case *kvrpcpb.FlushRequest:
		var ks [][]byte
		for _, m := range r.Mutations {
			ks = append(ks, m.Key)
		}
		if re := check(ks...); re != nil {
			return tikvrpc.GenRegionErrorResp(req, re)
		}
		errs := st.Flush(r.Mutations, r.StartTs, r.PrimaryKey, r.MinCommitTs, r.Generation, r.LockTtl)
		out := &kvrpcpb.FlushResponse{}
		keys := make([]string, 0, len(errs))
		for k := range errs {
			keys = append(keys, k)
		}
		sort.Strings(keys)
		for _, k := range keys {
			out.Errors = append(out.Errors, keyError(errs[k]))
		}
		resp.Resp = out
	case *kvrpcpb.BufferBatchGetRequest:
		if re := check(r.Keys...); re != nil {
			return tikvrpc.GenRegionErrorResp(req, re)
		}
		out := &kvrpcpb.BufferBatchGetResponse{}
		for _, p := range st.BufferBatchGet(r.Keys, r.Version) {
			out.Pairs = append(out.Pairs, &kvrpcpb.KvPair{Key: p.Key, Value: p.Value})
		}
		resp.Resp = out
	case *kvrpcpb.BroadcastTxnStatusRequest:
		resp.Resp = &kvrpcpb.BroadcastTxnStatusResponse{}
	case *kvrpcpb.MvccGetByKeyRequest:
		resp.Resp = &kvrpcpb.MvccGetByKeyResponse{Info: sv.MvccGetByKey(r.Key)}
	default:
		if req.Type == tikvrpc.CmdEmpty {
			resp.Resp = &tikvrpcEmpty
			return resp, nil
		}
		return nil, errors.Errorf("refkv: unsupported request type %v", req.Type)
	}
	return resp, nil
}

var tikvrpcEmpty = tikvpb.BatchCommandsEmptyResponse{}

// MvccGetByKey renders a key's state in the debugger format the oracles read.
func (sv *Server) MvccGetByKey(key []byte) *kvrpcpb.MvccInfo {
	d := sv.Store.Dump(key)
	info := &kvrpcpb.MvccInfo{}
	if d.Lock != nil {
		info.Lock = &kvrpcpb.MvccLock{Type: d.Lock.Op, StartTs: d.Lock.StartTS, Primary: d.Lock.Primary, ShortValue: d.Lock.Value, Ttl: d.Lock.TTL, ForUpdateTs: d.Lock.ForUpdateTS, UseAsyncCommit: d.Lock.Async, Secondaries: d.Lock.Secondaries}
	}
	for _, w := range d.Writes {
		info.Writes = append(info.Writes, &kvrpcpb.MvccWrite{Type: w.Kind, StartTs: w.StartTS, CommitTs: w.CommitTS, ShortValue: w.Value})
		info.Values = append(info.Values, &kvrpcpb.MvccValue{StartTs: w.StartTS, Value: w.Value})
	}
	return info
}

// VerifDumpLocks lists every lock with all of its fields.
func (sv *Server) VerifDumpLocks() []*kvrpcpb.LockInfo {
	var out []*kvrpcpb.LockInfo
	for _, l := range sv.Store.ScanLock(nil, nil, ^uint64(0), 0) {
		out = append(out, lockInfo(l.Key, &l.Lock))
	}
	return out
}
