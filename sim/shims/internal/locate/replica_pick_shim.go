//go:build verif

package locate

import "math/rand"

// VerifSetRandIntn replaces the package's randIntn (the tie-break among equally good replicas of a replica read; a
// package variable "only used for testing" in the repository). The draw happens before the request reaches the
// transport, in goroutines the library starts in the iteration order of a Go map, so with the shared random source the
// same run could pick different replicas in two executions. nil restores the default.
func VerifSetRandIntn(f func(int) int) {
	if f == nil {
		randIntn = rand.Intn
		return
	}
	randIntn = f
}
