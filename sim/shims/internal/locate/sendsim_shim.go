//go:build verif

package locate

import (
	"context"
	"sync/atomic"
	"time"
)

// Export shim for the simulation harness (engine sendsim, property C10): the
// store-liveness testing knob and the store health flag are unexported; the
// harness must simulate "is this store reachable" (the real probe would open a
// gRPC socket) and "this store is slow". Overlaid at build time, never committed.

// Liveness answers understood by VerifSendsimSetLiveness.
const (
	VerifSendsimReachable   uint32 = uint32(reachable)
	VerifSendsimUnreachable uint32 = uint32(unreachable)
	VerifSendsimUnknown     uint32 = uint32(unknown)
)

// VerifSendsimSetLiveness installs f as the answer of every store liveness probe
// of this cache (the same knob the package's own tests use).
func VerifSendsimSetLiveness(c *RegionCache, f func(storeID uint64, addr string) uint32) {
	c.stores.setMockRequestLiveness(func(ctx context.Context, s *Store) livenessState {
		return livenessState(f(s.storeID, s.GetAddr()))
	})
}

// VerifSendsimStoreLiveness returns the cached liveness state of a store (or 99
// when the store is not in the cache).
func VerifSendsimStoreLiveness(c *RegionCache, storeID uint64) uint32 {
	s, ok := c.stores.get(storeID)
	if !ok {
		return 99
	}
	return atomic.LoadUint32(&s.livenessState)
}

// VerifSendsimMarkSlow makes the health status of a cached store "slow" the way a
// TiKV health feedback with a high slow score does. Returns false when the store
// is not cached.
func VerifSendsimMarkSlow(c *RegionCache, storeID uint64) bool {
	s, ok := c.stores.get(storeID)
	if !ok {
		return false
	}
	s.healthStatus.updateTiKVServerSideSlowScore(100, time.Now())
	return s.healthStatus.IsSlow()
}

// VerifSendsimRegionValid tells whether the cached region of that id/version is
// still valid (reach probe only, never part of an oracle).
func VerifSendsimRegionValid(c *RegionCache, id RegionVerID) bool {
	r := c.GetCachedRegionWithRLock(id)
	return r != nil && r.isValid()
}

// VerifSendsimMaxReplicaAttempt exposes the per-replica attempt limit of the
// selector (used only to size the harness' attempt budget, not as an oracle).
func VerifSendsimMaxReplicaAttempt() int { return maxReplicaAttempt }

// VerifSendsimSetForwarding switches request forwarding of this cache on or off (the
// library reads it from the global configuration when the cache is created; the
// package's own tests set the field directly).
func VerifSendsimSetForwarding(c *RegionCache, on bool) { c.enableForwarding = on }
