//go:build verif

package locate

import (
	"context"
	"sort"
	"sync/atomic"
	"time"
	"unsafe"
)

// Export shim for the simulation harness (engine locatesim, property C09). Read-only dump of
// the region index of a RegionCache (the ordered index and the by-id index) and the store
// liveness testing knob. Overlaid at build time, never committed.

// VerifLocatesimEntry describes one cached region.
type VerifLocatesimEntry struct {
	Ptr      uintptr // identity of the cached *Region object
	ID       uint64
	Ver      uint64
	ConfVer  uint64
	Start    []byte
	End      []byte
	InSorted bool // the entry is in the ordered (by start key) index
	ByID     bool // the by-id index (latestVersions -> regions) maps the region id to this very entry
	// Valid: neither flagged "reload on access" nor expired/invalidated, computed WITHOUT the side
	// effect of Region.isValid (which pushes the TTL forward).
	Valid  bool
	Flags  int32
	TTL    int64
	Reason int32
}

// VerifLocatesimDumpIndex returns every entry of the ordered index in key order, followed by the
// entries that only the by-id index still refers to (ordered by region id).
func VerifLocatesimDumpIndex(c *RegionCache) []VerifLocatesimEntry {
	now := time.Now().Unix()
	c.mu.RLock()
	defer c.mu.RUnlock()
	mk := func(r *Region, inSorted bool) VerifLocatesimEntry {
		ver := r.VerID()
		latest, ok := c.mu.latestVersions[ver.id]
		flags := atomic.LoadInt32(&r.syncFlags)
		ttl := atomic.LoadInt64(&r.ttl)
		return VerifLocatesimEntry{
			Ptr: uintptr(unsafe.Pointer(r)), ID: ver.id, Ver: ver.ver, ConfVer: ver.confVer,
			Start: r.StartKey(), End: r.EndKey(), InSorted: inSorted,
			ByID:   ok && latest.Equals(ver) && c.mu.regions[ver] == r,
			Valid:  flags&needReloadOnAccess == 0 && now <= ttl,
			Flags:  flags,
			TTL:    ttl,
			Reason: atomic.LoadInt32((*int32)(&r.invalidReason)),
		}
	}
	var out []VerifLocatesimEntry
	seen := map[*Region]bool{}
	c.mu.sorted.b.Ascend(func(item *btreeItem) bool {
		out = append(out, mk(item.cachedRegion, true))
		seen[item.cachedRegion] = true
		return true
	})
	ids := make([]uint64, 0, len(c.mu.latestVersions))
	for id := range c.mu.latestVersions {
		ids = append(ids, id)
	}
	sort.Slice(ids, func(i, j int) bool { return ids[i] < ids[j] })
	for _, id := range ids {
		if r := c.mu.regions[c.mu.latestVersions[id]]; r != nil && !seen[r] {
			out = append(out, mk(r, false))
		}
	}
	return out
}

// VerifLocatesimSetLiveness installs f as the answer of every store liveness probe of this cache
// (the real probe would open a gRPC socket); the knob is the one the package's own tests use.
func VerifLocatesimSetLiveness(c *RegionCache, f func(storeID uint64) bool) {
	c.stores.setMockRequestLiveness(func(ctx context.Context, s *Store) livenessState {
		if f(s.storeID) {
			return reachable
		}
		return unreachable
	})
}
