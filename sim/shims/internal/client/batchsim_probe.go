//go:build verif

package client

import (
	"google.golang.org/grpc"
)

// Export shims for the simulation harness (engine batchsim, property C18).
// Overlaid at build time only; read-only accessors and one thin wrapper.
// Nothing here changes the behaviour of the package, and nothing here refers
// to the hook variables of hooks.patch, so the file compiles against a tree
// with or without that patch.

// VerifBatchsimRecreate calls batchCommandsStream.recreate on a fresh stream
// object. The engine uses it on an already closed connection to find out, at
// run time, whether the stream-factory hook of hooks.patch is compiled in.
func VerifBatchsimRecreate(conn *grpc.ClientConn) error {
	s := &batchCommandsStream{}
	return s.recreate(conn)
}

// VerifBatchsimTracked returns, over all live connection pools of the client,
// the number of entries in the id->entry tables of the batch clients and the
// sum of their in-flight counters.
func (c *RPCClient) VerifBatchsimTracked() (tracked int, sent int64) {
	c.RLock()
	defer c.RUnlock()
	for _, pool := range c.connPools {
		if pool.batchConn == nil {
			continue
		}
		for _, bc := range pool.batchCommandsClients {
			bc.batched.Range(func(_, _ interface{}) bool {
				tracked++
				return true
			})
			sent += bc.sent.Load()
		}
	}
	return
}
