//go:build verif

package latch

// Export shims for the simulation harness (engine latchsim, property C17).
// Overlaid at build time only; thin wrappers around unexported methods and
// read-only accessors. Nothing here changes the behaviour of the package.

// Result codes of VerifAcquire / VerifAcquireSlot.
const (
	VerifSuccess = int(acquireSuccess)
	VerifLocked  = int(acquireLocked)
	VerifStale   = int(acquireStale)
)

// VerifGenLock is genLock.
func (latches *Latches) VerifGenLock(startTS uint64, keys [][]byte) *Lock {
	return latches.genLock(startTS, keys)
}

// VerifAcquire is acquire (method granularity).
func (latches *Latches) VerifAcquire(lock *Lock) int { return int(latches.acquire(lock)) }

// VerifRelease is release (method granularity); the returned slice is fresh.
func (latches *Latches) VerifRelease(lock *Lock) []*Lock {
	return latches.release(lock, make([]*Lock, 0, 4))
}

// VerifAcquireSlot performs ONE iteration of the loop of acquire(): the stale
// short cut, or one acquireSlot call. done reports that acquire() would return
// now with the given status (success with all slots, locked, or stale).
func (latches *Latches) VerifAcquireSlot(lock *Lock) (status int, done bool) {
	if lock.IsStale() {
		return VerifStale, true
	}
	if lock.acquiredCount >= len(lock.requiredSlots) {
		return VerifSuccess, true
	}
	st := latches.acquireSlot(lock)
	if st != acquireSuccess {
		return int(st), true
	}
	return VerifSuccess, lock.acquiredCount >= len(lock.requiredSlots)
}

// VerifReleaseSlot performs ONE iteration of the loop of release(): more reports
// whether release() would continue with another slot.
func (latches *Latches) VerifReleaseSlot(lock *Lock) (next *Lock, more bool) {
	if lock.acquiredCount <= 0 {
		return nil, false
	}
	next = latches.releaseSlot(lock)
	return next, lock.acquiredCount > 0
}

// VerifSlotID is slotID.
func (latches *Latches) VerifSlotID(key []byte) int { return latches.slotID(key) }

// VerifSlots is the number of slots.
func (latches *Latches) VerifSlots() int { return len(latches.slots) }

// VerifNode is a copy of one node of a slot's list.
type VerifNode struct {
	Slot        int
	Key         string
	MaxCommitTS uint64
	Holder      *Lock
}

// VerifDump returns every node of every slot (list order) and every slot's waiting list.
func (latches *Latches) VerifDump() (nodes []VerifNode, waiting [][]*Lock) {
	waiting = make([][]*Lock, len(latches.slots))
	for i := range latches.slots {
		l := &latches.slots[i]
		l.Lock()
		for n := l.queue; n != nil; n = n.next {
			nodes = append(nodes, VerifNode{Slot: i, Key: string(n.key), MaxCommitTS: n.maxCommitTS, Holder: n.value})
		}
		waiting[i] = append([]*Lock(nil), l.waiting...)
		l.Unlock()
	}
	return nodes, waiting
}

// VerifStartTS returns the lock's start timestamp.
func (l *Lock) VerifStartTS() uint64 { return l.startTS }

// VerifAcquiredCount returns the number of latches the lock says it has.
func (l *Lock) VerifAcquiredCount() int { return l.acquiredCount }

// VerifKeys returns the (sorted) keys of the lock.
func (l *Lock) VerifKeys() []string {
	out := make([]string, len(l.keys))
	for i, k := range l.keys {
		out[i] = string(k)
	}
	return out
}

// VerifForceWake ends the wait of a caller blocked in LatchesScheduler.Lock. Only
// used by the harness to end a run in which a lost wake-up was already reported.
func (l *Lock) VerifForceWake() { l.isStale = true; l.wg.Done() }

// VerifLatches returns the scheduler's latches.
func (scheduler *LatchesScheduler) VerifLatches() *Latches { return scheduler.latches }

// VerifPending is the number of unlock requests not yet taken by the scheduler goroutine.
func (scheduler *LatchesScheduler) VerifPending() int { return len(scheduler.unlockCh) }

// VerifNewScheduler is NewScheduler, except that a panic of the scheduler
// goroutine (which would end the whole process) is handed to onPanic instead.
func VerifNewScheduler(size uint, onPanic func(v any)) *LatchesScheduler {
	scheduler := &LatchesScheduler{
		latches:  NewLatches(size),
		unlockCh: make(chan *Lock, lockChanSize),
		closed:   false,
	}
	go func() {
		defer func() {
			if r := recover(); r != nil {
				onPanic(r)
			}
		}()
		scheduler.run()
	}()
	return scheduler
}
