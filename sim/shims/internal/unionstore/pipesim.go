//go:build verif

package unionstore

// Export shims for the pipesim engine (property C16): read access to unexported state of the
// pipelined buffer. Overlaid at build time only (tag verif), never committed to the repository.

// VerifFlushOption returns the thresholds the buffer was created with (so that the harness
// reads the limits from the object instead of mirroring constants).
func (p *PipelinedMemDB) VerifFlushOption() (minKeys, minSize, forceSize uint64) {
	return p.flushOption.MinFlushKeys, p.flushOption.MinFlushMemSize, p.flushOption.ForceFlushMemSizeThreshold
}

// VerifGeneration returns the generation counter.
func (p *PipelinedMemDB) VerifGeneration() uint64 { return p.generation }

// VerifHasFlushing reports whether a flushing buffer is attached (in flight or finished but not yet waited for).
func (p *PipelinedMemDB) VerifHasFlushing() bool { return p.flushingMemDB != nil }

// VerifCacheLen returns the number of entries of the batch-get cache (-1: no cache).
func (p *PipelinedMemDB) VerifCacheLen() int {
	if p.batchGetCache == nil {
		return -1
	}
	return len(p.batchGetCache)
}

// VerifUnblock puts err into the result channel if it is empty: the harness uses it to release a caller
// that is stuck in Flush/FlushWait after it has already reported the hang as a violation.
func (p *PipelinedMemDB) VerifUnblock(err error) bool {
	select {
	case p.errCh <- err:
		return true
	default:
		return false
	}
}

// VerifDrain takes a pending flush result out of the result channel (non-blocking). Used by the harness at
// the end of a run so that no flush goroutine of a (deliberately broken) library stays blocked on its send.
func (p *PipelinedMemDB) VerifDrain() bool {
	select {
	case <-p.errCh:
		return true
	default:
		return false
	}
}
