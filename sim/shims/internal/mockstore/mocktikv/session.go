//go:build verif

package mocktikv

// VerifNewSession creates the per-request session object the mock's own RPC layer uses for its
// region / epoch / leader checks, so that other simulated backends apply exactly the same checks.
func VerifNewSession(cluster *Cluster, storeID uint64) *Session {
	return &Session{cluster: cluster, storeID: storeID}
}

// VerifRegionRange returns the raw (decoded) key range of the region the last successful
// CheckRequestContext call addressed.
func (s *Session) VerifRegionRange() (start, end []byte) {
	return MvccKey(s.startKey).Raw(), MvccKey(s.endKey).Raw()
}
