//go:build verif

package mocktikv

import (
	"github.com/gogo/protobuf/proto"
	"github.com/pingcap/kvproto/pkg/errorpb"
	"github.com/pingcap/kvproto/pkg/kvrpcpb"
)

// VerifNewSession creates the per-request session object the mock's own RPC layer uses for its
// region / epoch / leader checks, so that other simulated backends apply exactly the same checks.
func VerifNewSession(cluster *Cluster, storeID uint64) *Session {
	return &Session{cluster: cluster, storeID: storeID}
}

// VerifRegionRange returns the raw (decoded) key range of the region the last successful
// CheckRequestContext call addressed.
func (s *Session) VerifRegionRange() (start, end []byte) {
	return MvccKey(s.startKey).Raw(), MvccKey(s.endKey).Raw()
}

// VerifCheckFollowerRead is CheckRequestContext for a read that a follower may serve (TiKV serves a replica read
// after a read-index round with the leader and a stale read from its own data once the safe timestamp allows it):
// store, region membership and epoch are checked as usual, leadership is not. It reports ok=false when the store holds
// no peer of the region or the region has no leader at all (the ordinary check then produces the region error).
func (s *Session) VerifCheckFollowerRead(ctx *kvrpcpb.Context) (regionErr *errorpb.Error, ok bool) {
	if p := ctx.GetPeer(); p != nil && p.GetStoreId() != s.storeID {
		return nil, false
	}
	region, leaderID := s.cluster.GetRegion(ctx.GetRegionId())
	if region == nil || leaderID == 0 {
		return nil, false
	}
	mine, leaderFound := false, false
	for _, p := range region.Peers {
		if p.GetStoreId() == s.storeID {
			mine = true
		}
		if p.GetId() == leaderID {
			leaderFound = true
		}
	}
	if !mine || !leaderFound {
		return nil, false
	}
	if !proto.Equal(region.GetRegionEpoch(), ctx.GetRegionEpoch()) {
		return s.CheckRequestContext(ctx), true // the ordinary check builds the epoch error (or NotLeader: equally true)
	}
	s.startKey, s.endKey = region.StartKey, region.EndKey
	s.isolationLevel = ctx.IsolationLevel
	s.resolvedLocks = ctx.ResolvedLocks
	return nil, true
}
