//go:build verif

package mocktikv

import "github.com/pingcap/kvproto/pkg/metapb"

// VerifSplitRaw is VerifSplit for raw-mode clusters: the split key is used as it is (raw
// regions are bounded by unencoded keys, see Cluster.SplitRaw) and both halves get the
// epoch version TiKV gives them (parent version + 1). (Harness shim of engine rawsim,
// overlaid at build time, never committed.)
func (c *Cluster) VerifSplitRaw(regionID, newRegionID uint64, rawKey []byte, peerIDs []uint64, leaderPeerID uint64) {
	c.Lock()
	defer c.Unlock()
	parent := c.regions[regionID]
	newRegion := parent.split(newRegionID, append([]byte(nil), rawKey...), peerIDs, leaderPeerID)
	newRegion.Meta.RegionEpoch = &metapb.RegionEpoch{
		ConfVer: parent.Meta.GetRegionEpoch().GetConfVer(),
		Version: parent.Meta.GetRegionEpoch().GetVersion(),
	}
	c.regions[newRegionID] = newRegion
}

// VerifCloseAllDBs closes every column-family database of the store. MVCCLevelDB.Close
// only closes the default one; a database created on demand for another column family
// (the raw handlers do that) would leave its goleveldb goroutines behind.
func (mvcc *MVCCLevelDB) VerifCloseAllDBs() {
	mvcc.mu.Lock()
	defer mvcc.mu.Unlock()
	for _, db := range mvcc.dbs {
		_ = db.Close()
	}
}
