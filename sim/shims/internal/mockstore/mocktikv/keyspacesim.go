//go:build verif

package mocktikv

// VerifEntry is one record of the transactional column family: the user key, the version
// part of the MVCC key (the lock slot has the greatest version) and the stored bytes.
type VerifEntry struct {
	Key   []byte
	Ver   uint64
	Value []byte
}

// VerifLockVer is the version under which the lock of a key is stored.
const VerifLockVer = lockVer

// VerifDumpEntries returns every record of the transactional column family in storage
// order, bytes as stored (read-only export shim of engine keyspacesim, overlaid at build
// time, never committed).
func (mvcc *MVCCLevelDB) VerifDumpEntries() []VerifEntry {
	mvcc.mu.RLock()
	defer mvcc.mu.RUnlock()
	iter := mvcc.getDB("").NewIterator(nil, nil)
	defer iter.Release()
	var out []VerifEntry
	for iter.Next() {
		k, ver, err := mvccDecode(iter.Key())
		if err != nil {
			k, ver = append([]byte("!undecodable:"), iter.Key()...), 0
		}
		out = append(out, VerifEntry{Key: append([]byte(nil), k...), Ver: ver, Value: append([]byte(nil), iter.Value()...)})
	}
	return out
}
