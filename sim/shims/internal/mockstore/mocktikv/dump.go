//go:build verif

package mocktikv

import "github.com/pingcap/kvproto/pkg/kvrpcpb"

// VerifDumpLocks returns every lock in the store with all of its fields (read-only
// export shim used by the simulation harness; overlaid at build time, never committed).
func (mvcc *MVCCLevelDB) VerifDumpLocks() []*kvrpcpb.LockInfo {
	mvcc.mu.RLock()
	defer mvcc.mu.RUnlock()
	iter, currKey, err := newScanIterator(mvcc.getDB(""), nil, nil)
	defer iter.Release()
	if err != nil {
		return nil
	}
	var locks []*kvrpcpb.LockInfo
	for iter.Valid() {
		dec := lockDecoder{expectKey: currKey}
		ok, err := dec.Decode(iter)
		if err != nil {
			return locks
		}
		if ok {
			locks = append(locks, &kvrpcpb.LockInfo{
				PrimaryLock:     dec.lock.primary,
				LockVersion:     dec.lock.startTS,
				Key:             append([]byte(nil), currKey...),
				LockTtl:         dec.lock.ttl,
				TxnSize:         dec.lock.txnSize,
				LockType:        dec.lock.op,
				LockForUpdateTs: dec.lock.forUpdateTS,
				MinCommitTs:     dec.lock.minCommitTS,
			})
		}
		skip := skipDecoder{currKey: currKey}
		if _, err = skip.Decode(iter); err != nil {
			return locks
		}
		currKey = skip.currKey
	}
	return locks
}
