//go:build verif

package mocktikv

import "github.com/pingcap/kvproto/pkg/metapb"

// VerifSplit splits like Cluster.Split but gives both halves the epoch version TiKV
// gives them (parent version + 1). The stock mock starts every new region at a
// constant low version, which can make a newer description compare as older than a
// cached one - an inversion real TiKV cannot produce. (Harness shim, overlaid at
// build time, never committed.)
func (c *Cluster) VerifSplit(regionID, newRegionID uint64, rawKey []byte, peerIDs []uint64, leaderPeerID uint64) {
	c.Lock()
	defer c.Unlock()
	parent := c.regions[regionID]
	newRegion := parent.split(newRegionID, NewMvccKey(rawKey), peerIDs, leaderPeerID)
	newRegion.Meta.RegionEpoch = &metapb.RegionEpoch{
		ConfVer: parent.Meta.GetRegionEpoch().GetConfVer(),
		Version: parent.Meta.GetRegionEpoch().GetVersion(),
	}
	c.regions[newRegionID] = newRegion
}

// VerifMerge merges region id2 into id1 (adjacent, id1 left) with TiKV's epoch rule:
// version = max(version1, version2) + 1.
func (c *Cluster) VerifMerge(id1, id2 uint64) {
	c.Lock()
	defer c.Unlock()
	r1, r2 := c.regions[id1], c.regions[id2]
	v := r1.Meta.GetRegionEpoch().GetVersion()
	if v2 := r2.Meta.GetRegionEpoch().GetVersion(); v2 > v {
		v = v2
	}
	r1.Meta.EndKey = r2.Meta.GetEndKey()
	r1.Meta.RegionEpoch = &metapb.RegionEpoch{ConfVer: r1.Meta.GetRegionEpoch().GetConfVer(), Version: v + 1}
	delete(c.regions, id2)
}
