//go:build verif

package mocktikv

import "github.com/pingcap/kvproto/pkg/metapb"

// Topology shims of engine locatesim (overlaid at build time, never committed). The stock mock
// always keeps the region id on the LEFT half of a split and on the LEFT side of a merge, so a
// region id never changes its start key. TiKV does both: by default (right_derive_when_split)
// the RIGHT half keeps the id, and a merge may go into either neighbour. Epochs follow TiKV:
// split: both halves = parent version + 1; merge: max(version) + 1 on the survivor.

// VerifLocatesimSplit splits region regionID at rawKey. rightDerive=false: the old id keeps
// [start,key), the new id gets [key,end). rightDerive=true: the old id keeps [key,end), the new
// id gets [start,key). peerIDs are the peer ids of the new region (one per peer of the parent,
// on the same stores), leaderPeerID one of them.
func (c *Cluster) VerifLocatesimSplit(regionID, newRegionID uint64, rawKey []byte, peerIDs []uint64, leaderPeerID uint64, rightDerive bool) {
	c.Lock()
	defer c.Unlock()
	parent := c.regions[regionID]
	if len(parent.Meta.Peers) != len(peerIDs) {
		panic("VerifLocatesimSplit: len(peers) != len(peerIDs)")
	}
	key := NewMvccKey(rawKey)
	storeIDs := make([]uint64, 0, len(parent.Meta.Peers))
	for _, p := range parent.Meta.Peers {
		storeIDs = append(storeIDs, p.GetStoreId())
	}
	nr := newRegion(newRegionID, storeIDs, peerIDs, leaderPeerID)
	for i, p := range parent.Meta.Peers {
		nr.Meta.Peers[i].Role = p.Role
	}
	if rightDerive {
		nr.Meta.StartKey, nr.Meta.EndKey = parent.Meta.StartKey, key
		parent.Meta.StartKey = key
	} else {
		nr.Meta.StartKey, nr.Meta.EndKey = key, parent.Meta.EndKey
		parent.Meta.EndKey = key
	}
	conf, ver := parent.Meta.GetRegionEpoch().GetConfVer(), parent.Meta.GetRegionEpoch().GetVersion()+1
	parent.Meta.RegionEpoch = &metapb.RegionEpoch{ConfVer: conf, Version: ver}
	nr.Meta.RegionEpoch = &metapb.RegionEpoch{ConfVer: conf, Version: ver}
	c.regions[newRegionID] = nr
}

// VerifLocatesimMerge merges region source into its neighbour target (either side); the target
// keeps its id, peers and conf version, covers both ranges and gets version max(v1,v2)+1.
func (c *Cluster) VerifLocatesimMerge(target, source uint64) bool {
	c.Lock()
	defer c.Unlock()
	t, s := c.regions[target], c.regions[source]
	if t == nil || s == nil || t == s {
		return false
	}
	switch {
	case len(t.Meta.EndKey) > 0 && string(t.Meta.EndKey) == string(s.Meta.StartKey):
		t.Meta.EndKey = s.Meta.EndKey
	case len(s.Meta.EndKey) > 0 && string(s.Meta.EndKey) == string(t.Meta.StartKey):
		t.Meta.StartKey = s.Meta.StartKey
	default:
		return false
	}
	v := t.Meta.GetRegionEpoch().GetVersion()
	if v2 := s.Meta.GetRegionEpoch().GetVersion(); v2 > v {
		v = v2
	}
	t.Meta.RegionEpoch = &metapb.RegionEpoch{ConfVer: t.Meta.GetRegionEpoch().GetConfVer(), Version: v + 1}
	delete(c.regions, source)
	return true
}
