//go:build verif

package oracles

import (
	"time"

	"github.com/tikv/client-go/v2/oracle"
)

// VerifAdaptiveState reports the state of the adaptive low-resolution update interval of a PD oracle
// (export shim for the simulation harness: read-only, used for reach statistics, never for a verdict).
func VerifAdaptiveState(o oracle.Oracle) (state string, configured, adaptive time.Duration, ok bool) {
	p, isPD := o.(*pdOracle)
	if !isPD {
		return "", 0, 0, false
	}
	p.adaptiveUpdateIntervalState.mu.Lock()
	defer p.adaptiveUpdateIntervalState.mu.Unlock()
	return p.adaptiveUpdateIntervalState.state.String(),
		time.Duration(p.lastTSUpdateInterval.Load()),
		time.Duration(p.adaptiveLastTSUpdateInterval.Load()), true
}
