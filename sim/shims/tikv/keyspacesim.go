//go:build verif

package tikv

import "github.com/tikv/client-go/v2/internal/apicodec"

// VerifNewCodecClient wraps a transport with the library's own CodecClient (the type
// NewTestKeyspaceTiKVStore puts in front of the transport) for an arbitrary codec, so that a
// raw-mode API v2 client can be assembled from parts. (Export shim of engine keyspacesim,
// overlaid at build time, never committed.)
func VerifNewCodecClient(c Client, codec apicodec.Codec) *CodecClient {
	return &CodecClient{Client: c, codec: codec}
}
