//go:build verif

package retry

// Export shim for the simulation harness (engine backoffsim, property C20):
// read-only access to unexported configuration, so that the oracle reads its
// limits from the library's own objects instead of copying constants. Overlaid
// at build time, never committed.

// VerifSleepExcluded returns a copy of the map "kind name -> own limit (ms)" of
// the kinds whose sleep is excluded from the back-off budget.
func VerifSleepExcluded() map[string]int {
	out := make(map[string]int, len(isSleepExcluded))
	for k, v := range isSleepExcluded {
		out[k] = v
	}
	return out
}

// VerifConfigCap returns the exponential cap (ms) of a back-off kind.
func VerifConfigCap(c *Config) int { return c.fnCfg.cap }

// VerifConfigJitter returns the jitter kind of a back-off kind.
func VerifConfigJitter(c *Config) int { return c.fnCfg.jitter }

// VerifConfigErr returns the error a kind reports when the budget is exhausted.
func VerifConfigErr(c *Config) error { return c.err }
