//go:build verif

package retry

// Export shim for the simulation harness (engine sendsim, property C10).

// VerifSendsimExcludedSleepLimitMs returns the sum of the own limits (ms) of the
// back-off kinds whose sleep is not charged to the caller's budget; the harness
// adds it to its simulated-time budget of one call instead of copying the constant.
func VerifSendsimExcludedSleepLimitMs() int {
	sum := 0
	for _, v := range isSleepExcluded {
		sum += v
	}
	return sum
}
