//go:build verif

package transaction

// VerifSetDefaultLockTTL sets the TTL (ms) of optimistic prewrite locks and returns the old value
// (export shim for the simulation harness: a per-run knob, overlaid at build time, never committed).
func VerifSetDefaultLockTTL(ms uint64) uint64 {
	old := defaultLockTTL
	defaultLockTTL = ms
	return old
}
