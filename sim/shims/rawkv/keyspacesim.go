//go:build verif

package rawkv

import (
	"github.com/pingcap/kvproto/pkg/kvrpcpb"
	"github.com/tikv/client-go/v2/internal/client"
	"github.com/tikv/client-go/v2/internal/locate"
	pd "github.com/tikv/pd/client"
)

// VerifNewClient assembles a Client from its parts the way NewClientWithOpts does after it
// has built the codec PD client and the codec-aware RPC client (the api version is an
// unexported field). (Export shim of engine keyspacesim, overlaid at build time, never committed.)
func VerifNewClient(apiVersion kvrpcpb.APIVersion, pdCli pd.Client, rpc client.Client) *Client {
	return &Client{
		apiVersion:  apiVersion,
		clusterID:   1,
		regionCache: locate.NewRegionCache(pdCli),
		pdClient:    pdCli,
		rpcClient:   rpc,
	}
}
