// Package oraclesim checks property C13 (timestamps): the real pdOracle (with its updater goroutine) and
// KVTxn.GetTimestampForCommit run over a simulated PD whose answers are delayed and reordered; the recorded
// history of API calls is judged against PD's issuance log.
package oraclesim

import (
	"crypto/sha1"
	"encoding/hex"
	"encoding/json"
	"fmt"
	"math/rand"
	"os"
	"sort"
	"strings"
	"testing"
	"testing/synctest"

	"github.com/tikv/client-go/v2/oracle/oracles"
	"github.com/tikv/client-go/v2/verifsim/simkit"
)

// Engine implements simkit.Engine.
type Engine struct{}

// LightRuns: tiny runs without pooled library objects (see simkit.RunOne).
func (Engine) LightRuns() bool { return true }

// Name implements simkit.Engine.
func (Engine) Name() string { return "oraclesim" }

// Decode implements simkit.Engine.
func (Engine) Decode(raw json.RawMessage) (any, error) {
	var sc Scenario
	if err := json.Unmarshal(raw, &sc); err != nil {
		return nil, err
	}
	return &sc, nil
}

// Generate implements simkit.Engine.
func (Engine) Generate(cfg simkit.RunConfig) (any, bool) {
	switch cfg.Mode {
	case "", "calls":
		return genCalls(cfg), true
	case "cas":
		return genCAS(cfg), true
	}
	panic("oraclesim: unknown mode " + cfg.Mode)
}

var prevValidation bool

// Prepare implements simkit.Preparer (outside the bubble): process-global switches.
func (Engine) Prepare(cfg simkit.RunConfig, scenario any) {
	prevValidation = oracles.EnableTSValidation.Swap(true)
	rand.Seed(int64(cfg.Seed)) // back-off jitter of the code under test
}

// Cleanup implements simkit.Preparer.
func (Engine) Cleanup(cfg simkit.RunConfig, scenario any) {
	oracles.EnableTSValidation.Store(prevValidation)
}

// Execute implements simkit.Engine (inside the bubble).
func (Engine) Execute(t *testing.T, cfg simkit.RunConfig, scenario any) *simkit.RunResult {
	sc := scenario.(*Scenario)
	s := simkit.New(cfg.Seed)
	s.Limits.MaxEvents = 120000
	res := &simkit.RunResult{}
	w := newWorld(s, sc)
	s.OnAbort = w.shutdown
	func() {
		defer func() {
			if w.setHook != nil {
				w.setHook(nil)
			}
		}()
		s.Run(w.run)
	}()
	issued := w.tso.snapshot()
	w.close()
	if w.store != nil {
		simkit.Settle()
	} else {
		synctest.Wait()
	}

	res.Aborted = s.Aborted
	if w.openErr != nil && res.Aborted == "" {
		res.Aborted = "open-failed"
		res.Log = append(res.Log, w.openErr.Error())
	}
	res.Events = s.Events
	res.SimTime = s.Now()
	res.Stats = s.Stats()

	var recs []*Rec
	for _, rs := range w.recs {
		recs = append(recs, rs...)
	}
	if w.final != nil {
		recs = append(recs, w.final)
	}
	// canonical trace: PD events and yield releases in the order the simulator executed them, then the
	// calls of every caller in program order with their results (no stamps: they depend on nothing else)
	res.Trace = append(res.Trace, w.trace...)
	for _, r := range recs {
		res.Trace = append(res.Trace, fmt.Sprintf("c%d.%d %s ts=%d read=%d exp=%v/%d err=%s", r.Caller, r.Idx, r.Call.Kind, r.TS, r.ReadTS, r.Expired, r.Until, r.ErrKind))
	}
	hsum := sha1.Sum([]byte(strings.Join(res.Trace, "\n")))
	res.SchedHash = hex.EncodeToString(hsum[:8])

	c := &checker{issued: issued, set: map[uint64]bool{}, recs: recs, stats: map[string]int{}}
	for _, i := range issued {
		c.set[i.TS] = true
	}
	c.run()
	checks := 0
	for k, v := range c.stats {
		res.Stats[k] += v
		if strings.HasPrefix(k, "checks.") {
			checks += v
		}
	}
	for _, r := range recs {
		k := r.Call.Kind
		if k == "val" || k == "cw" {
			k += "." + r.Call.Rel
		}
		res.Stats["call."+k]++
		if r.Failed {
			res.Stats["callerr."+r.Call.Kind+"."+r.ErrKind]++
		}
	}
	res.Stats["pd.issued"] = len(issued)
	yields := 0
	for k, v := range res.Stats {
		if strings.HasPrefix(k, "yield.") {
			yields += v
		}
	}
	if sc.Hooks && !w.hooks {
		res.Stats["hooks.missing"] = 1 // the library was built without hooks.patch: the run says nothing about the CAS interleavings
	}
	// Nontrivial: the run ended normally, at least 3 rule evaluations took place and (when the scenario asks for
	// the yield hook) at least one goroutine was parked and released at a hook point.
	res.Nontrivial = res.Aborted == "" && checks >= 3 && (!sc.Hooks || yields > 0)
	// the safety rules are judged on whatever was recorded (an interrupted call carries a "pd" error and is skipped)
	res.Violations = c.out
	if len(res.Violations) > 0 || os.Getenv("VERIF_DUMP") != "" {
		sort.Slice(recs, func(i, j int) bool { return recs[i].Inv < recs[j].Inv })
		res.Log = append(res.Log, fmt.Sprintf("scenario: mode=%s tempo=%s interval=%dus skew=%dms tick=%dms lat=%s faults=%.2f hooks=%v/%v", sc.Mode, sc.Tempo, sc.IntervalUs, sc.SkewMs, sc.TickMs, sc.Lat, sc.FaultRate, sc.Hooks, w.hooks))
		res.Log = append(res.Log, "-- calls in invocation order [invoke stamp, return stamp]")
		for _, r := range recs {
			res.Log = append(res.Log, r.String())
		}
		res.Log = append(res.Log, "-- PD issuance log (stamp: ts, request)")
		for _, i := range issued {
			res.Log = append(res.Log, fmt.Sprintf("%d: %d (physical %d logical %d) %s", i.Seq, i.TS, i.TS>>logicalBits, i.TS&(1<<logicalBits-1), i.Key))
		}
		res.Log = append(res.Log, "-- simulator events")
		res.Log = append(res.Log, w.trace...)
	}
	res.Sample = map[string]any{
		"mode": sc.Mode, "tempo": sc.Tempo, "callers": len(sc.Callers), "calls": len(recs), "issued": len(issued),
		"interval_us": sc.IntervalUs, "lat": sc.Lat, "fault_rate": sc.FaultRate, "hooks": w.hooks, "yields": yields,
		"sim_ms": res.SimTime.Milliseconds(), "sched_hash": res.SchedHash,
	}
	return res
}

// Shrink implements simkit.Engine: drop callers, drop calls, remove faults and pauses.
func (Engine) Shrink(scenario any) []any {
	sc := scenario.(*Scenario)
	clone := func() *Scenario {
		b, _ := json.Marshal(sc)
		var c Scenario
		_ = json.Unmarshal(b, &c)
		return &c
	}
	var out []any
	for i := range sc.Callers {
		if len(sc.Callers) > 1 {
			c := clone()
			c.Callers = append(c.Callers[:i], c.Callers[i+1:]...)
			out = append(out, c)
		}
	}
	for i := range sc.Callers {
		if n := len(sc.Callers[i].Calls); n > 1 {
			c := clone()
			c.Callers[i].Calls = c.Callers[i].Calls[:n/2]
			out = append(out, c)
			c = clone()
			c.Callers[i].Calls = c.Callers[i].Calls[n/2:]
			out = append(out, c)
		}
	}
	for i := range sc.Callers {
		for j := range sc.Callers[i].Calls {
			c := clone()
			c.Callers[i].Calls = append(c.Callers[i].Calls[:j], c.Callers[i].Calls[j+1:]...)
			out = append(out, c)
		}
	}
	if sc.FaultRate > 0 {
		c := clone()
		c.FaultRate = 0
		out = append(out, c)
	}
	if sc.YieldMaxUs > 0 {
		c := clone()
		c.YieldMaxUs = 0
		out = append(out, c)
	}
	if sc.SkewMs != 0 {
		c := clone()
		c.SkewMs = 0
		out = append(out, c)
	}
	if sc.TailMs > 5 {
		c := clone()
		c.TailMs = 5
		out = append(out, c)
	}
	if sc.Lat != "narrow" && sc.Lat != "quant" {
		c := clone()
		c.Lat = "narrow"
		out = append(out, c)
	}
	return out
}
