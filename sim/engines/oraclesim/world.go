package oraclesim

import (
	"context"
	"errors"
	"fmt"
	"math"
	"runtime"
	"strconv"
	"strings"
	"sync"
	"sync/atomic"
	"time"

	"github.com/tikv/client-go/v2/config/retry"
	tikverr "github.com/tikv/client-go/v2/error"
	"github.com/tikv/client-go/v2/internal/client"
	"github.com/tikv/client-go/v2/internal/mockstore/mocktikv"
	"github.com/tikv/client-go/v2/oracle"
	"github.com/tikv/client-go/v2/oracle/oracles"
	"github.com/tikv/client-go/v2/tikv"
	"github.com/tikv/client-go/v2/tikvrpc"
	"github.com/tikv/client-go/v2/txnkv/transaction"
	"github.com/tikv/client-go/v2/util/async"
	"github.com/tikv/client-go/v2/verifsim/simkit"
)

// Rec is one recorded API call: invoke and return stamps come from the same global counter as the
// stamps of PD's allocations, so "PD had issued x before the call was invoked" is a comparison of stamps.
type Rec struct {
	Caller, Idx int
	Call        Call
	Inv, Ret    uint64
	InvAt       time.Duration
	RetAt       time.Duration
	TS          uint64 // result of ts / tsa / low / lowa / stale / cw / foreign
	Failed      bool   // the call returned a non-nil error (some library errors have an empty message)
	Err         string
	ErrKind     string // "" | future | latest-stale | maxint-range | pd | lag | canceled | other
	ReadTS      uint64 // val
	Low0, Low1  uint64 // exp: cached ts read before / after the pair
	Lock, TTL   uint64 // exp
	Expired     bool   // exp
	Until       int64  // exp
	Constraint  uint64 // cw
	PDClockMs   int64  // stale: PD's clock right after the call
}

func (r *Rec) String() string {
	var sb strings.Builder
	fmt.Fprintf(&sb, "[%d,%d] c%d.%d %s", r.Inv, r.Ret, r.Caller, r.Idx, r.Call.Kind)
	switch r.Call.Kind {
	case "ts", "tsa", "low", "lowa", "foreign":
		fmt.Fprintf(&sb, " scope=%q -> ts=%d", r.Call.Scope, r.TS)
	case "stale":
		fmt.Fprintf(&sb, "(prevSecond=%d) -> ts=%d (physical %d ms, PD clock %d ms)", r.Call.A, r.TS, r.TS>>logicalBits, r.PDClockMs)
	case "exp":
		fmt.Fprintf(&sb, "(lock=%d (physical %d ms), ttl=%d) cached before=%d (physical %d ms) IsExpired=%v UntilExpired=%d cached after=%d", r.Lock, r.Lock>>logicalBits, r.TTL, r.Low0, r.Low0>>logicalBits, r.Expired, r.Until, r.Low1)
	case "val":
		fmt.Fprintf(&sb, "(readTS=%d [%s %d], stale=%v, scope=%q)", r.ReadTS, r.Call.Rel, r.Call.A, r.Call.Stale, r.Call.Scope)
	case "cw":
		fmt.Fprintf(&sb, "(constraint=%d [%s], timeout=%dms) -> ts=%d", r.Constraint, r.Call.Rel, r.Call.C, r.TS)
	case "setint", "sleep", "until":
		fmt.Fprintf(&sb, "(%dus)", r.Call.A)
	}
	if r.Failed {
		fmt.Fprintf(&sb, " err[%s]=%q", r.ErrKind, r.Err)
	}
	fmt.Fprintf(&sb, " @%v..%v", r.InvAt, r.RetAt)
	return sb.String()
}

type world struct {
	sim      *simkit.Sim
	sc       *Scenario
	tso      *simTSO
	pd       *simPD
	o        oracle.Oracle
	store    *tikv.KVStore
	down     chan struct{}
	stopping atomic.Bool
	downOnce sync.Once
	latH     *simkit.Hasher
	schedH   *simkit.Hasher
	faultH   *simkit.Hasher
	yieldH   *simkit.Hasher

	mu        sync.Mutex
	names     map[uint64]string
	occ       map[string]int
	trace     []string
	recs      [][]*Rec
	final     *Rec
	lastState string
	hooks     bool // the library has the yield hook and it is installed
	setHook   func(func(string))
	startPhys int64
	openErr   error
	// updNarrow: the updater's own PD requests get short latencies. The updater goroutine selects on its
	// ticker and on the "shrink the interval" channel; when both are ready the Go runtime picks one at random
	// (not seedable). Both can only be ready when the updater was busy for a long time, so in scenarios that can
	// send shrink requests at all the updater is kept fast, which keeps a run a function of its seed.
	updNarrow bool
}

// shrinkPossible: a stale-read validation can ask the updater to shrink its interval only while the
// interval is above the library's lower bound for adaptive intervals; the bound is not mirrored here,
// "the scenario never uses an interval above 100 ms" is the (conservative) criterion.
func shrinkPossible(sc *Scenario) bool {
	big, staleVal := sc.IntervalUs > 100000, false
	for _, c := range sc.Callers {
		for _, k := range c.Calls {
			if k.Kind == "setint" && k.A > 100000 {
				big = true
			}
			if k.Kind == "val" && k.Stale {
				staleVal = true
			}
		}
	}
	return big && staleVal
}

func newWorld(s *simkit.Sim, sc *Scenario) *world {
	return &world{
		sim: s, sc: sc, down: make(chan struct{}),
		tso:    &simTSO{skew: time.Duration(sc.SkewMs) * time.Millisecond, tick: max(sc.TickMs, 1)},
		latH:   simkit.NewHasher(s.Seed, "pdlat"),
		schedH: simkit.NewHasher(s.Seed, "pdsched"),
		faultH: simkit.NewHasher(s.Seed, "pdfault"),
		yieldH: simkit.NewHasher(s.Seed, "yield"),
		names:  map[uint64]string{}, occ: map[string]int{},
		recs:      make([][]*Rec, len(sc.Callers)),
		updNarrow: shrinkPossible(sc),
	}
}

func (w *world) tracef(format string, args ...any) {
	w.mu.Lock()
	w.trace = append(w.trace, fmt.Sprintf(format, args...))
	w.mu.Unlock()
}

// gname returns a stable logical name of the calling goroutine: registered callers by their index; the
// goroutines the library starts by what they are (the updater; the single-flight fetch).
func (w *world) gname() string {
	var buf [16384]byte
	n := runtime.Stack(buf[:], false)
	s := string(buf[:n])
	w.mu.Lock()
	name, ok := w.names[goidOf(s)]
	w.mu.Unlock()
	switch {
	case ok:
		return name
	case strings.Contains(s, ").updateTS"):
		return "upd"
	case strings.Contains(s, "singleflight."):
		// a single-flight fetch of ValidateReadTS. Which of the waiting callers started it is decided by the Go
		// scheduler, so it cannot be named after its creator; all validations of one run use the same
		// single-flight key (Scenario.ValScope), hence at most one such goroutine exists at a time.
		return "flt"
	}
	return "anon"
}

func goidOf(stack string) uint64 {
	rest, ok := strings.CutPrefix(stack, "goroutine ")
	if !ok {
		return 0
	}
	if i := strings.IndexByte(rest, ' '); i > 0 {
		id, _ := strconv.ParseUint(rest[:i], 10, 64)
		return id
	}
	return 0
}

func (w *world) register(name string) func() {
	var buf [64]byte
	n := runtime.Stack(buf[:], false)
	id := goidOf(string(buf[:n]))
	w.mu.Lock()
	w.names[id] = name
	w.mu.Unlock()
	return func() {
		w.mu.Lock()
		delete(w.names, id)
		w.mu.Unlock()
	}
}

// yield is the function installed into simhook.Hook: the goroutine parks until the simulator's
// seeded scheduler releases it (one goroutine at a time).
func (w *world) yield(site string) {
	if w.stopping.Load() {
		return
	}
	key := w.nextKey(w.gname(), site)
	var d time.Duration
	if w.sc.YieldMaxUs > 0 && w.yieldH.Intn(key+"z", 2) == 1 {
		// a quantised pause: other responses arrive while this goroutine sits between two steps
		d = time.Duration(100*(1+w.yieldH.Intn(key+"d", int(w.sc.YieldMaxUs/100)))) * time.Microsecond
	}
	ch := make(chan struct{})
	w.sim.Count("yield." + site)
	var before uint64
	if strings.HasSuffix(site, ".cas") && w.o != nil {
		before, _ = w.o.GetLowResolutionTimestamp(context.Background(), &oracle.Option{TxnScope: oracle.GlobalTxnScope})
	}
	w.sim.Submit("yield:"+key, d, w.yieldH.U64(key), func() {
		w.tracef("yield %s", key)
		close(ch)
	})
	select {
	case <-ch:
	case <-w.down:
	}
	if before != 0 {
		// reach probe: somebody replaced the cached ts while this goroutine sat between Load and CompareAndSwap
		if after, _ := w.o.GetLowResolutionTimestamp(context.Background(), &oracle.Option{TxnScope: oracle.GlobalTxnScope}); after != before {
			w.sim.Count("probe.setLastTS.cas-loses-race")
		}
	}
}

// pause parks a harness goroutine until the simulator releases it after d of simulated time. Every step
// and every sleep of a caller goes through here, so callers are woken one at a time in an order that is
// a function of the seed (two sleeps ending at the same instant would otherwise be woken together by
// the runtime, in an order the simulator does not control).
func (w *world) pause(name string, d time.Duration) {
	if w.stopping.Load() {
		return
	}
	if d < 0 {
		d = 0
	}
	key := w.nextKey(name, "step")
	ch := make(chan struct{})
	w.sim.Submit("step:"+key, d, w.schedH.U64(key), func() { close(ch) })
	select {
	case <-ch:
	case <-w.down:
	}
}

// deadClient is the tikv.Client of the KVStore used for commit-wait fetches; nothing may use it.
type deadClient struct{ w *world }

func (c *deadClient) Close() error                                { return nil }
func (c *deadClient) CloseAddr(string) error                      { return nil }
func (c *deadClient) SetEventListener(client.ClientEventListener) {}
func (c *deadClient) fail() error {
	c.w.sim.Count("stub.tikv-request")
	return errors.New("oraclesim: no TiKV in this simulation")
}
func (c *deadClient) SendRequest(context.Context, string, *tikvrpc.Request, time.Duration) (*tikvrpc.Response, error) {
	return nil, c.fail()
}
func (c *deadClient) SendRequestAsync(_ context.Context, _ string, _ *tikvrpc.Request, cb async.Callback[*tikvrpc.Response]) {
	cb.Schedule(nil, c.fail())
}

func (sc *Scenario) has(kind string) bool {
	for _, c := range sc.Callers {
		for _, k := range c.Calls {
			if k.Kind == kind {
				return true
			}
		}
	}
	return false
}

// open creates the oracle under test (and the KVStore when the program fetches commit timestamps).
func (w *world) open() error {
	defer w.register("init")()
	w.startPhys = w.tso.clockMs()
	cluster := mocktikv.NewCluster(nil) // no stores, no regions: nothing but the TSO is used
	w.pd = &simPD{Client: mocktikv.NewPDClient(cluster), w: w}
	o, err := oracles.NewPdOracle(w.pd, &oracles.PDOracleOptions{UpdateInterval: time.Duration(w.sc.IntervalUs) * time.Microsecond})
	if err != nil {
		return err
	}
	w.o = o
	if w.sc.has("cw") {
		st, err := tikv.NewTestTiKVStore(&deadClient{w}, w.pd, nil, nil, 0)
		if err != nil {
			return err
		}
		// the store made an oracle of its own: stop it and let the store use the oracle under test
		st.GetOracle().Close()
		st.SetOracle(w.o)
		w.store = st
	}
	if w.sc.Hooks {
		// present only when hooks.patch is applied to the library (detected at run time)
		if h, ok := o.(interface{ VerifSetYieldHook(func(string)) }); ok {
			w.setHook = h.VerifSetYieldHook
			w.setHook(w.yield)
			w.hooks = true
		}
	}
	if st, _, _, ok := oracles.VerifAdaptiveState(w.o); ok {
		w.lastState = st
	}
	return nil
}

func (w *world) shutdown() {
	w.downOnce.Do(func() {
		w.stopping.Store(true)
		close(w.down)
	})
}

func (w *world) close() {
	w.shutdown()
	if w.setHook != nil {
		w.setHook(nil)
	}
	if w.store != nil {
		_ = w.store.Close() // closes the oracle under test
	} else if w.o != nil {
		w.o.Close()
	}
}

func (w *world) sampleState() {
	st, _, _, ok := oracles.VerifAdaptiveState(w.o)
	if !ok {
		return
	}
	w.mu.Lock()
	prev := w.lastState
	w.lastState = st
	w.mu.Unlock()
	if prev != st {
		w.sim.Count("probe.adaptive." + prev + ">" + st)
	}
}

func errKind(err error) string {
	if err == nil {
		return ""
	}
	var fut oracle.ErrFutureTSRead
	var lat oracle.ErrLatestStaleRead
	var pdTimeout *tikverr.ErrPDServerTimeout
	msg := err.Error()
	switch {
	case errors.Is(err, context.Canceled), strings.Contains(msg, context.Canceled.Error()):
		return "canceled"
	case errors.As(err, &pdTimeout):
		return "pd"
	case errors.As(err, &fut):
		return "future"
	case errors.As(err, &lat):
		return "latest-stale"
	case strings.Contains(msg, "MaxInt64 <= readTS"):
		return "maxint-range"
	case tikverr.IsErrorCommitTSLag(err):
		return "lag"
	case strings.Contains(msg, errPDFault.Error()), strings.Contains(msg, errPDDown.Error()), strings.Contains(msg, "PD server timeout"):
		return "pd"
	}
	return "other"
}

func compose(physical, logical int64) uint64 {
	if physical < 0 {
		physical = 0
	}
	return uint64(physical)<<logicalBits | uint64(logical&(1<<logicalBits-1))
}

func addMs(ts uint64, ms int64) uint64 {
	return compose(int64(ts>>logicalBits)+ms, int64(ts&(1<<logicalBits-1)))
}

func (w *world) readTSOf(c Call) uint64 {
	switch c.Rel {
	case "old":
		return w.tso.nth(int(c.A))
	case "low":
		ts, _ := w.o.GetLowResolutionTimestamp(context.Background(), &oracle.Option{TxnScope: oracle.GlobalTxnScope})
		return ts
	case "latest":
		return w.tso.max()
	case "latest+":
		return w.tso.max() + uint64(c.A)
	case "nexttick":
		return compose(w.tso.nextTick(), c.A)
	case "ago":
		return compose(w.tso.clockMs()-c.A, 0)
	case "future":
		return addMs(w.tso.max(), c.A)
	case "maxint":
		return uint64(math.MaxInt64) + uint64(c.A)
	case "max":
		return math.MaxUint64
	default: // small
		return uint64(c.A)
	}
}

func (w *world) constraintOf(c Call) uint64 {
	switch c.Rel {
	case "past":
		return addMs(w.tso.max(), -c.A)
	case "latest":
		return w.tso.max()
	case "nexttick":
		return compose(w.tso.nextTick(), c.B)
	case "ahead":
		return compose(w.tso.clockMs()+c.A, c.B)
	}
	return 0
}

func (w *world) do(name string, ci, idx int, c Call) *Rec {
	r := &Rec{Caller: ci, Idx: idx, Call: c}
	w.pause(name, 0) // the simulator decides who takes the next step
	ctx := context.Background()
	opt := &oracle.Option{TxnScope: c.Scope}
	setErr := func(err error) {
		if err != nil {
			r.Failed, r.Err, r.ErrKind = true, err.Error(), errKind(err)
		}
	}
	// arguments that depend on the state of the run are resolved before the invoke stamp
	switch c.Kind {
	case "val":
		r.ReadTS = w.readTSOf(c)
	case "cw":
		r.Constraint = w.constraintOf(c)
	}
	r.InvAt = w.sim.Now()
	r.Inv = w.sim.Stamp()
	switch c.Kind {
	case "ts":
		ts, err := w.o.GetTimestamp(ctx, opt)
		r.TS = ts
		setErr(err)
	case "tsa":
		f := w.o.GetTimestampAsync(ctx, opt)
		if c.A > 0 {
			w.pause(name, time.Duration(c.A)*time.Microsecond)
		}
		ts, err := f.Wait()
		r.TS = ts
		setErr(err)
	case "low":
		ts, err := w.o.GetLowResolutionTimestamp(ctx, opt)
		r.TS = ts
		setErr(err)
	case "lowa":
		ts, err := w.o.GetLowResolutionTimestampAsync(ctx, opt).Wait()
		r.TS = ts
		setErr(err)
	case "stale":
		ts, err := w.o.GetStaleTimestamp(ctx, oracle.GlobalTxnScope, uint64(c.A))
		r.PDClockMs = w.tso.clockMs()
		r.TS = ts
		setErr(err)
	case "exp":
		low0, err := w.o.GetLowResolutionTimestamp(ctx, opt)
		setErr(err)
		if c.Rel == "pool" {
			a := w.sc.ExpPool[int(c.A)%len(w.sc.ExpPool)]
			r.Lock, r.TTL = compose(w.startPhys+a.OffMs, a.Logical), uint64(a.TTL)
		} else {
			r.Lock, r.TTL = compose(int64(low0>>logicalBits)-c.A+c.B, c.C), uint64(c.A)
		}
		// back to back, nothing of the harness in between
		r.Expired = w.o.IsExpired(r.Lock, r.TTL, opt)
		r.Until = w.o.UntilExpired(r.Lock, r.TTL, opt)
		low1, _ := w.o.GetLowResolutionTimestamp(ctx, opt)
		r.Low0, r.Low1 = low0, low1
	case "val":
		if c.CancelUs > 0 {
			cctx, cancel := context.WithCancel(ctx)
			t := time.AfterFunc(time.Duration(c.CancelUs)*time.Microsecond, func() {
				w.sim.Count("fault.caller-cancelled")
				cancel()
			})
			setErr(w.o.ValidateReadTS(cctx, r.ReadTS, c.Stale, opt))
			t.Stop()
			cancel()
			break
		}
		setErr(w.o.ValidateReadTS(ctx, r.ReadTS, c.Stale, opt))
	case "setint":
		setErr(w.o.SetLowResolutionTimestampUpdateInterval(time.Duration(c.A) * time.Microsecond))
	case "sleep":
		w.pause(name, time.Duration(c.A)*time.Microsecond)
	case "until":
		w.pause(name, time.Duration(c.A)*time.Microsecond-w.sim.Now())
	case "cw":
		txn, err := w.store.Begin(tikv.WithStartTS(1))
		if err != nil {
			setErr(err)
			break
		}
		if r.Constraint != 0 {
			txn.SetCommitWaitUntilTSO(r.Constraint)
		}
		if c.C >= 0 {
			txn.SetCommitWaitUntilTSOTimeout(time.Duration(c.C) * time.Millisecond)
		}
		bo := retry.NewBackofferWithVars(ctx, transaction.TsoMaxBackoff, nil)
		ts, err := txn.GetTimestampForCommit(bo, oracle.GlobalTxnScope)
		r.TS = ts
		setErr(err)
	case "foreign":
		p, l, err := w.pd.GetTS(ctx)
		if err == nil {
			r.TS = compose(p, l)
		}
		setErr(err)
	}
	r.Ret = w.sim.Stamp()
	r.RetAt = w.sim.Now()
	return r
}

func (w *world) runCaller(ci int) {
	name := fmt.Sprintf("c%d", ci)
	defer w.register(name)()
	p := &w.sc.Callers[ci]
	w.pause(name, time.Duration(p.StartUs)*time.Microsecond)
	for i, c := range p.Calls {
		if w.stopping.Load() {
			return
		}
		if c.Kind == "cw" && w.store == nil {
			continue
		}
		r := w.do(name, ci, i, c)
		w.recs[ci] = append(w.recs[ci], r)
		w.sampleState()
	}
}

// run is the body of the simulation (runs on the simulator's main goroutine).
func (w *world) run() {
	if err := w.open(); err != nil {
		w.openErr = err
		return
	}
	var wg sync.WaitGroup
	for ci := range w.sc.Callers {
		wg.Add(1)
		go func() {
			defer wg.Done()
			w.runCaller(ci)
		}()
	}
	wg.Wait()
	if w.stopping.Load() {
		return
	}
	// let the updater run on its own for a while, then read the cached ts once more
	defer w.register("final")()
	w.pause("final", time.Duration(w.sc.TailMs)*time.Millisecond)
	w.sampleState()
	w.final = w.do("final", -1, 0, Call{Kind: "low", Scope: "global"})
}
