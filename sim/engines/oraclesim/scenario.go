package oraclesim

import (
	"math/rand"

	"github.com/tikv/client-go/v2/verifsim/simkit"
)

// Call is one API call of a caller's program. The meaning of A, B, C depends on Kind:
//
//	ts       GetTimestamp
//	tsa      GetTimestampAsync, sleep A us, Wait
//	low      GetLowResolutionTimestamp
//	lowa     GetLowResolutionTimestampAsync().Wait()
//	stale    GetStaleTimestamp(prevSecond = A)
//	exp      IsExpired + UntilExpired back to back on the same arguments.
//	         Rel "edge": ttl = A ms, lock physical = physical(cached ts) - A + B ms (B = distance from the expiry edge), logical C
//	         Rel "pool": arguments = Scenario.ExpPool[A] (fixed for the whole run, so the same pair recurs)
//	val      ValidateReadTS(readTS, Stale); readTS by Rel:
//	         old (the A-th newest issued ts), low (the cached ts), latest (newest issued), latest+ (newest issued + A),
//	         nexttick (first ts of PD's next physical tick + A), ago (PD clock - A ms; negative A = ahead of PD's clock),
//	         future (newest issued + A ms), maxint (MaxInt64 + A), max (MaxUint64), small (A)
//	setint   SetLowResolutionTimestampUpdateInterval(A us) (A <= 0: must be refused)
//	sleep    sleep A us
//	until    sleep until A us after the start of the run
//	cw       KVTxn.GetTimestampForCommit with SetCommitWaitUntilTSO(c), timeout C ms (C < 0: library default); c by Rel:
//	         none (no constraint), past (newest issued - A ms), latest (newest issued), nexttick (first ts of PD's next tick + B),
//	         ahead (PD clock + A ms, logical B)
//	foreign  a timestamp fetched from PD by somebody else (bypasses the oracle under test)
type Call struct {
	Kind  string `json:"k"`
	A     int64  `json:"a,omitempty"`
	B     int64  `json:"b,omitempty"`
	C     int64  `json:"c,omitempty"`
	Rel   string `json:"rel,omitempty"`
	Stale bool   `json:"stale,omitempty"`
	Scope string `json:"scope,omitempty"` // "" and "global" name the same scope (but different single-flight keys)
	// CancelUs > 0: the context of this call is cancelled that many microseconds after its invocation (val only)
	CancelUs int64 `json:"cancel_us,omitempty"`
}

// Caller is one goroutine of the workload.
type Caller struct {
	StartUs int64  `json:"start_us"`
	Calls   []Call `json:"calls"`
}

// ExpArgs is a fixed (lock timestamp, ttl) pair: lock physical = run start + OffMs.
type ExpArgs struct {
	OffMs   int64 `json:"off_ms"`
	Logical int64 `json:"logical"`
	TTL     int64 `json:"ttl"`
}

// Scenario is the explicit description of one run.
type Scenario struct {
	Mode       string  `json:"mode"`
	Tempo      string  `json:"tempo"`       // fast | adaptive | cas
	IntervalUs int64   `json:"interval_us"` // initial update interval of the oracle
	SkewMs     int64   `json:"skew_ms"`     // PD clock - local clock
	TickMs     int64   `json:"tick_ms"`     // granularity of PD's physical clock
	Lat        string  `json:"lat"`         // narrow | wide | mixed | quant
	FaultRate  float64 `json:"fault_rate"`  // share of TSO requests that fail (before or after the allocation)
	YieldMaxUs int64   `json:"yield_max_us"`
	Hooks      bool    `json:"hooks"` // install the yield hook when the library has it
	// ValScope is the scope string of every ValidateReadTS call of the run ("" and "global" are the same scope but
	// different single-flight keys; one key per run keeps the single-flight goroutine unique, see world.gname).
	ValScope string    `json:"val_scope"`
	Callers  []Caller  `json:"callers"`
	ExpPool  []ExpArgs `json:"exp_pool,omitempty"`
	TailMs   int64     `json:"tail_ms"`
}

func pick[T any](r *rand.Rand, xs ...T) T { return xs[r.Intn(len(xs))] }

type weighted struct {
	kind string
	w    int
}

func pickKind(r *rand.Rand, ws []weighted) string {
	tot := 0
	for _, w := range ws {
		tot += w.w
	}
	n := r.Intn(tot)
	for _, w := range ws {
		if n < w.w {
			return w.kind
		}
		n -= w.w
	}
	return ws[0].kind
}

func scopeOf(r *rand.Rand) string {
	if r.Intn(4) == 0 {
		return ""
	}
	return "global"
}

func genVal(r *rand.Rand, sc *Scenario) Call {
	c := Call{Kind: "val", Stale: r.Intn(2) == 0, Scope: scopeOf(r)}
	c.Rel = pickKind(r, []weighted{{"old", 14}, {"low", 8}, {"latest", 22}, {"latest+", 10}, {"nexttick", 6}, {"ago", 16}, {"future", 9}, {"maxint", 4}, {"max", 7}, {"small", 4}})
	switch c.Rel {
	case "old":
		c.A = int64(r.Intn(20))
	case "latest+":
		c.A = int64(1 + r.Intn(3))
	case "nexttick":
		c.A = int64(r.Intn(3))
	case "ago":
		// staleness around the update interval (drives the adaptive interval), sometimes ahead of PD's clock
		iv := sc.IntervalUs / 1000
		c.A = pick(r, int64(r.Intn(200))-100, int64(r.Intn(int(iv)+1)), iv+int64(r.Intn(400))-200, int64(r.Intn(20000)))
	case "future":
		c.A = pick(r, int64(1+r.Intn(50)), int64(1+r.Intn(5000)), int64(1+r.Intn(100000000)))
	case "maxint":
		c.A = pick(r, int64(0), int64(1), int64(r.Int63n(1<<62)))
	case "small":
		c.A = int64(r.Intn(100))
	}
	if r.Intn(6) == 0 {
		// the caller gives up while the (possibly shared) fetch from PD is outstanding
		c.CancelUs = pick(r, int64(50+r.Intn(3000)), int64(1000+r.Intn(200000)), int64(1+r.Intn(2000000)))
	}
	return c
}

func genCW(r *rand.Rand) Call {
	c := Call{Kind: "cw", C: pick(r, int64(-1), int64(-1), int64(0), int64(50), int64(1000), int64(3000))}
	c.Rel = pickKind(r, []weighted{{"none", 8}, {"past", 12}, {"latest", 20}, {"nexttick", 30}, {"ahead", 30}})
	switch c.Rel {
	case "past":
		c.A = int64(r.Intn(5000))
	case "nexttick":
		c.B = int64(r.Intn(4))
	case "ahead":
		c.A = pick(r, int64(1+r.Intn(60)), int64(1+r.Intn(1000)), int64(900+r.Intn(300)), int64(1+r.Intn(4000)))
		c.B = pick(r, int64(0), int64(0), int64(r.Intn(5)), int64(r.Intn(1<<18)))
	}
	return c
}

func genExp(r *rand.Rand, sc *Scenario) Call {
	if len(sc.ExpPool) > 0 && r.Intn(3) == 0 {
		return Call{Kind: "exp", Rel: "pool", A: int64(r.Intn(len(sc.ExpPool))), Scope: scopeOf(r)}
	}
	c := Call{Kind: "exp", Rel: "edge", Scope: scopeOf(r)}
	c.A = pick(r, int64(0), int64(r.Intn(50)), int64(r.Intn(600000)))
	c.B = pick(r, int64(0), int64(1), int64(-1), int64(r.Intn(7))-3, int64(r.Intn(4000))-2000)
	c.C = pick(r, int64(0), int64(r.Intn(1<<18)))
	return c
}

func genSetInt(r *rand.Rand, tempo string) Call {
	if r.Intn(5) == 0 {
		return Call{Kind: "setint", A: pick(r, int64(0), int64(-1), int64(-1000000))}
	}
	if tempo == "adaptive" {
		return Call{Kind: "setint", A: 1000 * pick(r, int64(400), int64(500), int64(501), int64(700), int64(1500), int64(2000), int64(4000), int64(10000))}
	}
	return Call{Kind: "setint", A: 1000 * pick(r, int64(10), int64(20), int64(50), int64(200), int64(500), int64(501), int64(1000), int64(2000))}
}

func genSleep(r *rand.Rand, tempo string) Call {
	switch n := r.Intn(10); {
	case n < 6:
		return Call{Kind: "sleep", A: int64(r.Intn(5000))}
	case n < 9:
		return Call{Kind: "sleep", A: int64(r.Intn(500000))}
	default:
		if tempo == "adaptive" {
			return Call{Kind: "sleep", A: int64(r.Intn(8000000))}
		}
		return Call{Kind: "sleep", A: int64(r.Intn(2000000))}
	}
}

var callsMix = []weighted{{"ts", 16}, {"tsa", 8}, {"low", 10}, {"lowa", 5}, {"stale", 7}, {"exp", 9}, {"val", 20}, {"setint", 5}, {"sleep", 10}, {"cw", 7}, {"foreign", 3}}

func genCall(r *rand.Rand, sc *Scenario, mix []weighted) Call {
	switch k := pickKind(r, mix); k {
	case "tsa":
		return Call{Kind: "tsa", A: pick(r, int64(0), int64(r.Intn(3000)), int64(r.Intn(200000))), Scope: scopeOf(r)}
	case "stale":
		return Call{Kind: "stale", A: pick(r, int64(0), int64(0), int64(1), int64(r.Intn(10)), int64(r.Intn(100000)), int64(946684800+r.Intn(5)-2))}
	case "exp":
		return genExp(r, sc)
	case "val":
		return genVal(r, sc)
	case "setint":
		return genSetInt(r, sc.Tempo)
	case "sleep":
		return genSleep(r, sc.Tempo)
	case "cw":
		return genCW(r)
	default:
		return Call{Kind: k, Scope: scopeOf(r)}
	}
}

func genCalls(cfg simkit.RunConfig) *Scenario {
	r := simkit.Rand(cfg.Seed, "gen")
	sc := &Scenario{Mode: "calls"}
	sc.Tempo = pick(r, "fast", "fast", "adaptive")
	if sc.Tempo == "adaptive" {
		sc.IntervalUs = 1000 * pick(r, int64(600), int64(1000), int64(2000), int64(2000), int64(5000), int64(10000))
	} else {
		sc.IntervalUs = 1000 * pick(r, int64(10), int64(50), int64(200), int64(500), int64(501), int64(1000), int64(2000))
	}
	sc.SkewMs = pick(r, int64(0), int64(0), int64(0), int64(37), int64(-41), int64(3000), int64(-3000), int64(3600000))
	sc.TickMs = pick(r, int64(1), int64(1), int64(50))
	sc.Lat = pick(r, "narrow", "wide", "mixed", "mixed")
	if r.Intn(10) < 3 {
		sc.FaultRate = 0.05 + 0.2*r.Float64()
	}
	for i := 0; i < 3; i++ {
		sc.ExpPool = append(sc.ExpPool, ExpArgs{OffMs: pick(r, int64(r.Intn(3000))-1000, int64(r.Intn(600000))-300000), Logical: int64(r.Intn(1 << 18)), TTL: pick(r, int64(0), int64(r.Intn(3000)), int64(r.Intn(600000)))})
	}
	n := pick(r, 1, 2, 2, 3, 3, 4, 5, 6, 8)
	quietUntil := int64(320+r.Intn(300)) * 1000000
	for ci := 0; ci < n; ci++ {
		c := Caller{StartUs: int64(r.Intn(50000)) + int64(ci)}
		if sc.Tempo == "adaptive" {
			// phase 1: traffic with short-staleness stale reads; then everybody is quiet for more than the
			// recovery delay of the adaptive interval; phase 2: traffic again.
			n1, n2 := 3+r.Intn(8), 3+r.Intn(8)
			for i := 0; i < n1; i++ {
				if r.Intn(4) == 0 {
					c.Calls = append(c.Calls, Call{Kind: "val", Rel: "ago", Stale: true, A: int64(r.Intn(int(sc.IntervalUs/1000) + 1)), Scope: scopeOf(r)})
					continue
				}
				c.Calls = append(c.Calls, genCall(r, sc, callsMix))
			}
			if r.Intn(5) > 0 {
				c.Calls = append(c.Calls, Call{Kind: "until", A: quietUntil + int64(r.Intn(3000000))})
			}
			for i := 0; i < n2; i++ {
				c.Calls = append(c.Calls, genCall(r, sc, callsMix))
			}
		} else {
			nc := 5 + r.Intn(21)
			for i := 0; i < nc; i++ {
				c.Calls = append(c.Calls, genCall(r, sc, callsMix))
			}
		}
		sc.Callers = append(sc.Callers, c)
	}
	sc.finish(r)
	sc.TailMs = pick(r, int64(10), int64(3000), int64(12000))
	if sc.Tempo == "adaptive" {
		// long enough for a shrunk interval to recover (20 ms per second) while nobody reads
		sc.TailMs = pick(r, int64(10), int64(12000), int64(100000), int64(400000))
	}
	return sc
}

var casMix = []weighted{{"ts", 34}, {"tsa", 14}, {"val", 26}, {"low", 10}, {"exp", 5}, {"foreign", 6}, {"sleep", 5}}

func genCAS(cfg simkit.RunConfig) *Scenario {
	r := simkit.Rand(cfg.Seed, "gen")
	sc := &Scenario{Mode: "cas", Tempo: "cas", Hooks: true, Lat: "quant"}
	sc.IntervalUs = pick(r, int64(1000), int64(3000), int64(50000))
	sc.SkewMs = pick(r, int64(0), int64(0), int64(-41), int64(3000))
	sc.TickMs = pick(r, int64(1), int64(50))
	sc.YieldMaxUs = pick(r, int64(0), int64(100), int64(200), int64(400))
	n := 2 + r.Intn(7)
	for ci := 0; ci < n; ci++ {
		c := Caller{StartUs: int64(100 * r.Intn(3))}
		nc := 3 + r.Intn(8)
		for i := 0; i < nc; i++ {
			k := pickKind(r, casMix)
			switch k {
			case "val":
				v := Call{Kind: "val", Stale: r.Intn(2) == 0, Scope: scopeOf(r)}
				v.Rel = pickKind(r, []weighted{{"latest", 40}, {"latest+", 15}, {"old", 10}, {"nexttick", 10}, {"future", 15}, {"low", 10}})
				switch v.Rel {
				case "latest+":
					v.A = int64(1 + r.Intn(3))
				case "old":
					v.A = int64(r.Intn(6))
				case "nexttick":
					v.A = int64(r.Intn(3))
				case "future":
					v.A = int64(1 + r.Intn(50))
				}
				c.Calls = append(c.Calls, v)
			case "tsa":
				c.Calls = append(c.Calls, Call{Kind: "tsa", A: int64(100 * r.Intn(4)), Scope: scopeOf(r)})
			case "sleep":
				c.Calls = append(c.Calls, Call{Kind: "sleep", A: int64(100 * r.Intn(6))})
			case "exp":
				c.Calls = append(c.Calls, Call{Kind: "exp", Rel: "edge", A: int64(r.Intn(50)), B: int64(r.Intn(5)) - 2, Scope: scopeOf(r)})
			default:
				c.Calls = append(c.Calls, Call{Kind: k, Scope: scopeOf(r)})
			}
		}
		sc.Callers = append(sc.Callers, c)
	}
	sc.finish(r)
	sc.TailMs = 5
	return sc
}

func (sc *Scenario) finish(r *rand.Rand) {
	sc.ValScope = scopeOf(r)
	// cost bound: with PD latencies of up to seconds a program runs for minutes of simulated time; very short
	// update intervals (thousands of updater fetches per run) are combined with short latencies only
	if sc.Lat == "wide" || sc.Lat == "mixed" {
		sc.IntervalUs = max(sc.IntervalUs, 50000)
		for i := range sc.Callers {
			for j := range sc.Callers[i].Calls {
				if c := &sc.Callers[i].Calls[j]; c.Kind == "setint" && c.A > 0 {
					c.A = max(c.A, 50000)
				}
			}
		}
	}
	for i := range sc.Callers {
		for j := range sc.Callers[i].Calls {
			if c := &sc.Callers[i].Calls[j]; c.Kind == "val" {
				c.Scope = sc.ValScope
			}
		}
	}
}
