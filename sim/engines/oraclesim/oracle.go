package oraclesim

import (
	"fmt"
	"math"
	"sort"

	"github.com/tikv/client-go/v2/verifsim/simkit"
)

// checker judges a recorded history against PD's issuance log (ground truth).
type checker struct {
	issued []tsRec // ordered by Seq and by TS (PD allocates on the simulator goroutine, strictly increasing)
	set    map[uint64]bool
	recs   []*Rec
	out    []simkit.Violation
	stats  map[string]int
}

func (c *checker) bad(class, sig, detail string) {
	c.out = append(c.out, simkit.Violation{Property: "C13", Class: class, Sig: sig, Detail: detail})
}

// maxIssuedBefore is the largest timestamp PD had issued before the event with the given stamp.
func (c *checker) maxIssuedBefore(stamp uint64) uint64 {
	i := sort.Search(len(c.issued), func(i int) bool { return c.issued[i].Seq >= stamp })
	if i == 0 {
		return 0
	}
	return c.issued[i-1].TS
}

type obs struct {
	rec    *Rec
	lo, hi uint64 // value judged against earlier observations / value later observations are judged against
}

// realTime checks "A returned before B was invoked => value(A) < value(B)" (strict) or "<=" over the observations.
func (c *checker) realTime(os []obs, strict bool, class, what string) {
	type ev struct {
		stamp uint64
		ret   bool
		o     *obs
	}
	var evs []ev
	for i := range os {
		evs = append(evs, ev{os[i].rec.Inv, false, &os[i]}, ev{os[i].rec.Ret, true, &os[i]})
	}
	sort.Slice(evs, func(i, j int) bool { return evs[i].stamp < evs[j].stamp })
	var top *obs
	for _, e := range evs {
		if e.ret {
			if top == nil || e.o.hi > top.hi {
				top = e.o
			}
			continue
		}
		c.stats["checks.order."+what]++
		if top == nil {
			continue
		}
		if e.o.lo < top.hi || strict && e.o.lo == top.hi {
			c.bad(class, fmt.Sprintf("%s %s after %s", class, e.o.rec.Call.Kind, top.rec.Call.Kind),
				fmt.Sprintf("%s went backwards in real-time order: call A returned %d at event %d, call B was invoked later (event %d) and returned %d.\n  A: %s\n  B: %s",
					what, top.hi, top.rec.Ret, e.o.rec.Inv, e.o.lo, top.rec, e.o.rec))
		}
	}
}

func (c *checker) run() {
	var fresh, lows []obs
	seen := map[uint64]*Rec{}
	for _, r := range c.recs {
		switch r.Call.Kind {
		case "ts", "tsa", "cw", "foreign":
			if r.Failed {
				continue
			}
			c.stats["checks.fresh"]++
			// (1) a PD-issued timestamp, never handed out twice
			if !c.set[r.TS] {
				c.bad("ts-not-issued", "ts-not-issued "+r.Call.Kind, fmt.Sprintf("the returned timestamp %d was never issued by PD.\n  %s", r.TS, r))
			}
			if p := seen[r.TS]; p != nil {
				c.bad("ts-duplicate", "ts-duplicate "+p.Call.Kind+"/"+r.Call.Kind, fmt.Sprintf("timestamp %d was returned by two calls.\n  %s\n  %s", r.TS, p, r))
			}
			seen[r.TS] = r
			fresh = append(fresh, obs{r, r.TS, r.TS})
			// (4) commit-wait
			if r.Call.Kind == "cw" {
				c.stats["checks.commit-wait"]++
				if r.TS <= r.Constraint {
					c.bad("commit-wait-not-greater", "commit-wait-not-greater "+r.Call.Rel,
						fmt.Sprintf("GetTimestampForCommit returned %d with a nil error although the commit-wait constraint is %d (must be strictly greater).\n  %s", r.TS, r.Constraint, r))
				}
			}
		case "low", "lowa":
			if r.Failed {
				continue
			}
			lows = append(lows, obs{r, r.TS, r.TS})
		case "stale":
			if r.Failed {
				c.stats["stale.refused"]++
				continue
			}
			c.stats["checks.stale"]++
			// never beyond PD's clock minus the requested staleness
			if int64(r.TS>>logicalBits) > r.PDClockMs-1000*r.Call.A {
				c.bad("stale-in-future", "stale-in-future", fmt.Sprintf("GetStaleTimestamp(%d s) returned a timestamp whose physical part %d ms is later than PD's clock %d ms minus the staleness.\n  %s",
					r.Call.A, r.TS>>logicalBits, r.PDClockMs, r))
			}
		case "exp":
			if r.Failed {
				continue
			}
			lows = append(lows, obs{r, r.Low0, r.Low1})
			if r.Low1 < r.Low0 {
				c.bad("low-decreased", "low-decreased within exp", fmt.Sprintf("the cached timestamp decreased between two reads of one goroutine.\n  %s", r))
			}
			// (3) only when the cached ts was the same before and after the pair
			if r.Low0 != r.Low1 {
				c.stats["exp.pair-not-comparable"]++
			} else {
				c.stats["checks.expiry-pair"]++
				if r.Expired {
					c.stats["exp.expired"]++
				}
				if r.Expired != (r.Until <= 0) {
					c.bad("expiry-inconsistent", "expiry-inconsistent", fmt.Sprintf("IsExpired=%v but UntilExpired=%d on the same arguments with no update of the cached timestamp in between.\n  %s", r.Expired, r.Until, r))
				}
			}
		case "val":
			c.checkValidate(r)
		}
	}
	// (1) strictly increasing in real-time order
	c.realTime(fresh, true, "ts-not-increasing", "timestamp")
	// (2) cached ts never decreases, never exceeds what PD has issued
	for _, o := range lows {
		c.stats["checks.low-bound"]++
		if m := c.maxIssuedBefore(o.rec.Ret); o.hi > m {
			c.bad("low-exceeds-issued", "low-exceeds-issued "+o.rec.Call.Kind, fmt.Sprintf("the low-resolution timestamp %d is greater than the largest timestamp PD had issued when the call returned (%d).\n  %s", o.hi, m, o.rec))
		}
	}
	c.realTime(lows, false, "low-decreased", "low-resolution timestamp")
	// (3b) same lock, same ttl: expiry never reverts and the remaining time never grows
	var pool []*Rec
	for _, r := range c.recs {
		if r.Call.Kind == "exp" && r.Call.Rel == "pool" && !r.Failed {
			pool = append(pool, r)
		}
	}
	for _, a := range pool {
		for _, b := range pool {
			if a.Ret < b.Inv && a.Call.A == b.Call.A {
				c.stats["checks.expiry-order"]++
				if a.Expired && !b.Expired || b.Until > a.Until {
					c.bad("expiry-reverted", "expiry-reverted", fmt.Sprintf("the same lock was reported closer to expiry by an earlier call than by a later one.\n  A: %s\n  B: %s", a, b))
				}
			}
		}
	}
}

// (5) ValidateReadTS.
func (c *checker) checkValidate(r *Rec) {
	if r.ErrKind == "pd" {
		c.stats["val.inconclusive-pd-error"]++
		return
	}
	if r.ErrKind == "canceled" && r.Call.CancelUs > 0 {
		// the caller cancelled its own call; a cancellation error of a call whose own context is alive is judged below
		c.stats["val.own-cancel"]++
		return
	}
	if r.ReadTS == math.MaxUint64 {
		// the "latest" marker is not a timestamp: a stale read must not use it; a normal read may
		if r.Call.Stale {
			c.stats["checks.validate-max"]++
			if !r.Failed {
				c.bad("validate-max-stale-accepted", "validate-max-stale-accepted", fmt.Sprintf("ValidateReadTS accepted MaxUint64 for a stale read.\n  %s", r))
			}
		} else {
			c.stats["val.max-nonstale"]++
		}
		return
	}
	before, atRet := c.maxIssuedBefore(r.Inv), c.maxIssuedBefore(r.Ret)
	switch {
	case r.ReadTS <= before:
		c.stats["checks.validate-accept"]++
		if r.Failed {
			c.bad("validate-rejects-issued", fmt.Sprintf("validate-rejects-issued stale=%v %s", r.Call.Stale, r.ErrKind),
				fmt.Sprintf("ValidateReadTS refused readTS %d although PD had issued %d before the call was invoked (largest issued when it returned: %d).\n  %s", r.ReadTS, before, atRet, r))
		}
	case r.ReadTS > atRet:
		c.stats["checks.validate-reject"]++
		if !r.Failed {
			c.bad("validate-accepts-future", fmt.Sprintf("validate-accepts-future stale=%v", r.Call.Stale),
				fmt.Sprintf("ValidateReadTS accepted readTS %d although the largest timestamp PD had issued when the call returned is %d.\n  %s", r.ReadTS, atRet, r))
		}
	default:
		c.stats["val.issued-during-call"]++
	}
}
