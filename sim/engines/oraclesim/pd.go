package oraclesim

import (
	"context"
	"errors"
	"fmt"
	"math"
	"strings"
	"sync"
	"time"

	"github.com/tikv/client-go/v2/verifsim/simkit"
	pd "github.com/tikv/pd/client"
	"github.com/tikv/pd/client/clients/tso"
	"github.com/tikv/pd/client/pkg/caller"
)

const logicalBits = 18

// tsRec is one timestamp issued by the simulated PD (ground truth of every oracle rule).
type tsRec struct {
	Key string // identity of the request it answered
	TS  uint64
	Seq uint64 // global stamp at allocation
}

// simTSO is PD's timestamp allocator: physical part = PD's clock (local simulated clock + skew) rounded
// down to the tick, logical part counts within a tick; strictly increasing.
type simTSO struct {
	mu       sync.Mutex
	physical int64
	logical  int64
	issued   []tsRec
	skew     time.Duration
	tick     int64
}

// clockMs is PD's clock in ms (not rounded to the tick).
func (t *simTSO) clockMs() int64 { return time.Now().Add(t.skew).UnixMilli() }

func (t *simTSO) tickNow() int64 {
	ms := t.clockMs()
	return ms - ms%t.tick
}

func (t *simTSO) alloc(key string, s *simkit.Sim) uint64 {
	t.mu.Lock()
	defer t.mu.Unlock()
	now := t.tickNow()
	if now > t.physical {
		t.physical, t.logical = now, 0
	} else {
		t.logical++
		if t.logical >= 1<<logicalBits {
			t.physical += t.tick
			t.logical = 0
		}
	}
	ts := uint64(t.physical)<<logicalBits | uint64(t.logical)
	t.issued = append(t.issued, tsRec{Key: key, TS: ts, Seq: s.Stamp()})
	return ts
}

func (t *simTSO) max() uint64 {
	t.mu.Lock()
	defer t.mu.Unlock()
	if len(t.issued) == 0 {
		return 0
	}
	return t.issued[len(t.issued)-1].TS
}

// nth returns the k-th newest issued timestamp (k = 0: the newest).
func (t *simTSO) nth(k int) uint64 {
	t.mu.Lock()
	defer t.mu.Unlock()
	if len(t.issued) == 0 {
		return 0
	}
	if k >= len(t.issued) {
		k = len(t.issued) - 1
	}
	return t.issued[len(t.issued)-1-k].TS
}

// nextTick is the physical part of the first tick PD has not reached yet.
func (t *simTSO) nextTick() int64 {
	t.mu.Lock()
	defer t.mu.Unlock()
	p := t.tickNow()
	if t.physical > p {
		p = t.physical
	}
	return p + t.tick
}

func (t *simTSO) snapshot() []tsRec {
	t.mu.Lock()
	defer t.mu.Unlock()
	return append([]tsRec(nil), t.issued...)
}

var errPDDown = errors.New("oraclesim: PD connection closed")
var errPDFault = errors.New("oraclesim: injected TSO failure")

// simPD is the pd.Client given to the oracle under test (and to the KVStore of the commit-wait calls).
// Only the TSO calls cross the simulator; everything else is answered by the embedded mock.
type simPD struct {
	pd.Client
	w *world
}

func (p *simPD) WithCallerComponent(caller.Component) pd.Client { return p }
func (p *simPD) Close()                                         {}

type tsResult struct {
	ts  uint64
	err error
}

type simFuture struct {
	w   *world
	ch  chan tsResult
	ctx context.Context
}

func (f *simFuture) Wait() (int64, int64, error) {
	select {
	case r := <-f.ch:
		if r.err != nil {
			return 0, 0, r.err
		}
		return int64(r.ts >> logicalBits), int64(r.ts & (1<<logicalBits - 1)), nil
	case <-f.ctx.Done():
		return 0, 0, f.ctx.Err()
	case <-f.w.down:
		return 0, 0, errPDDown
	}
}

// latency of one leg of one request, from the seed and the identity of the request.
func (w *world) latency(key, leg string) time.Duration {
	h := w.latH
	us := func(lo, hi float64) time.Duration { // log-uniform in [lo, hi] microseconds
		x := lo * math.Pow(hi/lo, h.Float(key+leg+"v"))
		return time.Duration(x * float64(time.Microsecond))
	}
	lat := w.sc.Lat
	if w.updNarrow && strings.HasPrefix(key, "upd/") {
		lat = "narrow"
	}
	switch lat {
	case "quant":
		return time.Duration(100*(1+h.Intn(key+leg+"q", 3))) * time.Microsecond
	case "wide":
		return us(100, 3e6)
	case "mixed":
		switch n := h.Intn(key+leg+"m", 10); {
		case n < 7:
			return us(100, 2000)
		case n < 9:
			return us(1000, 100000)
		default:
			return us(50000, 3e6)
		}
	default:
		return us(100, 2000)
	}
}

func (p *simPD) start(ctx context.Context) *simFuture {
	w := p.w
	f := &simFuture{w: w, ch: make(chan tsResult, 1), ctx: ctx}
	if w.stopping.Load() {
		f.ch <- tsResult{0, errPDDown}
		return f
	}
	name := w.gname()
	key := w.nextKey(name, "tso")
	lat1, lat2 := w.latency(key, "a"), w.latency(key, "b")
	fate := ""
	if w.sc.FaultRate > 0 && name != "init" {
		if x := w.faultH.Float(key); x < w.sc.FaultRate/2 {
			fate = "lost-request"
		} else if x < w.sc.FaultRate {
			fate = "lost-response"
		}
	}
	w.sim.Submit("pdreq:"+key, lat1, w.schedH.U64(key+"r"), func() {
		if fate == "lost-request" {
			w.sim.Count("fault.tso-lost-request")
			w.tracef("fail %s", key)
			w.sim.Submit("pdresp:"+key, lat2, w.schedH.U64(key+"s"), func() { f.ch <- tsResult{0, errPDFault} })
			return
		}
		ts := w.tso.alloc(key, w.sim)
		w.tracef("alloc %s %d", key, ts)
		if fate == "lost-response" {
			w.sim.Count("fault.tso-lost-response")
			w.sim.Submit("pdresp:"+key, lat2, w.schedH.U64(key+"s"), func() { f.ch <- tsResult{0, errPDFault} })
			return
		}
		w.sim.Submit("pdresp:"+key, lat2, w.schedH.U64(key+"s"), func() {
			w.tracef("resp %s", key)
			f.ch <- tsResult{ts, nil}
		})
	})
	return f
}

func (p *simPD) GetTS(ctx context.Context) (int64, int64, error) { return p.start(ctx).Wait() }
func (p *simPD) GetTSAsync(ctx context.Context) tso.TSFuture     { return p.start(ctx) }
func (p *simPD) GetLocalTS(ctx context.Context, _ string) (int64, int64, error) {
	return p.GetTS(ctx)
}
func (p *simPD) GetLocalTSAsync(ctx context.Context, _ string) tso.TSFuture { return p.GetTSAsync(ctx) }
func (p *simPD) GetMinTS(ctx context.Context) (int64, int64, error)         { return p.GetTS(ctx) }

func (w *world) nextKey(name, kind string) string {
	w.mu.Lock()
	defer w.mu.Unlock()
	k := name + "/" + kind
	w.occ[k]++
	return fmt.Sprintf("%s#%d", k, w.occ[k])
}
