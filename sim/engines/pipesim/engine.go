package pipesim

import (
	"crypto/sha1"
	"encoding/hex"
	"encoding/json"
	"math/rand"
	"os"
	"strings"
	"testing"

	"github.com/tikv/client-go/v2/config"
	"github.com/tikv/client-go/v2/verifsim/simkit"
)

// Engine implements simkit.Engine for property C16.
type Engine struct{}

// Name implements simkit.Engine.
func (Engine) Name() string { return "pipesim" }

// Decode implements simkit.Engine.
func (Engine) Decode(raw json.RawMessage) (any, error) {
	var sc Scenario
	if err := json.Unmarshal(raw, &sc); err != nil {
		return nil, err
	}
	return &sc, nil
}

// Generate implements simkit.Engine.
func (Engine) Generate(cfg simkit.RunConfig) (any, bool) {
	switch cfg.Mode {
	case "", "buffer":
		return genBuffer(cfg), true
	case "txn":
		return genTxn(cfg, false), true
	case "txn-faults":
		return genTxn(cfg, true), true
	}
	panic("pipesim: unknown mode " + cfg.Mode)
}

// Prepare implements simkit.Preparer: failpoints and TTL knobs are process-global and are set outside the bubble.
func (Engine) Prepare(cfg simkit.RunConfig, scenario any) {
	sc := scenario.(*Scenario)
	switch {
	case sc.Buf != nil:
		setThresholds(sc.Buf.Th, 0, 0)
	case sc.Txn != nil:
		setThresholds(sc.Txn.Th, sc.Txn.TTLMs, sc.Txn.FlushDelayMs)
		if sc.Txn.AsyncBatchGet {
			restoreCfg = config.UpdateGlobal(func(c *config.Config) { c.EnableAsyncBatchGet = true })
		}
	}
	rand.Seed(int64(cfg.Seed)) // back-off jitter of the code under test (global math/rand)
}

// Cleanup implements simkit.Preparer.
func (Engine) Cleanup(cfg simkit.RunConfig, scenario any) {
	clearThresholds()
	if restoreCfg != nil {
		restoreCfg()
		restoreCfg = nil
	}
}

// restoreCfg undoes the run's change of the global configuration.
var restoreCfg func()

// Execute implements simkit.Engine (runs inside the bubble).
func (Engine) Execute(t *testing.T, cfg simkit.RunConfig, scenario any) *simkit.RunResult {
	sc := scenario.(*Scenario)
	res := &simkit.RunResult{}
	dump := os.Getenv("VERIF_DUMP") != ""
	switch {
	case sc.Buf != nil:
		execBuffer(sc.Buf, res, dump)
		h := sha1.Sum([]byte(strings.Join(res.Trace, "\n")))
		res.SchedHash = hex.EncodeToString(h[:8])
	case sc.Txn != nil:
		execTxn(cfg, sc.Txn, res, dump)
	}
	return res
}

func cloneScenario(sc *Scenario) *Scenario {
	b, _ := json.Marshal(sc)
	var c Scenario
	_ = json.Unmarshal(b, &c)
	return &c
}

// Shrink implements simkit.Engine: drop operations, faults, splits, preloaded keys.
func (Engine) Shrink(scenario any) []any {
	sc := scenario.(*Scenario)
	var out []any
	if b := sc.Buf; b != nil {
		for n := len(b.Ops) / 2; n >= 1; n /= 2 {
			for i := 0; i+n <= len(b.Ops); i += n {
				c := cloneScenario(sc)
				c.Buf.Ops = append(c.Buf.Ops[:i], c.Buf.Ops[i+n:]...)
				out = append(out, c)
			}
		}
		for i := range b.Flushes {
			if b.Flushes[i] != (FlushFate{}) {
				c := cloneScenario(sc)
				c.Buf.Flushes[i] = FlushFate{}
				out = append(out, c)
			}
		}
	}
	if t := sc.Txn; t != nil {
		if t.Net.Random {
			c := cloneScenario(sc)
			c.Txn.Net.Random = false
			out = append(out, c)
		}
		for k := range t.Net.Plan {
			c := cloneScenario(sc)
			delete(c.Txn.Net.Plan, k)
			out = append(out, c)
		}
		if t.MidReadMs > 0 {
			c := cloneScenario(sc)
			c.Txn.MidReadMs = 0
			out = append(out, c)
		}
		for n := len(t.Ops) / 2; n >= 1; n /= 2 {
			for i := 0; i+n <= len(t.Ops); i += n {
				c := cloneScenario(sc)
				c.Txn.Ops = append(c.Txn.Ops[:i], c.Txn.Ops[i+n:]...)
				out = append(out, c)
			}
		}
		for i := range t.Splits {
			c := cloneScenario(sc)
			c.Txn.Splits = append(c.Txn.Splits[:i], c.Txn.Splits[i+1:]...)
			out = append(out, c)
		}
		for k := range t.Preload {
			c := cloneScenario(sc)
			delete(c.Txn.Preload, k)
			out = append(out, c)
		}
		if t.Stores > 1 {
			c := cloneScenario(sc)
			c.Txn.Stores = 1
			out = append(out, c)
		}
		if t.Net.JitterUs > 137 {
			c := cloneScenario(sc)
			c.Txn.Net.JitterUs = 137
			out = append(out, c)
		}
		if t.FlushDelayMs > 0 {
			c := cloneScenario(sc)
			c.Txn.FlushDelayMs = 0
			out = append(out, c)
		}
	}
	return out
}
