//go:debug randseednop=0
package pipesim

import (
	"testing"

	"github.com/tikv/client-go/v2/verifsim/simkit"
)

func TestSim(t *testing.T) { simkit.Main(t, Engine{}) }
