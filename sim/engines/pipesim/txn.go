package pipesim

import (
	"bytes"
	"context"
	"crypto/sha1"
	"encoding/hex"
	"fmt"
	"sort"
	"strings"
	"sync"
	"sync/atomic"
	"testing/synctest"
	"time"

	"github.com/pingcap/failpoint"
	"github.com/pingcap/kvproto/pkg/kvrpcpb"
	tikverr "github.com/tikv/client-go/v2/error"
	"github.com/tikv/client-go/v2/internal/mockstore/mocktikv"
	"github.com/tikv/client-go/v2/kv"
	"github.com/tikv/client-go/v2/oracle"
	"github.com/tikv/client-go/v2/tikv"
	"github.com/tikv/client-go/v2/tikvrpc"
	"github.com/tikv/client-go/v2/txnkv/transaction"
	"github.com/tikv/client-go/v2/util"
	"github.com/tikv/client-go/v2/util/async"
	"github.com/tikv/client-go/v2/verifsim/refkv"
	"github.com/tikv/client-go/v2/verifsim/simkit"
)

var fpOnce sync.Once

// setThresholds sets the process-global knobs of a run. Must be called outside the bubble.
func setThresholds(th Thresholds, ttlMs, flushDelayMs int) {
	fpOnce.Do(func() { util.EnableFailpoints() })
	_ = failpoint.Enable("tikvclient/pipelinedMemDBMinFlushKeys", fmt.Sprintf("return(%d)", th.MinFlushKeys))
	_ = failpoint.Enable("tikvclient/pipelinedMemDBMinFlushSize", fmt.Sprintf("return(%d)", th.MinFlushSize))
	_ = failpoint.Enable("tikvclient/pipelinedMemDBForceFlushSizeThreshold", fmt.Sprintf("return(%d)", th.ForceFlushSize))
	_ = failpoint.Enable("tikvclient/injectLiveness", `return("reachable")`)
	_ = failpoint.Disable("tikvclient/beforePipelinedFlush")
	if flushDelayMs > 0 {
		// the library's flush goroutine sleeps (fake time) before it calls the flush function
		_ = failpoint.Enable("tikvclient/beforePipelinedFlush", fmt.Sprintf("sleep(%d)", flushDelayMs))
	}
	if ttlMs > 0 {
		atomic.StoreUint64(&transaction.ManagedLockTTL, uint64(ttlMs))
		transaction.VerifSetDefaultLockTTL(3000)
	}
}

func clearThresholds() {
	_ = failpoint.Disable("tikvclient/pipelinedMemDBMinFlushKeys")
	_ = failpoint.Disable("tikvclient/pipelinedMemDBMinFlushSize")
	_ = failpoint.Disable("tikvclient/pipelinedMemDBForceFlushSizeThreshold")
	_ = failpoint.Disable("tikvclient/beforePipelinedFlush")
	atomic.StoreUint64(&transaction.ManagedLockTTL, 20000)
}

var oracleOpt = oracle.Option{TxnScope: oracle.GlobalTxnScope}

type world struct {
	Sim    *simkit.Sim
	Net    *simkit.Net
	TSO    *simkit.TSO
	Cl     *simkit.Cluster
	mvcc   mocktikv.MVCCStore
	srv    *refkv.Server
	stores []*tikv.KVStore
}

// conn is the transport endpoint of one client. BroadcastTxnStatus (a hint for a cache of TiKV that the
// reference store does not have; it carries no protocol obligation) is answered in place and kept out of the
// simulated network: how many of them a client sends depends on which stores its region cache happens to know
// at that instant, which is decided by the Go scheduler among goroutines that run at the same fake instant, and
// would shift the ordinals by which planned faults are addressed.
type conn struct{ *simkit.Conn }

func (c conn) SendRequest(ctx context.Context, addr string, req *tikvrpc.Request, timeout time.Duration) (*tikvrpc.Response, error) {
	if req.Type == tikvrpc.CmdBroadcastTxnStatus {
		if c.Net.IsCut(c.ID) {
			return nil, simkit.ErrSimCut
		}
		return &tikvrpc.Response{Resp: &kvrpcpb.BroadcastTxnStatusResponse{}}, nil
	}
	return c.Conn.SendRequest(ctx, addr, req, timeout)
}

func (c conn) SendRequestAsync(ctx context.Context, addr string, req *tikvrpc.Request, cb async.Callback[*tikvrpc.Response]) {
	go func() {
		cb.Schedule(c.SendRequest(ctx, addr, req, 0))
	}()
}

func newWorld(s *simkit.Sim, sc *TxnScenario) (*world, error) {
	w := &world{Sim: s, TSO: &simkit.TSO{}}
	mvcc, err := mocktikv.NewMVCCLevelDB("")
	if err != nil {
		return nil, err
	}
	w.mvcc = mvcc
	cluster := mocktikv.NewCluster(mvcc)
	var splits [][]byte
	for _, k := range sc.Splits {
		splits = append(splits, []byte(k))
	}
	w.Cl = simkit.Bootstrap(s, cluster, sc.Stores, splits)
	w.srv = refkv.NewServer(cluster)
	w.Net = simkit.NewNet(s, w.srv)
	// a split attached to a request cuts its region at the request's first key or at a key of the pool inside
	// the region (the keys of one batched read then sit on both sides of the new border)
	var pool [][]byte
	for _, k := range sc.Keys {
		pool = append(pool, []byte(k))
	}
	w.Net.Topo = &simkit.InnerSplitTopo{Cl: w.Cl, Keys: pool, H: simkit.NewHasher(s.Seed, "innersplit")}
	w.Net.Describe = w.Cl.Describe
	w.Net.Jitter = time.Duration(sc.Net.JitterUs) * time.Microsecond
	for k, f := range sc.Net.Plan {
		w.Net.Plan[k] = f
	}
	w.Net.RandomFaults = sc.Net.Random
	w.Net.FaultRate = sc.Net.Rate
	w.Net.FaultKinds = sc.Net.Kinds
	// faults only hit the pipelined writer (client 0); the preloader / readers (client 1) are the observers
	w.Net.FaultFilter = func(r *simkit.RPCRecord) bool { return r.Client == 0 }
	for i := 0; i < 2; i++ {
		pdc := simkit.NewPD(s, w.Net, i, w.TSO, mocktikv.NewPDClient(cluster))
		st, err := tikv.NewTestTiKVStore(conn{w.Net.NewConn(i)}, pdc, nil, nil, 0)
		if err != nil {
			return nil, err
		}
		w.stores = append(w.stores, st)
	}
	s.OnAbort = func() { w.Net.CutAll(2) }
	return w, nil
}

func (w *world) close() {
	w.Net.Shutdown()
	for _, st := range w.stores {
		_ = st.Close()
	}
	_ = w.mvcc.Close()
}

func sp(s string) *string { return &s }

func fmtVal(v *string) string {
	if v == nil {
		return "<none>"
	}
	return *v
}

func errClass(err error) string {
	if err == nil {
		return ""
	}
	switch {
	case tikverr.IsErrorUndetermined(err):
		return "undetermined"
	case tikverr.IsErrKeyExist(err):
		return "keyexists"
	case tikverr.IsErrWriteConflict(err):
		return "writeconflict"
	case tikverr.IsErrNotFound(err):
		return "notfound"
	}
	m := err.Error()
	if len(m) > 140 {
		m = m[:140]
	}
	return "other:" + m
}

type snapRead struct {
	Phase string
	TS    uint64
	Err   string
	Vals  map[string]*string
}

type txnRun struct {
	sc      *TxnScenario
	s       *simkit.Sim
	w       *world
	startTS uint64
	begun   bool
	// model of the transaction's own writes
	own       map[string]*string
	endKind   string
	endErr    string
	commitTS  uint64
	flushErr  string // first error reported by Flush / FlushWait during the program
	bg        atomic.Int64
	bgSpawned atomic.Int64
	viol      []simkit.Violation
	log       []string
	stats     map[string]int
	mid       *snapRead
	final     *snapRead
	readSpans [][2]time.Duration // [start, end] of every read operation of the program
}

func (t *txnRun) logf(format string, args ...any) {
	t.log = append(t.log, fmt.Sprintf("[%7.3fs] ", t.s.Now().Seconds())+fmt.Sprintf(format, args...))
}

func (t *txnRun) violate(class, sig, format string, args ...any) {
	t.viol = append(t.viol, simkit.Violation{Property: "C16", Class: class, Sig: sig, Detail: fmt.Sprintf(format, args...)})
}

func (t *txnRun) allKeys() [][]byte {
	var ks [][]byte
	for _, k := range t.sc.Keys {
		ks = append(ks, []byte(k))
	}
	return ks
}

// preload commits the initial values through an ordinary transaction of the observer client.
func (t *txnRun) preload() error {
	if len(t.sc.Preload) == 0 {
		return nil
	}
	txn, err := t.w.stores[1].Begin()
	if err != nil {
		return err
	}
	for _, k := range simkit.SortedKeys(t.sc.Preload) {
		if err := txn.Set([]byte(k), []byte(t.sc.Preload[k])); err != nil {
			return err
		}
	}
	return txn.Commit(context.Background())
}

// expectOwn is what a read inside the transaction has to return for k.
func (t *txnRun) expectOwn(k string) *string {
	if v, ok := t.own[k]; ok {
		return v // nil = deleted by the transaction
	}
	if v, ok := t.sc.Preload[k]; ok {
		return sp(v)
	}
	return nil
}

func (t *txnRun) levelOf(k string) string {
	if _, ok := t.own[k]; ok {
		return "own write"
	}
	return "snapshot"
}

// runWriter executes the pipelined transaction's program on client 0.
func (t *txnRun) runWriter() {
	sc := t.sc
	store := t.w.stores[0]
	ctx := context.Background()
	t.w.Net.SetMark(0, "run")
	txn, err := store.Begin(tikv.WithPipelinedTxn(sc.FlushConc, sc.ResolveConc, 0))
	if err != nil {
		t.logf("begin failed: %v", err)
		t.endKind = "none"
		return
	}
	t.begun = true
	t.startTS = txn.StartTS()
	txn.SetBackgroundGoroutineLifecycleHooks(transaction.LifecycleHooks{
		Pre:  func() { t.bg.Add(1); t.bgSpawned.Add(1) },
		Post: func() { t.bg.Add(-1) },
	})
	t.logf("begin pipelined txn start_ts=%d", t.startTS)
	mb := txn.GetMemBuffer()
	for i, op := range sc.Ops {
		if t.flushErr != "" || t.s.Aborted != "" {
			break
		}
		switch op.K {
		case "set":
			err := txn.Set([]byte(op.Keys[0]), []byte(op.Val))
			t.logf("op%d set %s=%s err=%v", i, op.Keys[0], op.Val, err)
			if err == nil {
				t.own[op.Keys[0]] = sp(op.Val)
			}
		case "insert":
			err := mb.SetWithFlags([]byte(op.Keys[0]), []byte(op.Val), kv.SetPresumeKeyNotExists)
			t.logf("op%d insert %s=%s err=%v", i, op.Keys[0], op.Val, err)
			if err == nil {
				t.own[op.Keys[0]] = sp(op.Val)
			}
		case "del":
			err := txn.Delete([]byte(op.Keys[0]))
			t.logf("op%d del %s err=%v", i, op.Keys[0], err)
			if err == nil {
				t.own[op.Keys[0]] = nil
			}
		case "get":
			k := op.Keys[0]
			t0 := t.s.Now()
			v, err := txn.Get(ctx, []byte(k))
			t.readSpans = append(t.readSpans, [2]time.Duration{t0, t.s.Now()})
			var got *string
			if err == nil {
				got = sp(string(v.Value))
			}
			t.logf("op%d get %s -> %s err=%v", i, k, fmtVal(got), err)
			if err != nil && !tikverr.IsErrNotFound(err) {
				t.stats["txn.read-error"]++
				continue
			}
			t.compareOwnRead(i, "Get", k, got)
		case "bget":
			var ks [][]byte
			for _, k := range op.Keys {
				ks = append(ks, []byte(k))
			}
			t0 := t.s.Now()
			m, err := txn.BatchGet(ctx, ks)
			t.readSpans = append(t.readSpans, [2]time.Duration{t0, t.s.Now()})
			if err != nil {
				t.logf("op%d bget %v err=%v", i, op.Keys, err)
				t.stats["txn.read-error"]++
				continue
			}
			var sb strings.Builder
			for _, k := range op.Keys {
				if v, ok := m[k]; ok {
					fmt.Fprintf(&sb, "%s=%s ", k, v.Value)
				} else {
					fmt.Fprintf(&sb, "%s=<none> ", k)
				}
			}
			t.logf("op%d bget %v -> %s", i, op.Keys, sb.String())
			for _, k := range op.Keys {
				var got *string
				if v, ok := m[k]; ok {
					got = sp(string(v.Value))
				}
				t.compareOwnRead(i, "BatchGet", k, got)
			}
		case "flush", "fflush":
			flushed, err := mb.Flush(op.K == "fflush")
			t.logf("op%d %s -> flushed=%v err=%v", i, op.K, flushed, err)
			if flushed {
				t.stats["txn.flush-triggered"]++
				// Let the library's flush goroutine run until it parks (in its start delay or in its first RPC) before
				// the program goes on: otherwise the Go scheduler, not the simulator, decides which of the two runs first.
				time.Sleep(time.Microsecond)
			}
			if err != nil {
				t.flushErr = errClass(err)
			}
		case "wait":
			err := mb.FlushWait()
			t.logf("op%d flushwait -> %v", i, err)
			if err != nil {
				t.flushErr = errClass(err)
			}
		case "split":
			// a region border appears between keys the client has cached in one region
			if t.w.Cl.SplitAt([]byte(op.Keys[0])) {
				t.stats["txn.program-split"]++
			}
		case "sleep":
			// (odd microseconds: the program never wakes at the very instant an RPC answer arrives)
			time.Sleep(time.Duration(op.SleepMs)*time.Millisecond + time.Duration(3+7*(i%50))*time.Microsecond)
		}
	}
	if t.flushErr != "" {
		t.stats["txn.flush-error-surfaced"]++
	}
	t.w.Net.SetMark(0, "end")
	end := sc.End
	if t.flushErr != "" && end == "commit" {
		// Flush / FlushWait told the application that a flush failed: "txn should abort when there is an
		// error" (doc of Flush). A well-behaved application rolls back. (What Commit does when the application
		// ignores the reported error is outside the property; see CHECK.md, observation O1.)
		end = "rollback"
		t.stats["txn.rollback-after-reported-flush-error"]++
	}
	if end == "rollback" {
		t.endKind = "rollback"
		err := txn.Rollback()
		t.logf("rollback -> %v", err)
	} else {
		t.endKind = "commit"
		err := txn.Commit(ctx)
		t.endErr = errClass(err)
		if err == nil {
			t.commitTS = txn.CommitTS()
		}
		t.logf("commit -> %v commit_ts=%d", err, t.commitTS)
	}
}

func (t *txnRun) compareOwnRead(i int, op, k string, got *string) {
	want := t.expectOwn(k)
	if (want == nil) != (got == nil) || want != nil && *want != *got {
		sig := "stale"
		if got == nil {
			sig = "lost"
		} else if want == nil {
			sig = "deleted-visible"
		}
		t.violate("txn-read-mismatch", op+"-"+sig, "op%d %s(%q) inside the pipelined transaction returned %s, expected %s (%s); own writes so far: %s", i, op, k, fmtVal(got), fmtVal(want), t.levelOf(k), fmtOwn(t.own))
	}
}

func fmtOwn(m map[string]*string) string {
	var sb strings.Builder
	for _, k := range simkit.SortedKeys(m) {
		if m[k] == nil {
			fmt.Fprintf(&sb, "%s=DEL ", k)
		} else {
			fmt.Fprintf(&sb, "%s=%s ", k, *m[k])
		}
	}
	return sb.String()
}

// snapshotRead reads every key at a fresh timestamp through the observer client.
func (t *txnRun) snapshotRead(phase string) *snapRead {
	st := t.w.stores[1]
	ctx := context.Background()
	r := &snapRead{Phase: phase}
	ts, err := st.GetOracle().GetTimestamp(ctx, &oracleOpt)
	if err != nil {
		r.Err = errClass(err)
		return r
	}
	r.TS = ts
	m, err := st.GetSnapshot(ts).BatchGet(ctx, t.allKeys())
	if err != nil {
		r.Err = errClass(err)
		return r
	}
	r.Vals = map[string]*string{}
	for _, k := range t.sc.Keys {
		if v, ok := m[k]; ok {
			r.Vals[k] = sp(string(v.Value))
		} else {
			r.Vals[k] = nil
		}
	}
	return r
}

func (t *txnRun) ownLocks() []*kvrpcpb.LockInfo {
	var out []*kvrpcpb.LockInfo
	for _, l := range t.w.srv.VerifDumpLocks() {
		if l.LockVersion == t.startTS {
			out = append(out, l)
		}
	}
	return out
}

// flushFacts is what the RPC trace says about the flushes of the transaction.
type flushFacts struct {
	primary   []byte
	keys      map[string]bool   // every key some executed Flush carried
	unacked   map[string]bool   // keys carried by an executed Flush whose answer never reached the client
	lastValue map[string]string // op/value of the highest generation executed per key
	lastGen   map[string]uint64
	gens      map[uint64]bool
	resolves  []string
}

func (t *txnRun) collectFlushFacts(trace []*simkit.RPCRecord) *flushFacts {
	f := &flushFacts{keys: map[string]bool{}, unacked: map[string]bool{}, lastValue: map[string]string{}, lastGen: map[string]uint64{}, gens: map[uint64]bool{}}
	for _, r := range trace {
		switch q := r.Req.Req.(type) {
		case *kvrpcpb.FlushRequest:
			if q.StartTs != t.startTS || !r.Executed {
				continue
			}
			if f.primary == nil {
				f.primary = q.PrimaryKey
			}
			f.gens[q.Generation] = true
			for _, m := range q.Mutations {
				f.keys[string(m.Key)] = true
				if !r.Returned {
					f.unacked[string(m.Key)] = true
				}
				if q.Generation >= f.lastGen[string(m.Key)] {
					f.lastGen[string(m.Key)] = q.Generation
					f.lastValue[string(m.Key)] = fmt.Sprintf("%v %q", m.Op, m.Value)
				}
			}
		case *kvrpcpb.ResolveLockRequest:
			if q.StartVersion != t.startTS || r.Client != 0 {
				continue
			}
			f.resolves = append(f.resolves, fmt.Sprintf("region %d commit_ts=%d fate=%q executed=%v", r.Req.Context.GetRegionId(), q.CommitVersion, r.Fate, r.Executed))
		}
	}
	return f
}

func (t *txnRun) regionStartOf(key []byte) (start []byte, isStart bool) {
	for _, r := range t.w.Cl.C.GetAllRegions() {
		s := mocktikv.MvccKey(r.Meta.StartKey).Raw()
		e := mocktikv.MvccKey(r.Meta.EndKey).Raw()
		if bytes.Compare(s, key) <= 0 && (len(e) == 0 || bytes.Compare(key, e) < 0) {
			return s, bytes.Equal(s, key)
		}
	}
	return nil, false
}

func execTxn(cfg simkit.RunConfig, sc *TxnScenario, res *simkit.RunResult, dump bool) {
	s := simkit.New(cfg.Seed)
	s.Limits.MaxEvents = 60000
	t := &txnRun{sc: sc, s: s, own: map[string]*string{}, stats: map[string]int{}}
	var truth1, truth2 simkit.Truth
	var leftover []*kvrpcpb.LockInfo
	drained := false
	recovered := false
	layoutAtDrain := ""
	s.Run(func() {
		w, err := newWorld(s, sc)
		if err != nil {
			panic(fmt.Sprintf("world: %v", err))
		}
		t.w = w
		if err := t.preload(); err != nil {
			t.logf("preload failed: %v", err)
			s.Abort("preload-failed")
			return
		}
		var wg sync.WaitGroup
		if sc.MidReadMs > 0 {
			wg.Add(1)
			go func() {
				defer wg.Done()
				time.Sleep(time.Duration(sc.MidReadMs)*time.Millisecond + 37*time.Microsecond)
				t.mid = t.snapshotRead("mid")
			}()
		}
		wg.Add(1)
		go func() {
			defer wg.Done()
			time.Sleep(13 * time.Microsecond)
			t.runWriter()
		}()
		wg.Wait()
		if !t.begun || s.Aborted != "" {
			return
		}
		// Commit / Rollback returned. Let the client's background work (resolveFlushedLocks runs
		// asynchronously) end, or 60 simulated seconds pass.
		// (the odd offset keeps the polls off the instants at which the library's own timers fire: two
		// goroutines woken at the same fake instant would run in an order the simulator does not control)
		s.Sleep(123 * time.Microsecond)
		for i := 0; i < 60; i++ {
			s.Sleep(time.Second)
			if t.bg.Load() == 0 && w.Net.Quiet(time.Second) {
				drained = true
				break
			}
		}
		t.logf("drain: background goroutines spawned=%d still running=%d drained=%v", t.bgSpawned.Load(), t.bg.Load(), drained)
		truth1 = simkit.DumpTruth(w.srv, t.allKeys())
		leftover = t.ownLocks()
		layoutAtDrain = w.Cl.Describe()
		// recovery: whatever is left is met by a reader of another client after the locks' TTL
		if len(leftover) > 0 {
			s.Sleep(time.Duration(sc.TTLMs)*time.Millisecond + 2*time.Second)
		}
		for round := 0; round < 14 && s.Aborted == ""; round++ {
			r := t.snapshotRead("final")
			if r.Err == "" && len(t.ownLocks()) == 0 {
				t.final = r
				recovered = true
				break
			}
			t.stats["recovery.round"]++
			s.Sleep(3 * time.Second)
		}
		truth2 = simkit.DumpTruth(w.srv, t.allKeys())
	})
	trace := t.w.Net.Trace()
	facts := t.collectFlushFacts(trace)
	fired := append([]simkit.FiredFault(nil), t.w.Net.Fired...)
	panics := append([]string(nil), t.w.Net.Panics...)
	misrouted := append([]string(nil), t.w.srv.Misrouted...)
	t.w.close()
	simkit.Settle()
	// The keep-alive goroutine of a pipelined transaction is not tied to the store's lifetime: when its heart-beat
	// (or its TSO request) was on the wire at shutdown it retries on a back-off budget of 20 s each before it
	// looks at its stop channel. The fake clock stops when Execute returns, so let those budgets run out here.
	time.Sleep(120 * time.Second)
	synctest.Wait()

	res.Aborted = s.Aborted
	res.Events = s.Events
	res.SimTime = s.Now()
	for k, v := range s.Stats() {
		t.stats[k] += v
	}
	res.Trace = traceDigest(trace)
	hsum := sha1.Sum([]byte(strings.Join(res.Trace, "\n")))
	res.SchedHash = hex.EncodeToString(hsum[:8])

	for _, p := range panics {
		t.violate("backend-panic", "panic", "%s", p)
	}
	for _, m := range misrouted {
		t.stats["misrouted-request"]++
		_ = m
	}
	for _, f := range simkit.TakeFatals() {
		t.violate("fatal-log", "fatal", "the library logged at Fatal level: %s", f)
	}
	nFlushKeys := len(facts.keys)
	t.stats["shape."+sc.Shape]++
	t.stats["end."+t.endKind]++
	if t.endKind == "commit" {
		c := t.endErr
		if c == "" {
			c = "ok"
		} else if strings.HasPrefix(c, "other:") {
			c = "other"
		}
		t.stats["commit."+c]++
	}
	t.stats["flush.generations"] += len(facts.gens)
	t.stats["flush.distinct-keys"] += nFlushKeys
	if nFlushKeys == 1 {
		t.stats["probe.exactly-one-flushed-key"]++
	}
	for _, sp := range t.readSpans {
		for _, r := range trace {
			if r.Type == tikvrpc.CmdFlush && r.Client == 0 && r.SubmitAt <= sp[1] && (r.DoneAt == 0 || r.DoneAt >= sp[0]) {
				t.stats["reads.during-flush"]++
				break
			}
		}
	}
	t.stats["faults.fired"] += len(fired)

	if s.Aborted == "" && t.begun {
		t.judge(truth1, truth2, leftover, drained, recovered, facts, layoutAtDrain, len(fired))
	}
	res.Stats = t.stats
	res.Violations = t.viol
	// Nontrivial: the transaction flushed at least once and reached its end call.
	res.Nontrivial = t.begun && len(facts.gens) > 0 && t.endKind != "none" && s.Aborted == ""
	res.Sample = map[string]any{"shape": sc.Shape, "splits": sc.Splits, "end": t.endKind, "end_err": t.endErr, "flush_generations": len(facts.gens), "flushed_keys": nFlushKeys,
		"faults_fired": fired, "rpcs": len(res.Trace), "sim_ms": res.SimTime.Milliseconds(), "leftover_locks": len(leftover), "layout": layoutAtDrain}
	if len(t.viol) > 0 || dump {
		res.Log = append(res.Log, t.log...)
		res.Log = append(res.Log, "layout: "+layoutAtDrain)
		for _, r := range trace {
			res.Log = append(res.Log, fmtRec(r))
		}
	}
}

func (t *txnRun) judge(truth1, truth2 simkit.Truth, leftover []*kvrpcpb.LockInfo, drained, recovered bool, facts *flushFacts, layout string, fired int) {
	sc := t.sc
	// ---- 1. leftover locks once the client's background work has ended (not judged with lossy faults)
	if !sc.Faulted {
		if !drained {
			t.stats["drain.bound-hit"]++
		}
		t.stats["leftover.audited"]++
		var fk []string
		for k := range facts.keys {
			fk = append(fk, k)
		}
		sort.Strings(fk)
		for _, l := range leftover {
			k := string(l.Key)
			if facts.unacked[k] {
				// written by a Flush request that was still on the wire when the client gave up on it
				// (Rollback cancels flushes in flight): it may arrive after the cleanup. Not judged.
				t.stats["leftover.excused-unacked-flush"]++
				continue
			}
			_, isStart := t.regionStartOf(l.Key)
			sig := "other"
			switch {
			case len(fk) == 1:
				sig = "single-flushed-key"
			case len(fk) > 0 && k == fk[len(fk)-1] && isStart:
				sig = "largest-key-on-region-start"
			case len(fk) > 0 && k == fk[len(fk)-1]:
				sig = "largest-key"
			}
			sig = t.endKind + "-" + sig
			t.violate("leftover-lock", sig, "key %q is still locked by the pipelined transaction (start ts %d, lock type %v, primary %q, generation lock ttl %d) after %s returned (%q) and the client's background work ended (drained=%v, %d background goroutines spawned): flushed keys %q, primary %q, region layout %s, key is the first key of its region: %v; ResolveLock requests sent by the client: %v",
				k, t.startTS, l.LockType, l.PrimaryLock, l.LockTtl, t.endKind, t.endErr, drained, t.bgSpawned.Load(), fk, facts.primary, layout, isStart, facts.resolves)
		}
	}
	// ---- 2. single outcome, decided on the primary, once every lock is resolved
	if !recovered {
		if sc.Faulted {
			t.stats["recovery.not-finished"]++
			return
		}
		t.violate("recovery-stuck", "locks-remain", "locks of the transaction remain after ttl + 14 reader rounds: %d", len(t.ownLocks()))
		return
	}
	t.stats["outcome.audited"]++
	committedAt := uint64(0)
	var committedKeys, rolledKeys []string
	for _, k := range sc.Keys {
		kt := truth2[k]
		n := 0
		for _, w := range kt.Writes {
			if w.StartTS != t.startTS {
				continue
			}
			if w.Kind == kvrpcpb.Op_Rollback {
				rolledKeys = append(rolledKeys, k)
				continue
			}
			n++
			committedKeys = append(committedKeys, k)
			if committedAt == 0 {
				committedAt = w.CommitTS
			} else if committedAt != w.CommitTS {
				t.violate("outcome-split", "two-commit-ts", "key %q carries a record of the transaction at commit ts %d, another key at %d", k, w.CommitTS, committedAt)
			}
		}
		if n > 1 {
			t.violate("outcome-split", "two-records", "key %q carries %d committed records of the transaction", k, n)
		}
	}
	primaryCommitted := false
	if facts.primary != nil {
		for _, w := range truth2[string(facts.primary)].Writes {
			if w.StartTS == t.startTS && w.Kind != kvrpcpb.Op_Rollback {
				primaryCommitted = true
			}
		}
	}
	if primaryCommitted {
		t.stats["outcome.committed"]++
	} else {
		t.stats["outcome.rolled-back"]++
	}
	if !primaryCommitted && len(committedKeys) > 0 {
		t.violate("outcome-split", "secondary-committed", "the primary %q is not committed but keys %v carry committed records of the transaction (start ts %d)", facts.primary, committedKeys, t.startTS)
	}
	switch {
	case len(t.own) == 0 && len(facts.keys) == 0:
		// the transaction wrote nothing: there is no outcome to decide
		t.stats["outcome.empty-transaction"]++
	case t.endKind == "commit" && t.endErr == "" && !primaryCommitted:
		t.violate("ack-mismatch", "commit-ok-not-committed", "Commit returned nil (commit ts %d) but the primary %q carries no committed record of the transaction", t.commitTS, facts.primary)
	case t.endKind == "commit" && t.endErr == "" && committedAt != t.commitTS:
		t.violate("ack-mismatch", "commit-ts", "Commit returned commit ts %d, the store has %d", t.commitTS, committedAt)
	case t.endKind == "commit" && t.endErr != "" && t.endErr != "undetermined" && primaryCommitted:
		t.violate("ack-mismatch", "commit-failed-but-committed", "Commit failed with %q but the transaction is committed at %d", t.endErr, committedAt)
	case t.endKind == "rollback" && primaryCommitted:
		t.violate("ack-mismatch", "rollback-but-committed", "Rollback was called but the transaction is committed at %d", committedAt)
	}
	// every key: the value visible after the end is the single outcome
	want := map[string]*string{}
	for _, k := range sc.Keys {
		if v, ok := sc.Preload[k]; ok {
			want[k] = sp(v)
		} else {
			want[k] = nil
		}
		if primaryCommitted {
			if v, ok := t.own[k]; ok {
				want[k] = v
			}
		}
	}
	outcome := "rolled back"
	if primaryCommitted {
		outcome = fmt.Sprintf("committed at %d", committedAt)
	}
	for _, k := range sc.Keys {
		v, ok := truth2[k].ValueAt(^uint64(0) >> 1)
		var got *string
		if ok {
			got = sp(string(v))
		}
		if (got == nil) != (want[k] == nil) || got != nil && *got != *want[k] {
			sig := "committed-wrong-value"
			if !primaryCommitted {
				sig = "rolled-back-visible"
			} else if _, mine := t.own[k]; mine && (got == nil || t.own[k] == nil || *got != *t.own[k]) {
				sig = "committed-key-missing-or-stale"
			}
			t.violate("outcome-mismatch", sig, "after the end of the transaction (%s; start ts %d) the newest version of %q is %s, expected %s (transaction's last write: %s; last flushed mutation: %s)", outcome, t.startTS, k, fmtVal(got), fmtVal(want[k]), ownDesc(t.own, k), facts.lastValue[k])
		}
	}
	// ---- 3. a reader at a later timestamp sees exactly that
	if t.final != nil && t.final.Vals != nil {
		for _, k := range sc.Keys {
			got := t.final.Vals[k]
			if (got == nil) != (want[k] == nil) || got != nil && *got != *want[k] {
				t.violate("reader-mismatch", "final", "a reader at ts %d (after the transaction ended: %s) got %s for %q, expected %s", t.final.TS, outcome, fmtVal(got), k, fmtVal(want[k]))
			}
		}
		t.stats["reader.final-audited"]++
	}
	if t.mid != nil && t.mid.Vals != nil {
		for _, k := range sc.Keys {
			v, ok := truth2[k].ValueAt(t.mid.TS)
			var exp *string
			if ok {
				exp = sp(string(v))
			}
			got := t.mid.Vals[k]
			if (got == nil) != (exp == nil) || got != nil && *got != *exp {
				t.violate("reader-mismatch", "concurrent", "a reader at ts %d running concurrently with the pipelined transaction (start %d, %s) got %s for %q, the store's history gives %s at that timestamp", t.mid.TS, t.startTS, outcome, fmtVal(got), k, fmtVal(exp))
			}
		}
		t.stats["reader.concurrent-audited"]++
	} else if t.mid != nil {
		t.stats["reader.concurrent-error"]++
	}
	_ = truth1
	_ = rolledKeys
}

func ownDesc(own map[string]*string, k string) string {
	v, ok := own[k]
	switch {
	case !ok:
		return "none"
	case v == nil:
		return "DEL"
	}
	return "PUT " + *v
}

func traceDigest(tr []*simkit.RPCRecord) []string {
	recs := make([]*simkit.RPCRecord, 0, len(tr))
	for _, r := range tr {
		if r.Type == tikvrpc.CmdStoreSafeTS {
			continue
		}
		recs = append(recs, r)
	}
	sort.SliceStable(recs, func(i, j int) bool {
		if recs[i].SubmitAt != recs[j].SubmitAt {
			return recs[i].SubmitAt < recs[j].SubmitAt
		}
		if recs[i].Identity != recs[j].Identity {
			return recs[i].Identity < recs[j].Identity
		}
		return recs[i].Occ < recs[j].Occ
	})
	out := make([]string, 0, len(recs))
	for _, r := range recs {
		out = append(out, fmt.Sprintf("%d %s#%d %s", r.SubmitAt.Microseconds(), r.Identity, r.Occ, r.Fate))
	}
	return out
}

func fmtRec(r *simkit.RPCRecord) string {
	extra := ""
	switch q := r.Req.Req.(type) {
	case *kvrpcpb.FlushRequest:
		var ks []string
		for _, m := range q.Mutations {
			ks = append(ks, fmt.Sprintf("%v %q=%q", m.Op, m.Key, m.Value))
		}
		extra = fmt.Sprintf(" gen=%d primary=%q muts=%v", q.Generation, q.PrimaryKey, ks)
	case *kvrpcpb.ResolveLockRequest:
		extra = fmt.Sprintf(" start=%d commit=%d keys=%q", q.StartVersion, q.CommitVersion, q.Keys)
	case *kvrpcpb.BufferBatchGetRequest:
		extra = fmt.Sprintf(" keys=%q", q.Keys)
	case *kvrpcpb.CommitRequest:
		extra = fmt.Sprintf(" keys=%q commit=%d", q.Keys, q.CommitVersion)
	}
	return fmt.Sprintf("rpc #%d c%d %s region=%d submit=%.3fms fate=%q executed=%v returned=%v err=%v%s", r.ID, r.Client, r.Type, r.Req.Context.GetRegionId(), float64(r.SubmitAt.Microseconds())/1000, r.Fate, r.Executed, r.Returned, r.RetErr, extra)
}
