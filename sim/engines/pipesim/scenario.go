// Package pipesim checks property C16 (pipelined transactions) of tikv/client-go in a deterministic simulation.
//
// Mode "buffer" (level 1) drives the real internal/unionstore.PipelinedMemDB with a simulator-owned flush
// function and buffer getter; modes "txn" and "txn-faults" (level 2) drive a real pipelined KVTxn over the
// simulated network against the reference TiKV model (refkv).
package pipesim

import (
	"fmt"
	"math/rand"
	"sort"

	"github.com/tikv/client-go/v2/verifsim/simkit"
)

// Scenario is the explicit, replayable description of one run.
type Scenario struct {
	Kind string       `json:"kind"` // buffer | txn
	Buf  *BufScenario `json:"buf,omitempty"`
	Txn  *TxnScenario `json:"txn,omitempty"`
}

// Thresholds are the flush thresholds of the pipelined buffer (set through the library's failpoints).
type Thresholds struct {
	MinFlushKeys   int `json:"min_flush_keys"`
	MinFlushSize   int `json:"min_flush_size"`
	ForceFlushSize int `json:"force_flush_size"`
}

// ---------------------------------------------------------------------------------------------
// level 1

// BufOp is one step of a buffer program. "finish" is not an operation of the buffer: it is the
// simulator letting the flush that is in flight (parked in the flush function) end at this point.
type BufOp struct {
	K    string   `json:"k"` // set del insert lock setempty get getlocal bget flush fflush wait finish stage release cleanup len size dirty onflushing
	Keys []string `json:"keys,omitempty"`
	Val  string   `json:"v,omitempty"`
}

// FlushFate is what the simulator does to the n-th call of the flush function.
type FlushFate struct {
	Fail    string `json:"fail,omitempty"`    // "" | err | exists
	Early   bool   `json:"early,omitempty"`   // the store tier gets the mutations when the flush starts (else when it ends)
	Partial int    `json:"partial,omitempty"` // a failing flush still writes this many of its mutations
	NilDel  bool   `json:"nil_del,omitempty"` // the getter answers a flushed deletion with a nil value (as after protobuf) instead of an empty one
}

// BufScenario is a level-1 run.
type BufScenario struct {
	Th      Thresholds  `json:"thresholds"`
	Ops     []BufOp     `json:"ops"`
	Flushes []FlushFate `json:"flushes"` // by generation-1; beyond the list: succeeds, late
}

const hugeSize = 1 << 40

var bufKeys = []string{"a", "b1", "b2", "c", "dd", "e", "f/long-key", "g"}

func genBuffer(cfg simkit.RunConfig) *Scenario {
	r := simkit.Rand(cfg.Seed, "gen-buffer")
	b := &BufScenario{}
	switch r.Intn(5) {
	case 0, 1, 2:
		// key-count driven (predictable): flush when at least n keys are buffered and no flush is running
		b.Th = Thresholds{MinFlushKeys: 1 + r.Intn(5), MinFlushSize: 0, ForceFlushSize: hugeSize}
	case 3:
		// every non-empty buffer is above the force threshold: Flush blocks for the flush in flight
		b.Th = Thresholds{MinFlushKeys: 1 + r.Intn(4), MinFlushSize: 0, ForceFlushSize: 1}
	default:
		// size driven
		b.Th = Thresholds{MinFlushKeys: 1 + r.Intn(3), MinFlushSize: []int{1, 4096, 1 << 20}[r.Intn(3)], ForceFlushSize: []int{1 << 14, 1 << 20, hugeSize}[r.Intn(3)]}
	}
	nk := 2 + r.Intn(len(bufKeys)-1)
	keys := append([]string(nil), bufKeys[:nk]...)
	n := 8 + r.Intn(40)
	val := 10 + r.Intn(80)
	nextVal := func() string {
		val++
		s := fmt.Sprintf("v%d", val)
		if r.Intn(4) == 0 {
			s += "xx"[:1+r.Intn(2)]
		}
		return s
	}
	pick := func() string { return keys[r.Intn(len(keys))] }
	depth := 0
	failRate := []float64{0, 0.1, 0.25}[r.Intn(3)]
	for g := 0; g < 14; g++ {
		f := FlushFate{Early: r.Intn(2) == 0, NilDel: r.Intn(2) == 0}
		if r.Float64() < failRate {
			f.Fail = "err"
			if r.Intn(3) == 0 {
				f.Fail = "exists"
			}
			f.Partial = r.Intn(3)
		}
		b.Flushes = append(b.Flushes, f)
	}
	flushy := 6 + r.Intn(14) // weight of flush operations
	finishy := 3 + r.Intn(14)
	stagey := r.Intn(4) == 0 // a program that works mostly inside staging levels (statement-like: stage, write, read, release/cleanup)
	for i := 0; i < n; i++ {
		x := r.Intn(100 + flushy + finishy)
		if stagey && r.Intn(3) == 0 {
			switch {
			case depth == 0:
				x = 79 // stage
			case r.Intn(3) == 0:
				x = 83 // release / cleanup
			case r.Intn(2) == 0:
				x = 70 // batch get
			default:
				x = r.Intn(36) // write
			}
		}
		switch {
		case x < 26:
			b.Ops = append(b.Ops, BufOp{K: "set", Keys: []string{pick()}, Val: nextVal()})
		case x < 36:
			b.Ops = append(b.Ops, BufOp{K: "del", Keys: []string{pick()}})
		case x < 39:
			b.Ops = append(b.Ops, BufOp{K: "insert", Keys: []string{pick()}, Val: nextVal()})
		case x < 42:
			b.Ops = append(b.Ops, BufOp{K: "lock", Keys: []string{pick()}})
		case x < 43:
			b.Ops = append(b.Ops, BufOp{K: "setempty", Keys: []string{pick()}})
		case x < 61:
			b.Ops = append(b.Ops, BufOp{K: "get", Keys: []string{pick()}})
		case x < 66:
			b.Ops = append(b.Ops, BufOp{K: "getlocal", Keys: []string{pick()}})
		case x < 78:
			ks := subset(r, keys, 1, 4)
			if r.Intn(4) == 0 {
				ks = append(ks, ks[0])
			}
			b.Ops = append(b.Ops, BufOp{K: "bget", Keys: ks})
		case x < 82:
			if depth < 2 {
				depth++
				b.Ops = append(b.Ops, BufOp{K: "stage"})
			}
		case x < 86:
			if depth > 0 {
				depth--
				k := "release"
				if r.Intn(2) == 0 {
					k = "cleanup"
				}
				b.Ops = append(b.Ops, BufOp{K: k})
			}
		case x < 90:
			b.Ops = append(b.Ops, BufOp{K: []string{"len", "size", "dirty", "onflushing"}[r.Intn(4)]})
		case x < 93:
			b.Ops = append(b.Ops, BufOp{K: "wait"})
		case x < 100:
			// a flush while a stage is open is refused by the buffer; keep those rare
			if depth > 0 && r.Intn(4) != 0 {
				depth--
				b.Ops = append(b.Ops, BufOp{K: "release"})
			}
			k := "flush"
			if r.Intn(3) == 0 {
				k = "fflush"
			}
			b.Ops = append(b.Ops, BufOp{K: k})
		case x < 100+flushy:
			if depth > 0 && r.Intn(5) != 0 {
				depth--
				b.Ops = append(b.Ops, BufOp{K: "release"})
			}
			k := "flush"
			if r.Intn(3) == 0 {
				k = "fflush"
			}
			b.Ops = append(b.Ops, BufOp{K: k})
		default:
			b.Ops = append(b.Ops, BufOp{K: "finish"})
		}
	}
	return &Scenario{Kind: "buffer", Buf: b}
}

func subset(r *rand.Rand, pool []string, lo, hi int) []string {
	n := lo + r.Intn(hi-lo+1)
	if n > len(pool) {
		n = len(pool)
	}
	p := r.Perm(len(pool))[:n]
	out := make([]string, 0, n)
	for _, i := range p {
		out = append(out, pool[i])
	}
	return out
}

// ---------------------------------------------------------------------------------------------
// level 2

// TxnOp is one step of the pipelined transaction's program.
type TxnOp struct {
	K       string   `json:"k"` // set del insert get bget flush fflush wait sleep
	Keys    []string `json:"keys,omitempty"`
	Val     string   `json:"v,omitempty"`
	SleepMs int      `json:"ms,omitempty"`
}

// NetCfg configures the simulated network.
type NetCfg struct {
	JitterUs int                    `json:"jitter_us"`
	Plan     map[string]simkit.Fate `json:"plan,omitempty"`
	Random   bool                   `json:"random,omitempty"`
	Rate     float64                `json:"rate,omitempty"`
	Kinds    []simkit.Fate          `json:"kinds,omitempty"`
}

// TxnScenario is a level-2 run.
type TxnScenario struct {
	Faulted     bool              `json:"faulted"` // lost messages and stalls may occur: only atomicity after recovery is judged
	Shape       string            `json:"shape"`
	Stores      int               `json:"stores"`
	Splits      []string          `json:"splits"`
	Keys        []string          `json:"keys"`
	Preload     map[string]string `json:"preload,omitempty"`
	Th          Thresholds        `json:"thresholds"`
	FlushConc   int               `json:"flush_concurrency"`
	ResolveConc int               `json:"resolve_concurrency"`
	TTLMs       int               `json:"ttl_ms"`
	Ops         []TxnOp           `json:"ops"`
	End         string            `json:"end"` // commit | rollback
	Net         NetCfg            `json:"net"`
	MidReadMs   int               `json:"mid_read_ms,omitempty"` // >0: another client reads all keys this long after the transaction began
	// FlushDelayMs > 0: the library's flush goroutine starts its work this long after Flush() returned (failpoint
	// beforePipelinedFlush), so that the next program steps - or Rollback - run before the first Flush RPC leaves.
	FlushDelayMs int `json:"flush_delay_ms,omitempty"`
	// AsyncBatchGet: config.EnableAsyncBatchGet - batch gets (also those of the buffer tier) go through the asynchronous
	// sender, which has its own retry and re-grouping code
	AsyncBatchGet bool `json:"async_batch_get,omitempty"`
}

var txnKeys = []string{"k1", "k2", "k3", "k4", "k5", "k6", "k7", "k8"}

// retried faults: the client's flush / resolve / read paths retry them; nothing is lost.
var retriedFaults = []simkit.Fate{simkit.RENotLeader, simkit.REEpochNotMatch, simkit.REServerIsBusy, simkit.REStaleCommand, simkit.RERegionNotFound, simkit.Delay, simkit.Delay, simkit.TopoSplit, simkit.TopoLeader, simkit.TopoSplitAfter}

// lossy faults: messages are lost, duplicated or stalled beyond lock TTLs; a hard store error ends a flush.
var lossyFaults = []simkit.Fate{simkit.DropReq, simkit.DropResp, simkit.DropReqSlow, simkit.DropRespSlow, simkit.Dup, simkit.Stall, simkit.REDiskFull, simkit.RENotLeader, simkit.REEpochNotMatch, simkit.Delay, simkit.TopoSplit}

func genTxn(cfg simkit.RunConfig, faulted bool) *Scenario {
	r := simkit.Rand(cfg.Seed, "gen-txn")
	t := &TxnScenario{Faulted: faulted, Stores: 1 + r.Intn(3), FlushConc: []int{1, 2, 8, 128}[r.Intn(4)], ResolveConc: []int{1, 2, 8}[r.Intn(3)], TTLMs: 3000 + 1000*r.Intn(4)}
	t.AsyncBatchGet = simkit.Rand(cfg.Seed, "async-batch-get").Intn(3) == 0
	t.Th = Thresholds{MinFlushKeys: 1 + r.Intn(3), MinFlushSize: 0, ForceFlushSize: hugeSize}
	nk := 3 + r.Intn(len(txnKeys)-2)
	t.Keys = append([]string(nil), txnKeys[:nk]...)
	t.Preload = map[string]string{}
	for _, k := range t.Keys {
		if r.Intn(3) == 0 {
			t.Preload[k] = "p-" + k
		}
	}
	t.End = "commit"
	if r.Intn(5) < 2 {
		t.End = "rollback"
	}
	val := 0
	nextVal := func() string { val++; return fmt.Sprintf("v%d", val) }
	pick := func() string { return t.Keys[r.Intn(len(t.Keys))] }
	written := map[string]bool{}
	inserted := map[string]bool{}
	write := func(k string) {
		written[k] = true
		// (a key written with the presume-not-exists flag is not deleted afterwards: within one generation that
		// turns into a bare existence check, which the reference store does not model)
		if r.Intn(4) == 0 && !inserted[k] {
			t.Ops = append(t.Ops, TxnOp{K: "del", Keys: []string{k}})
		} else {
			t.Ops = append(t.Ops, TxnOp{K: "set", Keys: []string{k}, Val: nextVal()})
		}
	}
	read := func() {
		if r.Intn(2) == 0 {
			t.Ops = append(t.Ops, TxnOp{K: "get", Keys: []string{pick()}})
		} else {
			t.Ops = append(t.Ops, TxnOp{K: "bget", Keys: subset(r, t.Keys, 1, 4)})
		}
	}
	flush := func() {
		k := "flush"
		if r.Intn(3) == 0 {
			k = "fflush"
		}
		t.Ops = append(t.Ops, TxnOp{K: k})
	}
	shape := r.Intn(11)
	staleRead := false
	switch {
	case shape == 10 && len(t.Keys) >= 3:
		// keys that have left both local buffers are read back in one batch after the region the client has
		// cached them in was split between them
		t.Shape = "read-after-split"
		staleRead = true
		ks := append([]string(nil), t.Keys...)
		sort.Strings(ks)
		n := 3 + r.Intn(len(ks)-2)
		ks = ks[:n]
		for _, k := range ks {
			write(k)
		}
		t.Ops = append(t.Ops, TxnOp{K: "fflush"}, TxnOp{K: "wait"})
		write(ks[r.Intn(len(ks))])
		t.Ops = append(t.Ops, TxnOp{K: "fflush"}, TxnOp{K: "wait"})
		t.Ops = append(t.Ops, TxnOp{K: "split", Keys: []string{ks[1+r.Intn(len(ks)-1)]}})
		t.Ops = append(t.Ops, TxnOp{K: "bget", Keys: ks})
		for i := r.Intn(3); i > 0; i-- {
			read()
		}
	case shape < 2:
		// exactly one flushed key (possibly flushed more than once)
		t.Shape = "single-key"
		k := pick()
		write(k)
		t.Ops = append(t.Ops, TxnOp{K: "fflush"})
		for i := r.Intn(3); i > 0; i-- {
			switch r.Intn(3) {
			case 0:
				read()
			case 1:
				write(k)
				t.Ops = append(t.Ops, TxnOp{K: "fflush"})
			default:
				t.Ops = append(t.Ops, TxnOp{K: "sleep", SleepMs: 1 + r.Intn(20)})
			}
		}
	case shape < 4:
		// one flush of a few keys, then the end
		t.Shape = "one-flush"
		for _, k := range subset(r, t.Keys, 1, 4) {
			write(k)
		}
		t.Ops = append(t.Ops, TxnOp{K: "fflush"})
		if r.Intn(2) == 0 {
			read()
		}
	default:
		t.Shape = "general"
		n := 6 + r.Intn(24)
		for i := 0; i < n; i++ {
			x := r.Intn(100)
			switch {
			case x < 40:
				write(pick())
			case x < 43:
				// insert (presume-not-exists): only on a key the transaction has not written yet
				k := pick()
				if written[k] {
					write(k)
					break
				}
				written[k] = true
				inserted[k] = true
				t.Ops = append(t.Ops, TxnOp{K: "insert", Keys: []string{k}, Val: nextVal()})
			case x < 65:
				read()
			case x < 85:
				flush()
			case x < 88:
				t.Ops = append(t.Ops, TxnOp{K: "wait"})
			default:
				t.Ops = append(t.Ops, TxnOp{K: "sleep", SleepMs: 1 + r.Intn(40)})
			}
		}
	}
	// region layout: borders exactly on / right after the smallest and the largest written key, plus random ones
	var ws []string
	for k := range written {
		ws = append(ws, k)
	}
	sort.Strings(ws)
	splits := map[string]bool{}
	if len(ws) > 0 {
		lo, hi := ws[0], ws[len(ws)-1]
		switch r.Intn(6) {
		case 0:
			splits[hi] = true // the largest key is the first key of a region
		case 1:
			splits[hi+"\x00"] = true // the largest key is the last key of a region
		case 2:
			splits[hi] = true
			splits[hi+"\x00"] = true // the largest key is alone in its region
		}
		switch r.Intn(6) {
		case 0:
			splits[lo] = true
		case 1:
			splits[lo+"\x00"] = true
		}
	}
	for _, k := range t.Keys {
		if r.Intn(5) == 0 {
			splits[k] = true
		}
		if r.Intn(12) == 0 {
			splits[k+"\x00"] = true
		}
	}
	if r.Intn(6) == 0 || staleRead {
		splits = map[string]bool{} // a single region
	}
	for k := range splits {
		t.Splits = append(t.Splits, k)
	}
	sort.Strings(t.Splits)
	// network
	t.Net.JitterUs = []int{137, 500, 3000, 20000}[r.Intn(4)] // never 0: equal latencies make goroutines meet at the same fake instant
	t.Net.Plan = map[string]simkit.Fate{}
	kinds := retriedFaults
	if faulted {
		kinds = lossyFaults
	}
	level := r.Intn(4)
	if faulted && level == 0 {
		level = 1
	}
	switch level {
	case 0: // no faults at all
	case 1, 2:
		for i := 1 + r.Intn(3); i > 0; i-- {
			mark := "run"
			if r.Intn(2) == 0 {
				mark = "end"
			}
			t.Net.Plan[fmt.Sprintf("ord:0:%s+%d", mark, r.Intn(12))] = kinds[r.Intn(len(kinds))]
		}
	default:
		t.Net.Random = true
		t.Net.Rate = []float64{0.05, 0.1, 0.2}[r.Intn(3)]
		t.Net.Kinds = kinds
	}
	if r.Intn(4) == 0 {
		t.MidReadMs = 1 + r.Intn(30)
	}
	if r.Intn(3) == 0 {
		t.FlushDelayMs = []int{1, 3, 10, 40}[r.Intn(4)]
	}
	return &Scenario{Kind: "txn", Txn: t}
}
