package pipesim

import (
	"context"
	stderrors "errors"
	"fmt"
	"sort"
	"strings"
	"sync"
	"testing/synctest"

	"github.com/pingcap/kvproto/pkg/kvrpcpb"
	tikverr "github.com/tikv/client-go/v2/error"
	"github.com/tikv/client-go/v2/internal/unionstore"
	"github.com/tikv/client-go/v2/kv"
	"github.com/tikv/client-go/v2/verifsim/simkit"
)

// ent is one buffered mutation as the model sees it.
type ent struct {
	Has    bool // carries a value or a tombstone
	Del    bool
	Val    string
	Locked bool // carries the (persistent) locked flag
}

func (e ent) String() string {
	s := "flags-only"
	if e.Has && e.Del {
		s = "DEL"
	} else if e.Has {
		s = "PUT " + e.Val
	}
	if e.Locked {
		s += "+locked"
	}
	return s
}

// live reports whether the entry counts as a buffered mutation (something a flush must carry).
func (e ent) live() bool { return e.Has || e.Locked }

func copyEnts(m map[string]ent) map[string]ent {
	c := make(map[string]ent, len(m))
	for k, v := range m {
		c[k] = v
	}
	return c
}

// flight is one call of the flush function, as observed.
type flight struct {
	gen     uint64
	fate    FlushFate
	atEntry map[string]ent // what the library handed over (read when the flush function is entered)
	release chan struct{}
	parked  bool
	done    bool
	err     error
	mutated string // non-empty: the handed buffer changed while the flush was in flight
}

// genModel is the model's view of one flushed generation.
type genModel struct {
	gen     uint64
	entries map[string]ent
	fl      *flight
}

type bufRun struct {
	sc   *BufScenario
	db   *unionstore.PipelinedMemDB
	ctx  context.Context
	mu   sync.Mutex
	res  *simkit.RunResult
	viol []simkit.Violation

	// store tier (filled by the flush function, read by the getter)
	store       map[string]ent
	nilDel      bool
	getterCalls int
	getterKeys  int

	// observed flights
	flights  []*flight
	inflight *flight

	// model
	stages      []map[string]ent // stages[0] is the buffer outside any stage; the last one is what reads see
	handles     []int
	flying      *genModel      // handed to a flush and not yet waited for
	flushed     map[string]ent // made visible by flushes that ended successfully
	gen         uint64
	handedCount int
	handedSize  int
	wrote       bool
	// signature help only (never part of a verdict): keys for which a BatchGet returned a value written inside a
	// staging level (taint: key -> depth of that level) and keys whose tainting level was then discarded by
	// Cleanup with no Flush call in between (stale).
	taint       map[string]int
	stale       map[string]bool
	surfaced    bool // a flush error was reported: the transaction has to abort, nothing is judged afterwards
	minKeys     uint64
	predictable bool

	trace []string
	log   []string
	stats map[string]int
	step  int
}

var errSimFlush = stderrors.New("sim: flush failed")

func (b *bufRun) violate(class, sig, format string, args ...any) {
	d := fmt.Sprintf(format, args...)
	b.viol = append(b.viol, simkit.Violation{Property: "C16", Class: class, Sig: sig, Detail: fmt.Sprintf("step %d: %s | history: %s", b.step, d, strings.Join(tail(b.log, 60), " ; "))})
}

func tail(s []string, n int) []string {
	if len(s) > n {
		return s[len(s)-n:]
	}
	return s
}

func (b *bufRun) logf(format string, args ...any) {
	l := fmt.Sprintf(format, args...)
	b.log = append(b.log, l)
	b.trace = append(b.trace, l)
}

func (b *bufRun) top() map[string]ent { return b.stages[len(b.stages)-1] }

func readMemDB(m *unionstore.MemDB) map[string]ent {
	out := map[string]ent{}
	for it := m.IterWithFlags(nil, nil); it.Valid(); {
		f := it.Flags()
		e := ent{Locked: f.HasLocked()}
		if it.HasValue() {
			e.Has = true
			v := it.Value()
			if len(v) == 0 {
				e.Del = true
			} else {
				e.Val = string(v)
			}
		}
		if e.live() || f != 0 {
			out[string(it.Key())] = e
		}
		if err := it.Next(); err != nil {
			break
		}
	}
	return out
}

func diffEnts(want, got map[string]ent) string {
	var d []string
	keys := map[string]bool{}
	for k := range want {
		keys[k] = true
	}
	for k := range got {
		keys[k] = true
	}
	ks := make([]string, 0, len(keys))
	for k := range keys {
		ks = append(ks, k)
	}
	sort.Strings(ks)
	for _, k := range ks {
		w, wok := want[k]
		g, gok := got[k]
		if wok && !w.live() {
			wok = false
		}
		if gok && !g.live() {
			gok = false
		}
		switch {
		case wok && !gok:
			d = append(d, fmt.Sprintf("%s: buffered %v but not handed to the flush", k, w))
		case !wok && gok:
			d = append(d, fmt.Sprintf("%s: handed %v but not buffered since the previous flush", k, g))
		case wok && gok && (w.Has != g.Has || w.Del != g.Del || w.Val != g.Val || w.Locked != g.Locked):
			d = append(d, fmt.Sprintf("%s: buffered %v, handed %v", k, w, g))
		}
	}
	return strings.Join(d, "; ")
}

// flushFunc is the simulator-owned flush function. It runs on the library's goroutine and parks
// until the simulator lets it end.
func (b *bufRun) flushFunc(generation uint64, memdb *unionstore.MemDB) error {
	b.mu.Lock()
	f := &flight{gen: generation, release: make(chan struct{}), atEntry: readMemDB(memdb)}
	if i := int(generation) - 1; i >= 0 && i < len(b.sc.Flushes) {
		f.fate = b.sc.Flushes[i]
	}
	if b.inflight != nil {
		b.violate("concurrent-flush", "two-in-flight", "the flush function was called for generation %d while the flush of generation %d was still in flight", generation, b.inflight.gen)
	}
	prev := uint64(0)
	if n := len(b.flights); n > 0 {
		prev = b.flights[n-1].gen
	}
	if generation != prev+1 {
		b.violate("generation-order", "not-plus-one", "flush function called with generation %d after generation %d", generation, prev)
	}
	b.flights = append(b.flights, f)
	b.inflight = f
	f.parked = true
	if f.fate.Early {
		b.applyToStore(f)
	}
	b.mu.Unlock()

	<-f.release

	b.mu.Lock()
	defer b.mu.Unlock()
	f.parked = false
	after := readMemDB(memdb)
	if d := diffEnts(f.atEntry, after); d != "" {
		f.mutated = d
	}
	if !f.fate.Early {
		b.applyToStore(f)
	}
	switch f.fate.Fail {
	case "err":
		f.err = fmt.Errorf("generation %d: %w", generation, errSimFlush)
	case "exists":
		k := firstPut(f.atEntry)
		if k == "" {
			f.err = fmt.Errorf("generation %d: %w", generation, errSimFlush)
		} else {
			f.err = &tikverr.ErrKeyExist{AlreadyExist: &kvrpcpb.AlreadyExist{Key: []byte(k)}}
		}
	}
	f.done = true
	b.inflight = nil
	return f.err
}

func firstPut(m map[string]ent) string {
	ks := make([]string, 0, len(m))
	for k, e := range m {
		if e.Has && !e.Del {
			ks = append(ks, k)
		}
	}
	sort.Strings(ks)
	if len(ks) == 0 {
		return ""
	}
	return ks[0]
}

// applyToStore writes the handed mutations to the store tier (all of them for a flush that
// succeeds, the first Partial ones for a failing flush). Called with mu held.
func (b *bufRun) applyToStore(f *flight) {
	ks := make([]string, 0, len(f.atEntry))
	for k, e := range f.atEntry {
		if e.Has {
			ks = append(ks, k)
		}
	}
	sort.Strings(ks)
	if f.fate.Fail != "" && f.fate.Partial < len(ks) {
		ks = ks[:f.fate.Partial]
	}
	for _, k := range ks {
		b.store[k] = f.atEntry[k]
	}
	b.nilDel = f.fate.NilDel
}

// getter is the simulator-owned buffer getter: the store tier behind the buffer.
func (b *bufRun) getter(_ context.Context, keys [][]byte) (map[string]kv.ValueEntry, error) {
	b.mu.Lock()
	defer b.mu.Unlock()
	b.getterCalls++
	b.getterKeys += len(keys)
	out := map[string]kv.ValueEntry{}
	for _, k := range keys {
		e, ok := b.store[string(k)]
		if !ok {
			continue
		}
		if e.Del {
			if b.nilDel {
				out[string(k)] = kv.ValueEntry{}
			} else {
				out[string(k)] = kv.ValueEntry{Value: []byte{}}
			}
		} else {
			out[string(k)] = kv.ValueEntry{Value: []byte(e.Val)}
		}
	}
	return out, nil
}

// lookup is the model's read: latest write of the transaction at any level.
func (b *bufRun) lookup(k string, local bool) (ent, string, bool) {
	if e, ok := b.top()[k]; ok && e.Has {
		return e, "mutable", true
	}
	if b.flying != nil {
		if e, ok := b.flying.entries[k]; ok && e.Has {
			return e, "flushing", true
		}
	}
	if local {
		return ent{}, "", false
	}
	if e, ok := b.flushed[k]; ok && e.Has {
		return e, "flushed", true
	}
	return ent{}, "", false
}

type opResult struct {
	val     []byte
	err     error
	m       map[string]kv.ValueEntry
	flushed bool
	n       int
	b       bool
	panicV  any
}

// runOp executes fn on its own goroutine. If it blocks (Flush / FlushWait waiting for the flush in
// flight) the simulator lets that flush end and looks again.
func (b *bufRun) runOp(name string, fn func() opResult) (opResult, bool) {
	var r opResult
	done := make(chan struct{})
	go func() {
		defer close(done)
		defer func() {
			if p := recover(); p != nil {
				r.panicV = p
			}
		}()
		r = fn()
	}()
	synctest.Wait()
	select {
	case <-done:
		return r, true
	default:
	}
	b.stats["op.blocked-on-flush"]++
	if b.finishFlight("while " + name + " waits") {
		synctest.Wait()
		select {
		case <-done:
			return r, true
		default:
		}
	}
	b.violate("op-stuck", name, "%s does not return although no flush is in flight any more", name)
	if b.db.VerifUnblock(stderrors.New("sim: unblock")) {
		synctest.Wait()
	}
	select {
	case <-done:
	default:
	}
	return r, false
}

// finishFlight lets the parked flush end with its planned fate.
func (b *bufRun) finishFlight(why string) bool {
	b.mu.Lock()
	f := b.inflight
	b.mu.Unlock()
	if f == nil || !f.parked {
		return false
	}
	close(f.release)
	synctest.Wait()
	b.logf("flush g%d ends %s (%s)", f.gen, fateName(f.fate), why)
	if f.mutated != "" {
		b.violate("flushing-buffer-mutated", "changed-in-flight", "the buffer handed to flush generation %d changed while the flush was in flight: %s", f.gen, f.mutated)
	}
	if !f.done {
		b.violate("op-stuck", "flush-func", "the flush goroutine of generation %d did not end after the flush function returned", f.gen)
		return true
	}
	if b.flying != nil && b.flying.fl == f && f.err == nil {
		// visible in the store tier from now on
		for k, e := range b.flying.entries {
			if e.Has {
				b.flushed[k] = e
			}
		}
	}
	if f.err != nil {
		b.stats["flush.failed"]++
	} else {
		b.stats["flush.succeeded"]++
	}
	return true
}

func fateName(f FlushFate) string {
	if f.Fail == "" {
		return "ok"
	}
	return fmt.Sprintf("FAIL(%s,partial=%d)", f.Fail, f.Partial)
}

func (b *bufRun) flightRunning() bool {
	b.mu.Lock()
	defer b.mu.Unlock()
	return b.inflight != nil && b.inflight.parked
}

func liveCount(m map[string]ent) (n, size int) {
	for k, e := range m {
		if e.live() {
			n++
			size += len(k)
			if e.Has && !e.Del {
				size += len(e.Val)
			}
		}
	}
	return
}

// afterTrigger moves the model to the next generation and compares what the library handed over.
func (b *bufRun) afterTrigger(force bool) {
	b.gen++
	g := &genModel{gen: b.gen, entries: b.stages[0]}
	b.stages = []map[string]ent{{}}
	b.handles = nil
	n, sz := liveCount(g.entries)
	b.handedCount += n
	b.handedSize += sz
	b.flying = g
	b.mu.Lock()
	var f *flight
	if l := len(b.flights); l > 0 && b.flights[l-1].gen == b.gen {
		f = b.flights[l-1]
	}
	b.mu.Unlock()
	if f == nil {
		b.violate("handoff-missing", "no-flush-call", "Flush reported a triggered flush (generation %d expected) but the flush function was not called", b.gen)
		return
	}
	g.fl = f
	b.logf("handoff g%d: %d mutations", f.gen, len(f.atEntry))
	b.stats["flush.triggered"]++
	if n == 0 {
		b.stats["flush.empty-generation"]++
	}
	if d := diffEnts(g.entries, f.atEntry); d != "" {
		b.violate("handoff-mismatch", "generation-content", "flush generation %d did not receive exactly the mutations buffered since the previous flush: %s", f.gen, d)
	}
	if f.fate.Early && f.fate.Fail == "" {
		// store tier already has them; reads find them in the flushing buffer first anyway
		b.stats["flush.applied-early"]++
	}
}

// consume is the model's side of "the result of the flush in flight was taken from the channel".
// It returns the error that had to be reported.
func (b *bufRun) consume() error {
	g := b.flying
	b.flying = nil
	if g == nil || g.fl == nil {
		return nil
	}
	return g.fl.err
}

func sameFlushErr(want, got error) bool {
	if want == nil || got == nil {
		return want == nil && got == nil
	}
	if stderrors.Is(got, errSimFlush) && stderrors.Is(want, errSimFlush) {
		return true
	}
	var we, ge *tikverr.ErrKeyExist
	if stderrors.As(want, &we) && stderrors.As(got, &ge) {
		return string(we.GetKey()) == string(ge.GetKey())
	}
	return false
}

func (b *bufRun) checkSurfaced(op string, want, got error, g *genModel) {
	if !sameFlushErr(want, got) {
		b.violate("flush-error-wrong", op, "%s returned %v, the flush of generation %d had failed with %v", op, got, g.gen, want)
		return
	}
	var ge *tikverr.ErrKeyExist
	if stderrors.As(got, &ge) {
		k := string(ge.GetKey())
		if e, ok := g.entries[k]; ok && e.Has && !e.Del && string(ge.Value) != e.Val {
			b.violate("exist-err-value", op, "the key-exists error for %q of generation %d carries value %q, the flushed buffer holds %q", k, g.gen, ge.Value, e.Val)
		}
		b.stats["flush.exists-error-surfaced"]++
	}
}

func execBuffer(sc *BufScenario, res *simkit.RunResult, dump bool) {
	b := &bufRun{sc: sc, ctx: context.Background(), res: res, store: map[string]ent{}, flushed: map[string]ent{}, stages: []map[string]ent{{}}, stats: map[string]int{}, taint: map[string]int{}, stale: map[string]bool{}}
	b.db = unionstore.NewPipelinedMemDB(b.getter, b.flushFunc)
	minKeys, minSize, forceSize := b.db.VerifFlushOption()
	b.minKeys = minKeys
	// With no lower size bound and an unreachable force threshold the documented rule is a pure key-count rule.
	b.predictable = minSize == 0 && forceSize >= hugeSize
	if int(minKeys) != sc.Th.MinFlushKeys || int(minSize) != sc.Th.MinFlushSize || int(forceSize) != sc.Th.ForceFlushSize {
		res.Aborted = "thresholds-not-applied"
		return
	}
	overlapReads, overlapWrites := 0, 0
	for i, op := range sc.Ops {
		if b.surfaced || len(b.viol) > 0 {
			break
		}
		b.step = i
		running := b.flightRunning()
		b.stats["op."+op.K]++
		switch op.K {
		case "finish":
			if !b.finishFlight("program point") {
				b.stats["finish.nothing-in-flight"]++
			}
			continue
		case "set", "insert", "del", "setempty", "lock":
			if running {
				overlapWrites++
			}
			b.doWrite(op)
		case "get", "getlocal":
			if running {
				overlapReads++
			}
			b.doGet(op)
		case "bget":
			if running {
				overlapReads++
			}
			b.doBatchGet(op)
		case "flush", "fflush":
			b.doFlush(op.K == "fflush")
		case "wait":
			b.doWait("FlushWait")
		case "stage":
			r, _ := b.runOp("Staging", func() opResult { return opResult{n: b.db.Staging()} })
			b.handles = append(b.handles, r.n)
			b.stages = append(b.stages, copyEnts(b.top()))
			b.logf("stage -> h%d", r.n)
		case "release", "cleanup":
			if len(b.handles) == 0 {
				continue
			}
			h := b.handles[len(b.handles)-1]
			b.handles = b.handles[:len(b.handles)-1]
			r, _ := b.runOp(op.K, func() opResult {
				if op.K == "release" {
					b.db.Release(h)
				} else {
					b.db.Cleanup(h)
				}
				return opResult{}
			})
			if r.panicV != nil {
				b.violate("panic", op.K, "%s(%d) panicked: %v", op.K, h, r.panicV)
			}
			n := len(b.stages)
			if op.K == "release" {
				b.stages[n-2] = b.stages[n-1]
			}
			for k, d := range b.taint {
				if d < n-1 {
					continue
				}
				if op.K == "cleanup" {
					b.stale[k] = true
					delete(b.taint, k)
				} else if d-1 == 0 {
					delete(b.taint, k)
				} else {
					b.taint[k] = d - 1
				}
			}
			b.stages = b.stages[:n-1]
			b.logf("%s h%d", op.K, h)
		case "len", "size", "dirty", "onflushing":
			b.doProbe(op.K)
		}
		b.checkOnFlushing()
	}
	// end of the program: drain (unless the transaction already failed)
	b.step = len(sc.Ops)
	if !b.surfaced && len(b.viol) == 0 {
		for len(b.handles) > 0 {
			h := b.handles[len(b.handles)-1]
			b.handles = b.handles[:len(b.handles)-1]
			b.db.Release(h)
			n := len(b.stages)
			b.stages[n-2] = b.stages[n-1]
			b.stages = b.stages[:n-1]
		}
		b.logf("end of program: final forced flush")
		b.doFlush(true)
		if !b.surfaced && len(b.viol) == 0 {
			b.doWait("final FlushWait")
		}
		if !b.surfaced && len(b.viol) == 0 {
			// everything is in the store tier now: read it all back through both paths
			var all []string
			seen := map[string]bool{}
			for _, o := range sc.Ops {
				for _, k := range o.Keys {
					if !seen[k] {
						seen[k] = true
						all = append(all, k)
					}
				}
			}
			sort.Strings(all)
			if len(all) > 0 {
				b.doBatchGet(BufOp{K: "bget", Keys: all})
				for _, k := range all {
					b.doGet(BufOp{K: "get", Keys: []string{k}})
				}
			}
			b.stats["end.fully-flushed"]++
		}
	}
	// make sure no goroutine of the library is left parked (more than one can only exist with a broken library)
	for round := 0; round < 20; round++ {
		progress := false
		b.mu.Lock()
		var parked []*flight
		for _, f := range b.flights {
			if f.parked {
				parked = append(parked, f)
			}
		}
		b.mu.Unlock()
		for _, f := range parked {
			if f == b.inflight {
				b.finishFlight("end of run")
			} else {
				close(f.release)
				synctest.Wait()
			}
			progress = true
		}
		if b.db.VerifDrain() {
			progress = true
		}
		synctest.Wait()
		if !progress {
			break
		}
	}
	if !b.surfaced && len(b.viol) == 0 {
		b.mu.Lock()
		for _, f := range b.flights {
			if f.err != nil {
				b.violate("flush-error-swallowed", "never-reported", "the flush of generation %d failed (%v) but no Flush / FlushWait call reported an error", f.gen, f.err)
			}
		}
		b.mu.Unlock()
	}
	b.stats["getter.calls"] += b.getterCalls
	b.stats["flights"] += len(b.flights)
	b.stats["overlap.reads-during-flush"] += overlapReads
	b.stats["overlap.writes-during-flush"] += overlapWrites
	if b.surfaced {
		b.stats["end.flush-error-surfaced"]++
	}
	res.Violations = b.viol
	res.Stats = b.stats
	res.Trace = b.trace
	res.Events = len(b.trace)
	// Nontrivial: a read or a write ran while a flush was in flight, or a flush failure surfaced.
	res.Nontrivial = overlapReads+overlapWrites > 0 || b.surfaced
	res.Sample = map[string]any{"thresholds": sc.Th, "ops": len(sc.Ops), "flushes": len(b.flights), "reads_during_flush": overlapReads, "writes_during_flush": overlapWrites, "flush_error_surfaced": b.surfaced}
	if len(b.viol) > 0 || dump {
		res.Log = b.log
	}
}

func (b *bufRun) checkOnFlushing() {
	got := b.db.OnFlushing()
	want := b.flightRunning()
	if got != want && len(b.viol) == 0 {
		b.violate("onflushing-mismatch", "flag", "OnFlushing() = %v although a flush in flight = %v", got, want)
	}
}

func (b *bufRun) doWrite(op BufOp) {
	k := op.Keys[0]
	staged := len(b.stages) > 1
	kind := op.K
	if staged && (kind == "insert" || kind == "lock") {
		kind = map[string]string{"insert": "set", "lock": "skip"}[kind]
	}
	if kind == "skip" {
		return
	}
	r, ok := b.runOp(kind, func() opResult {
		switch kind {
		case "set":
			return opResult{err: b.db.Set([]byte(k), []byte(op.Val))}
		case "insert":
			return opResult{err: b.db.SetWithFlags([]byte(k), []byte(op.Val), kv.SetPresumeKeyNotExists)}
		case "del":
			return opResult{err: b.db.Delete([]byte(k))}
		case "setempty":
			return opResult{err: b.db.Set([]byte(k), nil)}
		case "lock":
			b.db.UpdateFlags([]byte(k), kv.SetKeyLocked)
		}
		return opResult{}
	})
	if !ok {
		return
	}
	if r.panicV != nil {
		b.violate("panic", kind, "%s %q panicked: %v", kind, k, r.panicV)
		return
	}
	b.logf("%s %s %s -> %v", kind, k, op.Val, r.err)
	if kind == "setempty" {
		if r.err == nil {
			b.violate("write-accepted", "empty-value", "Set(%q, empty) was accepted", k)
		}
		return
	}
	if r.err != nil {
		b.violate("write-failed", kind, "%s(%q) failed: %v", kind, k, r.err)
		return
	}
	e := b.top()[k]
	switch kind {
	case "set", "insert":
		e.Has, e.Del, e.Val = true, false, op.Val
	case "del":
		e.Has, e.Del, e.Val = true, true, ""
	case "lock":
		e.Locked = true
	}
	b.top()[k] = e
	b.wrote = true
}

func (b *bufRun) doGet(op BufOp) {
	k := op.Keys[0]
	local := op.K == "getlocal"
	calls := b.getterCalls
	r, ok := b.runOp(op.K, func() opResult {
		if local {
			v, err := b.db.GetLocal(b.ctx, []byte(k))
			return opResult{val: v, err: err}
		}
		v, err := b.db.Get(b.ctx, []byte(k))
		return opResult{val: v.Value, err: err}
	})
	if !ok {
		return
	}
	if r.panicV != nil {
		b.violate("panic", op.K, "%s %q panicked: %v", op.K, k, r.panicV)
		return
	}
	want, level, found := b.lookup(k, local)
	b.logf("%s %s -> %q err=%v (model: %v at %q)", op.K, k, r.val, r.err, want, level)
	if found {
		b.stats["read.level."+level]++
		if level == "flushed" && b.getterCalls == calls {
			b.stats["read.served-by-cache"]++
		}
	} else {
		b.stats["read.level.none"]++
	}
	class := "read-mismatch"
	if local {
		class = "getlocal-mismatch"
	}
	b.compareRead(class, op.K, k, want, level, found, r.val, r.err, r.err == nil)
}

// compareRead judges one key of a read. present: the read returned an entry for the key.
func (b *bufRun) compareRead(class, op, k string, want ent, level string, found bool, val []byte, err error, present bool) {
	if err != nil && !tikverr.IsErrNotFound(err) {
		b.violate(class, op+"-error", "%s(%q) failed: %v", op, k, err)
		return
	}
	if b.stale[k] {
		// same verdicts, one signature: the witness of the "batch-get cache survives Cleanup" defect
		n := len(b.viol)
		defer func() {
			if len(b.viol) > n {
				b.viol[n].Sig = "staged-value-cached-by-batchget-then-cleanup"
				b.viol[n].Detail = "(the key's value was returned by a BatchGet while it was written inside a staging level; that level was then discarded by Cleanup; no Flush call since) " + b.viol[n].Detail
			}
		}()
	}
	switch {
	case !found:
		if present {
			b.violate(class, op+"-phantom", "%s(%q) returned %q although the transaction never wrote the key", op, k, val)
		}
	case want.Del:
		// a deletion hides earlier values at every level: the buffer reports it as an empty value
		if !present {
			b.violate(class, op+"-delete-lost", "%s(%q) reports no entry although the transaction deleted the key (deletion at level %q): an earlier value or the snapshot would show through", op, k, level)
		} else if len(val) != 0 {
			b.violate(class, op+"-delete-hidden", "%s(%q) returned %q although the transaction's latest write is a deletion (level %q)", op, k, val, level)
		}
	default:
		if !present {
			b.violate(class, op+"-lost", "%s(%q) found nothing, the transaction's latest write is %q (level %q)", op, k, want.Val, level)
		} else if string(val) != want.Val {
			b.violate(class, op+"-stale", "%s(%q) returned %q, the transaction's latest write is %q (level %q)", op, k, val, want.Val, level)
		}
	}
}

func (b *bufRun) doBatchGet(op BufOp) {
	var ks [][]byte
	for _, k := range op.Keys {
		ks = append(ks, []byte(k))
	}
	calls := b.getterCalls
	r, ok := b.runOp("bget", func() opResult {
		m, err := b.db.BatchGet(b.ctx, ks)
		return opResult{m: m, err: err}
	})
	if !ok {
		return
	}
	if r.panicV != nil {
		b.violate("panic", "bget", "BatchGet %v panicked: %v", op.Keys, r.panicV)
		return
	}
	if r.err != nil {
		b.violate("read-mismatch", "bget-error", "BatchGet(%v) failed: %v", op.Keys, r.err)
		return
	}
	var sb strings.Builder
	for _, k := range simkit.SortedKeys(r.m) {
		fmt.Fprintf(&sb, "%s=%q ", k, r.m[k].Value)
	}
	b.logf("bget %v -> %s", op.Keys, sb.String())
	if b.getterCalls != calls {
		b.stats["bget.reached-store"]++
	}
	for _, k := range op.Keys {
		want, level, found := b.lookup(k, false)
		v, present := r.m[k]
		if found {
			b.stats["read.level."+level]++
		}
		if d := len(b.stages) - 1; d > 0 && b.top()[k] != b.stages[0][k] {
			b.taint[k] = d
		}
		b.compareRead("read-mismatch", "bget", k, want, level, found, v.Value, nil, present)
	}
	for k := range r.m {
		in := false
		for _, q := range op.Keys {
			if q == k {
				in = true
			}
		}
		if !in {
			b.violate("read-mismatch", "bget-extra", "BatchGet(%v) returned key %q that was not asked for", op.Keys, k)
		}
	}
}

func (b *bufRun) doFlush(force bool) {
	name := "Flush(false)"
	if force {
		name = "Flush(true)"
	}
	staged := len(b.stages) > 1
	base, _ := liveCount(b.stages[0])
	runningBefore := b.flightRunning()
	predict := force || (uint64(base) >= b.minKeys && !runningBefore)
	r, ok := b.runOp(name, func() opResult {
		f, err := b.db.Flush(force)
		return opResult{flushed: f, err: err}
	})
	if !ok {
		return
	}
	if r.panicV != nil {
		b.violate("panic", name, "%s panicked: %v", name, r.panicV)
		return
	}
	b.logf("%s -> flushed=%v err=%v (buffered %d, min keys %d, flush running %v, staged %v)", name, r.flushed, r.err, base, b.minKeys, runningBefore, staged)
	b.taint, b.stale = map[string]int{}, map[string]bool{}
	if c := b.db.VerifCacheLen(); c >= 0 {
		b.stats["probe.cache-not-dropped-by-flush"]++ // not judged: only what reads return is
	}
	switch {
	case staged:
		if r.err == nil || r.flushed {
			b.violate("flush-in-stage", "accepted", "%s was accepted (flushed=%v err=%v) while a staging level was open", name, r.flushed, r.err)
		}
		b.stats["flush.refused-staging"]++
	case r.err != nil:
		g := b.flying
		want := b.consume()
		if want == nil {
			b.violate("spurious-flush-error", name, "%s returned %v although no flush has failed", name, r.err)
			return
		}
		if r.flushed {
			b.violate("flush-error-wrong", "flushed-with-error", "%s reported both a triggered flush and error %v", name, r.err)
		}
		b.checkSurfaced(name, want, r.err, g)
		b.surfaced = true
		b.stats["flush.error-surfaced-by-flush"]++
	case r.flushed:
		if g := b.flying; g != nil {
			if want := b.consume(); want != nil {
				b.violate("flush-error-swallowed", name, "%s started the next flush although the flush of generation %d had failed with %v: the failure is lost and so are its writes", name, g.gen, want)
				return
			}
		}
		if !force && b.predictable && !predict {
			b.violate("threshold-mismatch", "flushed-early", "%s flushed with %d buffered keys (min flush keys %d, flush running before the call: %v)", name, base, b.minKeys, runningBefore)
		}
		b.afterTrigger(force)
	default:
		if force {
			b.violate("threshold-mismatch", "forced-not-flushed", "%s did not flush", name)
		} else if b.predictable && predict {
			b.violate("threshold-mismatch", "not-flushed", "%s did not flush although %d keys are buffered (min flush keys %d) and no flush is running", name, base, b.minKeys)
		}
		b.stats["flush.not-triggered"]++
	}
}

func (b *bufRun) doWait(name string) {
	r, ok := b.runOp(name, func() opResult { return opResult{err: b.db.FlushWait()} })
	if !ok {
		return
	}
	if r.panicV != nil {
		b.violate("panic", name, "%s panicked: %v", name, r.panicV)
		return
	}
	b.logf("%s -> %v", name, r.err)
	g := b.flying
	want := b.consume()
	if want == nil {
		if r.err != nil {
			b.violate("spurious-flush-error", name, "%s returned %v although no flush has failed", name, r.err)
		}
		return
	}
	if r.err == nil {
		b.violate("flush-error-swallowed", name, "%s returned nil although the flush of generation %d had failed with %v", name, g.gen, want)
		return
	}
	b.checkSurfaced(name, want, r.err, g)
	b.surfaced = true
	b.stats["flush.error-surfaced-by-wait"]++
}

func (b *bufRun) doProbe(kind string) {
	n, sz := liveCount(b.top())
	switch kind {
	case "len":
		got := b.db.Len()
		b.logf("Len -> %d", got)
		if got != n+b.handedCount {
			b.violate("counter-mismatch", "len", "Len() = %d, the transaction holds %d buffered entries and handed %d entries to flushes", got, n, b.handedCount)
		}
	case "size":
		got := b.db.Size()
		b.logf("Size -> %d", got)
		if got != sz+b.handedSize {
			b.violate("counter-mismatch", "size", "Size() = %d, buffered entries take %d bytes and %d bytes were handed to flushes", got, sz, b.handedSize)
		}
	case "dirty":
		got := b.db.Dirty()
		b.logf("Dirty -> %v", got)
		base, _ := liveCount(b.stages[0])
		if !got && (base > 0 && len(b.stages) == 1 || b.handedCount > 0) {
			b.violate("counter-mismatch", "dirty", "Dirty() = false although the transaction buffered %d and flushed %d entries (a commit would be skipped)", base, b.handedCount)
		}
		if got && !b.wrote {
			b.violate("counter-mismatch", "dirty", "Dirty() = true although nothing was written")
		}
	case "onflushing":
		// checked after every operation
	}
}
