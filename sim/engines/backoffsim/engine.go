// Package backoffsim is the simulation engine of property C20: the real
// retry.Backoffer runs inside a testing/synctest bubble (its time.After sleeps are
// simulated time), driven by generated programs of back-offs, clones, forks,
// merges and resets with a canceller and a killer acting at seed-chosen
// simulated instants; a small model of the accounting judges every call.
package backoffsim

import (
	"crypto/sha1"
	"encoding/hex"
	"encoding/json"
	"math/rand"
	"os"
	"sort"
	"strings"
	"testing"
	"time"

	"github.com/tikv/client-go/v2/verifsim/simkit"
)

// Engine implements simkit.Engine.
type Engine struct{}

// LightRuns: tiny runs without pooled library objects (see simkit.RunOne).
func (Engine) LightRuns() bool { return true }

// Name implements simkit.Engine.
func (Engine) Name() string { return "backoffsim" }

// Decode implements simkit.Engine.
func (Engine) Decode(raw json.RawMessage) (any, error) {
	var sc Scenario
	if err := json.Unmarshal(raw, &sc); err != nil {
		return nil, err
	}
	return &sc, nil
}

// Generate implements simkit.Engine.
func (Engine) Generate(cfg simkit.RunConfig) (any, bool) {
	switch cfg.Mode {
	case "", "seq":
		return generate(cfg, "seq"), true
	case "forks":
		return generate(cfg, "forks"), true
	}
	panic("backoffsim: unknown mode " + cfg.Mode)
}

// Prepare implements simkit.Preparer: the jitter of the code under test draws from the
// global math/rand source, which is seeded per run (outside the bubble).
func (Engine) Prepare(cfg simkit.RunConfig, scenario any) {
	rand.Seed(scenario.(*Scenario).RandSeed)
}

// Cleanup implements simkit.Preparer.
func (Engine) Cleanup(cfg simkit.RunConfig, scenario any) {}

// Shrink implements simkit.Engine.
func (Engine) Shrink(scenario any) []any { return shrink(scenario.(*Scenario)) }

// Execute implements simkit.Engine (inside the bubble).
func (Engine) Execute(t *testing.T, cfg simkit.RunConfig, scenario any) *simkit.RunResult {
	sc := scenario.(*Scenario)
	r := newRun(sc)
	r.execute()
	res := &simkit.RunResult{Stats: r.stats}
	res.SimTime = time.Duration(r.now())
	sort.Slice(r.events, func(i, j int) bool { return lessEv(r.events[i], r.events[j]) })
	sort.Slice(r.viols, func(i, j int) bool { return lessEv(r.viols[i].event, r.viols[j].event) })
	res.Events = len(r.events)
	lines := make([]string, 0, len(r.events))
	trace := make([]string, 0, len(r.events))
	for _, e := range r.events {
		l := fmtNs(e.t) + " g" + itoa(e.gid) + " " + e.text
		lines = append(lines, l+e.extra)
		if !e.viol {
			trace = append(trace, l)
		}
	}
	res.Trace = trace
	h := sha1.Sum([]byte(strings.Join(trace, "\n")))
	res.SchedHash = hex.EncodeToString(h[:8])
	for _, v := range r.viols {
		res.Violations = append(res.Violations, v.v)
	}
	// Nontrivial: at least two calls really slept; in mode forks additionally at least one
	// group of >= 2 concurrent members ran.
	res.Nontrivial = r.stats["calls.slept"] >= 2 && (sc.Mode != "forks" || r.stats["group.concurrent"] >= 1)
	res.Stats["runs.budget-unlimited"] = b2i(sc.Budget == 0)
	res.Stats["runs.with-cancel"] = b2i(sc.CancelAtUs >= 0)
	res.Stats["runs.with-kill"] = b2i(sc.KillAtUs >= 0)
	res.Stats["runs.refused-some-call"] = b2i(r.stats["calls.refused"] > 0)
	if len(res.Violations) > 0 || os.Getenv("VERIF_DUMP") != "" {
		res.Log = lines
	}
	res.Sample = map[string]any{
		"mode": sc.Mode, "budget": sc.Budget, "weight": sc.Weight, "own": sc.Own, "top_steps": len(sc.Steps),
		"cancel_at_us": sc.CancelAtUs, "cancel_target": sc.CancelTarget, "kill_at_us": sc.KillAtUs,
		"calls": r.stats["calls"], "slept": r.stats["calls.slept"], "refused": r.stats["calls.refused"], "merges": r.stats["merge"],
		"sim_ms": res.SimTime.Milliseconds(), "sched_hash": res.SchedHash,
	}
	return res
}

func lessEv(a, b event) bool {
	if a.t != b.t {
		return a.t < b.t
	}
	if a.depth != b.depth {
		return a.depth > b.depth
	}
	if a.gid != b.gid {
		return a.gid < b.gid
	}
	return a.seq < b.seq
}

func itoa(n int) string {
	b, _ := json.Marshal(n)
	return string(b)
}

func b2i(b bool) int {
	if b {
		return 1
	}
	return 0
}
