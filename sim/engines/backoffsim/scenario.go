package backoffsim

import (
	"encoding/json"
	"fmt"
	"math/rand"
	"strings"

	"github.com/tikv/client-go/v2/config/retry"
	"github.com/tikv/client-go/v2/verifsim/simkit"
)

// OwnCfg is a back-off kind made by the harness with retry.NewConfig, so that its
// base / cap / jitter are inputs of the run and not constants of the library.
type OwnCfg struct {
	Name   string `json:"name"`
	Base   int    `json:"base"`
	Cap    int    `json:"cap"`
	Jitter int    `json:"jitter"` // retry.NoJitter .. retry.DecorrJitter
}

// Step is one node of the program tree.
//
//	bo       Rep times: Backoff (Via "B"), BackoffWithCfgAndMaxSleep (Via "C", per-call maximum Max,
//	         -1 = none) or BackoffWithMaxSleepTxnLockFast (Via "L") of kind Kind
//	gap      the caller does something else for Ms simulated milliseconds
//	reset    Reset()
//	resetmax ResetMaxSleep(Ms)
//	clone    c := Clone(); Steps run on c (same goroutine); the original goes on afterwards
//	group    the library's fork discipline: Members run concurrently on their own goroutines while the
//	         parent waits; Style "A": every member is parent.Fork(); "B": mid := parent.Fork(), every
//	         member is mid.Fork() (nested; merged into the grand-parent); "C": mid := parent.Fork(),
//	         members are mid.Clone() and, the last one, mid itself. When all members have returned and
//	         Merge is set, the parent calls UpdateUsingForked(the member that finished last).
type Step struct {
	Op      string   `json:"op"`
	Kind    string   `json:"kind,omitempty"`
	Via     string   `json:"via,omitempty"`
	Max     int      `json:"max"`
	Rep     int      `json:"rep,omitempty"`
	Ms      int      `json:"ms,omitempty"`
	Steps   []Step   `json:"steps,omitempty"`
	Style   string   `json:"style,omitempty"`
	Members []Member `json:"members,omitempty"`
	Merge   bool     `json:"merge,omitempty"`
}

// Member is one concurrent user of a forked back-offer.
type Member struct {
	Delay int    `json:"delay"` // ms after the fork before its first step
	Steps []Step `json:"steps"`
}

// Scenario is one explicit program.
type Scenario struct {
	Mode     string   `json:"mode"`
	Budget   int      `json:"budget"`   // NewBackofferWithVars(ctx, Budget, vars)
	Weight   int      `json:"weight"`   // vars.BackOffWeight
	LockFast int      `json:"lockfast"` // vars.BackoffLockFast
	Own      []OwnCfg `json:"own"`
	Steps    []Step   `json:"steps"`
	// CancelAtUs: simulated instant (µs after start, always x.5 ms) at which CancelTarget is cancelled
	// ("root" = the root context, otherwise the label of a fork's cancel function); -1 = never.
	CancelAtUs   int64  `json:"cancel_at_us"`
	CancelTarget string `json:"cancel_target,omitempty"`
	// KillAtUs: instant (always x.7 ms) at which KillVal is stored into vars.Killed; -1 = never.
	KillAtUs int64  `json:"kill_at_us"`
	KillVal  uint32 `json:"kill_val,omitempty"`
	RandSeed int64  `json:"rand_seed"` // math/rand seed (jitter)
}

// exportedCfgs are the library's own kinds used by the programs.
var exportedCfgs = []*retry.Config{
	retry.BoTiKVRPC, retry.BoTiFlashRPC, retry.BoTxnLock, retry.BoPDRPC, retry.BoRegionMiss,
	retry.BoRegionScheduling, retry.BoTiKVServerBusy, retry.BoTiKVDiskFull, retry.BoRegionRecoveryInProgress,
	retry.BoTiFlashServerBusy, retry.BoTxnNotFound, retry.BoStaleCmd, retry.BoMaxTsNotSynced,
	retry.BoCommitTSLag, retry.BoMaxRegionNotInitialized, retry.BoIsWitness, retry.BoTxnLockFast,
}

// kindParams describes a kind for the generator's duration estimate and for the oracle.
type kindParams struct {
	name      string
	base, cap int
	jitter    int
	exclLimit int // -1: counted in the budget
	own       bool
}

func excludedLimit(name string) int {
	if l, ok := retry.VerifSleepExcluded()[name]; ok {
		return l
	}
	return -1
}

func kindTable(sc *Scenario) map[string]*kindParams {
	out := map[string]*kindParams{}
	for _, c := range exportedCfgs {
		kp := &kindParams{name: c.String(), base: c.Base(), cap: retry.VerifConfigCap(c), jitter: retry.VerifConfigJitter(c), exclLimit: excludedLimit(c.String())}
		if c == retry.BoTxnLockFast {
			kp.base = sc.LockFast
		}
		out[kp.name] = kp
	}
	for _, o := range sc.Own {
		out[o.Name] = &kindParams{name: o.Name, base: o.Base, cap: o.Cap, jitter: o.Jitter, exclLimit: excludedLimit(o.Name), own: true}
	}
	return out
}

var (
	budgets  = []int{0, 1, 2, 10, 50, 100, 300, 1000, 5000, 20000, 100000, 400000, 700000}
	perCall  = []int{0, 1, 5, 50, 500, 5000}
	ownBases = []int{0, 1, 2, 3, 10, 50, 100, 1000, 4000}
)

type genState struct {
	rng     *rand.Rand
	sc      *Scenario
	kinds   []string // kinds used by this program
	forks   bool
	long    bool
	members int
}

// tinyAlphabet: the step types of the enumerated tiny programs (mode seq, every 2nd run).
func tinyAlphabet() []Step {
	busy, lockFast := retry.BoTiKVServerBusy.String(), retry.BoTxnLockFast.String()
	return []Step{
		{Op: "bo", Kind: "own0", Via: "B", Max: -1, Rep: 1},
		{Op: "bo", Kind: "own0", Via: "C", Max: 1, Rep: 1},
		{Op: "bo", Kind: "own1", Via: "B", Max: -1, Rep: 1},
		{Op: "bo", Kind: "own1", Via: "C", Max: 0, Rep: 1},
		{Op: "bo", Kind: busy, Via: "C", Max: 2, Rep: 1},
		{Op: "bo", Kind: lockFast, Via: "L", Max: 1, Rep: 1},
		{Op: "reset", Max: -1},
		{Op: "resetmax", Max: -1, Ms: 2},
		{Op: "clone", Max: -1, Steps: []Step{{Op: "bo", Kind: "own0", Via: "B", Max: -1, Rep: 2}}},
		{Op: "gap", Max: -1, Ms: 1},
	}
}

// generateTiny enumerates (not samples) small sequential programs: run number n of the
// enumeration = (budget, weight) combination n%12 and the (n/12)-th sequence over
// tinyAlphabet in length-then-lexicographic order, on jitter-free kinds with sleeps of 2-4 ms,
// so that every boundary (slept == budget, per-call maximum 0/1, reset at the limit) is met.
// Cancellation and kill instants stay seeded.
func generateTiny(cfg simkit.RunConfig, n int) *Scenario {
	rng := simkit.Rand(cfg.Seed, "gen-tiny")
	sc := &Scenario{Mode: "seq", CancelAtUs: -1, KillAtUs: -1, LockFast: 2}
	sc.RandSeed = int64(simkit.NewHasher(cfg.Seed, "jitter").U64("seed") >> 1)
	combo, seq := n%12, n/12
	sc.Budget = []int{0, 1, 2, 3, 5, 8}[combo%6]
	sc.Weight = 1 + combo/6
	sc.Own = []OwnCfg{{Name: "own0", Base: 2, Cap: 4, Jitter: retry.NoJitter}, {Name: "own1", Base: 3, Cap: 3, Jitter: retry.NoJitter}, {Name: "own2", Base: 2, Cap: 2, Jitter: retry.FullJitter}}
	alpha := tinyAlphabet()
	length, pow := 1, len(alpha)
	for seq >= pow && length < 7 {
		seq -= pow
		length++
		pow *= len(alpha)
	}
	seq %= pow
	for i := 0; i < length; i++ {
		sc.Steps = append(sc.Steps, alpha[seq%len(alpha)])
		seq /= len(alpha)
	}
	dur, _ := estimate(sc)
	if rng.Intn(100) < 30 {
		sc.CancelAtUs = int64(rng.Intn(int(dur)+2))*1000 + 500
		sc.CancelTarget = "root"
	}
	if rng.Intn(100) < 20 {
		sc.KillAtUs = int64(rng.Intn(int(dur)+2))*1000 + 700
		sc.KillVal = uint32(1 + rng.Intn(4))
	}
	return sc
}

func generate(cfg simkit.RunConfig, mode string) *Scenario {
	if mode == "seq" && cfg.Index%2 == 0 {
		return generateTiny(cfg, cfg.Index/2)
	}
	rng := simkit.Rand(cfg.Seed, "gen")
	sc := &Scenario{Mode: mode, CancelAtUs: -1, KillAtUs: -1}
	sc.RandSeed = int64(simkit.NewHasher(cfg.Seed, "jitter").U64("seed") >> 1)
	// systematic sweep over budget x weight x jitter of the first own kind; the rest is seeded
	idx := cfg.Index
	sc.Budget = budgets[idx%len(budgets)]
	sc.Weight = 1 + (idx/len(budgets))%3
	sc.LockFast = []int{0, 1, 2, 10, 100}[rng.Intn(5)]
	g := &genState{rng: rng, sc: sc, forks: mode == "forks"}
	eff := sc.Budget * sc.Weight
	g.long = eff >= 20000 && rng.Intn(4) != 0 || rng.Intn(12) == 0
	exclHeavy := rng.Intn(7) == 0 || (eff >= 100000 && rng.Intn(3) == 0)

	for i := 0; i < 3; i++ {
		base := ownBases[rng.Intn(len(ownBases))]
		if g.long && i == 0 {
			base = []int{1000, 4000}[rng.Intn(2)]
		}
		lo := base
		if lo < 2 {
			lo = 2 // the library raises a base below 2 to 2; a cap below the base is a misuse (rand.Intn panics)
		}
		cp := lo * []int{1, 2, 4, 10, 64}[rng.Intn(5)]
		j := 1 + rng.Intn(4)
		if i == 0 {
			j = 1 + (idx/(len(budgets)*3))%4
		}
		sc.Own = append(sc.Own, OwnCfg{Name: fmt.Sprintf("own%d", i), Base: base, Cap: cp, Jitter: j})
	}
	// kinds of this program
	pool := []string{"own0", "own1", "own2"}
	nk := 2 + rng.Intn(3)
	seen := map[string]bool{}
	add := func(k string) {
		if !seen[k] {
			seen[k] = true
			g.kinds = append(g.kinds, k)
		}
	}
	add("own0")
	if exclHeavy {
		add(retry.BoTiKVServerBusy.String())
	}
	for len(g.kinds) < nk {
		switch r := rng.Intn(100); {
		case r < 45:
			add(pool[rng.Intn(3)])
		case r < 60:
			add(retry.BoTiKVServerBusy.String())
		case r < 72:
			add(retry.BoTxnLockFast.String())
		default:
			add(exportedCfgs[rng.Intn(len(exportedCfgs))].String())
		}
	}
	n := 3 + rng.Intn(10)
	sc.Steps = g.steps(n, 0, exclHeavy)
	if g.forks && !hasGroup(sc.Steps) {
		at := rng.Intn(len(sc.Steps) + 1)
		grp := g.group(0)
		sc.Steps = append(sc.Steps[:at], append([]Step{grp}, sc.Steps[at:]...)...)
	}
	// cancellation and kill instants, relative to a rough estimate of the program's duration
	dur, live := estimate(sc)
	if dur < 2 {
		dur = 2
	}
	if rng.Intn(100) < 45 {
		sc.CancelAtUs = int64(rng.Float64()*1.1*float64(dur))*1000 + 500
		sc.CancelTarget = "root"
		if hs := cancelHandles(sc); len(hs) > 0 && rng.Intn(100) < 65 {
			sc.CancelTarget = hs[rng.Intn(len(hs))]
			iv := live[sc.CancelTarget]
			sc.CancelAtUs = (iv[0]+int64(rng.Float64()*1.05*float64(iv[1]-iv[0]+1)))*1000 + 500
		}
	}
	if rng.Intn(100) < 25 {
		sc.KillAtUs = int64(rng.Float64()*1.1*float64(dur))*1000 + 700
		sc.KillVal = uint32(1 + rng.Intn(4))
	}
	return sc
}

func (g *genState) boStep(exclHeavy bool) Step {
	rng := g.rng
	k := g.kinds[rng.Intn(len(g.kinds))]
	if exclHeavy && rng.Intn(2) == 0 {
		k = retry.BoTiKVServerBusy.String()
	}
	st := Step{Op: "bo", Kind: k, Via: "B", Max: -1, Rep: 1 + rng.Intn(3)}
	if rng.Intn(100) < 40 {
		st.Via = "C"
		st.Max = perCall[rng.Intn(len(perCall))]
		if rng.Intn(6) == 0 {
			st.Max = -1
		}
	}
	if k == retry.BoTxnLockFast.String() && rng.Intn(2) == 0 {
		st.Via = "L"
		st.Max = perCall[rng.Intn(len(perCall))]
	}
	if g.long && rng.Intn(2) == 0 {
		st.Rep = 10 + rng.Intn(70)
	}
	if exclHeavy && k == retry.BoTiKVServerBusy.String() && rng.Intn(2) == 0 {
		st.Rep = 40 + rng.Intn(100)
	}
	return st
}

func (g *genState) steps(n, depth int, exclHeavy bool) []Step {
	rng := g.rng
	var out []Step
	for i := 0; i < n; i++ {
		r := rng.Intn(100)
		switch {
		case r < 8:
			out = append(out, Step{Op: "gap", Max: -1, Ms: 1 + rng.Intn(200)})
		case r < 15 && depth < 2:
			out = append(out, Step{Op: "clone", Max: -1, Steps: g.steps(1+rng.Intn(4), depth+1, exclHeavy)})
		case r < 18 && i > 0:
			// the back-offer is given a new context of its own (not derived from the old one), after it has been used
			out = append(out, Step{Op: "setctx", Max: -1})
		case r < 21:
			out = append(out, Step{Op: "reset", Max: -1})
		case r < 27:
			out = append(out, Step{Op: "resetmax", Max: -1, Ms: budgets[rng.Intn(len(budgets))]})
		case r < 45 && g.forks && depth < 2 && g.members < 24:
			out = append(out, g.group(depth))
		default:
			out = append(out, g.boStep(exclHeavy))
		}
	}
	return out
}

func (g *genState) group(depth int) Step {
	rng := g.rng
	st := Step{Op: "group", Max: -1, Style: []string{"A", "A", "B", "C"}[rng.Intn(4)], Merge: rng.Intn(100) < 85}
	nm := 1 + rng.Intn(4)
	for j := 0; j < nm; j++ {
		g.members++
		st.Members = append(st.Members, Member{Delay: rng.Intn(20), Steps: g.steps(1+rng.Intn(5), depth+1, false)})
	}
	return st
}

func hasGroup(steps []Step) bool {
	for _, s := range steps {
		if s.Op == "group" {
			return true
		}
	}
	return false
}

// cancelHandles lists the labels of the fork cancel functions a program creates.
func cancelHandles(sc *Scenario) []string {
	var out []string
	var walk func(label string, steps []Step)
	walk = func(label string, steps []Step) {
		for i, s := range steps {
			switch s.Op {
			case "setctx":
				out = append(out, fmt.Sprintf("%s/%dx", label, i))
			case "clone":
				walk(fmt.Sprintf("%s/%dc", label, i), s.Steps)
			case "group":
				if s.Style != "A" {
					out = append(out, fmt.Sprintf("%s/%dm", label, i))
				}
				for j, m := range s.Members {
					ml := memberLabel(label, i, j, &s)
					if s.Style == "A" || s.Style == "B" {
						out = append(out, ml)
					}
					walk(ml, m.Steps)
				}
			}
		}
	}
	walk("r", sc.Steps)
	return out
}

func memberLabel(parent string, step, j int, s *Step) string {
	if s.Style == "C" && j == len(s.Members)-1 {
		return fmt.Sprintf("%s/%dm", parent, step)
	}
	return fmt.Sprintf("%s/%d.%d", parent, step, j)
}

// estimate returns a rough duration (ms) of the program and, per fork cancel handle, the
// estimated interval in which it is live: expected sleeps without jitter, clipped by the
// per-call maximum and by the budget. Only used to place the cancellation and kill instants
// where something is going on.
func estimate(sc *Scenario) (int64, map[string][2]int64) {
	kt := kindTable(sc)
	live := map[string][2]int64{}
	type acct struct {
		att    map[string]int
		slept  int64
		budget int64
	}
	fresh := func(a acct) acct { return acct{att: map[string]int{}, slept: a.slept, budget: a.budget} }
	var walk func(a acct, steps []Step, label string, t int64) (int64, acct)
	walk = func(a acct, steps []Step, label string, t int64) (int64, acct) {
		var ctxSince []struct {
			l string
			t int64
		}
		defer func() {
			for _, c := range ctxSince {
				live[c.l] = [2]int64{c.t, t}
			}
		}()
		for i, s := range steps {
			switch s.Op {
			case "setctx":
				ctxSince = append(ctxSince, struct {
					l string
					t int64
				}{fmt.Sprintf("%s/%dx", label, i), t})
			case "gap":
				t += int64(s.Ms)
			case "reset":
				a.att, a.slept = map[string]int{}, 0
			case "resetmax":
				a.att, a.slept, a.budget = map[string]int{}, 0, int64(s.Ms*sc.Weight)
			case "clone":
				t, _ = walk(fresh(a), s.Steps, fmt.Sprintf("%s/%dc", label, i), t)
			case "group":
				mx := t
				var last acct
				for j, m := range s.Members {
					ml := memberLabel(label, i, j, &s)
					e, ma := walk(fresh(a), m.Steps, ml, t+int64(m.Delay))
					live[ml] = [2]int64{t, e}
					if e >= mx {
						mx, last = e, ma
					}
				}
				live[fmt.Sprintf("%s/%dm", label, i)] = [2]int64{t, mx}
				t = mx
				if s.Merge && last.att != nil {
					a.slept = last.slept
				}
			case "bo":
				kp := kt[s.Kind]
				if kp == nil {
					continue
				}
				for r := 0; r < s.Rep; r++ {
					if a.budget > 0 && kp.exclLimit < 0 && a.slept >= a.budget {
						break
					}
					base := kp.base
					if base < 2 {
						base = 2
					}
					n := a.att[s.Kind]
					v := int64(kp.cap)
					if n < 30 && int64(base)<<uint(n) < v {
						v = int64(base) << uint(n)
					}
					if kp.jitter != retry.NoJitter {
						v = v * 3 / 4
					}
					if s.Max >= 0 && v > int64(s.Max) {
						v = int64(s.Max)
					}
					a.att[s.Kind] = n + 1
					t += v
					if kp.exclLimit < 0 {
						a.slept += v
					}
				}
			}
		}
		return t, a
	}
	d, _ := walk(acct{att: map[string]int{}, budget: int64(sc.Budget * sc.Weight)}, sc.Steps, "r", 0)
	return d, live
}

func cloneScenario(sc *Scenario) *Scenario {
	b, _ := json.Marshal(sc)
	var c Scenario
	_ = json.Unmarshal(b, &c)
	return &c
}

// shrink proposes simpler programs: no cancellation, no kill, one step fewer anywhere in
// the tree, one member fewer, one repetition instead of many, a clone body inlined away.
func shrink(sc *Scenario) []any {
	var out []any
	if sc.CancelAtUs >= 0 {
		c := cloneScenario(sc)
		c.CancelAtUs, c.CancelTarget = -1, ""
		out = append(out, c)
	}
	if sc.KillAtUs >= 0 {
		c := cloneScenario(sc)
		c.KillAtUs, c.KillVal = -1, 0
		out = append(out, c)
	}
	// paths to step lists: edits are applied on a deep copy through the same path
	type edit func(list *[]Step) bool
	var paths [][]int // each path: alternating (step index, member index | -1 for clone body)
	var collect func(prefix []int, steps []Step)
	collect = func(prefix []int, steps []Step) {
		paths = append(paths, append([]int{}, prefix...))
		for i, s := range steps {
			if s.Op == "clone" {
				collect(append(append([]int{}, prefix...), i, -1), s.Steps)
			}
			if s.Op == "group" {
				for j, m := range s.Members {
					collect(append(append([]int{}, prefix...), i, j), m.Steps)
				}
			}
		}
	}
	collect(nil, sc.Steps)
	resolve := func(c *Scenario, path []int) *[]Step {
		list := &c.Steps
		for k := 0; k+1 < len(path); k += 2 {
			st := &(*list)[path[k]]
			if path[k+1] < 0 {
				list = &st.Steps
			} else {
				list = &st.Members[path[k+1]].Steps
			}
		}
		return list
	}
	apply := func(path []int, e edit) {
		c := cloneScenario(sc)
		if e(resolve(c, path)) {
			if c.CancelTarget != "" && c.CancelTarget != "root" {
				ok := false
				for _, h := range cancelHandles(c) {
					if h == c.CancelTarget {
						ok = true
					}
				}
				if !ok {
					return // labels moved: the cancellation would hit something else
				}
			}
			out = append(out, c)
		}
	}
	for _, p := range paths {
		list := *resolve(sc, p)
		for i := len(list) - 1; i >= 0; i-- {
			i := i
			apply(p, func(l *[]Step) bool {
				if len(p) == 0 && len(*l) == 1 {
					return false
				}
				*l = append((*l)[:i], (*l)[i+1:]...)
				return true
			})
			s := list[i]
			if s.Op == "bo" && s.Rep > 1 {
				apply(p, func(l *[]Step) bool { (*l)[i].Rep = s.Rep / 2; return true })
			}
			if s.Op == "group" && len(s.Members) > 1 {
				for j := range s.Members {
					j := j
					apply(p, func(l *[]Step) bool {
						m := (*l)[i].Members
						(*l)[i].Members = append(m[:j:j], m[j+1:]...)
						return true
					})
				}
			}
			if s.Op == "bo" && s.Max >= 0 && s.Via == "C" {
				apply(p, func(l *[]Step) bool { (*l)[i].Max = -1; return true })
			}
		}
	}
	return out
}

func describe(sc *Scenario) string {
	var sb strings.Builder
	fmt.Fprintf(&sb, "NewBackofferWithVars(budget=%d, weight=%d, lockfast=%d) own=%v", sc.Budget, sc.Weight, sc.LockFast, sc.Own)
	if sc.CancelAtUs >= 0 {
		fmt.Fprintf(&sb, " cancel %s at %s", sc.CancelTarget, fmtUs(sc.CancelAtUs))
	}
	if sc.KillAtUs >= 0 {
		fmt.Fprintf(&sb, " kill(%d) at %s", sc.KillVal, fmtUs(sc.KillAtUs))
	}
	return sb.String()
}

func fmtUs(us int64) string { return fmt.Sprintf("%d.%03dms", us/1000, us%1000) }
