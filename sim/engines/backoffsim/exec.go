package backoffsim

import (
	"context"
	"fmt"
	"reflect"
	"sort"
	"strings"
	"sync"
	"sync/atomic"
	"time"

	"github.com/pkg/errors"
	"github.com/tikv/client-go/v2/config/retry"
	tikverr "github.com/tikv/client-go/v2/error"
	"github.com/tikv/client-go/v2/kv"
	"github.com/tikv/client-go/v2/verifsim/simkit"
)

const msNs = int64(time.Millisecond)

// kind is a back-off kind of one run: the library object plus what the oracle may know about it.
type kind struct {
	kindParams
	cfg *retry.Config
	err error // error reported when this kind exhausted the budget
}

// ctxNode mirrors the context tree: at = 1 + instant (ns) of the cancellation, 0 = alive.
type ctxNode struct {
	parent *ctxNode
	at     atomic.Int64
}

func (c *ctxNode) cancel(now int64) {
	c.at.CompareAndSwap(0, now+1)
}

// cancelledAt returns the earliest cancellation instant along the chain, -1 when alive.
func (c *ctxNode) cancelledAt() int64 {
	best := int64(-1)
	for n := c; n != nil; n = n.parent {
		if v := n.at.Load(); v != 0 && (best < 0 || v-1 < best) {
			best = v - 1
		}
	}
	return best
}

// handle is a cancel function the canceller may call.
type handle struct {
	cancel context.CancelFunc
	ctx    *ctxNode
	done   bool // the program itself has already released it
}

// shadow is the oracle's model of one back-offer: what it REALLY slept (simulated
// time, ns) along its lineage. Only the goroutine that owns the back-offer touches it.
type shadow struct {
	label    string
	bo       *retry.Backoffer
	ctx      *ctxNode
	budgetMS int64 // effective budget (budget x weight); 0 = no limit

	slept, excl, total   int64            // since the last reset: counted in the budget / excluded / both
	perKind              map[string]int64 // whole life of the lineage
	sinceReset           map[string]int64
	baseDiff             int64 // (model total - library total) when this back-offer was forked/cloned
	resets, resetsAtFork int   // resets along the lineage (a reset restarts the comparison)
	atForkModel          int64 // model total at that moment (ns)
	atForkLib            int   // library total at that moment (ms)
	calls                int
	merged               bool // the lineage has absorbed a fork
	cut                  int  // sleeps of the lineage cut short by a cancellation (since the last reset)
}

func copyMap(m map[string]int64) map[string]int64 {
	out := make(map[string]int64, len(m))
	for k, v := range m {
		out[k] = v
	}
	return out
}

func (s *shadow) child(label string, bo *retry.Backoffer, ctx *ctxNode) *shadow {
	c := &shadow{label: label, bo: bo, ctx: ctx, budgetMS: s.budgetMS, slept: s.slept, excl: s.excl, total: s.total,
		perKind: copyMap(s.perKind), sinceReset: copyMap(s.sinceReset), merged: s.merged, cut: s.cut, resets: s.resets, resetsAtFork: s.resets}
	c.atForkModel, c.atForkLib = c.total, bo.GetTotalSleep()
	c.baseDiff = c.atForkModel - int64(c.atForkLib)*msNs
	return c
}

// absorb: after UpdateUsingForked(parent, f) the parent's accounting is the fork's.
func (s *shadow) absorb(f *shadow) {
	s.slept, s.excl, s.total = f.slept, f.excl, f.total
	s.perKind, s.sinceReset = copyMap(f.perKind), copyMap(f.sinceReset)
	s.merged, s.cut, s.resets = true, f.cut, f.resets
}

func (s *shadow) reset() {
	s.slept, s.excl, s.total, s.cut = 0, 0, 0, 0
	s.resets++
	s.sinceReset = map[string]int64{}
}

// counters is a snapshot of the exported accounting of a back-offer.
type counters struct {
	total, errs int
	sleepMS     map[string]int
	times       map[string]int
}

func snap(bo *retry.Backoffer) counters {
	c := counters{total: bo.GetTotalSleep(), errs: bo.ErrorsNum(), sleepMS: map[string]int{}, times: map[string]int{}}
	for k, v := range bo.GetBackoffSleepMS() {
		c.sleepMS[k] = v
	}
	for k, v := range bo.GetBackoffTimes() {
		c.times[k] = v
	}
	return c
}

func (c counters) equal(o counters) bool {
	return c.total == o.total && c.errs == o.errs && reflect.DeepEqual(c.sleepMS, o.sleepMS) && reflect.DeepEqual(c.times, o.times)
}

func fmtIntMap(m map[string]int) string {
	ks := make([]string, 0, len(m))
	for k := range m {
		ks = append(ks, k)
	}
	sort.Strings(ks)
	var sb strings.Builder
	sb.WriteString("{")
	for i, k := range ks {
		if i > 0 {
			sb.WriteString(" ")
		}
		fmt.Fprintf(&sb, "%s:%d", k, m[k])
	}
	sb.WriteString("}")
	return sb.String()
}

func (c counters) String() string {
	return fmt.Sprintf("total=%dms errors=%d sleepMS=%s times=%s", c.total, c.errs, fmtIntMap(c.sleepMS), fmtIntMap(c.times))
}

type actor struct {
	gid    int
	depth  int           // nesting level of the goroutine (log order at equal instants: deeper first)
	offset time.Duration // sub-millisecond phase owned by this goroutine
	seq    int
}

// align sleeps until the simulated clock is at this goroutine's own sub-millisecond phase.
// Every completed sleep of the library is a whole number of milliseconds, so a goroutine keeps
// its phase; no two goroutines ever draw from math/rand (or do anything else) at the same
// simulated instant, which makes the order of the draws a function of the seed alone.
func (a *actor) align() {
	sub := time.Duration(time.Now().Nanosecond()) % time.Millisecond
	if d := (a.offset - sub + time.Millisecond) % time.Millisecond; d > 0 {
		time.Sleep(d)
	}
}

type event struct {
	t        int64
	depth    int
	gid, seq int
	text     string // canonical (part of the trace)
	extra    string // only in the log: may depend on the library's map iteration order (ties)
	viol     bool
}

type run struct {
	sc    *Scenario
	start time.Time
	kinds map[string]*kind
	vars  *kv.Variables
	gids  map[*Member]int

	killAt  atomic.Int64 // 1 + instant of the kill, 0 = not killed
	killVal uint32

	mu           sync.Mutex
	extraCancels []context.CancelFunc
	events       []event
	viols        []violRec
	stats        map[string]int
	handles      map[string]*handle
	once         map[string]bool
}

type violRec struct {
	event
	v simkit.Violation
}

func (r *run) now() int64 { return int64(time.Since(r.start)) }

func fmtNs(ns int64) string { return fmt.Sprintf("%d.%03dms", ns/msNs, (ns%msNs)/1000) }

func (r *run) ev(a *actor, format string, args ...any) {
	e := event{t: r.now(), depth: a.depth, gid: a.gid, seq: a.seq, text: fmt.Sprintf(format, args...)}
	a.seq++
	r.mu.Lock()
	r.events = append(r.events, e)
	r.mu.Unlock()
}

// evx logs an event whose extra text is kept out of the canonical trace.
func (r *run) evx(a *actor, extra, format string, args ...any) {
	e := event{t: r.now(), depth: a.depth, gid: a.gid, seq: a.seq, text: fmt.Sprintf(format, args...), extra: extra}
	a.seq++
	r.mu.Lock()
	r.events = append(r.events, e)
	r.mu.Unlock()
}

func (r *run) stat(name string, n int) {
	r.mu.Lock()
	r.stats[name] += n
	r.mu.Unlock()
}

// violateOnce reports a class/signature at most once per back-offer: a program goes on calling
// after a violation and would otherwise repeat it for every later call.
func (r *run) violateOnce(a *actor, s *shadow, class, sig, format string, args ...any) {
	key := class + "|" + sig + "|" + s.label
	r.mu.Lock()
	seen := r.once[key]
	r.once[key] = true
	r.mu.Unlock()
	if !seen {
		r.violate(a, class, sig, format, args...)
	}
}

func (r *run) violate(a *actor, class, sig, format string, args ...any) {
	e := event{t: r.now(), depth: a.depth, gid: a.gid, seq: a.seq, viol: true, text: "VIOLATION " + class + ": " + fmt.Sprintf(format, args...)}
	a.seq++
	r.mu.Lock()
	r.events = append(r.events, e)
	r.viols = append(r.viols, violRec{event: e, v: simkit.Violation{Property: "C20", Class: class, Sig: sig, Detail: fmt.Sprintf(format, args...)}})
	r.mu.Unlock()
}

func (r *run) register(label string, cancel context.CancelFunc, ctx *ctxNode) *handle {
	h := &handle{cancel: cancel, ctx: ctx}
	r.mu.Lock()
	r.handles[label] = h
	r.mu.Unlock()
	return h
}

// release: the program is done with a fork and calls its cancel function, as the library does.
func (r *run) release(h *handle) {
	r.mu.Lock()
	h.done = true
	r.mu.Unlock()
	h.ctx.cancel(r.now())
	h.cancel()
}

func sameErr(a, b error) (eq bool) {
	defer func() {
		if recover() != nil {
			eq = reflect.DeepEqual(a, b)
		}
	}()
	return a == b
}

func newRun(sc *Scenario) *run {
	r := &run{sc: sc, start: time.Now(), kinds: map[string]*kind{}, stats: map[string]int{}, handles: map[string]*handle{}, once: map[string]bool{}, gids: map[*Member]int{}}
	kt := kindTable(sc)
	for _, c := range exportedCfgs {
		r.kinds[c.String()] = &kind{kindParams: *kt[c.String()], cfg: c, err: retry.VerifConfigErr(c)}
	}
	for _, o := range sc.Own {
		e := errors.New("exhausted by " + o.Name)
		c := retry.NewConfig(o.Name, nil, retry.NewBackoffFnCfg(o.Base, o.Cap, o.Jitter), e)
		r.kinds[o.Name] = &kind{kindParams: *kt[o.Name], cfg: c, err: e}
	}
	next := 1
	var walk func(steps []Step)
	walk = func(steps []Step) {
		for i := range steps {
			walk(steps[i].Steps)
			for j := range steps[i].Members {
				r.gids[&steps[i].Members[j]] = next
				next++
				walk(steps[i].Members[j].Steps)
			}
		}
	}
	walk(sc.Steps)
	return r
}

func (r *run) newActor(gid, depth int) *actor {
	// phases 0 .. 0.45 ms; the canceller lives at x.5 ms, the killer at x.7 ms
	return &actor{gid: gid, depth: depth, offset: time.Duration(gid%64) * 7 * time.Microsecond}
}

// execute runs the program; returns the root shadow.
func (r *run) execute() {
	sc := r.sc
	killed := new(uint32)
	r.vars = &kv.Variables{BackoffLockFast: sc.LockFast, BackOffWeight: sc.Weight, Killed: killed}
	ctx, cancel := context.WithCancel(context.Background())
	rootCtx := &ctxNode{}
	r.register("root", cancel, rootCtx)
	bo := retry.NewBackofferWithVars(ctx, sc.Budget, r.vars)
	root := &shadow{label: "r", bo: bo, ctx: rootCtx, budgetMS: int64(sc.Budget) * int64(sc.Weight), perKind: map[string]int64{}, sinceReset: map[string]int64{}}
	a := r.newActor(0, 0)
	r.ev(a, "new r: %s", describe(sc))

	done := make(chan struct{})
	var aux sync.WaitGroup
	if sc.CancelAtUs >= 0 {
		aux.Add(1)
		go func() {
			defer aux.Done()
			ca := &actor{gid: 1000, depth: 1000}
			select {
			case <-done:
				r.stat("cancel.after-end", 1)
			case <-time.After(time.Duration(sc.CancelAtUs) * time.Microsecond):
				r.mu.Lock()
				h := r.handles[sc.CancelTarget]
				live := h != nil && !h.done
				r.mu.Unlock()
				if !live {
					r.stat("cancel.target-not-live", 1)
					r.ev(ca, "canceller: %s is not live", sc.CancelTarget)
					return
				}
				if sc.CancelTarget == "root" {
					r.stat("cancel.fired.root", 1)
				} else {
					r.stat("cancel.fired.fork", 1)
				}
				r.ev(ca, "canceller: cancel %s", sc.CancelTarget)
				h.ctx.cancel(r.now())
				h.cancel()
			}
		}()
	}
	if sc.KillAtUs >= 0 {
		aux.Add(1)
		r.killVal = sc.KillVal
		go func() {
			defer aux.Done()
			ka := &actor{gid: 1001, depth: 1000}
			select {
			case <-done:
				r.stat("kill.after-end", 1)
			case <-time.After(time.Duration(sc.KillAtUs) * time.Microsecond):
				r.stat("kill.fired", 1)
				r.ev(ka, "killer: Killed=%d", sc.KillVal)
				r.killAt.Store(r.now() + 1)
				atomic.StoreUint32(killed, sc.KillVal)
			}
		}()
	}
	r.runSteps(a, root, sc.Steps)
	close(done)
	aux.Wait()
	cancel()
	for _, c := range r.extraCancels {
		c()
	}
}

func (r *run) runSteps(a *actor, s *shadow, steps []Step) {
	for i := range steps {
		st := &steps[i]
		switch st.Op {
		case "gap":
			time.Sleep(time.Duration(st.Ms) * time.Millisecond)
		case "setctx":
			// a context of its own: cancelling the old one no longer concerns this back-offer, cancelling the new one does
			nctx, ncancel := context.WithCancel(context.Background())
			node := &ctxNode{}
			label := fmt.Sprintf("%s/%dx", s.label, i)
			s.bo.SetCtx(nctx)
			s.ctx = node
			r.register(label, ncancel, node)
			r.mu.Lock()
			r.extraCancels = append(r.extraCancels, ncancel)
			r.mu.Unlock()
			r.stat("op.setctx", 1)
			r.ev(a, "%s.SetCtx(new context %s)", s.label, label)
		case "reset":
			s.bo.Reset()
			s.reset()
			r.stat("op.reset", 1)
			r.ev(a, "%s.Reset()", s.label)
		case "resetmax":
			s.bo.ResetMaxSleep(st.Ms)
			s.reset()
			s.budgetMS = int64(st.Ms) * int64(r.sc.Weight)
			r.stat("op.resetmax", 1)
			r.ev(a, "%s.ResetMaxSleep(%d)", s.label, st.Ms)
		case "clone":
			label := fmt.Sprintf("%s/%dc", s.label, i)
			c := s.child(label, s.bo.Clone(), s.ctx)
			r.stat("op.clone", 1)
			r.ev(a, "%s = %s.Clone()", label, s.label)
			r.checkStart(a, s, c, "Clone")
			before := snap(s.bo)
			r.runSteps(a, c, st.Steps)
			r.checkUndisturbed(a, s, before, "the steps of its clone "+label)
		case "group":
			r.runGroup(a, s, st, i)
		case "bo":
			for n := 0; n < st.Rep; n++ {
				r.backoff(a, s, st)
			}
		}
	}
}

func (r *run) checkStart(a *actor, parent, child *shadow, how string) {
	p, c := snap(parent.bo), snap(child.bo)
	if !p.equal(c) {
		r.violate(a, "fork-start-mismatch", how, "%s = %s.%s() does not start from the parent's accounting: parent {%v} child {%v}", child.label, parent.label, how, p, c)
	}
}

func (r *run) checkUndisturbed(a *actor, s *shadow, before counters, what string) {
	if now := snap(s.bo); !before.equal(now) {
		r.violate(a, "parent-disturbed", "counters", "the accounting of %s was changed by %s (not merged): before {%v} after {%v}", s.label, what, before, now)
	}
}

type member struct {
	sh     *shadow
	h      *handle
	finish int64
}

func (r *run) runGroup(a *actor, s *shadow, st *Step, idx int) {
	r.stat("group.style"+st.Style, 1)
	before := snap(s.bo)
	var mid *shadow
	var midH *handle
	if st.Style != "A" {
		mbo, mcancel := s.bo.Fork()
		mctx := &ctxNode{parent: s.ctx}
		mid = s.child(fmt.Sprintf("%s/%dm", s.label, idx), mbo, mctx)
		midH = r.register(mid.label, mcancel, mctx)
		r.ev(a, "%s = %s.Fork()", mid.label, s.label)
		r.checkStart(a, s, mid, "Fork")
	}
	ms := make([]*member, len(st.Members))
	for j := range st.Members {
		label := memberLabel(s.label, idx, j, st)
		m := &member{}
		switch {
		case st.Style == "A":
			fbo, fc := s.bo.Fork()
			fctx := &ctxNode{parent: s.ctx}
			m.sh = s.child(label, fbo, fctx)
			m.h = r.register(label, fc, fctx)
			r.ev(a, "%s = %s.Fork()", label, s.label)
			r.checkStart(a, s, m.sh, "Fork")
		case st.Style == "B":
			fbo, fc := mid.bo.Fork()
			fctx := &ctxNode{parent: mid.ctx}
			m.sh = mid.child(label, fbo, fctx)
			m.h = r.register(label, fc, fctx)
			r.ev(a, "%s = %s.Fork()", label, mid.label)
			r.checkStart(a, mid, m.sh, "Fork")
		case j == len(st.Members)-1: // style C: the fork itself
			m.sh = mid
		default: // style C: a clone of the fork
			m.sh = mid.child(label, mid.bo.Clone(), mid.ctx)
			r.ev(a, "%s = %s.Clone()", label, mid.label)
			r.checkStart(a, mid, m.sh, "Clone")
		}
		ms[j] = m
	}
	var wg sync.WaitGroup
	for j := range st.Members {
		pm, m := &st.Members[j], ms[j]
		wg.Add(1)
		go func() {
			defer wg.Done()
			ma := r.newActor(r.gids[pm], a.depth+1)
			time.Sleep(time.Duration(pm.Delay) * time.Millisecond)
			r.runSteps(ma, m.sh, pm.Steps)
			m.finish = r.now()
			r.ev(ma, "%s done", m.sh.label)
		}()
	}
	wg.Wait()
	last := 0
	for j, m := range ms {
		if m.finish >= ms[last].finish {
			last = j
		}
	}
	if len(ms) >= 2 {
		r.stat("group.concurrent", 1)
	}
	if st.Merge {
		f := ms[last].sh
		s.bo.UpdateUsingForked(f.bo)
		r.stat("merge", 1)
		if st.Style != "A" {
			r.stat("merge.nested-or-clone", 1)
		}
		if f.cut > 0 {
			r.stat("merge.of-fork-with-cut-sleep", 1)
		}
		r.ev(a, "%s.UpdateUsingForked(%s)", s.label, f.label)
		pc, fc := snap(s.bo), snap(f.bo)
		if !pc.equal(fc) {
			r.violate(a, "merge-mismatch", "counters", "after %s.UpdateUsingForked(%s) the parent's accounting differs from the fork's: parent {%v} fork {%v} (parent before the forks: {%v})", s.label, f.label, pc, fc, before)
		}
		s.absorb(f)
		// what the lineage really slept against what the merged accounting says
		diff := s.total - int64(pc.total)*msNs
		if f.resets == f.resetsAtFork {
			diff -= f.baseDiff // what the lineage had already lost before this fork is not this merge's doing
		}
		switch {
		case diff >= msNs:
			sig := "other"
			if f.cut > 0 {
				sig = "sleep-cut-by-cancellation"
			}
			r.violate(a, "merge-lost-sleep", sig, "after %s.UpdateUsingForked(%s) the accounting has lost %s of sleep: since its last reset the lineage had really slept %s (library: %dms) when %s was forked and %s now, but GetTotalSleep()=%dms after the merge; %d sleep(s) of the fork's lineage were cut short by a cancellation and counted as 0",
				s.label, f.label, fmtNs(diff), fmtNs(f.atForkModel), f.atForkLib, f.label, fmtNs(s.total), pc.total, f.cut)
		case diff <= -msNs/2:
			r.violate(a, "merge-double-count", "total", "after %s.UpdateUsingForked(%s) GetTotalSleep()=%dms but the lineage really slept only %s since its last reset", s.label, f.label, pc.total, fmtNs(s.total))
		}
	} else {
		r.checkUndisturbed(a, s, before, fmt.Sprintf("its %d unmerged fork(s)", len(ms)))
	}
	for _, m := range ms {
		if m.h != nil {
			r.release(m.h)
		}
	}
	if midH != nil {
		r.release(midH)
	}
}

// maxSet returns the names with the maximal positive value among the kinds counted in the budget.
func (r *run) maxSet(m map[string]int64) []string {
	var best int64
	var out []string
	for k, v := range m {
		if kd := r.kinds[k]; kd != nil && kd.exclLimit >= 0 {
			continue
		}
		if v > best {
			best, out = v, []string{k}
		} else if v == best && v > 0 {
			out = append(out, k)
		}
	}
	sort.Strings(out)
	return out
}

func (r *run) backoff(a *actor, s *shadow, st *Step) {
	a.align()
	k := r.kinds[st.Kind]
	if st.Via == "L" {
		k = r.kinds[retry.BoTxnLockFast.String()]
	}
	cause := fmt.Errorf("cause of %s call %d", s.label, s.calls)
	s.calls++
	before := snap(s.bo)
	t0 := r.now()
	var err error
	call := ""
	switch st.Via {
	case "B":
		err = s.bo.Backoff(k.cfg, cause)
		call = fmt.Sprintf("%s.Backoff(%s)", s.label, k.name)
	case "L":
		err = s.bo.BackoffWithMaxSleepTxnLockFast(st.Max, cause)
		call = fmt.Sprintf("%s.BackoffWithMaxSleepTxnLockFast(%d)", s.label, st.Max)
	default:
		err = s.bo.BackoffWithCfgAndMaxSleep(k.cfg, st.Max, cause)
		call = fmt.Sprintf("%s.BackoffWithCfgAndMaxSleep(%s, %d)", s.label, k.name, st.Max)
	}
	t1 := r.now()
	after := snap(s.bo)
	d := t1 - t0
	perCallMax := int64(-1)
	if st.Via != "B" && st.Max >= 0 {
		perCallMax = int64(st.Max)
	}
	excluded := k.exclLimit >= 0
	root := errors.Cause(err)
	intr, isIntr := root.(tikverr.ErrQueryInterruptedWithSignal)
	errText := "nil"
	if err != nil {
		errText = fmt.Sprintf("%q", root.Error())
	}
	errClass := "nil"
	if isIntr {
		errClass = fmt.Sprintf("interrupted(%d)", intr.Signal)
	} else if err != nil {
		errClass = "error"
	}
	r.evx(a, " = "+errText, "%s [%s..%s] slept %s -> %s | total %d->%dms", call, fmtNs(t0), fmtNs(t1), fmtNs(d), errClass, before.total, after.total)
	r.stat("calls", 1)
	if d > 0 {
		r.stat("calls.slept", 1)
		r.stat(fmt.Sprintf("calls.slept.jitter%d", k.jitter), 1)
	}
	desc := func() string {
		return fmt.Sprintf("%s at %s (budget %dms, really slept since reset: %s counted in the budget, %s excluded; library: %v)", call, fmtNs(t0), s.budgetMS, fmtNs(s.slept), fmtNs(s.excl), before)
	}

	// ---- cancellation
	tc := s.ctx.cancelledAt()
	if tc >= 0 && tc <= t0 {
		r.stat("calls.on-cancelled-context", 1)
		if d != 0 || err == nil {
			r.violateOnce(a, s, "cancel-ignored", "call-after-cancel", "%s: the context was cancelled at %s, the call slept %s and returned %s", desc(), fmtNs(tc), fmtNs(d), errText)
		}
		if !before.equal(after) {
			r.violateOnce(a, s, "accounting-mismatch", "after-cancel", "%s on a cancelled context changed the accounting to {%v}", desc(), after)
		}
		s.account(k, d, excluded)
		return
	}
	cutShort := false
	if tc > t0 && tc <= t1 {
		r.stat("calls.cancelled-during-sleep", 1)
		cutShort = true
		if t1 > tc {
			r.violateOnce(a, s, "cancel-late", "in-progress", "%s: the context was cancelled at %s during the sleep, the call returned only at %s", desc(), fmtNs(tc), fmtNs(t1))
		}
	}

	// ---- budget: no sleep may begin once the budget is used up ("budget plus one step")
	budgetUsed := s.budgetMS > 0 && s.slept >= s.budgetMS*msNs
	exclUsed := s.budgetMS > 0 && excluded && s.excl >= int64(k.exclLimit)*msNs
	if d > 0 && !excluded && budgetUsed {
		sig := "plain"
		if s.total-int64(before.total)*msNs >= msNs {
			sig = "lineage-with-lost-sleep"
		}
		r.violateOnce(a, s, "budget-overrun", sig, "%s slept %s although the lineage had already used up its budget", desc(), fmtNs(d))
	}
	if d == 0 && err == nil && !excluded && budgetUsed && !cutShort && s.total-int64(before.total)*msNs < msNs {
		// (guard: model and library agree on what was slept, so this is not a consequence of lost sleep)
		r.violateOnce(a, s, "exhaustion-unreported", "nil-error", "%s returned nil although the budget was used up", desc())
	}
	if d > 0 && exclUsed {
		sig := "plain"
		if s.budgetMS > int64(k.exclLimit) {
			sig = "budget-above-limit"
		} else if s.total-int64(before.total)*msNs >= msNs {
			sig = "lineage-with-lost-sleep"
		}
		r.violateOnce(a, s, "excluded-over-limit", sig, "%s slept %s although the excluded kind %s had already slept its own limit of %dms", desc(), fmtNs(d), k.name, k.exclLimit)
	}
	if excluded && d > 0 {
		r.stat("calls.slept.excluded", 1)
	}
	if s.budgetMS == 0 {
		r.stat("calls.unlimited-budget", 1)
	}

	// ---- each sleep: per-call maximum, cap of the kind
	if perCallMax >= 0 && d > perCallMax*msNs {
		r.violateOnce(a, s, "sleep-over-max", "per-call", "%s slept %s, more than the per-call maximum %dms", desc(), fmtNs(d), perCallMax)
	}
	if d > int64(k.cap)*msNs {
		r.violateOnce(a, s, "sleep-over-cap", "kind-cap", "%s slept %s, more than the cap %dms of kind %s", desc(), fmtNs(d), k.cap, k.name)
	}
	if perCallMax >= 0 && d == perCallMax*msNs && d > 0 {
		r.stat("calls.clamped-by-per-call-max", 1)
	}
	if d == int64(k.cap)*msNs {
		r.stat("calls.at-cap", 1)
	}

	// ---- kill
	if tk := r.killAt.Load() - 1; tk >= 0 && tk <= t1 {
		if tk <= t0 {
			r.stat("calls.started-after-kill", 1)
			if d > 0 {
				r.stat("calls.started-after-kill.slept-a-step", 1)
			}
		} else {
			r.stat("calls.killed-during-sleep", 1)
		}
		if err == nil {
			r.violateOnce(a, s, "kill-ignored", "nil-error", "%s returned nil at %s although the query was killed at %s", desc(), fmtNs(t1), fmtNs(tk))
		} else if isIntr && intr.Signal != r.killVal {
			r.violateOnce(a, s, "kill-ignored", "wrong-signal", "%s reported signal %d, Killed was set to %d", desc(), intr.Signal, r.killVal)
		}
	}

	// ---- outcome classes and accounting
	switch {
	case cutShort:
		// the library counts a sleep cut by a cancellation as 0; the time was slept all the same
		s.cut++
	case err != nil && !isIntr:
		// refused: the only reason left is an exhausted budget (or excluded limit)
		r.stat("calls.refused", 1)
		if d != 0 {
			r.violateOnce(a, s, "accounting-mismatch", "refused-but-slept", "%s returned %s after sleeping %s", desc(), errText, fmtNs(d))
		}
		if !before.equal(after) {
			r.violateOnce(a, s, "accounting-mismatch", "refused-but-counted", "%s was refused (%s) but changed the accounting to {%v}", desc(), errText, after)
		}
		if budgetUsed {
			r.stat("calls.refused.budget-used-up", 1)
			// Among kinds with EQUAL maximal time the library picks by map iteration order, i.e. at
			// random. A refused call changes nothing, so when there is such a tie the same call is
			// repeated to see every answer the library gives in this state: the verdict (and the
			// replay) does not depend on the runtime's map seed.
			roots := []error{root}
			if r.tieInLibrary(before) {
				r.stat("calls.refused.tie-resampled", 1)
				for i := 0; i < 16; i++ {
					var e error
					switch st.Via {
					case "B":
						e = s.bo.Backoff(k.cfg, cause)
					case "L":
						e = s.bo.BackoffWithMaxSleepTxnLockFast(st.Max, cause)
					default:
						e = s.bo.BackoffWithCfgAndMaxSleep(k.cfg, st.Max, cause)
					}
					if e != nil {
						roots = append(roots, errors.Cause(e))
					}
				}
			}
			r.checkKind(a, s, before, roots, desc)
		} else if exclUsed {
			r.stat("calls.refused.excluded-limit", 1)
		} else {
			r.stat("calls.refused.model-not-used-up", 1)
		}
	default:
		// a completed sleep
		dms := int(d / msNs)
		bad := d%msNs != 0 || after.total-before.total != dms || after.errs-before.errs != 1
		for name := range after.sleepMS {
			want := 0
			if name == k.name {
				want = dms
			}
			if after.sleepMS[name]-before.sleepMS[name] != want {
				bad = true
			}
		}
		for name := range after.times {
			want := 0
			if name == k.name {
				want = 1
			}
			if after.times[name]-before.times[name] != want {
				bad = true
			}
		}
		if len(after.times) < len(before.times) || len(after.sleepMS) < len(before.sleepMS) || after.times[k.name] != before.times[k.name]+1 {
			bad = true
		}
		if bad {
			r.violateOnce(a, s, "accounting-mismatch", "completed-sleep", "%s really slept %s, the accounting went from {%v} to {%v}", desc(), fmtNs(d), before, after)
		}
	}
	s.account(k, d, excluded)
}

func (s *shadow) account(k *kind, d int64, excluded bool) {
	if d <= 0 {
		return
	}
	s.total += d
	if excluded {
		s.excl += d
	} else {
		s.slept += d
	}
	s.perKind[k.name] += d
	s.sinceReset[k.name] += d
}

// checkKind: the budget is used up and the call was refused with error root: it must be the
// configured error of A kind (counted in the budget) that consumed the most time. "Most time"
// is accepted by any of three clocks so that the check is no stricter than the sentence: really
// slept over the whole life of the lineage, really slept since the last reset, or the library's
// own per-kind counters.
func (r *run) libSleep(before counters) map[string]int64 {
	lib := map[string]int64{}
	for n, v := range before.sleepMS {
		lib[n] = int64(v)
	}
	return lib
}

func (r *run) tieInLibrary(before counters) bool { return len(r.maxSet(r.libSleep(before))) > 1 }

func (r *run) checkKind(a *actor, s *shadow, before counters, roots []error, desc func() string) {
	sets := [][]string{r.maxSet(s.perKind), r.maxSet(s.sinceReset), r.maxSet(r.libSleep(before))}
	if len(sets[0])+len(sets[1])+len(sets[2]) == 0 {
		return
	}
	accept := func(root error) bool {
		for _, set := range sets {
			for _, n := range set {
				if kd := r.kinds[n]; kd != nil && sameErr(root, kd.err) {
					return true
				}
			}
		}
		return false
	}
	var bad []string
	for _, root := range roots {
		if !accept(root) {
			bad = append(bad, root.Error())
		}
	}
	if len(bad) == 0 {
		return
	}
	sort.Strings(bad)
	sig := "plain"
	if s.merged {
		sig = "after-merge"
	}
	r.violateOnce(a, s, "wrong-exhaustion-kind", sig, "%s: budget used up, the call returned %q; the kinds that consumed the most time are %v (life of the lineage) / %v (since the last reset) / %v (library's counters), whose configured errors are %v",
		desc(), bad[0], sets[0], sets[1], sets[2], r.errsOf(sets))
}

func (r *run) errsOf(sets [][]string) []string {
	seen := map[string]bool{}
	var out []string
	for _, set := range sets {
		for _, n := range set {
			if kd := r.kinds[n]; kd != nil && !seen[n] {
				seen[n] = true
				out = append(out, fmt.Sprintf("%s:%q", n, kd.err.Error()))
			}
		}
	}
	return out
}
