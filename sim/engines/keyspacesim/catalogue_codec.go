package keyspacesim

import (
	"bytes"
	"fmt"
	"reflect"
	"strings"

	"github.com/pingcap/kvproto/pkg/errorpb"
	"github.com/pingcap/kvproto/pkg/keyspacepb"
	"github.com/pingcap/kvproto/pkg/kvrpcpb"
	"github.com/tikv/client-go/v2/internal/apicodec"
	"github.com/tikv/client-go/v2/tikvrpc"
	"github.com/tikv/client-go/v2/verifsim/simkit"
)

// The second half of mode "catalogue" (complete enumeration, no simulation): for every command type with a known
// request message, a request whose every key-bearing field is filled (point keys "k1", "k2"; bounds "k1".."k3") is
// handed to the API v2 codec of keyspace 4242, and
//
//	(4) every key-bearing field of the encoded request lies inside the keyspace (bounds: inside [prefix, end]);
//	(5) the response of the matching type, filled with keys of the keyspace in every key-bearing field (key errors,
//	    lock descriptions, pairs, region descriptions of an EpochNotMatch), comes back from DecodeResponse with no
//	    field still carrying the prefix.
//
// A command type whose messages have no key-bearing field is counted, not judged.

func fill(v reflect.Value, depth int, key func(name string, i int) []byte) {
	fillX(v, depth, key, false)
}

// fillX: with request set, sub-messages that only ever travel in responses (key errors inside the pairs of a batch
// put) are left empty.
func fillX(v reflect.Value, depth int, key func(name string, i int) []byte, request bool) {
	if depth > 4 {
		return
	}
	if request && v.Kind() == reflect.Ptr && v.Type() == reflect.TypeOf((*kvrpcpb.KeyError)(nil)) {
		return
	}
	switch v.Kind() {
	case reflect.Ptr:
		if v.IsNil() {
			if v.Type().Elem().Kind() != reflect.Struct {
				return
			}
			v.Set(reflect.New(v.Type().Elem()))
		}
		fillX(v.Elem(), depth, key, request)
	case reflect.Struct:
		t := v.Type()
		for i := 0; i < t.NumField(); i++ {
			f := t.Field(i)
			if strings.HasPrefix(f.Name, "XXX_") || f.PkgPath != "" {
				continue
			}
			if f.Name == "Context" && f.Type == reflect.TypeOf((*kvrpcpb.Context)(nil)) {
				continue
			}
			fv := v.Field(i)
			switch {
			case f.Type == reflect.TypeOf([]byte(nil)):
				if pointNames[f.Name] || boundNames[f.Name] {
					fv.SetBytes(key(f.Name, 0))
				}
			case f.Type == reflect.TypeOf([][]byte(nil)):
				if pointNames[f.Name] || boundNames[f.Name] {
					fv.Set(reflect.ValueOf([][]byte{key(f.Name, 0), key(f.Name, 1)}))
				}
			case fv.Kind() == reflect.Slice && fv.Type().Elem().Kind() == reflect.Ptr && fv.Type().Elem().Elem().Kind() == reflect.Struct:
				e := reflect.New(fv.Type().Elem().Elem())
				fillX(e.Elem(), depth+1, key, request)
				fv.Set(reflect.Append(reflect.MakeSlice(fv.Type(), 0, 1), e))
			case fv.Kind() == reflect.Ptr && fv.Type().Elem().Kind() == reflect.Struct:
				if fv.Type() == reflect.TypeOf((*errorpb.Error)(nil)) {
					continue // region errors are filled separately
				}
				fillX(fv, depth+1, key, request)
			}
		}
	}
}

func runCatalogueCodec(res *simkit.RunResult) []simkit.Violation {
	var vs []simkit.Violation
	fail := func(class, sig, format string, args ...any) {
		vs = append(vs, simkit.Violation{Property: "C15", Class: class, Sig: sig, Detail: fmt.Sprintf(format, args...)})
	}
	types := requestTypes()
	mk := func(mode apicodec.Mode) apicodec.Codec {
		c, err := apicodec.NewCodecV2(mode, &keyspacepb.KeyspaceMeta{Keyspace: &keyspacepb.KeyspaceMeta_Id{Id: 4242}, Name: "cat", State: keyspacepb.KeyspaceState_ENABLED})
		if err != nil {
			panic(err)
		}
		return c
	}
	txnCodec, rawCodec := mk(apicodec.ModeTxn), mk(apicodec.ModeRaw)
	for t := 1; t < 4096; t++ {
		ct := tikvrpc.CmdType(t)
		name := ct.String()
		mt, ok := types[ct]
		if name == "Unknown" || !ok {
			continue
		}
		if name == "Compact" {
			// TiFlash's manual compaction: the message carries its own api_version / keyspace_id fields and its
			// start_key is the opaque cursor a previous response returned (compacted_end_key), not a key of the caller
			res.Stats["catalogue.not-a-user-key."+name] = 1
			continue
		}
		codec := txnCodec
		if strings.HasPrefix(name, "Raw") {
			codec = rawCodec
		}
		prefix := codec.GetKeyspace()
		end := codec.EncodeKey(nil)
		end = append([]byte(nil), prefix...)
		for i := len(end) - 1; i >= 0; i-- { // prefix + 1
			end[i]++
			if end[i] != 0 {
				break
			}
		}
		inside := func(b []byte) bool { return bytes.HasPrefix(b, prefix) }
		for _, reverse := range []bool{false, true} {
			msg := reflect.New(mt.Elem())
			fillX(msg.Elem(), 0, func(n string, i int) []byte {
				switch n {
				case "EndKey", "End":
					return []byte("k3")
				}
				return []byte(fmt.Sprintf("k%d", 1+i))
			}, true)
			if f := msg.Elem().FieldByName("Reverse"); f.IsValid() && f.Kind() == reflect.Bool {
				f.SetBool(reverse)
				if reverse {
					// a reverse scan runs from its start key down to its end key
					if s, e := msg.Elem().FieldByName("StartKey"), msg.Elem().FieldByName("EndKey"); s.IsValid() && e.IsValid() {
						s.SetBytes([]byte("k3"))
						e.SetBytes([]byte("k1"))
					}
				}
			} else if reverse {
				continue
			}
			var hits0 []fieldHit
			walk(msg, "", &hits0, map[string]bool{})
			if len(hits0) == 0 {
				res.Stats["catalogue.no-key-field."+name] = 1
				continue
			}
			func() {
				defer func() {
					if r := recover(); r != nil {
						fail("wire-key-outside-keyspace", name, "EncodeRequest panics for command type %s with every key field filled: %v", name, r)
					}
				}()
				req := tikvrpc.NewRequest(ct, msg.Interface())
				enc, err := codec.EncodeRequest(req)
				if err != nil {
					res.Stats["catalogue.encode-refused."+name] = 1
					return
				}
				res.Stats["catalogue.judged.encode-request"]++
				if enc.Context.GetApiVersion() != kvrpcpb.APIVersion_V2 || enc.Context.GetKeyspaceId() != 4242 {
					fail("wire-context", name, "an encoded %s request carries api version %v, keyspace id %d", name, enc.Context.GetApiVersion(), enc.Context.GetKeyspaceId())
				}
				var hits []fieldHit
				walk(reflect.ValueOf(enc.Req), "", &hits, map[string]bool{})
				for _, h := range hits {
					okField := inside(h.val) || (boundNames[h.name] && bytes.Equal(h.val, end))
					if !okField {
						fail("wire-key-outside-keyspace", name+"."+h.path, "command type %s (reverse=%v): after EncodeRequest the key-bearing field %s = %q does not lie in the keyspace [%q,%q] - the command's keys leave the client unprefixed", name, reverse, h.path, h.val, prefix, end)
					}
				}
			}()
		}
		// (5) response direction
		func() {
			defer func() {
				if r := recover(); r != nil {
					fail("api-key-not-decoded", name, "DecodeResponse panics for command type %s with every key field filled: %v", name, r)
				}
			}()
			proto, err := tikvrpc.GenRegionErrorResp(&tikvrpc.Request{Type: ct, Req: reflect.New(mt.Elem()).Interface()}, nil)
			if err != nil || proto == nil || proto.Resp == nil {
				res.Stats["catalogue.no-response-type."+name] = 1
				return
			}
			rm := reflect.New(reflect.TypeOf(proto.Resp).Elem())
			fill(rm.Elem(), 0, func(n string, i int) []byte {
				return append(append([]byte(nil), prefix...), []byte(fmt.Sprintf("k%d", 1+i))...)
			})
			// an EpochNotMatch that lists a region inside the keyspace
			if f := rm.Elem().FieldByName("RegionError"); f.IsValid() {
				f.Set(reflect.ValueOf(&errorpb.Error{Message: "cat", EpochNotMatch: &errorpb.EpochNotMatch{}}))
			}
			var hits0 []fieldHit
			walk(rm, "", &hits0, map[string]bool{})
			if len(hits0) == 0 {
				res.Stats["catalogue.no-key-field-in-response."+name] = 1
				return
			}
			req := tikvrpc.NewRequest(ct, reflect.New(mt.Elem()).Interface())
			enc, err := codec.EncodeRequest(req)
			if err != nil {
				return
			}
			dec, err := codec.DecodeResponse(enc, &tikvrpc.Response{Resp: rm.Interface()})
			if err != nil {
				res.Stats["catalogue.decode-refused."+name] = 1
				return
			}
			res.Stats["catalogue.judged.decode-response"]++
			var hits []fieldHit
			walk(reflect.ValueOf(dec.Resp), "", &hits, map[string]bool{})
			for _, h := range hits {
				if !h.empty && inside(h.val) {
					fail("api-key-not-decoded", name+"."+h.path, "command type %s: after DecodeResponse the field %s = %q of the %T still carries the keyspace prefix", name, h.path, h.val, dec.Resp)
				}
			}
		}()
	}
	return vs
}
