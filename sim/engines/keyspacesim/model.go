package keyspacesim

import (
	"bytes"
	"fmt"
	"hash/crc64"
	"sort"
	"strings"

	"github.com/tikv/client-go/v2/internal/mockstore/mocktikv"
	"github.com/tikv/client-go/v2/verifsim/simkit"
)

// The transparency oracle. Every keyspace has exactly one actor at a time and nothing is ever
// lost, so every call has exactly one admissible result: the result of the same call on a
// sorted map (raw) / a list of committed versions of a sorted map (transactional) over LOGICAL
// keys. An unstripped prefix, a clipped or unclipped range, a scan that runs over the keyspace
// end, a key of another keyspace: all of them are mismatches.

type checker struct {
	w     *world
	out   []simkit.Violation
	stats map[string]int
}

func (c *checker) fail(class, sig, format string, args ...any) {
	c.out = append(c.out, simkit.Violation{Property: "C15", Class: class, Sig: sig, Detail: fmt.Sprintf(format, args...)})
}

func rangeHas(k, lo, hi string) bool { return k >= lo && (hi == "" || k < hi) }

func sortedKeys[V any](m map[string]V) []string {
	ks := make([]string, 0, len(m))
	for k := range m {
		ks = append(ks, k)
	}
	sort.Strings(ks)
	return ks
}

func fmtP(p *string) string {
	if p == nil {
		return "<none>"
	}
	return fmt.Sprintf("%q", *p)
}

func eqP(a, b *string) bool { return (a == nil) == (b == nil) && (a == nil || *a == *b) }

// ---------------------------------------------------------------------------------------------
// transactional model

type mtxn struct {
	snap       int
	pess       bool
	buf        map[string]*string
	ins        map[string]bool
	insUnsure  map[string]bool
	locked     map[string]bool
	failedLock bool
}

type tmodel struct {
	c          *checker
	ks         int
	vers       []map[string]string
	lastMod    map[string]int
	slots      [2]*mtxn
	remembered []int
	stopped    string
}

func newTModel(c *checker, ks int) *tmodel {
	m := &tmodel{c: c, ks: ks, lastMod: map[string]int{}}
	m.vers = []map[string]string{c.w.sentinelsOf(ks)}
	return m
}

func (m *tmodel) latest() map[string]string { return m.vers[len(m.vers)-1] }

func (m *tmodel) commitVersion(writes map[string]*string) {
	nv := make(map[string]string, len(m.latest())+len(writes))
	for k, v := range m.latest() {
		nv[k] = v
	}
	for k, v := range writes {
		if v == nil {
			delete(nv, k)
		} else {
			nv[k] = *v
		}
		m.lastMod[k] = len(m.vers)
	}
	m.vers = append(m.vers, nv)
}

// view is what a transaction (or a bare snapshot when t is nil) reads.
func (m *tmodel) view(ver int, t *mtxn) map[string]string {
	out := make(map[string]string, len(m.vers[ver]))
	for k, v := range m.vers[ver] {
		out[k] = v
	}
	if t != nil {
		for k, v := range t.buf {
			if v == nil {
				delete(out, k)
			} else {
				out[k] = *v
			}
		}
	}
	return out
}

func scanOf(view map[string]string, lo, hi string, rev bool, limit int, keyOnly bool) [][2]string {
	out := [][2]string{}
	ks := sortedKeys(view)
	if rev {
		sort.Sort(sort.Reverse(sort.StringSlice(ks)))
	}
	for _, k := range ks {
		if !rangeHas(k, lo, hi) {
			continue
		}
		v := view[k]
		if keyOnly {
			v = ""
		}
		out = append(out, [2]string{k, v})
		if limit > 0 && len(out) >= limit {
			break
		}
	}
	return out
}

func eqPairs(a, b [][2]string) bool {
	if len(a) != len(b) {
		return false
	}
	for i := range a {
		if a[i] != b[i] {
			return false
		}
	}
	return true
}

func (m *tmodel) where(rec *OpRec) string {
	return fmt.Sprintf("keyspace %s (id %d) phase %d op %d %s", m.c.w.kss[m.ks], m.c.w.kss[m.ks].ID, rec.Phase, rec.Idx, fmtOp(m.c.w, rec.Op))
}

func fmtOp(w *world, op *Op) string {
	var sb strings.Builder
	sb.WriteString(op.Kind)
	if strings.Contains("begin set del insert get bget iter riter lock commit rollback", op.Kind) {
		fmt.Fprintf(&sb, "[slot %d]", op.Slot)
	}
	if len(op.Keys) > 0 {
		fmt.Fprintf(&sb, " keys=%q", w.keys(op.Keys))
	}
	if len(op.Vals) > 0 {
		fmt.Fprintf(&sb, " vals=%q", op.Vals)
	}
	if strings.Contains(op.Kind, "iter") || strings.Contains(op.Kind, "scan") || strings.Contains(op.Kind, "range") || op.Kind == "checksum" {
		fmt.Fprintf(&sb, " [%q,%q)", w.key(op.Lo), w.key(op.Hi))
	}
	if op.Limit > 0 {
		fmt.Fprintf(&sb, " limit=%d", op.Limit)
	}
	if op.Batch > 0 {
		fmt.Fprintf(&sb, " batch=%d", op.Batch)
	}
	for _, f := range []struct {
		on   bool
		name string
	}{{op.Pess, "pessimistic"}, {op.Async, "async-commit"}, {op.OnePC, "1pc"}, {op.Pipe, "pipelined"}, {op.NoWait, "nowait"}, {op.RetVals, "retvals"}, {op.KeyOnly, "keyonly"}} {
		if f.on {
			sb.WriteString(" " + f.name)
		}
	}
	if op.Prev != nil {
		fmt.Fprintf(&sb, " prev=%q", *op.Prev)
	}
	return sb.String()
}

// unexpectedErr handles a call that failed although the model says it succeeds.
func (m *tmodel) unexpectedErr(rec *OpRec, changesState bool) {
	if rec.Faults == 0 {
		sig := rec.Op.Kind
		if strings.HasSuffix(sig, "riter") && rec.Op.Hi == "" && !m.c.w.sc.RevUnb {
			sig = "riter-unbounded-upper " + sig // known finding F1, demonstration modes only
		}
		m.c.fail("call-failed", sig, "%s failed with %q although no fault was injected while it ran", m.where(rec), rec.Err)
	} else {
		m.c.stats["oracle.call-failed-under-faults"]++
	}
	if changesState {
		m.stopped = "a state-changing call failed"
		m.c.stats["oracle.sequential-stopped-after-error"]++
	}
}

func (m *tmodel) checkVals(rec *OpRec, view map[string]string, what string) {
	w := m.c.w
	for _, k := range sortedKeys(rec.Vals) {
		got := rec.Vals[k]
		if strings.HasPrefix(k, "!extra:") {
			m.c.fail("read-mismatch", rec.Op.Kind, "%s returned the key %q that was not asked for (value %s)", m.where(rec), k[7:], fmtP(got))
			continue
		}
		var want *string
		if v, ok := view[k]; ok {
			want = &v
		}
		if !eqP(got, want) {
			m.c.fail("read-mismatch", rec.Op.Kind, "%s: %s of %q = %s, the model of the keyspace has %s", m.where(rec), what, k, fmtP(got), fmtP(want))
		}
	}
	if rec.Op.Kind != "lock" {
		for _, k := range w.keys(rec.Op.Keys) {
			if _, ok := rec.Vals[string(k)]; !ok {
				m.c.fail("read-mismatch", rec.Op.Kind, "%s: no answer for key %q", m.where(rec), k)
			}
		}
	}
}

func (m *tmodel) apply(rec *OpRec) {
	if m.stopped != "" || rec.Skipped != "" {
		return
	}
	w := m.c.w
	op := rec.Op
	t := m.slots[op.Slot&1]
	key0 := ""
	if len(op.Keys) > 0 {
		key0 = string(w.key(op.Keys[0]))
	}
	lo, hi := string(w.key(op.Lo)), string(w.key(op.Hi))
	switch op.Kind {
	case "begin":
		if rec.Err != "" {
			m.slots[op.Slot&1] = nil
			m.unexpectedErr(rec, true)
			return
		}
		m.slots[op.Slot&1] = &mtxn{snap: len(m.vers) - 1, pess: op.Pess, buf: map[string]*string{}, ins: map[string]bool{}, insUnsure: map[string]bool{}, locked: map[string]bool{}}
	case "set", "del", "insert":
		if rec.Err != "" {
			m.unexpectedErr(rec, true)
			return
		}
		if t.ins[key0] {
			t.insUnsure[key0] = true
		}
		switch op.Kind {
		case "set":
			v := op.Vals[0]
			t.buf[key0] = &v
		case "del":
			t.buf[key0] = nil
		default:
			v := op.Vals[0]
			if _, dirty := t.buf[key0]; dirty {
				t.insUnsure[key0] = true
			}
			t.buf[key0] = &v
			t.ins[key0] = true
		}
	case "get", "bget", "snapget", "snapbget":
		if rec.Err != "" {
			m.unexpectedErr(rec, false)
			return
		}
		if strings.HasPrefix(op.Kind, "snap") {
			m.checkVals(rec, m.view(m.verOf(op), nil), "snapshot read")
		} else {
			m.checkVals(rec, m.view(t.snap, t), "read")
		}
	case "iter", "riter", "snapiter", "snapriter":
		if rec.Err != "" {
			m.unexpectedErr(rec, false)
			return
		}
		rev := strings.HasSuffix(op.Kind, "riter")
		var want [][2]string
		if strings.HasPrefix(op.Kind, "snap") {
			want = scanOf(m.view(m.verOf(op), nil), lo, hi, rev, op.Limit, op.KeyOnly)
		} else {
			want = scanOf(m.view(t.snap, t), lo, hi, rev, op.Limit, false)
		}
		if op.KeyOnly {
			// a key-only scan that had to resolve a lock on its way returns that key's value (the
			// scanner reads the key again): only the keys are compared
			for i := range rec.Pairs {
				rec.Pairs[i][1] = ""
			}
		}
		if !eqPairs(rec.Pairs, want) {
			sig := op.Kind
			if rev && hi == "" && !w.sc.RevUnb {
				// known finding F1 (LocateEndKey("") on a keyspace spread over several regions); only the
				// demonstration modes generate this call in such layouts
				sig = "riter-unbounded-upper " + sig
			}
			m.c.fail("scan-mismatch", sig, "%s returned %q, the model of the keyspace gives %q", m.where(rec), rec.Pairs, want)
		}
	case "lock":
		other := m.slots[(op.Slot+1)&1]
		blocked := false
		exists := false
		for _, k := range w.keys(op.Keys) {
			if other != nil && other.locked[string(k)] {
				blocked = true
			}
			if _, ok := m.latest()[string(k)]; ok && t.ins[string(k)] && !t.insUnsure[string(k)] {
				exists = true
			}
		}
		switch {
		case blocked:
			if rec.Err == "" {
				m.c.fail("lock-mismatch", "lock", "%s succeeded although the other open transaction holds a pessimistic lock on one of the keys", m.where(rec))
			} else if rec.Err != "nowait" {
				m.c.stats["oracle.blocked-lock-other-error"]++
			}
			t.failedLock = true
		case exists && rec.Err != "":
			if rec.Err != "keyexists" {
				m.unexpectedErr(rec, false)
			} else {
				m.checkErrKey(rec, op.Keys, "key")
			}
			t.failedLock = true
		case rec.Err != "":
			t.failedLock = true
			m.unexpectedErr(rec, false)
		default:
			m.checkVals(rec, m.latest(), "locking read")
			for _, k := range w.keys(op.Keys) {
				t.locked[string(k)] = true
			}
		}
	case "commit":
		m.slots[op.Slot&1] = nil
		if rec.MustRoll || t.failedLock {
			return
		}
		var conflict, exist, unsure []string
		for _, k := range sortedKeys(t.buf) {
			if m.lastMod[k] > t.snap && !t.locked[k] {
				conflict = append(conflict, k)
			}
			if _, ok := m.latest()[k]; ok && t.ins[k] && !t.locked[k] {
				if t.insUnsure[k] {
					unsure = append(unsure, k)
				} else {
					exist = append(exist, k)
				}
			}
		}
		switch {
		case len(conflict) > 0 || len(exist) > 0:
			switch {
			case rec.Err == "":
				m.c.fail("commit-mismatch", "commit-accepted", "%s succeeded; the model of the keyspace demands a failure: keys written by a transaction that committed after this one began: %q, inserted keys that exist: %q", m.where(rec), conflict, exist)
				m.stopped = "commit outcome differs"
			case rec.Err == "writeconflict" && (len(conflict) > 0 || len(unsure) > 0 || len(exist) > 0):
				// a key that exists was also written after the transaction began: either report is right
				m.checkErrKeyIn(rec, "key", append(append(conflict, exist...), unsure...))
				m.checkErrKeyIn(rec, "primary", sortedKeys(t.buf))
			case rec.Err == "keyexists" && (len(exist) > 0 || len(unsure) > 0):
				m.checkErrKeyIn(rec, "key", append(exist, unsure...))
			default:
				m.unexpectedErr(rec, true)
			}
		case rec.Err == "":
			m.commitVersion(t.buf)
		case (rec.Err == "keyexists" || rec.Err == "writeconflict") && len(unsure) > 0:
			m.checkErrKeyIn(rec, "key", unsure)
		default:
			m.unexpectedErr(rec, true)
		}
	case "rollback":
		m.slots[op.Slot&1] = nil
		if rec.Err != "" {
			m.unexpectedErr(rec, false)
		}
	case "ts":
		if rec.Err != "" {
			m.unexpectedErr(rec, false)
		}
		// the generator counts the timestamp whether or not the call worked
		m.remembered = append(m.remembered, len(m.vers)-1)
	case "locate", "locend", "locrange":
		if rec.Err != "" {
			m.unexpectedErr(rec, false)
			return
		}
		m.c.checkLocs(m.ks, rec, m.where(rec))
	case "scanlocks":
		if rec.Err != "" {
			m.unexpectedErr(rec, false)
			return
		}
		m.c.checkScanLocks(rec, lo, hi, m.where(rec))
	case "resolverange", "split":
		if rec.Err != "" {
			m.unexpectedErr(rec, false)
		}
	case "delrange", "destroyrange":
		if rec.Err != "" {
			m.unexpectedErr(rec, true)
			return
		}
		// every version of every key of the range is gone, whatever the timestamp of the reader
		for _, v := range m.vers {
			for _, k := range sortedKeys(v) {
				if rangeHas(k, lo, hi) {
					delete(v, k)
				}
			}
		}
	}
}

func (m *tmodel) verOf(op *Op) int {
	if op.TSRef >= 0 && op.TSRef < len(m.remembered) {
		return m.remembered[op.TSRef]
	}
	return len(m.vers) - 1
}

// checkErrKey: the key named inside the error must be the logical key of the call.
func (m *tmodel) checkErrKey(rec *OpRec, keys []string, what string) {
	var want []string
	for _, k := range m.c.w.keys(keys) {
		want = append(want, string(k))
	}
	m.checkErrKeyIn(rec, what, want)
}

func (m *tmodel) checkErrKeyIn(rec *OpRec, what string, want []string) {
	for _, ek := range rec.ErrKeys {
		if !strings.HasPrefix(ek, what+"=") {
			continue
		}
		got := ek[len(what)+1:]
		if got == "" {
			continue // the server did not name it (the mock leaves the primary of a write conflict empty)
		}
		ok := false
		for _, k := range want {
			ok = ok || k == got
		}
		if !ok {
			m.c.fail("error-key-not-decoded", rec.Err+"."+what, "%s failed with %s naming %s %q; the logical keys it can refer to are %q", m.where(rec), rec.Err, what, got, want)
		}
		m.c.stats["probe.error-key-checked."+rec.Err+"."+what]++
	}
}

// checkLocs: region locations handed out above the codec are in logical coordinates, clipped to
// the keyspace.
func (c *checker) checkLocs(ks int, rec *OpRec, where string) {
	w := c.w
	op := rec.Op
	u := w.mon.universe[ks]
	for _, l := range rec.Locs {
		for _, b := range []string{l.Start, l.End} {
			if w.mon.looksEncoded([]byte(b)) && !u[b] {
				c.fail("region-not-clipped", op.Kind, "%s: the region cache handed out region %d [%q,%q): the bound %q is not a logical key of the keyspace", where, l.ID, l.Start, l.End, b)
			} else if !u[b] {
				c.stats["oracle.region-bound-outside-known-universe"]++
			}
		}
	}
	switch op.Kind {
	case "locate", "locend":
		key := string(w.key(op.Keys[0]))
		l := rec.Locs[0]
		ok := l.Start <= key && (l.End == "" || key < l.End)
		if op.Kind == "locend" {
			ok = l.Start < key && (l.End == "" || key <= l.End)
		}
		if !ok {
			c.fail("region-not-clipped", op.Kind, "%s: region %d [%q,%q) does not contain the key %q", where, l.ID, l.Start, l.End, key)
		}
		if w.topo.changes == 0 && op.Kind == "locate" {
			// nothing moves in this run: the answer is the clipped, stripped form of the one region holding the key
			kk := w.kss[ks]
			region, _, _, _ := w.cluster.GetRegionByKey(mocktikv.NewMvccKey(kk.enc([]byte(key))))
			rs, re := mocktikv.MvccKey(region.StartKey).Raw(), mocktikv.MvccKey(region.EndKey).Raw()
			ws, we := "", ""
			if kk.has(rs) {
				ws = string(rs[4:])
			}
			if len(re) > 0 && bytes.Compare(re, kk.End) < 0 {
				we = string(re[4:])
			}
			if l.Start != ws || l.End != we || l.ID != region.Id {
				c.fail("region-not-clipped", "locate-exact", "%s: got region %d [%q,%q); the store's region holding the key is %d [%s,%s), which clipped to the keyspace is [%q,%q)", where, l.ID, l.Start, l.End, region.Id, w.fmtPhys(rs), w.fmtPhys(re), ws, we)
			}
			c.stats["probe.locate-exact"]++
		}
	case "locrange":
		lo, hi := string(w.key(op.Lo)), string(w.key(op.Hi))
		if hi != "" && lo >= hi {
			return
		}
		if len(rec.Locs) == 0 {
			c.fail("region-not-clipped", "locrange", "%s: no region returned", where)
			return
		}
		if first := rec.Locs[0]; first.Start > lo {
			c.fail("region-not-clipped", "locrange", "%s: the first region [%q,%q) starts after the range", where, first.Start, first.End)
		}
		for i := 1; i < len(rec.Locs); i++ {
			if rec.Locs[i].Start != rec.Locs[i-1].End {
				if w.topo.changes == 0 {
					c.fail("region-not-clipped", "locrange", "%s: regions %d and %d are not adjacent: [%q,%q) then [%q,%q)", where, i-1, i, rec.Locs[i-1].Start, rec.Locs[i-1].End, rec.Locs[i].Start, rec.Locs[i].End)
				} else {
					c.stats["oracle.locrange-gap-while-topology-moves"]++
				}
			}
		}
		if last := rec.Locs[len(rec.Locs)-1]; last.End != "" && (hi == "" || last.End < hi) {
			if w.topo.changes == 0 {
				c.fail("region-not-clipped", "locrange", "%s: the last region [%q,%q) ends before the range does", where, last.Start, last.End)
			} else {
				c.stats["oracle.locrange-short-while-topology-moves"]++
			}
		}
	}
}

// checkScanLocks: every lock described to the caller is a lock of the keyspace in logical
// form; locks that were in the store during the whole call are all reported.
func (c *checker) checkScanLocks(rec *OpRec, lo, hi string, where string) {
	has := func(ls []LockDesc, l LockDesc) bool {
		for _, x := range ls {
			if x == l {
				return true
			}
		}
		return false
	}
	u := c.w.mon.universe[rec.Ks]
	for _, l := range rec.Locks {
		if !has(rec.TruthLocks[0], l) && !has(rec.TruthLocks[1], l) {
			// a lock may come and go while the call runs (a request of an abandoned lock step that
			// was still in flight); whatever it is, it must be described in logical keys
			if !u[l.Key] || !u[l.Primary] || c.w.mon.looksEncoded([]byte(l.Key)) && !poolHas(c.w, l.Key) {
				c.fail("lock-not-decoded", "scanlocks", "%s described the lock {key %q primary %q txn %d}, which is not a lock on logical keys of the keyspace; the locks of the keyspace in the store, in logical form, were %v before and %v after the call", where, l.Key, l.Primary, l.TxnID, rec.TruthLocks[0], rec.TruthLocks[1])
			} else {
				c.stats["oracle.scanlocks-transient-lock"]++
			}
		}
		if !rangeHas(l.Key, lo, hi) {
			c.fail("lock-not-decoded", "scanlocks-range", "%s returned the lock on %q, outside the range", where, l.Key)
		}
	}
	for _, l := range rec.TruthLocks[0] {
		if rangeHas(l.Key, lo, hi) && has(rec.TruthLocks[1], l) && !has(rec.Locks, l) {
			c.fail("lock-not-decoded", "scanlocks-missing", "%s did not report the lock {key %q primary %q txn %d} that was in the store before and after the call (reported: %v)", where, l.Key, l.Primary, l.TxnID, rec.Locks)
		}
	}
	c.stats["probe.scanlocks.locks-described"] += len(rec.Locks)
}

func poolHas(w *world, k string) bool {
	for _, p := range pool {
		if string(w.key(p)) == k {
			return true
		}
	}
	return false
}

// ---------------------------------------------------------------------------------------------
// raw model

var crcTable = crc64.MakeTable(crc64.ECMA)

type rmodel struct {
	c       *checker
	ks      int
	m       map[string]string
	stopped string
}

func (m *rmodel) where(rec *OpRec) string {
	return fmt.Sprintf("keyspace %s (id %d) phase %d op %d %s", m.c.w.kss[m.ks], m.c.w.kss[m.ks].ID, rec.Phase, rec.Idx, fmtOp(m.c.w, rec.Op))
}

func (m *rmodel) apply(rec *OpRec) {
	if m.stopped != "" {
		return
	}
	w := m.c.w
	op := rec.Op
	writes := map[string]bool{"put": true, "bput": true, "del": true, "bdel": true, "delrange": true, "cas": true}
	if rec.Err != "" {
		if rec.Faults == 0 {
			m.c.fail("call-failed", op.Kind, "%s failed with %q although no fault was injected while it ran", m.where(rec), rec.Err)
		} else {
			m.c.stats["oracle.call-failed-under-faults"]++
		}
		if writes[op.Kind] {
			m.stopped = "a state-changing call failed"
			m.c.stats["oracle.sequential-stopped-after-error"]++
		}
		return
	}
	key0 := ""
	if len(op.Keys) > 0 {
		key0 = string(w.key(op.Keys[0]))
	}
	lo, hi := string(w.key(op.Lo)), string(w.key(op.Hi))
	bad := func(class, format string, args ...any) {
		m.c.fail(class, op.Kind, "%s: %s", m.where(rec), fmt.Sprintf(format, args...))
	}
	switch op.Kind {
	case "put":
		m.m[key0] = op.Vals[0]
	case "bput":
		for i, k := range w.keys(op.Keys) {
			m.m[string(k)] = op.Vals[i]
		}
	case "del":
		delete(m.m, key0)
	case "bdel":
		for _, k := range w.keys(op.Keys) {
			delete(m.m, string(k))
		}
	case "delrange":
		for _, k := range sortedKeys(m.m) {
			if rangeHas(k, lo, hi) {
				delete(m.m, k)
			}
		}
	case "get":
		v, ok := m.m[key0]
		switch {
		case rec.Val == nil && ok:
			bad("read-mismatch", "Get found nothing, the model of the keyspace has %q", v)
		case rec.Val != nil && !ok:
			bad("read-mismatch", "Get = %q, the model of the keyspace has no such key", *rec.Val)
		case rec.Val != nil && *rec.Val != v:
			bad("read-mismatch", "Get = %q, the model of the keyspace has %q", *rec.Val, v)
		}
	case "getttl":
		_, ok := m.m[key0]
		switch {
		case rec.TTL == nil && ok:
			bad("read-mismatch", "GetKeyTTL found nothing, the model has the key")
		case rec.TTL != nil && !ok:
			bad("read-mismatch", "GetKeyTTL = %d, the model has no such key", *rec.TTL)
		case rec.TTL != nil && *rec.TTL != 0:
			bad("read-mismatch", "GetKeyTTL = %d for a key written without ttl", *rec.TTL)
		}
	case "bget":
		ks := w.keys(op.Keys)
		if len(rec.ValList) != len(ks) {
			bad("read-mismatch", "BatchGet of %d keys returned %d values", len(ks), len(rec.ValList))
			return
		}
		for i, k := range ks {
			v, ok := m.m[string(k)]
			got := rec.ValList[i]
			absent := got == nil || *got == "" // an absent key may come back as an empty value; no empty value is ever written
			switch {
			case absent && ok:
				bad("read-mismatch", "BatchGet position %d (key %q) is empty, the model has %q", i, k, v)
			case !absent && !ok:
				bad("read-mismatch", "BatchGet position %d (key %q) = %q, the model has no such key", i, k, *got)
			case !absent && *got != v:
				bad("read-mismatch", "BatchGet position %d (key %q) = %q, the model has %q", i, k, *got, v)
			}
		}
	case "scan", "rscan":
		rev := op.Kind == "rscan"
		if rev && hi == "" {
			// ReverseScan from "" is documented as unsupported: not judged, but nothing foreign may come back
			m.c.stats["oracle.skip.rscan-empty-upper-bound"]++
			for i, k := range rec.Keys {
				if v, ok := m.m[k]; !ok || (!op.KeyOnly && v != rec.Values[i]) {
					bad("scan-mismatch", "returned %q=%q, which is not a pair of the keyspace", k, rec.Values[i])
				}
			}
			return
		}
		want := scanOf(m.m, lo, hi, rev, op.Limit, op.KeyOnly)
		got := [][2]string{}
		for i, k := range rec.Keys {
			v := ""
			if i < len(rec.Values) {
				v = rec.Values[i]
			}
			got = append(got, [2]string{k, v})
		}
		if !eqPairs(got, want) || len(rec.Keys) != len(rec.Values) {
			bad("scan-mismatch", "returned %q, the model of the keyspace gives %q", got, want)
		}
	case "checksum":
		// defined over the stored bytes: the stored key is prefix + logical key
		var x, n, b uint64
		p := w.kss[m.ks].Prefix
		for _, k := range sortedKeys(m.m) {
			if !rangeHas(k, lo, hi) {
				continue
			}
			d := crc64.New(crcTable)
			d.Write(p)
			d.Write([]byte(k))
			d.Write([]byte(m.m[k]))
			x ^= d.Sum64()
			n++
			b += uint64(len(p) + len(k) + len(m.m[k]))
		}
		if rec.Sum.Crc64Xor != x || rec.Sum.TotalKvs != n || rec.Sum.TotalBytes != b {
			bad("checksum-mismatch", "= %+v, the pairs of the range in the model give {crc64xor %d kvs %d bytes %d} (over stored keys)", rec.Sum, x, n, b)
		}
	case "cas":
		v, ok := m.m[key0]
		var wantOld *string
		wantSwap := false
		if !ok {
			wantSwap = op.Prev == nil
		} else {
			wantOld = &v
			wantSwap = op.Prev != nil && *op.Prev == v
		}
		if !eqP(rec.Val, wantOld) || rec.Swapped != wantSwap {
			bad("cas-mismatch", "returned (previous %s, swapped %v), the model gives (previous %s, swapped %v)", fmtP(rec.Val), rec.Swapped, fmtP(wantOld), wantSwap)
		}
		if wantSwap {
			m.m[key0] = op.Vals[0]
		}
	case "locate":
		m.c.checkLocs(m.ks, rec, m.where(rec))
	}
}
