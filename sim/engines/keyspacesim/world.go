package keyspacesim

import (
	"bytes"
	"context"
	"encoding/binary"
	"fmt"
	"reflect"
	"sort"
	"strings"
	"sync"
	"time"

	"github.com/pingcap/kvproto/pkg/errorpb"
	"github.com/pingcap/kvproto/pkg/keyspacepb"
	"github.com/pingcap/kvproto/pkg/kvrpcpb"
	"github.com/pingcap/kvproto/pkg/metapb"
	"github.com/pkg/errors"
	"github.com/tikv/client-go/v2/internal/apicodec"
	"github.com/tikv/client-go/v2/internal/locate"
	"github.com/tikv/client-go/v2/internal/mockstore/mocktikv"
	"github.com/tikv/client-go/v2/rawkv"
	"github.com/tikv/client-go/v2/tikv"
	"github.com/tikv/client-go/v2/tikvrpc"
	"github.com/tikv/client-go/v2/verifsim/refkv"
	"github.com/tikv/client-go/v2/verifsim/simkit"
	pd "github.com/tikv/pd/client"
	pdgc "github.com/tikv/pd/client/clients/gc"
	"github.com/tikv/pd/client/constants"
	"github.com/tikv/pd/client/opt"
	"github.com/tikv/pd/client/pkg/caller"
)

const cfName = "CF_DEFAULT"

// ---------------------------------------------------------------------------------------------
// keyspaces (computed here from the id, independently of the codec under test)

type ksInfo struct {
	Idx    int
	ID     uint32
	Name   string
	Prefix []byte // mode byte + 3 bytes of the id
	End    []byte // Prefix + 1 as a big-endian number
}

func newKS(idx int, mode byte, id uint32) ksInfo {
	k := ksInfo{Idx: idx, ID: id, Name: fmt.Sprintf("ks%d", id)}
	k.Prefix = []byte{mode, byte(id >> 16), byte(id >> 8), byte(id)}
	k.End = make([]byte, 4)
	binary.BigEndian.PutUint32(k.End, binary.BigEndian.Uint32(k.Prefix)+1)
	return k
}

func (k ksInfo) enc(logical []byte) []byte {
	return append(append([]byte{}, k.Prefix...), logical...)
}

func (k ksInfo) has(phys []byte) bool { return bytes.HasPrefix(phys, k.Prefix) }

func (k ksInfo) String() string { return [...]string{"A", "B1", "B2"}[k.Idx] }

// ---------------------------------------------------------------------------------------------
// world

type world struct {
	sim     *simkit.Sim
	sc      *Scenario
	net     *simkit.Net
	tso     *simkit.TSO
	cluster *mocktikv.Cluster
	mvcc    *mocktikv.MVCCLevelDB
	ref     *refkv.Server
	front   *front
	topo    *topo
	kss     [3]ksInfo
	mode    byte
	mon     *monitor

	stores []*tikv.KVStore
	raws   []*rawkv.Client

	sentinels [][2][]byte // physical key, value
	hist      map[string][]*OpRec
	histMu    sync.Mutex
	writer    *writerRec

	layout0  string
	regions0 int
	probeMu  sync.Mutex
	probes   int
}

// key resolves the "@<i>:" notation of scenario keys.
func (w *world) key(s string) []byte {
	if len(s) >= 3 && s[0] == '@' && s[2] == ':' && s[1] >= '0' && s[1] <= '2' {
		return append(append([]byte{}, w.kss[s[1]-'0'].Prefix...), s[3:]...)
	}
	return []byte(s)
}

func (w *world) keys(ss []string) [][]byte {
	out := make([][]byte, len(ss))
	for i, s := range ss {
		out[i] = w.key(s)
	}
	return out
}

// border is the physical (prefixed, not yet memcomparable) key of a region border.
func (w *world) border(s SplitSpec) []byte {
	if s.Ks < 0 {
		switch s.Key {
		case "mode":
			return []byte{w.mode}
		case "end2":
			return append([]byte{}, w.kss[ksB2].End...)
		}
		panic("unknown special border " + s.Key)
	}
	return w.kss[s.Ks].enc(w.key(s.Key))
}

// logicalBorders lists, for keyspace ks, the logical form of every border the run may ever
// create inside it (what a clipped region descriptor may show).
func (w *world) logicalBorders(ks int) map[string]bool {
	out := map[string]bool{"": true}
	for _, b := range innerBorders {
		out[string(w.key(b))] = true
	}
	// requests split "at their first key": every pool key and bound can become a border
	for _, k := range pool {
		out[string(w.key(k))] = true
	}
	for _, k := range bounds {
		out[string(w.key(k))] = true
	}
	return out
}

// ksPD serves the keyspace metas (the repository's mock PD answers nil) and answers store
// queries in place: the store cache of the code under test holds a sync.Mutex across them.
type ksPD struct {
	*simkit.PD
	metas map[string]*keyspacepb.KeyspaceMeta
}

func (p ksPD) WithCallerComponent(caller.Component) pd.Client { return p }

func (p ksPD) LoadKeyspace(ctx context.Context, name string) (*keyspacepb.KeyspaceMeta, error) {
	m, ok := p.metas[name]
	if !ok {
		return nil, errors.Errorf("keyspace %q does not exist", name)
	}
	cp := *m
	return &cp, nil
}

// GetGCStatesClient: the repository's mock PD implements the GC state API for the null keyspace
// only (it panics "unimplemented" for any other id); the safe point state is not part of this
// check, every client gets the cluster-wide one.
func (p ksPD) GetGCStatesClient(uint32) pdgc.GCStatesClient {
	return p.PD.Client.GetGCStatesClient(constants.NullKeyspaceID)
}

func (p ksPD) GetStore(ctx context.Context, id uint64, opts ...opt.GetStoreOption) (*metapb.Store, error) {
	return p.PD.Client.GetStore(ctx, id, opts...)
}

func (p ksPD) GetAllStores(ctx context.Context, opts ...opt.GetStoreOption) ([]*metapb.Store, error) {
	return p.PD.Client.GetAllStores(ctx, opts...)
}

func newWorld(s *simkit.Sim, sc *Scenario) (*world, error) {
	w := &world{sim: s, sc: sc, tso: &simkit.TSO{}, hist: map[string][]*OpRec{}}
	w.mode = apicodec.TxnModePrefix
	if sc.Kind == "raw" {
		w.mode = apicodec.RawModePrefix
	}
	w.kss = [3]ksInfo{newKS(ksA, w.mode, sc.KsA), newKS(ksB1, w.mode, sc.KsA-1), newKS(ksB2, w.mode, sc.KsA+1)}
	mvcc, err := mocktikv.NewMVCCLevelDB("")
	if err != nil {
		return nil, err
	}
	w.mvcc = mvcc
	w.cluster = mocktikv.NewCluster(mvcc)
	simkit.Bootstrap(s, w.cluster, sc.Stores, nil)
	w.topo = &topo{w: w, h: simkit.NewHasher(s.Seed, "kstopo")}
	for _, sp := range sc.Splits {
		w.topo.splitExact(w.border(sp))
	}
	w.layout0 = w.topo.Describe()
	w.regions0 = len(w.cluster.GetAllRegions())

	w.front = &front{w: w, h: simkit.NewHasher(s.Seed, "front")}
	switch {
	case sc.Kind == "raw":
		w.front.raw = true
	case sc.Backend == "R":
		w.ref = refkv.NewServer(w.cluster)
		w.front.inner = w.ref
	default:
		w.front.inner = mocktikv.NewRPCClient(w.cluster, mvcc, nil)
	}
	w.placeSentinels()

	w.net = simkit.NewNet(s, w.front)
	w.net.Topo = w.topo
	w.net.Describe = w.topo.Describe
	w.net.Jitter = time.Duration(sc.Net.JitterUs) * time.Microsecond
	for k, f := range sc.Net.Plan {
		w.net.Plan[k] = f
	}
	w.net.RandomFaults = sc.Net.Random
	w.net.FaultRate = sc.Net.Rate
	w.net.FaultKinds = sc.Net.Kinds
	// UnsafeDestroyRange is addressed to a store, not to a region: no region error can answer it.
	// The dead writer's requests are never disturbed except by its planned death.
	wc := -1
	if sc.Writer != nil {
		wc = sc.Writer.Client
	}
	w.net.FaultFilter = func(r *simkit.RPCRecord) bool { return r.Client != wc && r.Type != tikvrpc.CmdUnsafeDestroyRange }
	w.mon = newMonitor(w)

	metas := map[string]*keyspacepb.KeyspaceMeta{}
	for _, k := range w.kss {
		metas[k.Name] = &keyspacepb.KeyspaceMeta{Keyspace: &keyspacepb.KeyspaceMeta_Id{Id: k.ID}, Name: k.Name, State: keyspacepb.KeyspaceState_ENABLED}
	}
	for c, ks := range sc.Clients {
		k := w.kss[ks]
		pdc := simkit.NewPD(s, w.net, c, w.tso, mocktikv.NewPDClient(w.cluster))
		pdc.ParkQueries = sc.ParkPD
		kpd := ksPD{PD: pdc, metas: metas}
		wire := &wireTap{Client: w.net.NewConn(c), mon: w.mon, client: c}
		if sc.Kind == "raw" {
			// the way rawkv.NewClientWithOpts assembles an API v2 client: keyspace meta from PD, a
			// raw-mode v2 codec PD client, a codec-aware RPC client, api version V2
			codecPD, err := locate.NewCodecPDClientWithKeyspace(apicodec.ModeRaw, kpd, k.Name)
			if err != nil {
				return nil, err
			}
			rpc := &apiTap{Client: tikv.VerifNewCodecClient(wire, codecPD.GetCodec()), mon: w.mon, client: c}
			rc := rawkv.VerifNewClient(kvrpcpb.APIVersion_V2, codecPD, rpc)
			rc.SetColumnFamily(cfName)
			rc.SetAtomicForCAS(true)
			w.raws = append(w.raws, rc)
			continue
		}
		hijack := func(inner tikv.Client) tikv.Client { return &apiTap{Client: inner, mon: w.mon, client: c} }
		st, err := tikv.NewTestKeyspaceTiKVStore(wire, kpd, hijack, nil, 0, keyspacepb.KeyspaceMeta{Keyspace: &keyspacepb.KeyspaceMeta_Id{Id: k.ID}, Name: k.Name, State: keyspacepb.KeyspaceState_ENABLED})
		if err != nil {
			return nil, err
		}
		w.stores = append(w.stores, st)
	}
	n := len(sc.Clients)
	s.OnAbort = func() { w.net.CutAll(n) }
	return w, nil
}

func (w *world) close() {
	w.net.Shutdown()
	for _, st := range w.stores {
		_ = st.Close()
	}
	for _, c := range w.raws {
		_ = c.Close()
	}
	w.mvcc.VerifCloseAllDBs()
}

// placeSentinels writes, by direct store access, records just outside A's bounds and
// unprefixed (API v1 style) records around the whole keyspace area.
func (w *world) placeSentinels() {
	a, b1, b2 := w.kss[ksA], w.kss[ksB1], w.kss[ksB2]
	add := func(k []byte, v string) { w.sentinels = append(w.sentinels, [2][]byte{k, []byte(v)}) }
	add(b1.enc([]byte("\xff\xff\xff\xff")), "SENTINEL-before-A") // the last keys before A's prefix
	add(b1.enc([]byte("\xff\xff\xff\xff\xff\xff\xff\xff\xff")), "SENTINEL-before-A-2")
	add(b2.enc([]byte("\x00")), "SENTINEL-after-A-end") // first keys after A's end bound
	if !w.sc.B2Client {
		add(append([]byte{}, a.End...), "SENTINEL-at-A-end") // exactly A's end bound
	}
	add([]byte("a"), "SENTINEL-v1-a")
	// (no record shorter than a four-byte prefix under the mode byte: such a key cannot exist in an
	// API v2 store, and for a keyspace whose end bound ends in zero bytes it would sort inside the
	// byte range [prefix, end) without carrying the prefix)
	add([]byte{w.mode, 0xff, 0xff, 0xff, 0xff, 0xff}, "SENTINEL-after-all-keyspaces")
	// (not the bare next mode byte: "y" sorts inside [prefix, end) of keyspace 0xFFFFFF, whose end
	// bound is "y\x00\x00\x00", without carrying its prefix - see CHECK.md, observations)
	add([]byte{w.mode + 1, 0, 0, 0}, "SENTINEL-next-mode")
	for _, s := range w.sentinels {
		switch {
		case w.sc.Kind == "raw":
			w.mvcc.RawPut(cfName, s[0], s[1])
		case w.ref != nil:
			m := []*kvrpcpb.Mutation{{Op: kvrpcpb.Op_Put, Key: s[0], Value: s[1]}}
			w.ref.Store.Prewrite(m, refkv.PrewriteOpts{StartTS: 1, Primary: s[0], TTL: 1})
			w.ref.Store.Commit([][]byte{s[0]}, 1, 2)
		default:
			errs := w.mvcc.Prewrite(&kvrpcpb.PrewriteRequest{Mutations: []*kvrpcpb.Mutation{{Op: kvrpcpb.Op_Put, Key: s[0], Value: s[1]}}, PrimaryLock: s[0], StartVersion: 1, LockTtl: 1})
			for _, e := range errs {
				if e != nil {
					panic(fmt.Sprintf("sentinel prewrite: %v", e))
				}
			}
			if err := w.mvcc.Commit([][]byte{s[0]}, 1, 2); err != nil {
				panic(fmt.Sprintf("sentinel commit: %v", err))
			}
		}
	}
}

// sentinelsOf lists the sentinels that are legal logical keys of keyspace ks (they are part of
// what its own client must see).
func (w *world) sentinelsOf(ks int) map[string]string {
	out := map[string]string{}
	for _, s := range w.sentinels {
		if w.kss[ks].has(s[0]) {
			out[string(s[0][4:])] = string(s[1])
		}
	}
	return out
}

func (w *world) scheduleTopo() {
	for i, ev := range w.sc.Topo {
		ev := ev
		w.sim.Submit(fmt.Sprintf("topo%d", i), time.Duration(ev.AtMs)*time.Millisecond, uint64(i), func() {
			switch ev.Kind {
			case "split":
				w.topo.splitExact(w.border(ev.At))
			case "merge":
				w.topo.MergeAt(w.border(ev.At))
			case "leader":
				w.topo.MoveLeaderOf(w.border(ev.At))
			}
		})
	}
}

// ---------------------------------------------------------------------------------------------
// topology (region borders are memcomparable-encoded physical keys, as API v2 has them in
// both modes)

type topo struct {
	w       *world
	h       *simkit.Hasher
	n       int
	changes int
}

func (t *topo) splitExact(key []byte) bool {
	if len(key) == 0 {
		return false
	}
	c := t.w.cluster
	region, leader, _, _ := c.GetRegionByKey(mocktikv.NewMvccKey(key))
	if region == nil || bytes.Equal(region.StartKey, mocktikv.NewMvccKey(key)) {
		return false
	}
	newRegionID := c.AllocID()
	peerIDs := c.AllocIDs(len(region.Peers))
	var leaderPeer uint64
	for i, p := range region.Peers {
		if leader != nil && p.StoreId == leader.StoreId {
			leaderPeer = peerIDs[i]
		}
	}
	if leaderPeer == 0 {
		leaderPeer = peerIDs[0]
	}
	c.VerifSplit(region.Id, newRegionID, key, peerIDs, leaderPeer)
	t.w.sim.Count("topo.split")
	t.changes++
	return true
}

// SplitAt implements simkit.Topo (fates topo-split / topo-split-aft): the region holding the
// request's first key is split at that key or at a seed-chosen known border inside it.
func (t *topo) SplitAt(key []byte) bool {
	region, _, _, _ := t.w.cluster.GetRegionByKey(mocktikv.NewMvccKey(key))
	if region == nil {
		return false
	}
	start, end := mocktikv.MvccKey(region.StartKey).Raw(), mocktikv.MvccKey(region.EndKey).Raw()
	var cands [][]byte
	inside := func(k []byte) bool {
		return bytes.Compare(k, start) > 0 && (len(end) == 0 || bytes.Compare(k, end) < 0)
	}
	for ks := 0; ks < 3; ks++ {
		for _, b := range append([]string{""}, innerBorders...) {
			if k := t.w.border(SplitSpec{ks, b}); inside(k) {
				cands = append(cands, k)
			}
		}
	}
	if len(key) > 0 && inside(key) {
		cands = append(cands, key)
	}
	if len(cands) == 0 {
		return false
	}
	t.n++
	return t.splitExact(cands[t.h.Intn(fmt.Sprintf("split%d", t.n), len(cands))])
}

func (t *topo) MergeAt(key []byte) bool {
	c := t.w.cluster
	region, _, _, _ := c.GetRegionByKey(mocktikv.NewMvccKey(key))
	if region == nil || len(region.EndKey) == 0 {
		return false
	}
	for _, r := range c.GetAllRegions() {
		if bytes.Equal(r.Meta.StartKey, region.EndKey) {
			c.VerifMerge(region.Id, r.Meta.Id)
			t.w.sim.Count("topo.merge")
			t.changes++
			return true
		}
	}
	return false
}

// MoveLeaderOf implements simkit.Topo.
func (t *topo) MoveLeaderOf(key []byte) bool {
	c := t.w.cluster
	region, leader, _, _ := c.GetRegionByKey(mocktikv.NewMvccKey(key))
	if region == nil || len(region.Peers) < 2 {
		return false
	}
	idx := 0
	for i, p := range region.Peers {
		if leader != nil && p.Id == leader.Id {
			idx = i
		}
	}
	c.ChangeLeader(region.Id, region.Peers[(idx+1)%len(region.Peers)].Id)
	t.w.sim.Count("topo.leader-move")
	t.changes++
	return true
}

func (t *topo) sortedRegions() []*metapb.Region {
	var rs []*metapb.Region
	for _, r := range t.w.cluster.GetAllRegions() {
		rs = append(rs, r.Meta)
	}
	sort.Slice(rs, func(i, j int) bool { return bytes.Compare(rs[i].StartKey, rs[j].StartKey) < 0 })
	return rs
}

// Describe renders the layout with keyspace-relative names.
func (t *topo) Describe() string {
	var sb strings.Builder
	for _, r := range t.sortedRegions() {
		fmt.Fprintf(&sb, "[r%d %s..%s v%d] ", r.Id, t.w.fmtPhys(mocktikv.MvccKey(r.StartKey).Raw()), t.w.fmtPhys(mocktikv.MvccKey(r.EndKey).Raw()), r.RegionEpoch.GetVersion())
	}
	return sb.String()
}

// fmtPhys renders a physical key as <keyspace>+"logical".
func (w *world) fmtPhys(k []byte) string {
	if len(k) == 0 {
		return `""`
	}
	for _, ks := range w.kss {
		if ks.has(k) {
			return fmt.Sprintf("%s+%q", ks, k[4:])
		}
	}
	if bytes.Equal(k, w.kss[ksB2].End) {
		return "end(B2)"
	}
	return fmt.Sprintf("%q", k)
}

// ---------------------------------------------------------------------------------------------
// front: what stands between the network and the server

// front is the server side of the wire:
//   - every message crosses a protobuf encode/decode hop, as over gRPC (an empty non-nil bound
//     arrives as nil; nothing the server does to a response can reach into client memory);
//   - transactional worlds: requests go to the repository's mock server or to the reference
//     server; two request shapes the mock mishandles are answered here (see serveTxn);
//   - raw worlds: the raw commands are executed here on the mock's raw engine with the region
//     range decoded from its memcomparable form (the mock's raw handlers compare raw request keys
//     with the encoded region bounds, which is only right for API v1 raw clusters); region, epoch
//     and leader checks are the mock's own (mocktikv.Session);
//   - CmdSplitRegion splits with TiKV's epoch arithmetic (the mock's handler creates regions with
//     a constant low version);
//   - a seed-chosen share of requests is answered with an EpochNotMatch error listing every
//     region of the cluster.
type front struct {
	w         *world
	inner     simkit.Backend
	raw       bool
	h         *simkit.Hasher
	n         int
	misrouted []string
}

type wireMsg interface {
	Marshal() ([]byte, error)
	Unmarshal([]byte) error
}

func wireHop(m interface{}) interface{} {
	wm, ok := m.(wireMsg)
	if !ok || m == nil || reflect.ValueOf(m).IsNil() {
		return m
	}
	b, err := wm.Marshal()
	if err != nil {
		panic(fmt.Sprintf("keyspacesim: marshal %T: %v", m, err))
	}
	fresh := reflect.New(reflect.TypeOf(m).Elem()).Interface().(wireMsg)
	if err := fresh.Unmarshal(b); err != nil {
		panic(fmt.Sprintf("keyspacesim: unmarshal %T: %v", m, err))
	}
	return fresh
}

func (f *front) SendRequest(ctx context.Context, addr string, req *tikvrpc.Request, timeout time.Duration) (*tikvrpc.Response, error) {
	rc := *req
	rc.Req = wireHop(req.Req)
	resp, err := f.serve(ctx, addr, &rc, timeout)
	if resp != nil && resp.Resp != nil {
		resp = &tikvrpc.Response{Resp: wireHop(resp.Resp)}
	}
	return resp, err
}

func (f *front) session(addr string, req *tikvrpc.Request) (*mocktikv.Session, *errorpb.Error, error) {
	stores, err := f.w.cluster.GetAndCheckStoreByAddr(addr)
	if err != nil {
		return nil, nil, err
	}
	var storeID uint64
	for _, s := range stores {
		if s.GetState() != metapb.StoreState_Offline && s.GetState() != metapb.StoreState_Tombstone {
			storeID = s.GetId()
			break
		}
	}
	if storeID == 0 {
		return nil, nil, errors.New("connection refused")
	}
	sess := mocktikv.VerifNewSession(f.w.cluster, storeID)
	if re := sess.CheckRequestContext(&req.Context); re != nil {
		return nil, re, nil
	}
	return sess, nil, nil
}

func (f *front) serve(ctx context.Context, addr string, req *tikvrpc.Request, timeout time.Duration) (*tikvrpc.Response, error) {
	f.n++
	if f.w.sc.EpochAllRate > 0 && req.Type != tikvrpc.CmdSplitRegion && req.Type != tikvrpc.CmdUnsafeDestroyRange && f.h.Float(fmt.Sprintf("all%d", f.n)) < f.w.sc.EpochAllRate {
		var cur []*metapb.Region
		cur = append(cur, f.w.topo.sortedRegions()...)
		f.w.sim.Count("fault.epoch-not-match-all-regions")
		return tikvrpc.GenRegionErrorResp(req, &errorpb.Error{Message: "sim: epoch not match, every region listed", EpochNotMatch: &errorpb.EpochNotMatch{CurrentRegions: cur}})
	}
	if f.w.sc.EpochAllRate > 0 && req.Type != tikvrpc.CmdSplitRegion && req.Type != tikvrpc.CmdUnsafeDestroyRange && f.h.Float(fmt.Sprintf("kni%d", f.n)) < f.w.sc.EpochAllRate/2 {
		// a KeyNotInRegion answer (TiKV sends it when the addressed region does not hold the key
		// although the epoch matched): it names the request's key and the region's bounds
		var hits []fieldHit
		walk(reflect.ValueOf(req.Req), "", &hits, map[string]bool{})
		region, _ := f.w.cluster.GetRegion(req.Context.GetRegionId())
		for _, h := range hits {
			if !h.empty && region != nil && inRange(mocktikv.MvccKey(region.StartKey).Raw(), mocktikv.MvccKey(region.EndKey).Raw(), h.val) {
				f.w.sim.Count("fault.key-not-in-region")
				return tikvrpc.GenRegionErrorResp(req, &errorpb.Error{Message: "sim: key not in region", KeyNotInRegion: &errorpb.KeyNotInRegion{Key: h.val, RegionId: region.Id, StartKey: region.StartKey, EndKey: region.EndKey}})
			}
		}
	}
	if req.Type == tikvrpc.CmdSplitRegion {
		return f.serveSplit(addr, req)
	}
	if req.Type == tikvrpc.CmdUnsafeDestroyRange {
		// sent to every store, no region context; the mock panics "unimplemented". Every record and
		// lock of [start, end) is removed from the store's engine.
		r := req.UnsafeDestroyRange()
		switch {
		case f.raw:
			f.w.mvcc.RawDeleteRange(cfName, r.StartKey, r.EndKey)
		case f.w.ref != nil:
			f.w.ref.Store.DeleteRange(r.StartKey, r.EndKey)
		default:
			if err := f.w.mvcc.DeleteRange(r.StartKey, r.EndKey); err != nil {
				return &tikvrpc.Response{Resp: &kvrpcpb.UnsafeDestroyRangeResponse{Error: err.Error()}}, nil
			}
		}
		return &tikvrpc.Response{Resp: &kvrpcpb.UnsafeDestroyRangeResponse{}}, nil
	}
	if f.raw {
		return f.serveRaw(addr, req)
	}
	if req.Type == tikvrpc.CmdScan {
		// The mock panics ("KvScan: startKey not in region") on a reverse scan of the empty range
		// [k, k) when k is the end key of the addressed region, a request the client legitimately
		// emits after a full batch ended exactly on its lower bound; TiKV answers with no pairs.
		r := req.Scan()
		if r.Reverse && len(r.StartKey) > 0 && bytes.Equal(r.StartKey, r.EndKey) {
			return &tikvrpc.Response{Resp: &kvrpcpb.ScanResponse{}}, nil
		}
	}
	return f.inner.SendRequest(ctx, addr, req, timeout)
}

func (f *front) serveSplit(addr string, req *tikvrpc.Request) (*tikvrpc.Response, error) {
	_, re, err := f.session(addr, req)
	if err != nil {
		return nil, err
	}
	if re != nil {
		return tikvrpc.GenRegionErrorResp(req, re)
	}
	out := &kvrpcpb.SplitRegionResponse{}
	for i, key := range req.SplitRegion().GetSplitKeys() {
		mk := mocktikv.NewMvccKey(key)
		left, _, _, _ := f.w.cluster.GetRegionByKey(mk)
		if left == nil || bytes.Equal(left.StartKey, mk) {
			continue
		}
		leftID := left.Id
		if !f.w.topo.splitExact(key) {
			continue
		}
		if i == 0 || len(out.Regions) == 0 {
			l, _ := f.w.cluster.GetRegion(leftID)
			out.Regions = append(out.Regions, l)
		}
		right, _, _, _ := f.w.cluster.GetRegionByKey(mk)
		out.Regions = append(out.Regions, right)
	}
	return &tikvrpc.Response{Resp: out}, nil
}

func inRange(start, end, key []byte) bool {
	return bytes.Compare(start, key) <= 0 && (len(end) == 0 || bytes.Compare(key, end) < 0)
}

func minEnd(a, b []byte) []byte {
	if len(a) == 0 {
		return b
	}
	if len(b) == 0 || bytes.Compare(a, b) < 0 {
		return a
	}
	return b
}

// serveRaw executes a raw command on the mock's raw engine.
func (f *front) serveRaw(addr string, req *tikvrpc.Request) (*tikvrpc.Response, error) {
	sess, re, err := f.session(addr, req)
	if err != nil {
		return nil, err
	}
	if re != nil {
		return tikvrpc.GenRegionErrorResp(req, re)
	}
	start, end := sess.VerifRegionRange()
	region, _ := f.w.cluster.GetRegion(req.Context.GetRegionId())
	var notIn *errorpb.Error
	check := func(keys ...[]byte) bool {
		for _, k := range keys {
			if !inRange(start, end, k) {
				f.misrouted = append(f.misrouted, fmt.Sprintf("%s: key %s not in region %d [%s,%s) although the epoch matched", req.Type, f.w.fmtPhys(k), req.Context.GetRegionId(), f.w.fmtPhys(start), f.w.fmtPhys(end)))
				notIn = &errorpb.Error{Message: "key not in region", KeyNotInRegion: &errorpb.KeyNotInRegion{Key: k, RegionId: region.GetId(), StartKey: region.GetStartKey(), EndKey: region.GetEndKey()}}
				return false
			}
		}
		return true
	}
	e := f.w.mvcc
	resp := &tikvrpc.Response{}
	switch r := req.Req.(type) {
	case *kvrpcpb.RawGetRequest:
		if check(r.Key) {
			v := e.RawGet(r.Cf, r.Key)
			resp.Resp = &kvrpcpb.RawGetResponse{NotFound: v == nil, Value: v}
		}
	case *kvrpcpb.RawGetKeyTTLRequest:
		if check(r.Key) {
			resp.Resp = &kvrpcpb.RawGetKeyTTLResponse{NotFound: e.RawGet(r.Cf, r.Key) == nil}
		}
	case *kvrpcpb.RawBatchGetRequest:
		if check(r.Keys...) {
			vs := e.RawBatchGet(r.Cf, r.Keys)
			out := &kvrpcpb.RawBatchGetResponse{}
			for i, k := range r.Keys {
				out.Pairs = append(out.Pairs, &kvrpcpb.KvPair{Key: k, Value: vs[i]})
			}
			resp.Resp = out
		}
	case *kvrpcpb.RawPutRequest:
		if check(r.Key) {
			e.RawPut(r.Cf, r.Key, r.Value)
			resp.Resp = &kvrpcpb.RawPutResponse{}
		}
	case *kvrpcpb.RawBatchPutRequest:
		var ks, vs [][]byte
		for _, p := range r.Pairs {
			ks, vs = append(ks, p.Key), append(vs, p.Value)
		}
		if check(ks...) {
			e.RawBatchPut(r.Cf, ks, vs)
			resp.Resp = &kvrpcpb.RawBatchPutResponse{}
		}
	case *kvrpcpb.RawDeleteRequest:
		if check(r.Key) {
			e.RawDelete(r.Cf, r.Key)
			resp.Resp = &kvrpcpb.RawDeleteResponse{}
		}
	case *kvrpcpb.RawBatchDeleteRequest:
		if check(r.Keys...) {
			e.RawBatchDelete(r.Cf, r.Keys)
			resp.Resp = &kvrpcpb.RawBatchDeleteResponse{}
		}
	case *kvrpcpb.RawDeleteRangeRequest:
		if check(r.StartKey) {
			// TiKV refuses a range that leaves the region; the range is taken as sent
			if len(end) > 0 && (len(r.EndKey) == 0 || bytes.Compare(r.EndKey, end) > 0) {
				f.misrouted = append(f.misrouted, fmt.Sprintf("RawDeleteRange: end %s beyond the end %s of region %d", f.w.fmtPhys(r.EndKey), f.w.fmtPhys(end), region.GetId()))
			}
			e.RawDeleteRange(r.Cf, r.StartKey, r.EndKey)
			resp.Resp = &kvrpcpb.RawDeleteRangeResponse{}
		}
	case *kvrpcpb.RawScanRequest:
		var pairs []mocktikv.Pair
		if !r.Reverse {
			if check(r.StartKey) {
				pairs = e.RawScan(r.Cf, r.StartKey, minEnd(r.EndKey, end), int(r.Limit))
			}
		} else {
			// [end_key, start_key) backwards, clipped to the region
			lo, hi := r.EndKey, minEnd(r.StartKey, end)
			if bytes.Compare(lo, start) < 0 {
				lo = start
			}
			if len(hi) == 0 {
				hi = []byte{0xff, 0xff, 0xff, 0xff, 0xff, 0xff, 0xff, 0xff}
			}
			pairs = e.RawReverseScan(r.Cf, hi, lo, int(r.Limit))
		}
		if notIn == nil {
			out := &kvrpcpb.RawScanResponse{}
			for _, p := range pairs {
				kv := &kvrpcpb.KvPair{Key: p.Key, Value: p.Value}
				if r.KeyOnly {
					kv.Value = nil
				}
				out.Kvs = append(out.Kvs, kv)
			}
			resp.Resp = out
		}
	case *kvrpcpb.RawChecksumRequest:
		out := &kvrpcpb.RawChecksumResponse{}
		for _, rg := range r.Ranges {
			if !check(rg.StartKey) {
				break
			}
			x, n, b, err := e.RawChecksum(cfName, rg.StartKey, minEnd(rg.EndKey, end))
			if err != nil {
				return nil, err
			}
			out.Checksum ^= x
			out.TotalKvs += n
			out.TotalBytes += b
		}
		resp.Resp = out
	case *kvrpcpb.RawCASRequest:
		if check(r.Key) {
			expected := r.GetPreviousValue()
			if r.GetPreviousNotExist() {
				expected = nil
			} else if expected == nil {
				expected = []byte{}
			}
			old, ok, err := e.RawCompareAndSwap(r.Cf, r.Key, expected, r.Value)
			if err != nil {
				resp.Resp = &kvrpcpb.RawCASResponse{Error: err.Error()}
			} else {
				resp.Resp = &kvrpcpb.RawCASResponse{Succeed: ok, PreviousNotExist: old == nil, PreviousValue: old}
			}
		}
	default:
		return nil, errors.Errorf("keyspacesim: unsupported raw request type %v", req.Type)
	}
	if notIn != nil {
		return tikvrpc.GenRegionErrorResp(req, notIn)
	}
	return resp, nil
}
