package keyspacesim

import (
	"context"
	"fmt"
	"sort"
	"strings"
	"time"

	"github.com/pingcap/errors"
	"github.com/pingcap/kvproto/pkg/kvrpcpb"
	"github.com/tikv/client-go/v2/config/retry"
	tikverr "github.com/tikv/client-go/v2/error"
	"github.com/tikv/client-go/v2/internal/locate"
	"github.com/tikv/client-go/v2/kv"
	"github.com/tikv/client-go/v2/oracle"
	"github.com/tikv/client-go/v2/rawkv"
	"github.com/tikv/client-go/v2/tikv"
	"github.com/tikv/client-go/v2/txnkv/transaction"
	"github.com/tikv/client-go/v2/txnkv/txnlock"
	"github.com/tikv/client-go/v2/verifsim/simkit"
)

var oracleOpt = oracle.Option{TxnScope: oracle.GlobalTxnScope}

// LockDesc is a lock as described to the caller (logical) or as found in the store (physical).
type LockDesc struct {
	Key, Primary string
	TxnID        uint64
}

// LocDesc is a region location handed out by the region cache.
type LocDesc struct {
	ID         uint64
	Start, End string
}

// OpRec is the recorded outcome of one call.
type OpRec struct {
	Phase, Actor, Idx int
	Ks                int
	Op                *Op
	Inv, Ret          uint64
	Faults            int    // injected faults that fired on this client's requests while the call ran
	Err               string // "" | class[: message]
	ErrKeys           []string
	Skipped           string
	// transactional
	StartTS    uint64
	Vals       map[string]*string
	Pairs      [][2]string
	TS         uint64
	Locks      []LockDesc
	TruthLocks [2][]LockDesc // locks of the client's keyspace in the store before / after a scanlocks call (logical form)
	Locs       []LocDesc
	RegionIDs  []uint64
	MustRoll   bool // commit was turned into a rollback because a lock step of the transaction failed
	// raw
	Val     *string
	ValList []*string
	Keys    []string
	Values  []string
	TTL     *uint64
	Swapped bool
	Sum     rawkv.RawChecksum
}

type writerRec struct {
	Committed int // keys on which the store holds a commit record of the transaction
	StartTS   uint64
	CommitErr string
	Primary   string
}

func sp(b []byte) *string {
	if b == nil {
		return nil
	}
	s := string(b)
	return &s
}

func classify(err error) (string, []string) {
	if err == nil {
		return "", nil
	}
	var keys []string
	cause := errors.Cause(err)
	switch e := cause.(type) {
	case *tikverr.ErrKeyExist:
		return "keyexists", []string{"key=" + string(e.GetKey())}
	case *tikverr.ErrWriteConflict:
		return "writeconflict", []string{"key=" + string(e.GetKey()), "primary=" + string(e.GetPrimary())}
	case *tikverr.ErrDeadlock:
		return "deadlock", []string{"key=" + string(e.GetLockKey()), "key=" + string(e.GetDeadlockKey())}
	case *tikverr.ErrAssertionFailed:
		return "assertion", []string{"key=" + string(e.GetKey())}
	}
	switch {
	case tikverr.IsErrorUndetermined(err):
		return "undetermined", nil
	case tikverr.IsErrWriteConflict(err):
		return "writeconflict", nil
	case tikverr.IsErrNotFound(err):
		return "notfound", nil
	case cause == tikverr.ErrLockAcquireFailAndNoWaitSet:
		return "nowait", nil
	}
	msg := err.Error()
	if len(msg) > 240 {
		msg = msg[:240]
	}
	return "other: " + msg, keys
}

type slotState struct {
	txn      *transaction.KVTxn
	pess     bool
	mustRoll bool
}

// onSim runs fn on the simulator goroutine and waits for it. The store objects are only ever
// touched there: the mock sleeps inside its handlers while holding its mutex, and a goroutine
// waiting for that mutex (not a durable block) would keep the simulated clock from advancing.
func (w *world) onSim(fn func()) {
	done := make(chan struct{})
	w.probeMu.Lock()
	w.probes++
	n := w.probes
	w.probeMu.Unlock()
	w.sim.Submit(fmt.Sprintf("probe%d", n), 0, uint64(n), func() {
		fn()
		close(done)
	})
	<-done
}

// logicalLocksOf lists the locks in the store inside keyspace ks in logical form (ground truth).
func (w *world) logicalLocksOf(ks int) []LockDesc {
	var out []LockDesc
	k := w.kss[ks]
	var locks []*kvrpcpb.LockInfo
	w.onSim(func() { locks = w.dumpLocks() })
	for _, l := range locks {
		if k.has(l.Key) {
			p := l.PrimaryLock
			if k.has(p) {
				p = p[4:]
			}
			out = append(out, LockDesc{Key: string(l.Key[4:]), Primary: string(p), TxnID: l.LockVersion})
		}
	}
	sort.Slice(out, func(i, j int) bool { return out[i].Key < out[j].Key })
	return out
}

func (w *world) dumpLocks() []*kvrpcpb.LockInfo {
	if w.ref != nil {
		return w.ref.VerifDumpLocks()
	}
	return w.mvcc.VerifDumpLocks()
}

// faultsOn counts the injected faults that fired so far.
func (w *world) faultsFired() int { return len(w.net.Fired) }

func (w *world) record(phase int, rec *OpRec) {
	w.histMu.Lock()
	k := fmt.Sprintf("%d/%d", phase, rec.Actor)
	w.hist[k] = append(w.hist[k], rec)
	w.histMu.Unlock()
}

func optBytes(w *world, s string) []byte {
	if s == "" {
		return nil
	}
	return w.key(s)
}

func drain(it interface {
	Valid() bool
	Next() error
	Key() []byte
	Value() []byte
	Close()
}, limit int) ([][2]string, error) {
	defer it.Close()
	pairs := [][2]string{}
	for it.Valid() {
		pairs = append(pairs, [2]string{string(it.Key()), string(it.Value())})
		if limit > 0 && len(pairs) >= limit {
			break
		}
		if len(pairs) > 200 {
			return pairs, errors.New("runaway iterator: more than 200 pairs")
		}
		if err := it.Next(); err != nil {
			return pairs, err
		}
	}
	return pairs, nil
}

func (w *world) runTxnActor(phase, ai int, a *Actor) {
	s := w.sim
	time.Sleep(time.Duration(a.StartUs) * time.Microsecond)
	store := w.stores[a.Client]
	ctx := context.Background()
	var slots [2]*slotState
	var remembered []uint64
	freshTS := func() (uint64, error) { return store.GetOracle().GetTimestamp(ctx, &oracleOpt) }
	for i := range a.Ops {
		if s.Aborted != "" {
			return
		}
		op := &a.Ops[i]
		if op.Kind == "sleep" {
			time.Sleep(time.Duration(op.SleepMs) * time.Millisecond)
			continue
		}
		time.Sleep(37 * time.Microsecond)
		rec := &OpRec{Phase: phase, Actor: ai, Idx: i, Ks: a.Ks, Op: op}
		fired := w.faultsFired()
		rec.Inv = s.Stamp()
		var err error
		sl := slots[op.Slot&1]
		needTxn := map[string]bool{"set": true, "del": true, "insert": true, "get": true, "bget": true, "iter": true, "riter": true, "lock": true, "commit": true, "rollback": true}
		if needTxn[op.Kind] && sl == nil {
			rec.Skipped = "no open transaction in the slot"
			w.record(phase, rec)
			continue
		}
		switch op.Kind {
		case "begin":
			if sl != nil {
				_ = sl.txn.Rollback()
			}
			var txn *transaction.KVTxn
			if op.Pipe {
				txn, err = store.Begin(tikv.WithDefaultPipelinedTxn())
			} else {
				txn, err = store.Begin()
			}
			if err == nil {
				if !op.Pipe {
					txn.SetPessimistic(op.Pess)
					txn.SetEnableAsyncCommit(op.Async)
					txn.SetEnable1PC(op.OnePC)
				}
				rec.StartTS = txn.StartTS()
				slots[op.Slot&1] = &slotState{txn: txn, pess: op.Pess}
			} else {
				slots[op.Slot&1] = nil
			}
		case "set":
			err = sl.txn.Set(w.key(op.Keys[0]), []byte(op.Vals[0]))
		case "del":
			err = sl.txn.Delete(w.key(op.Keys[0]))
		case "insert":
			err = sl.txn.GetMemBuffer().SetWithFlags(w.key(op.Keys[0]), []byte(op.Vals[0]), kv.SetPresumeKeyNotExists)
		case "get", "snapget":
			var v kv.ValueEntry
			k := w.key(op.Keys[0])
			if op.Kind == "get" {
				v, err = sl.txn.Get(ctx, k)
			} else {
				var ts uint64
				if ts, err = w.snapTS(op, remembered, freshTS); err != nil {
					break
				}
				rec.TS = ts
				v, err = store.GetSnapshot(ts).Get(ctx, k)
			}
			rec.Vals = map[string]*string{}
			if err == nil {
				rec.Vals[string(k)] = sp(append([]byte{}, v.Value...))
			} else if tikverr.IsErrNotFound(err) {
				rec.Vals[string(k)], err = nil, nil
			}
		case "bget", "snapbget":
			var m map[string]kv.ValueEntry
			ks := w.keys(op.Keys)
			if op.Kind == "bget" {
				m, err = sl.txn.BatchGet(ctx, ks)
			} else {
				var ts uint64
				if ts, err = w.snapTS(op, remembered, freshTS); err != nil {
					break
				}
				rec.TS = ts
				m, err = store.GetSnapshot(ts).BatchGet(ctx, ks)
			}
			if err == nil {
				rec.Vals = map[string]*string{}
				for _, k := range ks {
					if v, ok := m[string(k)]; ok {
						rec.Vals[string(k)] = sp(append([]byte{}, v.Value...))
					} else {
						rec.Vals[string(k)] = nil
					}
				}
				// nothing but the requested keys may come back
				for k := range m {
					if _, ok := rec.Vals[k]; !ok {
						rec.Vals["!extra:"+k] = sp(m[k].Value)
					}
				}
			}
		case "iter", "riter", "snapiter", "snapriter":
			lo, hi := optBytes(w, op.Lo), optBytes(w, op.Hi)
			rev := strings.HasSuffix(op.Kind, "riter")
			var it interface {
				Valid() bool
				Next() error
				Key() []byte
				Value() []byte
				Close()
			}
			if strings.HasPrefix(op.Kind, "snap") {
				var ts uint64
				if ts, err = w.snapTS(op, remembered, freshTS); err != nil {
					break
				}
				rec.TS = ts
				snap := store.GetSnapshot(ts)
				if op.Batch > 0 {
					snap.SetScanBatchSize(op.Batch)
				}
				snap.SetKeyOnly(op.KeyOnly)
				if rev {
					it, err = snap.IterReverse(hi, lo)
				} else {
					it, err = snap.Iter(lo, hi)
				}
			} else {
				if op.Batch > 0 {
					sl.txn.GetSnapshot().SetScanBatchSize(op.Batch)
				}
				if rev {
					it, err = sl.txn.IterReverse(hi, lo)
				} else {
					it, err = sl.txn.Iter(lo, hi)
				}
			}
			if err == nil {
				rec.Pairs, err = drain(it, op.Limit)
			}
		case "lock":
			var forTS uint64
			if forTS, err = freshTS(); err != nil {
				break
			}
			rec.TS = forTS
			wait := kv.LockAlwaysWait
			if op.NoWait {
				wait = kv.LockNoWait
			}
			lctx := kv.NewLockCtx(forTS, wait, time.Now())
			if op.RetVals {
				lctx.InitReturnValues(len(op.Keys))
			}
			ks := w.keys(op.Keys)
			err = sl.txn.LockKeys(ctx, lctx, ks...)
			if err != nil {
				sl.mustRoll = true
			} else if op.RetVals {
				rec.Vals = map[string]*string{}
				for _, k := range ks {
					rv, ok := lctx.Values[string(k)]
					if !ok || rv.AlreadyLocked {
						continue
					}
					if rv.Exists || len(rv.Value) > 0 {
						rec.Vals[string(k)] = sp(append([]byte{}, rv.Value...))
					} else {
						rec.Vals[string(k)] = nil
					}
				}
				for k := range lctx.Values {
					found := false
					for _, x := range ks {
						found = found || string(x) == k
					}
					if !found {
						rec.Vals["!extra:"+k] = sp(lctx.Values[k].Value)
					}
				}
			}
		case "commit":
			rec.StartTS = sl.txn.StartTS()
			if sl.mustRoll {
				rec.MustRoll = true
				err = sl.txn.Rollback()
			} else {
				err = sl.txn.Commit(ctx)
				if err == nil {
					rec.TS = sl.txn.CommitTS()
				}
			}
			slots[op.Slot&1] = nil
		case "rollback":
			rec.StartTS = sl.txn.StartTS()
			err = sl.txn.Rollback()
			slots[op.Slot&1] = nil
		case "ts":
			var ts uint64
			ts, err = freshTS()
			if err == nil {
				remembered = append(remembered, ts)
				rec.TS = ts
			}
		case "locate", "locend":
			bo := retry.NewBackofferWithVars(ctx, 20000, nil)
			var loc *locate.KeyLocation
			if op.Kind == "locate" {
				loc, err = store.GetRegionCache().LocateKey(bo, w.key(op.Keys[0]))
			} else {
				loc, err = store.GetRegionCache().LocateEndKey(bo, w.key(op.Keys[0]))
			}
			if err == nil {
				rec.Locs = []LocDesc{{ID: loc.Region.GetID(), Start: string(loc.StartKey), End: string(loc.EndKey)}}
			}
		case "locrange":
			if op.Hi != "" && string(w.key(op.Lo)) >= string(w.key(op.Hi)) {
				rec.Skipped = "empty range"
				break
			}
			bo := retry.NewBackofferWithVars(ctx, 20000, nil)
			var locs []*locate.KeyLocation
			if i%4 >= 2 {
				// forget what is cached for the range, so that the answer has to come from PD
				if pre, e := store.GetRegionCache().LocateKeyRange(bo, w.key(op.Lo), w.key(op.Hi)); e == nil {
					for _, l := range pre {
						store.GetRegionCache().InvalidateCachedRegion(l.Region)
					}
				}
			}
			if i%2 == 0 {
				locs, err = store.GetRegionCache().LocateKeyRange(bo, w.key(op.Lo), w.key(op.Hi))
			} else {
				locs, err = store.GetRegionCache().BatchLocateKeyRanges(bo, []kv.KeyRange{{StartKey: w.key(op.Lo), EndKey: w.key(op.Hi)}})
			}
			for _, l := range locs {
				rec.Locs = append(rec.Locs, LocDesc{ID: l.Region.GetID(), Start: string(l.StartKey), End: string(l.EndKey)})
			}
		case "scanlocks":
			rec.TruthLocks[0] = w.logicalLocksOf(a.Ks)
			var locks []*txnlock.Lock
			hi := w.key(op.Hi)
			if len(hi) == 0 {
				hi = []byte{0xff, 0xff, 0xff, 0xff, 0xff} // the probe takes an empty end key as "before every key"
			}
			locks, err = tikv.StoreProbe{KVStore: store}.ScanLocks(ctx, w.key(op.Lo), hi, ^uint64(0)>>1)
			for _, l := range locks {
				rec.Locks = append(rec.Locks, LockDesc{Key: string(l.Key), Primary: string(l.Primary), TxnID: l.TxnID})
			}
			rec.TruthLocks[1] = w.logicalLocksOf(a.Ks)
		case "resolverange":
			if slots[0] != nil || slots[1] != nil {
				rec.Skipped = "a transaction is open"
				break
			}
			var ts uint64
			if ts, err = freshTS(); err != nil {
				break
			}
			rec.TS = ts
			_, err = tikv.ResolveLocksForRange(ctx, tikv.NewRegionLockResolver("keyspacesim", store), ts, w.key(op.Lo), w.key(op.Hi), tikv.NewGcResolveLockMaxBackoffer, uint32(op.Limit))
		case "delrange", "destroyrange":
			if slots[0] != nil || slots[1] != nil {
				rec.Skipped = "a transaction is open"
				break
			}
			// the call removes records and locks below any transaction: it only makes sense on a range
			// nobody is committing in; wait for the client's background commits to land
			for j := 0; j < 40 && !w.mon.quiet(300*time.Millisecond); j++ {
				time.Sleep(100 * time.Millisecond)
			}
			if len(w.logicalLocksOf(a.Ks)) > 0 {
				rec.Skipped = "locks in the keyspace"
				break
			}
			if op.Kind == "destroyrange" {
				err = store.UnsafeDestroyRange(ctx, w.key(op.Lo), w.key(op.Hi))
			} else {
				_, err = store.DeleteRange(ctx, w.key(op.Lo), w.key(op.Hi), 1+i%3)
			}
		case "split":
			if w.sc.RevUnb {
				rec.Skipped = "layout must stay aligned"
				break
			}
			rec.RegionIDs, err = store.SplitRegions(ctx, w.keys(op.Keys), false, nil)
		default:
			panic("unknown txn op " + op.Kind)
		}
		rec.Ret = s.Stamp()
		rec.Faults = w.faultsFired() - fired
		rec.Err, rec.ErrKeys = classify(err)
		w.record(phase, rec)
		s.Count("op." + op.Kind)
		if err != nil {
			s.Count("op-error." + op.Kind)
		}
	}
	for _, sl := range slots {
		if sl != nil {
			_ = sl.txn.Rollback()
		}
	}
}

func (w *world) snapTS(op *Op, remembered []uint64, fresh func() (uint64, error)) (uint64, error) {
	if op.TSRef >= 0 && op.TSRef < len(remembered) {
		return remembered[op.TSRef], nil
	}
	return fresh()
}

// runWriter runs the transaction whose client dies inside Commit.
func (w *world) runWriter(wr *Writer) {
	w.writer = &writerRec{}
	store := w.stores[wr.Client]
	ctx := context.Background()
	txn, err := store.Begin()
	if err != nil {
		w.writer.CommitErr = "begin: " + err.Error()
		return
	}
	w.writer.StartTS = txn.StartTS()
	txn.SetPessimistic(wr.Pess)
	txn.SetEnableAsyncCommit(wr.Async)
	txn.SetEnable1PC(wr.OnePC)
	ks := w.keys(wr.Keys)
	if wr.Pess {
		forTS, err := store.GetOracle().GetTimestamp(ctx, &oracleOpt)
		if err == nil {
			err = txn.LockKeys(ctx, kv.NewLockCtx(forTS, kv.LockAlwaysWait, time.Now()), ks...)
		}
		if err != nil {
			w.writer.CommitErr = "lock: " + err.Error()
			_ = txn.Rollback()
			return
		}
	}
	for i, k := range ks {
		if wr.Vals[i] == "" {
			_ = txn.Delete(k)
		} else {
			_ = txn.Set(k, []byte(wr.Vals[i]))
		}
	}
	w.net.SetMark(wr.Client, "wcommit")
	fate := simkit.CrashAfter
	if wr.CrashBefore {
		fate = simkit.CrashBefore
	}
	w.net.Plan[fmt.Sprintf("ord:%d:wcommit+%d", wr.Client, wr.CrashAt)] = fate
	err = txn.Commit(ctx)
	w.writer.CommitErr, _ = classify(err)
	if err != nil {
		// the process is dead: stop what is left of it (the lock keeper of a pessimistic transaction
		// would go on trying to send heart beats for the rest of the run); nothing it sends arrives
		_ = txn.Rollback()
	}
	if !w.net.IsCut(wr.Client) {
		// the commit needed fewer requests than the crash position: the client dies now
		w.net.Cut(wr.Client)
		w.sim.Count("writer.finished-before-crash")
	} else {
		w.sim.Count("writer.crashed-inside-commit")
	}
}
