package keyspacesim

import (
	"bytes"
	"context"
	"fmt"
	"reflect"
	"sort"
	"strings"
	"sync"
	"sync/atomic"
	"time"

	"github.com/pingcap/kvproto/pkg/errorpb"
	"github.com/pingcap/kvproto/pkg/kvrpcpb"
	"github.com/tikv/client-go/v2/tikv"
	"github.com/tikv/client-go/v2/tikvrpc"
	"github.com/tikv/client-go/v2/util/async"
)

// The wire monitor. Two taps per client:
//
//   wireTap sits BELOW the codec (between tikv.CodecClient and the network): it sees every
//   request exactly as it would leave the process. Every key-bearing field must lie inside the
//   client's keyspace, the context must carry API v2 and the keyspace id.
//
//   apiTap sits ABOVE the codec (the clientHijack seam of NewTestKeyspaceTiKVStore; for raw
//   clients the rpc client handed to rawkv.Client): it sees every response as the library's
//   upper layers get it. No key in it may still carry a keyspace prefix.
//
// Fields are found by reflection over the protobuf messages; they are classified by name.

// point keys: must carry the keyspace prefix
var pointNames = map[string]bool{"Key": true, "Keys": true, "PrimaryLock": true, "PrimaryKey": true, "Secondaries": true,
	"SplitKeys": true, "LockKey": true, "DeadlockKey": true, "Primary": true}

// range bounds: inside the keyspace or equal to its end bound
var boundNames = map[string]bool{"StartKey": true, "EndKey": true, "Start": true, "End": true}

// byte fields that are not keys
var plainNames = map[string]bool{"Value": true, "PreviousValue": true, "ShortValue": true, "Data": true, "ResourceGroupTag": true,
	"Values": true, "OtherError": true, "CacheLastVersion": true, "Chunks": true, "ExecDetails": true, "EncodedPlan": true}

type fieldHit struct {
	path  string // Mutations[].Key
	name  string // last component
	val   []byte
	empty bool
}

func walk(v reflect.Value, path string, out *[]fieldHit, unknown map[string]bool) {
	switch v.Kind() {
	case reflect.Ptr, reflect.Interface:
		if !v.IsNil() {
			walk(v.Elem(), path, out, unknown)
		}
	case reflect.Struct:
		t := v.Type()
		for i := 0; i < t.NumField(); i++ {
			f := t.Field(i)
			if strings.HasPrefix(f.Name, "XXX_") || f.PkgPath != "" {
				continue
			}
			if f.Name == "Context" && f.Type == reflect.TypeOf((*kvrpcpb.Context)(nil)) {
				continue
			}
			fv := v.Field(i)
			p := f.Name
			if path != "" {
				p = path + "." + f.Name
			}
			switch {
			case f.Type == reflect.TypeOf([]byte(nil)):
				note(p, f.Name, fv.Bytes(), out, unknown)
			case f.Type == reflect.TypeOf([][]byte(nil)):
				for j := 0; j < fv.Len(); j++ {
					note(p+"[]", f.Name, fv.Index(j).Bytes(), out, unknown)
				}
			case fv.Kind() == reflect.Slice:
				if k := f.Type.Elem().Kind(); k == reflect.Ptr || k == reflect.Struct {
					for j := 0; j < fv.Len(); j++ {
						walk(fv.Index(j), p+"[]", out, unknown)
					}
				}
			case fv.Kind() == reflect.Ptr || fv.Kind() == reflect.Interface || fv.Kind() == reflect.Struct:
				walk(fv, p, out, unknown)
			}
		}
	}
}

func note(path, name string, b []byte, out *[]fieldHit, unknown map[string]bool) {
	if pointNames[name] || boundNames[name] {
		*out = append(*out, fieldHit{path: path, name: name, val: b, empty: len(b) == 0})
		return
	}
	if !plainNames[name] && len(b) > 0 {
		unknown[path] = true
	}
}

type monitor struct {
	w          *world
	mu         sync.Mutex
	viol       map[string]string // class|sig -> detail (first witness)
	stats      map[string]int
	crossed    map[string]int // command type -> requests that crossed the wire
	fields     map[string]int // "Cmd.path" -> occurrences on the wire
	respFields map[string]int
	universe   [3]map[string]bool
	inflight   atomic.Int64
	lastSubmit atomic.Int64
}

func newMonitor(w *world) *monitor {
	m := &monitor{w: w, viol: map[string]string{}, stats: map[string]int{}, crossed: map[string]int{}, fields: map[string]int{}, respFields: map[string]int{}}
	for ks := 0; ks < 3; ks++ {
		u := map[string]bool{"": true}
		add := func(s string) {
			k := string(w.key(s))
			u[k] = true
			u[k+"\x00"] = true
		}
		for _, s := range pool {
			add(s)
		}
		for _, s := range bounds {
			add(s)
		}
		for _, s := range innerBorders {
			add(s)
		}
		for k := range w.sentinelsOf(ks) {
			u[k] = true
			u[k+"\x00"] = true
		}
		m.universe[ks] = u
	}
	return m
}

func (m *monitor) fail(class, sig, format string, args ...any) {
	k := class + "|" + sig
	if _, ok := m.viol[k]; !ok {
		m.viol[k] = fmt.Sprintf(format, args...)
	}
	m.stats["monitor."+class]++
}

// looksEncoded: the key still starts with the prefix of one of the keyspaces of the run.
func (m *monitor) looksEncoded(k []byte) bool {
	for _, ks := range m.w.kss {
		if ks.has(k) {
			return true
		}
	}
	return false
}

// checkRequest judges one encoded request of client c.
func (m *monitor) checkRequest(c int, req *tikvrpc.Request) {
	ks := m.w.kss[m.w.sc.Clients[c]]
	var hits []fieldHit
	unknown := map[string]bool{}
	if req.Req != nil {
		walk(reflect.ValueOf(req.Req), "", &hits, unknown)
	}
	m.mu.Lock()
	defer m.mu.Unlock()
	cmd := req.Type.String()
	m.crossed[cmd]++
	if req.Context.GetApiVersion() != kvrpcpb.APIVersion_V2 || req.Context.GetKeyspaceId() != ks.ID {
		m.fail("wire-context", cmd, "%s request of the client bound to keyspace %s (id %d) left with api version %v, keyspace id %d", cmd, ks, ks.ID, req.Context.GetApiVersion(), req.Context.GetKeyspaceId())
	}
	for p := range unknown {
		m.stats["wire.unclassified-bytes-field."+cmd+"."+p]++
	}
	for _, h := range hits {
		m.fields[cmd+"."+h.path]++
		switch {
		case h.empty:
			if (req.Type == tikvrpc.CmdCommit || req.Type == tikvrpc.CmdFlush) && h.name == "PrimaryKey" {
				continue // "not set"
			}
			m.fail("wire-key-outside-keyspace", cmd+"."+h.path, "%s request of the client bound to keyspace %s: field %s is empty on the wire (an empty key or bound is outside every keyspace); request: %s", cmd, ks, h.path, m.fmtMsg(req.Req))
		case pointNames[h.name]:
			if !ks.has(h.val) {
				m.fail("wire-key-outside-keyspace", cmd+"."+h.path, "%s request of the client bound to keyspace %s [%q,%q): field %s = %s is outside the keyspace; request: %s", cmd, ks, ks.Prefix, ks.End, h.path, m.w.fmtPhys(h.val), m.fmtMsg(req.Req))
			}
		default:
			if !ks.has(h.val) && !bytes.Equal(h.val, ks.End) {
				m.fail("wire-key-outside-keyspace", cmd+"."+h.path, "%s request of the client bound to keyspace %s [%q,%q): range bound %s = %s is outside [prefix, end]; request: %s", cmd, ks, ks.Prefix, ks.End, h.path, m.w.fmtPhys(h.val), m.fmtMsg(req.Req))
			}
		}
	}
}

func (m *monitor) fmtMsg(msg interface{}) string {
	s := fmt.Sprintf("%v", msg)
	if len(s) > 400 {
		s = s[:400] + "..."
	}
	return s
}

// checkResponse judges one decoded response handed to the layers above the codec.
func (m *monitor) checkResponse(c int, req *tikvrpc.Request, resp *tikvrpc.Response) {
	if resp == nil || resp.Resp == nil {
		return
	}
	ksIdx := m.w.sc.Clients[c]
	ks := m.w.kss[ksIdx]
	var hits []fieldHit
	unknown := map[string]bool{}
	walk(reflect.ValueOf(resp.Resp), "", &hits, unknown)
	m.mu.Lock()
	defer m.mu.Unlock()
	cmd := req.Type.String()
	for _, h := range hits {
		if h.empty {
			continue
		}
		m.respFields[cmd+"."+h.path]++
		if m.looksEncoded(h.val) && !m.universe[ksIdx][string(h.val)] {
			m.fail("api-key-not-decoded", cmd+"."+h.path, "%s response handed to the client bound to keyspace %s: field %s = %s still carries a keyspace prefix (or belongs to another keyspace); response: %s", cmd, ks, h.path, m.w.fmtPhys(h.val), m.fmtMsg(resp.Resp))
		} else if !m.universe[ksIdx][string(h.val)] {
			m.stats["api.key-outside-known-universe"]++
		}
	}
	// region descriptors of EpochNotMatch must overlap the keyspace after clipping: a region with
	// start == end == "" is only possible for a region that covers the whole keyspace
	if re, _ := resp.GetRegionError(); re != nil {
		m.stats["api.region-error."+regionErrName(re)]++
		if enm := re.GetEpochNotMatch(); enm != nil {
			m.stats["api.epoch-not-match.regions"] += len(enm.CurrentRegions)
			for i, r := range enm.CurrentRegions {
				if i > 0 {
					prev := enm.CurrentRegions[i-1]
					if len(prev.EndKey) == 0 && bytes.Compare(prev.StartKey, r.StartKey) < 0 {
						m.fail("api-region-not-clipped", cmd, "%s: EpochNotMatch handed to the client of keyspace %s lists region %d [%q,%q) after region %d [%q,%q), which already extends to the end of the keyspace", cmd, ks, r.Id, r.StartKey, r.EndKey, prev.Id, prev.StartKey, prev.EndKey)
					}
				}
			}
		}
	}
}

func regionErrName(re *errorpb.Error) string {
	switch {
	case re.NotLeader != nil:
		return "not-leader"
	case re.EpochNotMatch != nil:
		return "epoch-not-match"
	case re.RegionNotFound != nil:
		return "region-not-found"
	case re.KeyNotInRegion != nil:
		return "key-not-in-region"
	case re.ServerIsBusy != nil:
		return "server-busy"
	case re.StaleCommand != nil:
		return "stale-command"
	case re.StoreNotMatch != nil:
		return "store-not-match"
	}
	return "other"
}

func (m *monitor) violations() [][3]string {
	m.mu.Lock()
	defer m.mu.Unlock()
	ks := make([]string, 0, len(m.viol))
	for k := range m.viol {
		ks = append(ks, k)
	}
	sort.Strings(ks)
	var out [][3]string
	for _, k := range ks {
		i := strings.Index(k, "|")
		out = append(out, [3]string{k[:i], k[i+1:], m.viol[k]})
	}
	return out
}

// ---------------------------------------------------------------------------------------------
// the catalogue of command types, found by probing every type number

func catalogue() []string {
	var out []string
	probe := &errorpb.Error{Message: "probe"}
	for t := 1; t < 4096; t++ {
		ct := tikvrpc.CmdType(t)
		name := ct.String()
		if name == "Unknown" {
			if _, err := tikvrpc.GenRegionErrorResp(&tikvrpc.Request{Type: ct}, probe); err != nil {
				continue
			}
			name = fmt.Sprintf("Cmd(%d)", t)
		}
		out = append(out, name)
	}
	sort.Strings(out)
	return out
}

// ---------------------------------------------------------------------------------------------
// taps

type wireTap struct {
	tikv.Client
	mon    *monitor
	client int
}

func (t *wireTap) hop(req *tikvrpc.Request) {
	t.mon.checkRequest(t.client, req)
	// the rest of the wire hop of the real client, for every command that crosses: the context can
	// be attached, a region error of the matching type can be generated and read back, the batched
	// form carries the same command
	if req.Type == tikvrpc.CmdStoreSafeTS {
		return
	}
	m := t.mon
	cmd := req.Type.String()
	cp := *req
	if !tikvrpc.AttachContext(&cp, cp.Context) && hasField(req.Req, "Context") {
		m.mu.Lock()
		m.fail("wirehop-attach-context", cmd, "the request message of command type %s (%T) has a context field, but AttachContext does not know the type: the message leaves without api version and keyspace id", cmd, req.Req)
		m.mu.Unlock()
	}
	if b := cp.ToBatchCommandsRequest(); b != nil {
		inner := reflect.ValueOf(b.Cmd)
		same := false
		if inner.Kind() == reflect.Ptr && !inner.IsNil() && inner.Elem().NumField() == 1 {
			same = inner.Elem().Field(0).Interface() == cp.Req
		}
		m.mu.Lock()
		m.stats["wirehop.batched"]++
		if !same {
			m.fail("wirehop-batch-form", cmd, "the batched wire form of a %s request does not carry the request's own message (%T)", cmd, b.Cmd)
		}
		m.mu.Unlock()
	} else {
		m.mu.Lock()
		m.stats["wirehop.not-batchable."+cmd]++
		m.mu.Unlock()
	}
}

// enter / leave keep the count of requests in flight from clients that are alive (what a dead
// client still tries to send exists for nobody and must not influence when the world is quiet).
func (t *wireTap) enter(req *tikvrpc.Request) bool {
	if req.Type == tikvrpc.CmdStoreSafeTS || t.mon.w.net.IsCut(t.client) {
		return false
	}
	t.mon.inflight.Add(1)
	t.mon.lastSubmit.Store(int64(t.mon.w.sim.Now()))
	return true
}

func (t *wireTap) leave(counted bool) {
	if counted {
		t.mon.inflight.Add(-1)
	}
}

// hopBack: a command whose response message can carry a region error must be known to
// GenRegionErrorResp, and the error must be readable from what it builds.
func (t *wireTap) hopBack(req *tikvrpc.Request, resp *tikvrpc.Response) {
	if resp == nil || resp.Resp == nil || !hasField(resp.Resp, "RegionError") {
		return
	}
	m := t.mon
	cmd := req.Type.String()
	probe := &errorpb.Error{Message: "probe", ServerIsBusy: &errorpb.ServerIsBusy{Reason: "probe"}}
	r, err := tikvrpc.GenRegionErrorResp(req, probe)
	var back *errorpb.Error
	if err == nil {
		back, err = r.GetRegionError()
	}
	if err != nil || back != probe {
		m.mu.Lock()
		m.fail("wirehop-region-error", cmd, "a region-error response for command type %s cannot be generated and read back: err=%v got=%v", cmd, err, back)
		m.mu.Unlock()
	}
}

func hasField(msg interface{}, name string) bool {
	v := reflect.ValueOf(msg)
	if v.Kind() != reflect.Ptr || v.IsNil() || v.Elem().Kind() != reflect.Struct {
		return false
	}
	return v.Elem().FieldByName(name).IsValid()
}

func (t *wireTap) SendRequest(ctx context.Context, addr string, req *tikvrpc.Request, timeout time.Duration) (*tikvrpc.Response, error) {
	t.hop(req)
	defer t.leave(t.enter(req))
	resp, err := t.Client.SendRequest(ctx, addr, req, timeout)
	if err == nil {
		t.hopBack(req, resp)
	}
	return resp, err
}

func (t *wireTap) SendRequestAsync(ctx context.Context, addr string, req *tikvrpc.Request, cb async.Callback[*tikvrpc.Response]) {
	t.hop(req)
	counted := t.enter(req)
	cb.Inject(func(resp *tikvrpc.Response, err error) (*tikvrpc.Response, error) {
		t.leave(counted)
		if err == nil {
			t.hopBack(req, resp)
		}
		return resp, err
	})
	t.Client.SendRequestAsync(ctx, addr, req, cb)
}

// quiet: no request of a live client is in flight and none was submitted during the last d.
func (m *monitor) quiet(d time.Duration) bool {
	return m.inflight.Load() == 0 && m.w.sim.Now()-time.Duration(m.lastSubmit.Load()) >= d
}

type apiTap struct {
	tikv.Client
	mon    *monitor
	client int
}

func (t *apiTap) SendRequest(ctx context.Context, addr string, req *tikvrpc.Request, timeout time.Duration) (*tikvrpc.Response, error) {
	resp, err := t.Client.SendRequest(ctx, addr, req, timeout)
	if err == nil {
		t.mon.checkResponse(t.client, req, resp)
	}
	return resp, err
}

func (t *apiTap) SendRequestAsync(ctx context.Context, addr string, req *tikvrpc.Request, cb async.Callback[*tikvrpc.Response]) {
	cb.Inject(func(resp *tikvrpc.Response, err error) (*tikvrpc.Response, error) {
		if err == nil {
			t.mon.checkResponse(t.client, req, resp)
		}
		return resp, err
	})
	t.Client.SendRequestAsync(ctx, addr, req, cb)
}
