package keyspacesim

import (
	"bytes"
	"crypto/sha1"
	"encoding/hex"
	"encoding/json"
	"fmt"
	"math"
	"math/rand"
	"os"
	"sort"
	"strings"
	"sync"
	"sync/atomic"
	"testing"
	"time"

	"github.com/pingcap/failpoint"
	"github.com/pingcap/kvproto/pkg/kvrpcpb"
	"github.com/tikv/client-go/v2/tikvrpc"
	"github.com/tikv/client-go/v2/txnkv/transaction"
	"github.com/tikv/client-go/v2/util"
	"github.com/tikv/client-go/v2/verifsim/refkv"
	"github.com/tikv/client-go/v2/verifsim/simkit"
)

// Engine implements simkit.Engine.
type Engine struct{}

// Name implements simkit.Engine.
func (Engine) Name() string { return "keyspacesim" }

// Decode implements simkit.Engine.
func (Engine) Decode(raw json.RawMessage) (any, error) {
	var sc Scenario
	if err := json.Unmarshal(raw, &sc); err != nil {
		return nil, err
	}
	return &sc, nil
}

// Generate implements simkit.Engine.
func (Engine) Generate(cfg simkit.RunConfig) (any, bool) {
	switch cfg.Mode {
	case "", "txn":
		return genTxn(cfg, "M"), true
	case "txn-R", "pipe-R":
		return genTxn(cfg, "R"), true
	case "locks":
		return genLocks(cfg, "M"), true
	case "locks-R":
		return genLocks(cfg, "R"), true
	case "raw":
		return genRaw(cfg), true
	case "catalogue":
		// complete enumeration, one evaluation (see catalogue.go)
		if cfg.Index > 0 {
			return nil, false
		}
		return &Scenario{Kind: "catalogue"}, true
	case "revunb", "revunb-R":
		// demonstration of known finding F1 under a keyspace: unbounded reverse scans in every layout
		b := "M"
		if cfg.Mode == "revunb-R" {
			b = "R"
		}
		sc := genTxn(cfg, b)
		r := simkit.Rand(cfg.Seed, "revunb")
		for i := range sc.Main {
			for j := range sc.Main[i].Ops {
				if op := &sc.Main[i].Ops[j]; strings.HasSuffix(op.Kind, "riter") && r.Intn(2) == 0 {
					op.Hi = ""
				}
			}
		}
		return sc, true
	}
	panic("unknown mode " + cfg.Mode)
}

var fpOnce sync.Once

// Prepare implements simkit.Preparer (outside the bubble).
func (Engine) Prepare(cfg simkit.RunConfig, scenario any) {
	fpOnce.Do(func() { util.EnableFailpoints() })
	_ = failpoint.Enable("tikvclient/injectLiveness", `return("reachable")`)
	// pipelined transactions flush after two keys (the defaults are 10000 keys / 16 MB)
	_ = failpoint.Enable("tikvclient/pipelinedMemDBMinFlushKeys", `return(2)`)
	_ = failpoint.Enable("tikvclient/pipelinedMemDBMinFlushSize", `return(1)`)
	atomic.StoreUint64(&transaction.ManagedLockTTL, 20000)
	transaction.VerifSetDefaultLockTTL(3000)
	rand.Seed(int64(cfg.Seed))
}

// Cleanup implements simkit.Preparer.
func (Engine) Cleanup(cfg simkit.RunConfig, scenario any) {}

const writerGrace = 240 * time.Second

// Execute implements simkit.Engine.
func (Engine) Execute(t *testing.T, cfg simkit.RunConfig, scenario any) *simkit.RunResult {
	sc := scenario.(*Scenario)
	if sc.Kind == "catalogue" {
		res := &simkit.RunResult{Stats: map[string]int{}, Nontrivial: true, SchedHash: "catalogue"}
		res.Violations = append(runCatalogue(res), runCatalogueCodec(res)...)
		return res
	}
	s := simkit.New(cfg.Seed)
	s.Limits.MaxSimTime = 40 * time.Minute
	res := &simkit.RunResult{}
	var w *world
	var before, after *storeDump
	settledBefore, settledAfter := false, false
	s.Run(func() {
		var err error
		w, err = newWorld(s, sc)
		if err != nil {
			panic(fmt.Sprintf("world: %v", err))
		}
		runPhase := func(phase int, actors []Actor) {
			var wg sync.WaitGroup
			for i := range actors {
				wg.Add(1)
				go func(i int) {
					defer wg.Done()
					if sc.Kind == "raw" {
						w.runRawActor(phase, i, &actors[i])
					} else {
						w.runTxnActor(phase, i, &actors[i])
					}
				}(i)
			}
			wg.Wait()
		}
		runPhase(0, sc.Setup)
		settledBefore = w.settle(false)
		w.onSim(func() { before = w.dump() })
		if sc.Writer != nil {
			// The survivors start at a fixed instant after the writer began, long after its death and
			// after every lock of it expired - not "when its Commit call returned": a dead client's
			// goroutines unwind through their back-off budgets in an order nobody controls.
			wdone := make(chan struct{})
			go func() {
				defer close(wdone)
				w.runWriter(sc.Writer)
			}()
			s.Sleep(writerGrace)
			<-wdone
		}
		w.scheduleTopo()
		runPhase(1, sc.Main)
		settledAfter = w.settle(true)
		w.onSim(func() {
			after = w.dump()
			w.writerFate()
		})
	})
	if after == nil {
		after = w.dump() // aborted run: the simulator loop has ended, nothing else touches the store
	}
	trace := w.net.Trace()
	w.close()
	// a lock keeper's heart beat (or a dead client's request) that was in flight when the network
	// went down retries through a back-off budget of its own (tens of seconds, context.Background)
	time.Sleep(90 * time.Second)
	simkit.Settle()

	res.Aborted = s.Aborted
	res.Events = s.Events
	res.SimTime = s.Now()
	res.Stats = s.Stats()
	res.Trace = traceDigest(trace)
	hsum := sha1.Sum([]byte(strings.Join(res.Trace, "\n")))
	res.SchedHash = hex.EncodeToString(hsum[:8])

	c := &checker{w: w, stats: res.Stats}
	for _, p := range w.net.Panics {
		sig := firstWords(p, 4)
		if strings.Contains(p, "KvScan") && strings.Contains(p, "reverse:true") && strings.HasPrefix(cfg.Mode, "revunb") {
			// the mock refuses a reverse scan whose lower bound lies outside the addressed region: the
			// symptom of known finding F1, which only the demonstration modes provoke
			sig = "riter-unbounded-upper " + sig
		}
		c.fail("backend-panic", sig, "a handler of the mock server panicked: %s", p)
	}
	for _, f := range simkit.TakeFatals() {
		c.fail("fatal-log", firstWords(f, 4), "the library logged at Fatal level (the process would have exited): %s", f)
	}
	for _, m := range w.front.misrouted {
		c.fail("misrouted-request", firstWords(m, 2), "%s", m)
	}
	if w.ref != nil {
		for _, m := range w.ref.Misrouted {
			c.fail("misrouted-request", firstWords(m, 2), "%s", m)
		}
	}
	for _, v := range w.mon.violations() {
		c.fail(v[0], v[1], "%s", v[2])
	}
	if s.Aborted == "max-events" {
		// liveness: the event budget is some ten times what a run needs; if one request shape of one
		// client makes up most of the events, that client is in a request storm
		count := map[string]int{}
		for _, r := range trace {
			count[fmt.Sprintf("client %d %s", r.Client, r.Type)]++
		}
		for _, k := range sortedKeys(count) {
			if n := count[k]; n*2 > len(trace) && n > 5000 {
				var last *simkit.RPCRecord
				for _, r := range trace {
					if fmt.Sprintf("client %d %s", r.Client, r.Type) == k && r.Executed {
						last = r
					}
				}
				ex := ""
				if last != nil {
					ex = "; e.g. " + fmtRPC(w, last)
				}
				c.fail("request-storm", strings.Fields(k)[2], "the run used up its budget of %d events: %d of its %d requests are %s requests of %s (keyspace %s), %d fault(s) injected in the whole run%s", s.Limits.MaxEvents, n, len(trace), strings.Fields(k)[2], k[:strings.LastIndex(k, " ")], w.kss[sc.Clients[last.Client]], len(w.net.Fired), ex)
			}
		}
	}
	judged := 0
	if s.Aborted == "" {
		judged = c.checkModels(after)
		c.checkIsolation(before, after, settledBefore, settledAfter)
	}
	// evidence: what crossed the wire
	w.mon.mu.Lock()
	for k, n := range w.mon.stats {
		res.Stats[k] += n
	}
	cat := catalogue()
	res.Stats["catalogue.command-types"] = len(cat)
	for _, name := range cat {
		res.Stats["wire.cmd."+name] += w.mon.crossed[name]
	}
	for k, n := range w.mon.fields {
		res.Stats["wire.field."+k] += n
	}
	for k, n := range w.mon.respFields {
		res.Stats["api.field."+k] += n
	}
	crossedA := len(w.mon.crossed)
	w.mon.mu.Unlock()
	res.Stats["topo.changes"] = w.topo.changes
	res.Stats["runs.layout-aligned"] = b2i(sc.RevUnb)
	res.Stats["runs.static"] = b2i(sc.Static)
	res.Stats["runs.b2-has-client"] = b2i(sc.B2Client)
	res.Stats["runs.regions-at-start"] = w.regions0
	res.Stats["judged-calls"] = judged
	res.Nontrivial = s.Aborted == "" && judged >= 5 && crossedA >= 2 && before != nil
	res.Violations = dedup(c.out)
	if len(res.Violations) > 0 || os.Getenv("VERIF_DUMP") != "" {
		res.Log = append(res.Log, fmt.Sprintf("keyspaces: A=%d prefix %q end %q, B1=%d, B2=%d (client: %v); backend %s; layout at start: %s; at end: %s", w.kss[0].ID, w.kss[0].Prefix, w.kss[0].End, w.kss[1].ID, w.kss[2].ID, sc.B2Client, sc.Backend, w.layout0, w.topo.Describe()))
		for _, k := range sortedKeys(w.hist) {
			for _, r := range w.hist[k] {
				res.Log = append(res.Log, fmtRec(w, r))
			}
		}
		if w.writer != nil {
			res.Log = append(res.Log, fmt.Sprintf("writer: start ts %d, Commit returned %q", w.writer.StartTS, w.writer.CommitErr))
		}
		for _, r := range trace {
			res.Log = append(res.Log, fmtRPC(w, r))
		}
	}
	res.Sample = map[string]any{
		"kind": sc.Kind, "backend": sc.Backend, "keyspace_a": sc.KsA, "stores": sc.Stores, "layout": w.layout0, "layout_end": w.topo.Describe(),
		"clients": sc.Clients, "faults_fired": len(w.net.Fired), "rpcs": len(res.Trace), "judged_calls": judged, "sim_ms": res.SimTime.Milliseconds(),
	}
	return res
}

func b2i(b bool) int {
	if b {
		return 1
	}
	return 0
}

func dedup(vs []simkit.Violation) []simkit.Violation {
	seen := map[string]bool{}
	var out []simkit.Violation
	for _, v := range vs {
		k := v.Class + "|" + v.Sig
		if !seen[k] {
			seen[k] = true
			out = append(out, v)
		}
	}
	return out
}

func firstWords(s string, n int) string {
	f := strings.Fields(s)
	if len(f) > n {
		f = f[:n]
	}
	return strings.Join(f, " ")
}

func traceDigest(tr []*simkit.RPCRecord) []string {
	recs := make([]*simkit.RPCRecord, 0, len(tr))
	for _, r := range tr {
		// (what a dead client still tries to send exists for nobody: its goroutines unwind in an
		// order the simulator does not control)
		if r.Type != tikvrpc.CmdStoreSafeTS && r.Fate != "cut" {
			recs = append(recs, r)
		}
	}
	sort.SliceStable(recs, func(i, j int) bool {
		if recs[i].SubmitAt != recs[j].SubmitAt {
			return recs[i].SubmitAt < recs[j].SubmitAt
		}
		if recs[i].Identity != recs[j].Identity {
			return recs[i].Identity < recs[j].Identity
		}
		return recs[i].Occ < recs[j].Occ
	})
	out := make([]string, 0, len(recs))
	for _, r := range recs {
		out = append(out, fmt.Sprintf("%d %s#%d %s", r.SubmitAt.Microseconds(), r.Identity, r.Occ, r.Fate))
	}
	return out
}

func fmtRPC(w *world, r *simkit.RPCRecord) string {
	msg := fmt.Sprintf("%v", r.Req.Req)
	if len(msg) > 900 {
		msg = msg[:900] + "..."
	}
	resp := ""
	if r.Resp != nil && r.Resp.Resp != nil {
		resp = fmt.Sprintf("%v", r.Resp.Resp)
		if len(resp) > 600 {
			resp = resp[:600] + "..."
		}
	}
	return fmt.Sprintf("rpc c%d %s region %d epoch %v fate=%q t=%v executed=%v err=%v req={%s} resp={%s}", r.Client, r.Type, r.Req.Context.GetRegionId(), r.Req.Context.GetRegionEpoch(), r.Fate, r.SubmitAt, r.Executed, r.RetErr, msg, resp)
}

func fmtRec(w *world, r *OpRec) string {
	var sb strings.Builder
	fmt.Fprintf(&sb, "%s phase %d actor %d op %d %s [%d,%d]", w.kss[r.Ks], r.Phase, r.Actor, r.Idx, fmtOp(w, r.Op), r.Inv, r.Ret)
	if r.Skipped != "" {
		fmt.Fprintf(&sb, " SKIPPED (%s)", r.Skipped)
		return sb.String()
	}
	if r.Err != "" {
		fmt.Fprintf(&sb, " ERR %q %q faults=%d", r.Err, r.ErrKeys, r.Faults)
		return sb.String()
	}
	if r.StartTS != 0 {
		fmt.Fprintf(&sb, " start_ts=%d", r.StartTS)
	}
	if r.TS != 0 {
		fmt.Fprintf(&sb, " ts=%d", r.TS)
	}
	if r.Vals != nil {
		sb.WriteString(" ->")
		for _, k := range sortedKeys(r.Vals) {
			fmt.Fprintf(&sb, " %q=%s", k, fmtP(r.Vals[k]))
		}
	}
	if r.Pairs != nil {
		fmt.Fprintf(&sb, " -> %q", r.Pairs)
	}
	if r.Op.Kind == "scanlocks" {
		fmt.Fprintf(&sb, " -> %v (store before: %v, after: %v)", r.Locks, r.TruthLocks[0], r.TruthLocks[1])
	}
	if r.Locs != nil {
		fmt.Fprintf(&sb, " -> %q", r.Locs)
	}
	if r.MustRoll {
		sb.WriteString(" (rolled back: a lock step failed)")
	}
	switch r.Op.Kind {
	case "get", "cas":
		if w.sc.Kind == "raw" {
			fmt.Fprintf(&sb, " -> %s swapped=%v", fmtP(r.Val), r.Swapped)
		}
	case "bget":
		if w.sc.Kind == "raw" {
			sb.WriteString(" ->")
			for _, v := range r.ValList {
				sb.WriteString(" " + fmtP(v))
			}
		}
	case "scan", "rscan":
		fmt.Fprintf(&sb, " -> keys %q values %q", r.Keys, r.Values)
	case "checksum":
		fmt.Fprintf(&sb, " -> %+v", r.Sum)
	case "getttl":
		if r.TTL == nil {
			sb.WriteString(" -> <none>")
		} else {
			fmt.Fprintf(&sb, " -> %d", *r.TTL)
		}
	}
	return sb.String()
}

// Shrink implements simkit.Engine.
func (Engine) Shrink(scenario any) []any {
	sc := scenario.(*Scenario)
	var out []any
	clone := func() *Scenario {
		b, _ := json.Marshal(sc)
		var c Scenario
		_ = json.Unmarshal(b, &c)
		return &c
	}
	for i := range sc.Topo {
		c := clone()
		c.Topo = append(c.Topo[:i], c.Topo[i+1:]...)
		out = append(out, c)
	}
	if sc.Net.Random {
		c := clone()
		c.Net.Random = false
		out = append(out, c)
	}
	if sc.EpochAllRate > 0 {
		c := clone()
		c.EpochAllRate = 0
		out = append(out, c)
	}
	for i := range sc.Main {
		if i > 0 {
			c := clone()
			c.Main[i].Ops = nil
			if len(sc.Main[i].Ops) > 0 {
				out = append(out, c)
			}
		}
		// drop whole tails first, then single calls
		if n := len(sc.Main[i].Ops); n > 1 {
			c := clone()
			c.Main[i].Ops = c.Main[i].Ops[:n/2]
			out = append(out, c)
		}
	}
	for i := range sc.Main {
		for j := range sc.Main[i].Ops {
			c := clone()
			c.Main[i].Ops = append(c.Main[i].Ops[:j], c.Main[i].Ops[j+1:]...)
			out = append(out, c)
		}
	}
	for i := range sc.Setup {
		if n := len(sc.Setup[i].Ops); n > 0 {
			c := clone()
			c.Setup[i].Ops = nil
			out = append(out, c)
		}
	}
	for i := range sc.Splits {
		c := clone()
		c.Splits = append(c.Splits[:i], c.Splits[i+1:]...)
		out = append(out, c)
	}
	if sc.Stores > 1 {
		c := clone()
		c.Stores = 1
		out = append(out, c)
	}
	if sc.Net.JitterUs > 0 {
		c := clone()
		c.Net.JitterUs = 0
		out = append(out, c)
	}
	return out
}

// ---------------------------------------------------------------------------------------------
// ground truth: the content of the store, read from the backend objects

type storeDump struct {
	lines  map[string][]string // physical key -> canonical rendering of every record of the key, bytes as stored
	latest map[string]*string  // physical key -> newest committed value (nil: deleted / never written)
	locked map[string]bool
}

func (w *world) dump() *storeDump {
	d := &storeDump{lines: map[string][]string{}, latest: map[string]*string{}, locked: map[string]bool{}}
	switch {
	case w.sc.Kind == "raw":
		for _, p := range w.mvcc.RawScan(cfName, nil, nil, 1<<30) {
			k := string(p.Key)
			d.lines[k] = []string{fmt.Sprintf("%x", p.Value)}
			v := string(p.Value)
			d.latest[k] = &v
		}
	case w.ref != nil:
		cands := map[string]bool{}
		for _, p := range w.ref.Store.Scan(nil, nil, 1<<30, math.MaxUint64, refkv.ReadOpts{RC: true}) {
			cands[string(p.Key)] = true
		}
		for _, l := range w.ref.Store.ScanLock(nil, nil, math.MaxUint64, 0) {
			cands[string(l.Key)] = true
		}
		// keys whose newest record is a delete or a rollback are not found by a scan: probe every key
		// the run can have touched, in every keyspace and without prefix
		for _, ks := range w.kss {
			for _, k := range pool {
				cands[string(ks.enc(w.key(k)))] = true
				cands[string(ks.enc(ks.enc(w.key(k))))] = true
			}
		}
		for _, k := range pool {
			cands[string(w.key(k))] = true
		}
		for _, s := range w.sentinels {
			cands[string(s[0])] = true
		}
		for k := range cands {
			kd := w.ref.Store.Dump([]byte(k))
			if kd.Lock == nil && len(kd.Writes) == 0 {
				continue
			}
			var ls []string
			if l := kd.Lock; l != nil {
				ls = append(ls, fmt.Sprintf("lock start=%d primary=%x op=%v value=%x ttl=%d for_update=%d min_commit=%d async=%v secondaries=%x", l.StartTS, l.Primary, l.Op, l.Value, l.TTL, l.ForUpdateTS, l.MinCommitTS, l.Async, l.Secondaries))
				d.locked[k] = true
			}
			for _, wr := range kd.Writes {
				ls = append(ls, fmt.Sprintf("write commit=%d start=%d kind=%v value=%x", wr.CommitTS, wr.StartTS, wr.Kind, wr.Value))
			}
			d.lines[k] = ls
			for _, wr := range kd.Writes {
				if wr.Kind == kvrpcpb.Op_Put {
					v := string(wr.Value)
					d.latest[k] = &v
					break
				}
				if wr.Kind == kvrpcpb.Op_Del {
					break
				}
			}
		}
	default:
		var keys [][]byte
		for _, e := range w.mvcc.VerifDumpEntries() {
			k := string(e.Key)
			if _, ok := d.lines[k]; !ok {
				keys = append(keys, e.Key)
			}
			d.lines[k] = append(d.lines[k], fmt.Sprintf("ver=%d %x", e.Ver, e.Value))
		}
		for k, kt := range simkit.DumpTruth(w.mvcc, keys) {
			if kt.Lock != nil {
				d.locked[k] = true
			}
			if v, ok := kt.ValueAt(math.MaxUint64); ok {
				s := string(v)
				d.latest[k] = &s
			}
		}
	}
	return d
}

// settle waits until the clients' background work (secondary commits, asynchronous lock
// resolution) has drained and, for the part of the store outside keyspace A, no lock is left.
func (w *world) settle(all bool) bool {
	for i := 0; i < 40; i++ {
		if w.sim.Aborted != "" {
			return false
		}
		if w.mon.quiet(400 * time.Millisecond) {
			clean := true
			if w.sc.Kind != "raw" {
				var locks []*kvrpcpb.LockInfo
				w.onSim(func() { locks = w.dumpLocks() })
				for _, l := range locks {
					if all || !w.kss[ksA].has(l.Key) {
						clean = false
					}
				}
			}
			if clean {
				return true
			}
			if i > 10 && all {
				return false // locks nobody will touch again (a dead writer's, never read)
			}
		}
		time.Sleep(250 * time.Millisecond)
	}
	return false
}

// checkModels replays every keyspace's calls on its model and compares the final content of the
// store with it. It returns the number of judged calls.
func (c *checker) checkModels(final *storeDump) int {
	w := c.w
	judged := 0
	for ks := 0; ks < 3; ks++ {
		var recs []*OpRec
		for phase, actors := range [][]Actor{w.sc.Setup, w.sc.Main} {
			for ai := range actors {
				if actors[ai].Ks != ks {
					continue
				}
				if phase == 1 && ks == ksA && w.writer != nil {
					recs = append(recs, nil) // the dead writer's position
				}
				recs = append(recs, w.hist[fmt.Sprintf("%d/%d", phase, ai)]...)
			}
		}
		var finalModel map[string]string
		stopped := ""
		if w.sc.Kind == "raw" {
			m := &rmodel{c: c, ks: ks, m: w.sentinelsOf(ks)}
			for _, r := range recs {
				if r != nil {
					m.apply(r)
					if m.stopped == "" && r.Skipped == "" {
						judged++
					}
				}
			}
			finalModel, stopped = m.m, m.stopped
		} else {
			m := newTModel(c, ks)
			for _, r := range recs {
				if r == nil {
					c.applyWriter(m, final)
					continue
				}
				m.apply(r)
				if m.stopped == "" && r.Skipped == "" {
					judged++
				}
			}
			finalModel, stopped = m.latest(), m.stopped
		}
		if stopped != "" {
			continue
		}
		// the content of the store inside the keyspace, read from the backend, equals the model
		k := w.kss[ks]
		got := map[string]string{}
		for pk, v := range final.latest {
			if k.has([]byte(pk)) && v != nil {
				got[pk[4:]] = *v
			}
		}
		all := map[string]bool{}
		for x := range got {
			all[x] = true
		}
		for x := range finalModel {
			all[x] = true
		}
		for _, x := range sortedKeys(all) {
			if final.locked[string(k.enc([]byte(x)))] {
				c.stats["oracle.final-state-key-still-locked"]++
				continue
			}
			g, gok := got[x]
			m, mok := finalModel[x]
			if gok != mok || g != m {
				c.fail("final-state", "ks-"+k.String(), "after the run the store holds, inside keyspace %s (id %d), key %q = %s; the model of the keyspace has %s", k, k.ID, x, fmtOpt(g, gok), fmtOpt(m, mok))
			}
		}
	}
	return judged
}

func fmtOpt(v string, ok bool) string {
	if !ok {
		return "<none>"
	}
	return fmt.Sprintf("%q", v)
}

// applyWriter puts the dead writer's transaction into the model of keyspace A if, and only if,
// the store says it was committed (its outcome was fixed when it died: the survivor began after
// every lock of it had expired).
func (c *checker) applyWriter(m *tmodel, final *storeDump) {
	w := c.w
	wr := w.sc.Writer
	if w.writer == nil || w.writer.StartTS == 0 {
		return
	}
	c.stats["writer.committed"] += b2i(w.writer.Committed > 0)
	c.stats["writer.rolled-back"] += b2i(w.writer.Committed == 0)
	if w.writer.Committed == 0 {
		return
	}
	writes := map[string]*string{}
	for i, k := range w.keys(wr.Keys) {
		if wr.Vals[i] == "" {
			writes[string(k)] = nil
		} else {
			v := wr.Vals[i]
			writes[string(k)] = &v
		}
	}
	m.commitVersion(writes)
}

// writerFate reads from the store (ground truth) on how many of its keys the dead writer's
// transaction has a commit record.
func (w *world) writerFate() {
	wr := w.sc.Writer
	if wr == nil || w.writer == nil || w.writer.StartTS == 0 {
		return
	}
	// An async-commit transaction is committed once every key of it is prewritten: a survivor that finds all of them
	// locked reads through them at the calculated commit ts even if it never manages to turn the locks into records
	// (its ResolveLock requests may keep failing). So: all keys locked-for-async-commit or committed = committed.
	asyncAll, asyncLocked := w.ref != nil, 0
	for _, k := range w.keys(wr.Keys) {
		pk := w.kss[ksA].enc(k)
		found := false
		if w.ref != nil {
			d := w.ref.Store.Dump(pk)
			for _, rec := range d.Writes {
				if rec.StartTS == w.writer.StartTS && (rec.Kind == kvrpcpb.Op_Put || rec.Kind == kvrpcpb.Op_Del) {
					found = true
				}
			}
			if !found {
				if d.Lock != nil && d.Lock.StartTS == w.writer.StartTS && d.Lock.Async {
					asyncLocked++
				} else {
					asyncAll = false
				}
			}
		} else if info := w.mvcc.MvccGetByKey(pk); info != nil {
			for _, rec := range info.Writes {
				if rec.StartTs == w.writer.StartTS && (rec.Type == kvrpcpb.Op_Put || rec.Type == kvrpcpb.Op_Del) {
					found = true
				}
			}
		}
		if found {
			w.writer.Committed++
		}
	}
	if asyncAll && asyncLocked > 0 {
		w.writer.Committed += asyncLocked
		w.sim.Count("writer.committed-by-async-locks")
	}
}

// checkIsolation: everything outside keyspace A is byte-identical before and after A's work;
// no record exists that nobody can have written.
func (c *checker) checkIsolation(before, after *storeDump, settledBefore, settledAfter bool) {
	w := c.w
	if before == nil || after == nil {
		return
	}
	a := w.kss[ksA]
	if !settledBefore {
		c.stats["audit.skipped-setup-did-not-settle"]++
	} else {
		c.stats["audit.isolation-done"]++
		all := map[string]bool{}
		for k := range before.lines {
			all[k] = true
		}
		for k := range after.lines {
			all[k] = true
		}
		for _, k := range sortedKeys(all) {
			if a.has([]byte(k)) {
				continue
			}
			b, f := before.lines[k], after.lines[k]
			if strings.Join(b, "\n") != strings.Join(f, "\n") {
				c.fail("isolation", c.ownerOf([]byte(k)), "the records of the key %s (%s) changed while only the client bound to keyspace A (id %d) was writing: before %q, after %q", w.fmtPhys([]byte(k)), c.ownerOf([]byte(k)), a.ID, b, f)
			}
		}
		c.stats["audit.keys-outside-A-compared"] += len(all)
	}
	// stray records
	sent := map[string]bool{}
	for _, s := range w.sentinels {
		sent[string(s[0])] = true
	}
	for _, k := range sortedKeys(after.lines) {
		if sent[k] {
			continue
		}
		ok := false
		for _, ks := range w.kss {
			if ks.has([]byte(k)) {
				for _, p := range pool {
					ok = ok || bytes.Equal(w.key(p), []byte(k)[4:])
				}
			}
		}
		if !ok {
			c.fail("stray-record", c.ownerOf([]byte(k)), "the store holds a record under the key %s (%q), which is neither a sentinel nor prefix + a logical key any client wrote: %q", w.fmtPhys([]byte(k)), k, after.lines[k])
		}
	}
}

func (c *checker) ownerOf(k []byte) string {
	for _, ks := range c.w.kss {
		if ks.has(k) {
			return "keyspace-" + ks.String()
		}
	}
	for _, s := range c.w.sentinels {
		if bytes.Equal(s[0], k) {
			return "sentinel"
		}
	}
	return "outside-all-keyspaces"
}
