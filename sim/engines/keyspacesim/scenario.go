// Package keyspacesim checks property C15 (the API v2 keyspace codec is transparent and
// isolating) by whole-client simulation: transactional and raw clients bound to three
// neighbouring keyspaces share one simulated store whose region borders sit on and next to
// the keyspace bounds, while regions split, merge, move and answer with region errors.
package keyspacesim

import (
	"fmt"
	"math/rand"
	"sort"

	"github.com/tikv/client-go/v2/verifsim/simkit"
)

// Keyspace indexes used all over the engine: 0 = A (id from the seed), 1 = B1 (id A-1),
// 2 = B2 (id A+1).
const (
	ksA  = 0
	ksB1 = 1
	ksB2 = 2
)

// Logical keys are written as strings; a leading "@<i>:" stands for the four prefix bytes of
// keyspace i (a logical key that looks like an encoded key), so that scenarios stay valid
// JSON whatever the keyspace id is.

// Op is one call of an actor. Transactional kinds: begin set del insert get bget iter riter
// lock commit rollback ts snapget snapbget snapiter snapriter locate locend locrange
// scanlocks resolverange delrange destroyrange split sleep. Raw kinds: put get del bget bput bdel scan
// rscan delrange checksum cas getttl locate sleep.
type Op struct {
	Kind string   `json:"k"`
	Slot int      `json:"slot,omitempty"`
	Keys []string `json:"keys,omitempty"`
	Vals []string `json:"vals,omitempty"`
	Lo   string   `json:"lo,omitempty"`
	Hi   string   `json:"hi,omitempty"`
	// begin
	Pess  bool `json:"pess,omitempty"`
	Async bool `json:"async,omitempty"`
	OnePC bool `json:"onepc,omitempty"`
	Pipe  bool `json:"pipelined,omitempty"`
	// lock
	NoWait  bool `json:"nowait,omitempty"`
	RetVals bool `json:"retvals,omitempty"`
	// scans
	Limit   int  `json:"limit,omitempty"`
	Batch   int  `json:"batch,omitempty"`
	KeyOnly bool `json:"keyonly,omitempty"`
	// snapshot reads: index of a remembered timestamp (-1: a fresh one)
	TSRef int `json:"tsref,omitempty"`
	// cas: expected previous value (nil: the key must not exist)
	Prev    *string `json:"prev,omitempty"`
	SleepMs int     `json:"sleep_ms,omitempty"`
}

// Actor runs its calls one after another on one client.
type Actor struct {
	Client  int  `json:"client"`
	Ks      int  `json:"ks"`
	StartUs int  `json:"start_us"`
	Ops     []Op `json:"ops"`
}

// SplitSpec names a region border: the prefix of keyspace Ks followed by the logical key Key
// (Key "" = exactly the keyspace's first key), or, with Ks = -1, one of the special borders
// "mode" (the one-byte mode prefix), "end2" (the end bound of B2).
type SplitSpec struct {
	Ks  int    `json:"ks"`
	Key string `json:"key"`
}

// TopoEvent is a scheduled topology change.
type TopoEvent struct {
	AtMs int       `json:"at_ms"`
	Kind string    `json:"kind"` // split | merge | leader
	At   SplitSpec `json:"at"`
}

// NetCfg configures the simulated network (no message is ever lost in this engine).
type NetCfg struct {
	Random   bool                   `json:"random,omitempty"`
	Rate     float64                `json:"rate,omitempty"`
	Kinds    []simkit.Fate          `json:"kinds,omitempty"`
	Plan     map[string]simkit.Fate `json:"plan,omitempty"`
	JitterUs int                    `json:"jitter_us"`
}

// Writer is the transaction of mode locks whose client dies inside Commit.
type Writer struct {
	Client int      `json:"client"`
	Ks     int      `json:"ks"`
	Pess   bool     `json:"pess,omitempty"`
	Async  bool     `json:"async,omitempty"`
	OnePC  bool     `json:"onepc,omitempty"`
	Keys   []string `json:"keys"`
	Vals   []string `json:"vals"` // "" = delete
	// the client is cut at the CrashAt-th request of Commit: before it leaves (CrashBefore) or
	// after it executed
	CrashAt     int  `json:"crash_at"`
	CrashBefore bool `json:"crash_before,omitempty"`
}

// Scenario is the explicit, replayable description of one run.
type Scenario struct {
	Kind     string      `json:"kind"`    // txn | raw
	Backend  string      `json:"backend"` // M (repo mocktikv) | R (reference store); raw: the mock's raw engine
	Stores   int         `json:"stores"`
	KsA      uint32      `json:"keyspace_a"`
	B2Client bool        `json:"b2_client"` // B2 has a bound client; otherwise a sentinel sits exactly on A's end bound
	Splits   []SplitSpec `json:"splits"`
	Topo     []TopoEvent `json:"topo,omitempty"`
	Net      NetCfg      `json:"net"`
	// EpochAllRate: share of requests answered with an EpochNotMatch error that lists every
	// region of the cluster (regions before, across and after the keyspace).
	EpochAllRate float64 `json:"epoch_all_rate,omitempty"`
	Clients      []int   `json:"clients"` // client id -> keyspace index
	Setup        []Actor `json:"setup"`   // phase 0: every keyspace is filled through its own client
	Main         []Actor `json:"main"`    // phase 1: A works, the B clients only read
	Writer       *Writer `json:"writer,omitempty"`
	// RevUnb: reverse scans from the unbounded end are generated (only in layouts where no region
	// border lies strictly inside a keyspace: known finding F1 concerns the other layouts).
	RevUnb bool `json:"rev_unbounded,omitempty"`
	// Static: no topology change of any kind during the run (LocateKey is then compared exactly).
	Static bool `json:"static,omitempty"`
	ParkPD bool `json:"park_pd,omitempty"`
	// Pipelined: the programs contain pipelined transactions (mode pipe-R only).
	Pipelined bool `json:"pipelined,omitempty"`
}

// ---------------------------------------------------------------------------------------------
// generation

var keyspaceIDs = []uint32{1, 2, 5, 255, 256, 257, 65535, 65536, 0x00FFFF, 0x010000, 0x7FFFFF, 0xFFFFFE, 4242, 70000}

// the logical keys every keyspace uses
var pool = []string{"a", "b", "b\x00", "c", "d", "e", "elong-key-0123", "f", "g", "@0:#1", "@2:#2"}

// bounds of scans and ranges
var bounds = []string{"", "a", "b", "b\x00", "c", "d", "e", "elong", "f", "g", "h", "z", "~", "@0:", "@0:#1", "@0:#2", "@2:", "@2:#9"}

// logical parts of region borders; "" = exactly on the keyspace's first key
var innerBorders = []string{"b", "c", "e", "elong-key-0123", "g", "@0:#1"}

func pick[T any](r *rand.Rand, xs []T) T { return xs[r.Intn(len(xs))] }

func subset(r *rand.Rand, xs []string, min, max int) []string {
	n := min
	if max > min {
		n += r.Intn(max - min + 1)
	}
	if n > len(xs) {
		n = len(xs)
	}
	p := r.Perm(len(xs))[:n]
	sort.Ints(p)
	out := make([]string, n)
	for i, j := range p {
		out[i] = xs[j]
	}
	return out
}

var regionErrKinds = []simkit.Fate{simkit.RENotLeader, simkit.RENotLeaderHint, simkit.REEpochNotMatch, simkit.REServerIsBusy,
	simkit.REStaleCommand, simkit.RERegionNotFound, simkit.Delay,
	// rarer refusals of a store that the sender retries (no effect on the store)
	simkit.REMaxTSNotSynced, simkit.RERecoveryInProgress, simkit.REIsWitness, simkit.RERegionNotInitialized, simkit.REKeyNotInRegion,
	simkit.REMismatchPeerID, simkit.REReadIndexNotReady, simkit.REProposalInMerging, simkit.REServerIsBusyHint, simkit.REStoreNotMatch}
var topoKinds = []simkit.Fate{simkit.TopoSplit, simkit.TopoSplit, simkit.TopoLeader, simkit.TopoLeader, simkit.TopoSplitAfter, simkit.TopoSplitAfter}

// genLayout draws region borders and topology events. aligned = no border strictly inside a keyspace, ever.
func genLayout(r *rand.Rand, sc *Scenario) {
	aligned := r.Intn(10) < 3
	var cands []SplitSpec
	alignedCands := []SplitSpec{{ksB1, ""}, {ksA, ""}, {ksB2, ""}, {-1, "end2"}, {-1, "mode"}}
	cands = append(cands, alignedCands...)
	if !aligned {
		for ks := 0; ks < 3; ks++ {
			for _, b := range innerBorders {
				cands = append(cands, SplitSpec{ks, b})
			}
		}
	}
	switch r.Intn(8) {
	case 0:
		// one region covers everything
	case 1:
		sc.Splits = []SplitSpec{{ksA, ""}, {ksB2, ""}} // a region that is exactly A
	case 2:
		if !aligned {
			sc.Splits = []SplitSpec{{ksB1, "e"}, {ksA, "c"}, {ksB2, "c"}} // regions spanning both bounds of A
		}
	default:
		n := 1 + r.Intn(6)
		seen := map[SplitSpec]bool{}
		for i := 0; i < n; i++ {
			s := pick(r, cands)
			if !seen[s] {
				seen[s] = true
				sc.Splits = append(sc.Splits, s)
			}
		}
	}
	sc.RevUnb = aligned
	sc.Stores = 1 + r.Intn(3)
	sc.Net.JitterUs = []int{0, 300, 3000}[r.Intn(3)]
	switch r.Intn(10) {
	case 0, 1, 2:
		sc.Static = true
	default:
		sc.Net.Random = true
		sc.Net.Rate = []float64{0.03, 0.08, 0.15, 0.25}[r.Intn(4)]
		sc.Net.Kinds = append(sc.Net.Kinds, regionErrKinds...)
		if r.Intn(4) != 0 {
			sc.Net.Kinds = append(sc.Net.Kinds, simkit.TopoLeader, simkit.TopoLeader)
			if !aligned {
				sc.Net.Kinds = append(sc.Net.Kinds, simkit.TopoSplit, simkit.TopoSplit, simkit.TopoSplitAfter, simkit.TopoSplitAfter)
			}
		}
		if r.Intn(3) == 0 {
			sc.EpochAllRate = []float64{0.02, 0.06, 0.12}[r.Intn(3)]
		}
		for i, n := 0, r.Intn(5); i < n; i++ {
			ev := TopoEvent{AtMs: 1 + r.Intn(400), Kind: []string{"split", "split", "merge", "leader"}[r.Intn(4)], At: pick(r, cands)}
			sc.Topo = append(sc.Topo, ev)
		}
		sort.SliceStable(sc.Topo, func(i, j int) bool { return sc.Topo[i].AtMs < sc.Topo[j].AtMs })
	}
	sc.ParkPD = r.Intn(3) == 0
}

type txnGen struct {
	sc     *Scenario
	r      *rand.Rand
	ks     int
	actor  int
	n      int
	nts    int
	revUnb bool
	rBack  bool // reference backend: async commit / 1PC available
	pipe   bool // pipelined transactions are generated (mode pipe-R)
	ops    []Op
}

func (g *txnGen) val() string {
	g.n++
	return fmt.Sprintf("v%d.%d.%d", g.ks, g.actor, g.n)
}

func (g *txnGen) add(op Op) { g.ops = append(g.ops, op) }

func (g *txnGen) scanBounds(rev bool) (lo, hi string) {
	lo, hi = pick(g.r, bounds), pick(g.r, bounds)
	if g.r.Intn(3) == 0 {
		lo = ""
	}
	if g.r.Intn(3) == 0 {
		hi = ""
	}
	if rev && hi == "" && !g.revUnb {
		hi = pick(g.r, []string{"~", "z", "h", "@2:#9"})
	}
	// an inverted range is a caller error the mock server cannot take (it panics); TiKV answers nothing
	if hi != "" && string(g.sc.resolve(lo)) > string(g.sc.resolve(hi)) {
		lo, hi = hi, lo
	}
	return
}

// resolve turns the "@<i>:" notation into bytes (same rule as world.key).
func (sc *Scenario) resolve(s string) []byte {
	if len(s) >= 3 && s[0] == '@' && s[2] == ':' && s[1] >= '0' && s[1] <= '2' {
		mode := byte('x')
		if sc.Kind == "raw" {
			mode = 'r'
		}
		id := [3]uint32{sc.KsA, sc.KsA - 1, sc.KsA + 1}[s[1]-'0']
		return append([]byte{mode, byte(id >> 16), byte(id >> 8), byte(id)}, s[3:]...)
	}
	return []byte(s)
}

func (g *txnGen) read(slot int, snap bool) {
	pfx := ""
	if snap {
		pfx = "snap"
	}
	op := Op{Slot: slot}
	if snap {
		op.TSRef = -1
		if g.nts > 0 && g.r.Intn(2) == 0 {
			op.TSRef = g.r.Intn(g.nts)
		}
	}
	switch g.r.Intn(5) {
	case 0:
		op.Kind, op.Keys = pfx+"get", []string{pick(g.r, pool)}
	case 1:
		op.Kind, op.Keys = pfx+"bget", subset(g.r, pool, 1, 6)
		// (inside a transaction a repeated key is not generated: BufferBatchGetter answers a key that
		// the transaction deleted with the snapshot's value when the key is listed twice - a defect
		// of transaction-level read-your-writes, property C07, unrelated to the codec)
		if snap && g.r.Intn(4) == 0 {
			op.Keys = append(op.Keys, op.Keys[0])
		}
	case 2, 3:
		op.Kind = pfx + "iter"
		op.Lo, op.Hi = g.scanBounds(false)
	default:
		op.Kind = pfx + "riter"
		op.Lo, op.Hi = g.scanBounds(true)
	}
	if op.Kind == pfx+"iter" || op.Kind == pfx+"riter" {
		op.Batch = []int{0, 1, 2, 3, 5}[g.r.Intn(5)]
		op.KeyOnly = snap && g.r.Intn(5) == 0
		if g.r.Intn(3) == 0 {
			op.Limit = 1 + g.r.Intn(4)
		}
	}
	g.add(op)
}

func (g *txnGen) begin(slot int, pess bool) {
	op := Op{Kind: "begin", Slot: slot, Pess: pess}
	if g.rBack {
		switch g.r.Intn(3) {
		case 0:
			op.Async = true
		case 1:
			op.OnePC = true
		}
	}
	g.add(op)
}

// episode appends one self-contained group of calls.
func (g *txnGen) episode() {
	r := g.r
	x := r.Intn(20)
	if g.pipe && r.Intn(4) == 0 {
		x = 100
	}
	switch {
	case x == 100: // a pipelined transaction: writes are flushed to the store while it runs, reads of its own flushed writes go to the store
		g.add(Op{Kind: "begin", Slot: 0, Pipe: true})
		for i, n := 0, 3+r.Intn(6); i < n; i++ {
			switch r.Intn(6) {
			case 0:
				g.add(Op{Kind: "del", Slot: 0, Keys: []string{pick(r, pool)}})
			case 1:
				g.add(Op{Kind: "get", Slot: 0, Keys: []string{pick(r, pool)}})
			case 2:
				g.add(Op{Kind: "bget", Slot: 0, Keys: subset(r, pool, 1, 6)})
			default:
				g.add(Op{Kind: "set", Slot: 0, Keys: []string{pick(r, pool)}, Vals: []string{g.val()}})
			}
		}
		if r.Intn(8) == 0 {
			g.add(Op{Kind: "rollback", Slot: 0})
		} else {
			g.add(Op{Kind: "commit", Slot: 0})
		}
	case x < 9: // one transaction
		pess := r.Intn(3) == 0
		g.begin(0, pess)
		locked := map[string]bool{}
		for i, n := 0, 1+r.Intn(6); i < n; i++ {
			switch r.Intn(7) {
			case 0, 1:
				k := pick(r, pool)
				if pess && !locked[k] {
					g.add(Op{Kind: "lock", Slot: 0, Keys: []string{k}, RetVals: r.Intn(2) == 0})
					locked[k] = true
				}
				g.add(Op{Kind: "set", Slot: 0, Keys: []string{k}, Vals: []string{g.val()}})
			case 2:
				k := pick(r, pool)
				if pess && !locked[k] {
					g.add(Op{Kind: "lock", Slot: 0, Keys: []string{k}})
					locked[k] = true
				}
				g.add(Op{Kind: "del", Slot: 0, Keys: []string{k}})
			case 3:
				if pess {
					ks := subset(r, pool, 1, 4)
					for _, k := range ks {
						locked[k] = true
					}
					g.add(Op{Kind: "lock", Slot: 0, Keys: ks, RetVals: r.Intn(2) == 0})
				} else {
					g.add(Op{Kind: "insert", Slot: 0, Keys: []string{pick(r, pool)}, Vals: []string{g.val()}})
				}
			default:
				g.read(0, false)
			}
		}
		if r.Intn(6) == 0 {
			g.add(Op{Kind: "rollback", Slot: 0})
		} else {
			g.add(Op{Kind: "commit", Slot: 0})
		}
	case x < 11: // write-write conflict: the older transaction must fail with the key decoded
		k := pick(r, pool)
		g.begin(0, false)
		g.begin(1, r.Intn(4) == 0)
		if g.ops[len(g.ops)-1].Pess {
			g.add(Op{Kind: "lock", Slot: 1, Keys: []string{k}})
		}
		g.add(Op{Kind: "set", Slot: 1, Keys: []string{k}, Vals: []string{g.val()}})
		g.add(Op{Kind: "commit", Slot: 1})
		g.read(0, false)
		g.add(Op{Kind: "set", Slot: 0, Keys: []string{k}, Vals: []string{g.val()}})
		if r.Intn(2) == 0 {
			g.add(Op{Kind: "set", Slot: 0, Keys: []string{pick(r, pool)}, Vals: []string{g.val()}})
		}
		g.add(Op{Kind: "commit", Slot: 0})
	case x < 13: // a pessimistic lock held by one transaction refuses another one that does not wait
		k := pick(r, pool)
		g.begin(0, true)
		g.add(Op{Kind: "lock", Slot: 0, Keys: []string{k}, RetVals: true})
		g.begin(1, true)
		g.add(Op{Kind: "lock", Slot: 1, Keys: []string{k}, NoWait: true})
		g.add(Op{Kind: "rollback", Slot: 1})
		g.add(Op{Kind: "set", Slot: 0, Keys: []string{k}, Vals: []string{g.val()}})
		g.add(Op{Kind: "commit", Slot: 0})
	case x < 15: // snapshot isolation between two open transactions on disjoint keys
		ks := subset(r, pool, 2, 4)
		g.begin(0, false)
		g.begin(1, false)
		g.add(Op{Kind: "set", Slot: 1, Keys: ks[:1], Vals: []string{g.val()}})
		g.add(Op{Kind: "commit", Slot: 1})
		g.add(Op{Kind: "get", Slot: 0, Keys: ks[:1]})
		g.read(0, false)
		g.add(Op{Kind: "set", Slot: 0, Keys: ks[1:2], Vals: []string{g.val()}})
		g.add(Op{Kind: "commit", Slot: 0})
	case x < 17: // snapshot reads, also at remembered timestamps
		if r.Intn(2) == 0 {
			g.add(Op{Kind: "ts"})
			g.nts++
		}
		for i, n := 0, 1+r.Intn(3); i < n; i++ {
			g.read(0, true)
		}
	default: // calls that are not part of a transaction
		switch r.Intn(10) {
		case 8:
			lo, hi := g.scanBounds(false)
			g.add(Op{Kind: "destroyrange", Lo: lo, Hi: hi})
		case 9:
			// a pessimistic transaction that lives long enough for its lock keeper to send heart beats
			k := pick(r, pool)
			g.begin(0, true)
			g.add(Op{Kind: "lock", Slot: 0, Keys: []string{k}})
			g.add(Op{Kind: "sleep", SleepMs: 11000 + r.Intn(12000)})
			g.add(Op{Kind: "set", Slot: 0, Keys: []string{k}, Vals: []string{g.val()}})
			g.add(Op{Kind: "commit", Slot: 0})
		case 0:
			g.add(Op{Kind: "locate", Keys: []string{pick(r, append(append([]string{}, pool...), bounds[1:]...))}})
		case 2:
			g.add(Op{Kind: "locend", Keys: []string{pick(r, bounds[1:])}})
		case 3, 1:
			lo, hi := g.scanBounds(false)
			g.add(Op{Kind: "locrange", Lo: lo, Hi: hi})
		case 4:
			lo, hi := g.scanBounds(false)
			g.add(Op{Kind: "scanlocks", Lo: lo, Hi: hi})
		case 5:
			lo, hi := g.scanBounds(false)
			g.add(Op{Kind: "resolverange", Lo: lo, Hi: hi, Limit: 1 + r.Intn(3)})
		case 6:
			lo, hi := g.scanBounds(false)
			g.add(Op{Kind: "delrange", Lo: lo, Hi: hi})
		default:
			g.add(Op{Kind: "split", Keys: subset(r, innerBorders, 1, 2)})
		}
	}
}

func genTxnActor(r *rand.Rand, sc *Scenario, client, ks, actor, episodes int, readOnly bool) Actor {
	g := &txnGen{sc: sc, r: r, ks: ks, actor: actor, revUnb: sc.RevUnb, rBack: sc.Backend == "R", pipe: sc.Pipelined}
	a := Actor{Client: client, Ks: ks, StartUs: 17 * (actor + 1)}
	if readOnly {
		for i := 0; i < episodes; i++ {
			if r.Intn(3) == 0 {
				g.add(Op{Kind: "locate", Keys: []string{pick(r, pool)}})
			} else if r.Intn(4) == 0 {
				lo, hi := g.scanBounds(false)
				g.add(Op{Kind: "scanlocks", Lo: lo, Hi: hi})
			} else {
				g.read(0, true)
			}
		}
		a.Ops = g.ops
		return a
	}
	for i := 0; i < episodes; i++ {
		g.episode()
	}
	a.Ops = g.ops
	return a
}

// genFill is the setup program of a keyspace: two or three plain transactions that give most
// keys a value carrying the keyspace's mark.
func genFill(r *rand.Rand, sc *Scenario, client, ks, actor int) Actor {
	g := &txnGen{sc: sc, r: r, ks: ks, actor: 100 + actor, rBack: sc.Backend == "R"}
	for t, n := 0, 2+r.Intn(2); t < n; t++ {
		g.begin(0, r.Intn(4) == 0)
		pess := g.ops[len(g.ops)-1].Pess
		for _, k := range subset(r, pool, 2, 7) {
			if pess {
				g.add(Op{Kind: "lock", Slot: 0, Keys: []string{k}})
			}
			g.add(Op{Kind: "set", Slot: 0, Keys: []string{k}, Vals: []string{g.val()}})
		}
		g.add(Op{Kind: "commit", Slot: 0})
	}
	return Actor{Client: client, Ks: ks, StartUs: 17 * (actor + 1), Ops: g.ops}
}

func baseScenario(r *rand.Rand, kind, backend string) *Scenario {
	sc := &Scenario{Kind: kind, Backend: backend, KsA: pick(r, keyspaceIDs), B2Client: r.Intn(2) == 0}
	genLayout(r, sc)
	return sc
}

// clients: 0 = A, 1 = B1, 2 = B2 (only if B2Client), then extra clients
func (sc *Scenario) baseClients() {
	sc.Clients = []int{ksA, ksB1}
	if sc.B2Client {
		sc.Clients = append(sc.Clients, ksB2)
	}
}

func genTxn(cfg simkit.RunConfig, backend string) *Scenario {
	r := simkit.Rand(cfg.Seed, "gen")
	sc := baseScenario(r, "txn", backend)
	sc.Pipelined = cfg.Mode == "pipe-R"
	sc.baseClients()
	for c, ks := range sc.Clients {
		sc.Setup = append(sc.Setup, genFill(r, sc, c, ks, c))
	}
	sc.Main = append(sc.Main, genTxnActor(r, sc, 0, ksA, 0, 3+r.Intn(6), false))
	for c, ks := range sc.Clients {
		if c > 0 {
			sc.Main = append(sc.Main, genTxnActor(r, sc, c, ks, c, 2+r.Intn(4), true))
		}
	}
	return sc
}

// genLocks: a writer of keyspace A dies inside Commit; after its locks expired the surviving A
// client works on the same keys (it must meet, read and resolve the locks), the B clients read.
func genLocks(cfg simkit.RunConfig, backend string) *Scenario {
	r := simkit.Rand(cfg.Seed, "gen")
	sc := baseScenario(r, "txn", backend)
	sc.baseClients()
	wc := len(sc.Clients)
	sc.Clients = append(sc.Clients, ksA)
	for c, ks := range sc.Clients[:wc] {
		sc.Setup = append(sc.Setup, genFill(r, sc, c, ks, c))
	}
	w := &Writer{Client: wc, Ks: ksA, Pess: r.Intn(3) == 0, CrashAt: pick(r, []int{0, 0, 1, 1, 1, 2, 2, 3, 4, 6}), CrashBefore: r.Intn(3) == 0}
	if backend == "R" {
		switch r.Intn(3) {
		case 0:
			w.Async = true
		case 1:
			w.OnePC = true
		}
	}
	w.Keys = subset(r, pool, 1, 6)
	for i := range w.Keys {
		if r.Intn(5) == 0 {
			w.Vals = append(w.Vals, "")
		} else {
			w.Vals = append(w.Vals, fmt.Sprintf("w%d", i))
		}
	}
	sc.Writer = w
	// the survivor: first looks at the locks, then works
	g := &txnGen{sc: sc, r: r, ks: ksA, actor: 0, revUnb: sc.RevUnb, rBack: backend == "R"}
	for i, n := 0, r.Intn(3); i < n; i++ {
		switch r.Intn(3) {
		case 0:
			g.add(Op{Kind: "scanlocks", Lo: "", Hi: ""})
		case 1:
			lo, hi := g.scanBounds(false)
			g.add(Op{Kind: "scanlocks", Lo: lo, Hi: hi})
		default:
			g.read(0, true)
		}
	}
	if r.Intn(4) == 0 {
		g.add(Op{Kind: "resolverange", Lo: "", Hi: "", Limit: 1 + r.Intn(3)})
	}
	for i, n := 0, 2+r.Intn(5); i < n; i++ {
		g.episode()
	}
	g.add(Op{Kind: "snapiter", TSRef: -1})
	for i := range g.ops {
		// DeleteRange removes the very records from which the dead writer's outcome is read at the end
		if g.ops[i].Kind == "delrange" || g.ops[i].Kind == "destroyrange" {
			g.ops[i] = Op{Kind: "locrange", Lo: g.ops[i].Lo, Hi: g.ops[i].Hi}
		}
	}
	sc.Main = append(sc.Main, Actor{Client: 0, Ks: ksA, StartUs: 17, Ops: g.ops})
	for c, ks := range sc.Clients[:wc] {
		if c > 0 {
			sc.Main = append(sc.Main, genTxnActor(r, sc, c, ks, c, 2+r.Intn(3), true))
		}
	}
	return sc
}

// ---------------------------------------------------------------------------------------------
// raw programs

type rawGen struct {
	r     *rand.Rand
	ks    int
	actor int
	n     int
	ops   []Op
	last  map[string]string // likely current values (steers compare-and-swap only)
}

func (g *rawGen) val() string {
	g.n++
	return fmt.Sprintf("r%d.%d.%d", g.ks, g.actor, g.n)
}

func (g *rawGen) step(readOnly bool) {
	r := g.r
	x := r.Intn(20)
	if readOnly {
		x = 10 + r.Intn(8)
	}
	switch {
	case x < 3:
		k, v := pick(r, pool), g.val()
		g.last[k] = v
		g.ops = append(g.ops, Op{Kind: "put", Keys: []string{k}, Vals: []string{v}})
	case x < 5:
		ks := subset(r, pool, 1, 6)
		if r.Intn(4) == 0 {
			ks = append(ks, ks[0])
		}
		op := Op{Kind: "bput", Keys: ks}
		for _, k := range ks {
			v := g.val()
			g.last[k] = v
			op.Vals = append(op.Vals, v)
		}
		g.ops = append(g.ops, op)
	case x < 6:
		k := pick(r, pool)
		delete(g.last, k)
		g.ops = append(g.ops, Op{Kind: "del", Keys: []string{k}})
	case x < 7:
		ks := subset(r, pool, 1, 4)
		for _, k := range ks {
			delete(g.last, k)
		}
		g.ops = append(g.ops, Op{Kind: "bdel", Keys: ks})
	case x < 8:
		lo, hi := pick(r, bounds), pick(r, bounds)
		if r.Intn(3) == 0 {
			hi = ""
		}
		g.ops = append(g.ops, Op{Kind: "delrange", Lo: lo, Hi: hi})
	case x < 10:
		k := pick(r, pool)
		op := Op{Kind: "cas", Keys: []string{k}, Vals: []string{g.val()}}
		switch r.Intn(3) {
		case 0:
			if v, ok := g.last[k]; ok {
				op.Prev = &v
			}
		case 1:
			s := "stale"
			op.Prev = &s
		}
		g.ops = append(g.ops, op)
	case x < 12:
		g.ops = append(g.ops, Op{Kind: "get", Keys: []string{pick(r, pool)}})
	case x < 13:
		ks := subset(r, pool, 1, 6)
		if r.Intn(4) == 0 {
			ks = append(ks, ks[0])
		}
		g.ops = append(g.ops, Op{Kind: "bget", Keys: ks})
	case x < 16:
		kind := "scan"
		if r.Intn(2) == 0 {
			kind = "rscan"
		}
		lo, hi := pick(r, bounds), pick(r, bounds)
		if r.Intn(3) == 0 {
			lo = ""
		}
		if r.Intn(3) == 0 {
			hi = ""
		}
		g.ops = append(g.ops, Op{Kind: kind, Lo: lo, Hi: hi, Limit: []int{1, 2, 3, 5, 100}[r.Intn(5)], KeyOnly: r.Intn(5) == 0})
	case x < 17:
		lo, hi := pick(r, bounds), pick(r, bounds)
		if r.Intn(2) == 0 {
			hi = ""
		}
		if r.Intn(3) == 0 {
			lo = ""
		}
		g.ops = append(g.ops, Op{Kind: "checksum", Lo: lo, Hi: hi})
	case x < 18:
		g.ops = append(g.ops, Op{Kind: "getttl", Keys: []string{pick(r, pool)}})
	default:
		g.ops = append(g.ops, Op{Kind: "locate", Keys: []string{pick(r, append(append([]string{}, pool...), bounds[1:]...))}})
	}
}

func genRaw(cfg simkit.RunConfig) *Scenario {
	r := simkit.Rand(cfg.Seed, "gen")
	sc := baseScenario(r, "raw", "M")
	sc.baseClients()
	for c, ks := range sc.Clients {
		g := &rawGen{r: r, ks: ks, actor: 100 + c, last: map[string]string{}}
		op := Op{Kind: "bput", Keys: subset(r, pool, 3, 9)}
		for range op.Keys {
			op.Vals = append(op.Vals, g.val())
		}
		g.ops = append(g.ops, op)
		for i, n := 0, r.Intn(3); i < n; i++ {
			g.ops = append(g.ops, Op{Kind: "put", Keys: []string{pick(r, pool)}, Vals: []string{g.val()}})
		}
		sc.Setup = append(sc.Setup, Actor{Client: c, Ks: ks, StartUs: 17 * (c + 1), Ops: g.ops})
	}
	for c, ks := range sc.Clients {
		g := &rawGen{r: r, ks: ks, actor: c, last: map[string]string{}}
		for i, n := 0, 6+r.Intn(12); i < n; i++ {
			g.step(c > 0)
		}
		sc.Main = append(sc.Main, Actor{Client: c, Ks: ks, StartUs: 17 * (c + 1), Ops: g.ops})
	}
	return sc
}
