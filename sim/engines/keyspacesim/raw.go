package keyspacesim

import (
	"context"
	"time"

	"github.com/tikv/client-go/v2/config/retry"
	"github.com/tikv/client-go/v2/internal/locate"
	"github.com/tikv/client-go/v2/rawkv"
)

func (w *world) runRawActor(phase, ai int, a *Actor) {
	s := w.sim
	time.Sleep(time.Duration(a.StartUs) * time.Microsecond)
	c := w.raws[a.Client]
	ctx := context.Background()
	for i := range a.Ops {
		if s.Aborted != "" {
			return
		}
		op := &a.Ops[i]
		if op.Kind == "sleep" {
			time.Sleep(time.Duration(op.SleepMs) * time.Millisecond)
			continue
		}
		time.Sleep(37 * time.Microsecond)
		rec := &OpRec{Phase: phase, Actor: ai, Idx: i, Ks: a.Ks, Op: op}
		fired := w.faultsFired()
		rec.Inv = s.Stamp()
		var err error
		var k0 []byte
		if len(op.Keys) > 0 {
			k0 = w.key(op.Keys[0])
		}
		vals := func() [][]byte {
			out := make([][]byte, len(op.Vals))
			for j, v := range op.Vals {
				out[j] = []byte(v)
			}
			return out
		}
		switch op.Kind {
		case "put":
			err = c.Put(ctx, k0, []byte(op.Vals[0]))
		case "get":
			var v []byte
			v, err = c.Get(ctx, k0)
			rec.Val = sp(v)
		case "getttl":
			rec.TTL, err = c.GetKeyTTL(ctx, k0)
		case "del":
			err = c.Delete(ctx, k0)
		case "bget":
			var vs [][]byte
			vs, err = c.BatchGet(ctx, w.keys(op.Keys))
			for _, v := range vs {
				rec.ValList = append(rec.ValList, sp(v))
			}
		case "bput":
			err = c.BatchPut(ctx, w.keys(op.Keys), vals())
		case "bdel":
			err = c.BatchDelete(ctx, w.keys(op.Keys))
		case "delrange":
			err = c.DeleteRange(ctx, w.key(op.Lo), w.key(op.Hi))
		case "scan", "rscan":
			var ks, vs [][]byte
			var opts []rawkv.RawOption
			if op.KeyOnly {
				opts = append(opts, rawkv.ScanKeyOnly())
			}
			if op.Kind == "scan" {
				ks, vs, err = c.Scan(ctx, w.key(op.Lo), w.key(op.Hi), op.Limit, opts...)
			} else {
				// ReverseScan(startKey, endKey) covers [endKey, startKey)
				ks, vs, err = c.ReverseScan(ctx, w.key(op.Hi), w.key(op.Lo), op.Limit, opts...)
			}
			rec.Keys, rec.Values = []string{}, []string{}
			for _, k := range ks {
				rec.Keys = append(rec.Keys, string(k))
			}
			for _, v := range vs {
				rec.Values = append(rec.Values, string(v))
			}
		case "checksum":
			rec.Sum, err = c.Checksum(ctx, w.key(op.Lo), w.key(op.Hi))
		case "cas":
			var prev []byte
			if op.Prev != nil {
				prev = []byte(*op.Prev)
			}
			var old []byte
			old, rec.Swapped, err = c.CompareAndSwap(ctx, k0, prev, []byte(op.Vals[0]))
			rec.Val = sp(old)
		case "locate":
			bo := retry.NewBackofferWithVars(ctx, 20000, nil)
			var loc *locate.KeyLocation
			loc, err = rawkv.ClientProbe{Client: c}.GetRegionCache().LocateKey(bo, k0)
			if err == nil {
				rec.Locs = []LocDesc{{ID: loc.Region.GetID(), Start: string(loc.StartKey), End: string(loc.EndKey)}}
			}
		default:
			panic("unknown raw op " + op.Kind)
		}
		rec.Ret = s.Stamp()
		rec.Faults = w.faultsFired() - fired
		rec.Err, rec.ErrKeys = classify(err)
		w.record(phase, rec)
		s.Count("op." + op.Kind)
		if err != nil {
			s.Count("op-error." + op.Kind)
		}
	}
}
