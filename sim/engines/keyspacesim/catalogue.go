package keyspacesim

import (
	"fmt"
	"reflect"
	"sort"

	"github.com/pingcap/kvproto/pkg/errorpb"
	"github.com/pingcap/kvproto/pkg/kvrpcpb"
	"github.com/pingcap/kvproto/pkg/tikvpb"
	"github.com/tikv/client-go/v2/tikvrpc"
	"github.com/tikv/client-go/v2/verifsim/simkit"
)

// Mode "catalogue" is NOT a simulation: it is a plain, complete enumeration, kept beside the simulated modes because
// the last sentence of C15 quantifies over the command catalogue and the simulated runs reach only the command types
// the clients emit. Every command type the library names is paired (by reflection, see requestTypes) with its request
// message type, and the three wire-hop facts are evaluated once per command type:
//
//	(1) the request context can be attached: AttachContext reports success and the message carries the context;
//	(2) a region-error response of the matching type can be generated and the error can be read back from it;
//	(3) a command that has a batched wire form: ToBatchCommandsRequest carries the request's own message, and a
//	    batched response of the matching kind comes back through FromBatchCommandsResponse as the same message.
//
// A command type whose request message has no Context field is outside (1); one whose response message has no
// RegionError field is outside (2); one without a batched form is outside (3) - each is counted, not judged.

// requestTypes pairs command types with request message types: the accessor methods of *tikvrpc.Request (Get(),
// Prewrite(), ...) return the message types; a (command type, message type) pair belongs together when AttachContext
// accepts the pair (it type-asserts Req per command type and panics on a mismatch).
func requestTypes() map[tikvrpc.CmdType]reflect.Type {
	var msgTypes []reflect.Type
	rt := reflect.TypeOf(&tikvrpc.Request{})
	seen := map[reflect.Type]bool{}
	for i := 0; i < rt.NumMethod(); i++ {
		m := rt.Method(i)
		if m.Type.NumIn() != 1 || m.Type.NumOut() != 1 {
			continue
		}
		out := m.Type.Out(0)
		if out.Kind() != reflect.Ptr || out.Elem().Kind() != reflect.Struct || seen[out] {
			continue
		}
		if _, ok := out.Elem().FieldByName("Context"); !ok {
			if out.Elem().NumField() == 0 {
				continue
			}
		}
		seen[out] = true
		msgTypes = append(msgTypes, out)
	}
	accepts := func(ct tikvrpc.CmdType, t reflect.Type) (ok bool) {
		defer func() {
			if recover() != nil {
				ok = false
			}
		}()
		req := &tikvrpc.Request{Type: ct, Req: reflect.New(t.Elem()).Interface()}
		if !tikvrpc.AttachContext(req, kvrpcpb.Context{RegionId: 4711}) {
			return false
		}
		// accepted means: the context really arrived in a message of this type
		f := reflect.ValueOf(req.Req).Elem().FieldByName("Context")
		if !f.IsValid() {
			return false
		}
		c, _ := f.Interface().(*kvrpcpb.Context)
		return c != nil && c.RegionId == 4711
	}
	out := map[tikvrpc.CmdType]reflect.Type{}
	for t := 1; t < 4096; t++ {
		ct := tikvrpc.CmdType(t)
		if ct.String() == "Unknown" {
			continue
		}
		// the accessor of the same name first (Get() for CmdGet ...), then any accepted type
		if m, ok := rt.MethodByName(ct.String()); ok && m.Type.NumIn() == 1 && m.Type.NumOut() == 1 && m.Type.Out(0).Kind() == reflect.Ptr {
			out[ct] = m.Type.Out(0)
			continue
		}
		found := false
		for _, mt := range msgTypes {
			if mt.Elem().Name() == ct.String()+"Request" {
				out[ct] = mt
				found = true
				break
			}
		}
		for _, mt := range msgTypes {
			if !found && accepts(ct, mt) {
				out[ct] = mt
				found = true
			}
		}
	}
	return out
}

func runCatalogue(res *simkit.RunResult) []simkit.Violation {
	var vs []simkit.Violation
	fail := func(class, cmd, format string, args ...any) {
		vs = append(vs, simkit.Violation{Property: "C15", Class: class, Sig: cmd, Detail: fmt.Sprintf(format, args...)})
	}
	types := requestTypes()
	var names []string
	byName := map[string]tikvrpc.CmdType{}
	for t := 1; t < 4096; t++ {
		ct := tikvrpc.CmdType(t)
		if n := ct.String(); n != "Unknown" {
			names = append(names, n)
			byName[n] = ct
		}
	}
	sort.Strings(names)
	for _, name := range names {
		ct := byName[name]
		res.Stats["catalogue.cmd."+name] = 1
		mt, ok := types[ct]
		if !ok {
			res.Stats["catalogue.no-request-type."+name] = 1
			continue
		}
		newReq := func() *tikvrpc.Request {
			return &tikvrpc.Request{Type: ct, Req: reflect.New(mt.Elem()).Interface()}
		}
		// (1) context
		func() {
			req := newReq()
			if !hasField(req.Req, "Context") {
				res.Stats["catalogue.no-context-field."+name] = 1
				return
			}
			defer func() {
				if r := recover(); r != nil {
					fail("wirehop-attach-context", name, "AttachContext panics for command type %s with its own request message %s: %v", name, mt, r)
				}
			}()
			ctx := kvrpcpb.Context{ApiVersion: kvrpcpb.APIVersion_V2, Keyspace: &kvrpcpb.Context_KeyspaceId{KeyspaceId: 4242}, RegionId: 77}
			okAttach := tikvrpc.AttachContext(req, ctx)
			got, _ := reflect.ValueOf(req.Req).Elem().FieldByName("Context").Interface().(*kvrpcpb.Context)
			res.Stats["catalogue.judged.attach-context"]++
			if !okAttach || got == nil || got.GetKeyspaceId() != 4242 || got.ApiVersion != kvrpcpb.APIVersion_V2 || got.RegionId != 77 {
				fail("wirehop-attach-context", name, "command type %s (%s): AttachContext returned %v and the message's context is %v: the request would leave without api version and keyspace id", name, mt, okAttach, got)
			}
		}()
		// (2) region error of the matching type
		func() {
			defer func() {
				if r := recover(); r != nil {
					fail("wirehop-region-error", name, "GenRegionErrorResp panics for command type %s: %v", name, r)
				}
			}()
			probe := &errorpb.Error{Message: "probe", ServerIsBusy: &errorpb.ServerIsBusy{Reason: "probe"}}
			r, err := tikvrpc.GenRegionErrorResp(newReq(), probe)
			if err != nil {
				// no response can be generated: a defect only if the command's response message (the result type of the
				// TikvClient method that takes this request message) can carry a region error at all
				rts := responseTypes()[mt]
				carries := ""
				for _, t := range rts {
					if _, ok := t.Elem().FieldByName("RegionError"); ok {
						carries = t.String()
					}
				}
				if carries == "" {
					res.Stats["catalogue.no-region-error-field."+name] = 1
					return
				}
				res.Stats["catalogue.judged.region-error"]++
				fail("wirehop-region-error", name, "a region-error response for command type %s cannot be generated (%v) although its response message %s has a region_error field", name, err, carries)
				return
			}
			if r == nil || r.Resp == nil || !hasField(r.Resp, "RegionError") {
				res.Stats["catalogue.no-region-error-field."+name] = 1
				return
			}
			res.Stats["catalogue.judged.region-error"]++
			back, err := r.GetRegionError()
			if err != nil || back != probe {
				fail("wirehop-region-error", name, "the region error put into a %T for command type %s cannot be read back: err=%v got=%v", r.Resp, name, err, back)
			}
		}()
		// (3) batched wire form, both directions
		func() {
			defer func() {
				if r := recover(); r != nil {
					fail("wirehop-batch-form", name, "the conversion to / from the batched wire form panics for command type %s: %v", name, r)
				}
			}()
			req := newReq()
			b := req.ToBatchCommandsRequest()
			if b == nil {
				res.Stats["catalogue.not-batchable."+name] = 1
				return
			}
			res.Stats["catalogue.judged.batch-form"]++
			inner := reflect.ValueOf(b.Cmd)
			if inner.Kind() != reflect.Ptr || inner.IsNil() || inner.Elem().NumField() != 1 || inner.Elem().Field(0).Interface() != req.Req {
				fail("wirehop-batch-form", name, "the batched wire form of a %s request does not carry the request's own message (%T)", name, b.Cmd)
				return
			}
			// the way back: the response oneof case with the same field name as the request's case
			caseName := inner.Elem().Type().Field(0).Name
			respMsg, _ := tikvrpc.GenRegionErrorResp(newReq(), &errorpb.Error{Message: "x"})
			if respMsg == nil || respMsg.Resp == nil {
				return
			}
			var wrapped *tikvpb.BatchCommandsResponse_Response
			rt := reflect.TypeOf((*tikvpb.BatchCommandsResponse_Response)(nil)).Elem()
			_ = rt
			for _, cand := range batchResponseCases() {
				if cand.Elem().Field(0).Name == caseName && cand.Elem().Field(0).Type == reflect.TypeOf(respMsg.Resp) {
					c := reflect.New(cand.Elem())
					c.Elem().Field(0).Set(reflect.ValueOf(respMsg.Resp))
					wrapped = &tikvpb.BatchCommandsResponse_Response{}
					reflect.ValueOf(wrapped).Elem().FieldByName("Cmd").Set(c)
					break
				}
			}
			if wrapped == nil {
				res.Stats["catalogue.no-batched-response-case."+name] = 1
				return
			}
			back, err := tikvrpc.FromBatchCommandsResponse(wrapped)
			res.Stats["catalogue.judged.batch-form-back"]++
			if err != nil || back == nil || back.Resp != respMsg.Resp {
				fail("wirehop-batch-form", name, "a batched %s response does not come back as the same message: err=%v got=%v", caseName, err, back)
			}
		}()
	}
	res.Stats["catalogue.command-types"] = len(names)
	return vs
}

// batchResponseCases lists the oneof wrapper types of BatchCommandsResponse_Response (found through the generated
// XXX_OneofWrappers / XXX_OneofFuncs tables).
func batchResponseCases() []reflect.Type {
	var out []reflect.Type
	m := &tikvpb.BatchCommandsResponse_Response{}
	if w, ok := any(m).(interface{ XXX_OneofWrappers() []interface{} }); ok {
		for _, x := range w.XXX_OneofWrappers() {
			out = append(out, reflect.TypeOf(x))
		}
	}
	return out
}

var respTypesCache map[reflect.Type][]reflect.Type

// responseTypes maps a request message type to the response message types of the TikvClient methods that take it.
func responseTypes() map[reflect.Type][]reflect.Type {
	if respTypesCache != nil {
		return respTypesCache
	}
	out := map[reflect.Type][]reflect.Type{}
	ct := reflect.TypeOf((*tikvpb.TikvClient)(nil)).Elem()
	for i := 0; i < ct.NumMethod(); i++ {
		m := ct.Method(i).Type
		if m.NumIn() < 2 || m.NumOut() != 2 {
			continue
		}
		in, o := m.In(1), m.Out(0)
		if in.Kind() != reflect.Ptr || o.Kind() != reflect.Ptr || o.Elem().Kind() != reflect.Struct {
			continue
		}
		out[in] = append(out[in], o)
	}
	respTypesCache = out
	return out
}
