package txnsim

import (
	"crypto/sha1"
	"encoding/hex"
	"encoding/json"
	"fmt"
	"math/rand"
	"os"
	"path/filepath"
	"sort"
	"strings"
	"sync"
	"testing"
	"testing/synctest"
	"time"

	"github.com/tikv/client-go/v2/internal/locate"
	"github.com/tikv/client-go/v2/oracle"
	"github.com/tikv/client-go/v2/verifsim/simkit"
)

func oracleOption() oracle.Option { return oracle.Option{TxnScope: oracle.GlobalTxnScope} }

// Engine implements simkit.Engine.
type Engine struct{}

// Name implements simkit.Engine.
func (Engine) Name() string { return "txnsim" }

// Decode implements simkit.Engine.
func (Engine) Decode(raw json.RawMessage) (any, error) {
	var sc Scenario
	if err := json.Unmarshal(raw, &sc); err != nil {
		return nil, err
	}
	return &sc, nil
}

// Generate implements simkit.Engine.
// directedScenario: mode "directed" re-runs the hand-written / minimised scenarios kept under
// <verif>/directed/*.json (regressions of repaired findings) with all oracles; the i-th run is the i-th file.
func directedScenario(cfg simkit.RunConfig) (any, bool) {
	root := os.Getenv("VERIF_ROOT")
	if root == "" {
		root = "/verif"
	}
	files, _ := filepath.Glob(filepath.Join(root, "directed", "*.json"))
	sort.Strings(files)
	if cfg.Index >= len(files) {
		return nil, false
	}
	raw, err := os.ReadFile(files[cfg.Index])
	if err != nil {
		return nil, false
	}
	var rf struct {
		Seed     uint64          `json:"seed"`
		Scenario json.RawMessage `json:"scenario"`
	}
	if json.Unmarshal(raw, &rf) != nil {
		return nil, false
	}
	sc, err := Engine{}.Decode(rf.Scenario)
	if err != nil {
		return nil, false
	}
	sc.(*Scenario).Seed = rf.Seed
	return sc, true
}

func (e Engine) Generate(cfg simkit.RunConfig) (any, bool) {
	sc, ok := e.generate(cfg)
	if s, is := sc.(*Scenario); ok && is && s != nil {
		switch strings.TrimSuffix(cfg.Mode, "-R") {
		case "", "workload", "nofault", "crash", "crashfaults", "faults", "leftover":
			addAsserts(cfg.Seed, s)
		}
		switch strings.TrimSuffix(cfg.Mode, "-R") {
		case "", "workload", "nofault", "reads", "ryw":
			addReplicaReads(cfg.Seed, s)
		}
		switch strings.TrimSuffix(cfg.Mode, "-R") {
		case "", "workload", "crashfaults", "reads", "gc", "lockretry":
			addRareFaults(cfg.Seed, s)
		}
		switch strings.TrimSuffix(cfg.Mode, "-R") {
		case "", "workload", "nofault", "reads", "ryw", "crash", "stalelock":
			addReadKnobs(cfg.Seed, s)
		}
		switch strings.TrimSuffix(cfg.Mode, "-R") {
		case "", "workload", "nofault", "faults", "crash", "crashfaults", "leftover", "stalelock", "lockretry":
			addFallbacks(cfg.Seed, s)
		}
		switch strings.TrimSuffix(cfg.Mode, "-R") {
		case "", "workload", "nofault", "leftover", "crash":
			addOnlyIfExists(cfg.Seed, s)
		}
	}
	return sc, ok
}

func (Engine) generate(cfg simkit.RunConfig) (any, bool) {
	// a mode name ending in "-R" runs on the reference backend (all commit modes: 2PC, async commit, 1PC)
	backend := "M"
	mode := cfg.Mode
	if strings.HasSuffix(mode, "-R") {
		backend = "R"
		mode = strings.TrimSuffix(mode, "-R")
	}
	c2 := cfg
	c2.Mode = mode
	async, onepc := 0.0, 0.0
	if backend == "R" {
		async, onepc = 0.4, 0.3
	}
	switch mode {
	case "directed":
		return directedScenario(cfg)
	case "", "workload":
		return genWorkload(c2, genOpts{maxTxns: 6, pessRate: 0.4, faults: true, topo: true, backend: backend, asyncRate: async, onePCRate: onepc}), true
	case "nofault":
		return genWorkload(c2, genOpts{maxTxns: 6, pessRate: 0.4, faults: false, topo: true, backend: backend, asyncRate: async, onePCRate: onepc}), true
	case "crash", "crashfaults":
		return genCrash(c2, backend), true
	case "latch":
		return genLatch(c2, backend), true
	case "commitwait":
		// C13's commit-wait clause on the commit timestamps transactions really get: every transaction carries a
		// constraint a few milliseconds ahead of its start, half of them ask for causal consistency only
		sc := genWorkload(c2, genOpts{maxTxns: 5, pessRate: 0.3, faults: false, topo: false, backend: backend, asyncRate: 0.5, onePCRate: 0.4})
		r := simkit.Rand(cfg.Seed, "commit-wait")
		for i := range sc.Txns {
			sc.Txns[i].CommitWait = "near"
			sc.Txns[i].Causal = r.Intn(2) == 0
		}
		return sc, true
	case "lockretry":
		return genLockRetry(c2, backend), true
	case "stalelock":
		return genStaleLock(c2, backend), true
	case "faults":
		return genFaults(c2, backend), true
	case "leftover":
		return genLeftover(c2, backend), true
	case "reads":
		return genReads(c2, backend), true
	case "ryw":
		return genRYW(c2, backend), true
	case "gc":
		return genGC(c2, backend), true
	}
	panic("unknown mode " + cfg.Mode)
}

// Prepare implements simkit.Preparer (outside the bubble).
func (Engine) Prepare(cfg simkit.RunConfig, scenario any) {
	setKnobs(scenario.(*Scenario).Knobs)
	if sd := scenario.(*Scenario).Seed; sd != 0 {
		cfg.Seed = sd
	}
	rand.Seed(int64(cfg.Seed)) // back-off jitter etc. of the code under test (global math/rand)
	// the tie-break among equally good replicas of a replica read: one choice per run (see the shim's comment)
	pick := simkit.NewHasher(cfg.Seed, "replica-pick").U64("k")
	locate.VerifSetRandIntn(func(n int) int { return int(pick % uint64(n)) })
}

// Cleanup implements simkit.Preparer.
func (Engine) Cleanup(cfg simkit.RunConfig, scenario any) { locate.VerifSetRandIntn(nil) }

// Execute implements simkit.Engine.
func (Engine) Execute(t *testing.T, cfg simkit.RunConfig, scenario any) *simkit.RunResult {
	sc := scenario.(*Scenario)
	cfg.Mode = strings.TrimSuffix(cfg.Mode, "-R")
	if sc.Seed != 0 {
		cfg.Seed = sc.Seed
	}
	s := simkit.New(cfg.Seed)
	res := &simkit.RunResult{}
	var w *World
	janitorOK := false
	drained := false
	var leftover []string
	var gcRep *GCReport
	var truth simkit.Truth
	var stuck []int
	s.Run(func() {
		var err error
		w, err = newWorld(s, sc)
		if err != nil {
			panic(fmt.Sprintf("world: %v", err))
		}
		w.scheduleTopo()
		var wg sync.WaitGroup
		for i := range sc.Txns {
			h := &TxnHist{Prog: &sc.Txns[i]}
			w.Hist = append(w.Hist, h)
			wg.Add(1)
			go func() {
				defer wg.Done()
				w.runTxn(h.Prog, h)
			}()
		}
		var rwg sync.WaitGroup
		var rr *rand.Rand
		if sc.Reads != nil {
			rr = rand.New(rand.NewSource(sc.Reads.Seed))
			rwg.Add(1)
			go func() {
				defer rwg.Done()
				time.Sleep(25 * time.Millisecond)
				w.runReads(rand.New(rand.NewSource(sc.Reads.Seed+1)), sc.Clients, "early", sc.Reads.Early, sc.Reads)
			}()
		}
		// a transaction that stays inside its ending call although nothing is in flight any more and nothing was sent for
		// five simulated minutes is blocked for good (only possible without a request: the local latch scheduler)
		allDone := make(chan struct{})
		go func() { wg.Wait(); close(allDone) }()
	waitActors:
		for {
			select {
			case <-allDone:
				break waitActors
			case <-time.After(30 * time.Second):
				// (a run that ran out of its event budget is cut off from everything: silence then proves nothing)
				if sc.Knobs.Latches == 0 || s.Aborted != "" || !w.Net.Quiet(5*time.Minute) {
					continue
				}
				for _, h := range w.Hist {
					if h.EndInv != 0 && h.EndRet == 0 && !h.Cut {
						stuck = append(stuck, h.Prog.ID)
					}
				}
				if len(stuck) > 0 {
					break waitActors
				}
			}
		}
		rwg.Wait()
		if sc.Reads != nil {
			// the writers ended (or died): their leftover locks are met by these reads
			w.runReads(rr, sc.Clients, "late", sc.Reads.Late, sc.Reads)
		}
		if sc.GC != nil {
			gcRep = w.runGC(sc.GC)
		}
		if cfg.Mode == "leftover" {
			// C06: let the clients' background work drain WITHOUT letting any lock expire
			// (TTLs are 10 simulated minutes in this mode), then look at the store.
			for i := 0; i < 20 && !drained; i++ {
				s.Sleep(3 * time.Second)
				drained = w.Net.Quiet(12 * time.Second)
			}
			if drained {
				leftover = w.leftoverLocks()
			}
			return
		}
		// recovery: move simulated time past every lock TTL, then let a fresh client
		// resolve whatever is left.
		s.Sleep(ttlOf(sc))
		janitorOK = w.janitor(12)
		if sc.Reads != nil && janitorOK {
			w.runReads(rr, sc.Clients, "final", sc.Reads.Final, sc.Reads)
		}
		truth = simkit.DumpTruth(w.dumper, w.allKeys)
		if sc.GC != nil && sc.GC.DeleteRange && gcRep != nil && janitorOK {
			w.runDeleteRange(sc.GC, gcRep)
		}
	})
	if truth == nil {
		truth = simkit.DumpTruth(w.dumper, w.allKeys)
	}
	trace := w.Net.Trace()
	tso := w.TSO.Snapshot()
	w.close()
	simkit.Settle()
	// background goroutines of the closed stores (clean-up after a failed commit, asynchronous rollbacks) retry against
	// the shut-down network until their back-off budgets are spent: let that time pass, so that the bubble ends empty
	// and the run is judged instead of being counted as a bubble leak
	time.Sleep(150 * time.Second)
	synctest.Wait()
	res.Aborted = s.Aborted
	res.Events = s.Events
	res.SimTime = s.Now()
	res.Stats = s.Stats()
	res.Trace = traceDigest(trace)
	hsum := sha1.Sum([]byte(strings.Join(res.Trace, "\n")))
	res.SchedHash = hex.EncodeToString(hsum[:8])
	faults := len(w.Net.Fired) + res.Stats["topo.split"] + res.Stats["topo.leader-move"] + res.Stats["topo.merge"]
	done := 0
	for _, h := range w.Hist {
		if h.Done && h.StartTS != 0 {
			done++
		}
	}
	for _, h := range w.Hist {
		if h.EndKind == "commit" {
			res.Stats["probe.commit."+probeClass(h.CommitErr)]++
		} else if h.EndKind == "rollback" {
			res.Stats["probe.rollback"]++
		}
		for _, r := range h.Ops {
			if r.Op.Kind == "lock" {
				res.Stats["probe.lockkeys."+probeClass(r.Err)]++
			} else if r.Err != "" {
				res.Stats["probe.read-error"]++
			}
		}
	}
	planned := len(sc.Net.Plan)
	res.Nontrivial = done >= 1 && (planned == 0 && (faults > 0 || len(sc.Txns) >= 2) || planned > 0 && len(w.Net.Fired) > 0)
	res.Stats["runs.with-faults"] = b2i(faults > 0)
	if planned > 0 && len(w.Net.Fired) == 0 {
		res.Stats["runs.planned-fault-not-reached"] = 1
	}
	var vs []simkit.Violation
	for _, p := range w.Net.Panics {
		sig := firstWords(p, 4)
		if strings.Contains(p, "KvScan") && strings.Contains(p, "reverse:true") && !strings.Contains(p, "start_key:") {
			sig = "riter-unbounded-upper " + sig
		}
		vs = append(vs, simkit.Violation{Property: "C01", Class: "backend-panic", Sig: sig, Detail: p})
	}
	if s.Aborted != "" {
		stuck = nil
	}
	for _, id := range stuck {
		vs = append(vs, simkit.Violation{Property: "C17", Class: "lock-never-returns", Sig: fmt.Sprintf("txn%d", id), Detail: fmt.Sprintf("txn %d is still inside Commit although no request is in flight and none was sent for five simulated minutes: it is blocked in the local latch scheduler, whose other users have all ended (a holder did not give its latches back, or a wake-up was lost); latch slots: %d; history: %s", id, sc.Knobs.Latches, strings.Join(histLines(w.Hist), " | "))})
	}
	for _, f := range simkit.TakeFatals() {
		vs = append(vs, simkit.Violation{Property: cfg.Property, Class: "fatal-log", Sig: firstWords(f, 4), Detail: "the library logged at Fatal level (the process would have exited): " + f})
	}
	if w.ref != nil {
		if w.ref.FollowerServed > 0 {
			res.Stats["probe.replica-read.served-by-follower"] += w.ref.FollowerServed
		}
		if w.ref.Fallbacks > 0 {
			res.Stats["probe.async-commit.refused-by-store"] += w.ref.Fallbacks
		}
		if w.ref.RespLevelLocks > 0 {
			res.Stats["probe.batch-get.response-level-lock"] += w.ref.RespLevelLocks
		}
		if w.ref.NotReady > 0 {
			res.Stats["fault.stale-read-data-not-ready"] += w.ref.NotReady
		}
		for _, m := range w.ref.Misrouted {
			vs = append(vs, simkit.Violation{Property: "C01", Class: "misrouted-request", Sig: firstWords(m, 2), Detail: m})
		}
	}
	if s.Aborted == "" {
		c := &checker{prop: cfg.Property, truth: truth, hist: w.Hist, trace: trace, mock: sc.Backend == "M" || sc.Backend == ""}
		if cfg.Mode == "leftover" {
			if !drained {
				res.Stats["leftover.not-drained"] = 1
			} else {
				res.Stats["leftover.audited"] = 1
				for _, l := range leftover {
					vs = append(vs, simkit.Violation{Property: "C06", Class: "leftover-lock", Sig: firstWords(l, 2), Detail: l})
				}
			}
		} else {
			if !janitorOK {
				vs = append(vs, simkit.Violation{Property: cfg.Property, Class: "recovery-stuck", Sig: "janitor", Detail: fmt.Sprintf("locks remain after the recovery budget (ttl + %d resolver rounds): %v", 12, describeLocks(w))})
			}
			c.checkC01()
			c.checkLockExclusion()
			c.checkC03()
			c.checkCommitWait()
			if gcRep != nil {
				c.checkC14(sc.GC, gcRep)
				res.Stats["c14.audited"] = 1
				if gcRep.MovedChecked {
					res.Stats["c14.safe-point-learned-during-read."+gcRep.MovedKind] = 1
				}
				res.Stats["c14.gc-ok"] = b2i(gcRep.GCErr == "")
				res.Stats["c14.ranges"] = len(gcRep.Ranges)
				res.Stats["c14.delete-range-done"] = b2i(gcRep.DelDone && gcRep.DelErr == "")
			}
			if sc.Reads != nil {
				c.checkC05(w.Reads, ttlOf(sc))
				res.Stats["c05.reads"] = len(w.Reads)
			}
			vs = append(vs, c.out...)
		}
		m := &monitor{trace: trace, tso: tso, hist: w.Hist}
		m.run()
		for k, n := range m.rules {
			res.Stats["c04."+k] = n
		}
		vs = append(vs, m.out...)
	}
	res.Violations = filterProp(vs, cfg.Property)
	if len(res.Violations) > 0 || os.Getenv("VERIF_DUMP") != "" {
		res.Log = append(res.Log, histLines(w.Hist)...)
		for _, r := range trace {
			res.Log = append(res.Log, fmtRec(r))
		}
	}
	res.Sample = sampleOf(sc, w, res)
	if gcRep != nil {
		res.Sample.(map[string]any)["gc"] = map[string]any{"range": [2]string{sc.GC.RangeLo, sc.GC.RangeHi}, "sub_ranges": gcRep.Ranges, "range_err": gcRep.RangeErr, "safe_point": gcRep.SafePoint, "gc_err": gcRep.GCErr, "layout": w.Cl.Describe()}
	}
	return res
}

func b2i(b bool) int {
	if b {
		return 1
	}
	return 0
}

// filterProp keeps the violations that belong to the property being checked. The
// snapshot-isolation / atomicity / acknowledgement rules are shared by C01, C02, C03
// and C05 (same oracle, different fault spaces) and are reported under the
// property whose check is running.
func filterProp(vs []simkit.Violation, prop string) []simkit.Violation {
	var out []simkit.Violation
	shared := map[string]bool{"C01": true, "C02": true, "C03": true, "C05": true, "C14": true}
	for _, v := range vs {
		if v.Property == "C01" && shared[prop] {
			v.Property = prop
		}
		if prop == "C07" && v.Property == "C01" && (v.Class == "read-mismatch" || v.Class == "scan-mismatch") {
			v.Property = "C07" // the view of a transaction = snapshot overlaid with its buffer
		}
		if v.Property == prop || prop == "" {
			out = append(out, v)
		}
	}
	return out
}

func describeLocks(w *World) string {
	var sb strings.Builder
	for _, l := range w.dumper.VerifDumpLocks() {
		fmt.Fprintf(&sb, "{key=%q start=%d primary=%q type=%v ttl=%d} ", l.Key, l.LockVersion, l.PrimaryLock, l.LockType, l.LockTtl)
	}
	return sb.String()
}

func histLines(hs []*TxnHist) []string {
	var out []string
	for _, h := range hs {
		out = append(out, fmt.Sprintf("txn %d client %d pess=%v start=%d begin=[%d,%d] end=%s[%d,%d] err=%q commitTS=%d cut=%v", h.Prog.ID, h.Prog.Client, h.Prog.Pessimistic, h.StartTS, h.BeginInv, h.BeginRet, h.EndKind, h.EndInv, h.EndRet, h.CommitErr, h.CommitTS, h.Cut))
		for i, r := range h.Ops {
			out = append(out, fmt.Sprintf("   op%d %s %v val=%q [%d,%d] err=%q vals=%s pairs=%v forTS=%d", i, r.Op.Kind, r.Op.Keys, r.Op.Val, r.Inv, r.Ret, r.Err, fmtVals(r.Vals), r.Pairs, r.ForTS))
		}
	}
	return out
}

func fmtVals(m map[string]*string) string {
	var sb strings.Builder
	for _, k := range keysOf(m) {
		fmt.Fprintf(&sb, "%s=%s ", k, fmtVal(m[k]))
	}
	return sb.String()
}

func sampleOf(sc *Scenario, w *World, res *simkit.RunResult) any {
	type txnS struct {
		ID     int    `json:"id"`
		Mode   string `json:"mode"`
		Ops    int    `json:"ops"`
		Result string `json:"result"`
	}
	var ts []txnS
	for _, h := range w.Hist {
		m := "optimistic"
		if h.Prog.Pessimistic {
			m = "pessimistic"
		}
		r := h.EndKind
		if h.EndKind == "commit" {
			r = "commit:" + h.CommitErr
			if h.CommitErr == "" {
				r = "commit:ok"
			}
		}
		ts = append(ts, txnS{h.Prog.ID, m, len(h.Prog.Ops), r})
	}
	return map[string]any{
		"stores": sc.Stores, "splits": sc.Splits, "clients": sc.Clients, "txns": ts,
		"faults_fired": w.Net.Fired, "rpcs": len(res.Trace), "sched_hash": res.SchedHash, "sim_ms": res.SimTime.Milliseconds(),
	}
}

// Shrink implements simkit.Engine: drop transactions, drop operations, drop
// topology events, turn random faults into the explicit list that fired and drop those.
func (Engine) Shrink(scenario any) []any {
	sc := scenario.(*Scenario)
	var out []any
	clone := func() *Scenario {
		b, _ := json.Marshal(sc)
		var c Scenario
		_ = json.Unmarshal(b, &c)
		return &c
	}
	for i := range sc.Txns {
		c := clone()
		c.Txns = append(c.Txns[:i], c.Txns[i+1:]...)
		if len(c.Txns) > 0 {
			out = append(out, c)
		}
	}
	for i := range sc.Topo {
		c := clone()
		c.Topo = append(c.Topo[:i], c.Topo[i+1:]...)
		out = append(out, c)
	}
	if sc.Net.Random {
		c := clone()
		c.Net.Random = false
		out = append(out, c)
	}
	for k := range sc.Net.Plan {
		c := clone()
		delete(c.Net.Plan, k)
		out = append(out, c)
	}
	for i := range sc.Txns {
		for j := range sc.Txns[i].Ops {
			c := clone()
			c.Txns[i].Ops = append(c.Txns[i].Ops[:j], c.Txns[i].Ops[j+1:]...)
			out = append(out, c)
		}
	}
	if len(sc.Splits) > 0 {
		c := clone()
		c.Splits = nil
		out = append(out, c)
	}
	if sc.Stores > 1 {
		c := clone()
		c.Stores = 1
		out = append(out, c)
	}
	if sc.Net.JitterUs > 0 {
		c := clone()
		c.Net.JitterUs = 0
		out = append(out, c)
	}
	return out
}

func firstWords(s string, n int) string {
	f := strings.Fields(s)
	if len(f) > n {
		f = f[:n]
	}
	return strings.Join(f, " ")
}

func probeClass(e string) string {
	switch {
	case e == "":
		return "ok"
	case strings.HasPrefix(e, "other:"):
		switch {
		case strings.Contains(e, "assertion failed"):
			return "assertion-failed"
		case strings.Contains(e, "deadlock"):
			return "deadlock"
		case strings.Contains(e, "no wait"):
			return "nowait-fail"
		case strings.Contains(e, "lock wait timeout"):
			return "lock-wait-timeout"
		case strings.Contains(e, "cut off"):
			return "cut"
		case strings.Contains(e, "not found"):
			return "txn-lock-not-found"
		}
		return "other"
	}
	return e
}
