package txnsim

import (
	"bytes"
	"context"
	"fmt"
	"math/rand"
	"sort"
	"strings"
	"sync"
	"sync/atomic"
	"time"

	"github.com/pingcap/errors"
	"github.com/pingcap/failpoint"
	"github.com/pingcap/kvproto/pkg/kvrpcpb"
	"github.com/tikv/client-go/v2/config"
	tikverr "github.com/tikv/client-go/v2/error"
	"github.com/tikv/client-go/v2/internal/mockstore/mocktikv"
	"github.com/tikv/client-go/v2/internal/simhook"
	"github.com/tikv/client-go/v2/internal/unionstore"
	"github.com/tikv/client-go/v2/kv"
	"github.com/tikv/client-go/v2/tikv"
	"github.com/tikv/client-go/v2/tikvrpc"
	"github.com/tikv/client-go/v2/txnkv/rangetask"
	"github.com/tikv/client-go/v2/txnkv/transaction"
	"github.com/tikv/client-go/v2/txnkv/txnlock"
	"github.com/tikv/client-go/v2/util"
	"github.com/tikv/client-go/v2/verifsim/refkv"
	"github.com/tikv/client-go/v2/verifsim/simkit"
)

// OpRes is the recorded result of one operation.
type OpRes struct {
	Op    Op
	Inv   uint64
	Ret   uint64
	Err   string
	Vals  map[string]*string // get/bget/lock(retvals): nil pointer = not found
	Pairs [][2]string        // iter/riter
	ForTS uint64             // lock: for-update ts used
	// model view captured before the op (own writes): key -> value / tombstone
	Own map[string]*string
	// Exists: lock with existence check (no values): key -> the store's answer (keys locked before are absent)
	Exists map[string]bool
}

// TxnHist is the recorded history of one transaction.
type TxnHist struct {
	Prog      *TxnProg
	StartTS   uint64
	BeginInv  uint64
	BeginRet  uint64
	BeginErr  string
	Ops       []OpRes
	EndInv    uint64
	EndRet    uint64
	EndKind   string // commit | rollback | none
	CommitErr string // "" | undetermined | keyexists | writeconflict | other:... ; only for commit
	CommitTS  uint64
	Cut       bool // the client was cut before the end call returned
	// final buffer (model): key -> value / tombstone(nil); Inserted: presumed-not-exist flag
	Buf      map[string]*string
	Inserted map[string]bool
	Locked   map[string]uint64 // key -> for-update ts of the successful lock
	// LockedWithInfo: the call that locked the key asked for its value or its existence
	LockedWithInfo map[string]bool
	LockedAt       map[string]uint64 // key -> event stamp at which that LockKeys call had returned
	// InsertChecked: the insert's existence check is part of the protocol for this key: always
	// for optimistic transactions; for pessimistic ones only when a LockKeys call succeeded on the
	// key while the buffer entry carried the presume-not-exists flag (the check travels with the lock request).
	InsertChecked map[string]bool
	// InsertUncertain: a LockKeys call failed while the key carried the flag; whether the client
	// withdrew the flag depends on where the call failed.
	InsertUncertain map[string]bool
	UsedAggressive  bool // the transaction used aggressive (fair) locking stages
	// CommitWaitTSO: the commit-wait constraint the transaction was given (0: none): it must not commit at or below it
	CommitWaitTSO uint64
	// Asserted: key -> assertion flag put on the buffered key before Commit (Prog.Asserts restricted to the buffer)
	Asserted map[string]string
	Done     bool
}

// World is everything that exists in one run.
type World struct {
	Sim     *simkit.Sim
	Net     *simkit.Net
	TSO     *simkit.TSO
	Cl      *simkit.Cluster
	mvcc    mocktikv.MVCCStore
	dumper  simkit.Dumper
	backend simkit.Backend
	ref     *refkv.Server
	Stores  []*tikv.KVStore
	sc      *Scenario
	Hist    []*TxnHist
	goMu    sync.Mutex
	goOcc   map[string]int
	goHash  *simkit.Hasher
	allKeys [][]byte
	Reads   []SnapRead
	readsMu sync.Mutex
}

// mockFront sits in front of the repository's mock server. The mock panics
// ("KvScan: startKey not in region") on a reverse scan of the empty range
// [k, k) when k is the end key of the addressed region, a request the client
// legitimately emits after a full batch ended exactly on its lower bound and
// that TiKV answers with no pairs. That one request shape is answered here.
type mockFront struct{ simkit.Backend }

func (m mockFront) SendRequest(ctx context.Context, addr string, req *tikvrpc.Request, timeout time.Duration) (*tikvrpc.Response, error) {
	if req.Type == tikvrpc.CmdScan {
		r := req.Scan()
		if r.Reverse && len(r.StartKey) > 0 && bytes.Equal(r.StartKey, r.EndKey) {
			return &tikvrpc.Response{Resp: &kvrpcpb.ScanResponse{}}, nil
		}
	}
	return m.Backend.SendRequest(ctx, addr, req, timeout)
}

var fpOnce sync.Once

// restoreCfg undoes the global configuration change of the previous run.
var restoreCfg func()

func setKnobs(k Knobs) {
	fpOnce.Do(func() { util.EnableFailpoints() })
	_ = failpoint.Disable("tikvclient/twoPCRequestBatchSizeLimit")
	if k.CommitBatchSize > 0 {
		_ = failpoint.Enable("tikvclient/twoPCRequestBatchSizeLimit", "return")
	}
	for _, site := range delaySites {
		_ = failpoint.Disable("tikvclient/" + site)
	}
	for site, ms := range k.Delays {
		switch site {
		case "beforeAsyncPessimisticRollback":
			_ = failpoint.Enable("tikvclient/"+site, `return("delay")`)
		case "getTxnStatusDelay":
			_ = failpoint.Enable("tikvclient/"+site, "return")
		case "prewriteSecondarySleep":
			_ = failpoint.Enable("tikvclient/"+site, fmt.Sprintf("return(%d)", ms))
		}
	}
	if restoreCfg != nil {
		restoreCfg()
		restoreCfg = nil
	}
	if k.AsyncBatchGet {
		restoreCfg = config.UpdateGlobal(func(c *config.Config) { c.EnableAsyncBatchGet = true })
	}
	_ = failpoint.Enable("tikvclient/injectLiveness", `return("reachable")`)
	// The store's own poller re-reads the transaction safe point from PD every few seconds and overwrites the
	// cache; the simulated PD's safe point never moves, so it would make the store forget what the C14 phase made
	// it learn (a real PD's safe point is monotonic). The cache is driven by the harness alone.
	_ = failpoint.Enable("tikvclient/noBuiltInTxnSafePointUpdater", "return")
	ttl := uint64(20000)
	if k.ManagedTTLMs > 0 {
		ttl = uint64(k.ManagedTTLMs)
	}
	def := uint64(3000)
	if k.LongTTL {
		ttl, def = 600000, 600000
	}
	atomic.StoreUint64(&transaction.ManagedLockTTL, ttl)
	transaction.VerifSetDefaultLockTTL(def)
}

// curWorld is the world of the run in progress (one run at a time per process); the yield hook reads it.
var curWorld atomic.Pointer[World]

func init() {
	// The verif hook of the library: yield points named "go.*" sit at the head of the background goroutines a
	// transaction starts. Whether such a goroutine starts late, and by how much, is a function of (seed, site,
	// n-th goroutine of that site in this run) - never of the Go scheduler.
	simhook.Hook = func(site string) {
		if !strings.HasPrefix(site, "go.") {
			return
		}
		w := curWorld.Load()
		if w == nil || w.sc.Knobs.GoDelayPm == 0 {
			return
		}
		w.goMu.Lock()
		n := w.goOcc[site]
		w.goOcc[site] = n + 1
		w.goMu.Unlock()
		key := fmt.Sprintf("%s#%d", site, n)
		if w.goHash.Intn("p"+key, 1000) >= w.sc.Knobs.GoDelayPm {
			return
		}
		var d time.Duration
		switch w.goHash.Intn("k"+key, 4) {
		case 0:
			d = time.Duration(50+w.goHash.Intn("d"+key, 950)) * time.Microsecond
		case 1:
			d = time.Duration(1+w.goHash.Intn("d"+key, 30)) * time.Millisecond
		case 2:
			d = time.Duration(30+w.goHash.Intn("d"+key, 400)) * time.Millisecond
		default:
			d = time.Duration(400+w.goHash.Intn("d"+key, 2600)) * time.Millisecond
		}
		w.Sim.Count("yield.go-delayed")
		w.Sim.Count("yield." + site)
		time.Sleep(d)
	}
}

func newWorld(s *simkit.Sim, sc *Scenario) (*World, error) {
	w := &World{Sim: s, sc: sc, TSO: &simkit.TSO{}, goOcc: map[string]int{}, goHash: simkit.NewHasher(s.Seed, "go-start")}
	curWorld.Store(w)
	mvcc, err := mocktikv.NewMVCCLevelDB("")
	if err != nil {
		return nil, err
	}
	w.mvcc = mvcc
	cluster := mocktikv.NewCluster(mvcc)
	var splits [][]byte
	for _, k := range sc.Splits {
		splits = append(splits, []byte(k))
	}
	w.Cl = simkit.Bootstrap(s, cluster, sc.Stores, splits)
	switch sc.Backend {
	case "M", "":
		w.backend = mockFront{mocktikv.NewRPCClient(cluster, mvcc, nil)}
		w.dumper = mvcc
	case "R":
		srv := refkv.NewServer(cluster)
		for _, t := range sc.Txns {
			srv.FollowerReads = srv.FollowerReads || t.Replica != ""
		}
		if sc.Reads != nil {
			srv.FollowerReads = srv.FollowerReads || sc.Reads.Replica != "" || sc.Reads.Stale
			srv.NotReadyEvery = sc.Reads.NotReadyEvery
		}
		srv.RespLevelLockEvery = sc.Knobs.RespLevelLockEvery
		srv.FallbackEvery = sc.Knobs.FallbackEvery
		w.backend = srv
		w.dumper = srv
		w.ref = srv
	default:
		return nil, fmt.Errorf("unknown backend %q", sc.Backend)
	}
	w.Net = simkit.NewNet(s, w.backend)
	w.Net.Topo = w.Cl
	w.Net.Describe = w.Cl.Describe
	w.Net.Jitter = time.Duration(sc.Net.JitterUs) * time.Microsecond
	for k, f := range sc.Net.Plan {
		w.Net.Plan[k] = f
	}
	for k, f := range sc.Net.Persist {
		w.Net.Persist[k] = f
	}
	w.Net.RandomFaults = sc.Net.Random
	w.Net.FaultRate = sc.Net.Rate
	w.Net.FaultKinds = sc.Net.Kinds
	if len(sc.Net.OnlyTypes) > 0 {
		only := map[string]bool{}
		for _, t := range sc.Net.OnlyTypes {
			only[t] = true
		}
		w.Net.FaultFilter = func(r *simkit.RPCRecord) bool { return only[r.Type.String()] }
	}
	nclients := sc.Clients + 1 // the last one is the janitor / observer client
	for i := 0; i < nclients; i++ {
		// every client is born at its own instant: the periodic background loops of two clients (equal periods) would
		// otherwise tick at the same simulated instants for the whole run, and the order in which the runtime serves two
		// timers of one instant is not something the simulator decides
		time.Sleep(time.Duration(173+37*i) * time.Microsecond)
		pdc := simkit.NewPD(s, w.Net, i, w.TSO, mocktikv.NewPDClient(cluster))
		st, err := tikv.NewTestTiKVStore(w.Net.NewConn(i), pdc, nil, nil, 0)
		if err != nil {
			return nil, err
		}
		if sc.Knobs.Latches > 0 {
			st.EnableTxnLocalLatches(uint(sc.Knobs.Latches))
		}
		w.Stores = append(w.Stores, st)
	}
	s.OnAbort = func() { w.Net.CutAll(nclients) }
	pool := keyPool
	if len(sc.Keys) > 0 {
		pool = sc.Keys
	}
	for _, k := range pool {
		w.allKeys = append(w.allKeys, []byte(k))
	}
	if sc.Knobs.InnerSplits {
		w.Net.Topo = &simkit.InnerSplitTopo{Cl: w.Cl, Keys: w.allKeys, H: simkit.NewHasher(s.Seed, "innersplit"), Always: true}
	}
	return w, nil
}

func (w *World) close() {
	curWorld.Store(nil)
	w.Net.Shutdown()
	for _, st := range w.Stores {
		_ = st.Close()
	}
	_ = w.mvcc.Close()
}

func classify(err error) string {
	if err == nil {
		return ""
	}
	switch {
	case tikverr.IsErrorUndetermined(err):
		return "undetermined"
	case tikverr.IsErrKeyExist(err):
		return "keyexists"
	case tikverr.IsErrWriteConflict(err):
		return "writeconflict"
	case tikverr.IsErrNotFound(err):
		return "notfound"
	}
	msg := err.Error()
	if len(msg) > 160 {
		msg = msg[:160]
	}
	return "other:" + msg
}

func sp(s string) *string { return &s }

func sortedKeys[V any](m map[string]V) []string {
	ks := make([]string, 0, len(m))
	for k := range m {
		ks = append(ks, k)
	}
	sort.Strings(ks)
	return ks
}

func copyBuf(m map[string]*string) map[string]*string {
	c := make(map[string]*string, len(m))
	for k, v := range m {
		c[k] = v
	}
	return c
}

// runTxn executes one transaction program and records its history.
func (w *World) runTxn(p *TxnProg, h *TxnHist) {
	defer func() { h.Done = true }()
	s := w.Sim
	defer func() { simkit.EvLog("%d actor %d done (end %s err %q)", s.Now(), p.ID, h.EndKind, h.CommitErr) }()
	// distinct sub-millisecond offsets: no two actors act at the same simulated instant,
	// so the order in which they reach the TSO / the transport is decided by the clock, not by the Go scheduler.
	time.Sleep(time.Duration(p.DelayMs)*time.Millisecond + time.Duration(p.ID+1)*13*time.Microsecond)
	store := w.Stores[p.Client]
	ctx := context.Background()
	h.BeginInv = s.Stamp()
	txn, err := store.Begin()
	h.BeginRet = s.Stamp()
	if err != nil {
		h.BeginErr = classify(err)
		h.EndKind = "none"
		return
	}
	h.StartTS = txn.StartTS()
	txn.SetPessimistic(p.Pessimistic)
	txn.SetEnableAsyncCommit(p.Async)
	txn.SetEnable1PC(p.OnePC)
	txn.SetCausalConsistency(p.Causal)
	switch p.CommitWait {
	case "lag":
		txn.SetCommitWaitUntilTSO(txn.StartTS() + uint64(3600*1000)<<18)
		txn.SetCommitWaitUntilTSOTimeout(0)
		w.Sim.Count("probe.commit-wait.lag")
	case "near":
		h.CommitWaitTSO = txn.StartTS() + uint64(5+p.ID%40)<<18
		txn.SetCommitWaitUntilTSO(h.CommitWaitTSO)
		txn.SetCommitWaitUntilTSOTimeout(2 * time.Second)
		w.Sim.Count("probe.commit-wait.near")
	}
	if w.sc.Knobs.ScanBatch > 0 {
		txn.GetSnapshot().SetScanBatchSize(w.sc.Knobs.ScanBatch)
	}
	if rt, ok := replicaType(p.Replica); ok {
		txn.GetSnapshot().SetReplicaRead(rt)
		w.Sim.Count("probe.replica-read.txn." + p.Replica)
	}
	h.Buf = map[string]*string{}
	h.Inserted = map[string]bool{}
	h.Locked = map[string]uint64{}
	h.LockedAt = map[string]uint64{}
	h.LockedWithInfo = map[string]bool{}
	h.InsertChecked = map[string]bool{}
	h.InsertUncertain = map[string]bool{}
	type stageRec struct {
		h   int
		buf map[string]*string
	}
	var stages []stageRec
	var aggCur map[string]uint64
	aggInfo := map[string]bool{}
	var cp *unionstore.MemDBCheckpoint
	var cpBuf map[string]*string
	cpDepth := 0
	for _, op := range p.Ops {
		r := OpRes{Op: op, Own: copyBuf(h.Buf)}
		r.Inv = s.Stamp()
		switch op.Kind {
		case "get":
			v, err := txn.Get(ctx, []byte(op.Keys[0]))
			r.Vals = map[string]*string{}
			if err == nil {
				r.Vals[op.Keys[0]] = sp(string(v.Value))
			} else if tikverr.IsErrNotFound(err) {
				r.Vals[op.Keys[0]] = nil
			} else {
				r.Err = classify(err)
			}
		case "bget":
			var ks [][]byte
			for _, k := range op.Keys {
				ks = append(ks, []byte(k))
			}
			m, err := txn.BatchGet(ctx, ks)
			if err != nil {
				r.Err = classify(err)
			} else {
				r.Vals = map[string]*string{}
				for _, k := range op.Keys {
					if v, ok := m[k]; ok {
						r.Vals[k] = sp(string(v.Value))
					} else {
						r.Vals[k] = nil
					}
				}
			}
		case "iter", "riter":
			var it interface {
				Valid() bool
				Next() error
				Key() []byte
				Value() []byte
				Close()
			}
			var err error
			if op.Kind == "iter" {
				var lo, hi []byte
				if op.Lo != "" {
					lo = []byte(op.Lo)
				}
				if op.Hi != "" {
					hi = []byte(op.Hi)
				}
				it, err = txn.Iter(lo, hi)
			} else {
				var lo, hi []byte
				if op.Lo != "" {
					lo = []byte(op.Lo)
				}
				if op.Hi != "" {
					hi = []byte(op.Hi)
				}
				it, err = txn.IterReverse(hi, lo)
			}
			if err != nil {
				r.Err = classify(err)
				break
			}
			r.Pairs = [][2]string{}
			for it.Valid() {
				r.Pairs = append(r.Pairs, [2]string{string(it.Key()), string(it.Value())})
				if err := it.Next(); err != nil {
					r.Err = classify(err)
					break
				}
				if len(r.Pairs) > 64 {
					r.Err = "other:runaway iterator"
					break
				}
			}
			it.Close()
		case "set":
			if err := txn.Set([]byte(op.Keys[0]), []byte(op.Val)); err != nil {
				r.Err = classify(err)
			} else {
				h.Buf[op.Keys[0]] = sp(op.Val)
			}
		case "insert":
			err := txn.GetMemBuffer().SetWithFlags([]byte(op.Keys[0]), []byte(op.Val), kv.SetPresumeKeyNotExists)
			if err != nil {
				r.Err = classify(err)
			} else {
				h.Buf[op.Keys[0]] = sp(op.Val)
				h.Inserted[op.Keys[0]] = true
				if !p.Pessimistic {
					h.InsertChecked[op.Keys[0]] = true
				}
			}
		case "delete":
			if err := txn.Delete([]byte(op.Keys[0])); err != nil {
				r.Err = classify(err)
			} else {
				h.Buf[op.Keys[0]] = nil
			}
		case "sleep":
			time.Sleep(time.Duration(op.SleepMs) * time.Millisecond)
		case "aggstart":
			if p.Pessimistic && !txn.IsInAggressiveLockingMode() {
				txn.StartAggressiveLocking()
				h.UsedAggressive = true
				aggCur = map[string]uint64{}
			}
		case "aggretry":
			if txn.IsInAggressiveLockingMode() {
				txn.RetryAggressiveLocking(ctx)
				aggCur = map[string]uint64{}
			}
		case "aggcancel":
			if txn.IsInAggressiveLockingMode() {
				txn.CancelAggressiveLocking(ctx)
				aggCur = nil
			}
		case "aggdone":
			if txn.IsInAggressiveLockingMode() {
				txn.DoneAggressiveLocking(ctx)
				for k, ts := range aggCur {
					if _, ok := h.Locked[k]; !ok {
						h.Locked[k] = ts
						if aggInfo[k] {
							h.LockedWithInfo[k] = true
						}
					}
				}
				aggCur = nil
			}
		case "stage":
			stages = append(stages, stageRec{h: txn.GetMemBuffer().Staging(), buf: copyBuf(h.Buf)})
		case "release":
			if n := len(stages); n > 0 {
				txn.GetMemBuffer().Release(stages[n-1].h)
				stages = stages[:n-1]
				if cp != nil && cpDepth > len(stages) {
					cp = nil
				}
			}
		case "cleanup":
			if n := len(stages); n > 0 {
				txn.GetMemBuffer().Cleanup(stages[n-1].h)
				h.Buf = stages[n-1].buf
				stages = stages[:n-1]
				if cp != nil && cpDepth > len(stages) {
					cp = nil
				}
			}
		case "checkpoint":
			cp = txn.GetMemBuffer().Checkpoint()
			cpBuf = copyBuf(h.Buf)
			cpDepth = len(stages)
		case "revert":
			if cp != nil {
				// the checkpoint stays valid: a later step may revert to it again
				txn.GetMemBuffer().RevertToCheckpoint(cp)
				h.Buf = copyBuf(cpBuf)
			}
		case "lock":
			var forTS uint64
			var err error
			var lctx *kv.LockCtx
			for attempt := 0; ; attempt++ {
				if attempt > 0 {
					w.Sim.Count("probe.lock-statement-retried")
				}
				forTS, err = store.GetOracle().GetTimestamp(ctx, &oracleOpt)
				if err != nil {
					break
				}
				r.ForTS = forTS
				wait := kv.LockAlwaysWait
				if op.NoWait {
					wait = kv.LockNoWait
				} else if op.WaitMs > 0 {
					wait = int64(op.WaitMs)
				}
				lctx = kv.NewLockCtx(forTS, wait, time.Now())
				if op.RetVals {
					lctx.InitReturnValues(len(op.Keys))
					if op.OnlyIfEx {
						lctx.LockOnlyIfExists = true // a key that does not exist is not locked
						w.Sim.Count("probe.lock-only-if-exists")
					}
				} else if op.CheckExist {
					lctx.InitCheckExistence(len(op.Keys))
				}
				var ks [][]byte
				for _, k := range op.Keys {
					ks = append(ks, []byte(k))
				}
				err = txn.LockKeys(ctx, lctx, ks...)
				if err == nil || attempt >= op.Retry || w.Net.IsCut(p.Client) {
					break
				}
			}
			if lctx == nil {
				r.Err = classify(err)
				break
			}
			if err != nil {
				r.Err = classify(err)
				// a failed LockKeys reports the failure (e.g. key-exists) to its caller and withdraws the
				// presume-not-exists declaration of the keys of the call (txn.go lockKeys); what the
				// program writes afterwards is an ordinary write.
				for _, k := range op.Keys {
					if h.Inserted[k] {
						h.InsertUncertain[k] = true
					}
					delete(h.Inserted, k)
				}
			} else {
				// fair locking may grant a lock although a newer version exists ("locked with conflict"): the lock - and
				// the value / existence the call reports - are then as of that version's commit ts, not of the for-update ts
				if lctx.MaxLockedWithConflictTS > forTS {
					forTS = lctx.MaxLockedWithConflictTS
					r.ForTS = forTS
					w.Sim.Count("probe.locked-with-conflict")
				}
				for _, k := range op.Keys {
					if op.OnlyIfEx && op.RetVals {
						if rv, ok := lctx.Values[k]; ok && !rv.AlreadyLocked && len(rv.Value) == 0 {
							w.Sim.Count("probe.lock-only-if-exists.miss")
							continue // the key does not exist: the call locked nothing on it
						}
					}
					if aggCur != nil {
						aggCur[k] = forTS // becomes a lock of the transaction only when the stage is done
						if op.RetVals || op.CheckExist {
							aggInfo[k] = true
						}
						continue
					}
					if _, ok := h.Locked[k]; !ok {
						h.Locked[k] = forTS
						h.LockedAt[k] = s.Stamp()
						if op.RetVals || op.CheckExist {
							h.LockedWithInfo[k] = true
						}
						if h.Inserted[k] && h.Buf[k] != nil {
							h.InsertChecked[k] = true
						}
					} else if h.Inserted[k] && h.Buf[k] != nil && h.LockedWithInfo[k] {
						// the key was locked earlier by a call that learned whether it exists: the client answers the
						// presumed-not-exists check of this call from what it remembered (no request is sent)
						h.InsertChecked[k] = true
					}
				}
				if op.CheckExist && !op.RetVals {
					r.Exists = map[string]bool{}
					for _, k := range op.Keys {
						if rv, ok := lctx.Values[k]; ok && !rv.AlreadyLocked {
							r.Exists[k] = rv.Exists
						}
					}
				}
				if op.RetVals {
					r.Vals = map[string]*string{}
					for _, k := range op.Keys {
						rv, ok := lctx.Values[k]
						if !ok {
							continue // already locked before: no value returned
						}
						if rv.AlreadyLocked {
							continue
						}
						// in return-values mode the value itself says whether the key exists (values are never empty); the
						// Exists field is only promised to callers that ask for an existence check (a lock re-used by a
						// retried fair-locking statement reports Exists=true there whatever the key's state)
						if len(rv.Value) > 0 {
							r.Vals[k] = sp(string(rv.Value))
						} else {
							r.Vals[k] = nil
						}
					}
				}
			}
		}
		r.Ret = s.Stamp()
		h.Ops = append(h.Ops, r)
	}
	if txn.IsInAggressiveLockingMode() {
		txn.CancelAggressiveLocking(ctx)
	}
	w.Net.SetMark(p.Client, fmt.Sprintf("end%d", p.ID))
	h.EndInv = s.Stamp()
	end := p.End
	if w.sc.Backend == "R" && p.Pessimistic && end == "commit" {
		// TiKV (and the reference backend) skip the conflict and existence checks for keys a pessimistic
		// transaction writes without holding a lock on them - the protocol relies on the application never
		// doing that where a conflict is possible - and with async commit / 1PC such a write can even land
		// below a newer version. Programs whose lock step failed therefore end with a rollback.
		for k := range h.Buf {
			if _, ok := h.Locked[k]; !ok {
				end = "rollback"
				w.Sim.Count("probe.pessimistic-unlocked-write-rolled-back")
				break
			}
		}
	}
	if end == "rollback" {
		h.EndKind = "rollback"
		_ = txn.Rollback()
	} else {
		h.EndKind = "commit"
		switch p.AssertLevel {
		case "fast":
			txn.SetAssertionLevel(kvrpcpb.AssertionLevel_Fast)
		case "strict":
			txn.SetAssertionLevel(kvrpcpb.AssertionLevel_Strict)
		}
		if len(p.Asserts) > 0 {
			h.Asserted = map[string]string{}
			for _, k := range sortedKeys(p.Asserts) {
				if _, ok := h.Buf[k]; !ok {
					continue
				}
				h.Asserted[k] = p.Asserts[k]
				txn.GetMemBuffer().UpdateFlags([]byte(k), map[string]kv.FlagsOp{"exist": kv.SetAssertExist, "notexist": kv.SetAssertNotExist, "unknown": kv.SetAssertUnknown}[p.Asserts[k]])
				w.Sim.Count("probe.assert." + p.Asserts[k])
			}
		}
		cctx := ctx
		if p.CancelMs > 0 {
			var cancel context.CancelFunc
			cctx, cancel = context.WithCancel(ctx)
			tm := time.AfterFunc(time.Duration(p.CancelMs)*time.Millisecond, cancel)
			defer tm.Stop()
			defer cancel()
			w.Sim.Count("fault.commit-context-cancel-armed")
		}
		err := txn.Commit(cctx)
		h.CommitErr = classify(err)
		if err == nil {
			h.CommitTS = txn.CommitTS()
		}
	}
	h.EndRet = s.Stamp()
	if cs := w.Net.CutSeq(p.Client); cs != 0 && cs < h.EndRet {
		h.Cut = true
	}
}

var oracleOpt = oracleOption()

// runTopo schedules the topology events.
func (w *World) scheduleTopo() {
	for i, ev := range w.sc.Topo {
		ev := ev
		w.Sim.Submit(fmt.Sprintf("topo%d", i), time.Duration(ev.AtMs)*time.Millisecond, uint64(i), func() {
			switch ev.Kind {
			case "split":
				w.Cl.SplitAt([]byte(ev.Key))
			case "merge":
				w.Cl.MergeAt([]byte(ev.Key))
			case "leader":
				w.Cl.MoveLeaderOf([]byte(ev.Key))
			}
		})
	}
}

// locksInBackend lists the locks currently in the backend (ground truth).
func (w *World) locksInBackend() []*txnlock.Lock {
	var out []*txnlock.Lock
	for _, li := range w.dumper.VerifDumpLocks() {
		out = append(out, txnlock.NewLock(li))
	}
	return out
}

var _ = kvrpcpb.Op_Put

// janitor drives every leftover lock to its outcome through a fresh client, the
// way "other clients that read the keys or resolve locks" do in the property
// statements. It returns false if locks remain after the budget.
func (w *World) janitor(maxRounds int) bool {
	st := w.Stores[len(w.Stores)-1]
	for round := 0; round < maxRounds; round++ {
		if len(w.locksInBackend()) == 0 {
			return true
		}
		if w.Sim.Aborted != "" {
			return false
		}
		// a reader at a fresh timestamp meets and resolves the locks that block it
		ts, err := st.GetOracle().GetTimestamp(context.Background(), &oracleOpt)
		if err == nil {
			snap := st.GetSnapshot(ts)
			_, _ = snap.BatchGet(context.Background(), w.allKeys)
		}
		// pessimistic locks do not block reads: resolve what is left explicitly
		locks := w.locksInBackend()
		if len(locks) == 0 {
			return true
		}
		bo := tikv.NewBackofferWithVars(context.Background(), 20000, nil)
		if ts2, err := st.GetOracle().GetTimestamp(context.Background(), &oracleOpt); err == nil {
			_, _ = st.GetLockResolver().ResolveLocks(bo, ts2, locks)
		}
		w.Sim.Count("janitor.round")
		time.Sleep(2 * time.Second)
	}
	return len(w.locksInBackend()) == 0
}

func traceDigest(tr []*simkit.RPCRecord) []string {
	// canonical order: by submission time, then identity (goroutines woken at the
	// same simulated instant may submit in either order; the simulator's decisions
	// are keyed by identity, so that order is immaterial).
	recs := make([]*simkit.RPCRecord, 0, len(tr))
	for _, r := range tr {
		if r.Type == tikvrpc.CmdStoreSafeTS {
			continue
		}
		recs = append(recs, r)
	}
	sort.SliceStable(recs, func(i, j int) bool {
		if recs[i].SubmitAt != recs[j].SubmitAt {
			return recs[i].SubmitAt < recs[j].SubmitAt
		}
		if recs[i].Identity != recs[j].Identity {
			return recs[i].Identity < recs[j].Identity
		}
		return recs[i].Occ < recs[j].Occ
	})
	out := make([]string, 0, len(recs))
	for _, r := range recs {
		out = append(out, fmt.Sprintf("%d %s#%d %s", r.SubmitAt.Microseconds(), r.Identity, r.Occ, r.Fate))
	}
	return out
}

func keysOf(m map[string]*string) []string {
	ks := make([]string, 0, len(m))
	for k := range m {
		ks = append(ks, k)
	}
	sort.Strings(ks)
	return ks
}

func fmtVal(v *string) string {
	if v == nil {
		return "⊥"
	}
	return *v
}

func hasPrefix(s, p string) bool { return strings.HasPrefix(s, p) }

var _ = bytes.Equal

func ttlOf(sc *Scenario) time.Duration {
	ttl := 20 * time.Second
	if sc.Knobs.LongTTL {
		ttl = 600 * time.Second
	}
	if sc.Knobs.ManagedTTLMs > 0 {
		ttl = time.Duration(sc.Knobs.ManagedTTLMs) * time.Millisecond
	}
	return ttl + 4*time.Second
}

// leftoverLocks lists locks in the store that belong to transactions that have ended (C06).
func (w *World) leftoverLocks() []string {
	ended := map[uint64]*TxnHist{}
	for _, h := range w.Hist {
		if h.Done && h.StartTS != 0 {
			ended[h.StartTS] = h
		}
	}
	var out []string
	for _, l := range w.dumper.VerifDumpLocks() {
		if h, ok := ended[l.LockVersion]; ok {
			out = append(out, fmt.Sprintf("txn#%d %s: key %q still locked (type %v, primary %q, for_update_ts %d) after the transaction ended (%s, commit error %q) and the client's background work drained; ops: %s",
				h.Prog.ID, modeName(h.Prog), l.Key, l.LockType, l.PrimaryLock, l.LockForUpdateTs, h.EndKind, h.CommitErr, opsSummary(h)))
		}
	}
	return out
}

func modeName(p *TxnProg) string {
	if p.Pessimistic {
		return "pessimistic"
	}
	return "optimistic"
}

func opsSummary(h *TxnHist) string {
	var sb strings.Builder
	for _, r := range h.Ops {
		fmt.Fprintf(&sb, "%s%v", r.Op.Kind, r.Op.Keys)
		if r.Err != "" {
			fmt.Fprintf(&sb, "!%s", firstN(r.Err, 30))
		}
		sb.WriteString(" ")
	}
	return sb.String()
}

func firstN(s string, n int) string {
	if len(s) > n {
		return s[:n]
	}
	return s
}

// SnapRead is one recorded snapshot read of a C05 reader.
type SnapRead struct {
	Phase   string
	TS      uint64
	Path    string // get bget iter riter
	Keys    []string
	Lo, Hi  string
	Batch   int
	KeyOnly bool
	Warm    bool
	Err     string
	Vals    map[string]*string
	Pairs   [][2]string
	Took    time.Duration
	Faulty  bool // a network fault was injected while this read ran (liveness is judged on fault-free reads only)
}

// candidateTS lists interesting snapshot timestamps: every start / commit ts seen so far, +-1.
func (w *World) candidateTS(upTo uint64) []uint64 {
	set := map[uint64]bool{}
	add := func(ts uint64) {
		for _, d := range []int64{-1, 0, 1} {
			x := uint64(int64(ts) + d)
			if x > 0 && x <= upTo {
				set[x] = true
			}
		}
	}
	for _, t := range w.TSO.Snapshot() {
		add(t.TS)
	}
	out := make([]uint64, 0, len(set))
	for ts := range set {
		out = append(out, ts)
	}
	sort.Slice(out, func(i, j int) bool { return out[i] < out[j] })
	return out
}

// runReads performs n snapshot reads through the four access paths on client cl.
func (w *World) runReads(r *rand.Rand, cl int, phase string, n int, plan *ReadPlan) {
	st := w.Stores[cl]
	ctx := context.Background()
	keys := keyPool
	for i := 0; i < n && w.Sim.Aborted == ""; i++ {
		now, err := st.GetOracle().GetTimestamp(ctx, &oracleOpt)
		if err != nil {
			return
		}
		cands := w.candidateTS(now)
		ts := now
		if len(cands) > 0 && r.Intn(5) != 0 {
			ts = cands[r.Intn(len(cands))]
		}
		if r.Intn(4) == 0 {
			ts = now // a current snapshot meets the locks of transactions in flight
		}
		snap := st.GetSnapshot(ts)
		batch := plan.Batch
		if batch > 0 {
			snap.SetScanBatchSize(batch)
		}
		snap.SetKeyOnly(plan.KeyOnly)
		if rt, ok := replicaType(plan.Replica); ok {
			snap.SetReplicaRead(rt)
			w.Sim.Count("probe.replica-read.snapshot." + plan.Replica)
		}
		if plan.Stale {
			snap.SetIsStalenessReadOnly(true)
			w.Sim.Count("probe.replica-read.snapshot.stale")
		}
		// a few reads on the same snapshot object: cold then warm cache, different paths
		reps := 2 + r.Intn(4)
		forward := r.Intn(3) == 0 // read, let time pass, move the SAME snapshot object forward to a fresh timestamp, read again
		for j := 0; j < reps; j++ {
			if forward && j == reps/2 {
				time.Sleep(time.Duration(5+r.Intn(4000)) * time.Millisecond)
				if now2, err := st.GetOracle().GetTimestamp(ctx, &oracleOpt); err == nil {
					ts = now2
					snap.SetSnapshotTS(ts)
				}
			}
			rd := SnapRead{Phase: phase, TS: ts, Batch: batch, KeyOnly: plan.KeyOnly, Warm: j > 0}
			fired := len(w.Net.Fired)
			t0 := time.Now()
			switch r.Intn(4) {
			case 0:
				rd.Path = "get"
				k := pick(r, keys)
				rd.Keys = []string{k}
				v, err := snap.Get(ctx, []byte(k))
				rd.Vals = map[string]*string{}
				if err == nil {
					rd.Vals[k] = sp(string(v.Value))
				} else if tikverr.IsErrNotFound(err) {
					rd.Vals[k] = nil
				} else {
					rd.Err = classify(err)
				}
			case 1:
				rd.Path = "bget"
				rd.Keys = subset(r, keys, 1, 5)
				if r.Intn(3) == 0 {
					rd.Keys = append(rd.Keys, rd.Keys[0]) // duplicate inside the batch
				}
				var ks [][]byte
				for _, k := range rd.Keys {
					ks = append(ks, []byte(k))
				}
				m, err := snap.BatchGet(ctx, ks)
				if err != nil {
					rd.Err = classify(err)
				} else {
					rd.Vals = map[string]*string{}
					for _, k := range rd.Keys {
						if v, ok := m[k]; ok {
							rd.Vals[k] = sp(string(v.Value))
						} else {
							rd.Vals[k] = nil
						}
					}
				}
			default:
				rev := r.Intn(2) == 0
				bounds := []string{"", "a", "b", "b\x00", "c", "d", "e", "f", "g"}
				lo, hi := pick(r, bounds), pick(r, bounds)
				if lo != "" && hi != "" && hi < lo {
					lo, hi = hi, lo
				}
				if rev && hi == "" && !plan.Unbounded {
					hi = "g"
				}
				if rev && lo == hi {
					lo = ""
				}
				rd.Lo, rd.Hi = lo, hi
				var it unionstore.Iterator
				var err error
				var blo, bhi []byte
				if lo != "" {
					blo = []byte(lo)
				}
				if hi != "" {
					bhi = []byte(hi)
				}
				if rev {
					rd.Path = "riter"
					it, err = snap.IterReverse(bhi, blo)
				} else {
					rd.Path = "iter"
					it, err = snap.Iter(blo, bhi)
				}
				if err != nil {
					rd.Err = classify(err)
					break
				}
				rd.Pairs = [][2]string{}
				for it.Valid() {
					rd.Pairs = append(rd.Pairs, [2]string{string(it.Key()), string(it.Value())})
					if err := it.Next(); err != nil {
						rd.Err = classify(err)
						break
					}
					if len(rd.Pairs) > 64 {
						rd.Err = "other:runaway iterator"
						break
					}
				}
				it.Close()
			}
			rd.Took = time.Since(t0)
			rd.Faulty = len(w.Net.Fired) != fired
			w.readsMu.Lock()
			w.Reads = append(w.Reads, rd)
			w.readsMu.Unlock()
			if !forward && r.Intn(6) == 0 && len(cands) > 0 {
				// move the snapshot to another timestamp: nothing cached for the old one may leak
				ts = cands[r.Intn(len(cands))]
				snap.SetSnapshotTS(ts)
			}
		}
	}
}

// GCReport is what the C14 phase observed.
type GCReport struct {
	Ranges     [][2]string // sub-ranges handed to the recording handler, in the order received
	RangeErr   string
	FailedAt   int
	SafePoint  uint64
	GCErr      string
	LocksAfter []string // locks with start ts <= safe point found in the store right after a successful GC
	BelowErr   string   // error class of a read below the safe point ("" = served)
	// BelowFaulty / MovedFaulty: a network fault was injected while that read ran (it may then fail for another reason)
	BelowFaulty bool
	MovedFaulty bool
	BelowSeq    []string // repeated reads of one snapshot / one transaction below the safe point: "<kind>(<key>)=<class>"
	AtErr       string   // error of a read at the safe point
	// a read (get / batch get / scan, by the seed) at the safe point during which the store learns a greater safe point
	MovedKind    string
	MovedErr     string
	MovedChecked bool // the greater safe point was learned while the read's last request was in flight
	DelErr       string
	DelDone      bool
	TruthBefore  simkit.Truth // before the delete-range task
	TruthAfter   simkit.Truth
}

// runGC executes the C14 phase on the observer client.
func (w *World) runGC(plan *GCPlan) *GCReport {
	rep := &GCReport{FailedAt: -1}
	st := w.Stores[len(w.Stores)-1]
	ctx := context.Background()
	// planned faults of the GC client are addressed relative to this marker; a split attached to one of
	// its requests (ScanLock, ResolveLock, ...) cuts the region the request goes to at a key INSIDE it
	w.Net.SetMark(len(w.Stores)-1, "gc")
	w.Net.Topo = &simkit.InnerSplitTopo{Cl: w.Cl, Keys: w.allKeys, H: simkit.NewHasher(w.Sim.Seed, "gcsplit"), Always: true}
	defer func() { w.Net.Topo = w.Cl }()
	// 1. range task coverage with a recording handler
	rangeCtx, cancelRange := context.WithCancel(ctx)
	var mu sync.Mutex
	calls := 0
	handler := func(ctx context.Context, r kv.KeyRange) (rangetask.TaskStat, error) {
		mu.Lock()
		defer mu.Unlock()
		n := calls
		calls++
		rep.Ranges = append(rep.Ranges, [2]string{string(r.StartKey), string(r.EndKey)})
		if n == plan.FailAt {
			rep.FailedAt = n
			if plan.CancelInCall {
				// the caller gives up while this sub-range is being handled
				cancelRange()
				return rangetask.TaskStat{FailedRegions: 1}, ctx.Err()
			}
			return rangetask.TaskStat{FailedRegions: 1}, fmt.Errorf("sim: injected handler failure")
		}
		return rangetask.TaskStat{CompletedRegions: 1}, nil
	}
	runner := rangetask.NewRangeTaskRunner("sim-cover", st, plan.Concurrency, handler)
	runner.SetRegionsPerTask(plan.RegionsPer)
	if err := runner.RunOnRange(rangeCtx, []byte(plan.RangeLo), []byte(plan.RangeHi)); err != nil {
		rep.RangeErr = err.Error()
	}
	cancelRange()
	// 2. GC lock resolution up to a fresh safe point
	sp, err := st.GetOracle().GetTimestamp(ctx, &oracleOpt)
	if err != nil {
		rep.GCErr = "tso: " + err.Error()
		return rep
	}
	rep.SafePoint = sp
	if plan.ScanLimit == 0 {
		newSP, err := st.GC(ctx, sp, tikv.WithConcurrency(plan.Concurrency))
		if err != nil {
			rep.GCErr = classify(err)
		} else {
			rep.SafePoint = newSP
		}
	} else {
		_, err := tikv.ResolveLocksForRange(ctx, tikv.NewRegionLockResolver("sim-gc", st), sp, nil, nil, tikv.NewGcResolveLockMaxBackoffer, uint32(plan.ScanLimit))
		if err != nil {
			rep.GCErr = classify(err)
		}
	}
	if rep.GCErr == "" {
		for _, l := range w.dumper.VerifDumpLocks() {
			if l.LockVersion <= rep.SafePoint {
				rep.LocksAfter = append(rep.LocksAfter, fmt.Sprintf("{key=%q start=%d primary=%q type=%v}", l.Key, l.LockVersion, l.PrimaryLock, l.LockType))
			}
		}
		// 3. snapshot reads below / at the cached transaction safe point
		st.UpdateTxnSafePointCache(rep.SafePoint, time.Now())
		if rep.SafePoint > 1 {
			firedBefore := len(w.Net.Fired)
			_, err := st.GetSnapshot(rep.SafePoint-1).Get(ctx, []byte("a"))
			rep.BelowFaulty = len(w.Net.Fired) != firedBefore
			if err != nil && !tikverr.IsErrNotFound(err) {
				rep.BelowErr = classify(err)
				if _, ok := errors.Cause(err).(*tikverr.ErrTxnAbortedByGC); ok {
					rep.BelowErr = "aborted-by-gc"
				}
			}
			_, err = st.GetSnapshot(rep.SafePoint).Get(ctx, []byte("a"))
			if err != nil && !tikverr.IsErrNotFound(err) {
				rep.AtErr = classify(err)
			}
			// 3b. ONE snapshot (and one transaction) below the safe point, read repeatedly through different paths: a
			// read that was refused must stay refused (nothing a refused read left in the snapshot cache may be served)
			hs := simkit.NewHasher(uint64(plan.Seed), "below-seq")
			below := st.GetSnapshot(rep.SafePoint - 1)
			btxn, berr := st.Begin(tikv.WithStartTS(rep.SafePoint - 1))
			bk := func(i int) []byte { return w.allKeys[hs.Intn(fmt.Sprintf("key%d", i), len(w.allKeys))] }
			for i := 0; i < 4; i++ {
				var e error
				kind := []string{"get", "bget", "txnget", "get"}[hs.Intn(fmt.Sprintf("kind%d", i), 4)]
				k := bk(i / 2) // the same key twice in a row, most of the time
				switch {
				case kind == "bget":
					_, e = below.BatchGet(ctx, [][]byte{k, bk(i + 7)})
				case kind == "txnget" && berr == nil:
					_, e = btxn.Get(ctx, k)
				default:
					kind = "get"
					_, e = below.Get(ctx, k)
				}
				c := "served"
				if e != nil && !tikverr.IsErrNotFound(e) {
					c = "failed:" + classify(e)
					if _, ok := errors.Cause(e).(*tikverr.ErrTxnAbortedByGC); ok {
						c = "aborted-by-gc"
					}
				}
				rep.BelowSeq = append(rep.BelowSeq, fmt.Sprintf("%s(%q)=%s", kind, k, c))
			}
			if berr == nil {
				_ = btxn.Rollback()
			}
			// 4. the store learns a greater safe point while a read at the old one is in flight
			gc := len(w.Stores) - 1
			rep.MovedKind = []string{"get", "bget", "scan"}[simkit.NewHasher(uint64(plan.Seed), "moved").Intn("kind", 3)]
			before := len(w.Net.Trace())
			var learnedAt time.Duration
			learned := make(chan struct{})
			go func() {
				defer close(learned)
				time.Sleep(100 * time.Microsecond)
				st.UpdateTxnSafePointCache(rep.SafePoint+16, time.Now())
				learnedAt = w.Sim.Now()
			}()
			snap := st.GetSnapshot(rep.SafePoint)
			firedMoved := len(w.Net.Fired)
			switch rep.MovedKind {
			case "get":
				_, err = snap.Get(ctx, []byte("b"))
			case "bget":
				_, err = snap.BatchGet(ctx, [][]byte{[]byte("b"), []byte("e")})
			default:
				it, e := snap.Iter([]byte("b"), nil)
				if err = e; e == nil {
					it.Close()
				}
			}
			<-learned
			rep.MovedFaulty = len(w.Net.Fired) != firedMoved
			if err != nil && !tikverr.IsErrNotFound(err) {
				rep.MovedErr = classify(err)
				if _, ok := errors.Cause(err).(*tikverr.ErrTxnAbortedByGC); ok {
					rep.MovedErr = "aborted-by-gc"
				}
			}
			for _, r := range w.Net.Trace()[before:] {
				if r.Client == gc && simkit.VersionOf(r.Req) == rep.SafePoint && r.Returned && r.DoneAt > learnedAt {
					rep.MovedChecked = true
				}
			}
		}
	}
	return rep
}

// runDeleteRange executes the delete-range task after everything else was audited.
func (w *World) runDeleteRange(plan *GCPlan, rep *GCReport) {
	st := w.Stores[len(w.Stores)-1]
	rep.TruthBefore = simkit.DumpTruth(w.dumper, w.allKeys)
	task := rangetask.NewDeleteRangeTask(st, []byte(plan.DelLo), []byte(plan.DelHi), plan.Concurrency)
	if err := task.Execute(context.Background()); err != nil {
		rep.DelErr = classify(err)
	}
	rep.DelDone = true
	rep.TruthAfter = simkit.DumpTruth(w.dumper, w.allKeys)
}
