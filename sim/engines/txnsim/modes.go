package txnsim

import (
	"fmt"
	"math/rand"
	"sort"

	"github.com/tikv/client-go/v2/verifsim/simkit"
)

const (
	maxCrashPos = 16 // RPC positions of Commit enumerated per shape (positions beyond the real count are no-ops)
	maxTSOPos   = 3
)

// genVictim generates the small transaction whose Commit is attacked: 1-4 keys,
// put / delete / insert / lock-only mutations, optimistic or pessimistic.
func genVictim(r *rand.Rand, id int, backend string) (TxnProg, []string) {
	p := TxnProg{ID: id, Client: 0, DelayMs: 5 + r.Intn(10)}
	p.Pessimistic = r.Intn(2) == 0
	if backend == "R" {
		switch r.Intn(3) {
		case 1:
			p.Async = true
		case 2:
			p.OnePC = true
		}
	}
	keys := subset(r, keyPool, 1, 4)
	// key order decides the primary: vary it by shuffling which keys are lock-only / written
	for i, k := range keys {
		kind := []string{"set", "set", "delete", "insert", "lockonly"}[r.Intn(5)]
		if !p.Pessimistic && kind == "lockonly" {
			kind = "set"
		}
		val := fmt.Sprintf("v%d.%d", id, i)
		switch kind {
		case "lockonly":
			p.Ops = append(p.Ops, Op{Kind: "lock", Keys: []string{k}})
		case "insert":
			p.Ops = append(p.Ops, Op{Kind: "insert", Keys: []string{k}, Val: val})
			if p.Pessimistic && r.Intn(10) != 0 {
				p.Ops = append(p.Ops, Op{Kind: "lock", Keys: []string{k}})
			}
		default:
			if p.Pessimistic && r.Intn(10) != 0 {
				p.Ops = append(p.Ops, Op{Kind: "lock", Keys: []string{k}, RetVals: r.Intn(2) == 0})
			}
			op := Op{Kind: kind, Keys: []string{k}}
			if kind == "set" {
				op.Val = val
			}
			p.Ops = append(p.Ops, op)
		}
	}
	p.End = "commit"
	return p, keys
}

// layoutFor spreads the keys over 1-3 regions.
func layoutFor(r *rand.Rand, keys []string) (stores int, splits []string) {
	stores = 1 + r.Intn(3)
	nreg := 1 + r.Intn(3)
	if nreg > 1 && len(keys) > 1 {
		cands := append([]string(nil), keys[1:]...)
		r.Shuffle(len(cands), func(i, j int) { cands[i], cands[j] = cands[j], cands[i] })
		for i := 0; i < nreg-1 && i < len(cands); i++ {
			splits = append(splits, cands[i])
		}
	}
	if r.Intn(4) == 0 {
		splits = append(splits, keys[0]) // a region border exactly on the first key
	}
	sort.Strings(splits)
	return
}

// companions adds what happens around the attacked Commit: a seed writer before it,
// readers, a conflicting writer, a region split - all from the shape's stream.
func companions(r *rand.Rand, sc *Scenario, keys []string, nextID int) int {
	// pre-existing data so that deletes/inserts/locks meet something
	if r.Intn(2) == 0 {
		p := TxnProg{ID: nextID, Client: 1, DelayMs: 0, End: "commit"}
		for _, k := range subset(r, keys, 1, len(keys)) {
			p.Ops = append(p.Ops, Op{Kind: "set", Keys: []string{k}, Val: fmt.Sprintf("s%d.%s", nextID, k)})
		}
		sc.Txns = append(sc.Txns, p)
		nextID++
	}
	nread := r.Intn(3)
	for i := 0; i < nread; i++ {
		p := TxnProg{ID: nextID, Client: 1 + i%2, DelayMs: 5 + r.Intn(60), End: "commit"}
		p.Ops = append(p.Ops, Op{Kind: "bget", Keys: append([]string(nil), keys...)})
		if r.Intn(2) == 0 {
			p.Ops = append(p.Ops, Op{Kind: "iter"})
		}
		if r.Intn(3) == 0 {
			p.Ops = append(p.Ops, Op{Kind: "sleep", SleepMs: 500 + r.Intn(4000)}, Op{Kind: "bget", Keys: append([]string(nil), keys...)})
		}
		sc.Txns = append(sc.Txns, p)
		nextID++
	}
	if r.Intn(3) == 0 {
		p := TxnProg{ID: nextID, Client: 2, DelayMs: 5 + r.Intn(40), End: "commit", Pessimistic: r.Intn(2) == 0}
		k := pick(r, keys)
		if p.Pessimistic {
			p.Ops = append(p.Ops, Op{Kind: "lock", Keys: []string{k}, WaitMs: 50 + r.Intn(3000)})
		}
		p.Ops = append(p.Ops, Op{Kind: "set", Keys: []string{k}, Val: fmt.Sprintf("w%d", nextID)})
		sc.Txns = append(sc.Txns, p)
		nextID++
	}
	if r.Intn(3) == 0 {
		sc.Topo = append(sc.Topo, TopoEvent{AtMs: 5 + r.Intn(40), Kind: pick(r, []string{"split", "leader", "split"}), Key: pick(r, keys)})
	}
	return nextID
}

func baseShape(cfg simkit.RunConfig, shape int, backend string) (*Scenario, *rand.Rand) {
	r := simkit.Rand(cfg.BaseSeed, fmt.Sprintf("shape-%s-%d", cfg.Mode, shape))
	sc := &Scenario{Backend: backend, Clients: 3, Victim: 0}
	v, keys := genVictim(r, 0, backend)
	sc.Txns = append(sc.Txns, v)
	sc.Stores, sc.Splits = layoutFor(r, keys)
	companions(r, sc, keys, 1)
	sc.Net.JitterUs = []int{0, 500, 3000}[r.Intn(3)]
	sc.Net.Plan = map[string]simkit.Fate{}
	if r.Intn(3) == 0 {
		sc.Knobs.CommitBatchSize = 1
	}
	return sc, r
}

// genCrash: mode "crash" (C02). Run index = shape * positions + position; every
// RPC / TSO position of the victim's Commit x {never delivered, delivered-unanswered}
// is enumerated for every shape.
func genCrash(cfg simkit.RunConfig, backend string) *Scenario {
	per := maxCrashPos*2 + maxTSOPos
	shape, pos := cfg.Index/per, cfg.Index%per
	sc, _ := baseShape(cfg, shape, backend)
	if backend == "R" && shape%8 == 7 {
		asyncRecoveryFamily(cfg, shape, sc)
	}
	mark := fmt.Sprintf("end%d", sc.Txns[0].ID)
	switch {
	case pos < maxCrashPos:
		sc.Net.Plan[fmt.Sprintf("ord:0:%s+%d", mark, pos)] = simkit.CrashBefore
	case pos < 2*maxCrashPos:
		sc.Net.Plan[fmt.Sprintf("ord:0:%s+%d", mark, pos-maxCrashPos)] = simkit.CrashAfter
	default:
		sc.Net.Plan[fmt.Sprintf("tso:0:%s+%d", mark, pos-2*maxCrashPos)] = simkit.CrashBefore
	}
	if r3 := simkit.Rand(cfg.Seed, "recovery-splits"); backend == "R" && r3.Intn(3) == 0 {
		// the survivors' recovery meets a topology change of its own: the first request of a kind a resolver sends
		// (CheckSecondaryLocks of the async-commit recovery above all) splits its region strictly INSIDE its keys before
		// it is served - the keys of one request end up in two regions, the answer is EpochNotMatch, the resolver has
		// to re-group them and ask both parts
		sc.Knobs.InnerSplits = true
		for c := 1; c <= sc.Clients; c++ {
			sc.Net.Plan[fmt.Sprintf("cmd:%d:%s+0", c, pick(r3, []string{"CheckSecondaryLocks", "CheckSecondaryLocks", "ResolveLock", "BatchGet"}))] = pick(r3, []simkit.Fate{simkit.TopoSplitBetween, simkit.TopoSplitBetween, simkit.TopoSplit})
		}
	}
	if cfg.Mode == "crashfaults" {
		// the same enumeration with a lossy network around it: lost clean-up messages of earlier
		// statements, retried requests, resolvers that cache what they learned
		r2 := simkit.Rand(cfg.Seed, "bgfaults")
		sc.Net.Random = true
		sc.Net.Rate = []float64{0.05, 0.1, 0.2}[r2.Intn(3)]
		sc.Net.Kinds = []simkit.Fate{simkit.DropReq, simkit.DropResp, simkit.Delay, simkit.RENotLeader, simkit.REEpochNotMatch, simkit.REServerIsBusy}
		// the victim is more often a multi-statement pessimistic transaction whose earlier lock calls fail
		v := &sc.Txns[0]
		if v.Pessimistic && r2.Intn(2) == 0 {
			pre := []Op{{Kind: "lock", Keys: subset(r2, keyPool, 1, 3), NoWait: r2.Intn(2) == 0, WaitMs: 20 + r2.Intn(100)}}
			v.Ops = append(pre, v.Ops...)
		}
		// one resolver client keeps reading over a long time (its status cache lives on)
		for i := range sc.Txns {
			if sc.Txns[i].Client == 1 && len(sc.Txns[i].Ops) > 0 && sc.Txns[i].Ops[0].Kind == "bget" {
				sc.Txns[i].Ops = append(sc.Txns[i].Ops, Op{Kind: "sleep", SleepMs: 3000 + r2.Intn(25000)}, Op{Kind: "bget", Keys: append([]string(nil), keyPool...)}, Op{Kind: "iter"})
			}
		}
	}
	return sc
}

// asyncRecoveryFamily turns every eighth shape of the crash enumeration (reference backend) into the case the async-commit
// recovery is written for: an async-commit victim with three or four keys in ONE region whose prewrite goes out one key
// per request (so that the client can die between two of them), and survivors whose first CheckSecondaryLocks request
// has its region split between its own keys - the recovery must re-group the secondaries and ask every part.
func asyncRecoveryFamily(cfg simkit.RunConfig, shape int, sc *Scenario) {
	r := simkit.Rand(cfg.BaseSeed, fmt.Sprintf("async-recovery-%s-%d", cfg.Mode, shape))
	keys := subset(r, keyPool, 3, 4)
	v := TxnProg{ID: 0, Client: 0, DelayMs: 5 + r.Intn(10), Async: true, Pessimistic: r.Intn(3) == 0, End: "commit"}
	for i, k := range keys {
		if v.Pessimistic {
			v.Ops = append(v.Ops, Op{Kind: "lock", Keys: []string{k}})
		}
		v.Ops = append(v.Ops, Op{Kind: "set", Keys: []string{k}, Val: fmt.Sprintf("v0.%d", i)})
	}
	sc.Txns = []TxnProg{v}
	sc.Splits, sc.Topo = nil, nil
	sc.Stores = 1 + r.Intn(3)
	sc.Knobs.CommitBatchSize = 1
	sc.Knobs.InnerSplits = true
	for c := 1; c <= 2; c++ {
		p := TxnProg{ID: c, Client: c, DelayMs: 3200 + r.Intn(3000), End: "commit"}
		p.Ops = append(p.Ops, Op{Kind: pick(r, []string{"bget", "get", "iter"}), Keys: append([]string(nil), keys...)}, Op{Kind: "sleep", SleepMs: 200 + r.Intn(2000)}, Op{Kind: "bget", Keys: append([]string(nil), keys...)})
		if p.Ops[0].Kind == "get" {
			p.Ops[0].Keys = []string{pick(r, keys)}
		}
		sc.Txns = append(sc.Txns, p)
	}
	for c := 1; c <= sc.Clients; c++ {
		sc.Net.Plan[fmt.Sprintf("cmd:%d:CheckSecondaryLocks+0", c)] = pick(r, []simkit.Fate{simkit.TopoSplitBetween, simkit.TopoSplitBetween, simkit.Deliver})
	}
}

var commitFaults = []simkit.Fate{
	simkit.DropReq, simkit.DropResp, simkit.DropReqSlow, simkit.DropRespSlow,
	simkit.RENotLeader, simkit.REEpochNotMatch, simkit.REServerIsBusy, simkit.REStaleCommand,
	simkit.TopoSplit, simkit.Stall, simkit.TopoLeader,
}

const (
	maxFaultPos  = 12
	doublesShape = 56
)

// genFaults: mode "faults" (C03). Per shape: every single fault kind at every RPC
// position of Commit (enumerated), then sampled pairs of faults.
func genFaults(cfg simkit.RunConfig, backend string) *Scenario {
	singles := maxFaultPos * len(commitFaults)
	per := singles + doublesShape
	shape, pos := cfg.Index/per, cfg.Index%per
	sc, _ := baseShape(cfg, shape, backend)
	mark := fmt.Sprintf("end%d", sc.Txns[0].ID)
	if pos < singles {
		f := commitFaults[pos%len(commitFaults)]
		sc.Net.Plan[fmt.Sprintf("ord:0:%s+%d", mark, pos/len(commitFaults))] = f
		if f == simkit.Stall {
			// the committer is slow (its locks outlive their ttl while it is still running): the status checks of the
			// other clients are slow too, so that a check is asked before the expiry instant and answered after it
			sc.Net.Random = true
			sc.Net.Rate = 0.5
			sc.Net.Kinds = []simkit.Fate{simkit.Delay}
			sc.Net.OnlyTypes = []string{"CheckTxnStatus", "CheckSecondaryLocks"}
		}
	} else if pos%4 == 3 {
		// a fault that does not heal: one lost message, then the same region error / loss for every later
		// request of the committer (its back-off budget runs out), or the caller's context is cancelled
		r2 := simkit.Rand(cfg.Seed, "persist")
		i := r2.Intn(maxFaultPos / 2)
		sc.Net.Plan[fmt.Sprintf("ord:0:%s+%d", mark, i)] = pick(r2, []simkit.Fate{simkit.DropResp, simkit.DropRespSlow, simkit.DropReq, simkit.Deliver})
		switch r2.Intn(4) {
		case 0, 1:
			sc.Net.Persist = map[string]simkit.Fate{fmt.Sprintf("ord:0:%s+%d", mark, i+1): pick(r2, []simkit.Fate{simkit.RERegionNotFound, simkit.REEpochNotMatch, simkit.RENotLeader, simkit.REServerIsBusy, simkit.DropReq, simkit.REStaleCommand})}
		case 2:
			// a split between the keys of one request (the batch is re-grouped and its parts are sent one after the
			// other), the first part goes through, then nothing does any more
			sc.Knobs.InnerSplits = true
			sc.Knobs.CommitBatchSize = 0
			sc.Net.Plan[fmt.Sprintf("ord:0:%s+%d", mark, i)] = simkit.TopoSplit
			sc.Net.Persist = map[string]simkit.Fate{fmt.Sprintf("ord:0:%s+%d", mark, i+2): pick(r2, []simkit.Fate{simkit.DropReq, simkit.RERegionNotFound, simkit.DropReq})}
		default:
			sc.Txns[0].CancelMs = 1 + r2.Intn(400)
			sc.Net.Plan[fmt.Sprintf("ord:0:%s+%d", mark, i+1)] = pick(r2, []simkit.Fate{simkit.RERegionNotFound, simkit.REEpochNotMatch, simkit.Stall})
		}
	} else {
		r2 := simkit.Rand(cfg.Seed, "pair")
		i := r2.Intn(maxFaultPos)
		j := r2.Intn(maxFaultPos)
		sc.Net.Plan[fmt.Sprintf("ord:0:%s+%d", mark, i)] = pick(r2, commitFaults)
		sc.Net.Plan[fmt.Sprintf("ord:0:%s+%d", mark, j)] = pick(r2, commitFaults)
		if r2.Intn(3) == 0 {
			sc.Net.Plan[fmt.Sprintf("ord:0:%s+%d", mark, r2.Intn(maxFaultPos))] = pick(r2, commitFaults)
		}
		// a rare answer of the store at one more position (own stream): an executed request answered
		// "result undetermined", a definite refusal, or one of the refusals that are retried
		if r3 := simkit.Rand(cfg.Seed, "rare"); r3.Intn(2) == 0 {
			sc.Net.Plan[fmt.Sprintf("ord:0:%s+%d", mark, r3.Intn(maxFaultPos))] = pick(r3, rareFaults)
		}
	}
	return sc
}

// genLeftover: mode "leftover" (C06): contention makes individual steps fail; no
// message is ever lost; region errors and topology changes are injected.
func genLeftover(cfg simkit.RunConfig, backend string) *Scenario {
	r := simkit.Rand(cfg.Seed, "gen")
	sc := &Scenario{Backend: backend, Victim: -1}
	sc.Stores, sc.Splits = genLayout(r)
	sc.Clients = 1 + r.Intn(3)
	nk := 2 + r.Intn(3)
	keys := keyPool[:nk]
	n := 2 + r.Intn(4)
	o := genOpts{maxTxns: 6, pessRate: 0.7, backend: backend, boundedRiter: true}
	for i := 0; i < n; i++ {
		p := genTxn(r, i, sc.Clients, o, keys)
		// more locking, with all option mixes
		if p.Pessimistic {
			extra := 1 + r.Intn(3)
			for j := 0; j < extra; j++ {
				lk := Op{Kind: "lock", Keys: subset(r, keys, 1, 3), RetVals: r.Intn(2) == 0, CheckExist: r.Intn(4) == 0}
				switch r.Intn(3) {
				case 0:
					lk.NoWait = true
				case 1:
					lk.WaitMs = 20 + r.Intn(300)
				}
				at := r.Intn(len(p.Ops) + 1)
				ins := []Op{lk}
				if len(lk.Keys) > 1 && (lk.NoWait || lk.WaitMs > 0) && r.Intn(3) == 0 {
					ins = append(ins, lk) // the statement is retried at once with the same keys
				}
				p.Ops = append(p.Ops[:at], append(ins, p.Ops[at:]...)...)
			}
		}
		// aggressive (fair) locking stages: start, lock attempts (some failing), retries, then done or cancel
		if p.Pessimistic && r.Intn(5) < 2 {
			var blk []Op
			blk = append(blk, Op{Kind: "aggstart"})
			attempts := 1 + r.Intn(3)
			for a := 0; a < attempts; a++ {
				if a > 0 {
					blk = append(blk, Op{Kind: "aggretry"})
				}
				nl := r.Intn(3) // an attempt may lock nothing at all
				for j := 0; j < nl; j++ {
					lk := Op{Kind: "lock", Keys: subset(r, keys, 1, 2), RetVals: r.Intn(2) == 0}
					switch r.Intn(3) {
					case 0:
						lk.NoWait = true
					default:
						lk.WaitMs = 20 + r.Intn(300)
					}
					blk = append(blk, lk)
				}
			}
			blk = append(blk, Op{Kind: pick(r, []string{"aggdone", "aggdone", "aggcancel"})})
			at := r.Intn(len(p.Ops) + 1)
			p.Ops = append(p.Ops[:at], append(blk, p.Ops[at:]...)...)
		}
		if r.Intn(4) == 0 {
			p.End = "rollback"
		}
		// a commit-wait constraint: far ahead (Commit fails - on the async-commit / 1PC path before any prewrite) or near
		switch r.Intn(10) {
		case 0:
			p.CommitWait = "lag"
		case 1:
			p.CommitWait = "near"
		}
		// nothing expires in this mode: unbounded lock waits would only spin on application-level
		// wait cycles (a commit blocked by a lock whose owner waits for the committer)
		for j := range p.Ops {
			if p.Ops[j].Kind == "lock" && !p.Ops[j].NoWait && p.Ops[j].WaitMs == 0 {
				p.Ops[j].WaitMs = 50 + r.Intn(2000)
			}
		}
		sc.Txns = append(sc.Txns, p)
	}
	sc.Net.JitterUs = []int{0, 500, 3000, 20000}[r.Intn(4)]
	if r.Intn(3) != 0 {
		sc.Net.Random = true
		sc.Net.Rate = []float64{0.03, 0.08, 0.15}[r.Intn(3)]
		for _, f := range regionOnlyFaults {
			if r.Intn(2) == 0 {
				sc.Net.Kinds = append(sc.Net.Kinds, f)
			}
		}
	}
	ne := r.Intn(4)
	for i := 0; i < ne; i++ {
		sc.Topo = append(sc.Topo, TopoEvent{AtMs: r.Intn(100), Kind: pick(r, []string{"split", "leader", "merge"}), Key: pick(r, keys)})
	}
	if r.Intn(3) == 0 {
		sc.Knobs.CommitBatchSize = 1
	}
	sc.Knobs.LongTTL = true
	sc.Knobs.Delays = genDelays(r)
	sc.Knobs.GoDelayPm = genGoDelay(r)
	return sc
}

// genReads: mode "reads" (C05). Writers of every kind, some of them crashed at a
// random point of their work (leftover locks: pending, committed primary with
// unresolved secondaries, rolled back, pessimistic), topology changes; readers on a
// separate client read through all four paths at timestamps around every
// start/commit ts, while the writers run, after they ended, and after recovery.
func genReads(cfg simkit.RunConfig, backend string) *Scenario {
	r := simkit.Rand(cfg.Seed, "gen")
	sc := &Scenario{Backend: backend, Victim: -1}
	sc.Stores, sc.Splits = genLayout(r)
	sc.Clients = 3 // clients 0,1 write (and may crash); client 2 reads
	keys := keyPool
	n := 2 + r.Intn(4)
	o := genOpts{maxTxns: 6, pessRate: 0.4, backend: backend, boundedRiter: true}
	sc.Net.Plan = map[string]simkit.Fate{}
	for i := 0; i < n; i++ {
		p := genTxn(r, i, 2, o, keys)
		sc.Txns = append(sc.Txns, p)
	}
	// crash writers: one client dies at a random RPC of one of its transactions' Commit
	// (or, for pessimistic ones, leaves pessimistic locks by dying before it)
	for c := 0; c < 2; c++ {
		if r.Intn(3) == 0 {
			continue
		}
		var mine []int
		for _, t := range sc.Txns {
			if t.Client == c {
				mine = append(mine, t.ID)
			}
		}
		if len(mine) == 0 {
			continue
		}
		v := mine[r.Intn(len(mine))]
		f := simkit.CrashBefore
		if r.Intn(2) == 0 {
			f = simkit.CrashAfter
		}
		sc.Net.Plan[fmt.Sprintf("ord:%d:end%d+%d", c, v, r.Intn(6))] = f
	}
	sc.Net.JitterUs = []int{0, 500, 3000, 20000}[r.Intn(4)]
	ne := r.Intn(5)
	for i := 0; i < ne; i++ {
		sc.Topo = append(sc.Topo, TopoEvent{AtMs: r.Intn(200), Kind: pick(r, []string{"split", "leader", "merge"}), Key: pick(r, []string{"a", "b", "c", "d", "e", "f", "b\x00"})})
	}
	if r.Intn(3) == 0 {
		sc.Net.Random = true
		sc.Net.Rate = []float64{0.03, 0.08}[r.Intn(2)]
		sc.Net.Kinds = append([]simkit.Fate(nil), regionOnlyFaults...)
	}
	if r.Intn(3) == 0 {
		sc.Knobs.CommitBatchSize = 1
	}
	if r.Intn(2) == 0 {
		sc.Knobs.ManagedTTLMs = 300 + r.Intn(3000)
	}
	sc.Reads = &ReadPlan{Seed: r.Int63(), Early: 2 + r.Intn(4), Late: 2 + r.Intn(4), Final: 2 + r.Intn(3),
		Batch: []int{2, 3, 5, 256}[r.Intn(4)], KeyOnly: r.Intn(4) == 0, Unbounded: r.Intn(8) == 0}
	return sc
}

// genRYW: mode "ryw" (C07): committed data, then 1-2 long transactions mixing reads of every
// kind with sets, deletes and savepoint steps, while other transactions commit concurrently
// and the topology changes (the snapshot half of the merged view is a lazily fetched remote scanner).
func genRYW(cfg simkit.RunConfig, backend string) *Scenario {
	r := simkit.Rand(cfg.Seed, "gen")
	sc := &Scenario{Backend: backend, Victim: -1}
	sc.Stores, sc.Splits = genLayout(r)
	sc.Clients = 2
	keys := keyPool
	var bounds []string
	if r.Intn(3) == 0 {
		// keys that share a prefix longer than the radix tree keeps inside a node, with suffixes that
		// differ late, and scan bounds that diverge from them inside the shared part
		pfx := "k" + string(make([]byte, 23)) // 24 bytes: 'k' + 23 x 0x00
		keys = []string{pfx + "\x00\x05a", pfx + "\x00\x05b", pfx + "\x00\x07", pfx + "\x01", pfx + "\x01\x00", pfx[:22] + "\x02"}
		bounds = []string{pfx + "\x00\x03", pfx + "\x00\x06", pfx + "\x00", pfx[:23] + "\x01", pfx[:21], pfx + "\x02"}
		sort.Strings(keys)
		sc.Keys = keys
		sc.Splits = nil
		if r.Intn(2) == 0 {
			sc.Splits = []string{keys[2]}
		}
	}
	id := 0
	pre := TxnProg{ID: id, Client: 1, End: "commit"}
	for i, k := range subset(r, keys, 2, 6) {
		pre.Ops = append(pre.Ops, Op{Kind: "set", Keys: []string{k}, Val: fmt.Sprintf("p.%d", i)})
	}
	sc.Txns = append(sc.Txns, pre)
	id++
	o := genOpts{maxTxns: 4, pessRate: 0.3, backend: backend, boundedRiter: true, staging: true, maxOps: 14, bounds: bounds}
	nmain := 1 + r.Intn(2)
	for i := 0; i < nmain; i++ {
		p := genTxn(r, id, 1, o, keys)
		p.DelayMs = 40 + r.Intn(30)
		sc.Txns = append(sc.Txns, p)
		id++
	}
	nbg := r.Intn(3)
	ob := genOpts{maxTxns: 4, pessRate: 0.3, backend: backend, boundedRiter: true, bounds: bounds}
	for i := 0; i < nbg; i++ {
		p := genTxn(r, id, 2, ob, keys)
		p.Client = 1
		p.DelayMs = 30 + r.Intn(80)
		sc.Txns = append(sc.Txns, p)
		id++
	}
	sc.Net.JitterUs = []int{0, 500, 3000}[r.Intn(3)]
	if r.Intn(2) == 0 {
		sc.Net.Random = true
		sc.Net.Rate = []float64{0.03, 0.1}[r.Intn(2)]
		sc.Net.Kinds = append([]simkit.Fate(nil), regionOnlyFaults...)
	}
	ne := r.Intn(4)
	for i := 0; i < ne; i++ {
		sc.Topo = append(sc.Topo, TopoEvent{AtMs: 30 + r.Intn(100), Kind: pick(r, []string{"split", "leader", "merge"}), Key: pick(r, keys)})
	}
	sc.Knobs.ScanBatch = []int{0, 2, 3, 5}[r.Intn(4)]
	return sc
}

// genGC: mode "gc" (C14): leftover locks of every kind (crashed writers as in mode reads),
// counts around the scan limit, splits during the scan; then range-task coverage, GC lock
// resolution with a given worker concurrency, safe-point visibility, delete-range task.
func genGC(cfg simkit.RunConfig, backend string) *Scenario {
	sc := genReads(cfg, backend)
	r := simkit.Rand(cfg.Seed, "gcplan")
	sc.Reads.Early, sc.Reads.Late, sc.Reads.Final = 0, 1, 2
	sc.Reads.Unbounded = false
	bnd := []string{"", "a", "b", "c", "c\x00", "d", "e", "f", "g"}
	lo, hi := pick(r, bnd), pick(r, bnd)
	if r.Intn(2) == 0 {
		lo = ""
	}
	if r.Intn(2) == 0 {
		hi = "" // unbounded end: the last region must be covered too
	}
	if lo != "" && hi != "" && hi < lo {
		lo, hi = hi, lo
	}
	// more regions than the default layout, so that tasks span several regions
	seen := map[string]bool{}
	for _, k := range sc.Splits {
		seen[k] = true
	}
	for _, k := range []string{"b", "c", "d", "e", "f"} {
		if !seen[k] && r.Intn(2) == 0 {
			sc.Splits = append(sc.Splits, k)
		}
	}
	sort.Strings(sc.Splits)
	dlo, dhi := pick(r, bnd), pick(r, bnd)
	if dlo != "" && dhi != "" && dhi < dlo {
		dlo, dhi = dhi, dlo
	}
	sc.GC = &GCPlan{Seed: r.Int63(), Concurrency: 1 + r.Intn(8), ScanLimit: []int{0, 1, 2, 3, 8}[r.Intn(5)], RegionsPer: 1 + r.Intn(3),
		RangeLo: lo, RangeHi: hi, FailAt: -1, DelLo: dlo, DelHi: dhi, DeleteRange: r.Intn(2) == 0}
	if r.Intn(4) == 0 {
		sc.GC.FailAt = r.Intn(4)
		sc.GC.CancelInCall = r.Intn(2) == 0
	}
	// splits attached to requests of the GC client (between a lock scan and the resolve request that follows it)
	if r.Intn(2) == 0 {
		if sc.Net.Plan == nil {
			sc.Net.Plan = map[string]simkit.Fate{}
		}
		for i, n := 0, 1+r.Intn(3); i < n; i++ {
			sc.Net.Plan[fmt.Sprintf("ord:%d:gc+%d", sc.Clients, r.Intn(14))] = pick(r, []simkit.Fate{simkit.TopoSplitAfter, simkit.TopoSplitAfter, simkit.TopoSplit, simkit.TopoMergeAfter, simkit.TopoMergeAfter})
		}
	}
	// topology changes while the GC phase runs (it starts after the writers, ~0.3-1 s)
	ne := r.Intn(4)
	for i := 0; i < ne; i++ {
		sc.Topo = append(sc.Topo, TopoEvent{AtMs: 200 + r.Intn(3000), Kind: pick(r, []string{"split", "leader", "merge"}), Key: pick(r, []string{"a", "b", "c", "d", "e", "f"})})
	}
	return sc
}

// genStaleLock: mode "stalelock" (C02). A shape family aimed at transactions that leave a lock behind which
// names a key that is no longer their primary: a pessimistic transaction whose first lock statement fails on
// a blocked key, whose clean-up messages for the keys it had already locked are lost, which goes on with a new
// primary and commits; the committing client is crashed at every RPC position of Commit (both variants). One
// surviving client first writes to the stale keys (it has to resolve the stale locks, learning a verdict about
// the transaction from the OLD primary) and later reads the keys of the commit (it meets the locks of the
// crashed Commit with that verdict in its cache). The order "stale lock first, real lock second" inside ONE
// resolver is what the randomly generated companions of mode crashfaults reach only rarely.
func genStaleLock(cfg simkit.RunConfig, backend string) *Scenario {
	per := maxCrashPos*2 + 1
	shape, pos := cfg.Index/per, cfg.Index%per
	r := simkit.Rand(cfg.BaseSeed, fmt.Sprintf("shape-stalelock-%d", shape))
	sc := &Scenario{Backend: backend, Clients: 3, Victim: 0}
	sc.Stores = 1 + r.Intn(3)
	sc.Splits = subset(r, []string{"b", "c", "d", "e", "f"}, 2, 5)
	sc.Net.Plan = map[string]simkit.Fate{}
	sc.Net.Persist = map[string]simkit.Fate{}
	keys := keyPool
	// the blocked key is never the first key of the statement: the first key becomes the (old) primary and is locked
	xi := 1 + r.Intn(len(keys)-1)
	x := keys[xi]
	var rest []string
	for i, k := range keys {
		if i != xi {
			rest = append(rest, k)
		}
	}
	stale := subset(r, rest, 1, 3)
	if r.Intn(3) == 0 {
		r.Shuffle(len(stale), func(i, j int) { stale[i], stale[j] = stale[j], stale[i] })
	}
	v := TxnProg{ID: 0, Client: 0, DelayMs: 5 + r.Intn(10), Pessimistic: true, End: "commit"}
	if backend == "R" {
		switch r.Intn(3) {
		case 1:
			v.Async = true
		case 2:
			v.OnePC = true
		}
	}
	first := Op{Kind: "lock", Keys: append(append([]string(nil), stale...), x)}
	if r.Intn(2) == 0 {
		first.NoWait = true
	} else {
		first.WaitMs = 10 + r.Intn(60)
	}
	v.Ops = append(v.Ops, first)
	// the statements after the failed one: new keys (one of them becomes the new primary), sometimes stale keys again
	var pool []string
	for _, k := range rest {
		isStale := false
		for _, s := range stale {
			isStale = isStale || s == k
		}
		if !isStale || r.Intn(4) == 0 {
			pool = append(pool, k)
		}
	}
	if len(pool) == 0 {
		pool = append(pool, rest[len(rest)-1])
	}
	wkeys := subset(r, pool, 1, 3)
	if r.Intn(2) == 0 {
		r.Shuffle(len(wkeys), func(i, j int) { wkeys[i], wkeys[j] = wkeys[j], wkeys[i] })
	}
	for i, k := range wkeys {
		if r.Intn(5) != 0 {
			v.Ops = append(v.Ops, Op{Kind: "lock", Keys: []string{k}, WaitMs: 50 + r.Intn(200), RetVals: r.Intn(2) == 0})
		}
		kind := pick(r, []string{"set", "set", "set", "delete"})
		op := Op{Kind: kind, Keys: []string{k}}
		if kind == "set" {
			op.Val = fmt.Sprintf("v0.%d", i)
		}
		v.Ops = append(v.Ops, op)
	}
	ttlMs := 20000
	if r.Intn(4) != 0 {
		sc.Knobs.ManagedTTLMs = 300 + r.Intn(3000)
		ttlMs = sc.Knobs.ManagedTTLMs
	}
	lateCommit := r.Intn(3) == 0
	if lateCommit {
		// the transaction stays open (heart-beats keep the NEW primary alive) while the stale locks expire
		v.Ops = append(v.Ops, Op{Kind: "sleep", SleepMs: ttlMs + 500 + r.Intn(3000)})
	}
	sc.Txns = append(sc.Txns, v)
	// the blocker holds x while the victim's first statement runs
	b := TxnProg{ID: 1, Client: 2, DelayMs: 0, Pessimistic: true, End: pick(r, []string{"rollback", "commit"})}
	b.Ops = append(b.Ops, Op{Kind: "lock", Keys: []string{x}, WaitMs: 100}, Op{Kind: "sleep", SleepMs: 80 + r.Intn(200)})
	if b.End == "commit" {
		b.Ops = append(b.Ops, Op{Kind: "set", Keys: []string{x}, Val: "b1"})
	}
	sc.Txns = append(sc.Txns, b)
	// pre-existing data under some keys
	id := 2
	// the surviving resolver (client 1): writer(s) on the stale keys after their locks expired, then readers of everything
	at := ttlMs + 200 + r.Intn(1500)
	nw := 1 + r.Intn(2)
	for i := 0; i < nw; i++ {
		w := TxnProg{ID: id, Client: 1, DelayMs: at, Pessimistic: r.Intn(2) == 0, End: "commit"}
		for _, k := range subset(r, stale, 1, len(stale)) {
			if w.Pessimistic {
				w.Ops = append(w.Ops, Op{Kind: "lock", Keys: []string{k}, WaitMs: 500 + r.Intn(3000)})
			}
			w.Ops = append(w.Ops, Op{Kind: "set", Keys: []string{k}, Val: fmt.Sprintf("w%d.%s", id, k)})
		}
		if lateCommit && r.Intn(2) == 0 {
			// the victim is still open: the same client that just met the stale locks also wants a key the victim holds
			// a LIVE lock on - it has to wait for (or give up on) that lock, never take it
			k := pick(r, wkeys)
			if w.Pessimistic {
				w.Ops = append(w.Ops, Op{Kind: "lock", Keys: []string{k}, WaitMs: 100 + r.Intn(1500)})
			}
			w.Ops = append(w.Ops, Op{Kind: "set", Keys: []string{k}, Val: fmt.Sprintf("w%d.%s", id, k)})
		}
		sc.Txns = append(sc.Txns, w)
		id++
		at += 300 + r.Intn(1500)
	}
	// readers after the victim's Commit (and crash) and after the expiry of its commit-time locks
	if lateCommit {
		at += ttlMs + 3000
	} else if at < ttlMs+1000 {
		at = ttlMs + 1000
	}
	nr := 1 + r.Intn(2)
	for i := 0; i < nr; i++ {
		p := TxnProg{ID: id, Client: 1, DelayMs: at + r.Intn(2000), End: "commit"}
		p.Ops = append(p.Ops, Op{Kind: "bget", Keys: append([]string(nil), keys...)})
		if r.Intn(2) == 0 {
			p.Ops = append(p.Ops, Op{Kind: "iter"})
		}
		if r.Intn(2) == 0 {
			p.Ops = append(p.Ops, Op{Kind: "sleep", SleepMs: 1000 + r.Intn(20000)}, Op{Kind: "bget", Keys: append([]string(nil), keys...)})
		}
		sc.Txns = append(sc.Txns, p)
		id++
	}
	// a second surviving client that reads without ever having met the stale locks (control, and a second cache)
	if r.Intn(2) == 0 {
		p := TxnProg{ID: id, Client: 2, DelayMs: at + r.Intn(3000), End: "commit"}
		p.Ops = append(p.Ops, Op{Kind: "bget", Keys: append([]string(nil), keys...)}, Op{Kind: "iter"})
		sc.Txns = append(sc.Txns, p)
		id++
	}
	// the clean-up messages of the failed statement are lost (all of them, or only the first ones)
	switch r.Intn(4) {
	case 0:
		sc.Net.Plan["cmd:0:PessimisticRollback+0"] = simkit.DropReq
	case 1:
		sc.Net.Plan["cmd:0:PessimisticRollback+0"] = simkit.DropReqSlow
		sc.Net.Plan["cmd:0:PessimisticRollback+1"] = simkit.DropReq
	default:
		sc.Net.Persist["cmd:0:PessimisticRollback"] = simkit.DropReq
	}
	sc.Net.JitterUs = []int{0, 500, 3000}[r.Intn(3)]
	if r.Intn(3) == 0 {
		sc.Knobs.CommitBatchSize = 1
	}
	mark := "end0"
	switch {
	case pos < maxCrashPos:
		sc.Net.Plan[fmt.Sprintf("ord:0:%s+%d", mark, pos)] = simkit.CrashBefore
	case pos < 2*maxCrashPos:
		sc.Net.Plan[fmt.Sprintf("ord:0:%s+%d", mark, pos-maxCrashPos)] = simkit.CrashAfter
	default: // no crash: the committer finishes by itself, the stale locks stay
	}
	return sc
}

// genLockRetry: mode "lockretry" (C01). Retried lock statements whose clean-up arrives late: a pessimistic
// transaction locks several keys in one statement while another transaction holds one of them for a short while;
// the statement fails (no-wait / lock-wait time-out) after it locked the other keys, is repeated at once with a
// fresh for-update timestamp and succeeds; the asynchronous clean-up of the failed attempt is delayed (failpoint
// knob) and reaches the store after the retry. The locker then keeps the keys for a while; writers try to get in.
// Two thirds of the runs are free of message faults, so that the lock-exclusion rule applies.
func genLockRetry(cfg simkit.RunConfig, backend string) *Scenario {
	r := simkit.Rand(cfg.Seed, "gen")
	sc := &Scenario{Backend: backend, Victim: -1, Clients: 3}
	sc.Stores, sc.Splits = genLayout(r)
	if r.Intn(2) == 0 {
		sc.Splits = subset(r, []string{"b", "c", "d"}, 1, 3)
	}
	nk := 2 + r.Intn(3)
	keys := keyPool[:nk]
	id := 0
	nlock := 1 + r.Intn(2)
	for i := 0; i < nlock; i++ {
		a := TxnProg{ID: id, Client: i % 2, DelayMs: 5 + r.Intn(20), Pessimistic: true, End: "commit"}
		if backend == "R" {
			switch r.Intn(3) {
			case 1:
				a.Async = true
			case 2:
				a.OnePC = true
			}
		}
		lk := Op{Kind: "lock", Keys: subset(r, keys, 2, len(keys)), Retry: 1 + r.Intn(3), RetVals: r.Intn(2) == 0}
		if r.Intn(3) == 0 {
			r.Shuffle(len(lk.Keys), func(x, y int) { lk.Keys[x], lk.Keys[y] = lk.Keys[y], lk.Keys[x] })
		}
		if r.Intn(3) == 0 {
			lk.NoWait = true
		} else {
			lk.WaitMs = 5 + r.Intn(80)
		}
		a.Ops = append(a.Ops, lk, Op{Kind: "sleep", SleepMs: 100 + r.Intn(2500)})
		for j, k := range subset(r, lk.Keys, 1, len(lk.Keys)) {
			a.Ops = append(a.Ops, Op{Kind: pick(r, []string{"set", "set", "delete"}), Keys: []string{k}, Val: fmt.Sprintf("a%d.%d", id, j)})
		}
		if r.Intn(2) == 0 {
			a.Ops = append(a.Ops, Op{Kind: "sleep", SleepMs: 20 + r.Intn(400)})
		}
		if r.Intn(6) == 0 {
			a.End = "rollback"
		}
		for j := range a.Ops {
			if a.Ops[j].Kind == "delete" {
				a.Ops[j].Val = ""
			}
		}
		sc.Txns = append(sc.Txns, a)
		id++
	}
	// a retried fair-locking statement followed by an insert of a key it locked: the existence the first attempt
	// learned has to survive the retry (the insert is refused from what the client remembers, no request is sent)
	if r.Intn(3) == 0 {
		pre := TxnProg{ID: id, Client: 2, DelayMs: 0, End: "commit"}
		k := pick(r, keys)
		pre.Ops = append(pre.Ops, Op{Kind: "set", Keys: []string{k}, Val: fmt.Sprintf("pre%d", id)})
		sc.Txns = append(sc.Txns, pre)
		id++
		a := TxnProg{ID: id, Client: r.Intn(2), DelayMs: 40 + r.Intn(40), Pessimistic: true, End: "commit"}
		other := pick(r, keys)
		if r.Intn(4) != 0 {
			a.Ops = append(a.Ops, Op{Kind: "lock", Keys: []string{other}, WaitMs: 300}) // the primary exists before the stage
		}
		a.Ops = append(a.Ops, Op{Kind: "aggstart"},
			Op{Kind: "lock", Keys: []string{k}, WaitMs: 300, RetVals: r.Intn(2) == 0, CheckExist: true},
			Op{Kind: "aggretry"},
			Op{Kind: "lock", Keys: []string{k}, WaitMs: 300, RetVals: r.Intn(3) == 0, CheckExist: true},
			Op{Kind: "aggdone"},
			Op{Kind: "insert", Keys: []string{k}, Val: fmt.Sprintf("ins%d", id)},
			Op{Kind: "lock", Keys: []string{k}, WaitMs: 300})
		sc.Txns = append(sc.Txns, a)
		id++
	}
	// blockers: hold one key (not the first of the statement, most of the time) for a short while
	nb := 1 + r.Intn(2)
	for i := 0; i < nb; i++ {
		b := TxnProg{ID: id, Client: 2, DelayMs: r.Intn(12), Pessimistic: true, End: pick(r, []string{"rollback", "commit"})}
		k := keys[1+r.Intn(len(keys)-1)]
		if r.Intn(5) == 0 {
			k = keys[0]
		}
		b.Ops = append(b.Ops, Op{Kind: "lock", Keys: []string{k}, WaitMs: 200}, Op{Kind: "sleep", SleepMs: 10 + r.Intn(120)})
		if b.End == "commit" {
			b.Ops = append(b.Ops, Op{Kind: "set", Keys: []string{k}, Val: fmt.Sprintf("b%d", id)})
		}
		sc.Txns = append(sc.Txns, b)
		id++
	}
	// writers that try to get in while the lockers hold the keys
	nw := 1 + r.Intn(3)
	for i := 0; i < nw; i++ {
		c := TxnProg{ID: id, Client: 1 + r.Intn(2), DelayMs: 60 + r.Intn(2500), Pessimistic: r.Intn(2) == 0, End: "commit"}
		k := pick(r, keys)
		if c.Pessimistic {
			c.Ops = append(c.Ops, Op{Kind: "lock", Keys: []string{k}, WaitMs: 20 + r.Intn(300)})
		}
		c.Ops = append(c.Ops, Op{Kind: "set", Keys: []string{k}, Val: fmt.Sprintf("c%d", id)})
		if r.Intn(3) == 0 {
			c.Ops = append(c.Ops, Op{Kind: "get", Keys: []string{pick(r, keys)}})
		}
		sc.Txns = append(sc.Txns, c)
		id++
	}
	sc.Net.JitterUs = []int{0, 500, 3000}[r.Intn(3)]
	if r.Intn(3) == 0 {
		sc.Net.Random = true
		sc.Net.Rate = []float64{0.03, 0.1}[r.Intn(2)]
		sc.Net.Kinds = append([]simkit.Fate(nil), benignFaults...)
	}
	if r.Intn(3) == 0 {
		sc.Topo = append(sc.Topo, TopoEvent{AtMs: r.Intn(200), Kind: pick(r, []string{"split", "leader", "merge"}), Key: pick(r, keys)})
	}
	if r.Intn(3) == 0 {
		sc.Knobs.CommitBatchSize = 1
	}
	sc.Knobs.Delays = map[string]int{"beforeAsyncPessimisticRollback": 1}
	if r.Intn(4) == 0 {
		sc.Knobs.Delays = nil
	}
	sc.Knobs.GoDelayPm = []int{0, 300, 700}[r.Intn(3)]
	return sc
}

// genLatch: mode "latch" (C17 through the transactional client). Optimistic transactions of one or two stores that run
// with the local latch scheduler, few keys (their commits queue on the latches, some are refused as stale), no
// pessimistic locks; mostly without message faults. Judged: every Commit returns (no transaction stays blocked in the
// latch scheduler once the others have ended) - plus everything the C01 oracle says about such runs.
func genLatch(cfg simkit.RunConfig, backend string) *Scenario {
	r := simkit.Rand(cfg.Seed, "gen")
	sc := &Scenario{Backend: backend, Victim: -1}
	sc.Stores, sc.Splits = genLayout(r)
	sc.Clients = 1 + r.Intn(2)
	nk := 2 + r.Intn(3)
	keys := keyPool[:nk]
	n := 3 + r.Intn(5)
	o := genOpts{maxTxns: 8, pessRate: 0.08, backend: backend, boundedRiter: true}
	for i := 0; i < n; i++ {
		p := genTxn(r, i, sc.Clients, o, keys)
		if r.Intn(2) == 0 {
			// several keys in one commit: a transaction may get some of its latches and be refused on a later one
			for _, k := range subset(r, keys, 2, len(keys)) {
				p.Ops = append(p.Ops, Op{Kind: "set", Keys: []string{k}, Val: fmt.Sprintf("l%d.%s", i, k)})
			}
		}
		p.DelayMs = r.Intn(15)
		sc.Txns = append(sc.Txns, p)
	}
	sc.Net.JitterUs = []int{0, 500, 3000, 20000}[r.Intn(4)]
	if r.Intn(4) == 0 {
		sc.Net.Random = true
		sc.Net.Rate = []float64{0.03, 0.1}[r.Intn(2)]
		sc.Net.Kinds = append([]simkit.Fate(nil), regionOnlyFaults...)
	}
	if r.Intn(3) == 0 {
		sc.Topo = append(sc.Topo, TopoEvent{AtMs: r.Intn(100), Kind: pick(r, []string{"split", "leader", "merge"}), Key: pick(r, keys)})
	}
	sc.Knobs.Latches = []int{1, 2, 8, 256}[r.Intn(4)]
	sc.Knobs.GoDelayPm = genGoDelay(r)
	return sc
}
