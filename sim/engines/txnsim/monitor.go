package txnsim

import (
	"bytes"
	"fmt"
	"math"
	"sort"
	"time"

	"github.com/pingcap/kvproto/pkg/errorpb"
	"github.com/pingcap/kvproto/pkg/kvrpcpb"
	"github.com/tikv/client-go/v2/verifsim/simkit"
)

// monitor evaluates the Percolator ordering and timestamp rules of C04 over the
// recorded wire trace, the TSO issuance log and the transaction histories. It
// is a pure function of those records.
type monitor struct {
	trace []*simkit.RPCRecord
	tso   []simkit.TSRecord
	hist  []*TxnHist
	out   []simkit.Violation
	rules map[string]int // how often each rule was evaluated (reach)
}

func (m *monitor) fail(rule, sig, format string, args ...any) {
	m.out = append(m.out, simkit.Violation{Property: "C04", Class: rule, Sig: sig, Detail: fmt.Sprintf(format, args...)})
}

func (m *monitor) hit(rule string) { m.rules[rule]++ }

// respErrs extracts the region error and the key errors of a delivered response.
func respErrs(rec *simkit.RPCRecord) (*errorpb.Error, []*kvrpcpb.KeyError) {
	if rec.Resp == nil || rec.Resp.Resp == nil {
		return nil, nil
	}
	re, _ := rec.Resp.GetRegionError()
	var ke []*kvrpcpb.KeyError
	switch r := rec.Resp.Resp.(type) {
	case *kvrpcpb.PrewriteResponse:
		ke = r.Errors
	case *kvrpcpb.CommitResponse:
		if r.Error != nil {
			ke = []*kvrpcpb.KeyError{r.Error}
		}
	case *kvrpcpb.BatchRollbackResponse:
		if r.Error != nil {
			ke = []*kvrpcpb.KeyError{r.Error}
		}
	case *kvrpcpb.PessimisticLockResponse:
		ke = r.Errors
	case *kvrpcpb.CheckTxnStatusResponse:
		if r.Error != nil {
			ke = []*kvrpcpb.KeyError{r.Error}
		}
	case *kvrpcpb.ResolveLockResponse:
		if r.Error != nil {
			ke = []*kvrpcpb.KeyError{r.Error}
		}
	case *kvrpcpb.TxnHeartBeatResponse:
		if r.Error != nil {
			ke = []*kvrpcpb.KeyError{r.Error}
		}
	case *kvrpcpb.GetResponse:
		if r.Error != nil {
			ke = []*kvrpcpb.KeyError{r.Error}
		}
	case *kvrpcpb.BatchGetResponse:
		if r.Error != nil {
			ke = []*kvrpcpb.KeyError{r.Error}
		}
		for _, p := range r.Pairs {
			if p.Error != nil {
				ke = append(ke, p.Error)
			}
		}
	case *kvrpcpb.ScanResponse:
		if r.Error != nil {
			ke = []*kvrpcpb.KeyError{r.Error}
		}
		for _, p := range r.Pairs {
			if p.Error != nil {
				ke = append(ke, p.Error)
			}
		}
	case *kvrpcpb.CheckSecondaryLocksResponse:
		if r.Error != nil {
			ke = []*kvrpcpb.KeyError{r.Error}
		}
	case *kvrpcpb.ScanLockResponse:
		if r.Error != nil {
			ke = []*kvrpcpb.KeyError{r.Error}
		}
	}
	return re, ke
}

// succeeded: the caller received a response without region error and without key error.
func succeeded(rec *simkit.RPCRecord) bool {
	if !rec.Returned || rec.Resp == nil || rec.Resp.Resp == nil {
		return false
	}
	re, ke := respErrs(rec)
	return re == nil && len(ke) == 0
}

// definitelyNotApplied: the caller received an answer that proves the request had no effect.
func definitelyNotApplied(rec *simkit.RPCRecord) bool {
	if !rec.Returned {
		return false
	}
	re, ke := respErrs(rec)
	if re != nil {
		return re.UndeterminedResult == nil
	}
	return len(ke) > 0
}

type txnView struct {
	start      uint64
	client     int
	prewrites  []*simkit.RPCRecord
	commits    []*simkit.RPCRecord
	rollbacks  []*simkit.RPCRecord
	heartbeats []*simkit.RPCRecord
	primary    []byte
	primaries  []primaryAt
	async      bool
	onePC      bool
}

type primaryAt struct {
	seq uint64
	key []byte
	at  time.Duration // simulated instant of the request's submission
}

func physical(ts uint64) int64 { return int64(ts >> 18) }

func (m *monitor) run() {
	m.rules = map[string]int{}
	views := map[uint64]*txnView{}
	view := func(ts uint64, client int) *txnView {
		v := views[ts]
		if v == nil {
			v = &txnView{start: ts, client: client}
			views[ts] = v
		}
		return v
	}
	// what each client learned about other transactions, by response time
	type learned struct {
		seq      uint64
		commitTS uint64
	}
	known := map[int]map[uint64][]learned{}
	learn := func(c int, txn uint64, seq uint64, cts uint64) {
		if known[c] == nil {
			known[c] = map[uint64][]learned{}
		}
		known[c][txn] = append(known[c][txn], learned{seq, cts})
	}
	type lockSeen struct {
		seq uint64
		ttl uint64
		ts  uint64
	}
	sawLock := map[int]map[uint64][]lockSeen{}
	noteLock := func(c int, li *kvrpcpb.LockInfo, seq uint64) {
		if li == nil {
			return
		}
		if sawLock[c] == nil {
			sawLock[c] = map[uint64][]lockSeen{}
		}
		sawLock[c][li.LockVersion] = append(sawLock[c][li.LockVersion], lockSeen{seq, li.LockTtl, li.LockVersion})
	}
	scanLocked := map[int]map[uint64]uint64{} // client -> txn -> seq of the ScanLock answer naming it
	// primSeen: what a CheckTxnStatus answer told a client about the primary lock of an async-commit transaction
	type primSeen struct {
		seq    uint64
		ttl    uint64
		forced bool
	}
	primTTL := map[int]map[uint64][]primSeen{}
	// client -> txn -> every min_commit_ts an answer showed that client for an async-commit txn, with the stamp at
	// which the answer arrived; asyncGone: stamp of the first CheckSecondaryLocks answer that showed a secondary
	// without lock and without commit record (the store has then made sure the transaction never commits)
	type minSeen struct{ seq, ts uint64 }
	asyncMin := map[int]map[uint64][]minSeen{}
	asyncGone := map[int]map[uint64]uint64{}
	noteMin := func(client int, txn, seq, ts uint64) {
		if asyncMin[client] == nil {
			asyncMin[client] = map[uint64][]minSeen{}
		}
		asyncMin[client][txn] = append(asyncMin[client][txn], minSeen{seq, ts})
	}

	recs := append([]*simkit.RPCRecord(nil), m.trace...)
	sort.SliceStable(recs, func(i, j int) bool { return recs[i].SubmitSeq < recs[j].SubmitSeq })

	// pass 1: index what clients learn (keyed by the stamp at which the answer reached them)
	for _, r := range recs {
		if !r.Returned || r.Resp == nil || r.Resp.Resp == nil {
			continue
		}
		_, kes := respErrs(r)
		for _, ke := range kes {
			noteLock(r.Client, ke.Locked, r.DoneSeq)
		}
		switch resp := r.Resp.Resp.(type) {
		case *kvrpcpb.CheckTxnStatusResponse:
			req, okc := r.Req.Req.(*kvrpcpb.CheckTxnStatusRequest)
			if !okc {
				panic(fmt.Sprintf("record %d %s#%d type=%v fate=%q req=%T resp=%T", r.ID, r.Identity, r.Occ, r.Type, r.Fate, r.Req.Req, r.Resp.Resp))
			}
			if resp.Error == nil && resp.RegionError == nil {
				switch {
				case resp.CommitVersion != 0:
					learn(r.Client, req.LockTs, r.DoneSeq, resp.CommitVersion)
				case resp.LockTtl == 0:
					learn(r.Client, req.LockTs, r.DoneSeq, 0) // rolled back
				}
				if resp.LockInfo != nil {
					noteLock(r.Client, resp.LockInfo, r.DoneSeq)
					if resp.LockInfo.UseAsyncCommit {
						if primTTL[r.Client] == nil {
							primTTL[r.Client] = map[uint64][]primSeen{}
						}
						primTTL[r.Client][req.LockTs] = append(primTTL[r.Client][req.LockTs], primSeen{seq: r.DoneSeq, ttl: resp.LockTtl, forced: req.CurrentTs == math.MaxUint64})
						noteMin(r.Client, req.LockTs, r.DoneSeq, resp.LockInfo.MinCommitTs)
					}
				}
			}
		case *kvrpcpb.CheckSecondaryLocksResponse:
			req := r.Req.Req.(*kvrpcpb.CheckSecondaryLocksRequest)
			if resp.Error == nil && resp.RegionError == nil {
				if resp.CommitTs != 0 {
					learn(r.Client, req.StartVersion, r.DoneSeq, resp.CommitTs)
				}
				for _, l := range resp.Locks {
					noteMin(r.Client, req.StartVersion, r.DoneSeq, l.MinCommitTs)
				}
				if len(resp.Locks) < len(req.Keys) && resp.CommitTs == 0 {
					learn(r.Client, req.StartVersion, r.DoneSeq, 0) // a secondary is missing: rolled back
					if asyncGone[r.Client] == nil {
						asyncGone[r.Client] = map[uint64]uint64{}
					}
					if _, ok := asyncGone[r.Client][req.StartVersion]; !ok {
						asyncGone[r.Client][req.StartVersion] = r.DoneSeq
					}
				}
			}
		case *kvrpcpb.ScanLockResponse:
			for _, l := range resp.Locks {
				if scanLocked[r.Client] == nil {
					scanLocked[r.Client] = map[uint64]uint64{}
				}
				if _, ok := scanLocked[r.Client][l.LockVersion]; !ok {
					scanLocked[r.Client][l.LockVersion] = r.DoneSeq
				}
				noteLock(r.Client, l, r.DoneSeq)
			}
		}
	}
	// highest TSO value issued to each client up to a stamp
	tsoUpTo := func(client int, seq uint64) uint64 {
		var mx uint64
		for _, t := range m.tso {
			if t.Seq > seq {
				break
			}
			if t.Client == client && t.TS > mx {
				mx = t.TS
			}
		}
		return mx
	}

	// pass 2: per-request rules and per-transaction views
	for _, r := range recs {
		switch req := r.Req.Req.(type) {
		case *kvrpcpb.PrewriteRequest:
			v := view(req.StartVersion, r.Client)
			v.primaries = append(v.primaries, primaryAt{r.SubmitSeq, req.PrimaryLock, r.SubmitAt})
			v.prewrites = append(v.prewrites, r)
			if v.primary == nil {
				v.primary = req.PrimaryLock
			} else if !bytes.Equal(v.primary, req.PrimaryLock) {
				m.fail("R8-one-primary", fmt.Sprintf("txn%d", req.StartVersion), "prewrites of txn %d name different primaries %q and %q", req.StartVersion, v.primary, req.PrimaryLock)
			}
			m.hit("R8-one-primary")
			if req.UseAsyncCommit {
				v.async = true
			}
			if req.TryOnePc {
				v.onePC = true
			}
		case *kvrpcpb.CommitRequest:
			v := view(req.StartVersion, r.Client)
			v.commits = append(v.commits, r)
			m.hit("R7-commit-ts-gt-start")
			if req.CommitVersion <= req.StartVersion {
				m.fail("R7-commit-ts-gt-start", fmt.Sprintf("txn%d", req.StartVersion), "commit request of txn %d carries commit ts %d <= start ts", req.StartVersion, req.CommitVersion)
			}
		case *kvrpcpb.PessimisticLockRequest:
			v := view(req.StartVersion, r.Client)
			v.primaries = append(v.primaries, primaryAt{r.SubmitSeq, req.PrimaryLock, r.SubmitAt})
		case *kvrpcpb.BatchRollbackRequest:
			v := view(req.StartVersion, r.Client)
			v.rollbacks = append(v.rollbacks, r)
		case *kvrpcpb.TxnHeartBeatRequest:
			v := view(req.StartVersion, r.Client)
			v.heartbeats = append(v.heartbeats, r)
		case *kvrpcpb.ResolveLockRequest:
			// R4: the outcome applied to a lock is what the store reported to this client
			check := func(txn, cts uint64) {
				m.hit("R4-resolve-outcome")
				ok := false
				for _, l := range known[r.Client][txn] {
					if l.seq < r.SubmitSeq && l.commitTS == cts {
						ok = true
					}
				}
				if !ok && cts != 0 {
					// async commit: a commit ts derived from the min_commit_ts values the locks showed this client -
					// but never once a store had told it that a secondary is gone without a commit record
					if gone, isGone := asyncGone[r.Client][txn]; isGone && gone < r.SubmitSeq {
						m.fail("R4-resolve-outcome", fmt.Sprintf("c%d.txn%d", r.Client, txn), "client %d sent ResolveLock(txn %d, commit_version %d) at event %d although a CheckSecondaryLocks answer had shown it at event %d that a secondary of this async-commit transaction has neither lock nor commit record (the transaction is rolled back), and no store reported that commit ts (learned: %v)", r.Client, txn, cts, r.SubmitSeq, gone, known[r.Client][txn])
						return
					}
					for _, ms := range asyncMin[r.Client][txn] {
						if ms.seq < r.SubmitSeq && ms.ts == cts {
							ok = true
						}
					}
				}
				if !ok {
					m.fail("R4-resolve-outcome", fmt.Sprintf("c%d.txn%d", r.Client, txn), "client %d sent ResolveLock(txn %d, commit_version %d) at event %d but no status answer to that client reported this outcome before (learned: %v, async min-commit values seen: %v)", r.Client, txn, cts, r.SubmitSeq, known[r.Client][txn], asyncMin[r.Client][txn])
				}
			}
			if len(req.TxnInfos) > 0 {
				for _, ti := range req.TxnInfos {
					check(ti.Txn, ti.Status)
				}
			} else {
				check(req.StartVersion, req.CommitVersion)
			}
		case *kvrpcpb.CheckSecondaryLocksRequest:
			// R5 for async commit: asking the stores about the secondaries rolls back every secondary that has no lock
			// yet - it decides the transaction. A resolver may do it only once the PRIMARY's ttl, as the store reported
			// it to this resolver, has run out on the resolver's clock (GC's forced expiry excepted).
			var last *primSeen
			for i := range primTTL[r.Client][req.StartVersion] {
				if ps := &primTTL[r.Client][req.StartVersion][i]; ps.seq < r.SubmitSeq && (last == nil || ps.seq > last.seq) {
					last = ps
				}
			}
			if last != nil && !last.forced {
				m.hit("R5-check-secondaries-after-expiry")
				now := time0Millis + r.SubmitAt.Milliseconds()
				if now < physical(req.StartVersion)+int64(last.ttl) {
					m.fail("R5-check-secondaries-after-expiry", fmt.Sprintf("c%d.txn%d", r.Client, req.StartVersion), "client %d sent CheckSecondaryLocks for the async-commit txn %d at clock %d ms although the ttl %d ms the store had reported for its primary lock runs until %d ms: the transaction is alive, its outstanding prewrites get rolled back", r.Client, req.StartVersion, now, last.ttl, physical(req.StartVersion)+int64(last.ttl))
				}
			}
		case *kvrpcpb.CheckTxnStatusRequest:
			// R5: expiry is judged on the resolver's own clock
			m.hit("R5-current-ts")
			if req.CurrentTs == math.MaxUint64 {
				ok := false
				for _, ls := range sawLock[r.Client][req.LockTs] {
					if ls.seq < r.SubmitSeq && ls.ttl == 0 {
						ok = true
					}
				}
				if s, in := scanLocked[r.Client][req.LockTs]; in && s < r.SubmitSeq {
					ok = true
				}
				if !ok {
					m.fail("R5-current-ts-max", fmt.Sprintf("c%d.txn%d", r.Client, req.LockTs), "client %d asked CheckTxnStatus(txn %d) with current_ts=max (forced expiry) although it never saw that lock with ttl 0 nor in a GC lock scan", r.Client, req.LockTs)
				}
			} else {
				if mx := tsoUpTo(r.Client, r.SubmitSeq); req.CurrentTs > mx {
					m.fail("R5-current-ts", fmt.Sprintf("c%d.txn%d", r.Client, req.LockTs), "client %d asked CheckTxnStatus(txn %d) with current_ts %d above the greatest timestamp PD had issued to it (%d)", r.Client, req.LockTs, req.CurrentTs, mx)
				}
				if req.RollbackIfNotExist {
					m.hit("R5-rollback-if-not-exist")
					// only after the lock's ttl elapsed on that clock
					var ttl uint64 = math.MaxUint64
					for _, ls := range sawLock[r.Client][req.LockTs] {
						if ls.seq < r.SubmitSeq && ls.ttl < ttl {
							ttl = ls.ttl
						}
					}
					// the resolver's own clock = the simulated clock at the moment it decides (its oracle's
					// cached timestamp can only lag behind that)
					now := time0Millis + r.SubmitAt.Milliseconds()
					if ttl != math.MaxUint64 && now < physical(req.LockTs)+int64(ttl) {
						m.fail("R5-rollback-if-not-exist", fmt.Sprintf("c%d.txn%d", r.Client, req.LockTs), "client %d asked to roll back txn %d if not found at clock %d ms, before the lock's ttl %d ms elapsed since %d", r.Client, req.LockTs, now, ttl, physical(req.LockTs))
					}
				}
			}
		}
	}

	histByStart := map[uint64]*TxnHist{}
	for _, h := range m.hist {
		if h.StartTS != 0 {
			histByStart[h.StartTS] = h
		}
	}

	for _, ts := range sortedU64(views) {
		v := views[ts]
		h := histByStart[ts]
		sig := fmt.Sprintf("txn%d", ts)
		if h != nil {
			sig = fmt.Sprintf("txn#%d", h.Prog.ID)
		}
		// key -> stamp of the first successful prewrite answer covering it
		prewritten := map[string]uint64{}
		allKeys := map[string]bool{}
		var minCommits []uint64
		for _, p := range v.prewrites {
			req := p.Req.Req.(*kvrpcpb.PrewriteRequest)
			ok := succeeded(p)
			for _, mu := range req.Mutations {
				if mu.Op == kvrpcpb.Op_CheckNotExists {
					continue
				}
				allKeys[string(mu.Key)] = true
				if ok {
					if s, in := prewritten[string(mu.Key)]; !in || p.DoneSeq < s {
						prewritten[string(mu.Key)] = p.DoneSeq
					}
				}
			}
			if ok {
				if resp := p.Resp.Resp.(*kvrpcpb.PrewriteResponse); resp.MinCommitTs != 0 {
					minCommits = append(minCommits, resp.MinCommitTs)
				}
			}
		}
		// R1: nothing is committed before everything was prewritten
		for _, c := range v.commits {
			m.hit("R1-prewrite-before-commit")
			for k := range allKeys {
				s, ok := prewritten[k]
				if !ok || s > c.SubmitSeq {
					m.fail("R1-prewrite-before-commit", sig, "txn %d: a Commit request was issued at event %d before key %q was successfully prewritten (prewritten at: %v)", ts, c.SubmitSeq, k, prewritten)
					break
				}
			}
			creq := c.Req.Req.(*kvrpcpb.CommitRequest)
			for _, mc := range minCommits {
				if creq.CommitVersion < mc {
					m.fail("R7-commit-ts-ge-min-commit", sig, "txn %d: commit ts %d is below a min_commit_ts %d returned by its prewrite", ts, creq.CommitVersion, mc)
				}
			}
		}
		// R2: secondaries only after the primary commit succeeded (not for async commit)
		if !v.async {
			var primaryOK, primaryTS uint64
			for _, c := range v.commits {
				creq := c.Req.Req.(*kvrpcpb.CommitRequest)
				if containsKey(creq.Keys, v.primary) && succeeded(c) {
					if primaryOK == 0 || c.DoneSeq < primaryOK {
						primaryOK = c.DoneSeq
						primaryTS = creq.CommitVersion
					}
				}
			}
			for _, c := range v.commits {
				creq := c.Req.Req.(*kvrpcpb.CommitRequest)
				if containsKey(creq.Keys, v.primary) {
					continue
				}
				m.hit("R2-primary-first")
				if primaryOK != 0 && creq.CommitVersion != primaryTS {
					m.fail("R2-secondary-commit-ts", sig, "txn %d: a secondary Commit (keys %q) carries commit ts %d, the primary was committed at %d", ts, creq.Keys, creq.CommitVersion, primaryTS)
				}
				if primaryOK == 0 || primaryOK > c.SubmitSeq {
					m.fail("R2-primary-first", sig, "txn %d: a secondary Commit (keys %q) was issued at event %d before the primary %q commit had succeeded (primary ok at %d)", ts, creq.Keys, c.SubmitSeq, v.primary, primaryOK)
				}
			}
		}
		// R3: no rollback once the primary commit may have taken effect. A primary commit attempt
		// that was answered with success forbids any later rollback; an attempt whose outcome is
		// unknown (no answer, UndeterminedResult) forbids it until a LATER attempt is answered
		// with a key error (the store says the commit did not and cannot happen).
		for _, rb := range v.rollbacks {
			m.hit("R3-no-rollback-after-commit")
			var lastUnknown, lastDefinite uint64
			bad := ""
			for _, c := range v.commits {
				creq := c.Req.Req.(*kvrpcpb.CommitRequest)
				if !containsKey(creq.Keys, v.primary) || c.SubmitSeq > rb.SubmitSeq {
					continue
				}
				answered := c.Returned && c.DoneSeq < rb.SubmitSeq
				re, ke := respErrs(c)
				switch {
				case answered && re == nil && len(ke) == 0:
					bad = fmt.Sprintf("a primary Commit sent at event %d had succeeded", c.SubmitSeq)
				case answered && re == nil && len(ke) > 0:
					if c.SubmitSeq > lastDefinite {
						lastDefinite = c.SubmitSeq
					}
				case answered && re != nil && re.UndeterminedResult == nil:
					// not executed: says nothing about other attempts
				default:
					if c.SubmitSeq > lastUnknown {
						lastUnknown = c.SubmitSeq
					}
				}
			}
			if bad == "" && lastUnknown != 0 && lastDefinite < lastUnknown {
				bad = fmt.Sprintf("a primary Commit sent at event %d has an unknown outcome and no later attempt was refused by the store", lastUnknown)
			}
			if bad != "" {
				m.fail("R3-no-rollback-after-commit", sig, "txn %d: BatchRollback issued at event %d although %s", ts, rb.SubmitSeq, bad)
			}
		}
		// R6: heart-beats
		var lastTTL uint64
		after := 0
		hbSlow := false
		seenAdvise := map[uint64]bool{}
		for _, hb := range v.heartbeats {
			req := hb.Req.Req.(*kvrpcpb.TxnHeartBeatRequest)
			m.hit("R6-heartbeat")
			if hb.Fate != simkit.Deliver {
				hbSlow = true
			}
			first := !seenAdvise[req.AdviseLockTtl]
			seenAdvise[req.AdviseLockTtl] = true
			// the primary of a pessimistic transaction can change when its first lock call fails: judged
			// against every primary the transaction had named in a lock or prewrite request before this heart-beat
			named := false
			var seen []string
			for _, pr := range v.primaries {
				if pr.seq < hb.SubmitSeq {
					seen = append(seen, string(pr.key))
					if bytes.Equal(pr.key, req.PrimaryLock) {
						named = true
					}
				}
			}
			if len(seen) > 0 && !named {
				m.fail("R6-heartbeat-primary", sig, "txn %d: heart-beat names %q, the transaction's primaries so far were %q", ts, req.PrimaryLock, seen)
			}
			// ... and the CURRENT one: once a lock or prewrite request has named another primary (the first one was
			// un-assigned, or its lock call failed), the keep-alive of the old one must have ended. One tick may already
			// have been past its TSO fetch (a few milliseconds); anything later is a heart-beat for a key that is not the
			// transaction's primary any more - while the real primary gets none.
			if first && named {
				var newer *primaryAt
				for i := range v.primaries {
					pr := &v.primaries[i]
					if pr.seq < hb.SubmitSeq && !bytes.Equal(pr.key, req.PrimaryLock) {
						newer = pr
					} else if pr.seq < hb.SubmitSeq {
						newer = nil // named again later
					}
				}
				if newer != nil {
					m.hit("R6-heartbeat-stale-primary")
					if hb.SubmitAt-newer.at > 50*time.Millisecond {
						m.fail("R6-heartbeat-stale-primary", sig, "txn %d: heart-beat names %q %v after a request of the transaction had named the new primary %q", ts, req.PrimaryLock, hb.SubmitAt-newer.at, newer.key)
					}
				}
			}
			// judged on the first appearance of a value: a re-send after a time-out repeats the value of its
			// tick and may leave after the heart-beat of a later tick
			if first && req.AdviseLockTtl < lastTTL {
				m.fail("R6-heartbeat-ttl-decreases", sig, "txn %d: advised ttl went from %d to %d", ts, lastTTL, req.AdviseLockTtl)
			}
			if first {
				lastTTL = req.AdviseLockTtl
			}
			age := (time0Millis + hb.SubmitAt.Milliseconds()) - physical(ts)
			// judged when a tick's heart-beat is first sent (a re-send after a region error or a time-out
			// repeats the value computed at the tick)
			if first && int64(req.AdviseLockTtl) <= age {
				m.fail("R6-heartbeat-ttl-below-age", sig, "txn %d: advised ttl %d ms does not exceed the transaction's age %d ms", ts, req.AdviseLockTtl, age)
			}
			if first && h != nil && h.EndRet != 0 && hb.SubmitSeq > h.EndRet && !h.Cut {
				after++ // a new tick after the end (one may already have been past its TSO fetch)
			}
		}
		// The keep-alive loop picks between "closed" and "tick" with Go's select: when both are ready at the end of the
		// transaction one more tick may win. While every heart-beat is answered promptly that is at most one; a heart-beat
		// that hangs in a fault lets ticks pile up behind it, and each return of the loop may lose the coin again -
		// no bound can be stated then, and the rule is not applied (found by the thorough tier as an unstable result).
		if after > 1 && !hbSlow {
			m.fail("R6-heartbeat-after-end", sig, "txn %d: %d heart-beats were sent after Commit/Rollback had returned", ts, after)
		}
		// R7: commit ts exceeds every timestamp issued before Commit was called
		if h != nil && h.EndKind == "commit" && !h.Prog.Causal {
			var before uint64
			for _, t := range m.tso {
				if t.Seq < h.EndInv && t.TS > before {
					before = t.TS
				}
			}
			for _, c := range v.commits {
				creq := c.Req.Req.(*kvrpcpb.CommitRequest)
				m.hit("R7-commit-ts-gt-issued")
				if creq.CommitVersion <= before {
					m.fail("R7-commit-ts-gt-issued", sig, "txn %d: commit ts %d does not exceed %d, which the oracle had issued before Commit was called", ts, creq.CommitVersion, before)
				}
			}
			// the commit timestamps the store chooses (one-phase commit: in the prewrite answer; async commit: the
			// greatest min_commit_ts, reported by CommitTS()) are bound by the same sentence
			for _, p := range v.prewrites {
				if p.Resp == nil || p.Resp.Resp == nil || !p.Executed {
					continue
				}
				if pr, ok := p.Resp.Resp.(*kvrpcpb.PrewriteResponse); ok && pr.GetOnePcCommitTs() != 0 {
					m.hit("R7-commit-ts-gt-issued")
					if pr.GetOnePcCommitTs() <= before {
						m.fail("R7-commit-ts-gt-issued", sig, "txn %d: the one-phase commit ts %d does not exceed %d, which the oracle had issued before Commit was called (min_commit_ts of the request: %d)", ts, pr.GetOnePcCommitTs(), before, p.Req.Req.(*kvrpcpb.PrewriteRequest).MinCommitTs)
					}
				}
			}
			if h.CommitErr == "" && h.CommitTS != 0 && !h.Cut {
				m.hit("R7-commit-ts-gt-issued")
				if h.CommitTS <= before {
					m.fail("R7-commit-ts-gt-issued", sig, "txn %d: CommitTS() = %d does not exceed %d, which the oracle had issued before Commit was called", ts, h.CommitTS, before)
				}
			}
		}
		// R8: primary is one of the locked mutations; async secondaries; 1PC only with one request
		if len(v.prewrites) > 0 && v.primary != nil && len(allKeys) > 0 {
			if !allKeys[string(v.primary)] {
				m.fail("R8-primary-not-a-mutation", sig, "txn %d: primary %q is not among the locked mutations %v", ts, v.primary, keysOfSet(allKeys))
			}
			nreq := map[string]bool{}
			for _, p := range v.prewrites {
				req := p.Req.Req.(*kvrpcpb.PrewriteRequest)
				nreq[string(req.Mutations[0].Key)] = true
				if req.UseAsyncCommit && containsMutation(req.Mutations, v.primary) {
					m.hit("R8-async-secondaries")
					want := map[string]bool{}
					for k := range allKeys {
						if k != string(v.primary) {
							want[k] = true
						}
					}
					got := map[string]bool{}
					for _, s := range req.Secondaries {
						got[string(s)] = true
					}
					if !sameSet(want, got) {
						m.fail("R8-async-secondaries", sig, "txn %d: async-commit primary lists secondaries %v, the other locked keys are %v", ts, keysOfSet(got), keysOfSet(want))
					}
				}
			}
			if v.onePC {
				m.hit("R8-one-pc-single-request")
				regions := map[uint64]bool{}
				first := map[string]bool{}
				for _, p := range v.prewrites {
					req := p.Req.Req.(*kvrpcpb.PrewriteRequest)
					if req.TryOnePc {
						first[string(req.Mutations[0].Key)] = true
						regions[p.Req.Context.GetRegionId()] = true
					}
				}
				if len(first) > 1 {
					m.fail("R8-one-pc-single-request", sig, "txn %d: try_one_pc was set on prewrite requests for %d different batches", ts, len(first))
				}
			}
		}
		// R9: prewritten mutations = the buffer
		if h != nil && h.Buf != nil && !h.UsedAggressive {
			m.checkMutations(h, v, sig)
		}
	}
}

// time0Millis is the physical part of the simulated epoch (bubbles start at 2000-01-01T00:00:00Z).
const time0Millis = int64(946684800000)

func (m *monitor) checkMutations(h *TxnHist, v *txnView, sig string) {
	type exp struct {
		op  kvrpcpb.Op
		val string
	}
	want := map[string]exp{}
	for k, val := range h.Buf {
		switch {
		case val != nil && h.Inserted[k]:
			want[k] = exp{kvrpcpb.Op_Insert, *val}
		case val != nil:
			want[k] = exp{kvrpcpb.Op_Put, *val}
		case !h.Prog.Pessimistic && h.Inserted[k]:
			want[k] = exp{kvrpcpb.Op_CheckNotExists, ""}
		default:
			want[k] = exp{kvrpcpb.Op_Del, ""}
		}
	}
	for k := range h.Locked {
		if _, ok := want[k]; !ok {
			want[k] = exp{kvrpcpb.Op_Lock, ""}
		}
	}
	seen := map[string]bool{}
	for _, p := range v.prewrites {
		req := p.Req.Req.(*kvrpcpb.PrewriteRequest)
		for i, mu := range req.Mutations {
			k := string(mu.Key)
			seen[k] = true
			m.hit("R9-mutation-matches-buffer")
			e, ok := want[k]
			if !ok {
				m.fail("R9-unexpected-mutation", sig, "txn #%d prewrites key %q (%v) which is not in its buffer", h.Prog.ID, k, mu.Op)
				continue
			}
			if h.InsertUncertain[k] && e.op == kvrpcpb.Op_Put && mu.Op == kvrpcpb.Op_Insert {
				e.op = kvrpcpb.Op_Insert // the flag may legitimately survive a LockKeys call that failed before its request
			}
			if mu.Op != e.op || string(mu.Value) != e.val {
				m.fail("R9-wrong-mutation", sig, "txn #%d prewrites key %q as %v %q, its buffer implies %v %q", h.Prog.ID, k, mu.Op, mu.Value, e.op, e.val)
			}
			// the assertion the key's flags imply (none when the transaction has no assertion level)
			wantA := kvrpcpb.Assertion_None
			if h.Prog.AssertLevel != "" {
				switch h.Asserted[k] {
				case "exist":
					wantA = kvrpcpb.Assertion_Exist
				case "notexist":
					wantA = kvrpcpb.Assertion_NotExist
				}
			}
			if len(h.Asserted) > 0 {
				m.hit("R9-assertion")
			}
			if mu.Assertion != wantA {
				m.fail("R9-wrong-assertion", sig, "txn #%d prewrites key %q with assertion %v, its flags (level %q, flag %q) imply %v", h.Prog.ID, k, mu.Assertion, h.Prog.AssertLevel, h.Asserted[k], wantA)
			}
			if h.Prog.Pessimistic && len(req.PessimisticActions) == len(req.Mutations) {
				_, locked := h.Locked[k]
				act := req.PessimisticActions[i]
				if locked && act != kvrpcpb.PrewriteRequest_DO_PESSIMISTIC_CHECK {
					m.fail("R9-pessimistic-action", sig, "txn #%d: key %q is pessimistically locked but is prewritten with action %v", h.Prog.ID, k, act)
				}
				if !locked && act == kvrpcpb.PrewriteRequest_DO_PESSIMISTIC_CHECK {
					m.fail("R9-pessimistic-action", sig, "txn #%d: key %q was never locked but is prewritten with DO_PESSIMISTIC_CHECK", h.Prog.ID, k)
				}
			}
		}
	}
	// coverage: a transaction that issued a commit request prewrote every buffered mutation
	if len(v.commits) > 0 {
		for k := range want {
			if !seen[k] {
				m.fail("R9-missing-mutation", sig, "txn #%d issued Commit but never prewrote buffered key %q", h.Prog.ID, k)
			}
		}
	}
}

func containsKey(keys [][]byte, k []byte) bool {
	for _, x := range keys {
		if bytes.Equal(x, k) {
			return true
		}
	}
	return false
}

func containsMutation(ms []*kvrpcpb.Mutation, k []byte) bool {
	for _, x := range ms {
		if bytes.Equal(x.Key, k) {
			return true
		}
	}
	return false
}

func sameSet(a, b map[string]bool) bool {
	if len(a) != len(b) {
		return false
	}
	for k := range a {
		if !b[k] {
			return false
		}
	}
	return true
}

func keysOfSet(m map[string]bool) []string {
	ks := make([]string, 0, len(m))
	for k := range m {
		ks = append(ks, k)
	}
	sort.Strings(ks)
	return ks
}

func sortedU64[V any](m map[uint64]V) []uint64 {
	ks := make([]uint64, 0, len(m))
	for k := range m {
		ks = append(ks, k)
	}
	sort.Slice(ks, func(i, j int) bool { return ks[i] < ks[j] })
	return ks
}

// fmtRec renders one RPC record compactly for violation reports.
func fmtRec(r *simkit.RPCRecord) string {
	req := ""
	switch q := r.Req.Req.(type) {
	case *kvrpcpb.PrewriteRequest:
		ms := ""
		for i, m := range q.Mutations {
			act := ""
			if i < len(q.PessimisticActions) {
				act = fmt.Sprintf("/%d", q.PessimisticActions[i])
			}
			ms += fmt.Sprintf("%v:%q=%q%s ", m.Op, m.Key, m.Value, act)
		}
		req = fmt.Sprintf("primary=%q ttl=%d minCommit=%d forUpdate=%d async=%v 1pc=%v [%s]", q.PrimaryLock, q.LockTtl, q.MinCommitTs, q.ForUpdateTs, q.UseAsyncCommit, q.TryOnePc, ms)
	case *kvrpcpb.CommitRequest:
		req = fmt.Sprintf("keys=%q commit=%d", q.Keys, q.CommitVersion)
	case *kvrpcpb.BatchRollbackRequest:
		req = fmt.Sprintf("keys=%q", q.Keys)
	case *kvrpcpb.PessimisticLockRequest:
		ks := ""
		for _, m := range q.Mutations {
			ks += fmt.Sprintf("%q/%v ", m.Key, m.Assertion)
		}
		req = fmt.Sprintf("primary=%q forUpdate=%d ttl=%d wait=%d first=%v [%s]", q.PrimaryLock, q.ForUpdateTs, q.LockTtl, q.WaitTimeout, q.IsFirstLock, ks)
	case *kvrpcpb.PessimisticRollbackRequest:
		req = fmt.Sprintf("keys=%q forUpdate=%d", q.Keys, q.ForUpdateTs)
	case *kvrpcpb.CheckTxnStatusRequest:
		cur := fmt.Sprint(q.CurrentTs)
		if q.CurrentTs == math.MaxUint64 {
			cur = "max"
		}
		req = fmt.Sprintf("primary=%q caller=%d current=%s rollbackIfNotExist=%v resolvingPess=%v", q.PrimaryKey, q.CallerStartTs, cur, q.RollbackIfNotExist, q.ResolvingPessimisticLock)
	case *kvrpcpb.ResolveLockRequest:
		req = fmt.Sprintf("commit=%d keys=%q infos=%v", q.CommitVersion, q.Keys, q.TxnInfos)
	case *kvrpcpb.TxnHeartBeatRequest:
		req = fmt.Sprintf("primary=%q advise=%d", q.PrimaryLock, q.AdviseLockTtl)
	case *kvrpcpb.GetRequest:
		req = fmt.Sprintf("key=%q", q.Key)
	case *kvrpcpb.BatchGetRequest:
		req = fmt.Sprintf("keys=%q", q.Keys)
	case *kvrpcpb.ScanRequest:
		req = fmt.Sprintf("start=%q end=%q limit=%d rev=%v", q.StartKey, q.EndKey, q.Limit, q.Reverse)
	case *kvrpcpb.CleanupRequest:
		req = fmt.Sprintf("key=%q current=%d", q.Key, q.CurrentTs)
	}
	resp := ""
	if r.Resp != nil && r.Resp.Resp != nil {
		re, ke := respErrs(r)
		if re != nil {
			resp = "regionErr{" + re.String() + "}"
		}
		for _, k := range ke {
			s := k.String()
			if len(s) > 160 {
				s = s[:160]
			}
			resp += " keyErr{" + s + "}"
		}
		switch p := r.Resp.Resp.(type) {
		case *kvrpcpb.CheckTxnStatusResponse:
			resp += fmt.Sprintf(" ttl=%d commit=%d action=%v", p.LockTtl, p.CommitVersion, p.Action)
		case *kvrpcpb.PrewriteResponse:
			resp += fmt.Sprintf(" minCommit=%d onePC=%d", p.MinCommitTs, p.OnePcCommitTs)
		case *kvrpcpb.TxnHeartBeatResponse:
			resp += fmt.Sprintf(" ttl=%d", p.LockTtl)
		}
		if resp == "" {
			resp = "ok"
		}
	}
	ret := "returned"
	if !r.Returned {
		ret = fmt.Sprintf("caller-got-error(%v)", r.RetErr)
	}
	return fmt.Sprintf("[sub=%d exec=%d done=%d t=%dus] c%d %s v%d r%d %s fate=%q executed=%v -> %s ; %s", r.SubmitSeq, r.ExecSeq, r.DoneSeq, r.SubmitAt.Microseconds(), r.Client, r.Type, simkit.VersionOf(r.Req), r.Req.Context.GetRegionId(), req, r.Fate, r.Executed, resp, ret)
}
