package txnsim

import (
	"fmt"
	"sort"
	"strings"
	"time"

	"github.com/pingcap/kvproto/pkg/kvrpcpb"
	"github.com/tikv/client-go/v2/tikvrpc"
	"github.com/tikv/client-go/v2/verifsim/simkit"
)

type checker struct {
	prop  string
	truth simkit.Truth
	hist  []*TxnHist
	trace []*simkit.RPCRecord
	out   []simkit.Violation
	mock  bool // backend M: the repository's mock (a few documented differences from TiKV)
}

func (c *checker) fail(prop, class, sig, format string, args ...any) {
	c.out = append(c.out, simkit.Violation{Property: prop, Class: class, Sig: sig, Detail: fmt.Sprintf(format, args...)})
}

// outcome of a transaction in the ground truth.
type outcome struct {
	committed bool
	commitTS  uint64
	mixed     bool              // different commit timestamps or partial
	keys      map[string]uint64 // key -> commit ts of its data/lock record with start_ts == S
	rolled    map[string]bool   // key -> has rollback record
	locks     []string          // keys still locked by it
}

func outcomeOf(truth simkit.Truth, startTS uint64) outcome {
	o := outcome{keys: map[string]uint64{}, rolled: map[string]bool{}}
	for _, k := range simkit.SortedKeys(truth) {
		kt := truth[k]
		if kt.Lock != nil && kt.Lock.StartTS == startTS {
			o.locks = append(o.locks, k)
		}
		for _, w := range kt.Writes {
			if w.StartTS != startTS {
				continue
			}
			if w.Kind == kvrpcpb.Op_Rollback {
				o.rolled[k] = true
			} else {
				o.keys[k] = w.CommitTS
			}
		}
	}
	for _, ts := range o.keys {
		if !o.committed {
			o.committed = true
			o.commitTS = ts
		} else if ts != o.commitTS {
			o.mixed = true
		}
	}
	return o
}

// expectedValue is the value the transaction must see for key k: its own
// buffered write if any, else the snapshot truth at its start ts.
func expectedValue(truth simkit.Truth, own map[string]*string, k string, ts uint64) *string {
	if v, ok := own[k]; ok {
		return v
	}
	if v, ok := truth[k].ValueAt(ts); ok {
		s := string(v)
		return &s
	}
	return nil
}

func eqVal(a, b *string) bool {
	if a == nil || b == nil {
		return a == nil && b == nil
	}
	return *a == *b
}

// mutatedKeys returns the keys on which the transaction must leave a data record
// when it commits: final buffer entries that are a put, or a delete of a key that
// was not inserted by the transaction itself.
func mustWrite(h *TxnHist) map[string]*string {
	m := map[string]*string{}
	for k, v := range h.Buf {
		if v == nil && h.Inserted[k] {
			continue // insert-then-delete: existence check / lock only, no data record demanded
		}
		m[k] = v
	}
	return m
}

// checkC01 evaluates snapshot isolation, atomic outcome, acknowledgement
// truthfulness, insert semantics and external consistency over the recorded
// history against the final ground truth.
func (c *checker) checkC01() {
	P := "C01"
	type fin struct {
		h *TxnHist
		o outcome
	}
	var fins []fin
	for _, h := range c.hist {
		if h.StartTS == 0 {
			continue
		}
		o := outcomeOf(c.truth, h.StartTS)
		fins = append(fins, fin{h, o})
		id := h.Prog.ID
		// (a) atomic outcome
		if o.mixed {
			c.fail(P, "atomic-mixed-commit-ts", fmt.Sprintf("txn%d", id), "txn %d (start %d) has records with different commit ts: %v", id, h.StartTS, o.keys)
		}
		if len(o.locks) > 0 {
			c.fail(P, "lock-left-after-recovery", fmt.Sprintf("txn%d", id), "txn %d (start %d) still holds locks on %v after recovery", id, h.StartTS, o.locks)
		}
		if o.committed {
			for k, v := range mustWrite(h) {
				cts, ok := o.keys[k]
				if !ok {
					c.fail(P, "atomic-partial", fmt.Sprintf("txn%d", id), "txn %d (start %d) committed at %d but key %q has no record of it (records: %v)", id, h.StartTS, o.commitTS, k, o.keys)
					continue
				}
				got, present := valueOfRecord(c.truth[k], h.StartTS)
				if v == nil && present || v != nil && (!present || string(got) != *v) {
					c.fail(P, "wrong-committed-value", fmt.Sprintf("txn%d", id), "txn %d key %q committed at %d with value %q/present=%v, buffer had %s", id, k, cts, got, present, fmtVal(v))
				}
			}
			for k := range o.keys {
				if o.rolled[k] {
					c.fail(P, "committed-and-rolled-back", fmt.Sprintf("txn%d", id), "txn %d key %q has both a commit and a rollback record", id, k)
				}
			}
		}
		// (b) acknowledgement
		if h.EndKind == "commit" && !h.Cut {
			switch {
			case h.CommitErr == "":
				if len(mustWrite(h)) > 0 && !o.committed {
					c.fail(P, "ack-but-not-committed", fmt.Sprintf("txn%d", id), "txn %d (start %d): Commit returned nil but no key carries its record", id, h.StartTS)
				}
				if o.committed && h.CommitTS != o.commitTS {
					c.fail(P, "commit-ts-mismatch", fmt.Sprintf("txn%d", id), "txn %d: CommitTS()=%d but records carry %d", id, h.CommitTS, o.commitTS)
				}
			case h.CommitErr == "undetermined":
			default:
				if o.committed {
					c.fail(P, "error-but-committed", fmt.Sprintf("txn%d", id), "txn %d (start %d): Commit returned %q but it is committed at %d on %v", id, h.StartTS, h.CommitErr, o.commitTS, o.keys)
				}
			}
		}
		if h.EndKind == "rollback" && o.committed {
			c.fail(P, "rollback-but-committed", fmt.Sprintf("txn%d", id), "txn %d was rolled back by its owner but is committed", id)
		}
		// (c) reads (C01 for snapshot values; C07 for the overlay of own writes)
		for i, r := range h.Ops {
			if r.Err != "" {
				continue
			}
			switch r.Op.Kind {
			case "get", "bget":
				for _, k := range simkit.SortedKeys(r.Vals) {
					got := r.Vals[k]
					want := expectedValue(c.truth, r.Own, k, h.StartTS)
					if !eqVal(got, want) {
						p := P
						if _, own := r.Own[k]; own {
							p = "C07"
						}
						c.fail(p, "read-mismatch", fmt.Sprintf("txn%d.op%d", id, i), "txn %d (start %d) op %d %s(%q) = %s, expected %s (truth: %s)", id, h.StartTS, i, r.Op.Kind, k, fmtVal(got), fmtVal(want), describeKey(c.truth[k]))
					}
				}
			case "iter", "riter":
				want := expectedScan(c.truth, r.Own, r.Op, h.StartTS)
				if !eqPairs(r.Pairs, want) {
					sig := fmt.Sprintf("txn%d.op%d", id, i)
					if r.Op.Kind == "riter" && r.Op.Hi == "" {
						sig = "riter-unbounded-upper " + sig
					}
					c.fail(P, "scan-mismatch", sig, "txn %d (start %d) op %d %s[%q,%q) = %v, expected %v", id, h.StartTS, i, r.Op.Kind, r.Op.Lo, r.Op.Hi, r.Pairs, want)
				}
			case "lock":
				// (e) locking read returns the newest committed value at the lock's for-update ts
				for _, k := range simkit.SortedKeys(r.Vals) {
					if _, own := r.Own[k]; own {
						continue
					}
					got := r.Vals[k]
					var want *string
					if v, ok := c.truth[k].ValueAt(r.ForTS); ok {
						s := string(v)
						want = &s
					}
					if !eqVal(got, want) {
						c.fail(P, "locking-read-mismatch", fmt.Sprintf("txn%d.op%d", id, i), "txn %d op %d LockKeys(%q, for_update_ts=%d) returned %s, newest committed value is %s (truth: %s)", id, i, k, r.ForTS, fmtVal(got), fmtVal(want), describeKey(c.truth[k]))
					}
				}
			}
		}
		// (e') a lock call that asks for existence only answers what a read at its for-update ts would find
		for i, r := range h.Ops {
			if r.Op.Kind != "lock" || r.Err != "" || r.Exists == nil {
				continue
			}
			for _, k := range simkit.SortedKeys(r.Exists) {
				if _, own := r.Own[k]; own {
					continue
				}
				_, want := c.truth[k].ValueAt(r.ForTS)
				if r.Exists[k] != want {
					c.fail(P, "locking-read-mismatch", fmt.Sprintf("txn%d.op%d", id, i), "txn %d op %d LockKeys(%q, check existence, for_update_ts=%d) reported exists=%v, a read at that timestamp finds exists=%v (truth: %s)", id, i, k, r.ForTS, r.Exists[k], want, describeKey(c.truth[k]))
				}
			}
		}
		// (f) insert
		if o.committed {
			for k := range h.InsertChecked {
				if _, wrote := o.keys[k]; !wrote && h.Buf[k] != nil {
					continue
				}
				at, what := o.commitTS-1, "its commit point"
				if !h.Prog.Pessimistic && h.Buf[k] == nil {
					// optimistic insert-then-delete is a NON-locking existence check executed at
					// prewrite: the protocol guarantees absence in the transaction's snapshot only.
					at, what = h.StartTS, "its start ts"
				}
				if v, ok := c.truth[k].ValueAt(at); ok {
					c.fail(P, "insert-over-existing", fmt.Sprintf("txn%d", id), "txn %d committed at %d with an insert on %q although the key had value %q at %s (truth: %s)", id, o.commitTS, k, v, what, describeKey(c.truth[k]))
				}
			}
		}
	}
	// (d) write-write conflicts among committed transactions
	byStart := map[uint64]*TxnHist{}
	for _, h := range c.hist {
		if h.StartTS != 0 {
			byStart[h.StartTS] = h
		}
	}
	for i := range fins {
		a := fins[i]
		if !a.o.committed || a.o.mixed {
			continue
		}
		for k, cts := range a.o.keys {
			lo := a.h.StartTS
			locked := false
			if a.h.Prog.Pessimistic {
				if f, ok := a.h.Locked[k]; ok {
					lo = f
					locked = true
				} else {
					continue // unlocked write of a pessimistic transaction: conflict check is not part of the protocol
				}
			}
			_ = locked
			for _, w := range c.truth[k].Writes {
				if w.StartTS == a.h.StartTS || w.Kind == kvrpcpb.Op_Rollback || w.Kind == kvrpcpb.Op_Lock {
					continue
				}
				if b := byStart[w.StartTS]; b != nil && b.Prog.Pessimistic {
					if _, locked := b.Locked[k]; !locked {
						continue // the other writer is a pessimistic transaction that wrote k without locking it: no conflict check in the protocol
					}
				}
				if w.CommitTS > lo && w.CommitTS < cts {
					c.fail(P, "write-write-conflict", fmt.Sprintf("txn%d.%s", a.h.Prog.ID, k), "txn %d (start %d, conflict window (%d,%d]) and txn with start %d (commit %d) both committed writes on %q", a.h.Prog.ID, a.h.StartTS, lo, cts, w.StartTS, w.CommitTS, k)
				}
			}
		}
	}
	// (g) external consistency
	for _, a := range fins {
		if a.h.EndKind != "commit" || a.h.CommitErr != "" || a.h.Cut || !a.o.committed || a.h.Prog.Causal {
			continue
		}
		for _, b := range fins {
			if b.h == a.h || b.h.BeginInv <= a.h.EndRet {
				continue
			}
			if b.h.StartTS < a.o.commitTS {
				c.fail(P, "external-consistency", fmt.Sprintf("txn%d-txn%d", a.h.Prog.ID, b.h.Prog.ID), "txn %d commit (ts %d) was acknowledged at event %d before txn %d began at event %d, but its start ts %d is below the commit ts", a.h.Prog.ID, a.o.commitTS, a.h.EndRet, b.h.Prog.ID, b.h.BeginInv, b.h.StartTS)
			}
		}
	}
}

func valueOfRecord(kt *simkit.KeyTruth, startTS uint64) ([]byte, bool) {
	for _, w := range kt.Writes {
		if w.StartTS == startTS {
			if w.Kind == kvrpcpb.Op_Put {
				return w.Value, true
			}
			return nil, false
		}
	}
	return nil, false
}

func describeKey(kt *simkit.KeyTruth) string {
	if kt == nil {
		return "<none>"
	}
	s := ""
	if kt.Lock != nil {
		s += fmt.Sprintf("lock{start=%d %v} ", kt.Lock.StartTS, kt.Lock.Kind)
	}
	for _, w := range kt.Writes {
		s += fmt.Sprintf("[%v start=%d commit=%d %q] ", w.Kind, w.StartTS, w.CommitTS, w.Value)
	}
	return s
}

// expectedScan computes the model result of a bounded scan over truth ⊕ own writes.
func expectedScan(truth simkit.Truth, own map[string]*string, op Op, ts uint64) [][2]string {
	keys := map[string]bool{}
	for k := range truth {
		keys[k] = true
	}
	for k := range own {
		keys[k] = true
	}
	var ks []string
	for k := range keys {
		if op.Lo != "" && k < op.Lo {
			continue
		}
		if op.Hi != "" && k >= op.Hi {
			continue
		}
		ks = append(ks, k)
	}
	sort.Strings(ks)
	if op.Kind == "riter" {
		for i, j := 0, len(ks)-1; i < j; i, j = i+1, j-1 {
			ks[i], ks[j] = ks[j], ks[i]
		}
	}
	out := [][2]string{}
	for _, k := range ks {
		v := expectedValue(truth, own, k, ts)
		if v != nil {
			out = append(out, [2]string{k, *v})
		}
	}
	return out
}

func eqPairs(a, b [][2]string) bool {
	if len(a) != len(b) {
		return false
	}
	for i := range a {
		if a[i] != b[i] {
			return false
		}
	}
	return true
}

// checkCommitWait (C13): "a commit timestamp obtained under a commit-wait constraint is strictly greater than the
// constraint or the call fails" - judged on the commit timestamps transactions really got (2PC: fetched from PD;
// async commit / 1PC: calculated by the store from the min_commit_ts the client sent), also from the store's records.
func (c *checker) checkCommitWait() {
	for _, h := range c.hist {
		if h.CommitWaitTSO == 0 || h.EndKind != "commit" {
			continue
		}
		id := h.Prog.ID
		if h.CommitErr == "" && h.CommitTS != 0 && h.CommitTS <= h.CommitWaitTSO {
			c.fail("C13", "commit-wait-violated", fmt.Sprintf("txn%d", id), "txn %d (%s, causal=%v): Commit succeeded with commit ts %d, which is not above its commit-wait constraint %d", id, modeName(h.Prog), h.Prog.Causal, h.CommitTS, h.CommitWaitTSO)
		}
		for k, kt := range c.truth {
			for _, w := range kt.Writes {
				if w.StartTS == h.StartTS && w.Kind != kvrpcpb.Op_Rollback && w.CommitTS <= h.CommitWaitTSO {
					c.fail("C13", "commit-wait-violated", fmt.Sprintf("txn%d", id), "txn %d (%s, causal=%v): key %q carries its commit record at %d, which is not above its commit-wait constraint %d", id, modeName(h.Prog), h.Prog.Causal, k, w.CommitTS, h.CommitWaitTSO)
				}
			}
		}
	}
}

// checkC03: 'undetermined' is returned only when a request that could have moved
// the commit point was sent and its outcome could not be learned.
func (c *checker) checkC03() {
	for _, h := range c.hist {
		if h.EndKind != "commit" || h.CommitErr != "undetermined" || h.Cut {
			continue
		}
		cause := ""
		for _, r := range c.trace {
			if simkit.VersionOf(r.Req) != h.StartTS || r.Client != h.Prog.Client {
				continue
			}
			commitPoint := false
			switch req := r.Req.Req.(type) {
			case *kvrpcpb.CommitRequest:
				commitPoint = true // 2PC: the primary's commit (any commit request before the primary is known to be committed)
				_ = req
			case *kvrpcpb.PrewriteRequest:
				commitPoint = req.UseAsyncCommit || req.TryOnePc
			}
			if !commitPoint {
				continue
			}
			if !r.Returned {
				cause = fmt.Sprintf("%s#%d: %v (fate %q)", r.Identity, r.Occ, r.RetErr, r.Fate)
				break
			}
			if re, _ := respErrs(r); re != nil && re.UndeterminedResult != nil {
				cause = fmt.Sprintf("%s#%d: UndeterminedResult region error", r.Identity, r.Occ)
				break
			}
		}
		if cause == "" {
			c.fail("C03", "undetermined-without-cause", fmt.Sprintf("txn%d", h.Prog.ID), "txn %d: Commit returned 'result undetermined' but every commit-point request of it was answered definitely", h.Prog.ID)
		}
	}
}

// checkC05: every snapshot read through every path equals the MVCC truth at its timestamp.
func (c *checker) checkC05(reads []SnapRead, maxTTL time.Duration) {
	for i, rd := range reads {
		sig := fmt.Sprintf("read%d.%s", i, rd.Path)
		if rd.Path == "riter" && rd.Hi == "" {
			sig = "riter-unbounded-upper " + sig
		}
		if rd.Err != "" {
			continue
		}
		// liveness: without faults a read ends within the lock ttl plus the resolver's back-off budget
		if !rd.Faulty && rd.Took > maxTTL+60*time.Second {
			c.fail("C05", "read-too-slow", sig, "snapshot read %s at ts %d took %v of simulated time (ttl %v) without any injected fault", rd.Path, rd.TS, rd.Took, maxTTL)
		}
		switch rd.Path {
		case "get", "bget":
			for _, k := range simkit.SortedKeys(rd.Vals) {
				var want *string
				if v, ok := c.truth[k].ValueAt(rd.TS); ok {
					s := string(v)
					want = &s
				}
				got := rd.Vals[k]
				if rd.KeyOnly && got != nil && want != nil {
					continue // key-only applies to scans; point reads still carry values, but do not insist
				}
				if !eqVal(got, want) {
					c.fail("C05", "snapshot-read-mismatch", sig, "%s phase: snapshot(ts=%d).%s(%q) = %s (warm=%v), MVCC truth is %s (%s)", rd.Phase, rd.TS, rd.Path, k, fmtVal(got), rd.Warm, fmtVal(want), describeKey(c.truth[k]))
				}
			}
		case "iter", "riter":
			op := Op{Kind: rd.Path, Lo: rd.Lo, Hi: rd.Hi}
			want := expectedScan(c.truth, nil, op, rd.TS)
			got := rd.Pairs
			if rd.KeyOnly {
				want = keysOnly(want)
				got = keysOnly(got)
			}
			if !eqPairs(got, want) {
				c.fail("C05", "snapshot-scan-mismatch", sig, "%s phase: snapshot(ts=%d).%s[%q,%q) batch=%d keyOnly=%v = %v, MVCC truth is %v", rd.Phase, rd.TS, rd.Path, rd.Lo, rd.Hi, rd.Batch, rd.KeyOnly, got, want)
			}
		}
	}
}

func keysOnly(ps [][2]string) [][2]string {
	out := make([][2]string, len(ps))
	for i, p := range ps {
		out[i] = [2]string{p[0], ""}
	}
	return out
}

// checkC14 audits the GC phase: range-task coverage, no old lock left, safe-point visibility, delete-range.
func (c *checker) checkC14(plan *GCPlan, rep *GCReport) {
	P := "C14"
	// range task: consecutive, non-overlapping sub-ranges that exactly cover [lo,hi)
	if plan.RangeLo == plan.RangeHi && plan.RangeLo != "" {
		// empty range: nothing to demand
	} else if rep.FailedAt >= 0 {
		if rep.RangeErr == "" {
			c.fail(P, "range-task-error-swallowed", "rangetask", "the handler failed on its call #%d (sub-range %q) but RunOnRange returned nil", rep.FailedAt, rep.Ranges[rep.FailedAt])
		}
	} else if rep.RangeErr == "" {
		rs := append([][2]string(nil), rep.Ranges...)
		sort.Slice(rs, func(i, j int) bool { return rs[i][0] < rs[j][0] })
		cur := plan.RangeLo
		ok := true
		why := ""
		for i, r := range rs {
			if r[0] != cur {
				ok, why = false, fmt.Sprintf("sub-range %d starts at %q, expected %q (gap or overlap)", i, r[0], cur)
				break
			}
			if r[1] == "" && i != len(rs)-1 {
				ok, why = false, fmt.Sprintf("sub-range %d is unbounded but is not the last", i)
				break
			}
			if r[1] != "" && r[1] <= r[0] {
				ok, why = false, fmt.Sprintf("sub-range %d [%q,%q) is empty or reversed", i, r[0], r[1])
				break
			}
			cur = r[1]
		}
		if ok && cur != plan.RangeHi {
			ok, why = false, fmt.Sprintf("coverage ends at %q, requested end is %q", cur, plan.RangeHi)
		}
		if ok && len(rs) == 0 {
			ok, why = false, "no sub-range was handed to the handler"
		}
		if !ok {
			c.fail(P, "range-task-coverage", "rangetask", "RunOnRange([%q,%q)) handed sub-ranges %q: %s", plan.RangeLo, plan.RangeHi, rs, why)
		}
	}
	if rep.GCErr == "" && len(rep.LocksAfter) > 0 {
		c.fail(P, "gc-left-old-lock", "gc", "GC to safe point %d (scan limit %d, concurrency %d) reported success but locks at or below the safe point remain: %v", rep.SafePoint, plan.ScanLimit, plan.Concurrency, rep.LocksAfter)
	}
	if rep.GCErr == "" && rep.SafePoint > 1 {
		// served, or failed for another reason although no fault was injected (a read that an injected fault made fail
		// was not served either)
		if rep.BelowErr != "aborted-by-gc" && (rep.BelowErr == "" || !rep.BelowFaulty) {
			c.fail(P, "read-below-safe-point-served", "safepoint", "a snapshot read at ts %d below the cached transaction safe point %d returned %q instead of the aborted-by-GC error", rep.SafePoint-1, rep.SafePoint, rep.BelowErr)
		}
		for i, r := range rep.BelowSeq {
			if strings.HasSuffix(r, "=served") {
				c.fail(P, "read-below-safe-point-served", "safepoint-repeated", "read #%d of the sequence %v on one snapshot / transaction at ts %d, below the cached transaction safe point %d, was not refused with the aborted-by-GC error", i+1, rep.BelowSeq, rep.SafePoint-1, rep.SafePoint)
				break
			}
		}
		if rep.AtErr == "aborted-by-gc" || strings.Contains(rep.AtErr, "GC") {
			c.fail(P, "read-at-safe-point-refused", "safepoint", "a snapshot read at the safe point %d was refused: %s", rep.SafePoint, rep.AtErr)
		}
	}
	if rep.GCErr == "" && rep.MovedChecked {
		if rep.MovedErr != "aborted-by-gc" && (rep.MovedErr == "" || !rep.MovedFaulty) {
			c.fail(P, "read-below-learned-safe-point-served", "safepoint-moved-"+rep.MovedKind, "a snapshot %s at ts %d returned %q although the store had learned the safe point %d before the last response of that read arrived (expected the aborted-by-GC error)", rep.MovedKind, rep.SafePoint, rep.MovedErr, rep.SafePoint+16)
		}
	}
	if rep.DelDone && rep.DelErr == "" {
		for k, before := range rep.TruthBefore {
			after := rep.TruthAfter[k]
			in := (plan.DelLo == "" || k >= plan.DelLo) && (plan.DelHi == "" || k < plan.DelHi)
			if in && (len(after.Writes) > 0 || after.Lock != nil) {
				c.fail(P, "delete-range-left-key", "deleterange", "DeleteRangeTask([%q,%q)) left key %q: %s", plan.DelLo, plan.DelHi, k, describeKey(after))
			}
			if !in && describeKey(before) != describeKey(after) {
				c.fail(P, "delete-range-touched-outside", "deleterange", "DeleteRangeTask([%q,%q)) changed key %q outside the range: before %s after %s", plan.DelLo, plan.DelHi, k, describeKey(before), describeKey(after))
			}
		}
	}
}

// checkLockExclusion: "a locking read in a pessimistic transaction returns the newest committed value and nothing else
// commits on that key until the locker ends". Judged only in runs without any lost, failed or delayed-by-fault message
// and without a crash (a live client keeps its locks alive; only then is a successfully acquired lock certain to be
// held from the return of LockKeys to the begin of the ending call): no other transaction's commit may be applied
// on the key inside that interval. Transactions that used aggressive locking stages are not judged (their locks are
// released and re-acquired by design).
func (c *checker) checkLockExclusion() {
	for _, r := range c.trace {
		if r.Fate != simkit.Deliver && r.Fate != simkit.TopoSplit && r.Fate != simkit.TopoSplitAfter && r.Fate != simkit.TopoMergeAfter && r.Fate != simkit.TopoLeader {
			// a lost clean-up message of a failed lock statement only leaves locks behind, it takes none away
			if r.Type == tikvrpc.CmdPessimisticRollback && (r.Fate == simkit.DropReq || r.Fate == simkit.DropReqSlow) {
				continue
			}
			return
		}
	}
	// (start ts, key) -> stamp at which a request that commits the key for that transaction was executed successfully
	applied := map[string]uint64{}
	note := func(start uint64, key []byte, at uint64) {
		k := fmt.Sprintf("%d/%s", start, key)
		if old, ok := applied[k]; !ok || at < old {
			applied[k] = at
		}
	}
	// a resolver that commits the transaction may commit any of its keys (by key list, by region, by batch): the
	// earliest such request counts for every key of the transaction
	resolved := map[uint64]uint64{}
	noteAll := func(start, at uint64) {
		if old, ok := resolved[start]; !ok || at < old {
			resolved[start] = at
		}
	}
	for _, r := range c.trace {
		if !r.Executed || r.Resp == nil || r.Resp.Resp == nil {
			continue
		}
		if re, _ := r.Resp.GetRegionError(); re != nil {
			continue
		}
		switch q := r.Req.Req.(type) {
		case *kvrpcpb.ResolveLockRequest:
			if q.CommitVersion > 0 {
				noteAll(q.StartVersion, r.ExecSeq)
			}
			for _, ti := range q.TxnInfos {
				if ti.Status > 0 {
					noteAll(ti.Txn, r.ExecSeq)
				}
			}
		case *kvrpcpb.CommitRequest:
			if rp, ok := r.Resp.Resp.(*kvrpcpb.CommitResponse); ok && rp.GetError() == nil {
				for _, k := range q.Keys {
					note(q.StartVersion, k, r.ExecSeq)
				}
			}
		case *kvrpcpb.PrewriteRequest:
			if rp, ok := r.Resp.Resp.(*kvrpcpb.PrewriteResponse); ok && len(rp.GetErrors()) == 0 && rp.GetOnePcCommitTs() != 0 {
				for _, m := range q.Mutations {
					note(q.StartVersion, m.Key, r.ExecSeq)
				}
			}
		}
	}
	for _, a := range c.hist {
		if !a.Prog.Pessimistic || a.UsedAggressive || a.Cut || a.StartTS == 0 || a.EndInv == 0 {
			continue
		}
		for k, f := range a.Locked {
			from, ok := a.LockedAt[k]
			if !ok {
				continue
			}
			for _, w := range c.truth[k].Writes {
				if w.StartTS == a.StartTS || (w.Kind != kvrpcpb.Op_Put && w.Kind != kvrpcpb.Op_Del) {
					continue
				}
				at, ok := applied[fmt.Sprintf("%d/%s", w.StartTS, k)]
				if rs, ok2 := resolved[w.StartTS]; ok2 && (!ok || rs < at) {
					at, ok = rs, true
				}
				if ok && at > from && at < a.EndInv {
					c.fail("C01", "lock-exclusion", fmt.Sprintf("txn%d.%s", a.Prog.ID, k), "txn %d (start %d) held a pessimistic lock on %q (LockKeys with for_update_ts %d returned at event %d, the transaction ended from event %d on), but the transaction with start %d committed %q at %d inside that interval (its commit was applied at event %d); no message was lost and no client died in this run", a.Prog.ID, a.StartTS, k, f, from, a.EndInv, w.StartTS, k, w.CommitTS, at)
				}
			}
		}
	}
}
