// Package txnsim simulates whole transactional workloads of client-go: several
// KVStore clients, their background goroutines, a simulated PD/TSO and a
// simulated TiKV cluster, under a seeded schedule with fault injection.
package txnsim

import (
	"fmt"
	"math/rand"
	"sort"

	"github.com/tikv/client-go/v2/kv"
	"github.com/tikv/client-go/v2/verifsim/simkit"
)

// Op is one step of a transaction program.
type Op struct {
	Kind string   `json:"k"`              // get bget iter riter set insert delete lock sleep stage release discard
	Keys []string `json:"keys,omitempty"` // get/set/delete/insert: Keys[0]; bget/lock: all
	Val  string   `json:"v,omitempty"`
	Lo   string   `json:"lo,omitempty"` // iter: start / riter: lower bound
	Hi   string   `json:"hi,omitempty"` // iter: upper bound / riter: start (exclusive upper)
	// lock options
	NoWait     bool `json:"nowait,omitempty"`
	WaitMs     int  `json:"waitms,omitempty"`
	RetVals    bool `json:"retvals,omitempty"`
	CheckExist bool `json:"checkexist,omitempty"`
	OnlyIfEx   bool `json:"onlyifexists,omitempty"`
	SleepMs    int  `json:"sleepms,omitempty"`
	// Retry: a failed lock statement is repeated up to this many times, each time with a fresh for-update
	// timestamp (what an SQL layer does after a lock conflict), unless the client died
	Retry int `json:"retry,omitempty"`
}

// TxnProg is the program of one transaction, run by its own actor goroutine.
type TxnProg struct {
	ID          int    `json:"id"`
	Client      int    `json:"client"`
	DelayMs     int    `json:"delay_ms"`
	Pessimistic bool   `json:"pess,omitempty"`
	Async       bool   `json:"async,omitempty"`
	OnePC       bool   `json:"onepc,omitempty"`
	Causal      bool   `json:"causal,omitempty"`
	Ops         []Op   `json:"ops"`
	End         string `json:"end"`                 // commit | rollback
	CancelMs    int    `json:"cancel_ms,omitempty"` // the context passed to Commit is cancelled this long after the call (0: never)
	// CommitWait: "lag" - the transaction must not commit below a timestamp an hour ahead of PD and may not wait for
	// it (Commit fails with the commit-ts-lag error; on the async-commit / 1PC path before anything was prewritten);
	// "near" - a constraint a few milliseconds ahead, which Commit waits for
	CommitWait string `json:"commit_wait,omitempty"`
	// AssertLevel ("" | fast | strict) and Asserts (key -> exist | notexist | unknown): the assertion level of the
	// transaction and the assertion flags put on buffered keys right before Commit (what an SQL layer derives from
	// what it read). An assertion that does not hold makes Commit fail with a definite error, nothing else.
	// Replica: replica-read type of the transaction's own snapshot (see ReadPlan.Replica)
	Replica     string            `json:"replica,omitempty"`
	AssertLevel string            `json:"assert_level,omitempty"`
	Asserts     map[string]string `json:"asserts,omitempty"`
}

// TopoEvent is a scheduled topology change.
type TopoEvent struct {
	AtMs int    `json:"at_ms"`
	Kind string `json:"kind"` // split | merge | leader
	Key  string `json:"key"`
}

// Knobs are per-run tunables of the code under test (never mirrored by oracles).
type Knobs struct {
	CommitBatchSize int  `json:"commit_batch_size,omitempty"` // twoPCRequestBatchSizeLimit failpoint (bytes→keys)
	ManagedTTLMs    int  `json:"managed_ttl_ms,omitempty"`
	ScanBatch       int  `json:"scan_batch,omitempty"`
	ResolveLite     int  `json:"resolve_lite,omitempty"`
	LongTTL         bool `json:"long_ttl,omitempty"` // no lock expires during the run (C06)
	// Delays: failpoint sites of the library that sleep in simulated time when reached ("buggify": a background
	// goroutine that starts late, a slow step between two requests); see delaySites. The number is the sleep in ms
	// where the site takes one.
	Delays map[string]int `json:"delays,omitempty"`
	// GoDelayPm (per mille): how often a background goroutine of a transaction (clean-up after a failed commit,
	// commit of the secondaries, asynchronous pessimistic rollback, asynchronous lock resolution; yield points
	// "go.*" of the verif hook) starts late, by 50 us .. 3 s of simulated time drawn from the run's seed
	GoDelayPm int `json:"go_delay_pm,omitempty"`
	// Latches > 0: every store runs with the local latch scheduler of that many slots (optimistic transactions of one
	// store serialise their commits on it and are refused as stale when a newer commit passed)
	Latches int `json:"latches,omitempty"`
	// InnerSplits: a split attached to a request cuts its region at a key strictly INSIDE it where one exists (the keys
	// of one request end up on both sides), not at the request's first key
	InnerSplits bool `json:"inner_splits,omitempty"`
	// AsyncBatchGet: config.EnableAsyncBatchGet (batch gets go through the asynchronous sender and its own retry code)
	AsyncBatchGet bool `json:"async_batch_get,omitempty"`
	// RespLevelLockEvery (reference backend): every n-th BatchGet that meets a lock reports it in the response-level
	// error field without any pairs
	RespLevelLockEvery int `json:"resp_level_lock_every,omitempty"`
	// FallbackEvery (reference backend): every n-th async-commit / 1PC prewrite request is refused that mode by the
	// store (min_commit_ts 0), the transaction falls back to 2PC
	FallbackEvery int `json:"fallback_every,omitempty"`
}

// delaySites: failpoints of the library whose handler sleeps OUTSIDE the failpoint package (a `sleep(n)` term sleeps
// while holding the failpoint's mutex: a second goroutine reaching the same site then blocks on a mutex, which a
// synctest bubble cannot wait for). beforeAsyncPessimisticRollback=return("delay"): the asynchronous pessimistic
// rollback goroutine sleeps 0-2 s (global math/rand, seeded per run) before it sends anything;
// getTxnStatusDelay=return: the resolver sleeps 100 ms before it asks for a transaction's status;
// prewriteSecondarySleep=return(n): every secondary prewrite batch sleeps n ms before it is sent.
var delaySites = []string{"beforeAsyncPessimisticRollback", "getTxnStatusDelay", "prewriteSecondarySleep"}

// genGoDelay draws how often background goroutines start late in a run (half of the runs: never).
func genGoDelay(r *rand.Rand) int {
	return []int{0, 0, 0, 100, 300, 700}[r.Intn(6)]
}

// genDelays draws the delay sites of a run (most runs have none).
func genDelays(r *rand.Rand) map[string]int {
	if r.Intn(3) != 0 {
		return nil
	}
	d := map[string]int{}
	for i, n := 0, 1+r.Intn(2); i < n; i++ {
		d[pick(r, delaySites)] = []int{2, 20, 200, 1500}[r.Intn(4)]
	}
	if r.Intn(2) == 0 {
		d["beforeAsyncPessimisticRollback"] = 1
	}
	return d
}

// NetCfg configures the simulated network.
type NetCfg struct {
	Random    bool                   `json:"random,omitempty"`
	Rate      float64                `json:"rate,omitempty"`
	Kinds     []simkit.Fate          `json:"kinds,omitempty"`
	Plan      map[string]simkit.Fate `json:"plan,omitempty"`
	JitterUs  int                    `json:"jitter_us"`
	OnlyTypes []string               `json:"only_types,omitempty"`
	// Persist: from the given RPC position of a client's marked phase on, EVERY request of that client gets the fate
	// (a store that keeps answering RegionNotFound, a partition that does not heal): back-off budgets get exhausted.
	Persist map[string]simkit.Fate `json:"persist,omitempty"`
}

// Scenario is the explicit, replayable description of one run.
type Scenario struct {
	// Seed, when not zero, replaces the run's seed (mode directed: a kept scenario runs with the seed it was found with)
	Seed     uint64      `json:"seed,omitempty"`
	Backend  string      `json:"backend"` // M (repo mocktikv) | R (reference store)
	Stores   int         `json:"stores"`
	Splits   []string    `json:"splits"`
	Clients  int         `json:"clients"`
	Knobs    Knobs       `json:"knobs"`
	Txns     []TxnProg   `json:"txns"`
	Topo     []TopoEvent `json:"topo,omitempty"`
	Net      NetCfg      `json:"net"`
	Victim   int         `json:"victim"`            // txn id whose client is crashed by a plan entry (-1 none)
	Readers  int         `json:"readers,omitempty"` // extra snapshot readers (C05)
	DryRun   bool        `json:"-"`
	Keyspace bool        `json:"keyspace,omitempty"`
	Reads    *ReadPlan   `json:"reads,omitempty"`
	GC       *GCPlan     `json:"gc,omitempty"`
	Keys     []string    `json:"keys,omitempty"` // key pool of the run when it is not the default one
}

// GCPlan drives the C14 phase: range-task coverage, GC lock resolution, safe-point
// visibility and the delete-range task.
type GCPlan struct {
	Seed        int64  `json:"seed"`
	Concurrency int    `json:"concurrency"`
	ScanLimit   int    `json:"scan_limit"` // 0: KVStore.GC (built-in limit); >0: ResolveLocksForRange with this limit
	RegionsPer  int    `json:"regions_per_task"`
	RangeLo     string `json:"range_lo"`
	RangeHi     string `json:"range_hi"`
	FailAt      int    `json:"fail_at"` // range task: the n-th handler call fails (-1: none)
	// CancelInCall (with FailAt >= 0): the failure of that call is the caller's context being cancelled while the
	// handler runs - the handler returns the context's error
	CancelInCall bool   `json:"cancel_in_call,omitempty"`
	DelLo        string `json:"del_lo"`
	DelHi        string `json:"del_hi"`
	DeleteRange  bool   `json:"delete_range"`
}

// ReadPlan drives the snapshot readers of C05: the concrete reads are drawn at run
// time from Seed, because the interesting snapshot timestamps (commit / start
// timestamps of the writers, +-1) only exist then.
type ReadPlan struct {
	Seed      int64 `json:"seed"`
	Early     int   `json:"early"` // reads racing the writers
	Late      int   `json:"late"`  // reads after the writers ended (locks of crashed writers still there)
	Final     int   `json:"final"` // reads after recovery
	Batch     int   `json:"batch"` // scan batch size
	KeyOnly   bool  `json:"key_only,omitempty"`
	Unbounded bool  `json:"unbounded_reverse,omitempty"` // include reverse scans from the end of the key space (known finding F1)
	// Replica ("" | follower | mixed | learner | prefer-leader): the replica-read type of the reader's snapshots;
	// Stale: they are staleness-read-only snapshots. The reference backend then serves flagged reads on followers and
	// answers every NotReadyEvery-th stale read with DataIsNotReady; the repository's mock bounces them to the leader.
	Replica       string `json:"replica,omitempty"`
	Stale         bool   `json:"stale,omitempty"`
	NotReadyEvery int    `json:"not_ready_every,omitempty"`
}

var keyPool = []string{"a", "b", "c", "d", "e", "f"}

func pick[T any](r *rand.Rand, xs []T) T { return xs[r.Intn(len(xs))] }

func subset(r *rand.Rand, xs []string, min, max int) []string {
	n := min
	if max > min {
		n += r.Intn(max - min + 1)
	}
	if n > len(xs) {
		n = len(xs)
	}
	p := r.Perm(len(xs))[:n]
	sort.Ints(p)
	out := make([]string, n)
	for i, j := range p {
		out[i] = xs[j]
	}
	return out
}

type genOpts struct {
	maxTxns      int
	pessRate     float64
	faults       bool
	topo         bool
	backend      string
	asyncRate    float64
	onePCRate    float64
	lockRate     float64
	readOnlyPct  float64
	boundedRiter bool     // never generate a reverse scan without upper bound (known finding F1)
	bounds       []string // extra scan bound candidates (besides the keys themselves)
	staging      bool     // generate staging / release / cleanup / checkpoint / revert steps (C07)
	maxOps       int
}

// genTxn generates one transaction program over the key pool.
func genTxn(r *rand.Rand, id int, clients int, o genOpts, keys []string) TxnProg {
	p := TxnProg{ID: id, Client: r.Intn(clients), DelayMs: r.Intn(30)}
	p.Pessimistic = r.Float64() < o.pessRate
	if o.backend == "R" {
		ar, or := o.asyncRate, o.onePCRate
		if ar == 0 && or == 0 {
			ar, or = 0.4, 0.3
		}
		p.Async = r.Float64() < ar
		p.OnePC = r.Float64() < or
	}
	nops := 1 + r.Intn(7)
	if o.maxOps > 0 {
		nops = 3 + r.Intn(o.maxOps-2)
	}
	written := map[string]bool{}
	depth := 0
	hasCP := false
	cpDepth := 0
	for i := 0; i < nops; i++ {
		var op Op
		x := r.Float64()
		if o.staging && r.Float64() < 0.22 {
			// savepoint steps; while a savepoint is open only plain sets/deletes and reads are generated
			switch {
			case depth > 0 && r.Intn(2) == 0:
				p.Ops = append(p.Ops, Op{Kind: pick(r, []string{"release", "cleanup", "cleanup"})})
				if hasCP && cpDepth == depth {
					hasCP = false // the checkpoint belonged to the level that just ended
				}
				depth--
			case !hasCP && r.Intn(3) == 0:
				// also inside an open staging level
				p.Ops = append(p.Ops, Op{Kind: "checkpoint"})
				hasCP, cpDepth = true, depth
			case hasCP && cpDepth == depth && r.Intn(2) == 0:
				p.Ops = append(p.Ops, Op{Kind: "revert"})
				hasCP = r.Intn(2) == 0 // the same checkpoint may be reverted to again
			case depth < 3 && !(hasCP && cpDepth == depth && r.Intn(2) == 0):
				p.Ops = append(p.Ops, Op{Kind: "stage"})
				depth++
			}
			continue
		}
		if depth > 0 || hasCP {
			if x >= 0.70 && x < 0.78 {
				x = 0.5 // insert -> set
			}
			if x >= 0.94 {
				x = 0.1 // lock -> get
			}
		}
		switch {
		case x < 0.22:
			op = Op{Kind: "get", Keys: []string{pick(r, keys)}}
		case x < 0.30:
			op = Op{Kind: "bget", Keys: subset(r, keys, 1, 4)}
			if r.Intn(4) == 0 {
				// a key listed twice
				op.Keys = append(op.Keys, pick(r, op.Keys))
			}
		case x < 0.37:
			bk := append(append([]string(nil), keys...), o.bounds...)
			op = Op{Kind: "iter"}
			if r.Intn(2) == 0 {
				op.Lo = pick(r, bk)
			}
			if r.Intn(2) == 0 {
				op.Hi = pick(r, bk)
				if op.Lo != "" && op.Hi < op.Lo {
					op.Lo, op.Hi = op.Hi, op.Lo
				}
			}
		case x < 0.42:
			bk := append(append([]string(nil), keys...), o.bounds...)
			op = Op{Kind: "riter"}
			if r.Intn(2) == 0 || o.boundedRiter {
				op.Hi = pick(r, bk)
			}
			if r.Intn(2) == 0 {
				op.Lo = pick(r, bk)
				if op.Hi != "" && op.Hi < op.Lo {
					op.Lo, op.Hi = op.Hi, op.Lo
				}
				if op.Hi == op.Lo {
					// an empty reverse range whose lower bound is a region's end key makes the mock
					// panic in its RPC-level check although TiKV accepts it: not a client matter.
					op.Lo = ""
				}
			}
		case x < 0.70:
			k := pick(r, keys)
			op = Op{Kind: "set", Keys: []string{k}, Val: fmt.Sprintf("t%d.%d", id, i)}
			written[k] = true
		case x < 0.78:
			k := pick(r, keys)
			op = Op{Kind: "insert", Keys: []string{k}, Val: fmt.Sprintf("t%d.%d", id, i)}
			written[k] = true
		case x < 0.88:
			k := pick(r, keys)
			op = Op{Kind: "delete", Keys: []string{k}}
			written[k] = true
		case x < 0.94:
			op = Op{Kind: "sleep", SleepMs: 1 + r.Intn(40)}
		default:
			if p.Pessimistic {
				op = Op{Kind: "lock", Keys: subset(r, keys, 1, 3), RetVals: r.Intn(2) == 0}
				switch r.Intn(4) {
				case 0:
					op.NoWait = true
				case 1:
					op.WaitMs = 50 + r.Intn(500)
				}
				if len(op.Keys) > 1 && (op.NoWait || op.WaitMs > 0) && r.Intn(3) == 0 {
					// the statement is retried at once with the same keys (what an SQL layer does after a lock
					// conflict): the clean-up of a failed first attempt races the second attempt
					p.Ops = append(p.Ops, op)
				}
			} else {
				op = Op{Kind: "get", Keys: []string{pick(r, keys)}}
			}
		}
		// pessimistic transactions lock what they write, most of the time: before the
		// write, or (inserts) after it, so that the lock request carries the existence check.
		if depth == 0 && !hasCP && p.Pessimistic && (op.Kind == "set" || op.Kind == "delete" || op.Kind == "insert") && r.Float64() < 0.92 {
			lk := Op{Kind: "lock", Keys: []string{op.Keys[0]}, RetVals: r.Intn(3) == 0}
			if r.Intn(6) == 0 {
				lk.WaitMs = 100 + r.Intn(400)
			}
			if op.Kind == "insert" {
				p.Ops = append(p.Ops, op, lk)
				continue
			}
			p.Ops = append(p.Ops, lk)
		}
		p.Ops = append(p.Ops, op)
	}
	_ = cpDepth
	if o.staging && depth == 0 && !hasCP && r.Intn(3) == 0 {
		// a directed savepoint pattern: write, take a savepoint (staging level and/or checkpoint, possibly a
		// checkpoint INSIDE an open level), overwrite the same key, undo, read back through every path
		k := pick(r, keys)
		v := func() string { nops++; return fmt.Sprintf("t%d.%02d", id, nops) } // one width: overwrites keep the length
		inLevel := r.Intn(2) == 0
		if inLevel {
			p.Ops = append(p.Ops, Op{Kind: "stage"})
		}
		p.Ops = append(p.Ops, Op{Kind: "set", Keys: []string{k}, Val: v()})
		useCP := r.Intn(3) != 0
		if useCP {
			p.Ops = append(p.Ops, Op{Kind: "checkpoint"})
		} else {
			p.Ops = append(p.Ops, Op{Kind: "stage"})
		}
		p.Ops = append(p.Ops, pick(r, []Op{{Kind: "set", Keys: []string{k}, Val: v()}, {Kind: "delete", Keys: []string{k}}, {Kind: "set", Keys: []string{k}, Val: v()}}))
		if r.Intn(2) == 0 {
			p.Ops = append(p.Ops, Op{Kind: "set", Keys: []string{pick(r, keys)}, Val: v()})
		}
		if useCP {
			p.Ops = append(p.Ops, Op{Kind: "revert"})
			if r.Intn(2) == 0 {
				// overwrite again (same length) and revert to the SAME checkpoint a second time
				p.Ops = append(p.Ops, Op{Kind: "set", Keys: []string{k}, Val: v()})
				if r.Intn(2) == 0 {
					p.Ops = append(p.Ops, Op{Kind: "get", Keys: []string{k}})
				}
				p.Ops = append(p.Ops, Op{Kind: "revert"})
			}
		} else {
			p.Ops = append(p.Ops, Op{Kind: pick(r, []string{"cleanup", "cleanup", "release"})})
		}
		p.Ops = append(p.Ops, Op{Kind: "get", Keys: []string{k}}, Op{Kind: pick(r, []string{"iter", "bget", "riter"}), Keys: append([]string(nil), keys...), Hi: "g"})
		if inLevel {
			p.Ops = append(p.Ops, Op{Kind: pick(r, []string{"release", "cleanup"})}, Op{Kind: "get", Keys: []string{k}})
		}
	}
	for ; depth > 0; depth-- {
		p.Ops = append(p.Ops, Op{Kind: pick(r, []string{"release", "cleanup"})})
	}
	p.End = "commit"
	if r.Float64() < 0.12 {
		p.End = "rollback"
	}
	return p
}

// addAsserts decorates a generated scenario (own random stream: the scenarios of a seed stay what they were): in a
// third of the runs, most committing transactions get an assertion level and assertion flags on some of the keys they
// write - true or false ones, the generator cannot know.
func addAsserts(seed uint64, sc *Scenario) {
	r := simkit.Rand(seed, "asserts")
	if r.Intn(3) != 0 {
		return
	}
	for i := range sc.Txns {
		p := &sc.Txns[i]
		if p.End != "commit" || r.Intn(10) < 3 {
			continue
		}
		p.AssertLevel = pick(r, []string{"fast", "strict", "strict"})
		if r.Intn(8) == 0 {
			p.AssertLevel = "" // flags without a level: nothing may travel
		}
		seen := map[string]bool{}
		for _, op := range p.Ops {
			if op.Kind != "set" && op.Kind != "insert" && op.Kind != "delete" {
				continue
			}
			k := op.Keys[0]
			if seen[k] || r.Intn(10) < 3 {
				continue
			}
			seen[k] = true
			if p.Asserts == nil {
				p.Asserts = map[string]string{}
			}
			p.Asserts[k] = pick(r, []string{"exist", "exist", "notexist", "notexist", "unknown"})
		}
	}
}

var replicaKinds = []string{"follower", "mixed", "learner", "prefer-leader", "follower", "mixed"}

// addReplicaReads decorates a generated scenario (own random stream): in a third of the runs the snapshot readers and
// about half of the transactions read through a replica-read type, some readers with staleness-read-only snapshots.
func addReplicaReads(seed uint64, sc *Scenario) {
	r := simkit.Rand(seed, "replica-reads")
	if r.Intn(3) != 0 {
		return
	}
	if sc.Reads != nil {
		if r.Intn(4) != 0 {
			sc.Reads.Replica = pick(r, replicaKinds)
		}
		if r.Intn(3) == 0 {
			sc.Reads.Stale = true
			sc.Reads.NotReadyEvery = []int{0, 2, 3, 7}[r.Intn(4)]
		}
	}
	for i := range sc.Txns {
		if r.Intn(2) == 0 {
			sc.Txns[i].Replica = pick(r, replicaKinds)
		}
	}
}

func replicaType(kind string) (kv.ReplicaReadType, bool) {
	switch kind {
	case "follower":
		return kv.ReplicaReadFollower, true
	case "mixed":
		return kv.ReplicaReadMixed, true
	case "learner":
		return kv.ReplicaReadLearner, true
	case "prefer-leader":
		return kv.ReplicaReadPreferLeader, true
	}
	return kv.ReplicaReadLeader, false
}

func genLayout(r *rand.Rand) (stores int, splits []string) {
	stores = 1 + r.Intn(3)
	nsplit := r.Intn(4)
	cands := []string{"b", "c", "d", "e", "f", "c\x00", "a"}
	seen := map[string]bool{}
	for i := 0; i < nsplit; i++ {
		k := pick(r, cands)
		if !seen[k] {
			seen[k] = true
			splits = append(splits, k)
		}
	}
	sort.Strings(splits)
	return
}

// No transport-level duplicate: on the real stack (gRPC over one TCP stream) a request is never executed twice
// unless the client re-sends it - and then the client knows. What does happen, a first copy that executes after
// its retry, is covered by the slow-drop and stall fates (the caller sees its time-out, re-sends, the stalled
// copy arrives later). A duplicate the sender does not know about made a 1PC prewrite commit behind the back of
// a client that had just been told "key is locked" - a history no deployment can produce.
var benignFaults = []simkit.Fate{
	simkit.DropReq, simkit.DropResp, simkit.DropReqSlow, simkit.DropRespSlow, simkit.Delay,
	simkit.RENotLeader, simkit.RENotLeaderHint, simkit.REEpochNotMatch, simkit.REServerIsBusy, simkit.REStaleCommand,
	simkit.RERegionNotFound, simkit.TopoSplit, simkit.TopoLeader, simkit.TopoSplitAfter,
}

var regionOnlyFaults = []simkit.Fate{
	simkit.RENotLeader, simkit.RENotLeaderHint, simkit.REEpochNotMatch, simkit.REServerIsBusy, simkit.REStaleCommand,
	simkit.RERegionNotFound, simkit.TopoSplit, simkit.TopoLeader, simkit.TopoSplitAfter, simkit.Delay,
}

// rareFaults: answers a store gives rarely - refusals that the sender retries after a back-off or a reload (none has an
// effect on the store), one that it must NOT take for a refusal (exec-undetermined), and two definite refusals.
var rareFaults = []simkit.Fate{
	simkit.REMaxTSNotSynced, simkit.REDiskFull, simkit.RERecoveryInProgress, simkit.REIsWitness, simkit.RERegionNotInitialized,
	simkit.REKeyNotInRegion, simkit.REMismatchPeerID, simkit.REReadIndexNotReady, simkit.REProposalInMerging, simkit.REServerIsBusyHint,
	simkit.REStoreNotMatch, simkit.ExecUndetermined, simkit.ExecUndetermined, simkit.REFlashbackInProgress, simkit.RERaftTooLarge,
}

// addReadKnobs (own random stream): asynchronous batch gets in a third of the runs, response-level lock errors in half.
func addReadKnobs(seed uint64, sc *Scenario) {
	r := simkit.Rand(seed, "read-knobs")
	sc.Knobs.AsyncBatchGet = r.Intn(3) == 0
	if r.Intn(2) == 0 {
		sc.Knobs.RespLevelLockEvery = 1 + r.Intn(3)
	}
}

// addFallbacks (own random stream): in a third of the runs the store refuses async commit / 1PC now and then.
func addFallbacks(seed uint64, sc *Scenario) {
	r := simkit.Rand(seed, "fallbacks")
	if sc.Backend == "R" && r.Intn(3) == 0 {
		sc.Knobs.FallbackEvery = 1 + r.Intn(3)
	}
}

// addOnlyIfExists (own random stream): in a third of the runs, about half of the pessimistic transactions that do not use
// fair locking turn single-key lock steps - the first one above all - into "lock only if the key exists" (with return
// values, which that mode requires): a miss locks nothing and un-assigns a primary the call had just assigned.
func addOnlyIfExists(seed uint64, sc *Scenario) {
	r := simkit.Rand(seed, "only-if-exists")
	if r.Intn(3) != 0 {
		return
	}
	for i := range sc.Txns {
		p := &sc.Txns[i]
		if !p.Pessimistic || r.Intn(2) == 0 {
			continue
		}
		agg := false
		for _, op := range p.Ops {
			if len(op.Kind) > 3 && op.Kind[:3] == "agg" {
				agg = true
			}
		}
		if agg {
			continue
		}
		first := true
		for j := range p.Ops {
			op := &p.Ops[j]
			if op.Kind != "lock" {
				continue
			}
			if len(op.Keys) == 1 && op.Retry == 0 && (first || r.Intn(4) == 0) {
				op.OnlyIfEx, op.RetVals, op.CheckExist = true, true, false
			}
			first = false
		}
	}
}

// addRareFaults (own random stream): a third of the runs with random faults also draw from the rare answers.
func addRareFaults(seed uint64, sc *Scenario) {
	if !sc.Net.Random || len(sc.Net.OnlyTypes) > 0 {
		return
	}
	r := simkit.Rand(seed, "rare-faults")
	if r.Intn(3) != 0 {
		return
	}
	for _, f := range rareFaults {
		if r.Intn(4) == 0 {
			sc.Net.Kinds = append(sc.Net.Kinds, f)
		}
	}
}

// genWorkload generates the C01-style mixed workload.
func genWorkload(cfg simkit.RunConfig, o genOpts) *Scenario {
	r := simkit.Rand(cfg.Seed, "gen")
	sc := &Scenario{Backend: o.backend, Victim: -1}
	sc.Stores, sc.Splits = genLayout(r)
	sc.Clients = 1 + r.Intn(3)
	nk := 2 + r.Intn(len(keyPool)-1)
	keys := keyPool[:nk]
	n := 2 + r.Intn(o.maxTxns-1)
	for i := 0; i < n; i++ {
		sc.Txns = append(sc.Txns, genTxn(r, i, sc.Clients, o, keys))
	}
	sc.Net.JitterUs = []int{0, 500, 3000, 20000}[r.Intn(4)]
	if o.faults && r.Intn(4) != 0 {
		sc.Net.Random = true
		sc.Net.Rate = []float64{0.02, 0.05, 0.1, 0.2}[r.Intn(4)]
		// swarm: a random subset of fault kinds per run
		for _, f := range benignFaults {
			if r.Intn(2) == 0 {
				sc.Net.Kinds = append(sc.Net.Kinds, f)
			}
		}
	}
	if o.topo {
		ne := r.Intn(4)
		for i := 0; i < ne; i++ {
			sc.Topo = append(sc.Topo, TopoEvent{AtMs: r.Intn(120), Kind: pick(r, []string{"split", "leader", "merge"}), Key: pick(r, []string{"a", "b", "c", "d", "e", "f", "b\x00"})})
		}
	}
	switch r.Intn(4) {
	case 0:
		sc.Knobs.CommitBatchSize = 1 + r.Intn(3)
	}
	if r.Intn(3) == 0 {
		sc.Knobs.ManagedTTLMs = 200 + r.Intn(3000)
	}
	if r.Intn(2) == 0 {
		sc.Knobs.ScanBatch = 2 + r.Intn(4)
	}
	sc.Knobs.Delays = genDelays(r)
	sc.Knobs.GoDelayPm = genGoDelay(r)
	return sc
}
