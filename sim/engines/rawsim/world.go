package rawsim

import (
	"bytes"
	"context"
	"fmt"
	"reflect"
	"sort"
	"strings"
	"sync"
	"time"

	"github.com/pingcap/kvproto/pkg/kvrpcpb"
	"github.com/pingcap/kvproto/pkg/metapb"
	"github.com/pkg/errors"
	"github.com/tikv/client-go/v2/internal/locate"
	"github.com/tikv/client-go/v2/internal/mockstore/mocktikv"
	"github.com/tikv/client-go/v2/rawkv"
	"github.com/tikv/client-go/v2/tikv"
	"github.com/tikv/client-go/v2/tikvrpc"
	"github.com/tikv/client-go/v2/verifsim/simkit"
	pd "github.com/tikv/pd/client"
	"github.com/tikv/pd/client/opt"
	"github.com/tikv/pd/client/pkg/caller"
)

// The mock computes checksums over this column family only (rpc.go, handleKvRawChecksum),
// and the repository's own checksum test runs every call with it; so does every client here.
const cfName = "CF_DEFAULT"

// ---------------------------------------------------------------------------------------------
// topology helper for raw-mode clusters (region borders are unencoded keys)

type rawTopo struct {
	c       *mocktikv.Cluster
	sim     *simkit.Sim
	h       *simkit.Hasher
	n       int
	changes []uint64 // stamps of the changes
}

func (t *rawTopo) regionOf(key []byte) (start, end []byte, id uint64, ok bool) {
	r, _, _, _ := t.c.GetRegionByKey(key)
	if r == nil {
		return nil, nil, 0, false
	}
	return r.StartKey, r.EndKey, r.Id, true
}

// splitExact splits the region containing key at key.
func (t *rawTopo) splitExact(key []byte) bool {
	if len(key) == 0 {
		return false
	}
	region, leader, _, _ := t.c.GetRegionByKey(key)
	if region == nil || bytes.Equal(region.StartKey, key) {
		return false
	}
	newRegionID := t.c.AllocID()
	peerIDs := t.c.AllocIDs(len(region.Peers))
	var leaderPeer uint64
	for i, p := range region.Peers {
		if leader != nil && p.StoreId == leader.StoreId {
			leaderPeer = peerIDs[i]
		}
	}
	if leaderPeer == 0 {
		leaderPeer = peerIDs[0]
	}
	t.c.VerifSplitRaw(region.Id, newRegionID, key, peerIDs, leaderPeer)
	t.sim.Count("topo.split")
	t.changes = append(t.changes, t.sim.Stamp())
	return true
}

// SplitAt implements simkit.Topo (fates topo-split / topo-split-aft): the region that
// contains key is split at a seed-chosen border inside it (key itself is one candidate).
func (t *rawTopo) SplitAt(key []byte) bool {
	start, end, _, ok := t.regionOf(key)
	if !ok {
		return false
	}
	var cands []string
	for _, c := range splitCands {
		if c > string(start) && (len(end) == 0 || c < string(end)) {
			cands = append(cands, c)
		}
	}
	if len(key) > 0 && string(key) > string(start) {
		dup := false
		for _, c := range cands {
			dup = dup || c == string(key)
		}
		if !dup {
			cands = append(cands, string(key))
		}
	}
	if len(cands) == 0 {
		return false
	}
	t.n++
	return t.splitExact([]byte(cands[t.h.Intn(fmt.Sprintf("split%d", t.n), len(cands))]))
}

// MergeAt merges the region containing key with its right neighbour.
func (t *rawTopo) MergeAt(key []byte) bool {
	region, _, _, _ := t.c.GetRegionByKey(key)
	if region == nil || len(region.EndKey) == 0 {
		return false
	}
	right, _, _, _ := t.c.GetRegionByKey(region.EndKey)
	if right == nil || !bytes.Equal(right.StartKey, region.EndKey) {
		return false
	}
	t.c.VerifMerge(region.Id, right.Id)
	t.sim.Count("topo.merge")
	t.changes = append(t.changes, t.sim.Stamp())
	return true
}

// MoveLeaderOf implements simkit.Topo.
func (t *rawTopo) MoveLeaderOf(key []byte) bool {
	region, leader, _, _ := t.c.GetRegionByKey(key)
	if region == nil || len(region.Peers) < 2 {
		return false
	}
	idx := 0
	for i, p := range region.Peers {
		if leader != nil && p.Id == leader.Id {
			idx = i
		}
	}
	t.c.ChangeLeader(region.Id, region.Peers[(idx+1)%len(region.Peers)].Id)
	t.sim.Count("topo.leader-move")
	t.changes = append(t.changes, t.sim.Stamp())
	return true
}

// Describe renders the layout.
func (t *rawTopo) Describe() string {
	rs := t.c.GetAllRegions()
	sort.Slice(rs, func(i, j int) bool { return bytes.Compare(rs[i].Meta.StartKey, rs[j].Meta.StartKey) < 0 })
	var sb strings.Builder
	for _, r := range rs {
		fmt.Fprintf(&sb, "[r%d %q..%q v%d] ", r.Meta.Id, r.Meta.StartKey, r.Meta.EndKey, r.Meta.RegionEpoch.GetVersion())
	}
	return sb.String()
}

func (t *rawTopo) regions() int { return len(t.c.GetAllRegions()) }

// ---------------------------------------------------------------------------------------------
// front: what stands between the network and the repository's mock server

// front forwards every request to the repository's mock server (region / epoch / leader
// checks and the raw engine are the mock's own) and adds what the mock does not have:
//   - time-to-live: the expiry instant of every key written with a ttl is kept here, expired
//     keys are removed from the mock's store before any request executes, RawGetKeyTTL (which
//     the mock rejects as unsupported) is answered from that table;
//   - compare-and-swap on an absent key (the mock's RawCompareAndSwap returns a "not found"
//     error for it, TiKV treats "absent" as a comparable state);
//   - key-only scans (the mock ignores the flag);
//   - a routing audit: a request that executed must only carry keys of the region it addressed.
type front struct {
	inner   simkit.Backend
	mvcc    *mocktikv.MVCCLevelDB
	cluster *mocktikv.Cluster
	sim     *simkit.Sim
	expire  map[string]time.Duration // key -> simulated instant of expiry
	routing []string                 // routing audit failures
}

func (f *front) purge() {
	now := f.sim.Now()
	var dead []string
	for k, at := range f.expire {
		if at <= now {
			dead = append(dead, k)
		}
	}
	sort.Strings(dead)
	for _, k := range dead {
		f.mvcc.RawDelete(cfName, []byte(k))
		delete(f.expire, k)
		f.sim.Count("ttl.expired")
	}
}

func (f *front) setTTL(key []byte, ttl uint64) {
	if ttl == 0 {
		delete(f.expire, string(key))
		return
	}
	f.expire[string(key)] = f.sim.Now() + time.Duration(ttl)*time.Second
}

// probe validates the request context the way the mock does for every raw command (a raw
// get of the same key with the same context) and tells whether the key exists.
func (f *front) probe(addr string, req *tikvrpc.Request, key []byte) (found bool, regionErr *tikvrpc.Response, err error) {
	g := tikvrpc.NewRequest(tikvrpc.CmdRawGet, &kvrpcpb.RawGetRequest{Key: key, Cf: cfName}, req.Context)
	resp, err := f.inner.SendRequest(context.Background(), addr, g, 0)
	if err != nil {
		return false, nil, err
	}
	if re, _ := resp.GetRegionError(); re != nil {
		return false, resp, nil
	}
	return !resp.Resp.(*kvrpcpb.RawGetResponse).NotFound, nil, nil
}

// wireMsg is what every kvproto message implements.
type wireMsg interface {
	Marshal() ([]byte, error)
	Unmarshal([]byte) error
}

// wireHop encodes and decodes a message the way the gRPC hop between client and server does. It
// matters: an empty, non-nil byte slice (an empty bound given as []byte{} or []byte("")) arrives as
// nil, and the mock's storage layer treats a non-nil empty upper bound as "before every key".
func wireHop(m interface{}) interface{} {
	wm, ok := m.(wireMsg)
	if !ok || m == nil {
		return m
	}
	b, err := wm.Marshal()
	if err != nil {
		panic(fmt.Sprintf("rawsim: marshal %T: %v", m, err))
	}
	fresh := reflect.New(reflect.TypeOf(m).Elem()).Interface().(wireMsg)
	if err := fresh.Unmarshal(b); err != nil {
		panic(fmt.Sprintf("rawsim: unmarshal %T: %v", m, err))
	}
	return fresh
}

func (f *front) SendRequest(ctx context.Context, addr string, req *tikvrpc.Request, timeout time.Duration) (*tikvrpc.Response, error) {
	f.purge()
	// the server sees a decoded copy of the message, the client a decoded copy of the answer
	rc := *req
	rc.Req = wireHop(req.Req)
	resp, err := f.serve(ctx, addr, &rc, timeout)
	if resp != nil && resp.Resp != nil {
		resp = &tikvrpc.Response{Resp: wireHop(resp.Resp)}
	}
	return resp, err
}

func (f *front) serve(ctx context.Context, addr string, req *tikvrpc.Request, timeout time.Duration) (*tikvrpc.Response, error) {
	switch req.Type {
	case tikvrpc.CmdGetKeyTTL:
		r := req.RawGetKeyTTL()
		found, reResp, err := f.probe(addr, req, r.Key)
		if err != nil {
			return nil, err
		}
		if reResp != nil {
			re, _ := reResp.GetRegionError()
			return &tikvrpc.Response{Resp: &kvrpcpb.RawGetKeyTTLResponse{RegionError: re}}, nil
		}
		f.audit(req)
		out := &kvrpcpb.RawGetKeyTTLResponse{NotFound: !found}
		if at, ok := f.expire[string(r.Key)]; ok && found {
			rem := at - f.sim.Now()
			out.Ttl = uint64((rem + time.Second - 1) / time.Second)
		}
		return &tikvrpc.Response{Resp: out}, nil
	}
	resp, err := f.inner.SendRequest(ctx, addr, req, timeout)
	if err != nil || resp == nil || resp.Resp == nil {
		return resp, err
	}
	if re, _ := resp.GetRegionError(); re != nil {
		return resp, err
	}
	f.audit(req)
	switch req.Type {
	case tikvrpc.CmdRawPut:
		r := req.RawPut()
		f.setTTL(r.Key, r.Ttl)
	case tikvrpc.CmdRawBatchPut:
		r := req.RawBatchPut()
		for i, p := range r.Pairs {
			var ttl uint64
			switch {
			case len(r.Ttls) == 0:
				ttl = r.Ttl // the deprecated single field
			case len(r.Ttls) == 1:
				ttl = r.Ttls[0]
			case i < len(r.Ttls):
				ttl = r.Ttls[i]
			}
			if len(r.Ttls) > 1 && len(r.Ttls) != len(r.Pairs) {
				f.routing = append(f.routing, fmt.Sprintf("ttl-count: RawBatchPut carries %d pairs but %d ttls", len(r.Pairs), len(r.Ttls)))
			}
			f.setTTL(p.Key, ttl)
		}
	case tikvrpc.CmdRawCompareAndSwap:
		if resp.Resp.(*kvrpcpb.RawCASResponse).Succeed {
			r := req.RawCompareAndSwap()
			f.setTTL(r.Key, r.Ttl)
		}
	case tikvrpc.CmdRawScan:
		r := req.RawScan()
		kvs := resp.Resp.(*kvrpcpb.RawScanResponse).Kvs
		// reach probe: the limit ran out exactly at the last pair of this region although the
		// requested range goes on in the next region
		if region, _ := f.cluster.GetRegion(req.Context.GetRegionId()); region != nil && len(kvs) > 0 && uint32(len(kvs)) == r.Limit {
			last := kvs[len(kvs)-1].Key
			if !r.Reverse && len(region.EndKey) > 0 && (len(r.EndKey) == 0 || bytes.Compare(region.EndKey, r.EndKey) < 0) {
				if len(f.mvcc.RawScan(cfName, append(append([]byte{}, last...), 0), region.EndKey, 1)) == 0 {
					f.sim.Count("probe.scan.limit-exhausted-at-region-border")
				}
			}
			if r.Reverse && len(region.StartKey) > 0 && bytes.Compare(region.StartKey, r.EndKey) > 0 {
				if len(f.mvcc.RawReverseScan(cfName, last, region.StartKey, 1)) == 0 {
					f.sim.Count("probe.rscan.limit-exhausted-at-region-border")
				}
			}
		}
	}
	return resp, err
}

func within(start, end, key []byte) bool {
	return bytes.Compare(start, key) <= 0 && (len(end) == 0 || bytes.Compare(key, end) < 0)
}

// audit: the request executed, i.e. the mock accepted (region id, epoch, leader); every key it
// carries must belong to that region (TiKV answers KeyNotInRegion otherwise; the mock's raw
// point handlers do not look).
func (f *front) audit(req *tikvrpc.Request) {
	region, _ := f.cluster.GetRegion(req.Context.GetRegionId())
	if region == nil {
		return
	}
	s, e := region.StartKey, region.EndKey
	bad := func(what string, k []byte) {
		f.routing = append(f.routing, fmt.Sprintf("%s %s key %q sent to region %d [%q,%q) epoch %v", req.Type, what, k, region.Id, s, e, region.RegionEpoch))
		f.sim.Count("audit.key-not-in-region")
	}
	point := func(k []byte) {
		if !within(s, e, k) {
			bad("point", k)
		}
	}
	switch req.Type {
	case tikvrpc.CmdRawGet:
		point(req.RawGet().Key)
	case tikvrpc.CmdGetKeyTTL:
		point(req.RawGetKeyTTL().Key)
	case tikvrpc.CmdRawPut:
		point(req.RawPut().Key)
	case tikvrpc.CmdRawDelete:
		point(req.RawDelete().Key)
	case tikvrpc.CmdRawCompareAndSwap:
		point(req.RawCompareAndSwap().Key)
	case tikvrpc.CmdRawBatchGet:
		for _, k := range req.RawBatchGet().Keys {
			point(k)
		}
	case tikvrpc.CmdRawBatchDelete:
		for _, k := range req.RawBatchDelete().Keys {
			point(k)
		}
	case tikvrpc.CmdRawBatchPut:
		for _, p := range req.RawBatchPut().Pairs {
			point(p.Key)
		}
	case tikvrpc.CmdRawScan:
		r := req.RawScan()
		if r.Reverse {
			// the upper bound is exclusive: it may be the region's end, not its start
			if !(bytes.Compare(s, r.StartKey) < 0 && (len(e) == 0 || bytes.Compare(r.StartKey, e) <= 0)) {
				bad("reverse-scan upper bound", r.StartKey)
			}
		} else {
			point(r.StartKey)
		}
	case tikvrpc.CmdRawChecksum:
		for _, rg := range req.RawChecksum().Ranges {
			point(rg.StartKey)
		}
	case tikvrpc.CmdRawDeleteRange:
		r := req.RawDeleteRange()
		point(r.StartKey)
		if len(r.EndKey) == 0 && len(e) != 0 || len(e) != 0 && bytes.Compare(r.EndKey, e) > 0 {
			bad("delete-range end", r.EndKey)
		}
	}
}

// pdFront answers store queries in place: the store cache of the code under test holds a
// sync.Mutex across them (Store.initResolve), and a goroutine waiting for a sync.Mutex whose
// owner is parked in the simulator would never let the simulated world quiesce. Region queries,
// the ones that matter here, still cross the simulator (ParkQueries).
type pdFront struct{ *simkit.PD }

func (p pdFront) WithCallerComponent(caller.Component) pd.Client { return p }

func (p pdFront) GetStore(ctx context.Context, id uint64, opts ...opt.GetStoreOption) (*metapb.Store, error) {
	return p.PD.Client.GetStore(ctx, id, opts...)
}

func (p pdFront) GetAllStores(ctx context.Context, opts ...opt.GetStoreOption) ([]*metapb.Store, error) {
	return p.PD.Client.GetAllStores(ctx, opts...)
}

// ---------------------------------------------------------------------------------------------
// world

type world struct {
	sim      *simkit.Sim
	sc       *Scenario
	net      *simkit.Net
	mvcc     *mocktikv.MVCCLevelDB
	cluster  *mocktikv.Cluster
	topo     *rawTopo
	front    *front
	clients  []*rawkv.Client
	hist     [][]*OpRec
	layout0  string
	regions0 int
}

func newWorld(s *simkit.Sim, sc *Scenario) (*world, error) {
	w := &world{sim: s, sc: sc}
	mvcc, err := mocktikv.NewMVCCLevelDB("")
	if err != nil {
		return nil, err
	}
	w.mvcc = mvcc
	w.cluster = mocktikv.NewCluster(mvcc)
	simkit.Bootstrap(s, w.cluster, sc.Stores, nil)
	w.topo = &rawTopo{c: w.cluster, sim: s, h: simkit.NewHasher(s.Seed, "rawtopo")}
	for _, k := range sc.Splits {
		w.topo.splitExact([]byte(k))
	}
	w.layout0 = w.topo.Describe()
	w.regions0 = w.topo.regions()
	w.front = &front{inner: mocktikv.NewRPCClient(w.cluster, mvcc, nil), mvcc: mvcc, cluster: w.cluster, sim: s, expire: map[string]time.Duration{}}
	w.net = simkit.NewNet(s, w.front)
	w.net.Topo = w.topo
	w.net.Describe = w.topo.Describe
	w.net.Jitter = time.Duration(sc.Net.JitterUs) * time.Microsecond
	for k, f := range sc.Net.Plan {
		w.net.Plan[k] = f
	}
	w.net.RandomFaults = sc.Net.Random
	w.net.FaultRate = sc.Net.Rate
	w.net.FaultKinds = sc.Net.Kinds
	tso := &simkit.TSO{}
	for i := range sc.Actors {
		if sc.Shared && i > 0 {
			w.clients = append(w.clients, w.clients[0])
			w.hist = append(w.hist, nil)
			continue
		}
		pdc := simkit.NewPD(s, w.net, i, tso, mocktikv.NewPDClient(w.cluster))
		pdc.ParkQueries = sc.Net.ParkPD
		// the way rawkv.NewClientWithOpts assembles an API v1 client: region cache over a
		// raw-mode codec PD client, the zero api version (V1), the given transport
		codecCli := locate.NewCodecPDClient(tikv.ModeRaw, pdFront{pdc})
		c := &rawkv.Client{}
		p := rawkv.ClientProbe{Client: c}
		p.SetRegionCache(locate.NewRegionCache(codecCli))
		p.SetPDClient(codecCli)
		p.SetRPCClient(w.net.NewConn(i))
		c.SetColumnFamily(cfName)
		c.SetAtomicForCAS(true)
		w.clients = append(w.clients, c)
		w.hist = append(w.hist, nil)
	}
	n := len(sc.Actors)
	s.OnAbort = func() { w.net.CutAll(n) }
	return w, nil
}

func (w *world) scheduleTopo() {
	for i, ev := range w.sc.Topo {
		ev := ev
		w.sim.Submit(fmt.Sprintf("topo%d", i), time.Duration(ev.AtUs)*time.Microsecond, uint64(i), func() {
			switch ev.Kind {
			case "split":
				w.topo.splitExact([]byte(ev.Key))
			case "merge":
				w.topo.MergeAt([]byte(ev.Key))
			case "leader":
				w.topo.MoveLeaderOf([]byte(ev.Key))
			}
		})
	}
}

func (w *world) close() {
	w.net.Shutdown()
	for i, c := range w.clients {
		if i == 0 || c != w.clients[0] {
			_ = c.Close()
		}
	}
	w.mvcc.VerifCloseAllDBs()
}

// truth reads the content of the store directly from the backend object.
func (w *world) truth() map[string]string {
	w.front.purge()
	out := map[string]string{}
	for _, p := range w.mvcc.RawScan(cfName, nil, nil, 1<<30) {
		out[string(p.Key)] = string(p.Value)
	}
	return out
}

// ---------------------------------------------------------------------------------------------
// actors

// OpRec is the recorded outcome of one call.
type OpRec struct {
	Actor, Idx int
	Client     int // id of the network endpoint the call went through
	Op         *Op
	Inv, Ret   uint64        // global stamps
	InvAt      time.Duration // simulated instants
	RetAt      time.Duration
	Err        string
	Val        *string   // get; cas: previous value
	Vals       []*string // batch get
	Keys       []string  // scans
	Values     []string
	TTL        *uint64
	Swapped    bool
	Sum        rawkv.RawChecksum
}

func sp(b []byte) *string {
	if b == nil {
		return nil
	}
	s := string(b)
	return &s
}

func bs(ss []string) [][]byte {
	out := make([][]byte, len(ss))
	for i, s := range ss {
		out[i] = []byte(s)
	}
	return out
}

// opKeys is the key list of a batch call (with the repetition factor applied).
func opKeys(op *Op) []string {
	if op.Rep <= 1 && op.Fill == 0 {
		return op.Keys
	}
	rep := op.Rep
	if rep < 1 {
		rep = 1
	}
	out := make([]string, 0, len(op.Keys)*rep+op.Fill)
	for i := 0; i < rep; i++ {
		out = append(out, op.Keys...)
	}
	for i := 0; i < op.Fill && len(op.Keys) > 0; i++ {
		out = append(out, fmt.Sprintf("%s\x01%04d", op.Keys[0], i))
	}
	return out
}

// opVal is the value written for position i of a batch put (or the single value).
func opVal(op *Op, i int) string {
	v := op.Val
	if i >= 0 {
		v = op.Vals[i]
	}
	if op.Pad > 0 {
		v += strings.Repeat("x", op.Pad)
	}
	return v
}

func errStr(err error) string {
	if err == nil {
		return ""
	}
	m := fmt.Sprintf("%T: %s", errors.Cause(err), err.Error())
	if len(m) > 200 {
		m = m[:200]
	}
	return m
}

func (w *world) runActor(a int, wg *sync.WaitGroup) {
	defer wg.Done()
	act := &w.sc.Actors[a]
	c := w.clients[a]
	time.Sleep(time.Duration(act.StartUs) * time.Microsecond)
	for i := range act.Ops {
		op := &act.Ops[i]
		if w.sim.Aborted != "" {
			return
		}
		if op.Kind == "sleep" {
			time.Sleep(time.Duration(op.SleepMs) * time.Millisecond)
			continue
		}
		time.Sleep(time.Duration(op.GapUs+1) * time.Microsecond)
		rec := &OpRec{Actor: a, Idx: i, Op: op, Client: a}
		if w.sc.Shared {
			rec.Client = 0
		}
		ctx, cancel := context.Background(), context.CancelFunc(func() {})
		if op.TimeoutUs > 0 {
			ctx, cancel = context.WithTimeout(ctx, time.Duration(op.TimeoutUs)*time.Microsecond)
		}
		rec.InvAt = w.sim.Now()
		rec.Inv = w.sim.Stamp()
		var err error
		switch op.Kind {
		case "put":
			err = c.Put(ctx, []byte(op.Key), []byte(opVal(op, -1)))
		case "putttl":
			err = c.PutWithTTL(ctx, []byte(op.Key), []byte(opVal(op, -1)), op.TTL)
		case "get":
			var v []byte
			v, err = c.Get(ctx, []byte(op.Key))
			rec.Val = sp(v)
		case "getttl":
			rec.TTL, err = c.GetKeyTTL(ctx, []byte(op.Key))
		case "del":
			err = c.Delete(ctx, []byte(op.Key))
		case "bget":
			var vs [][]byte
			vs, err = c.BatchGet(ctx, bs(opKeys(op)))
			for _, v := range vs {
				rec.Vals = append(rec.Vals, sp(v))
			}
		case "bput", "bputttl":
			vals := make([]string, len(op.Keys))
			for j := range op.Keys {
				vals[j] = opVal(op, j)
			}
			if op.Kind == "bput" {
				err = c.BatchPut(ctx, bs(op.Keys), bs(vals))
			} else {
				err = c.BatchPutWithTTL(ctx, bs(op.Keys), bs(vals), op.TTLs)
			}
		case "bdel":
			err = c.BatchDelete(ctx, bs(opKeys(op)))
		case "delrange":
			err = c.DeleteRange(ctx, []byte(op.Key), []byte(op.End))
		case "scan", "rscan":
			var ks, vs [][]byte
			var opts []rawkv.RawOption
			if op.KeyOnly {
				opts = append(opts, rawkv.ScanKeyOnly())
			}
			if op.Kind == "scan" {
				ks, vs, err = c.Scan(ctx, []byte(op.Key), []byte(op.End), op.Limit, opts...)
			} else {
				ks, vs, err = c.ReverseScan(ctx, []byte(op.Key), []byte(op.End), op.Limit, opts...)
			}
			for _, k := range ks {
				rec.Keys = append(rec.Keys, string(k))
			}
			for _, v := range vs {
				rec.Values = append(rec.Values, string(v))
			}
		case "checksum":
			rec.Sum, err = c.Checksum(ctx, []byte(op.Key), []byte(op.End))
		case "cas":
			var prev []byte
			if op.Prev != nil {
				prev = []byte(*op.Prev)
			}
			var old []byte
			old, rec.Swapped, err = c.CompareAndSwap(ctx, []byte(op.Key), prev, []byte(opVal(op, -1)))
			rec.Val = sp(old)
		default:
			panic("unknown op kind " + op.Kind)
		}
		rec.Ret = w.sim.Stamp()
		rec.RetAt = w.sim.Now()
		cancel()
		rec.Err = errStr(err)
		w.hist[a] = append(w.hist[a], rec)
		w.sim.Count("op." + op.Kind)
		if err != nil {
			w.sim.Count("op-error." + op.Kind)
		}
	}
}

func fmtP(p *string) string {
	if p == nil {
		return "<nil>"
	}
	if len(*p) > 24 {
		return fmt.Sprintf("%q..(%d bytes)", (*p)[:24], len(*p))
	}
	return fmt.Sprintf("%q", *p)
}

func fmtRec(r *OpRec) string {
	var sb strings.Builder
	fmt.Fprintf(&sb, "actor %d op %d %s [%d,%d] t=[%v,%v]", r.Actor, r.Idx, fmtOp(r.Op), r.Inv, r.Ret, r.InvAt, r.RetAt)
	if r.Err != "" {
		fmt.Fprintf(&sb, " ERR %q", r.Err)
		return sb.String()
	}
	switch r.Op.Kind {
	case "get":
		fmt.Fprintf(&sb, " -> %s", fmtP(r.Val))
	case "getttl":
		if r.TTL == nil {
			sb.WriteString(" -> <nil>")
		} else {
			fmt.Fprintf(&sb, " -> %d", *r.TTL)
		}
	case "bget":
		sb.WriteString(" ->")
		for i, v := range r.Vals {
			if i >= 12 {
				fmt.Fprintf(&sb, " ..(%d values)", len(r.Vals))
				break
			}
			sb.WriteString(" " + fmtP(v))
		}
	case "scan", "rscan":
		fmt.Fprintf(&sb, " -> keys %q values %q", r.Keys, r.Values)
	case "checksum":
		fmt.Fprintf(&sb, " -> %+v", r.Sum)
	case "cas":
		fmt.Fprintf(&sb, " -> prev %s swapped %v", fmtP(r.Val), r.Swapped)
	}
	return sb.String()
}
