package rawsim

import (
	"fmt"
	"hash/crc64"
	"sort"
	"time"
)

// The sequential oracle: one ordered map, operation by operation (mode "exact" with a
// single actor: no message is lost, nothing runs concurrently, so every call has exactly
// one admissible result).
//
// Time-to-live is the one place where the map's answer depends on an instant inside the
// call: a key written with ttl by a call that ran during [inv, ret] expires at some
// instant of [inv+ttl, ret+ttl]; a later call that ran during [inv', ret'] sees it for sure
// when ret' < inv+ttl, does not see it for sure when inv' >= ret+ttl, and may or may not
// see it otherwise ("maybe"). A "maybe" key admits both answers, nothing else is relaxed.

type entry struct {
	val    string
	ttl    bool
	lo, hi time.Duration // expiry window (ttl only)
}

type seqModel struct {
	m      map[string]*entry
	everW  map[string]map[string]bool // key -> values ever written (structure checks)
	skips  map[string]int
	probes map[string]int
}

func newSeqModel() *seqModel {
	return &seqModel{m: map[string]*entry{}, skips: map[string]int{}, probes: map[string]int{}}
}

const (
	stAbsent = iota
	stPresent
	stMaybe
)

func (m *seqModel) state(k string, inv, ret time.Duration) (int, string) {
	e, ok := m.m[k]
	if !ok {
		return stAbsent, ""
	}
	if !e.ttl {
		return stPresent, e.val
	}
	if e.hi <= inv {
		delete(m.m, k)
		return stAbsent, ""
	}
	if e.lo > ret {
		return stPresent, e.val
	}
	return stMaybe, e.val
}

func (m *seqModel) put(k, v string, ttl uint64, inv, ret time.Duration) {
	e := &entry{val: v}
	if ttl > 0 {
		e.ttl = true
		e.lo = inv + time.Duration(ttl)*time.Second
		e.hi = ret + time.Duration(ttl)*time.Second
	}
	m.m[k] = e
}

func rangeHas(k, lo, hi string) bool {
	// [lo, hi), hi == "" unbounded; an inverted or empty range contains nothing
	return k >= lo && (hi == "" || k < hi)
}

var crcTable = crc64.MakeTable(crc64.ECMA)

func pairSum(k, v string) uint64 {
	d := crc64.New(crcTable)
	d.Write([]byte(k))
	d.Write([]byte(v))
	return d.Sum64()
}

// matchScan decides whether the returned keys are the first `limit` pairs of cand (already
// in scan order; maybe-keys may be skipped).
func matchScan(cand []string, st map[string]int, val map[string]string, rec *OpRec) string {
	limit := rec.Op.Limit
	got := rec.Keys
	if len(got) > limit && limit >= 0 {
		return fmt.Sprintf("returned %d pairs, limit %d", len(got), limit)
	}
	if len(rec.Values) != len(got) {
		return fmt.Sprintf("%d keys but %d values", len(got), len(rec.Values))
	}
	i := 0
	for _, k := range cand {
		if i >= limit {
			break
		}
		if i < len(got) && got[i] == k {
			want := val[k]
			if rec.Op.KeyOnly {
				want = ""
			}
			if rec.Values[i] != want {
				return fmt.Sprintf("pair %d: key %q has value %q, the map has %q", i, k, rec.Values[i], want)
			}
			i++
			continue
		}
		if st[k] == stMaybe {
			continue // expired during the call
		}
		if i < len(got) {
			return fmt.Sprintf("pair %d is %q, the map's next pair in the range is %q", i, got[i], k)
		}
		return fmt.Sprintf("only %d pairs returned (limit %d), the map's next pair in the range is %q", len(got), limit, k)
	}
	if i < len(got) {
		return fmt.Sprintf("pair %d (%q) is not a pair of the map in the range / order", i, got[i])
	}
	return ""
}

// check compares one successful call with the map and applies its effect. It returns a
// (class, detail) pair for a mismatch.
func (m *seqModel) check(rec *OpRec) (string, string) {
	op := rec.Op
	inv, ret := rec.InvAt, rec.RetAt
	keys := make([]string, 0, len(m.m))
	for k := range m.m {
		keys = append(keys, k)
	}
	sort.Strings(keys)
	switch op.Kind {
	case "put", "putttl":
		m.put(op.Key, opVal(op, -1), op.TTL, inv, ret)
	case "bput", "bputttl":
		for i, k := range op.Keys {
			var ttl uint64
			if len(op.TTLs) > 0 {
				ttl = op.TTLs[i]
			}
			m.put(k, opVal(op, i), ttl, inv, ret)
		}
	case "del":
		delete(m.m, op.Key)
	case "bdel":
		for _, k := range op.Keys {
			delete(m.m, k)
		}
	case "delrange":
		for _, k := range keys {
			if rangeHas(k, op.Key, op.End) {
				delete(m.m, k)
			}
		}
	case "get":
		st, v := m.state(op.Key, inv, ret)
		switch {
		case rec.Val == nil:
			if st == stPresent {
				return "get-mismatch", fmt.Sprintf("Get(%q) found nothing, the map has %q", op.Key, v)
			}
			delete(m.m, op.Key)
		case st == stAbsent:
			return "get-mismatch", fmt.Sprintf("Get(%q) = %q, the map has no such key", op.Key, *rec.Val)
		case *rec.Val != v:
			return "get-mismatch", fmt.Sprintf("Get(%q) = %q, the map has %q", op.Key, *rec.Val, v)
		}
	case "getttl":
		st, _ := m.state(op.Key, inv, ret)
		e := m.m[op.Key]
		switch {
		case rec.TTL == nil:
			if st == stPresent {
				return "ttl-mismatch", fmt.Sprintf("GetKeyTTL(%q) found nothing, the map has the key", op.Key)
			}
		case st == stAbsent:
			return "ttl-mismatch", fmt.Sprintf("GetKeyTTL(%q) = %d, the map has no such key", op.Key, *rec.TTL)
		case !e.ttl:
			if *rec.TTL != 0 {
				return "ttl-mismatch", fmt.Sprintf("GetKeyTTL(%q) = %d for a key written without ttl", op.Key, *rec.TTL)
			}
		default:
			// remaining life, in whole seconds rounded up, seen at an instant of [inv, ret]
			ceil := func(d time.Duration) uint64 {
				if d <= 0 {
					return 0
				}
				return uint64((d + time.Second - 1) / time.Second)
			}
			lo, hi := ceil(e.lo-ret), ceil(e.hi-inv)
			if lo < 1 {
				lo = 1
			}
			if *rec.TTL < lo || *rec.TTL > hi {
				return "ttl-mismatch", fmt.Sprintf("GetKeyTTL(%q) = %d, the map's remaining life is %d..%d s (expiry in [%v,%v], call in [%v,%v])", op.Key, *rec.TTL, lo, hi, e.lo, e.hi, inv, ret)
			}
		}
	case "bget":
		ks := opKeys(op)
		if len(rec.Vals) != len(ks) {
			return "bget-misaligned", fmt.Sprintf("BatchGet of %d keys returned %d values", len(ks), len(rec.Vals))
		}
		for i, k := range ks {
			st, v := m.state(k, inv, ret)
			got := rec.Vals[i]
			// the mock answers an absent key with a pair carrying a nil value, which the client
			// turns into an empty (non-nil) value; no empty value is ever written here
			absent := got == nil || *got == ""
			if got != nil && *got == "" {
				m.probes["bget-absent-as-empty"]++
			}
			switch {
			case absent:
				if st == stPresent {
					return "bget-misaligned", fmt.Sprintf("BatchGet(%q): position %d (key %q) is empty, the map has %q", ks, i, k, v)
				}
			case st == stAbsent:
				return "bget-misaligned", fmt.Sprintf("BatchGet(%q): position %d (key %q) = %q, the map has no such key", ks, i, k, *got)
			case *got != v:
				return "bget-misaligned", fmt.Sprintf("BatchGet(%q): position %d (key %q) = %q, the map has %q", ks, i, k, *got, v)
			}
		}
	case "scan", "rscan":
		lo, hi := op.Key, op.End
		if op.Kind == "rscan" {
			// ReverseScan(startKey, endKey) covers [endKey, startKey)
			lo, hi = op.End, op.Key
			if hi == "" {
				// documented: "It doesn't support Scanning from """
				m.skips["rscan-empty-upper-bound"]++
				return "", ""
			}
		}
		st := map[string]int{}
		val := map[string]string{}
		var cand []string
		for _, k := range keys {
			if !rangeHas(k, lo, hi) {
				continue
			}
			s, v := m.state(k, inv, ret)
			if s == stAbsent {
				continue
			}
			st[k], val[k] = s, v
			cand = append(cand, k)
		}
		if op.Kind == "rscan" {
			sort.Sort(sort.Reverse(sort.StringSlice(cand)))
		}
		if d := matchScan(cand, st, val, rec); d != "" {
			return "scan-mismatch", fmt.Sprintf("%s: %s (returned keys %q; the map's pairs of the range, in order: %q)", fmtOp(op), d, rec.Keys, cand)
		}
	case "checksum":
		var def, maybe []string
		for _, k := range keys {
			if !rangeHas(k, op.Key, op.End) {
				continue
			}
			switch s, _ := m.state(k, inv, ret); s {
			case stPresent:
				def = append(def, k)
			case stMaybe:
				maybe = append(maybe, k)
			}
		}
		if len(maybe) > 4 {
			m.skips["checksum-ttl-ambiguous"]++
			return "", ""
		}
		var exp []string
		for mask := 0; mask < 1<<len(maybe); mask++ {
			var x, n, b uint64
			add := func(k string) {
				v := m.m[k].val
				x ^= pairSum(k, v)
				n++
				b += uint64(len(k) + len(v))
			}
			for _, k := range def {
				add(k)
			}
			for i, k := range maybe {
				if mask&(1<<i) != 0 {
					add(k)
				}
			}
			if rec.Sum.Crc64Xor == x && rec.Sum.TotalKvs == n && rec.Sum.TotalBytes == b {
				return "", ""
			}
			exp = append(exp, fmt.Sprintf("{crc64xor %d kvs %d bytes %d}", x, n, b))
		}
		return "checksum-mismatch", fmt.Sprintf("%s = %+v, the map's pairs of the range %q give %v", fmtOp(op), rec.Sum, def, exp)
	case "cas":
		st, v := m.state(op.Key, inv, ret)
		if st == stMaybe {
			// adopt what the call saw
			if rec.Val == nil {
				delete(m.m, op.Key)
				st = stAbsent
			} else {
				st = stPresent
			}
		}
		var wantOld *string
		wantSwap := false
		if st == stAbsent {
			wantSwap = op.Prev == nil
		} else {
			wantOld = &v
			wantSwap = op.Prev != nil && *op.Prev == v
		}
		if (rec.Val == nil) != (wantOld == nil) || rec.Val != nil && *rec.Val != *wantOld || rec.Swapped != wantSwap {
			return "cas-mismatch", fmt.Sprintf("%s returned (previous %s, swapped %v), the map gives (previous %s, swapped %v)", fmtOp(op), fmtP(rec.Val), rec.Swapped, fmtP(wantOld), wantSwap)
		}
		if wantSwap {
			m.put(op.Key, opVal(op, -1), 0, inv, ret)
		}
	}
	return "", ""
}

// checkFinal compares the content of the store (read from the backend object after the run, at
// instant now) with the map.
func (m *seqModel) checkFinal(truth map[string]string, now time.Duration) (string, string) {
	all := map[string]bool{}
	for k := range truth {
		all[k] = true
	}
	for k := range m.m {
		all[k] = true
	}
	ks := make([]string, 0, len(all))
	for k := range all {
		ks = append(ks, k)
	}
	sort.Strings(ks)
	for _, k := range ks {
		st, v := m.state(k, now, now)
		got, ok := truth[k]
		switch {
		case !ok && st == stPresent:
			return "final-state", fmt.Sprintf("after the run the store has no key %q, the map has %q", k, v)
		case ok && st == stAbsent:
			return "final-state", fmt.Sprintf("after the run the store has %q=%q, the map has no such key", k, got)
		case ok && got != v:
			return "final-state", fmt.Sprintf("after the run the store has %q=%q, the map has %q", k, got, v)
		}
	}
	return "", ""
}

// structure: what holds for every successful call whatever ran concurrently.
func checkStructure(rec *OpRec, ever map[string]map[string]bool) (string, string) {
	op := rec.Op
	switch op.Kind {
	case "bget":
		if n := len(opKeys(op)); len(rec.Vals) != n {
			return "bget-misaligned", fmt.Sprintf("BatchGet of %d keys returned %d values", n, len(rec.Vals))
		}
		for i, k := range opKeys(op) {
			if v := rec.Vals[i]; v != nil && *v != "" && !ever[k][*v] {
				return "bget-misaligned", fmt.Sprintf("BatchGet(%q): position %d (key %q) = %s, a value never written to that key", opKeys(op), i, k, fmtP(v))
			}
		}
	case "get":
		if rec.Val != nil && !ever[op.Key][*rec.Val] {
			return "get-mismatch", fmt.Sprintf("Get(%q) = %s, a value never written to that key", op.Key, fmtP(rec.Val))
		}
	case "scan", "rscan":
		if len(rec.Keys) > op.Limit {
			return "scan-structure", fmt.Sprintf("%s returned %d pairs", fmtOp(op), len(rec.Keys))
		}
		if len(rec.Keys) != len(rec.Values) {
			return "scan-structure", fmt.Sprintf("%s returned %d keys and %d values", fmtOp(op), len(rec.Keys), len(rec.Values))
		}
		lo, hi := op.Key, op.End
		if op.Kind == "rscan" {
			lo, hi = op.End, op.Key
			if hi == "" {
				return "", ""
			}
		}
		for i, k := range rec.Keys {
			if !rangeHas(k, lo, hi) {
				return "scan-structure", fmt.Sprintf("%s returned key %q outside the range (keys %q)", fmtOp(op), k, rec.Keys)
			}
			if i > 0 && (op.Kind == "scan" && rec.Keys[i-1] >= k || op.Kind == "rscan" && rec.Keys[i-1] <= k) {
				return "scan-structure", fmt.Sprintf("%s returned keys out of order or twice: %q", fmtOp(op), rec.Keys)
			}
			if op.KeyOnly {
				if rec.Values[i] != "" {
					return "scan-structure", fmt.Sprintf("%s (key only) returned a value for %q", fmtOp(op), k)
				}
			} else if !ever[k][rec.Values[i]] {
				return "scan-structure", fmt.Sprintf("%s returned %q=%q, a value never written to that key", fmtOp(op), k, rec.Values[i])
			}
		}
	}
	return "", ""
}

// everWritten collects, per key, every value any call of the scenario may write.
func everWritten(sc *Scenario) map[string]map[string]bool {
	ever := map[string]map[string]bool{}
	add := func(k, v string) {
		if ever[k] == nil {
			ever[k] = map[string]bool{}
		}
		ever[k][v] = true
	}
	for a := range sc.Actors {
		for i := range sc.Actors[a].Ops {
			op := &sc.Actors[a].Ops[i]
			switch op.Kind {
			case "put", "putttl", "cas":
				add(op.Key, opVal(op, -1))
			case "bput", "bputttl":
				for j, k := range op.Keys {
					add(k, opVal(op, j))
				}
			}
		}
	}
	return ever
}
