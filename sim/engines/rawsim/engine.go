// Package rawsim checks property C11: the raw key-value API of rawkv.Client behaves as one
// ordered map for every region layout and while regions split, merge or change leader
// between or during calls. See CHECK.md.
package rawsim

import (
	"crypto/sha1"
	"encoding/hex"
	"encoding/json"
	"fmt"
	"math/rand"
	"os"
	"sort"
	"strings"
	"sync"
	"testing"
	"time"

	"github.com/pingcap/failpoint"
	"github.com/tikv/client-go/v2/util"
	"github.com/tikv/client-go/v2/verifsim/simkit"
)

// Engine implements simkit.Engine.
type Engine struct{}

// Name implements simkit.Engine.
func (Engine) Name() string { return "rawsim" }

// Decode implements simkit.Engine.
func (Engine) Decode(raw json.RawMessage) (any, error) {
	var sc Scenario
	if err := json.Unmarshal(raw, &sc); err != nil {
		return nil, err
	}
	return &sc, nil
}

// Generate implements simkit.Engine.
func (Engine) Generate(cfg simkit.RunConfig) (any, bool) {
	switch cfg.Mode {
	case "", "exact":
		return genScenario(cfg, "exact"), true
	case "lossy":
		return genScenario(cfg, "lossy"), true
	}
	panic("rawsim: unknown mode " + cfg.Mode)
}

var fpOnce sync.Once

// Prepare implements simkit.Preparer (outside the bubble).
func (Engine) Prepare(cfg simkit.RunConfig, scenario any) {
	fpOnce.Do(func() { util.EnableFailpoints() })
	// a failed send otherwise probes the store's liveness over a real socket
	_ = failpoint.Enable("tikvclient/injectLiveness", `return("reachable")`)
	rand.Seed(int64(cfg.Seed)) // back-off jitter of the code under test (global math/rand)
}

// Cleanup implements simkit.Preparer.
func (Engine) Cleanup(cfg simkit.RunConfig, scenario any) {}

// Execute implements simkit.Engine.
func (Engine) Execute(t *testing.T, cfg simkit.RunConfig, scenario any) *simkit.RunResult {
	sc := scenario.(*Scenario)
	s := simkit.New(cfg.Seed)
	res := &simkit.RunResult{}
	var w *world
	var truth map[string]string
	var endStamp uint64
	var endAt time.Duration
	s.Run(func() {
		var err error
		w, err = newWorld(s, sc)
		if err != nil {
			panic(fmt.Sprintf("rawsim world: %v", err))
		}
		w.scheduleTopo()
		var wg sync.WaitGroup
		for a := range sc.Actors {
			wg.Add(1)
			go w.runActor(a, &wg)
		}
		wg.Wait()
		// requests of failed calls and duplicates made by the network may still be in flight
		for i := 0; i < 8; i++ {
			s.Sleep(time.Second)
			if w.net.Quiet(900 * time.Millisecond) {
				break
			}
		}
		endStamp = s.Stamp()
		endAt = s.Now()
		truth = w.truth()
	})
	trace := w.net.Trace()
	layoutEnd := w.topo.Describe()
	regionsEnd := w.topo.regions()
	w.close()
	simkit.Settle()

	res.Aborted = s.Aborted
	res.Events = s.Events
	res.SimTime = s.Now()
	res.Stats = s.Stats()
	res.Trace = traceDigest(trace, w.hist)
	hsum := sha1.Sum([]byte(strings.Join(res.Trace, "\n")))
	res.SchedHash = hex.EncodeToString(hsum[:8])

	okOps, errOps := 0, 0
	for _, recs := range w.hist {
		for _, r := range recs {
			if r.Err == "" {
				okOps++
			} else {
				errOps++
			}
		}
	}
	topoChanges := res.Stats["topo.split"] + res.Stats["topo.merge"] + res.Stats["topo.leader-move"] - len(sc.Splits)
	res.Stats["topo.split"] -= len(sc.Splits) // the initial layout is not a change
	// Nontrivial: calls completed, and the run had more than one region or a fault or a topology change
	res.Nontrivial = okOps >= 3 && (w.regions0 > 1 || len(w.net.Fired) > 0 || topoChanges > 0)
	res.Stats["runs.multi-region"] = b2i(w.regions0 > 1 || regionsEnd > 1)
	res.Stats["runs.topology-changed"] = b2i(topoChanges > 0)
	res.Stats["runs.with-faults"] = b2i(len(w.net.Fired) > 0)
	res.Stats["runs.actors-"+fmt.Sprint(len(sc.Actors))] = 1
	res.Stats["runs.ttl"] = b2i(sc.TTLRun)
	res.Stats["ops.ok"] = okOps
	res.Stats["ops.error"] = errOps

	reachProbes(w, trace, res.Stats)

	var vs []simkit.Violation
	for _, p := range w.net.Panics {
		vs = append(vs, simkit.Violation{Property: "C11", Class: "backend-panic", Sig: firstWords(p, 5), Detail: p})
	}
	for _, p := range w.front.routing {
		cls := "key-not-in-region"
		if strings.HasPrefix(p, "ttl-count") {
			cls = "ttl-misaligned"
		}
		vs = append(vs, simkit.Violation{Property: "C11", Class: cls, Sig: firstWords(p, 3), Detail: p + " | layout at start: " + w.layout0 + " | layout at end: " + layoutEnd})
	}
	if s.Aborted == "" && sc.Mode == "exact" {
		// Mode exact loses no message and every injected fault hits one request once, so a call can
		// only run out of its retry budget (20 s of back-off) after several faults of its own; a call
		// that fails with fewer than three did not fail because of the network.
		for _, recs := range w.hist {
			for _, r := range recs {
				if r.Err == "" {
					continue
				}
				faults := 0
				for _, t := range trace {
					if t.Client == r.Client && t.SubmitSeq > r.Inv && t.SubmitSeq < r.Ret && t.Fate != simkit.Deliver {
						faults++
					}
				}
				if faults < 3 {
					vs = append(vs, simkit.Violation{Property: "C11", Class: "call-failed", Sig: r.Op.Kind + " " + firstWords(r.Err, 1),
						Detail: fmt.Sprintf("the call failed after %v of simulated time although only %d of its requests met an injected fault: %s | layout at start: %s | layout at end: %s", r.RetAt-r.InvAt, faults, fmtRec(r), w.layout0, layoutEnd)})
				}
			}
		}
	}
	if s.Aborted == "" {
		ever := everWritten(sc)
		for _, recs := range w.hist {
			for _, r := range recs {
				if r.Err != "" {
					continue
				}
				if cls, d := checkStructure(r, ever); cls != "" {
					vs = append(vs, simkit.Violation{Property: "C11", Class: cls, Sig: r.Op.Kind, Detail: d + " | " + fmtRec(r)})
				}
			}
		}
		if sc.Mode == "exact" && len(sc.Actors) == 1 {
			res.Stats["oracle.sequential"] = 1
			m := newSeqModel()
			lostTrack := false
			for _, r := range w.hist[0] {
				if r.Err != "" {
					// a call that failed may or may not have taken effect: the map is no longer known
					lostTrack = true
					res.Stats["oracle.sequential-stopped-after-error"] = 1
					break
				}
				if cls, d := m.check(r); cls != "" {
					vs = append(vs, simkit.Violation{Property: "C11", Class: cls, Sig: r.Op.Kind,
						Detail: d + " | call: " + fmtRec(r) + " | layout at start: " + w.layout0 + " | layout at end: " + layoutEnd + " | faults: " + fmtFired(w.net.Fired)})
					lostTrack = true
					break
				}
				res.Stats["oracle.calls-judged"]++
			}
			if !lostTrack {
				if cls, d := m.checkFinal(truth, endAt); cls != "" {
					vs = append(vs, simkit.Violation{Property: "C11", Class: cls, Sig: "final", Detail: d})
				}
			}
			for k, n := range m.skips {
				res.Stats["oracle.skip."+k] += n
			}
			for k, n := range m.probes {
				res.Stats["probe."+k] += n
			}
		} else {
			res.Stats["oracle.history"] = 1
			vs = append(vs, checkHistory(sc, w.hist, trace, truth, endStamp, res.Stats)...)
		}
	}
	res.Violations = dedup(vs)
	if len(res.Violations) > 0 || os.Getenv("VERIF_DUMP") != "" {
		res.Log = append(res.Log, "layout at start: "+w.layout0, "layout at end:   "+layoutEnd)
		var all []*OpRec
		for _, recs := range w.hist {
			all = append(all, recs...)
		}
		sort.SliceStable(all, func(i, j int) bool { return all[i].Inv < all[j].Inv })
		for _, r := range all {
			res.Log = append(res.Log, fmtRec(r))
		}
		for _, r := range trace {
			res.Log = append(res.Log, fmtRPC(r))
		}
		res.Log = append(res.Log, fmt.Sprintf("store after the run: %q", truth))
	}
	res.Sample = map[string]any{
		"mode": sc.Mode, "stores": sc.Stores, "splits": sc.Splits, "actors": len(sc.Actors), "ops_ok": okOps, "ops_err": errOps,
		"faults_fired": len(w.net.Fired), "topology_changes": topoChanges, "rpcs": len(trace), "layout_end": layoutEnd, "sim_ms": res.SimTime.Milliseconds(),
	}
	return res
}

// reachProbes counts the situations the property quantifies over that this run really contained.
func reachProbes(w *world, trace []*simkit.RPCRecord, st map[string]int) {
	for _, recs := range w.hist {
		for _, rec := range recs {
			var mine []*simkit.RPCRecord
			for _, r := range trace {
				if r.Client == rec.Client && r.SubmitSeq > rec.Inv && r.SubmitSeq < rec.Ret {
					mine = append(mine, r)
				}
			}
			if len(mine) == 0 {
				continue
			}
			regions := map[uint64]bool{}
			regionErrs, okBefore, errAfterOK := 0, false, false
			for _, r := range mine {
				regions[r.Req.Context.GetRegionId()] = true
				isErr := false
				if r.Resp != nil && r.Resp.Resp != nil {
					if re, _ := r.Resp.GetRegionError(); re != nil {
						isErr = true
					}
				}
				if isErr {
					regionErrs++
					if okBefore {
						errAfterOK = true
					}
				} else if r.Returned {
					okBefore = true
				}
			}
			first, last := mine[0].SubmitSeq, mine[len(mine)-1].SubmitSeq
			inside, between := false, false
			for _, c := range w.topo.changes {
				if c > rec.Inv && c < rec.Ret {
					inside = true
				}
				if c > first && c < last {
					between = true
				}
			}
			k := rec.Op.Kind
			if len(regions) > 1 {
				st["probe."+k+".multi-region"]++
			}
			if regionErrs > 0 {
				st["probe."+k+".region-error-retried"]++
			}
			if errAfterOK && (k == "scan" || k == "rscan" || k == "delrange" || k == "checksum" || k == "bget" || k == "bput" || k == "bputttl" || k == "bdel") {
				st["probe.multi-key.region-error-after-partial-success"]++
			}
			if inside {
				st["probe.topology-change-during-call"]++
			}
			if between {
				st["probe.topology-change-between-partial-requests"]++
			}
			if rec.Op.Pad > 0 || rec.Op.Rep > 0 || rec.Op.Fill > 0 {
				st["probe.oversized-batch"]++
				if rec.Op.Fill > 0 {
					st["probe.batch-with-distinct-filler-keys"]++
				}
			}
			if (k == "scan" || k == "rscan") && rec.Err == "" && len(rec.Keys) == rec.Op.Limit && len(mine) > 0 {
				// did the limit run out exactly where a region ended? (the last request of the call
				// was answered with as many pairs as it asked for, and the region it addressed holds
				// no further pair of the range)
				st["probe.scan.limit-reached"]++
			}
		}
	}
}

func dedup(vs []simkit.Violation) []simkit.Violation {
	seen := map[string]bool{}
	var out []simkit.Violation
	for _, v := range vs {
		k := v.Class + "/" + v.Sig
		if seen[k] {
			continue
		}
		seen[k] = true
		out = append(out, v)
	}
	return out
}

func fmtFired(fs []simkit.FiredFault) string {
	var sb strings.Builder
	for _, f := range fs {
		fmt.Fprintf(&sb, "%s@%s ", f.Fate, f.Key)
	}
	return sb.String()
}

func fmtRPC(r *simkit.RPCRecord) string {
	out := fmt.Sprintf("   rpc %d c%d %s -> %s region %d epoch %v fate=%q submit=%d exec=%d done=%d t=%v", r.ID, r.Client, r.Type, r.Addr, r.Req.Context.GetRegionId(), r.Req.Context.GetRegionEpoch(), r.Fate, r.SubmitSeq, r.ExecSeq, r.DoneSeq, r.SubmitAt)
	req := fmt.Sprint(r.Req.Req)
	if len(req) > 200 {
		req = req[:200] + ".."
	}
	out += " req={" + req + "}"
	if r.Resp != nil && r.Resp.Resp != nil {
		rs := fmt.Sprint(r.Resp.Resp)
		if len(rs) > 200 {
			rs = rs[:200] + ".."
		}
		out += " resp={" + rs + "}"
	}
	if r.RetErr != nil {
		out += " err=" + r.RetErr.Error()
	}
	return out
}

// traceDigest is the canonical event log of a run: its RPCs in submission order (ties by
// identity) and the outcome of every call.
func traceDigest(tr []*simkit.RPCRecord, hist [][]*OpRec) []string {
	recs := append([]*simkit.RPCRecord(nil), tr...)
	sort.SliceStable(recs, func(i, j int) bool {
		if recs[i].SubmitAt != recs[j].SubmitAt {
			return recs[i].SubmitAt < recs[j].SubmitAt
		}
		if recs[i].Identity != recs[j].Identity {
			return recs[i].Identity < recs[j].Identity
		}
		return recs[i].Occ < recs[j].Occ
	})
	out := make([]string, 0, len(recs))
	for _, r := range recs {
		out = append(out, fmt.Sprintf("%d %s#%d %s", r.SubmitAt.Nanoseconds(), r.Identity, r.Occ, r.Fate))
	}
	for _, hs := range hist {
		for _, r := range hs {
			line := fmtRec(r)
			if i := strings.Index(line, " ERR "); i >= 0 {
				// which of two errors that became ready at the same instant is reported is a runtime choice
				line = line[:i] + " ERR"
			}
			// stamps depend on the order in which goroutines woken by one event ran: not canonical
			if i := strings.Index(line, " ["); i >= 0 {
				if j := strings.Index(line[i:], "] t="); j >= 0 {
					line = line[:i] + line[i+j+1:]
				}
			}
			out = append(out, line)
		}
	}
	return out
}

func b2i(b bool) int {
	if b {
		return 1
	}
	return 0
}

func firstWords(s string, n int) string {
	f := strings.Fields(s)
	if len(f) > n {
		f = f[:n]
	}
	return strings.Join(f, " ")
}

// Shrink implements simkit.Engine: drop actors, calls, topology events, faults, borders.
func (Engine) Shrink(scenario any) []any {
	sc := scenario.(*Scenario)
	var out []any
	clone := func() *Scenario {
		b, _ := json.Marshal(sc)
		var c Scenario
		_ = json.Unmarshal(b, &c)
		return &c
	}
	if len(sc.Actors) > 1 {
		for i := range sc.Actors {
			c := clone()
			c.Actors = append(c.Actors[:i], c.Actors[i+1:]...)
			out = append(out, c)
		}
	}
	if sc.Net.Random {
		c := clone()
		c.Net.Random = false
		out = append(out, c)
	}
	for i := range sc.Topo {
		c := clone()
		c.Topo = append(c.Topo[:i], c.Topo[i+1:]...)
		out = append(out, c)
	}
	for a := range sc.Actors {
		// halves first, then single calls
		if n := len(sc.Actors[a].Ops); n > 3 {
			c := clone()
			c.Actors[a].Ops = c.Actors[a].Ops[:n/2]
			out = append(out, c)
		}
		for j := len(sc.Actors[a].Ops) - 1; j >= 0; j-- {
			if len(sc.Actors[a].Ops) == 1 {
				break
			}
			c := clone()
			c.Actors[a].Ops = append(c.Actors[a].Ops[:j], c.Actors[a].Ops[j+1:]...)
			out = append(out, c)
		}
	}
	for i := range sc.Splits {
		c := clone()
		c.Splits = append(c.Splits[:i], c.Splits[i+1:]...)
		out = append(out, c)
	}
	if sc.Stores > 1 {
		c := clone()
		c.Stores = 1
		out = append(out, c)
	}
	if sc.Net.JitterUs > 0 {
		c := clone()
		c.Net.JitterUs = 0
		out = append(out, c)
	}
	if sc.Net.ParkPD {
		c := clone()
		c.Net.ParkPD = false
		out = append(out, c)
	}
	for a := range sc.Actors {
		for j := range sc.Actors[a].Ops {
			if sc.Actors[a].Ops[j].GapUs > 0 {
				c := clone()
				c.Actors[a].Ops[j].GapUs = 0
				out = append(out, c)
			}
		}
	}
	return out
}
