package rawsim

import (
	"fmt"
	"math/rand"
	"sort"
	"strings"

	"github.com/tikv/client-go/v2/verifsim/simkit"
)

// The whole key universe of a run. Every written key is one of dataKeys, so the store
// never holds anything else and "a key of the range that was not returned" is a statement
// about a finite, known set.
var dataKeys = []string{"a", "b", "c", "c\x00", "d", "e", "f", "g", "h"}

// splitCands are the region borders a run can have: every one but "cm" is also a data
// key (keys exactly on region borders); "c\x00" is the immediate successor of "c".
var splitCands = []string{"b", "c", "c\x00", "cm", "d", "e", "f", "g", "h"}

// boundPool are the bounds of ranges (scan, delete-range, checksum): "" = unbounded.
var boundPool = []string{"", "0", "a", "b", "c", "c\x00", "cm", "d", "e", "f", "g", "h", "z"}

// Op is one API call of an actor (or a pause).
type Op struct {
	Kind    string   `json:"k"`
	Key     string   `json:"key,omitempty"` // point key, or the first bound of a range call
	End     string   `json:"end,omitempty"` // second bound of a range call
	Keys    []string `json:"keys,omitempty"`
	Vals    []string `json:"vals,omitempty"`
	TTLs    []uint64 `json:"ttls,omitempty"`
	Val     string   `json:"val,omitempty"`
	TTL     uint64   `json:"ttl,omitempty"`
	Prev    *string  `json:"prev,omitempty"` // cas: nil = "expect that the key does not exist"
	Limit   int      `json:"limit,omitempty"`
	KeyOnly bool     `json:"keyonly,omitempty"`
	SleepMs int      `json:"sleep_ms,omitempty"`
	Pad     int      `json:"pad,omitempty"` // every value is padded with this many bytes (large batches)
	Rep     int      `json:"rep,omitempty"` // the key list is repeated this many times (large batches)
	// Fill > 0 (bget, bdel of single-actor runs): that many DISTINCT keys that are never written
	// ("<first key>\x01NNNN") follow the key list, so that one region receives more keys than one request may
	// carry and the keys of the list sit at the head of its first partial request
	Fill  int `json:"fill,omitempty"`
	GapUs int `json:"gap_us,omitempty"`
	// TimeoutUs > 0: the call runs under a context that expires after this much simulated time
	// (mode lossy only: a call that gave up may or may not have taken effect).
	TimeoutUs int `json:"timeout_us,omitempty"`
}

// Actor is one goroutine with its own rawkv.Client.
type Actor struct {
	StartUs int  `json:"start_us"`
	Ops     []Op `json:"ops"`
}

// TopoEv is a topology change at a fixed simulated instant.
type TopoEv struct {
	AtUs int    `json:"at_us"`
	Kind string `json:"kind"` // split | merge | leader
	Key  string `json:"key"`
}

// NetCfg configures the simulated network.
type NetCfg struct {
	Random   bool                   `json:"random"`
	Rate     float64                `json:"rate"`
	Kinds    []simkit.Fate          `json:"kinds,omitempty"`
	JitterUs int                    `json:"jitter_us"`
	Plan     map[string]simkit.Fate `json:"plan,omitempty"`
	ParkPD   bool                   `json:"park_pd"`
}

// Scenario is the explicit description of one run.
type Scenario struct {
	Mode   string   `json:"mode"`
	Stores int      `json:"stores"`
	Splits []string `json:"splits"`
	Actors []Actor  `json:"actors"`
	Topo   []TopoEv `json:"topo,omitempty"`
	Net    NetCfg   `json:"net"`
	TTLRun bool     `json:"ttl_run"`
	// Shared: all actors use one rawkv.Client (one region cache) instead of one each.
	Shared bool `json:"shared,omitempty"`
}

var exactKinds = []simkit.Fate{
	simkit.TopoSplit, simkit.TopoLeader, simkit.TopoSplitAfter,
	simkit.RENotLeader, simkit.RENotLeaderHint, simkit.REEpochNotMatch,
	simkit.REServerIsBusy, simkit.REStaleCommand, simkit.RERegionNotFound,
	simkit.Delay,
	// the topology fates are the point of the exercise: twice the weight
	simkit.TopoSplit, simkit.TopoLeader, simkit.TopoSplitAfter, simkit.REEpochNotMatch,
	// rarer refusals of a store, all retried by the sender (after a back-off or a reload) and without any effect
	simkit.REMaxTSNotSynced, simkit.REDiskFull, simkit.RERecoveryInProgress, simkit.REIsWitness, simkit.RERegionNotInitialized,
	simkit.REKeyNotInRegion, simkit.REMismatchPeerID, simkit.REReadIndexNotReady, simkit.REProposalInMerging, simkit.REServerIsBusyHint,
	simkit.REStoreNotMatch,
}

var lossyKinds = append(append([]simkit.Fate(nil), exactKinds...),
	simkit.DropReq, simkit.DropResp, simkit.DropReqSlow, simkit.DropRespSlow, simkit.Dup,
	simkit.DropReq, simkit.DropResp, simkit.Dup,
	// definite refusals (the call fails, nothing was done) and a request that is executed but answered "result undetermined"
	simkit.REFlashbackInProgress, simkit.RERaftTooLarge, simkit.ExecUndetermined)

type gen struct {
	r      *rand.Rand
	sc     *Scenario
	gm     map[string]string // generation-time guess of the content (no ttl, no concurrency)
	actor  int
	nval   int
	ttlRun bool
	single bool // the only actor of the run
}

func (g *gen) key() string { return dataKeys[g.r.Intn(len(dataKeys))] }

func (g *gen) val() string {
	g.nval++
	return fmt.Sprintf("v%d.%d", g.actor, g.nval)
}

func (g *gen) keys(n int) []string {
	out := make([]string, 0, n)
	for i := 0; i < n; i++ {
		if len(out) > 0 && g.r.Intn(4) == 0 {
			out = append(out, out[g.r.Intn(len(out))]) // duplicate inside the batch
			continue
		}
		out = append(out, g.key())
	}
	return out
}

func (g *gen) bound() string { return boundPool[g.r.Intn(len(boundPool))] }

// rangeBounds returns (low, high) with low <= high most of the time, "" = unbounded.
func (g *gen) rangeBounds() (string, string) {
	lo, hi := g.bound(), g.bound()
	if g.r.Intn(10) > 0 && hi != "" && lo > hi {
		lo, hi = hi, lo
	}
	if g.r.Intn(4) == 0 {
		hi = "" // empty end bound
	}
	if g.r.Intn(5) == 0 {
		lo = "" // empty start bound
	}
	return lo, hi
}

func inRange(k, lo, hi string) bool { return k >= lo && (hi == "" || k < hi) }

// limitFor picks a limit: 1, exactly the number of (guessed) pairs up to a region border,
// the exact size of the range, or something else.
func (g *gen) limitFor(lo, hi string, reverse bool) int {
	var ks []string
	for k := range g.gm {
		if inRange(k, lo, hi) {
			ks = append(ks, k)
		}
	}
	sort.Strings(ks)
	switch g.r.Intn(6) {
	case 0:
		return 1
	case 1, 2:
		// end exactly on a border
		b := splitCands[g.r.Intn(len(splitCands))]
		n := 0
		for _, k := range ks {
			if !reverse && k < b || reverse && k >= b {
				n++
			}
		}
		if n > 0 {
			return n
		}
		return 1 + g.r.Intn(3)
	case 3:
		if len(ks) > 0 {
			return len(ks)
		}
		return 2
	case 4:
		return 100
	}
	return 1 + g.r.Intn(6)
}

func (g *gen) op() Op {
	r := g.r
	gap := r.Intn(1500)
	if r.Intn(6) == 0 {
		gap += r.Intn(8000)
	}
	op := Op{GapUs: gap}
	x := r.Intn(100)
	switch {
	case x < 12:
		op.Kind, op.Key, op.Val = "put", g.key(), g.val()
		g.gm[op.Key] = op.Val
	case x < 18:
		op.Kind, op.Key, op.Val = "putttl", g.key(), g.val()
		if g.ttlRun {
			op.TTL = uint64(1 + r.Intn(2))
		}
		g.gm[op.Key] = op.Val
	case x < 26:
		op.Kind, op.Key = "get", g.key()
	case x < 30:
		op.Kind, op.Key = "getttl", g.key()
	case x < 35:
		op.Kind, op.Key = "del", g.key()
		delete(g.gm, op.Key)
	case x < 44:
		op.Kind, op.Keys = "bget", g.keys(1+r.Intn(6))
		if r.Intn(25) == 0 {
			op.Rep = 70 + r.Intn(30) // more keys than one request may carry
		}
		if g.single && r.Intn(8) == 0 {
			op.Fill = 513 + r.Intn(300)
		}
	case x < 54:
		op.Kind, op.Keys = "bput", g.keys(1+r.Intn(6))
		for range op.Keys {
			op.Vals = append(op.Vals, g.val())
		}
		if g.ttlRun && r.Intn(2) == 0 {
			op.Kind = "bputttl"
			for range op.Keys {
				op.TTLs = append(op.TTLs, uint64(r.Intn(3))) // 0 = no ttl
			}
		}
		if r.Intn(25) == 0 {
			op.Pad = 5000 + r.Intn(3000) // more bytes than one request may carry
		}
		for i, k := range op.Keys {
			g.gm[k] = op.Vals[i]
		}
	case x < 59:
		op.Kind, op.Keys = "bdel", g.keys(1+r.Intn(4))
		if g.single && r.Intn(6) == 0 {
			op.Fill = 513 + r.Intn(300)
		}
		for _, k := range op.Keys {
			delete(g.gm, k)
		}
	case x < 65:
		op.Kind = "delrange"
		op.Key, op.End = g.rangeBounds()
		if r.Intn(3) > 0 && op.End == "" && op.Key == "" {
			op.Key = g.key() // do not wipe everything too often
		}
		for k := range g.gm {
			if inRange(k, op.Key, op.End) && (op.End == "" || op.Key < op.End) {
				delete(g.gm, k)
			}
		}
	case x < 77:
		op.Kind = "scan"
		op.Key, op.End = g.rangeBounds()
		op.Limit = g.limitFor(op.Key, op.End, false)
		op.KeyOnly = r.Intn(4) == 0
	case x < 88:
		op.Kind = "rscan"
		lo, hi := g.rangeBounds()
		// ReverseScan(startKey = upper bound (exclusive), endKey = lower bound (inclusive))
		op.Key, op.End = hi, lo
		if op.Key == "" && r.Intn(8) > 0 {
			op.Key = "z" // an empty upper bound is documented as unsupported: rare
		}
		op.Limit = g.limitFor(lo, op.Key, true)
		op.KeyOnly = r.Intn(4) == 0
	case x < 93:
		op.Kind = "checksum"
		op.Key, op.End = g.rangeBounds()
	default:
		op.Kind, op.Key, op.Val = "cas", g.key(), g.val()
		cur, ok := g.gm[op.Key]
		switch y := r.Intn(10); {
		case y < 6:
			if ok {
				op.Prev = &cur
			}
		case y < 8:
			if !ok {
				v := "v9.9"
				op.Prev = &v
			} // else: expect-not-exist on an existing key
		default:
			// a value written earlier to some key
			v := fmt.Sprintf("v%d.%d", g.actor, 1+r.Intn(g.nval))
			op.Prev = &v
		}
		if ok && op.Prev != nil && *op.Prev == cur || !ok && op.Prev == nil {
			g.gm[op.Key] = op.Val
		}
	}
	return op
}

func genScenario(cfg simkit.RunConfig, mode string) *Scenario {
	r := simkit.Rand(cfg.Seed, "gen")
	sc := &Scenario{Mode: mode, Stores: 1 + r.Intn(3)}
	// layout: 0..5 initial borders
	nsplit := r.Intn(6)
	perm := r.Perm(len(splitCands))
	for i := 0; i < nsplit; i++ {
		sc.Splits = append(sc.Splits, splitCands[perm[i]])
	}
	sort.Strings(sc.Splits)
	nactors := 1
	switch mode {
	case "exact":
		if r.Intn(10) >= 6 {
			nactors = 2 + r.Intn(2)
		}
	case "lossy":
		nactors = 1 + r.Intn(3)
	}
	sc.TTLRun = nactors == 1 && mode == "exact" && r.Intn(3) == 0
	sc.Shared = nactors > 1 && r.Intn(3) == 0
	estUs := 0
	for a := 0; a < nactors; a++ {
		g := &gen{r: r, sc: sc, gm: map[string]string{}, actor: a, ttlRun: sc.TTLRun, single: nactors == 1}
		nops := 6 + r.Intn(9)
		if nactors == 3 {
			nops = 5 + r.Intn(5)
		}
		act := Actor{StartUs: a*137 + r.Intn(100)*1000*(a%2)}
		// some content first, so that reads and scans see something
		if r.Intn(4) > 0 {
			op := Op{Kind: "bput", Keys: g.keys(3 + r.Intn(5))}
			for i, k := range op.Keys {
				op.Vals = append(op.Vals, g.val())
				g.gm[k] = op.Vals[i]
			}
			act.Ops = append(act.Ops, op)
		}
		us := 0
		for i := 0; i < nops; i++ {
			if sc.TTLRun && r.Intn(4) == 0 {
				ms := 200 + r.Intn(1400)
				act.Ops = append(act.Ops, Op{Kind: "sleep", SleepMs: ms})
				us += ms * 1000
			}
			op := g.op()
			if mode == "lossy" && r.Intn(12) == 0 {
				op.TimeoutUs = 500 + r.Intn(20000)
			}
			act.Ops = append(act.Ops, op)
			us += 6000 + op.GapUs
		}
		if us > estUs {
			estUs = us
		}
		sc.Actors = append(sc.Actors, act)
	}
	// scheduled topology changes
	ntopo := r.Intn(7)
	if r.Intn(5) == 0 {
		ntopo = 0
	}
	for i := 0; i < ntopo; i++ {
		ev := TopoEv{AtUs: r.Intn(estUs + 1)}
		switch x := r.Intn(10); {
		case x < 4:
			ev.Kind, ev.Key = "split", splitCands[r.Intn(len(splitCands))]
		case x < 7:
			ev.Kind, ev.Key = "merge", dataKeys[r.Intn(len(dataKeys))]
		default:
			ev.Kind, ev.Key = "leader", dataKeys[r.Intn(len(dataKeys))]
		}
		sc.Topo = append(sc.Topo, ev)
	}
	sort.SliceStable(sc.Topo, func(i, j int) bool { return sc.Topo[i].AtUs < sc.Topo[j].AtUs })
	// network
	sc.Net.JitterUs = []int{0, 500, 3000, 3000}[r.Intn(4)]
	sc.Net.ParkPD = r.Intn(2) == 0
	if r.Intn(6) > 0 {
		sc.Net.Random = true
		sc.Net.Rate = []float64{0.05, 0.1, 0.2, 0.3}[r.Intn(4)]
		if mode == "lossy" {
			sc.Net.Kinds = lossyKinds
		} else {
			sc.Net.Kinds = exactKinds
		}
	}
	return sc
}

func fmtOp(op *Op) string {
	var sb strings.Builder
	fmt.Fprintf(&sb, "%s", op.Kind)
	switch op.Kind {
	case "put", "putttl":
		fmt.Fprintf(&sb, "(%q=%q ttl=%d)", op.Key, op.Val, op.TTL)
	case "get", "getttl", "del":
		fmt.Fprintf(&sb, "(%q)", op.Key)
	case "bget", "bdel":
		fmt.Fprintf(&sb, "(%q rep=%d fill=%d)", op.Keys, op.Rep, op.Fill)
	case "bput", "bputttl":
		fmt.Fprintf(&sb, "(%q=%q ttls=%v pad=%d)", op.Keys, op.Vals, op.TTLs, op.Pad)
	case "delrange", "checksum":
		fmt.Fprintf(&sb, "[%q,%q)", op.Key, op.End)
	case "scan":
		fmt.Fprintf(&sb, "(start=%q end=%q limit=%d keyonly=%v)", op.Key, op.End, op.Limit, op.KeyOnly)
	case "rscan":
		fmt.Fprintf(&sb, "(upper=%q lower=%q limit=%d keyonly=%v)", op.Key, op.End, op.Limit, op.KeyOnly)
	case "cas":
		if op.Prev == nil {
			fmt.Fprintf(&sb, "(%q: not-exist -> %q)", op.Key, op.Val)
		} else {
			fmt.Fprintf(&sb, "(%q: %q -> %q)", op.Key, *op.Prev, op.Val)
		}
	case "sleep":
		fmt.Fprintf(&sb, "(%dms)", op.SleepMs)
	}
	return sb.String()
}
