package rawsim

import (
	"fmt"
	"sort"
	"strings"
	"time"

	"github.com/anishathalye/porcupine"
	"github.com/tikv/client-go/v2/tikvrpc"
	"github.com/tikv/client-go/v2/verifsim/simkit"
)

// The history oracle (several actors, or message loss): every call is cut into its per-key
// parts, every part keeps the invoke / return stamps of the whole call, and the parts of each
// key must be linearisable as one register ("" = absent). Nothing is assumed about the
// atomicity of a multi-key call.
//
// A part whose effect is uncertain is a "maybe" part: it may take effect or not (two
// outcomes), and when the caller was told nothing reliable about *when* (the call failed, so
// requests of it may still be in flight; or the network duplicated a request of it) it never
// returns (its return stamp is after everything).

type part struct {
	kind    byte // 'w' write, 'd' delete, 'r' read (val "" = absent), 'p' read "present, value unknown", 'c' compare-and-swap
	val     string
	prev    *string // cas: expected (nil = not exist)
	old     *string // cas: returned previous value
	swapped bool
	maybe   bool
	desc    string
}

type regState string

func stepPart(s string, p *part) []interface{} {
	switch p.kind {
	case 'w':
		if p.maybe {
			return []interface{}{p.val, s}
		}
		return []interface{}{p.val}
	case 'd':
		if p.maybe {
			return []interface{}{"", s}
		}
		return []interface{}{""}
	case 'r':
		if s == p.val {
			return []interface{}{s}
		}
		return nil
	case 'p':
		if s != "" {
			return []interface{}{s}
		}
		return nil
	case 'c':
		match := p.prev == nil && s == "" || p.prev != nil && s != "" && s == *p.prev
		if p.maybe {
			if match {
				return []interface{}{p.val, s}
			}
			return []interface{}{s}
		}
		if (p.old == nil) != (s == "") || p.old != nil && *p.old != s {
			return nil
		}
		if match != p.swapped {
			return nil
		}
		if match {
			return []interface{}{p.val}
		}
		return []interface{}{s}
	}
	return nil
}

type histChecker struct {
	steps    int
	budget   int
	exceeded bool
}

func (h *histChecker) model() porcupine.Model {
	nm := porcupine.NondeterministicModel{
		Init: func() []interface{} { return []interface{}{""} },
		Step: func(state, input, output interface{}) []interface{} {
			h.steps++
			if h.steps > h.budget {
				h.exceeded = true
				return nil
			}
			return stepPart(state.(string), input.(*part))
		},
		Equal: func(a, b interface{}) bool { return a.(string) == b.(string) },
	}
	return nm.ToModel()
}

var writeCmds = map[tikvrpc.CmdType]bool{
	tikvrpc.CmdRawPut: true, tikvrpc.CmdRawBatchPut: true, tikvrpc.CmdRawDelete: true,
	tikvrpc.CmdRawBatchDelete: true, tikvrpc.CmdRawDeleteRange: true, tikvrpc.CmdRawCompareAndSwap: true,
}

// extraExecs counts, for one call, the executions of its write requests the caller cannot
// account for: answered executions whose answer was lost (the client sends the request again)
// and duplicates made by the network (these run after the original, possibly after the call).
func extraExecs(rec *OpRec, trace []*simkit.RPCRecord) (lost, dup, attempts int) {
	for _, r := range trace {
		if r.Client != rec.Client || r.SubmitSeq <= rec.Inv || r.SubmitSeq >= rec.Ret || !writeCmds[r.Type] {
			continue
		}
		attempts++
		if r.Fate == simkit.Dup {
			dup++
		} else if r.Executed && (!r.Returned || r.Fate == simkit.ExecUndetermined) {
			lost++ // executed, but the caller was not told (no answer, or the answer "result undetermined")
		}
	}
	return
}

const maxPartsPerKey = 40

type keyHist struct {
	ops []porcupine.Operation
}

// buildHistory cuts the recorded calls into per-key register operations.
func buildHistory(sc *Scenario, hist [][]*OpRec, trace []*simkit.RPCRecord, truth map[string]string, endStamp uint64, stats map[string]int) map[string]*keyHist {
	khs := map[string]*keyHist{}
	for _, k := range dataKeys {
		khs[k] = &keyHist{}
	}
	inf := int64(endStamp) + 10
	add := func(rec *OpRec, k string, p part, ret int64) {
		kh := khs[k]
		if kh == nil {
			return
		}
		pp := p
		pp.desc = fmt.Sprintf("a%d.%d %s", rec.Actor, rec.Idx, fmtOp(rec.Op))
		kh.ops = append(kh.ops, porcupine.Operation{ClientId: rec.Actor, Input: &pp, Call: int64(rec.Inv), Return: ret, Output: nil})
	}
	for _, recs := range hist {
		for _, rec := range recs {
			op := rec.Op
			failed := rec.Err != ""
			ret := int64(rec.Ret)
			lost, dup, attempts := extraExecs(rec, trace)
			// write emits the parts of one written key
			write := func(k string, p part) {
				if failed {
					// nothing is known: every attempt may have run, may still run
					n := attempts
					if n < 1 {
						n = 1
					}
					if n > 3 {
						n = 3
					}
					p.maybe = true
					for i := 0; i < n; i++ {
						add(rec, k, p, inf)
					}
					return
				}
				add(rec, k, p, ret)
				p.maybe = true
				for i := 0; i < lost && i < 3; i++ {
					add(rec, k, p, ret)
				}
				for i := 0; i < dup && i < 3; i++ {
					add(rec, k, p, inf)
				}
			}
			read := func(k string, v *string) {
				if failed {
					return
				}
				p := part{kind: 'r'}
				if v != nil {
					p.val = *v
				}
				add(rec, k, p, ret)
			}
			switch op.Kind {
			case "put", "putttl":
				write(op.Key, part{kind: 'w', val: opVal(op, -1)})
			case "bput", "bputttl":
				last := map[string]int{}
				count := map[string]int{}
				for i, k := range op.Keys {
					last[k] = i
					count[k]++
				}
				for _, k := range simkit.SortedKeys(last) {
					p := part{kind: 'w', val: opVal(op, last[k])}
					write(k, p)
					// a key listed n times may travel in up to n partial requests (the list is grouped by the region
					// each occurrence is located in, and the layout may change in between); each of them writes the
					// same value at its own instant inside the call - batch calls are not atomic across their parts
					if !failed {
						p.maybe = true
						for i := 1; i < count[k] && i < 4; i++ {
							add(rec, k, p, ret)
						}
					}
				}
			case "del":
				write(op.Key, part{kind: 'd'})
			case "bdel":
				seen := map[string]int{}
				for _, k := range op.Keys {
					seen[k]++
				}
				for _, k := range simkit.SortedKeys(seen) {
					write(k, part{kind: 'd'})
					if !failed {
						// as for bput: one deletion per partial request that carries the key
						for i := 1; i < seen[k] && i < 4; i++ {
							add(rec, k, part{kind: 'd', maybe: true}, ret)
						}
					}
				}
			case "delrange":
				for _, k := range dataKeys {
					if rangeHas(k, op.Key, op.End) {
						write(k, part{kind: 'd'})
					}
				}
			case "get":
				read(op.Key, rec.Val)
			case "getttl":
				if !failed {
					if rec.TTL == nil {
						add(rec, op.Key, part{kind: 'r'}, ret)
					} else {
						add(rec, op.Key, part{kind: 'p'}, ret)
					}
				}
			case "bget":
				if !failed && len(rec.Vals) == len(opKeys(op)) {
					// one part per distinct (key, answer)
					seen := map[string]bool{}
					for i, k := range opKeys(op) {
						v := rec.Vals[i]
						if v != nil && *v == "" {
							v = nil // mock artefact, see model.go
						}
						id := k + "\x01" + fmtP(v)
						if seen[id] {
							continue
						}
						seen[id] = true
						read(k, v)
					}
				}
			case "scan", "rscan":
				if failed || op.Limit <= 0 {
					break
				}
				lo, hi := op.Key, op.End
				if op.Kind == "rscan" {
					lo, hi = op.End, op.Key
					if hi == "" {
						break // documented as unsupported
					}
				}
				got := map[string]int{}
				for i, k := range rec.Keys {
					got[k] = i
				}
				full := len(rec.Keys) >= op.Limit
				for _, k := range dataKeys {
					if !rangeHas(k, lo, hi) {
						continue
					}
					if i, ok := got[k]; ok {
						if op.KeyOnly {
							add(rec, k, part{kind: 'p'}, ret)
						} else {
							v := rec.Values[i]
							read(k, &v)
						}
						continue
					}
					// not returned: an observation only for the part of the range the scan covered
					if full {
						lastK := rec.Keys[len(rec.Keys)-1]
						if op.Kind == "scan" && k > lastK || op.Kind == "rscan" && k < lastK {
							continue
						}
					}
					read(k, nil)
				}
			case "cas":
				p := part{kind: 'c', val: opVal(op, -1), prev: op.Prev, old: rec.Val, swapped: rec.Swapped}
				if failed {
					write(op.Key, p)
					break
				}
				add(rec, op.Key, p, ret)
				pm := p
				pm.maybe = true
				for i := 0; i < lost && i < 3; i++ {
					add(rec, op.Key, pm, ret)
				}
				for i := 0; i < dup && i < 3; i++ {
					add(rec, op.Key, pm, inf)
				}
			case "checksum":
				stats["hist.checksum-not-judged"]++
			}
		}
	}
	// what the store holds after the run
	for _, k := range dataKeys {
		p := &part{kind: 'r', val: truth[k], desc: "content of the store after the run"}
		khs[k].ops = append(khs[k].ops, porcupine.Operation{ClientId: len(sc.Actors), Input: p, Call: int64(endStamp) + 1, Return: int64(endStamp) + 2})
	}
	return khs
}

// checkHistory returns the violations of the history oracle.
func checkHistory(sc *Scenario, hist [][]*OpRec, trace []*simkit.RPCRecord, truth map[string]string, endStamp uint64, stats map[string]int) []simkit.Violation {
	var out []simkit.Violation
	for k := range truth {
		known := false
		for _, d := range dataKeys {
			known = known || d == k
		}
		if !known {
			out = append(out, simkit.Violation{Property: "C11", Class: "final-state", Sig: "foreign-key", Detail: fmt.Sprintf("after the run the store holds key %q that no call ever wrote", k)})
		}
	}
	khs := buildHistory(sc, hist, trace, truth, endStamp, stats)
	for _, k := range dataKeys {
		kh := khs[k]
		if len(kh.ops) <= 1 {
			continue
		}
		if len(kh.ops) > maxPartsPerKey {
			stats["hist.inconclusive-too-long"]++
			continue
		}
		hc := &histChecker{budget: 3_000_000}
		res := porcupine.CheckOperationsTimeout(hc.model(), kh.ops, 10*time.Second)
		stats["hist.keys-checked"]++
		switch {
		case hc.exceeded || res == porcupine.Unknown:
			stats["hist.inconclusive-budget"]++
		case res == porcupine.Illegal:
			ops := append([]porcupine.Operation(nil), kh.ops...)
			sort.SliceStable(ops, func(i, j int) bool { return ops[i].Call < ops[j].Call })
			var sb strings.Builder
			for _, o := range ops {
				p := o.Input.(*part)
				fmt.Fprintf(&sb, "\n   [%d,%d] %s", o.Call, o.Return, describePart(p))
			}
			out = append(out, simkit.Violation{Property: "C11", Class: "not-linearizable", Sig: "key-register",
				Detail: fmt.Sprintf("the observations of key %q are not those of one register (per-key parts of the calls, [invoke,return] stamps; \"maybe\" = may or may not have taken effect):%s", k, sb.String())})
		}
	}
	return out
}

func describePart(p *part) string {
	m := ""
	if p.maybe {
		m = " (maybe)"
	}
	switch p.kind {
	case 'w':
		return fmt.Sprintf("write %q%s  <- %s", short(p.val), m, p.desc)
	case 'd':
		return fmt.Sprintf("delete%s  <- %s", m, p.desc)
	case 'r':
		if p.val == "" {
			return fmt.Sprintf("read absent  <- %s", p.desc)
		}
		return fmt.Sprintf("read %q  <- %s", short(p.val), p.desc)
	case 'p':
		return fmt.Sprintf("read present  <- %s", p.desc)
	case 'c':
		return fmt.Sprintf("cas expect %s new %q -> previous %s swapped %v%s  <- %s", fmtP(p.prev), short(p.val), fmtP(p.old), p.swapped, m, p.desc)
	}
	return "?"
}

func short(s string) string {
	if len(s) > 24 {
		return s[:24] + ".."
	}
	return s
}
