package sendsim

import (
	"context"
	"fmt"
	"sort"
	"strings"
	"time"

	"github.com/pingcap/kvproto/pkg/errorpb"
	"github.com/pkg/errors"
	"github.com/tikv/client-go/v2/config/retry"
	"github.com/tikv/client-go/v2/verifsim/simkit"
	"google.golang.org/grpc/status"
)

const propertyID = "C10"

// outcome classifies what the call returned (for statistics and the trace).
func (r *run) outcome() string {
	switch {
	case r.leaked:
		return "never-returned"
	case r.aborted != "":
		return "aborted:" + r.aborted
	case !r.returned:
		return "not-run"
	case r.err != nil:
		return "error:" + errKind(r.err)
	case r.resp == nil:
		return "nil-nil"
	}
	re, e := r.resp.GetRegionError()
	if e != nil {
		return "unreadable-response"
	}
	if re != nil {
		if r.deliveredRegionErr(re) {
			return "region-error:" + regionErrKind(re)
		}
		if retry.IsFakeRegionError(re) {
			return "region-error:fake-epoch-not-match"
		}
		return "region-error:undelivered:" + regionErrKind(re)
	}
	return "success"
}

func (r *run) deliveredRegionErr(re *errorpb.Error) bool {
	for _, a := range r.attempts {
		if a.RegionErr != nil && a.RegionErr == re {
			return true
		}
	}
	return false
}

func errKind(err error) string {
	c := errors.Cause(err)
	switch {
	case c == context.Canceled:
		return "context-canceled"
	case c == context.DeadlineExceeded:
		return "context-deadline"
	case c == errRejectedTS:
		return "read-ts-rejected"
	}
	if s, ok := status.FromError(c); ok {
		return "grpc-" + s.Code().String()
	}
	msg := c.Error()
	if strings.HasPrefix(msg, "sendsim:") {
		return "stub-rpc-error"
	}
	// the library's own error values ("region unavailable", "tikv server busy", ...) are short constants
	if len(msg) <= 40 && !strings.ContainsAny(msg, "0123456789") {
		return strings.ReplaceAll(msg, " ", "-")
	}
	return fmt.Sprintf("%T", c)
}

func regionErrKind(e *errorpb.Error) string {
	switch {
	case e.GetNotLeader() != nil:
		return "not-leader"
	case e.GetEpochNotMatch() != nil:
		return "epoch-not-match"
	case e.GetRegionNotFound() != nil:
		return "region-not-found"
	case e.GetServerIsBusy() != nil:
		return "server-is-busy"
	case e.GetStaleCommand() != nil:
		return "stale-command"
	case e.GetStoreNotMatch() != nil:
		return "store-not-match"
	case e.GetDataIsNotReady() != nil:
		return "data-is-not-ready"
	case e.GetMaxTimestampNotSynced() != nil:
		return "max-ts-not-synced"
	case e.GetDiskFull() != nil:
		return "disk-full"
	}
	return "other"
}

func (a *attempt) line() string {
	pause := "-"
	if a.Pause >= 0 {
		pause = fmtDur(a.Pause)
	}
	tgt := a.Addr
	if a.Fwd != "" {
		tgt = a.Addr + "=>" + a.Fwd
	}
	kind := "sync"
	if a.Async {
		kind = "async"
	}
	inner := "inner[n/a]"
	if a.InnerOK {
		inner = "inner[" + a.Inner.String() + "]"
	}
	sym := a.Sym
	if a.Sym != a.ScriptSym {
		sym = a.ScriptSym + "->" + a.Sym
	}
	return fmt.Sprintf("#%d %s start=%s pause=%s dur=%s to=%s peer=%d req[%s] %s type=%s busyTh=%d maxExec=%d answer=%s",
		a.Idx, kind, fmtDur(a.Start), pause, fmtDur(a.End-a.Start), tgt, a.PeerID, a.Outer, inner, a.ReadType, a.BusyThMs, a.MaxExecMs, sym)
}

// witness renders the attempts (head and tail when there are many).
func (r *run) witness() string {
	var sb strings.Builder
	sb.WriteString("scenario: " + r.sc.String() + "\n")
	n := len(r.attempts)
	for i, a := range r.attempts {
		if n > 24 && i >= 12 && i < n-8 {
			if i == 12 {
				fmt.Fprintf(&sb, "  ... %d attempts omitted ...\n", n-20)
			}
			continue
		}
		sb.WriteString("  " + a.line() + "\n")
	}
	fmt.Fprintf(&sb, "  outcome: %s after %s, %d attempts", r.outcome(), fmtDur(r.elapsed), n)
	if r.err != nil {
		msg := r.err.Error()
		if len(msg) > 160 {
			msg = msg[:160] + "..."
		}
		sb.WriteString(" err=" + strings.ReplaceAll(msg, "\n", " | "))
	}
	return sb.String()
}

func (r *run) sig(class string, extra ...string) string {
	kind := "read"
	if r.sc.isWrite() {
		kind = "write"
	}
	parts := append([]string{class, kind, r.sc.ReadMode}, extra...)
	return strings.Join(parts, ":")
}

// judge applies the oracle of C10 to the recorded run.
func (r *run) judge() []simkit.Violation {
	var out []simkit.Violation
	add := func(class, sig, what string) {
		out = append(out, simkit.Violation{Property: propertyID, Class: class, Sig: sig,
			Detail: what + "\n" + r.witness()})
	}
	sc := r.sc
	n := len(r.attempts)

	// (1) the call returns
	if r.hang {
		add("hang", r.sig("hang"), fmt.Sprintf("the call did not return within the simulated-time budget of %v (returned after abort: %v)", r.hangBudget(), !r.leaked))
	}
	if r.aborted == "attempt-budget" {
		add("unbounded-attempts", r.sig("unbounded-attempts"), fmt.Sprintf("more than %d attempts within one call", maxAttempts))
	}
	// (2) no retrying without backing off
	if r.aborted == "busy-window" {
		syms := map[string]bool{}
		lo := max(0, r.busyAt-busyWindowK())
		// the signature names the answers of the steady state (the last half of the window): a
		// finite prefix of other faults does not change it
		for _, a := range r.attempts[max(lo, r.busyAt-busyWindowK()/2) : r.busyAt+1] {
			if a.Sym != "abort" {
				syms[a.Sym] = true
			}
		}
		var ss []string
		for s := range syms {
			ss = append(ss, s)
		}
		sort.Strings(ss)
		add("busy-retry", r.sig("busy-retry", strings.Join(ss, "+")),
			fmt.Sprintf("%d consecutive attempts (#%d..#%d) with no simulated time between the end of one and the start of the next: the send retries without backing off", r.busyAt-lo+1, lo, r.busyAt))
	}
	if r.returned && r.aborted == "" {
		var inRPC time.Duration
		for _, a := range r.attempts {
			inRPC += a.End - a.Start
		}
		allowed := 2*time.Duration(sc.BudgetMs)*time.Millisecond +
			time.Duration(retry.VerifSendsimExcludedSleepLimitMs())*time.Millisecond + inRPC + slack
		if r.elapsed > allowed {
			add("over-budget", r.sig("over-budget"), fmt.Sprintf("the call took %v of simulated time: more than 2 x budget (%dms) + the limit of budget-exempt back-off (%dms) + time inside RPCs (%v) + slack (%v)",
				r.elapsed, sc.BudgetMs, retry.VerifSendsimExcludedSleepLimitMs(), inRPC, slack))
		}

		// (3) what is returned
		switch {
		case r.err != nil:
			// an error: acceptable outcome
		case r.resp == nil:
			add("no-outcome", r.sig("no-outcome"), "the call returned neither a response nor an error")
		default:
			re, e := r.resp.GetRegionError()
			switch {
			case e != nil:
				add("fabricated-success", r.sig("fabricated-success"), "the returned response cannot be inspected for a region error: "+e.Error())
			case re != nil:
				if !r.deliveredRegionErr(re) && !retry.IsFakeRegionError(re) {
					add("fabricated-region-error", r.sig("fabricated-region-error", regionErrKind(re)),
						"the call returned a region error that no store delivered in this call and that is not the client's pseudo EpochNotMatch: "+re.String())
				}
			default:
				same := func(a *attempt) bool {
					return a.Resp != nil && a.RegionErr == nil && (a.Resp == r.resp || a.Resp.Resp == r.resp.Resp)
				}
				switch {
				case n > 0 && same(r.attempts[n-1]):
				default:
					older := -1
					for i := n - 2; i >= 0; i-- {
						if same(r.attempts[i]) {
							older = i
							break
						}
					}
					fromWarm := false
					for _, w := range r.warm {
						if same(w) {
							fromWarm = true
						}
					}
					if fromWarm {
						add("stale-response", r.sig("stale-response", "previous-call"), fmt.Sprintf("the call returned the genuine response of the PREVIOUS call served by the same sender, not a response of this call (%d attempts)", n))
					} else if older >= 0 {
						add("stale-response", r.sig("stale-response"), fmt.Sprintf("the call returned the genuine response of attempt #%d, not of the last attempt #%d", older, n-1))
					} else {
						add("fabricated-success", r.sig("fabricated-success"), fmt.Sprintf("the call returned a success (%T) that is not a response any store delivered in this call (%d attempts)", r.resp.Resp, n))
					}
				}
			}
		}
	}

	// (4) writes are never flagged as replica / stale reads
	if sc.isWrite() {
		for _, a := range r.attempts {
			if a.Outer.ReplicaRead || a.Outer.StaleRead || (a.InnerOK && (a.Inner.ReplicaRead || a.Inner.StaleRead)) {
				which := "replica-read"
				if a.Outer.StaleRead || a.Inner.StaleRead {
					which = "stale-read"
				}
				add("write-flagged", r.sig("write-flagged", which), fmt.Sprintf("attempt #%d of the write command %s was sent flagged %s (request fields: %s; context inside the command: %s)", a.Idx, sc.Cmd, which, a.Outer, a.Inner))
				break
			}
		}
	}
	// (5) validation
	if sc.Validate == "reject" && !sc.isWrite() && n > 0 {
		add("sent-after-rejection", r.sig("sent-after-rejection"), fmt.Sprintf("the read-ts validator rejected the timestamp (%d validator calls) but %d attempts were sent", r.validateCalls, n))
	}
	// (6) re-sends carry the retry marker
	for _, a := range r.attempts {
		if a.Idx == 0 {
			continue
		}
		if !a.Outer.Retry || (a.InnerOK && !a.Inner.Retry) {
			where := "sync-path"
			if r.attempts[0].Async {
				where = "after-async-first"
			}
			add("retry-unmarked", r.sig("retry-unmarked", where), fmt.Sprintf("attempt #%d is a re-send within the call but does not carry the retry marker (request field: %v, context inside the command: %v)", a.Idx, a.Outer.Retry, a.Inner.Retry))
			break
		}
	}
	return out
}

// trace is the canonical event log of the run (simulated times only, no pointers).
func (r *run) trace() []string {
	out := make([]string, 0, len(r.attempts)+1)
	for _, a := range r.attempts {
		out = append(out, a.line())
	}
	out = append(out, fmt.Sprintf("outcome=%s elapsed=%s attempts=%d validator-calls=%d liveness-probes=%d", r.outcome(), fmtDur(r.elapsed), len(r.attempts), r.validateCalls, r.livenessCalls))
	return out
}
