package sendsim

import (
	"fmt"
	"math/rand"

	"github.com/tikv/client-go/v2/verifsim/simkit"
)

// Fault symbols: what the client stub answers to one attempt. The property's
// alphabet {RPC error, NotLeader with/without hint, EpochNotMatch with/without
// regions, RegionNotFound, ServerIsBusy with/without wait estimate, StaleCommand,
// StoreNotMatch, DataIsNotReady, MaxTimestampNotSynced, DiskFull, deadline
// exceeded, unknown error} expands to the 17 concrete symbols below ("with hint"
// and "with regions" have two concrete forms each). "ok" (a genuine response) is
// never written in a script: it is what follows the script (tail).
const (
	SymRPC        = "rpc"       // transport error, no response (flavour: Scenario.RPCFlavor)
	SymNotLeader  = "nl"        // NotLeader, no leader hint
	SymNLHint     = "nl+hint"   // NotLeader, hint = another voter of the region (rule: Scenario.HintRule)
	SymNLHintX    = "nl+hintx"  // NotLeader, hint = a peer the cached region does not contain
	SymEpoch      = "enm"       // EpochNotMatch without current regions
	SymEpochNew   = "enm+new"   // EpochNotMatch with current regions that are newer (a split)
	SymEpochOld   = "enm+old"   // EpochNotMatch with current regions older than the cached one (client ahead of TiKV)
	SymRegionNF   = "rnf"       // RegionNotFound
	SymBusy       = "busy"      // ServerIsBusy, no wait estimate
	SymBusyWait   = "busy+wait" // ServerIsBusy with EstimatedWaitMs
	SymStaleCmd   = "stale"     // StaleCommand
	SymStoreNM    = "snm"       // StoreNotMatch
	SymDataNR     = "dnr"       // DataIsNotReady
	SymMaxTS      = "mts"       // MaxTimestampNotSynced
	SymDiskFull   = "full"      // DiskFull
	SymDeadline   = "deadline"  // deadline exceeded after the RPC timeout (flavour: Scenario.DeadlineFlavor)
	SymUnknown    = "unknown"   // a region error with no known field set
	symOK         = "ok"        // genuine response (tail only)
	symCallerGone = "ctx"       // not a script symbol: the caller's context ended while the stub was waiting
)

// Alphabet is the ordered fault alphabet used by the enumeration.
var Alphabet = []string{
	SymRPC, SymNotLeader, SymNLHint, SymNLHintX, SymEpoch, SymEpochNew, SymEpochOld, SymRegionNF,
	SymBusy, SymBusyWait, SymStaleCmd, SymStoreNM, SymDataNR, SymMaxTS, SymDiskFull, SymDeadline, SymUnknown,
}

// Replica-read modes.
const (
	ModeLeader       = "leader"
	ModeFollower     = "follower"
	ModeMixed        = "mixed"
	ModeLearner      = "learner"
	ModePreferLeader = "prefer-leader"
	ModeStale        = "stale"
)

var readModes = []string{ModeLeader, ModeFollower, ModeMixed, ModeLearner, ModePreferLeader, ModeStale}

// Commands.
const (
	CmdGet      = "get"
	CmdPrewrite = "prewrite"
	CmdCommit   = "commit"
)

// Scenario is the explicit description of one run: one call of SendReqCtx /
// SendReqAsync and the world around it.
type Scenario struct {
	Gen string `json:"gen"` // "enum" | "random"
	API string `json:"api"` // "sync" (SendReqCtx) | "async" (SendReqAsync)

	// The fault script: attempt i (0-based) is answered Script[i]. After the script:
	// CycleLen == 0: every further attempt gets a genuine response ("ok");
	// CycleLen == n > 0: the last n symbols repeat forever.
	Script   []string `json:"script"`
	CycleLen int      `json:"cycle_len"`

	ReadMode string `json:"read_mode"`
	Cmd      string `json:"cmd"`

	Forwarding bool `json:"forwarding"`
	Learner    bool `json:"learner"`    // a 4th store with a learner peer
	LeaderIdx  int  `json:"leader_idx"` // which of the 3 voters is the leader known to PD

	// Liveness[i] is what the liveness probe of store i answers ("reachable",
	// "unreachable", "unknown"); missing entries are reachable. From RecoverAtMs
	// (if > 0) on every store is reachable. With DownOverride every attempt whose
	// first hop is a store that is currently "unreachable" fails with an RPC error
	// whatever the script says (a store that is really down).
	Liveness     []string `json:"liveness,omitempty"`
	RecoverAtMs  int      `json:"recover_at_ms,omitempty"`
	DownOverride bool     `json:"down_override,omitempty"`
	Slow         []int    `json:"slow,omitempty"` // store indexes whose health status is "slow"

	LabelStore  int   `json:"label_store"`            // -1: no label option; i: WithMatchLabels(id=<store i>); 9: a label no store has
	MatchStores []int `json:"match_stores,omitempty"` // WithMatchStores(store indexes)
	LeaderOnly  bool  `json:"leader_only,omitempty"`  // WithLeaderOnly

	BudgetMs        int    `json:"budget_ms"`         // back-off budget of the caller's Backoffer (> 0)
	TimeoutMs       int    `json:"timeout_ms"`        // RPC timeout passed to the send
	BusyThresholdMs int    `json:"busy_threshold_ms"` // request's busy threshold
	RequestSource   string `json:"request_source,omitempty"`

	LatencyUs []int `json:"latency_us"` // latency of attempt i = LatencyUs[i % len] (simulated)

	CallerDeadlineMs int `json:"caller_deadline_ms"`  // 0: none; else the caller's context has this deadline
	CallerCancelAtUs int `json:"caller_cancel_at_us"` // -1: never; else the caller cancels at this instant

	Validate string `json:"validate"` // "noop" (library's no-op validator) | "accept" | "reject"

	// Warmup: before the call under test the same sender serves one fault-free call (the
	// sender object is reused across calls in the library); its response must never be what
	// the call under test returns.
	Warmup bool `json:"warmup,omitempty"`

	HintRule       string `json:"hint_rule"`       // "next": hint the voter after the target; "pingpong": voter 0 <-> voter 1
	RPCFlavor      string `json:"rpc_flavor"`      // "plain" | "unavailable" | "grpc-canceled"
	DeadlineFlavor string `json:"deadline_flavor"` // "ctx" | "grpc" | "busy-reason" | "message"

	RandSeed int64 `json:"rand_seed"` // seed of the global math/rand (back-off jitter, replica tie-break)
}

func (sc *Scenario) isWrite() bool { return sc.Cmd != CmdGet }

// symbolAt returns the script symbol of attempt i.
func (sc *Scenario) symbolAt(i int) string {
	n := len(sc.Script)
	if i < n {
		return sc.Script[i]
	}
	if sc.CycleLen <= 0 || n == 0 {
		return symOK
	}
	c := sc.CycleLen
	if c > n {
		c = n
	}
	return sc.Script[n-c+(i-n)%c]
}

func (sc *Scenario) latencyAt(i int) int {
	if len(sc.LatencyUs) == 0 {
		return 0
	}
	return sc.LatencyUs[i%len(sc.LatencyUs)]
}

func (sc *Scenario) livenessOf(idx int) string {
	if idx >= 0 && idx < len(sc.Liveness) && sc.Liveness[idx] != "" {
		return sc.Liveness[idx]
	}
	return "reachable"
}

// ---------------------------------------------------------------------------------------------
// enumeration

// enumConfigs is the fixed list of configurations every enumerated script is crossed with.
// It is independent of the seed: the enumeration is complete for (script of length <= 3) x
// (tail: ok | cycle) x (these configurations).
func enumConfigs() []Scenario {
	base := Scenario{
		Gen: "enum", API: "sync", ReadMode: ModeLeader, Cmd: CmdGet, LabelStore: -1,
		BudgetMs: 2000, TimeoutMs: 30000, LatencyUs: []int{1000}, CallerCancelAtUs: -1,
		Validate: "noop", HintRule: "next", RPCFlavor: "plain", DeadlineFlavor: "ctx",
	}
	mk := func(f func(*Scenario)) Scenario {
		sc := base
		f(&sc)
		return sc
	}
	return []Scenario{
		/* 0 */ mk(func(sc *Scenario) {}),
		/* 1 */ mk(func(sc *Scenario) { sc.Cmd = CmdPrewrite; sc.HintRule = "pingpong" }),
		/* 2 */ mk(func(sc *Scenario) { sc.Cmd = CmdCommit; sc.Forwarding = true; sc.RPCFlavor = "unavailable" }),
		/* 3 */ mk(func(sc *Scenario) {
			sc.Forwarding = true
			sc.Liveness = []string{"unreachable"}
			sc.DownOverride = true
			sc.Validate = "accept"
		}),
		/* 4 */ mk(func(sc *Scenario) { sc.ReadMode = ModeFollower; sc.LatencyUs = []int{0}; sc.Warmup = true }),
		/* 5 */ mk(func(sc *Scenario) { sc.ReadMode = ModeMixed; sc.LabelStore = 1; sc.LeaderIdx = 2 }),
		/* 6 */ mk(func(sc *Scenario) { sc.ReadMode = ModeLearner; sc.Learner = true }),
		/* 7 */ mk(func(sc *Scenario) { sc.ReadMode = ModePreferLeader; sc.Slow = []int{0}; sc.RequestSource = "test" }),
		/* 8 */ mk(func(sc *Scenario) { sc.ReadMode = ModeStale; sc.LabelStore = 1; sc.DeadlineFlavor = "grpc" }),
		/* 9 */ mk(func(sc *Scenario) { sc.ReadMode = ModeStale; sc.TimeoutMs = 1000; sc.BudgetMs = 40000 }),
		/* 10 */ mk(func(sc *Scenario) { sc.API = "async"; sc.Validate = "accept"; sc.Warmup = true }),
		/* 11 */ mk(func(sc *Scenario) { sc.ReadMode = ModeFollower; sc.Cmd = CmdPrewrite }),
		/* 12 */ mk(func(sc *Scenario) { sc.ReadMode = ModeMixed; sc.Cmd = CmdCommit; sc.API = "async" }),
		/* 13 */ mk(func(sc *Scenario) { sc.ReadMode = ModeStale; sc.Cmd = CmdPrewrite }),
		/* 14 */ mk(func(sc *Scenario) {
			sc.BusyThresholdMs = 50
			sc.TimeoutMs = 1000
			sc.DeadlineFlavor = "busy-reason"
			sc.RPCFlavor = "grpc-canceled"
		}),
		/* 15 */ mk(func(sc *Scenario) {
			sc.API = "async"
			sc.Forwarding = true
			sc.Liveness = []string{"", "unreachable", "unknown"}
			sc.BudgetMs = 100
			sc.DeadlineFlavor = "message"
			sc.TimeoutMs = 1000
		}),
		/* 16 */ mk(func(sc *Scenario) { sc.Validate = "reject"; sc.ReadMode = ModeMixed }),
		/* 17 */ mk(func(sc *Scenario) {
			sc.Validate = "reject"
			sc.API = "async"
			sc.ReadMode = ModeStale
			sc.Warmup = true
		}),
		/* 18 */ mk(func(sc *Scenario) {
			// the leader's store is unreachable and an earlier call of the same sender already went through a proxy:
			// the region remembers that proxy when the call under test starts
			sc.Forwarding = true
			sc.Liveness = []string{"unreachable"}
			sc.DownOverride = true
			sc.Warmup = true
		}),
	}
}

// enumScriptCount returns the number of scripts of length <= maxLen.
func enumScriptCount(maxLen int) int {
	total, p := 0, 1
	for l := 0; l <= maxLen; l++ {
		total += p
		p *= len(Alphabet)
	}
	return total
}

// enumScript returns the k-th script in length-then-lexicographic order.
func enumScript(k, maxLen int) []string {
	p := 1
	for l := 0; l <= maxLen; l++ {
		if k < p {
			out := make([]string, l)
			for i := l - 1; i >= 0; i-- {
				out[i] = Alphabet[k%len(Alphabet)]
				k /= len(Alphabet)
			}
			return out
		}
		k -= p
		p *= len(Alphabet)
	}
	return nil
}

const enumMaxLen = 3

// enumTotal is the number of enumerated scenarios: scripts x {tail ok, tail cycle} x configurations.
func enumTotal() int { return enumScriptCount(enumMaxLen) * 2 * len(enumConfigs()) }

func generateEnum(cfg simkit.RunConfig) (*Scenario, bool) {
	cfgs := enumConfigs()
	idx := cfg.Index
	ci := idx % len(cfgs)
	rest := idx / len(cfgs)
	tail := rest % 2
	si := rest / 2
	if si >= enumScriptCount(enumMaxLen) {
		return nil, false
	}
	sc := cfgs[ci]
	sc.Script = enumScript(si, enumMaxLen)
	if tail == 1 {
		sc.CycleLen = len(sc.Script)
	}
	// The jitter seed is a function of the index only: the enumeration does not depend on VERIF_SEED.
	sc.RandSeed = int64(idx)*7919 + 17
	return &sc, true
}

// ---------------------------------------------------------------------------------------------
// random sampling

func pick[T any](r *rand.Rand, xs ...T) T { return xs[r.Intn(len(xs))] }

func generateRandom(cfg simkit.RunConfig) *Scenario {
	r := simkit.Rand(cfg.Seed, "gen")
	sc := &Scenario{Gen: "random", LabelStore: -1, CallerCancelAtUs: -1}
	sc.API = pick(r, "sync", "sync", "async")
	// script
	n := r.Intn(13) // 0..12
	// a run draws from a random subset of the alphabet so that repeated symbols are frequent
	subset := Alphabet
	if r.Intn(3) > 0 {
		k := 1 + r.Intn(5)
		subset = nil
		for i := 0; i < k; i++ {
			subset = append(subset, Alphabet[r.Intn(len(Alphabet))])
		}
	}
	for i := 0; i < n; i++ {
		sc.Script = append(sc.Script, subset[r.Intn(len(subset))])
	}
	if n > 0 && r.Intn(10) < 3 {
		sc.CycleLen = 1 + r.Intn(min(n, 3))
	}
	sc.ReadMode = readModes[r.Intn(len(readModes))]
	sc.Cmd = pick(r, CmdGet, CmdGet, CmdGet, CmdPrewrite, CmdCommit)
	if sc.isWrite() && r.Intn(2) == 0 {
		sc.ReadMode = ModeLeader // what every caller in the library does for writes
	}
	sc.Forwarding = r.Intn(3) == 0
	sc.Learner = sc.ReadMode == ModeLearner || r.Intn(5) == 0
	sc.LeaderIdx = r.Intn(3)
	nStores := 3
	if sc.Learner {
		nStores = 4
	}
	if r.Intn(2) == 0 {
		for i := 0; i < nStores; i++ {
			sc.Liveness = append(sc.Liveness, pick(r, "reachable", "reachable", "reachable", "reachable", "unreachable", "unreachable", "unknown"))
		}
		sc.DownOverride = r.Intn(2) == 0
		if r.Intn(3) == 0 {
			sc.RecoverAtMs = 1 + r.Intn(30000)
		}
	}
	for i := 0; i < nStores; i++ {
		if r.Intn(6) == 0 {
			sc.Slow = append(sc.Slow, i)
		}
	}
	switch r.Intn(6) {
	case 0, 1:
		sc.LabelStore = r.Intn(nStores)
	case 2:
		sc.LabelStore = 9
	}
	if r.Intn(8) == 0 {
		sc.MatchStores = []int{r.Intn(nStores)}
		if r.Intn(2) == 0 {
			sc.MatchStores = append(sc.MatchStores, r.Intn(nStores))
		}
	}
	sc.LeaderOnly = r.Intn(12) == 0
	sc.BudgetMs = pick(r, 1, 50, 500, 2000, 2000, 20000, 40000)
	sc.TimeoutMs = pick(r, 100, 1000, 1000, 30000, 30000, 60000)
	if r.Intn(5) == 0 {
		sc.BusyThresholdMs = pick(r, 5, 50, 500)
	}
	if r.Intn(4) == 0 {
		sc.RequestSource = "test"
	}
	nl := 1 + r.Intn(4)
	for i := 0; i < nl; i++ {
		sc.LatencyUs = append(sc.LatencyUs, pick(r, 0, 0, 100, 1000, 1000, 20000, 500000, 3000000))
	}
	if r.Intn(5) == 0 {
		sc.CallerDeadlineMs = 1 + r.Intn(20000)
	}
	if r.Intn(5) == 0 {
		sc.CallerCancelAtUs = r.Intn(10_000_000)
		if r.Intn(3) == 0 {
			sc.CallerCancelAtUs = r.Intn(3000)
		}
	}
	sc.Validate = pick(r, "noop", "noop", "accept", "accept", "reject")
	sc.Warmup = r.Intn(4) == 0
	sc.HintRule = pick(r, "next", "pingpong")
	sc.RPCFlavor = pick(r, "plain", "plain", "unavailable", "grpc-canceled")
	sc.DeadlineFlavor = pick(r, "ctx", "ctx", "grpc", "busy-reason", "message")
	sc.RandSeed = int64(cfg.Seed>>1) | 1
	return sc
}

// ---------------------------------------------------------------------------------------------
// shrinking

func cloneScenario(sc *Scenario) *Scenario {
	c := *sc
	c.Script = append([]string(nil), sc.Script...)
	c.Liveness = append([]string(nil), sc.Liveness...)
	c.Slow = append([]int(nil), sc.Slow...)
	c.MatchStores = append([]int(nil), sc.MatchStores...)
	c.LatencyUs = append([]int(nil), sc.LatencyUs...)
	return &c
}

func shrink(sc *Scenario) []any {
	var out []any
	add := func(f func(c *Scenario) bool) {
		c := cloneScenario(sc)
		if f(c) {
			out = append(out, c)
		}
	}
	// drop one script symbol
	for i := range sc.Script {
		i := i
		add(func(c *Scenario) bool {
			c.Script = append(c.Script[:i:i], c.Script[i+1:]...)
			if c.CycleLen > len(c.Script) {
				c.CycleLen = len(c.Script)
			}
			return true
		})
	}
	add(func(c *Scenario) bool {
		if c.CycleLen > 1 {
			c.CycleLen--
			return true
		}
		return false
	})
	add(func(c *Scenario) bool {
		ok := len(c.Liveness) > 0
		c.Liveness, c.DownOverride, c.RecoverAtMs = nil, false, 0
		return ok
	})
	add(func(c *Scenario) bool { ok := len(c.Slow) > 0; c.Slow = nil; return ok })
	add(func(c *Scenario) bool { ok := c.LabelStore != -1; c.LabelStore = -1; return ok })
	add(func(c *Scenario) bool { ok := len(c.MatchStores) > 0; c.MatchStores = nil; return ok })
	add(func(c *Scenario) bool { ok := c.LeaderOnly; c.LeaderOnly = false; return ok })
	add(func(c *Scenario) bool { ok := c.Forwarding; c.Forwarding = false; return ok })
	add(func(c *Scenario) bool { ok := c.Learner && c.ReadMode != ModeLearner; c.Learner = false; return ok })
	add(func(c *Scenario) bool { ok := c.CallerDeadlineMs != 0; c.CallerDeadlineMs = 0; return ok })
	add(func(c *Scenario) bool { ok := c.CallerCancelAtUs >= 0; c.CallerCancelAtUs = -1; return ok })
	add(func(c *Scenario) bool { ok := c.BusyThresholdMs != 0; c.BusyThresholdMs = 0; return ok })
	add(func(c *Scenario) bool { ok := c.RequestSource != ""; c.RequestSource = ""; return ok })
	add(func(c *Scenario) bool {
		ok := c.Validate != "noop" && c.Validate != "reject"
		c.Validate = "noop"
		return ok
	})
	add(func(c *Scenario) bool { ok := c.LeaderIdx != 0; c.LeaderIdx = 0; return ok })
	add(func(c *Scenario) bool { ok := c.Warmup; c.Warmup = false; return ok })
	add(func(c *Scenario) bool { ok := c.API != "sync"; c.API = "sync"; return ok })
	add(func(c *Scenario) bool {
		ok := len(c.LatencyUs) != 1 || c.LatencyUs[0] != 0
		c.LatencyUs = []int{0}
		return ok
	})
	add(func(c *Scenario) bool { ok := c.BudgetMs != 2000; c.BudgetMs = 2000; return ok })
	add(func(c *Scenario) bool { ok := c.TimeoutMs != 30000; c.TimeoutMs = 30000; return ok })
	return out
}

func (sc *Scenario) String() string {
	return fmt.Sprintf("api=%s mode=%s cmd=%s script=%v cycle=%d fwd=%v learner=%v leader=%d live=%v down=%v slow=%v label=%d stores=%v budget=%dms timeout=%dms busyTh=%d deadline=%dms cancel@%dus validate=%s warmup=%v",
		sc.API, sc.ReadMode, sc.Cmd, sc.Script, sc.CycleLen, sc.Forwarding, sc.Learner, sc.LeaderIdx, sc.Liveness, sc.DownOverride, sc.Slow,
		sc.LabelStore, sc.MatchStores, sc.BudgetMs, sc.TimeoutMs, sc.BusyThresholdMs, sc.CallerDeadlineMs, sc.CallerCancelAtUs, sc.Validate, sc.Warmup)
}
