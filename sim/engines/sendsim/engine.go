// Package sendsim is the simulation engine of property C10: one call of
// RegionRequestSender.SendReqCtx (or SendReqAsync) at a time runs inside a
// testing/synctest bubble against a 3-replica region of a mock cluster; a client
// stub answers attempt number i from an explicit fault script and records what
// was sent; all back-off sleeps, RPC timeouts and caller deadlines are simulated
// time. The oracle checks that the call returns, that it does not retry without
// backing off, that what it returns was really delivered by a store (or is a
// region error / an error), and the flags of every attempt.
package sendsim

import (
	"crypto/sha1"
	"encoding/hex"
	"encoding/json"
	"math/rand"
	"os"
	"strings"
	"testing"

	"github.com/tikv/client-go/v2/verifsim/simkit"
)

// Engine implements simkit.Engine.
type Engine struct{}

// LightRuns: tiny runs without pooled library objects (see simkit.RunOne).
func (Engine) LightRuns() bool { return true }

// Name implements simkit.Engine.
func (Engine) Name() string { return "sendsim" }

// Decode implements simkit.Engine.
func (Engine) Decode(raw json.RawMessage) (any, error) {
	var sc Scenario
	if err := json.Unmarshal(raw, &sc); err != nil {
		return nil, err
	}
	return &sc, nil
}

// Generate implements simkit.Engine. Modes: "enum" (default), "random".
func (Engine) Generate(cfg simkit.RunConfig) (any, bool) {
	switch cfg.Mode {
	case "", "enum":
		sc, ok := generateEnum(cfg)
		if !ok {
			return nil, false
		}
		return sc, true
	case "random":
		return generateRandom(cfg), true
	}
	panic("sendsim: unknown mode " + cfg.Mode)
}

// Prepare implements simkit.Preparer: the back-off jitter and the replica tie-break of the
// code under test draw from the global math/rand source, which is seeded per run, outside
// the bubble.
func (Engine) Prepare(cfg simkit.RunConfig, scenario any) {
	rand.Seed(scenario.(*Scenario).RandSeed)
}

// Cleanup implements simkit.Preparer.
func (Engine) Cleanup(cfg simkit.RunConfig, scenario any) {}

// Shrink implements simkit.Engine.
func (Engine) Shrink(scenario any) []any { return shrink(scenario.(*Scenario)) }

// Execute implements simkit.Engine (inside the bubble).
func (Engine) Execute(t *testing.T, cfg simkit.RunConfig, scenario any) *simkit.RunResult {
	sc := scenario.(*Scenario)
	r := &run{sc: sc, stats: map[string]int{}}
	r.execute()

	res := &simkit.RunResult{Stats: r.stats}
	res.SimTime = r.now()
	res.Events = len(r.attempts)
	res.Trace = r.trace()
	h := sha1.Sum([]byte(strings.Join(res.Trace, "\n")))
	res.SchedHash = hex.EncodeToString(h[:8])
	res.Violations = r.judge()
	if r.leaked {
		res.Aborted = "call-never-returned"
	}
	out := r.outcome()
	// Nontrivial: the send had to take at least one decision after a fault (two or more
	// attempts), or it ended without a genuine success.
	res.Nontrivial = len(r.attempts) >= 2 || out != "success"

	st := r.stats
	st["runs.api."+sc.API]++
	st["runs.mode."+sc.ReadMode]++
	st["runs.cmd."+sc.Cmd]++
	st["runs.validate."+sc.Validate]++
	st["runs.forwarding"] += b2i(sc.Forwarding)
	st["runs.learner"] += b2i(sc.Learner)
	st["runs.cycle-tail"] += b2i(sc.CycleLen > 0)
	st["runs.labels"] += b2i(sc.LabelStore >= 0 || len(sc.MatchStores) > 0)
	st["runs.some-store-not-reachable"] += b2i(func() bool {
		for _, l := range sc.Liveness {
			if l == "unreachable" || l == "unknown" {
				return true
			}
		}
		return false
	}())
	st["runs.caller-deadline"] += b2i(sc.CallerDeadlineMs > 0)
	st["runs.caller-cancel"] += b2i(sc.CallerCancelAtUs >= 0)
	st["caller.cancel-fired-during-call"] += b2i(r.cancelFired)
	key := out
	if i := strings.Index(key, ":undelivered"); i >= 0 {
		key = key[:i+len(":undelivered")]
	}
	st["outcome."+key]++
	st["attempts"] += len(r.attempts)
	st["runs.zero-attempts"] += b2i(len(r.attempts) == 0)
	sawLeaderRead, sawFlagged := false, false
	for _, a := range r.attempts {
		st["answer."+a.Sym]++
		if a.Sym != a.ScriptSym {
			st["answer.overridden."+a.Sym]++
		}
		st["attempts.forwarded"] += b2i(a.Fwd != "")
		st["attempts.replica-read"] += b2i(a.Outer.ReplicaRead)
		st["attempts.stale-read"] += b2i(a.Outer.StaleRead)
		st["attempts.retry-marked"] += b2i(a.Outer.Retry)
		st["attempts.async"] += b2i(a.Async)
		st["attempts.paused-before"] += b2i(a.Pause > 0)
		if a.Outer.ReplicaRead || a.Outer.StaleRead {
			sawFlagged = true
		} else {
			sawLeaderRead = true
		}
	}
	st["reach.flagged-then-plain-read"] += b2i(sawFlagged && sawLeaderRead)
	st["reach.validator-called"] += b2i(r.validateCalls > 0)
	st["reach.validator-rejected"] += b2i(r.validateCalls > 0 && sc.Validate == "reject")
	st["reach.liveness-probed"] += b2i(r.livenessCalls > 0)
	st["reach.conn-closed"] += b2i(r.closedAddrs > 0)
	st["reach.zero-pause-run>=8"] += b2i(r.zeroRunMax >= 8)
	st["reach.zero-pause-run>=16"] += b2i(r.zeroRunMax >= 16)
	st["reach.zero-pause-run>=32"] += b2i(r.zeroRunMax >= 32)
	st["reach.attempts>=20"] += b2i(len(r.attempts) >= 20)
	if cfg.Mode == "" || cfg.Mode == "enum" {
		if cfg.Index == 0 {
			// reported once per check (run 0 exists exactly once over all workers)
			st["enum.exhaustive"] = 1
			st["enum.alphabet"] = len(Alphabet)
			st["enum.max-script-len"] = enumMaxLen
			st["enum.scripts"] = enumScriptCount(enumMaxLen)
			st["enum.configurations"] = len(enumConfigs())
			st["enum.total-scenarios"] = enumTotal()
		}
	}

	if len(res.Violations) > 0 || os.Getenv("VERIF_DUMP") != "" {
		res.Log = append(append([]string{"scenario: " + sc.String()}, res.Trace...), r.log...)
	}
	res.Sample = map[string]any{
		"api": sc.API, "mode": sc.ReadMode, "cmd": sc.Cmd, "script": sc.Script, "cycle_len": sc.CycleLen,
		"attempts": len(r.attempts), "outcome": out, "sim_ms": r.elapsed.Milliseconds(), "sched_hash": res.SchedHash,
	}
	return res
}
