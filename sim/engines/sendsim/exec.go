package sendsim

import (
	"context"
	"fmt"
	"os"
	"strconv"
	"sync"
	"time"

	"github.com/pingcap/kvproto/pkg/errorpb"
	"github.com/pingcap/kvproto/pkg/kvrpcpb"
	"github.com/pingcap/kvproto/pkg/metapb"
	"github.com/pkg/errors"
	"github.com/tikv/client-go/v2/config/retry"
	"github.com/tikv/client-go/v2/internal/apicodec"
	"github.com/tikv/client-go/v2/internal/client"
	"github.com/tikv/client-go/v2/internal/locate"
	"github.com/tikv/client-go/v2/internal/mockstore/mocktikv"
	"github.com/tikv/client-go/v2/kv"
	"github.com/tikv/client-go/v2/oracle"
	"github.com/tikv/client-go/v2/tikvrpc"
	"github.com/tikv/client-go/v2/util/async"
	"google.golang.org/grpc/codes"
	"google.golang.org/grpc/status"
)

// Budgets of one run (stated in CHECK.md).
const (
	// K: more than this many consecutive attempts with no simulated time between the end of
	// one attempt and the start of the next is "retrying without backing off".
	defaultBusyWindowK = 64
	// more attempts than this within one call is "unbounded".
	maxAttempts = 1000
	// slack added to every simulated-time bound.
	slack = 60 * time.Second
)

// busyWindowK returns K. SENDSIM_K overrides it (debugging aid only: e.g. SENDSIM_K=100000 shows
// that a busy-retry witness really runs into the attempt budget).
func busyWindowK() int {
	if v := os.Getenv("SENDSIM_K"); v != "" {
		if n, err := strconv.Atoi(v); err == nil && n > 0 {
			return n
		}
	}
	return defaultBusyWindowK
}

// attempt is what the client stub records about one SendRequest / SendRequestAsync.
type attempt struct {
	Idx       int
	Start     time.Duration // simulated time since the start of the run
	End       time.Duration
	Pause     time.Duration // Start - End of the previous attempt; -1 for the first
	Async     bool
	Addr      string // first hop
	Fwd       string // forwarded host ("" = none)
	PeerID    uint64
	StoreID   uint64 // store of the target peer (request context)
	Outer     flags  // tikvrpc.Request fields (embedded kvrpcpb.Context)
	Inner     flags  // kvrpcpb.Context inside the command request, after AttachContext
	InnerOK   bool
	ReadType  string
	BusyThMs  uint32
	MaxExecMs uint64
	Source    string
	ScriptSym string // what the script said
	Sym       string // what was answered (may differ: down store, caller gone, RPC timeout)
	Resp      *tikvrpc.Response
	RegionErr *errorpb.Error
	Err       error
}

type flags struct{ ReplicaRead, StaleRead, Retry bool }

func (f flags) String() string {
	return fmt.Sprintf("rr=%d sr=%d retry=%d", b2i(f.ReplicaRead), b2i(f.StaleRead), b2i(f.Retry))
}

func b2i(b bool) int {
	if b {
		return 1
	}
	return 0
}

type run struct {
	sc    *Scenario
	start time.Time
	stats map[string]int

	cluster  *mocktikv.Cluster
	cache    *locate.RegionCache
	storeIDs []uint64 // index -> store id
	peers    []*metapb.Peer
	voters   []*metapb.Peer
	regionID uint64
	epoch    *metapb.RegionEpoch
	verID    locate.RegionVerID

	mu            sync.Mutex
	warming       bool       // the warm-up call is running
	warm          []*attempt // attempts of the warm-up call
	warmResp      *tikvrpc.Response
	warmErr       error
	attempts      []*attempt
	lastEnd       time.Duration
	zeroRun       int // length of the current run of attempts with zero pause
	zeroRunMax    int
	aborted       string // non-empty: the harness gave up on the call (reason)
	busyAt        int    // attempt index at which the busy window overflowed (-1)
	cancelCaller  context.CancelFunc
	callerCtx     context.Context // the context the caller put into its Backoffer
	validateCalls int
	livenessCalls int
	closedAddrs   int
	cancelFired   bool
	wg            sync.WaitGroup // async stub goroutines

	// outcome of the call
	returned bool
	resp     *tikvrpc.Response
	err      error
	elapsed  time.Duration
	hang     bool
	leaked   bool

	log []string
}

func (r *run) now() time.Duration { return time.Since(r.start) }

func (r *run) logf(format string, args ...any) {
	r.log = append(r.log, fmt.Sprintf("%12s ", fmtDur(r.now()))+fmt.Sprintf(format, args...))
}

func fmtDur(d time.Duration) string {
	return fmt.Sprintf("%d.%06ds", int64(d/time.Second), int64(d%time.Second)/1000)
}

// ---------------------------------------------------------------------------------------------
// world

func (r *run) storeIndexByAddr(addr string) int {
	for i, id := range r.storeIDs {
		if addr == fmt.Sprintf("store%d", id) {
			return i
		}
	}
	return -1
}

func (r *run) storeIndexByID(id uint64) int {
	for i, s := range r.storeIDs {
		if s == id {
			return i
		}
	}
	return -1
}

func (r *run) livenessNow(idx int) string {
	if r.sc.RecoverAtMs > 0 && r.now() >= time.Duration(r.sc.RecoverAtMs)*time.Millisecond {
		return "reachable"
	}
	return r.sc.livenessOf(idx)
}

func (r *run) buildWorld() error {
	sc := r.sc
	r.cluster = mocktikv.NewCluster(nil)
	n := 3
	r.storeIDs = r.cluster.AllocIDs(n)
	peerIDs := r.cluster.AllocIDs(n)
	r.regionID = r.cluster.AllocID()
	for _, id := range r.storeIDs {
		r.cluster.AddStore(id, fmt.Sprintf("store%d", id), &metapb.StoreLabel{Key: "id", Value: fmt.Sprintf("%d", id)})
	}
	leaderIdx := sc.LeaderIdx
	if leaderIdx < 0 || leaderIdx >= n {
		leaderIdx = 0
	}
	// Epoch (5,5): so that an EpochNotMatch carrying an *older* epoch can be expressed.
	r.cluster.PutRegion(r.regionID, 5, 5, r.storeIDs, peerIDs, peerIDs[leaderIdx])
	if sc.Learner {
		id := r.cluster.AllocID()
		r.storeIDs = append(r.storeIDs, id)
		r.cluster.AddStore(id, fmt.Sprintf("store%d", id), &metapb.StoreLabel{Key: "id", Value: fmt.Sprintf("%d", id)})
		r.cluster.AddLearner(r.regionID, id, r.cluster.AllocID())
	}
	meta, _ := r.cluster.GetRegion(r.regionID)
	r.peers = meta.Peers
	r.epoch = meta.RegionEpoch
	for _, p := range r.peers {
		if p.Role != metapb.PeerRole_Learner {
			r.voters = append(r.voters, p)
		}
	}

	pdCli := locate.NewCodecPDClient(apicodec.ModeTxn, mocktikv.NewPDClient(r.cluster))
	r.cache = locate.NewRegionCache(pdCli, locate.RegionCacheNoHealthTick)
	if sc.Forwarding {
		locate.VerifSendsimSetForwarding(r.cache, true)
	}
	locate.VerifSendsimSetLiveness(r.cache, func(storeID uint64, addr string) uint32 {
		r.mu.Lock()
		r.livenessCalls++
		r.mu.Unlock()
		switch r.livenessNow(r.storeIndexByID(storeID)) {
		case "unreachable":
			return locate.VerifSendsimUnreachable
		case "unknown":
			return locate.VerifSendsimUnknown
		}
		return locate.VerifSendsimReachable
	})
	loc, err := r.cache.LocateKey(retry.NewBackofferWithVars(context.Background(), 1000, nil), []byte("key"))
	if err != nil {
		return err
	}
	r.verID = loc.Region
	for _, idx := range sc.Slow {
		if idx >= 0 && idx < len(r.storeIDs) {
			if locate.VerifSendsimMarkSlow(r.cache, r.storeIDs[idx]) {
				r.stats["world.slow-store"]++
			}
		}
	}
	return nil
}

func (r *run) buildRequest() (*tikvrpc.Request, []locate.StoreSelectorOption) {
	sc := r.sc
	var typ tikvrpc.CmdType
	var inner any
	switch sc.Cmd {
	case CmdPrewrite:
		typ = tikvrpc.CmdPrewrite
		inner = &kvrpcpb.PrewriteRequest{
			Mutations:    []*kvrpcpb.Mutation{{Op: kvrpcpb.Op_Put, Key: []byte("key"), Value: []byte("v")}},
			PrimaryLock:  []byte("key"),
			StartVersion: 100, LockTtl: 3000,
		}
	case CmdCommit:
		typ = tikvrpc.CmdCommit
		inner = &kvrpcpb.CommitRequest{Keys: [][]byte{[]byte("key")}, StartVersion: 100, CommitVersion: 101}
	default:
		typ = tikvrpc.CmdGet
		inner = &kvrpcpb.GetRequest{Key: []byte("key"), Version: 100}
	}
	var req *tikvrpc.Request
	seed := uint32(sc.RandSeed)
	switch sc.ReadMode {
	case ModeLeader:
		req = tikvrpc.NewRequest(typ, inner, kvrpcpb.Context{})
	case ModeFollower:
		req = tikvrpc.NewReplicaReadRequest(typ, inner, kv.ReplicaReadFollower, &seed, kvrpcpb.Context{})
	case ModeMixed:
		req = tikvrpc.NewReplicaReadRequest(typ, inner, kv.ReplicaReadMixed, &seed, kvrpcpb.Context{})
	case ModeLearner:
		req = tikvrpc.NewReplicaReadRequest(typ, inner, kv.ReplicaReadLearner, &seed, kvrpcpb.Context{})
	case ModePreferLeader:
		req = tikvrpc.NewReplicaReadRequest(typ, inner, kv.ReplicaReadPreferLeader, &seed, kvrpcpb.Context{})
	case ModeStale:
		req = tikvrpc.NewRequest(typ, inner, kvrpcpb.Context{})
		req.EnableStaleWithMixedReplicaRead()
		req.ReadReplicaScope = oracle.GlobalTxnScope
		req.TxnScope = oracle.GlobalTxnScope
	default:
		panic("sendsim: unknown read mode " + sc.ReadMode)
	}
	if sc.BusyThresholdMs > 0 {
		req.BusyThresholdMs = uint32(sc.BusyThresholdMs)
	}
	req.InputRequestSource = sc.RequestSource
	var opts []locate.StoreSelectorOption
	if sc.LabelStore >= 0 {
		val := "no-such-store"
		if sc.LabelStore < len(r.storeIDs) {
			val = fmt.Sprintf("%d", r.storeIDs[sc.LabelStore])
		}
		opts = append(opts, locate.WithMatchLabels([]*metapb.StoreLabel{{Key: "id", Value: val}}))
	}
	if len(sc.MatchStores) > 0 {
		var ids []uint64
		for _, i := range sc.MatchStores {
			if i >= 0 && i < len(r.storeIDs) {
				ids = append(ids, r.storeIDs[i])
			}
		}
		opts = append(opts, locate.WithMatchStores(ids))
	}
	if sc.LeaderOnly {
		opts = append(opts, locate.WithLeaderOnly())
	}
	return req, opts
}

// ---------------------------------------------------------------------------------------------
// validator stub

type validatorStub struct{ r *run }

var errRejectedTS = errors.New("sendsim: read ts rejected by the validator")

func (v validatorStub) ValidateReadTS(ctx context.Context, readTS uint64, isStaleRead bool, opt *oracle.Option) error {
	v.r.mu.Lock()
	warming := v.r.warming
	if !warming {
		v.r.validateCalls++
	}
	v.r.mu.Unlock()
	if warming {
		return nil // the warm-up call always gets through
	}
	if v.r.sc.Validate == "reject" {
		return errRejectedTS
	}
	return nil
}

// ---------------------------------------------------------------------------------------------
// client stub

type stubClient struct{ r *run }

var _ client.Client = (*stubClient)(nil)

func (c *stubClient) Close() error { return nil }

func (c *stubClient) CloseAddr(addr string) error {
	c.r.mu.Lock()
	c.r.closedAddrs++
	c.r.mu.Unlock()
	return nil
}

func (c *stubClient) SetEventListener(listener client.ClientEventListener) {}

func (c *stubClient) SendRequest(ctx context.Context, addr string, req *tikvrpc.Request, timeout time.Duration) (*tikvrpc.Response, error) {
	// like RPCClient.sendRequest
	tikvrpc.AttachContext(req, req.Context)
	a := c.r.begin(addr, req, false)
	return c.r.serve(ctx, a, req, timeout)
}

func (c *stubClient) SendRequestAsync(ctx context.Context, addr string, req *tikvrpc.Request, cb async.Callback[*tikvrpc.Response]) {
	// like RPCClient.SendRequestAsync: the context is attached before the call returns,
	// the answer arrives later through the callback's executor.
	tikvrpc.AttachContext(req, req.Context)
	a := c.r.begin(addr, req, true)
	c.r.wg.Add(1)
	go func() {
		defer c.r.wg.Done()
		cb.Schedule(c.r.serve(ctx, a, req, 0))
	}()
}

type ctxGetter interface{ GetContext() *kvrpcpb.Context }

// begin records the attempt (synchronously, at the instant of the call).
func (r *run) begin(addr string, req *tikvrpc.Request, isAsync bool) *attempt {
	r.mu.Lock()
	defer r.mu.Unlock()
	a := &attempt{
		Idx: len(r.attempts), Start: r.now(), Async: isAsync, Addr: addr, Fwd: req.ForwardedHost,
		PeerID: req.Context.GetPeer().GetId(), StoreID: req.Context.GetPeer().GetStoreId(),
		Outer:    flags{req.Context.ReplicaRead, req.Context.StaleRead, req.Context.IsRetryRequest},
		ReadType: req.ReplicaReadType.String(), BusyThMs: req.BusyThresholdMs, MaxExecMs: req.MaxExecutionDurationMs,
		Source: req.RequestSource,
	}
	if g, ok := req.Req.(ctxGetter); ok && g.GetContext() != nil {
		in := g.GetContext()
		a.Inner = flags{in.ReplicaRead, in.StaleRead, in.IsRetryRequest}
		a.InnerOK = true
	}
	a.Pause = -1
	if r.warming {
		a.Idx = len(r.warm)
		a.ScriptSym, a.Sym = symOK, symOK
		r.warm = append(r.warm, a)
		return a
	}
	if a.Idx > 0 {
		a.Pause = a.Start - r.lastEnd
		if a.Pause == 0 {
			r.zeroRun++
		} else {
			r.zeroRun = 1
		}
	} else {
		r.zeroRun = 1
	}
	if r.zeroRun > r.zeroRunMax {
		r.zeroRunMax = r.zeroRun
	}
	a.ScriptSym = r.sc.symbolAt(a.Idx)
	a.Sym = a.ScriptSym
	r.attempts = append(r.attempts, a)
	if r.aborted == "" {
		if r.zeroRun > busyWindowK() {
			r.busyAt = a.Idx
			r.abortLocked("busy-window")
		} else if len(r.attempts) > maxAttempts {
			r.abortLocked("attempt-budget")
		}
	}
	return a
}

func (r *run) abortLocked(why string) {
	if r.aborted == "" {
		r.aborted = why
		if r.cancelCaller != nil {
			r.cancelCaller()
		}
	}
}

func (r *run) abort(why string) {
	r.mu.Lock()
	r.abortLocked(why)
	r.mu.Unlock()
}

func (r *run) isWarm(a *attempt) bool {
	r.mu.Lock()
	defer r.mu.Unlock()
	for _, w := range r.warm {
		if w == a {
			return true
		}
	}
	return false
}

func (r *run) isAborted() bool {
	r.mu.Lock()
	defer r.mu.Unlock()
	return r.aborted != ""
}

func (r *run) end(a *attempt, resp *tikvrpc.Response, err error) (*tikvrpc.Response, error) {
	r.mu.Lock()
	defer r.mu.Unlock()
	a.End = r.now()
	a.Resp, a.Err = resp, err
	if resp != nil {
		a.RegionErr, _ = resp.GetRegionError()
	}
	if !r.warming {
		r.lastEnd = a.End
	}
	return resp, err
}

// serve answers one attempt from the script. It follows the conventions of the real
// client: exactly one of (response, error) is non-nil; a context that is done yields its
// error; an RPC that outlives its timeout yields a deadline-exceeded error.
func (r *run) serve(ctx context.Context, a *attempt, req *tikvrpc.Request, timeout time.Duration) (*tikvrpc.Response, error) {
	sc := r.sc
	if r.isWarm(a) {
		// fault-free, except that a store that is really down refuses the connection for the earlier call as well
		// (with forwarding that call then succeeds through a proxy, which the region remembers)
		if sc.DownOverride {
			if idx := r.storeIndexByAddr(a.Addr); idx >= 0 && r.livenessNow(idx) == "unreachable" {
				return r.end(a, nil, errors.New("sendsim: connection refused (store down)"))
			}
		}
		switch req.Type {
		case tikvrpc.CmdGet:
			return r.end(a, &tikvrpc.Response{Resp: &kvrpcpb.GetResponse{Value: []byte("value-of-the-warm-up-call")}}, nil)
		case tikvrpc.CmdPrewrite:
			return r.end(a, &tikvrpc.Response{Resp: &kvrpcpb.PrewriteResponse{MinCommitTs: 7}}, nil)
		default:
			return r.end(a, &tikvrpc.Response{Resp: &kvrpcpb.CommitResponse{CommitVersion: 7}}, nil)
		}
	}
	if r.isAborted() {
		a.Sym = "abort"
		return r.end(a, nil, errors.WithStack(context.Canceled))
	}
	if err := ctx.Err(); err != nil {
		if r.callerCtx.Err() != nil {
			a.Sym = symCallerGone
		} else {
			a.Sym = SymDeadline
		}
		return r.end(a, nil, errors.WithStack(err))
	}
	// a store that is really down refuses the connection whatever the script says
	if sc.DownOverride && a.Sym != SymRPC {
		if idx := r.storeIndexByAddr(a.Addr); idx >= 0 && r.livenessNow(idx) == "unreachable" {
			a.Sym = SymRPC
		}
	}
	rpcCtx := ctx
	if timeout > 0 {
		var cancel context.CancelFunc
		rpcCtx, cancel = context.WithTimeout(ctx, timeout)
		defer cancel()
	}
	wait := time.Duration(sc.latencyAt(a.Idx)) * time.Microsecond
	forever := false
	if a.Sym == SymDeadline && (sc.DeadlineFlavor == "ctx" || sc.DeadlineFlavor == "grpc") {
		if _, has := rpcCtx.Deadline(); has {
			forever = true
		}
	}
	if forever || wait > 0 {
		var timerC <-chan time.Time
		var timer *time.Timer
		if !forever {
			timer = time.NewTimer(wait)
			timerC = timer.C
		}
		select {
		case <-timerC:
		case <-rpcCtx.Done():
			if timer != nil {
				timer.Stop()
			}
			if r.isAborted() {
				a.Sym = "abort"
				return r.end(a, nil, errors.WithStack(context.Canceled))
			}
			if r.callerCtx.Err() != nil {
				// the caller's own context ended (cancel or deadline)
				a.Sym = symCallerGone
				return r.end(a, nil, errors.WithStack(rpcCtx.Err()))
			}
			// the RPC timeout fired (for the async API it is part of ctx itself)
			a.Sym = SymDeadline
			return r.end(a, nil, r.deadlineErr())
		}
	}
	rid := r.regionID
	var e *errorpb.Error
	switch a.Sym {
	case symOK:
		var resp *tikvrpc.Response
		switch req.Type {
		case tikvrpc.CmdGet:
			resp = &tikvrpc.Response{Resp: &kvrpcpb.GetResponse{Value: []byte(fmt.Sprintf("value-of-attempt-%d", a.Idx))}}
		case tikvrpc.CmdPrewrite:
			resp = &tikvrpc.Response{Resp: &kvrpcpb.PrewriteResponse{MinCommitTs: uint64(1000 + a.Idx)}}
		case tikvrpc.CmdCommit:
			resp = &tikvrpc.Response{Resp: &kvrpcpb.CommitResponse{CommitVersion: uint64(1000 + a.Idx)}}
		default:
			panic("sendsim: unexpected command")
		}
		return r.end(a, resp, nil)
	case SymRPC:
		var err error
		switch sc.RPCFlavor {
		case "unavailable":
			err = status.Error(codes.Unavailable, "sendsim: connection refused")
		case "grpc-canceled":
			err = status.Error(codes.Canceled, "sendsim: grpc: the client connection is closing")
		default:
			err = errors.New("sendsim: connection reset by peer")
		}
		return r.end(a, nil, errors.WithStack(err))
	case SymDeadline:
		switch sc.DeadlineFlavor {
		case "busy-reason":
			e = &errorpb.Error{Message: "busy", ServerIsBusy: &errorpb.ServerIsBusy{Reason: "deadline is exceeded"}}
		case "message":
			e = &errorpb.Error{Message: "Deadline is exceeded"}
		default:
			// only reached when the RPC has no deadline at all
			return r.end(a, nil, r.deadlineErr())
		}
	case SymNotLeader:
		e = &errorpb.Error{Message: "not leader", NotLeader: &errorpb.NotLeader{RegionId: rid}}
	case SymNLHint:
		e = &errorpb.Error{Message: "not leader", NotLeader: &errorpb.NotLeader{RegionId: rid, Leader: r.hintFor(a.PeerID)}}
	case SymNLHintX:
		e = &errorpb.Error{Message: "not leader", NotLeader: &errorpb.NotLeader{RegionId: rid, Leader: &metapb.Peer{Id: 99999, StoreId: 9999}}}
	case SymEpoch:
		e = &errorpb.Error{Message: "epoch not match", EpochNotMatch: &errorpb.EpochNotMatch{}}
	case SymEpochNew:
		left := &metapb.Region{Id: rid, EndKey: []byte("m"), RegionEpoch: &metapb.RegionEpoch{ConfVer: r.epoch.ConfVer, Version: r.epoch.Version + 1}, Peers: r.peers}
		right := &metapb.Region{Id: rid + 1000, StartKey: []byte("m"), RegionEpoch: &metapb.RegionEpoch{ConfVer: r.epoch.ConfVer, Version: r.epoch.Version + 1}}
		for i, p := range r.peers {
			right.Peers = append(right.Peers, &metapb.Peer{Id: rid + 1001 + uint64(i), StoreId: p.StoreId, Role: p.Role})
		}
		e = &errorpb.Error{Message: "epoch not match", EpochNotMatch: &errorpb.EpochNotMatch{CurrentRegions: []*metapb.Region{left, right}}}
	case SymEpochOld:
		old := &metapb.Region{Id: rid, RegionEpoch: &metapb.RegionEpoch{ConfVer: r.epoch.ConfVer, Version: r.epoch.Version - 1}, Peers: r.peers}
		e = &errorpb.Error{Message: "epoch not match", EpochNotMatch: &errorpb.EpochNotMatch{CurrentRegions: []*metapb.Region{old}}}
	case SymRegionNF:
		e = &errorpb.Error{Message: "region not found", RegionNotFound: &errorpb.RegionNotFound{RegionId: rid}}
	case SymBusy:
		e = &errorpb.Error{Message: "busy", ServerIsBusy: &errorpb.ServerIsBusy{Reason: "sendsim: scheduler is busy"}}
	case SymBusyWait:
		e = &errorpb.Error{Message: "busy", ServerIsBusy: &errorpb.ServerIsBusy{Reason: "sendsim: read pool is busy", EstimatedWaitMs: 100}}
	case SymStaleCmd:
		e = &errorpb.Error{Message: "stale command", StaleCommand: &errorpb.StaleCommand{}}
	case SymStoreNM:
		e = &errorpb.Error{Message: "store not match", StoreNotMatch: &errorpb.StoreNotMatch{RequestStoreId: a.StoreID, ActualStoreId: a.StoreID + 100}}
	case SymDataNR:
		e = &errorpb.Error{Message: "data is not ready", DataIsNotReady: &errorpb.DataIsNotReady{RegionId: rid, PeerId: a.PeerID, SafeTs: 50}}
	case SymMaxTS:
		e = &errorpb.Error{Message: "max ts not synced", MaxTimestampNotSynced: &errorpb.MaxTimestampNotSynced{}}
	case SymDiskFull:
		e = &errorpb.Error{Message: "disk full", DiskFull: &errorpb.DiskFull{StoreId: []uint64{a.StoreID}, Reason: "sendsim"}}
	case SymUnknown:
		e = &errorpb.Error{Message: "sendsim: an error this client does not know"}
	default:
		panic("sendsim: unknown script symbol " + a.Sym)
	}
	resp, err := tikvrpc.GenRegionErrorResp(req, e)
	if err != nil {
		panic(err)
	}
	return r.end(a, resp, nil)
}

func (r *run) deadlineErr() error {
	if r.sc.DeadlineFlavor == "grpc" {
		return errors.WithStack(status.Error(codes.DeadlineExceeded, "context deadline exceeded"))
	}
	return errors.WithStack(context.DeadlineExceeded)
}

// hintFor returns the leader hint a NotLeader answer of the given peer carries.
func (r *run) hintFor(target uint64) *metapb.Peer {
	v := r.voters
	if r.sc.HintRule == "pingpong" {
		if target == v[0].Id {
			return v[1]
		}
		return v[0]
	}
	for i, p := range v {
		if p.Id == target {
			return v[(i+1)%len(v)]
		}
	}
	return v[0]
}

// ---------------------------------------------------------------------------------------------
// the call

func (r *run) hangBudget() time.Duration {
	sc := r.sc
	maxLat := 0
	for _, l := range sc.LatencyUs {
		maxLat = max(maxLat, l)
	}
	perAttempt := time.Duration(sc.TimeoutMs)*time.Millisecond + time.Duration(maxLat)*time.Microsecond
	return 2*time.Duration(sc.BudgetMs)*time.Millisecond +
		time.Duration(retry.VerifSendsimExcludedSleepLimitMs())*time.Millisecond +
		time.Duration(maxAttempts+1)*perAttempt + slack
}

// warmup serves one fault-free call with the sender that the call under test will use.
func (r *run) warmup(sender *locate.RegionRequestSender) {
	r.mu.Lock()
	r.warming = true
	r.mu.Unlock()
	req, opts := r.buildRequest()
	bo := retry.NewBackofferWithVars(context.Background(), 1000, nil)
	done := make(chan struct{})
	go func() {
		defer close(done)
		if r.sc.API == "async" {
			complete := false
			rl := async.NewRunLoop()
			cb := async.NewCallback(rl, func(re *tikvrpc.ResponseExt, e error) {
				if re != nil {
					r.warmResp = &re.Response
				}
				r.warmErr = e
				complete = true
			})
			sender.SendReqAsync(bo, req, r.verID, 30*time.Second, cb, opts...)
			for !complete {
				if _, e := rl.Exec(context.Background()); e != nil {
					break
				}
			}
		} else {
			r.warmResp, _, _, r.warmErr = sender.SendReqCtx(bo, req, r.verID, 30*time.Second, tikvrpc.TiKV, opts...)
		}
	}()
	select {
	case <-done:
	case <-time.After(time.Hour):
		r.leaked = true
	}
	r.wg.Wait()
	r.mu.Lock()
	r.warming = false
	r.mu.Unlock()
}

func (r *run) execute() {
	sc := r.sc
	r.start = time.Now()
	r.busyAt = -1
	if err := r.buildWorld(); err != nil {
		r.logf("world: %v", err)
		r.stats["world.error"]++
		return
	}
	defer r.cache.Close()

	var validator oracle.ReadTSValidator = oracle.NoopReadTSValidator{}
	if sc.Validate != "noop" {
		validator = validatorStub{r}
	}
	sender := locate.NewRegionRequestSender(r.cache, &stubClient{r}, validator)
	if sc.Warmup {
		r.warmup(sender)
	}
	// The region cache's background tickers run on whole multiples of their periods since the
	// creation of the cache; every duration of a scenario is a whole number of microseconds.
	// Starting the call at an odd sub-microsecond offset keeps the call's own events from ever
	// sharing an instant with a background tick (goroutines woken at the same fake instant run
	// in an order the simulator does not control, and both sides draw from the global math/rand).
	time.Sleep(37*time.Microsecond + 500*time.Nanosecond)
	r.start = time.Now()
	req, opts := r.buildRequest()

	ctx, cancel := context.WithCancel(context.Background())
	defer cancel()
	r.cancelCaller = cancel
	if sc.CallerDeadlineMs > 0 {
		var c2 context.CancelFunc
		ctx, c2 = context.WithTimeout(ctx, time.Duration(sc.CallerDeadlineMs)*time.Millisecond)
		defer c2()
	}
	if sc.CallerCancelAtUs >= 0 {
		t := time.AfterFunc(time.Duration(sc.CallerCancelAtUs)*time.Microsecond, func() {
			r.mu.Lock()
			r.cancelFired = true
			r.mu.Unlock()
			cancel()
		})
		defer t.Stop()
	}
	r.callerCtx = ctx
	bo := retry.NewBackofferWithVars(ctx, sc.BudgetMs, nil)
	timeout := time.Duration(sc.TimeoutMs) * time.Millisecond

	t0 := r.now()
	done := make(chan struct{})
	go func() {
		defer close(done)
		if sc.API == "async" {
			complete := false
			rl := async.NewRunLoop()
			cb := async.NewCallback(rl, func(re *tikvrpc.ResponseExt, e error) {
				if re != nil {
					r.resp = &re.Response
				}
				r.err = e
				complete = true
			})
			sender.SendReqAsync(bo, req, r.verID, timeout, cb, opts...)
			for !complete {
				// the executor keeps serving until the callback has run; it is not tied to the
				// caller's context, so that the call's own goroutines can always finish
				if _, e := rl.Exec(context.Background()); e != nil {
					r.err = e
					break
				}
			}
		} else {
			r.resp, _, _, r.err = sender.SendReqCtx(bo, req, r.verID, timeout, tikvrpc.TiKV, opts...)
		}
		r.elapsed = r.now() - t0
		r.returned = true
	}()

	select {
	case <-done:
	case <-time.After(r.hangBudget()):
		r.hang = true
		r.logf("HANG: the call did not return within %v of simulated time", r.hangBudget())
		r.abort("hang")
		select {
		case <-done:
		case <-time.After(10 * time.Minute):
			r.leaked = true
		}
	}
	cancel()
	if !r.leaked {
		r.wg.Wait()
	}
	r.stats["backoff.total-ms"] += bo.GetTotalSleep()
	for name, n := range bo.GetBackoffTimes() {
		r.stats["backoff."+name] += n
	}
	if !locate.VerifSendsimRegionValid(r.cache, r.verID) {
		r.stats["end.region-invalidated"]++
	}
	for _, id := range r.storeIDs {
		if l := locate.VerifSendsimStoreLiveness(r.cache, id); l != locate.VerifSendsimReachable && l != 99 {
			r.stats["end.store-marked-not-reachable"]++
		}
	}
}
