package latchsim

import (
	"fmt"
	"math/rand"
	"sort"
	"strings"
	"sync"

	"github.com/tikv/client-go/v2/oracle"
	"github.com/tikv/client-go/v2/verifsim/simkit"
)

// Txn is one transaction of a scenario.
type Txn struct {
	ID     int      `json:"id"`
	Keys   []string `json:"keys"`   // distinct keys it latches
	Start  uint64   `json:"start"`  // start timestamp (distinct from every other timestamp of the scenario)
	Commit uint64   `json:"commit"` // commit timestamp it sets before unlocking when its lock was not stale (> Start)
	// Fails: its commit fails although its lock was not stale: it unlocks WITHOUT having set a commit timestamp
	// (what KVTxn.Commit does on an error)
	Fails bool `json:"fails,omitempty"`
	// sched mode only
	Delay   int `json:"delay,omitempty"`    // own yields before calling Lock
	Work    int `json:"work,omitempty"`     // own yields between the return of Lock and UnLock
	SleepUs int `json:"sleep_us,omitempty"` // simulated sleep between the return of Lock and UnLock
}

// Scenario is the explicit description of one run.
type Scenario struct {
	Kind  string `json:"kind"`           // "direct": Latches driven step by step; "sched": LatchesScheduler with caller goroutines
	Gran  string `json:"gran,omitempty"` // direct: "method" (acquire/release) or "slot" (acquireSlot/releaseSlot)
	Slots uint   `json:"slots"`          // argument of NewLatches / NewScheduler
	Txns  []Txn  `json:"txns"`
	// direct: the run explores the tree of ALL interleavings of the transactions'
	// steps (depth first, identical states merged) up to Budget distinct states.
	Exhaustive bool `json:"exhaustive,omitempty"` // the enumeration claims completeness: hitting Budget is reported
	Budget     int  `json:"budget,omitempty"`
	// Seed of the order in which enabled steps are tried (direct) / of the choice of
	// the goroutine that is released next (sched).
	OrderSeed uint64 `json:"order_seed"`
	// Path, if not empty: direct - the exploration starts below this prefix of
	// transaction indices; sched - the first picks (actor names), then OrderSeed.
	Path  []int    `json:"path,omitempty"`
	Picks []string `json:"picks,omitempty"`
}

func (sc *Scenario) String() string {
	var sb strings.Builder
	fmt.Fprintf(&sb, "%s/%s slots=%d", sc.Kind, sc.Gran, sc.Slots)
	for _, t := range sc.Txns {
		fmt.Fprintf(&sb, " T%d{%s start=%d commit=%d}", t.ID, strings.Join(t.Keys, ","), t.Start, t.Commit)
	}
	return sb.String()
}

const poolLetters = "abcdefgh"

func pool(n int) []string {
	out := make([]string, n)
	for i := range out {
		out[i] = poolLetters[i : i+1]
	}
	return out
}

// subsets returns the non-empty subsets of the pool with at most maxKeys elements.
func subsets(p []string, maxKeys int) [][]string {
	var out [][]string
	for m := 1; m < 1<<len(p); m++ {
		var s []string
		for i := range p {
			if m&(1<<i) != 0 {
				s = append(s, p[i])
			}
		}
		if len(s) <= maxKeys {
			out = append(out, s)
		}
	}
	sort.Slice(out, func(i, j int) bool {
		if len(out[i]) != len(out[j]) {
			return len(out[i]) < len(out[j])
		}
		return strings.Join(out[i], "") < strings.Join(out[j], "")
	})
	return out
}

// tsOrders returns every relative order of the 2n timestamps start_i/commit_i with
// start_i < commit_i: a sequence of transaction indices in which each index occurs
// twice; the first occurrence is the rank of its start, the second of its commit.
func tsOrders(n int) [][]int {
	var out [][]int
	left := make([]int, n)
	for i := range left {
		left[i] = 2
	}
	cur := make([]int, 0, 2*n)
	var rec func()
	rec = func() {
		if len(cur) == 2*n {
			out = append(out, append([]int(nil), cur...))
			return
		}
		for i := 0; i < n; i++ {
			if left[i] > 0 {
				left[i]--
				cur = append(cur, i)
				rec()
				cur = cur[:len(cur)-1]
				left[i]++
			}
		}
	}
	rec()
	return out
}

// applyOrder assigns timestamps: the event of rank r gets (r+1)*unit.
func applyOrder(txns []Txn, order []int, unit uint64) {
	seen := make([]bool, len(txns))
	for r, i := range order {
		ts := uint64(r+1) * unit
		if !seen[i] {
			seen[i] = true
			txns[i].Start = ts
		} else {
			txns[i].Commit = ts
		}
	}
}

// ---- complete enumeration (mode direct-enum) ----

type shape struct {
	sets  []int // indices into subsets (non-decreasing: transactions are interchangeable)
	slots uint
	gran  string
}

type enumSpace struct {
	subs   [][]string
	shapes []shape
	orders map[int][][]int
	cum    []int // cum[i] = number of scenarios before shape i
	total  int
}

var (
	enumMu    sync.Mutex
	enumCache = map[string]*enumSpace{}
)

// enumFor builds the enumeration space: <= maxTxns transactions, <= maxKeys keys each
// from a pool of poolN keys, slots in {1,2} (a pool of >= 3 keys always collides),
// both granularities, every timestamp order.
func enumFor(poolN, maxTxns, maxKeys int) *enumSpace {
	name := fmt.Sprintf("%d/%d/%d", poolN, maxTxns, maxKeys)
	enumMu.Lock()
	defer enumMu.Unlock()
	if e := enumCache[name]; e != nil {
		return e
	}
	e := &enumSpace{subs: subsets(pool(poolN), maxKeys), orders: map[int][][]int{}}
	for n := 1; n <= maxTxns; n++ {
		e.orders[n] = tsOrders(n)
		var rec func(cur []int, from int)
		rec = func(cur []int, from int) {
			if len(cur) == n {
				for _, slots := range []uint{1, 2} {
					for _, g := range []string{"method", "slot"} {
						e.shapes = append(e.shapes, shape{sets: append([]int(nil), cur...), slots: slots, gran: g})
					}
				}
				return
			}
			for s := from; s < len(e.subs); s++ {
				rec(append(cur, s), s)
			}
		}
		rec(nil, 0)
	}
	for _, sh := range e.shapes {
		e.cum = append(e.cum, e.total)
		// every timestamp order x (no commit fails | the commit of transaction f fails)
		e.total += len(e.orders[len(sh.sets)]) * (len(sh.sets) + 1)
	}
	enumCache[name] = e
	return e
}

func (e *enumSpace) scenario(idx int) (*Scenario, bool) {
	if idx < 0 || idx >= e.total {
		return nil, false
	}
	si := sort.Search(len(e.cum), func(i int) bool { return e.cum[i] > idx }) - 1
	sh := e.shapes[si]
	local := idx - e.cum[si]
	nf := len(sh.sets) + 1
	order := e.orders[len(sh.sets)][local/nf]
	failing := local%nf - 1 // -1: nobody
	sc := &Scenario{Kind: "direct", Gran: sh.gran, Slots: sh.slots, Exhaustive: true, Budget: 200000}
	for i, s := range sh.sets {
		keys := append([]string(nil), e.subs[s]...)
		if i%2 == 1 {
			// the order in which the caller lists its keys must not matter: every other
			// transaction passes them in descending order
			sort.Sort(sort.Reverse(sort.StringSlice(keys)))
		}
		sc.Txns = append(sc.Txns, Txn{ID: i, Keys: keys})
	}
	applyOrder(sc.Txns, order, 10)
	if failing >= 0 {
		sc.Txns[failing].Fails = true
	}
	return sc, true
}

func enumParams(tier string) (poolN, maxTxns, maxKeys int) {
	if tier == "thorough" {
		return 4, 3, 2
	}
	return 3, 3, 2
}

// ---- seeded generation ----

func randKeys(r interface{ Intn(int) int }, p []string, maxKeys int) []string {
	k := 1 + r.Intn(maxKeys)
	if k > len(p) {
		k = len(p)
	}
	perm := make([]int, len(p))
	for i := range perm {
		perm[i] = i
	}
	for i := len(perm) - 1; i > 0; i-- {
		j := r.Intn(i + 1)
		perm[i], perm[j] = perm[j], perm[i]
	}
	idx := append([]int(nil), perm[:k]...)
	sort.Ints(idx)
	out := make([]string, k)
	for i, x := range idx {
		out[i] = p[x]
	}
	return out
}

func randOrder(r interface{ Intn(int) int }, n int) []int {
	o := make([]int, 0, 2*n)
	for i := 0; i < n; i++ {
		o = append(o, i, i)
	}
	for i := len(o) - 1; i > 0; i-- {
		j := r.Intn(i + 1)
		o[i], o[j] = o[j], o[i]
	}
	return o
}

// genRandom produces a seeded scenario with <= 4 transactions x <= 3 keys.
func genRandom(cfg simkit.RunConfig, kind string) *Scenario {
	var r *rand.Rand = simkit.Rand(cfg.Seed, "gen")
	sc := &Scenario{Kind: kind, OrderSeed: simkit.NewHasher(cfg.Seed, "order").U64("o")}
	n := 2 + r.Intn(3)
	poolN := 3 + r.Intn(3) // 3..5 keys
	sc.Slots = []uint{1, 2, 2, 4}[r.Intn(4)]
	if int(sc.Slots) >= poolN {
		sc.Slots = 2
	}
	p := pool(poolN)
	for i := 0; i < n; i++ {
		keys := randKeys(r, p, 3)
		// the order in which the caller lists its keys must not matter
		r.Shuffle(len(keys), func(a, b int) { keys[a], keys[b] = keys[b], keys[a] })
		sc.Txns = append(sc.Txns, Txn{ID: i, Keys: keys})
	}
	applyOrder(sc.Txns, randOrder(r, n), 10)
	for i := range sc.Txns {
		sc.Txns[i].Fails = r.Intn(5) == 0
	}
	if kind == "direct" {
		sc.Gran = []string{"method", "slot", "slot"}[r.Intn(3)]
		sc.Budget = 3000
	} else {
		for i := range sc.Txns {
			sc.Txns[i].Delay = r.Intn(3)
			sc.Txns[i].Work = r.Intn(3)
			if r.Intn(4) == 0 {
				sc.Txns[i].SleepUs = 1 + r.Intn(50)
			}
		}
	}
	return sc
}

// genWide: four transactions over six keys of ONE slot with timestamps that are
// whole minutes apart, so that the memory-limiting recycling of a slot's list
// (which depends on the distance between timestamps, not on their order) runs.
func genWide(cfg simkit.RunConfig) *Scenario {
	r := simkit.Rand(cfg.Seed, "gen")
	sc := &Scenario{Kind: "direct", Gran: "method", Slots: 1, Budget: 3000, OrderSeed: simkit.NewHasher(cfg.Seed, "order").U64("o")}
	p := pool(6)
	for i := 0; i < 4; i++ {
		sc.Txns = append(sc.Txns, Txn{ID: i, Keys: randKeys(r, p, 3)})
	}
	minutes := uint64(1 + r.Intn(3))
	unit := oracle.ComposeTS(int64(minutes)*60_000, 0)
	applyOrder(sc.Txns, randOrder(r, 4), unit)
	for i := range sc.Txns {
		sc.Txns[i].Fails = r.Intn(6) == 0
	}
	return sc
}
