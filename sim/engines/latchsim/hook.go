package latchsim

import (
	_ "unsafe" // go:linkname
)

// yieldHook is the variable `Hook` of the package internal/simhook that
// hooks.patch adds to the library. The engine must also build against the
// unpatched tree, where that package does not exist, so it cannot import it.
// Instead this declaration gives the engine's variable the linker name of
// simhook.Hook: in a patched build both declarations are the same (zero
// initialised) variable, so assigning here installs the hook; in an unpatched
// build it is an ordinary private variable that nobody calls. Which of the two
// builds is running is found out at run time by probeHooks().
//
//go:linkname yieldHook github.com/tikv/client-go/v2/internal/simhook.Hook
var yieldHook func(site string)
