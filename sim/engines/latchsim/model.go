package latchsim

import (
	"fmt"
	"sort"
	"strings"

	"github.com/tikv/client-go/v2/internal/latch"
	"github.com/tikv/client-go/v2/oracle"
	"github.com/tikv/client-go/v2/verifsim/simkit"
)

// snap is what the simulator can see of the implementation after one atomic step.
type snap struct {
	nodes   []latch.VerifNode
	waiting [][]int       // per slot: transaction indices in queue order (-1: unknown lock)
	holder  []int         // per node: index of the holding transaction or -1
	lock    []*latch.Lock // per transaction: its Lock if the simulator can see it, else nil
	ac      []int         // per transaction: Lock.acquiredCount (-1 unknown)
	stale   []bool        // per transaction: Lock.IsStale()
	lkeys   [][]string    // per transaction: the lock's sorted keys
}

// takeSnap reads the latches. find maps a *Lock to its transaction.
func takeSnap(L *latch.Latches, n int, find func(*latch.Lock) int, known []*latch.Lock) *snap {
	s := &snap{lock: make([]*latch.Lock, n), ac: make([]int, n), stale: make([]bool, n), lkeys: make([][]string, n)}
	copy(s.lock, known)
	nodes, waiting := L.VerifDump()
	s.nodes = nodes
	see := func(l *latch.Lock) int {
		if l == nil {
			return -1
		}
		i := find(l)
		if i >= 0 && s.lock[i] == nil {
			s.lock[i] = l
		}
		return i
	}
	hs := make([]int, len(nodes))
	for i, nd := range nodes {
		hs[i] = see(nd.Holder)
	}
	s.holder = hs
	s.waiting = make([][]int, len(waiting))
	for i, wl := range waiting {
		for _, l := range wl {
			s.waiting[i] = append(s.waiting[i], see(l))
		}
	}
	for i := 0; i < n; i++ {
		s.ac[i] = -1
		if s.lock[i] != nil {
			s.ac[i] = s.lock[i].VerifAcquiredCount()
			s.stale[i] = s.lock[i].IsStale()
			s.lkeys[i] = s.lock[i].VerifKeys()
		}
	}
	return s
}

// holdersOf returns, per key, the transactions that some node of that key names as holder.
func (s *snap) holdersOf() map[string][]int {
	m := map[string][]int{}
	for i, nd := range s.nodes {
		if _, ok := m[nd.Key]; !ok {
			m[nd.Key] = nil
		}
		if h := s.holder[i]; nd.Holder != nil {
			m[nd.Key] = append(m[nd.Key], h)
		}
	}
	return m
}

func (s *snap) nodeMax(key string) (uint64, bool) {
	var mx uint64
	found := false
	for _, nd := range s.nodes {
		if nd.Key == key {
			found = true
			if nd.MaxCommitTS > mx {
				mx = nd.MaxCommitTS
			}
		}
	}
	return mx, found
}

func (s *snap) String() string {
	var sb strings.Builder
	for i, nd := range s.nodes {
		h := "-"
		if nd.Holder != nil {
			h = fmt.Sprintf("T%d", s.holder[i])
		}
		fmt.Fprintf(&sb, "[%d:%s max=%d holder=%s]", nd.Slot, nd.Key, nd.MaxCommitTS, h)
	}
	for i, w := range s.waiting {
		if len(w) > 0 {
			fmt.Fprintf(&sb, " wait%d=%v", i, w)
		}
	}
	sb.WriteString(" |")
	for i := range s.ac {
		if s.ac[i] >= 0 {
			fmt.Fprintf(&sb, " T%d:ac=%d", i, s.ac[i])
			if s.stale[i] {
				sb.WriteString(",stale")
			}
		}
	}
	return sb.String()
}

// verdicts
const (
	vNone = iota
	vSuccess
	vStale
)

// monitor is the reference model of the property: per key the transactions that
// hold a latch on it and the greatest commit timestamp with which a previous
// holder released it; per transaction the verdict of its lock request.
// It follows the implementation's steps (it does not predict which waiter is
// served) and checks what the property demands.
type monitor struct {
	txns []Txn
	// maxRel[k]: greatest commit ts with which a holder of k released k so far
	maxRel map[string]uint64
	// who released it (witness)
	relBy map[string]string
	// per key: holders (by the implementation's nodes) after the previous step
	prev map[string][]int
	// per transaction
	verdict     []int
	verdictStep []int
	callStep    []int  // step at which its Lock call began (-1: not yet)
	unlocking   []bool // unlock has begun
	fullClaim   []bool // Lock returned success and unlock has not begun: it claims all its keys
	lastRel     int    // step of the latest release of any key
	// implementation's per-key memory after the previous step, and the keys whose node vanished
	// (the list recycling forgot them)
	prevMax map[string]uint64
	dropped map[string]int
	// droppedYoung: keys whose record was dropped although no transaction of the scenario is two minutes younger
	droppedYoung map[string]bool
	bound        int
	maxReturn    int // greatest number of steps between (call or last release) and the return of a Lock

	viol  map[string]simkit.Violation
	vord  []string
	stats map[string]int
}

func newMonitor(txns []Txn, bound int) *monitor {
	n := len(txns)
	m := &monitor{txns: txns, maxRel: map[string]uint64{}, relBy: map[string]string{}, prev: map[string][]int{},
		verdict: make([]int, n), verdictStep: make([]int, n), callStep: make([]int, n), unlocking: make([]bool, n), fullClaim: make([]bool, n),
		prevMax: map[string]uint64{}, dropped: map[string]int{}, bound: bound, viol: map[string]simkit.Violation{}, stats: map[string]int{}}
	for i := range m.callStep {
		m.callStep[i] = -1
	}
	return m
}

func (m *monitor) report(class, sig, detail string) {
	k := class + "/" + sig
	if _, ok := m.viol[k]; ok {
		return
	}
	m.viol[k] = simkit.Violation{Property: "C17", Class: class, Sig: sig, Detail: detail}
	m.vord = append(m.vord, k)
}

func (m *monitor) violations() []simkit.Violation {
	var out []simkit.Violation
	for _, k := range m.vord {
		out = append(out, m.viol[k])
	}
	return out
}

func has(xs []int, x int) bool {
	for _, y := range xs {
		if y == x {
			return true
		}
	}
	return false
}

// expectStale is the property's definition: some requested key was released by a
// previous holder with a commit timestamp greater than the requester's start ts.
func (m *monitor) expectStale(i int) (bool, string) {
	for _, k := range m.txns[i].Keys {
		if m.maxRel[k] > m.txns[i].Start {
			return true, fmt.Sprintf("key %q was released by %s with commit ts %d > start ts %d", k, m.relBy[k], m.maxRel[k], m.txns[i].Start)
		}
	}
	return false, ""
}

// step events reported by the driver
type stepInfo struct {
	step     int
	desc     string
	called   []int       // transactions whose Lock call began in this step
	returned map[int]int // transaction -> verdict returned by acquire()/Lock() in this step
	unlock   []int       // transactions whose unlock began in this step
	// acquiring: the body of acquireSlot ran in this step (the only place where the list recycling runs)
	acquiring bool
}

// observe digests one atomic step.
func (m *monitor) observe(si *stepInfo, s *snap, ctx func() string) {
	for _, i := range si.called {
		if m.callStep[i] < 0 {
			m.callStep[i] = si.step
		}
	}
	for _, i := range si.unlock {
		m.unlocking[i] = true
		m.fullClaim[i] = false
	}
	now := s.holdersOf()
	// 1. releases: a transaction that held k by the previous snapshot and does not any more.
	keys := make([]string, 0, len(m.prev))
	for k := range m.prev {
		keys = append(keys, k)
	}
	sort.Strings(keys)
	for _, k := range keys {
		for _, i := range m.prev[k] {
			if i < 0 || has(now[k], i) {
				continue
			}
			m.lastRel = si.step
			m.stats["model.release"]++
			var c uint64
			if m.verdict[i] == vSuccess && !m.txns[i].Fails {
				c = m.txns[i].Commit
			}
			if c > m.maxRel[k] {
				m.maxRel[k] = c
				m.relBy[k] = fmt.Sprintf("T%d", i)
			}
			if !m.unlocking[i] {
				m.report("latch-lost", fmt.Sprintf("key=%s", k), fmt.Sprintf("step %d (%s): T%d no longer holds the latch on %q although it has not unlocked\n%s", si.step, si.desc, i, k, ctx()))
			}
		}
	}
	// 2. exclusivity: per key, holders named by nodes plus transactions that claim the key.
	claims := map[string][]int{}
	for i := range m.txns {
		var ck []string
		switch {
		case m.fullClaim[i]:
			ck = m.txns[i].Keys
		case s.ac[i] > 0:
			ck = s.lkeys[i]
			if s.ac[i] < len(ck) {
				ck = ck[:s.ac[i]]
			}
		}
		for _, k := range ck {
			claims[k] = append(claims[k], i)
		}
	}
	allKeys := map[string]bool{}
	for k := range now {
		allKeys[k] = true
	}
	for k := range claims {
		allKeys[k] = true
	}
	ks := make([]string, 0, len(allKeys))
	for k := range allKeys {
		ks = append(ks, k)
	}
	sort.Strings(ks)
	for _, k := range ks {
		set := map[int]bool{}
		for _, i := range now[k] {
			set[i] = true
		}
		for _, i := range claims[k] {
			set[i] = true
		}
		if len(set) > 1 {
			var who []string
			for i := range m.txns {
				if set[i] {
					who = append(who, fmt.Sprintf("T%d", i))
				}
			}
			if set[-1] {
				who = append(who, "unknown lock")
			}
			m.report("exclusivity", fmt.Sprintf("key=%s", k), fmt.Sprintf("step %d (%s): the latch on %q is held by %s at the same time (by slot lists: %v, by the locks' own count: %v)\n%s", si.step, si.desc, k, strings.Join(who, " and "), now[k], claims[k], ctx()))
		} else if len(now[k]) > 1 {
			m.report("exclusivity", fmt.Sprintf("dup-node key=%s", k), fmt.Sprintf("step %d (%s): two nodes of key %q have holders %v\n%s", si.step, si.desc, k, now[k], ctx()))
		} else {
			for _, i := range claims[k] {
				if !has(now[k], i) {
					m.report("holder-mismatch", fmt.Sprintf("key=%s", k), fmt.Sprintf("step %d (%s): T%d counts the latch on %q as acquired but the slot list names %v as holder\n%s", si.step, si.desc, i, k, now[k], ctx()))
				}
			}
			for _, i := range now[k] {
				if i >= 0 && s.ac[i] >= 0 && !has(claims[k], i) {
					m.report("holder-mismatch", fmt.Sprintf("key=%s", k), fmt.Sprintf("step %d (%s): the slot list names T%d as holder of %q but the lock does not count it (acquiredCount=%d of keys %v)\n%s", si.step, si.desc, i, k, s.ac[i], s.lkeys[i], ctx()))
				}
			}
		}
	}
	m.prev = now
	curMax := map[string]uint64{}
	for _, nd := range s.nodes {
		if nd.MaxCommitTS >= curMax[nd.Key] {
			curMax[nd.Key] = nd.MaxCommitTS
		}
	}
	for k, old := range m.prevMax {
		// the list recycling (known finding F28) runs inside acquireSlot only: a key whose remembered max commit ts
		// shrinks in any other step (a release that overwrites it, say) was not recycled - a verdict missed because
		// of that is reported as a plain stale-missed
		if old > 0 && curMax[k] < old && si.acquiring {
			if _, ok := m.dropped[k]; !ok {
				m.dropped[k] = si.step
				m.stats["probe.node-forgotten"]++
				// The recycling drops a node only when the REQUESTER that runs it started at least two minutes (of
				// physical TSO time) after the node's max commit ts. If no transaction of the scenario is that much
				// younger than the forgotten commit, the node was not recycled for age: not finding F28.
				aged := false
				for _, t := range m.txns {
					if t.Start > old && oracle.ExtractPhysical(t.Start)-oracle.ExtractPhysical(old) >= 2*60*1000 {
						aged = true
					}
				}
				if !aged {
					if m.droppedYoung == nil {
						m.droppedYoung = map[string]bool{}
					}
					m.droppedYoung[k] = true
					m.stats["probe.node-forgotten-unexpired"]++
				}
			}
		}
	}
	m.prevMax = curMax
	// 3. verdicts
	for i := range m.txns {
		if m.verdict[i] != vNone {
			if r, ok := si.returned[i]; ok && r != m.verdict[i] {
				m.report("result-inconsistent", "verdict-changed", fmt.Sprintf("step %d (%s): T%d got verdict %d after verdict %d\n%s", si.step, si.desc, i, r, m.verdict[i], ctx()))
			}
			continue
		}
		v := vNone
		if r, ok := si.returned[i]; ok {
			v = r
		}
		if s.stale[i] {
			if v == vSuccess {
				m.report("result-inconsistent", "success-but-stale", fmt.Sprintf("step %d (%s): T%d returned success but IsStale() is true\n%s", si.step, si.desc, i, ctx()))
			}
			v = vStale
		}
		if v == vNone {
			continue
		}
		m.verdict[i] = v
		m.verdictStep[i] = si.step
		exp, why := m.expectStale(i)
		switch {
		case v == vStale && !exp:
			m.stats["model.verdict.stale"]++
			var hint []string
			for _, nd := range s.nodes {
				if nd.MaxCommitTS > m.txns[i].Start {
					hint = append(hint, fmt.Sprintf("%q(slot %d, max commit %d)", nd.Key, nd.Slot, nd.MaxCommitTS))
				}
			}
			m.report("stale-wrong", "stale-without-cause", fmt.Sprintf("step %d (%s): T%d (start ts %d, keys %v) is reported stale, but none of its keys was released with a greater commit ts (released so far: %v). Keys with a greater commit ts: %v\n%s", si.step, si.desc, i, m.txns[i].Start, m.txns[i].Keys, m.maxRel, hint, ctx()))
		case v == vSuccess && exp:
			sig := "stale-missed"
			for _, k := range m.txns[i].Keys {
				if m.maxRel[k] > m.txns[i].Start {
					if st, ok := m.dropped[k]; ok {
						sig = "stale-missed after-node-recycled"
						if m.droppedYoung[k] {
							sig = "stale-missed after-node-dropped-unexpired"
						}
						why += fmt.Sprintf("; the implementation dropped its record of key %q (max commit ts) in step %d", k, st)
					}
				}
			}
			m.report("stale-missed", sig, fmt.Sprintf("step %d (%s): T%d (start ts %d, keys %v) got the lock as not stale, but %s\n%s", si.step, si.desc, i, m.txns[i].Start, m.txns[i].Keys, why, ctx()))
		case v == vStale:
			m.stats["model.verdict.stale"]++
		default:
			m.stats["model.verdict.success"]++
		}
		if v == vSuccess {
			m.fullClaim[i] = !m.unlocking[i]
			// it must hold every key now
			for _, k := range m.txns[i].Keys {
				if !has(now[k], i) {
					m.report("holder-mismatch", fmt.Sprintf("granted-without key=%s", k), fmt.Sprintf("step %d (%s): T%d got the lock but the slot list names %v as holder of %q\n%s", si.step, si.desc, i, now[k], k, ctx()))
				}
			}
		}
		from := m.lastRel
		if m.callStep[i] > from {
			from = m.callStep[i]
		}
		if d := si.step - from; d > m.bound {
			m.report("slow-return", "bound", fmt.Sprintf("step %d (%s): the lock request of T%d returned %d steps after the later of its call and the last release (bound %d)\n%s", si.step, si.desc, i, d, m.bound, ctx()))
		}
		if d := si.step - from; d > m.maxReturn {
			m.maxReturn = d
		}
	}
}

// key returns the model part of a state identity (for merging states in the exploration).
func (m *monitor) key() string {
	var sb strings.Builder
	ks := make([]string, 0, len(m.maxRel))
	for k := range m.maxRel {
		ks = append(ks, k)
	}
	sort.Strings(ks)
	for _, k := range ks {
		fmt.Fprintf(&sb, "%s=%d,", k, m.maxRel[k])
	}
	ds := make([]string, 0, len(m.dropped))
	for k := range m.dropped {
		ds = append(ds, k)
	}
	sort.Strings(ds)
	fmt.Fprintf(&sb, "|%v%v%v%v", m.verdict, m.unlocking, m.fullClaim, ds)
	return sb.String()
}
