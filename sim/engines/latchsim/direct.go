package latchsim

import (
	"fmt"
	"math"
	"sort"
	"strings"

	"github.com/tikv/client-go/v2/internal/latch"
	"github.com/tikv/client-go/v2/verifsim/simkit"
)

// phases of a transaction's little state machine (direct mode)
const (
	phInit      = iota // has to call acquire
	phAcquiring        // slot granularity: in the middle of acquire()
	phWait             // acquire returned "locked": parked until a release wakes it
	phWoken            // on a wake-up list: has to call acquire again (as scheduler.wakeup does)
	phHeld             // acquire returned success: has to set its commit ts and release
	phStale            // acquire returned stale: has to release what it got
	phReleasing        // slot granularity: in the middle of release()
	phDone
)

var phName = []string{"init", "acquiring", "wait", "woken", "held", "stale", "releasing", "done"}

type dworld struct {
	sc    *Scenario
	L     *latch.Latches
	locks []*latch.Lock
	ph    []int
	mon   *monitor
	step  int
	log   []logEnt
	last  *snap
	path  []int
	dead  bool // a library call panicked
	probe map[string]int
}

func stepBound(sc *Scenario) int {
	b := 0
	for _, t := range sc.Txns {
		b += len(t.Keys) + 8 + t.Delay + t.Work
	}
	return 2 * b
}

func newDWorld(sc *Scenario) *dworld {
	w := &dworld{sc: sc, L: latch.NewLatches(sc.Slots), ph: make([]int, len(sc.Txns)), probe: map[string]int{}}
	w.mon = newMonitor(sc.Txns, stepBound(sc))
	for _, t := range sc.Txns {
		keys := make([][]byte, len(t.Keys))
		for i, k := range t.Keys {
			keys[i] = []byte(k)
		}
		w.locks = append(w.locks, w.L.VerifGenLock(t.Start, keys))
	}
	return w
}

func (w *dworld) find(l *latch.Lock) int {
	for i, x := range w.locks {
		if x == l {
			return i
		}
	}
	return -1
}

func (w *dworld) enabled() []int {
	var out []int
	for i, p := range w.ph {
		if p != phWait && p != phDone {
			out = append(out, i)
		}
	}
	return out
}

func (w *dworld) context() string {
	var sb strings.Builder
	fmt.Fprintf(&sb, "scenario: %s\nschedule (transaction that steps): %v\n", w.sc, w.path)
	for _, l := range w.logLines() {
		sb.WriteString("  " + l + "\n")
	}
	return sb.String()
}

// logEnt is one line of the step history, formatted only when needed.
type logEnt struct {
	step int
	desc string
	s    *snap
}

func (w *dworld) logLines() []string {
	out := make([]string, 0, len(w.log))
	for _, l := range w.log {
		if l.s == nil {
			out = append(out, fmt.Sprintf("%d: %s", l.step, l.desc))
		} else {
			out = append(out, fmt.Sprintf("%d: %s   %s", l.step, l.desc, l.s))
		}
	}
	return out
}

var resName = map[int]string{latch.VerifSuccess: "success", latch.VerifLocked: "locked", latch.VerifStale: "stale"}

// do performs the next step of transaction i.
func (w *dworld) do(i int) {
	w.step++
	w.path = append(w.path, i)
	si := &stepInfo{step: w.step, returned: map[int]int{}}
	lock := w.locks[i]
	slotGran := w.sc.Gran == "slot"
	defer func() {
		if r := recover(); r != nil {
			w.dead = true
			w.log = append(w.log, logEnt{w.step, fmt.Sprintf("%s PANIC %v", si.desc, r), nil})
			w.mon.report("panic", simkit_first(fmt.Sprint(r)), fmt.Sprintf("step %d: the library panicked: %v\n%s", w.step, r, w.context()))
		}
	}()
	switch w.ph[i] {
	case phInit, phAcquiring, phWoken:
		if w.ph[i] == phInit {
			si.called = append(si.called, i)
		}
		if w.ph[i] == phWoken {
			w.probe["probe.reacquire"]++
		}
		var st int
		done := true
		si.acquiring = true
		if slotGran {
			si.desc = fmt.Sprintf("T%d acquireSlot", i)
			st, done = w.L.VerifAcquireSlot(lock)
		} else {
			si.desc = fmt.Sprintf("T%d acquire", i)
			st = w.L.VerifAcquire(lock)
		}
		si.desc += " -> " + resName[st]
		switch {
		case !done:
			w.ph[i] = phAcquiring
		case st == latch.VerifSuccess:
			w.ph[i] = phHeld
			si.returned[i] = vSuccess
		case st == latch.VerifStale:
			if w.ph[i] == phWoken {
				w.probe["probe.stale-on-wake"]++
			} else {
				w.probe["probe.stale-on-acquire"]++
			}
			w.ph[i] = phStale
			si.returned[i] = vStale
		default:
			if w.ph[i] == phWoken {
				w.probe["probe.waits-again-after-wake"]++
			}
			w.probe["probe.waited"]++
			w.ph[i] = phWait
		}
	case phHeld, phStale, phReleasing:
		if w.ph[i] == phHeld && !w.sc.Txns[i].Fails {
			lock.SetCommitTS(w.sc.Txns[i].Commit)
		}
		if w.ph[i] != phReleasing {
			si.unlock = append(si.unlock, i)
		}
		var woken []*latch.Lock
		more := false
		if slotGran {
			var nx *latch.Lock
			nx, more = w.L.VerifReleaseSlot(lock)
			if nx != nil {
				woken = append(woken, nx)
			}
			si.desc = fmt.Sprintf("T%d releaseSlot", i)
		} else {
			woken = w.L.VerifRelease(lock)
			si.desc = fmt.Sprintf("T%d release", i)
		}
		if more {
			w.ph[i] = phReleasing
		} else {
			w.ph[i] = phDone
		}
		var names []string
		for _, l := range woken {
			j := w.find(l)
			names = append(names, fmt.Sprintf("T%d", j))
			w.probe["probe.wakeup"]++
			if j < 0 || w.ph[j] != phWait {
				p := "?"
				if j >= 0 {
					p = phName[w.ph[j]]
				}
				w.mon.report("bad-wakeup", "not-waiting", fmt.Sprintf("step %d (%s): the wake-up list names T%d which is not waiting (phase %s)\n%s", w.step, si.desc, j, p, w.context()))
				continue
			}
			w.ph[j] = phWoken
		}
		si.desc += fmt.Sprintf(" -> wakes %v", names)
	}
	s := takeSnap(w.L, len(w.locks), w.find, w.locks)
	w.log = append(w.log, logEnt{w.step, si.desc, s})
	w.last = s
	w.mon.observe(si, s, w.context)
	// a waiting lock must sit in the waiting list of the slot of its next key
	for j, p := range w.ph {
		if p != phWait {
			continue
		}
		in := false
		for _, wl := range s.waiting {
			if has(wl, j) {
				in = true
			}
		}
		if !in {
			w.mon.report("lost-waiter", "not-queued", fmt.Sprintf("step %d (%s): T%d was told to wait but is in no waiting list\n%s", w.step, si.desc, j, w.context()))
		}
	}
}

func simkit_first(s string) string {
	f := strings.Fields(s)
	if len(f) > 4 {
		f = f[:4]
	}
	return strings.Join(f, " ")
}

// terminal checks a state in which no step is enabled.
func (w *dworld) terminal() {
	var stuck []string
	for i, p := range w.ph {
		if p != phDone {
			stuck = append(stuck, fmt.Sprintf("T%d(%s)", i, phName[p]))
		}
	}
	if len(stuck) > 0 {
		w.mon.report("lock-never-returns", "stuck", fmt.Sprintf("after %d steps no step is enabled (every transaction that got its lock has unlocked) but %v still wait: lost wake-up or deadlock\n%s", w.step, stuck, w.context()))
		return
	}
	s := takeSnap(w.L, len(w.locks), w.find, w.locks)
	for i, nd := range s.nodes {
		if nd.Holder != nil {
			w.mon.report("residue", "holder", fmt.Sprintf("all transactions have unlocked but key %q still names T%d as holder\n%s", nd.Key, s.holder[i], w.context()))
		}
	}
	for i, wl := range s.waiting {
		if len(wl) > 0 {
			w.mon.report("residue", "waiter", fmt.Sprintf("all transactions have unlocked but slot %d still has waiters %v\n%s", i, wl, w.context()))
		}
	}
}

func (w *dworld) stateKey() string {
	s := w.last
	if s == nil {
		s = takeSnap(w.L, len(w.locks), w.find, w.locks)
	}
	return fmt.Sprintf("%v|%s|%s", w.ph, s, w.mon.key())
}

// explorer walks the tree of all interleavings below a prefix, merging identical states.
type explorer struct {
	sc        *Scenario
	memo      map[string]float64
	states    int
	cut       bool
	order     *simkit.Hasher
	viol      map[string]simkit.Violation
	vlen      map[string]int
	vord      []string
	probe     map[string]int
	maxLen    int
	maxReturn int
	log       []string
}

func (e *explorer) replay(path []int) *dworld {
	w := newDWorld(e.sc)
	for _, i := range path {
		if w.dead {
			break
		}
		if i < 0 || i >= len(w.ph) || w.ph[i] == phWait || w.ph[i] == phDone {
			continue // (a shrunk scenario may make a recorded prefix partly meaningless)
		}
		w.do(i)
	}
	return w
}

func (e *explorer) collect(w *dworld) {
	for _, v := range w.mon.violations() {
		k := v.Class + "/" + v.Sig
		if old, ok := e.vlen[k]; !ok || len(w.path) < old {
			if !ok {
				e.vord = append(e.vord, k)
			}
			e.viol[k] = v
			e.vlen[k] = len(w.path)
			e.log = w.logLines()
		}
	}
}

func (e *explorer) explore(path []int) float64 {
	w := e.replay(path)
	e.collect(w)
	if w.dead {
		return 1
	}
	key := w.stateKey()
	if c, ok := e.memo[key]; ok {
		return c
	}
	if e.states >= e.sc.Budget {
		e.cut = true
		return 0
	}
	e.states++
	for k, v := range w.probe {
		if v > 0 {
			e.probe[k] = 1
		}
	}
	if w.mon.maxReturn > e.maxReturn {
		e.maxReturn = w.mon.maxReturn
	}
	if w.mon.stats["probe.node-forgotten"] > 0 {
		e.probe["probe.node-forgotten"] = 1
	}
	en := w.enabled()
	if len(en) == 0 {
		w.terminal()
		e.collect(w)
		if len(w.path) > e.maxLen {
			e.maxLen = len(w.path)
		}
		e.memo[key] = 1
		return 1
	}
	if e.sc.OrderSeed != 0 {
		pk := fmt.Sprint(path)
		sort.SliceStable(en, func(a, b int) bool {
			return e.order.U64(fmt.Sprintf("%s/%d", pk, en[a])) < e.order.U64(fmt.Sprintf("%s/%d", pk, en[b]))
		})
	}
	total := 0.0
	for _, i := range en {
		total += e.explore(append(append([]int(nil), path...), i))
	}
	e.memo[key] = total
	return total
}

func executeDirect(cfg simkit.RunConfig, sc *Scenario) *simkit.RunResult {
	if sc.Budget <= 0 {
		sc.Budget = 3000
	}
	e := &explorer{sc: sc, memo: map[string]float64{}, order: simkit.NewHasher(sc.OrderSeed, "order"),
		viol: map[string]simkit.Violation{}, vlen: map[string]int{}, probe: map[string]int{}}
	paths := e.explore(append([]int(nil), sc.Path...))
	res := &simkit.RunResult{Stats: map[string]int{}}
	for _, k := range e.vord {
		res.Violations = append(res.Violations, e.viol[k])
	}
	for k, v := range e.probe {
		res.Stats[k] = v
	}
	res.Stats["direct.states"] = e.states
	if paths > math.MaxInt32 {
		res.Stats["direct.interleavings-over-2^31"] = 1
		paths = math.MaxInt32
	}
	res.Stats["direct.interleavings"] = int(paths)
	if e.cut {
		res.Stats["direct.budget-cut"] = 1
		if sc.Exhaustive {
			res.Aborted = "enumeration-budget"
		}
	} else {
		res.Stats["direct.exhaustive-runs"] = 1
	}
	res.Stats["direct.gran."+sc.Gran] = 1
	if e.maxReturn > stepBound(sc)/2 {
		res.Stats["probe.return-steps-over-half-bound"] = 1
	}
	// collisions among the keys in use
	L := latchForProbe(sc)
	slotOf := map[int]string{}
	for _, t := range sc.Txns {
		for _, k := range t.Keys {
			s := L.VerifSlotID([]byte(k))
			if o, ok := slotOf[s]; ok && o != k {
				res.Stats["probe.keys-collide-in-slot"] = 1
			}
			slotOf[s] = k
		}
	}
	res.Events = e.states
	res.Nontrivial = e.probe["probe.waited"] > 0 || e.probe["probe.stale-on-acquire"] > 0
	res.Trace = []string{sc.String(), fmt.Sprintf("states=%d interleavings=%.0f cut=%v maxlen=%d violations=%d", e.states, paths, e.cut, e.maxLen, len(res.Violations))}
	res.SchedHash = hashStrings(res.Trace)
	res.Sample = map[string]any{"scenario": sc.String(), "states": e.states, "interleavings": paths, "exhaustive": !e.cut, "longest_schedule": e.maxLen, "max_steps_to_return": e.maxReturn, "bound": stepBound(sc)}
	if len(res.Violations) > 0 {
		res.Log = append([]string{"shortest violating schedule found:"}, e.log...)
	}
	return res
}

func latchForProbe(sc *Scenario) *latch.Latches { return latch.NewLatches(sc.Slots) }
