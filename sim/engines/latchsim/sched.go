package latchsim

import (
	"bytes"
	"fmt"
	"runtime"
	"sort"
	"strconv"
	"strings"
	"sync"
	"testing/synctest"
	"time"

	"github.com/tikv/client-go/v2/internal/latch"
	"github.com/tikv/client-go/v2/verifsim/simkit"
)

// goid returns the id of the calling goroutine (the yield hook has no other way
// to know on whose behalf the library calls it).
func goid() int64 {
	var buf [64]byte
	n := runtime.Stack(buf[:], false)
	f := bytes.Fields(buf[:n])
	if len(f) < 2 {
		return -1
	}
	id, _ := strconv.ParseInt(string(f[1]), 10, 64)
	return id
}

type parkedG struct {
	ch   chan struct{}
	site string
}

type sworld struct {
	sc     *Scenario
	S      *latch.LatchesScheduler
	L      *latch.Latches
	mu     sync.Mutex
	parked map[string]*parkedG
	actors map[int64]string // goroutine id -> actor name
	extra  int
	// per transaction, written by its caller goroutine under mu
	called     []bool
	returned   []int // verdict
	retSeen    []bool
	unlocked   []bool
	unlSeen    []bool
	calledSeen []bool
	sleeping   []bool
	finished   []bool
	locks      []*latch.Lock
	panics     []string
	ending     bool // the run is being wound up: no more parking, no more library calls by callers
	hookSites  map[string]int
}

// park blocks the calling goroutine until the simulator releases it.
func (w *sworld) park(name, site string) {
	p := &parkedG{ch: make(chan struct{}), site: site}
	w.mu.Lock()
	if w.ending {
		w.mu.Unlock()
		return
	}
	if _, dup := w.parked[name]; dup {
		w.mu.Unlock()
		panic("latchsim: actor " + name + " parked twice")
	}
	w.parked[name] = p
	w.mu.Unlock()
	<-p.ch
}

// hook is installed as simhook.Hook in a hooked build.
func (w *sworld) hook(site string) {
	id := goid()
	w.mu.Lock()
	name, ok := w.actors[id]
	if !ok {
		// not a caller: the scheduler goroutine (first), or a recycle goroutine
		if w.extra == 0 {
			name = "S"
		} else {
			name = fmt.Sprintf("X%d", w.extra)
		}
		w.extra++
		w.actors[id] = name
	}
	w.hookSites[site]++
	w.mu.Unlock()
	w.park(name, site)
}

func (w *sworld) isEnding() bool {
	w.mu.Lock()
	defer w.mu.Unlock()
	return w.ending
}

func (w *sworld) caller(i int) {
	t := w.sc.Txns[i]
	name := fmt.Sprintf("T%d", i)
	w.mu.Lock()
	w.actors[goid()] = name
	w.mu.Unlock()
	defer func() {
		if r := recover(); r != nil {
			w.mu.Lock()
			w.panics = append(w.panics, fmt.Sprintf("T%d: %v", i, r))
			w.mu.Unlock()
		}
		w.mu.Lock()
		w.finished[i] = true
		w.mu.Unlock()
	}()
	for d := 0; d <= t.Delay; d++ {
		w.park(name, "caller.before-lock")
	}
	keys := make([][]byte, len(t.Keys))
	for k := range t.Keys {
		keys[k] = []byte(t.Keys[k])
	}
	w.mu.Lock()
	w.called[i] = true
	w.mu.Unlock()
	lock := w.S.Lock(t.Start, keys)
	w.mu.Lock()
	w.locks[i] = lock
	if lock.IsStale() {
		w.returned[i] = vStale
	} else {
		w.returned[i] = vSuccess
	}
	w.mu.Unlock()
	for d := 0; d <= t.Work; d++ {
		w.park(name, "caller.work")
	}
	if w.isEnding() {
		return
	}
	if t.SleepUs > 0 {
		w.mu.Lock()
		w.sleeping[i] = true
		w.mu.Unlock()
		time.Sleep(time.Duration(t.SleepUs) * time.Microsecond)
		w.mu.Lock()
		w.sleeping[i] = false
		w.mu.Unlock()
		w.park(name, "caller.after-sleep")
	}
	if w.isEnding() {
		return
	}
	if !lock.IsStale() && !t.Fails {
		lock.SetCommitTS(t.Commit)
	}
	w.mu.Lock()
	w.unlocked[i] = true
	w.mu.Unlock()
	w.S.UnLock(lock)
}

// executeSched runs one scenario against the scheduler. contained: the scheduler is
// built by the shim VerifNewScheduler (same fields, same run() loop) whose goroutine
// recovers a panic, so that a panicking library is reported as a violation instead
// of killing the process; otherwise by the real NewScheduler.
func executeSched(cfg simkit.RunConfig, sc *Scenario, hooked, contained bool) *simkit.RunResult {
	n := len(sc.Txns)
	w := &sworld{sc: sc, parked: map[string]*parkedG{}, actors: map[int64]string{}, hookSites: map[string]int{},
		called: make([]bool, n), returned: make([]int, n), retSeen: make([]bool, n), unlocked: make([]bool, n), unlSeen: make([]bool, n),
		calledSeen: make([]bool, n), sleeping: make([]bool, n), finished: make([]bool, n), locks: make([]*latch.Lock, n)}
	if hooked {
		yieldHook = w.hook
		defer func() { yieldHook = nil }()
	}
	if contained {
		w.S = latch.VerifNewScheduler(sc.Slots, func(v any) {
			w.mu.Lock()
			w.panics = append(w.panics, fmt.Sprintf("scheduler goroutine: %v", v))
			w.mu.Unlock()
		})
	} else {
		w.S = latch.NewScheduler(sc.Slots)
	}
	seen := make([]*latch.Lock, n) // every Lock the simulator has seen, per transaction
	w.L = w.S.VerifLatches()
	mon := newMonitor(sc.Txns, stepBound(sc))
	byStart := map[uint64]int{}
	for i, t := range sc.Txns {
		byStart[t.Start] = i
	}
	find := func(l *latch.Lock) int {
		if i, ok := byStart[l.VerifStartTS()]; ok {
			return i
		}
		return -1
	}
	var wg sync.WaitGroup
	for i := range sc.Txns {
		wg.Add(1)
		go func() {
			defer wg.Done()
			w.caller(i)
		}()
	}
	res := &simkit.RunResult{Stats: map[string]int{}}
	var log []string
	var picks []string
	pick := simkit.NewHasher(sc.OrderSeed, "pick")
	ctx := func() string {
		var sb strings.Builder
		fmt.Fprintf(&sb, "scenario: %s\npicks: %v\n", sc, picks)
		for _, l := range log {
			sb.WriteString("  " + l + "\n")
		}
		return sb.String()
	}
	step := 0
	lastDesc := "start"
	waitedSome := false
	idle := 0
	maxSteps := 40 * stepBound(sc)
	var stuck []string
	for {
		synctest.Wait()
		// digest what the released goroutine (and whatever it woke) did
		w.mu.Lock()
		si := &stepInfo{step: step, desc: lastDesc, returned: map[int]int{}, acquiring: strings.Contains(lastDesc, "latch.acquireSlot")}
		for i := 0; i < n; i++ {
			if w.called[i] && !w.calledSeen[i] {
				w.calledSeen[i] = true
				si.called = append(si.called, i)
			}
			if w.returned[i] != vNone && !w.retSeen[i] {
				w.retSeen[i] = true
				si.returned[i] = w.returned[i]
			}
			if w.unlocked[i] && !w.unlSeen[i] {
				w.unlSeen[i] = true
				si.unlock = append(si.unlock, i)
			}
		}
		known := append([]*latch.Lock(nil), w.locks...)
		names := make([]string, 0, len(w.parked))
		for nm := range w.parked {
			names = append(names, nm)
		}
		anySleeping := false
		for i := 0; i < n; i++ {
			if w.sleeping[i] {
				anySleeping = true
			}
		}
		npanic := len(w.panics)
		w.mu.Unlock()
		sort.Strings(names)
		s := takeSnap(w.L, n, find, known)
		for i, l := range s.lock {
			if l != nil {
				seen[i] = l
			}
		}
		for _, wl := range s.waiting {
			if len(wl) > 0 {
				waitedSome = true
			}
		}
		log = append(log, fmt.Sprintf("%d: %s   %s pending-unlocks=%d", step, lastDesc, s, w.S.VerifPending()))
		mon.observe(si, s, ctx)
		if npanic > 0 {
			break
		}
		if len(names) == 0 {
			if anySleeping && idle < 1000 {
				idle++
				time.Sleep(10 * time.Microsecond)
				lastDesc = "(simulated time passes)"
				continue
			}
			break
		}
		if step >= maxSteps {
			mon.report("slow-return", "run-budget", fmt.Sprintf("the run did not end within %d steps\n%s", maxSteps, ctx()))
			break
		}
		var nm string
		if step < len(sc.Picks) && has2(names, sc.Picks[step]) {
			nm = sc.Picks[step]
		} else {
			nm = names[pick.Intn(fmt.Sprintf("%d/%s", step, strings.Join(names, ",")), len(names))]
		}
		step++
		w.mu.Lock()
		p := w.parked[nm]
		delete(w.parked, nm)
		w.mu.Unlock()
		picks = append(picks, nm)
		lastDesc = fmt.Sprintf("release %s at %s", nm, p.site)
		res.Stats["sched.step."+p.site]++
		close(p.ch)
	}
	// end of the run: every caller must have finished
	w.mu.Lock()
	for i := 0; i < n; i++ {
		if !w.finished[i] {
			stuck = append(stuck, fmt.Sprintf("T%d", i))
		}
	}
	for _, p := range w.panics {
		mon.report("panic", simkit_first(p), fmt.Sprintf("the library panicked: %s\n%s", p, ctx()))
	}
	w.mu.Unlock()
	final := takeSnap(w.L, n, find, w.locks)
	if len(stuck) > 0 && len(w.panics) == 0 {
		mon.report("lock-never-returns", "stuck", fmt.Sprintf("after %d steps nothing can run any more (no goroutine is parked at a yield point, every transaction that got its lock has called UnLock, %d unlock requests are unprocessed) but the Lock calls of %v have not returned: lost wake-up or deadlock\nfinal state: %s\n%s", step, w.S.VerifPending(), stuck, final, ctx()))
	} else if len(w.panics) == 0 {
		for i, nd := range final.nodes {
			if nd.Holder != nil {
				mon.report("residue", "holder", fmt.Sprintf("all transactions have unlocked but key %q still names T%d as holder\n%s", nd.Key, final.holder[i], ctx()))
			}
		}
		for i, wl := range final.waiting {
			if len(wl) > 0 {
				mon.report("residue", "waiter", fmt.Sprintf("all transactions have unlocked but slot %d still has waiters %v\n%s", i, wl, ctx()))
			}
		}
	}
	// let everything end: free parked goroutines and blocked callers
	yieldHook = nil
	forced := map[*latch.Lock]bool{}
	for round := 0; round < 50; round++ {
		w.mu.Lock()
		w.ending = len(stuck) > 0 || len(w.panics) > 0 || len(res.Violations) > 0 || len(mon.vord) > 0
		var ps []*parkedG
		for nm, p := range w.parked {
			ps = append(ps, p)
			delete(w.parked, nm)
		}
		w.mu.Unlock()
		for _, p := range ps {
			close(p.ch)
		}
		synctest.Wait()
		done := true
		w.mu.Lock()
		for i := 0; i < n; i++ {
			if !w.finished[i] {
				done = false
			}
		}
		np := len(w.parked)
		w.mu.Unlock()
		if done && np == 0 {
			break
		}
		if len(ps) == 0 {
			// blocked in Lock: end their wait by force (the violation is already recorded)
			did := false
			w.mu.Lock()
			var victims []*latch.Lock
			for i := 0; i < n; i++ {
				if !w.finished[i] && w.called[i] && w.returned[i] == vNone && seen[i] != nil && !forced[seen[i]] {
					forced[seen[i]] = true
					victims = append(victims, seen[i])
				}
			}
			w.mu.Unlock()
			for _, l := range victims {
				func() {
					defer func() { _ = recover() }()
					l.VerifForceWake()
				}()
				did = true
			}
			if !did {
				time.Sleep(time.Millisecond)
			}
		}
	}
	w.S.Close()
	synctest.Wait()
	allDone := true
	w.mu.Lock()
	for i := 0; i < n; i++ {
		if !w.finished[i] {
			allDone = false
		}
	}
	w.mu.Unlock()
	if allDone {
		wg.Wait()
	} else {
		res.Stats["sched.leaked-caller"] = 1 // (a violation was reported; the runner will call this run aborted)
	}

	res.Violations = mon.violations()
	for k, v := range mon.stats {
		res.Stats[k] = v
	}
	for k, v := range w.hookSites {
		res.Stats["hook."+k] = v
	}
	res.Stats["sched.steps"] = step
	if hooked {
		res.Stats["sched.hooked-runs"] = 1
	} else {
		res.Stats["sched.unhooked-runs"] = 1
	}
	if waitedSome {
		res.Stats["probe.waited"] = 1
	}
	res.Events = step
	res.SimTime = time.Duration(0)
	res.Nontrivial = waitedSome || mon.stats["model.verdict.stale"] > 0
	res.Trace = log
	res.SchedHash = hashStrings(log)
	res.Sample = map[string]any{"scenario": sc.String(), "steps": step, "picks": strings.Join(picks, " "), "max_steps_to_return": mon.maxReturn, "bound": stepBound(sc)}
	if mon.maxReturn > stepBound(sc)/2 {
		res.Stats["probe.return-steps-over-half-bound"] = 1
	}
	if len(res.Violations) > 0 {
		res.Log = log
	}
	return res
}

func has2(xs []string, x string) bool {
	for _, y := range xs {
		if y == x {
			return true
		}
	}
	return false
}
