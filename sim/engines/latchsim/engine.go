// Package latchsim is the simulation engine of property C17 (local latches).
package latchsim

import (
	"crypto/sha1"
	"encoding/hex"
	"encoding/json"
	"os"
	"strings"
	"sync"
	"testing"

	"github.com/tikv/client-go/v2/internal/latch"
	"github.com/tikv/client-go/v2/verifsim/simkit"
)

// Engine implements simkit.Engine.
type Engine struct{}

// Name implements simkit.Engine.
func (Engine) Name() string { return "latchsim" }

// Decode implements simkit.Engine.
func (Engine) Decode(raw json.RawMessage) (any, error) {
	var sc Scenario
	if err := json.Unmarshal(raw, &sc); err != nil {
		return nil, err
	}
	return &sc, nil
}

// Generate implements simkit.Engine.
//
//	direct-enum  complete enumeration: every scenario with <= 3 transactions x <= 2 keys (ok=false at the end)
//	direct       seeded scenarios with <= 4 transactions x <= 3 keys, budgeted exploration of their interleavings
//	direct-wide  like direct, one slot, six keys, timestamps minutes apart (list recycling runs); not part of C17's quantification
//	sched        LatchesScheduler with caller goroutines, seeded choice of the goroutine that runs next
func (Engine) Generate(cfg simkit.RunConfig) (any, bool) {
	switch cfg.Mode {
	case "direct-enum":
		sc, ok := enumFor(enumParams(cfg.Tier)).scenario(cfg.Index)
		if !ok {
			return nil, false
		}
		return sc, true
	case "", "direct":
		return genRandom(cfg, "direct"), true
	case "direct-wide":
		return genWide(cfg), true
	case "sched":
		return genRandom(cfg, "sched"), true
	}
	panic("latchsim: unknown mode " + cfg.Mode)
}

var (
	probeOnce sync.Once
	hooksLive bool
)

// probeHooks finds out whether the library was built with hooks.patch: it installs
// a counting hook and performs one acquire on a private Latches.
func probeHooks() bool {
	probeOnce.Do(func() {
		n := 0
		yieldHook = func(string) { n++ }
		l := latch.NewLatches(1)
		l.VerifAcquire(l.VerifGenLock(1, [][]byte{[]byte("probe")}))
		yieldHook = nil
		hooksLive = n > 0
	})
	return hooksLive
}

// Execute implements simkit.Engine.
func (Engine) Execute(t *testing.T, cfg simkit.RunConfig, scenario any) *simkit.RunResult {
	sc := scenario.(*Scenario)
	hooked := probeHooks()
	if hooked && os.Getenv("LATCHSIM_NOHOOK") != "" {
		hooked = false
	}
	var res *simkit.RunResult
	if sc.Kind == "sched" {
		// first with a scheduler goroutine that survives a panic of the library; if that
		// run is clean, the same scenario again with the real constructor NewScheduler
		res = executeSched(cfg, sc, hooked, true)
		if len(res.Violations) == 0 {
			r2 := executeSched(cfg, sc, hooked, false)
			if r2.SchedHash != res.SchedHash && len(r2.Violations) == 0 {
				r2.Violations = append(r2.Violations, simkit.Violation{Property: "C17", Class: "constructor-divergence", Sig: "trace",
					Detail: "the same scenario and picks gave different step histories with NewScheduler and with the shim's copy of it:\n" + strings.Join(res.Trace, "\n") + "\n--- NewScheduler ---\n" + strings.Join(r2.Trace, "\n")})
				r2.Log = r2.Trace
			}
			res = r2
		}
	} else {
		res = executeDirect(cfg, sc)
	}
	if os.Getenv("VERIF_DUMP") != "" && len(res.Log) == 0 {
		if sc.Kind == "sched" {
			res.Log = res.Trace
		} else {
			// one complete schedule as a sample
			e := &explorer{sc: sc}
			w := e.replay(sc.Path)
			for !w.dead {
				en := w.enabled()
				if len(en) == 0 {
					break
				}
				w.do(en[0])
			}
			res.Log = append(append([]string{"sample schedule (first enabled step each time):"}, w.logLines()...), res.Trace...)
		}
	}
	return res
}

// Shrink implements simkit.Engine: drop a transaction, drop a key, drop the
// callers' delays, use fewer slots.
func (Engine) Shrink(scenario any) []any {
	sc := scenario.(*Scenario)
	clone := func() *Scenario {
		b, _ := json.Marshal(sc)
		var c Scenario
		_ = json.Unmarshal(b, &c)
		c.Path, c.Picks = nil, nil
		return &c
	}
	var out []any
	for i := range sc.Txns {
		if len(sc.Txns) > 1 {
			c := clone()
			c.Txns = append(c.Txns[:i], c.Txns[i+1:]...)
			for j := range c.Txns {
				c.Txns[j].ID = j
			}
			out = append(out, c)
		}
	}
	for i := range sc.Txns {
		for k := range sc.Txns[i].Keys {
			if len(sc.Txns[i].Keys) > 1 {
				c := clone()
				c.Txns[i].Keys = append(c.Txns[i].Keys[:k], c.Txns[i].Keys[k+1:]...)
				out = append(out, c)
			}
		}
	}
	for i := range sc.Txns {
		if sc.Txns[i].Delay > 0 || sc.Txns[i].Work > 0 || sc.Txns[i].SleepUs > 0 {
			c := clone()
			c.Txns[i].Delay, c.Txns[i].Work, c.Txns[i].SleepUs = 0, 0, 0
			out = append(out, c)
		}
	}
	if sc.Slots > 1 {
		c := clone()
		c.Slots = sc.Slots / 2
		out = append(out, c)
	}
	if sc.Kind == "direct" && sc.Gran == "slot" {
		c := clone()
		c.Gran = "method"
		out = append(out, c)
	}
	return out
}

func hashStrings(ls []string) string {
	h := sha1.Sum([]byte(strings.Join(ls, "\n")))
	return hex.EncodeToString(h[:8])
}
