//go:debug randseednop=0
package latchsim

import (
	"fmt"
	"testing"

	"github.com/tikv/client-go/v2/internal/latch"
)

func TestSim(t *testing.T) {
	n := 0
	yieldHook = func(s string) { n++ }
	l := latch.NewLatches(2)
	lk := l.VerifGenLock(1, [][]byte{[]byte("a")})
	l.VerifAcquire(lk)
	fmt.Println("hook calls", n)
}
