// Package locatesim checks property C09: every lookup of locate.RegionCache returns regions that
// contain the keys asked for, range lookups cover their ranges without a gap, the region index
// never regresses to an older description, and once topology changes stop every request reaches
// the store that leads the region of its key. See CHECK.md.
package locatesim

import (
	"context"
	"crypto/sha1"
	"encoding/hex"
	"encoding/json"
	"fmt"
	"math/rand"
	"os"
	"strings"
	"sync"
	"testing"
	"time"

	"github.com/tikv/client-go/v2/config/retry"
	"github.com/tikv/client-go/v2/internal/locate"
	"github.com/tikv/client-go/v2/verifsim/simkit"
)

// Engine implements simkit.Engine.
type Engine struct{}

// Name implements simkit.Engine.
func (Engine) Name() string { return "locatesim" }

// Decode implements simkit.Engine.
func (Engine) Decode(raw json.RawMessage) (any, error) {
	var sc Scenario
	if err := json.Unmarshal(raw, &sc); err != nil {
		return nil, err
	}
	return &sc, nil
}

// Generate implements simkit.Engine.
func (Engine) Generate(cfg simkit.RunConfig) (any, bool) {
	switch cfg.Mode {
	case "", "mix":
		return genScenario(cfg, "mix"), true
	case "batch":
		return genScenario(cfg, "batch"), true
	case "send":
		return genScenario(cfg, "send"), true
	}
	panic("locatesim: unknown mode " + cfg.Mode)
}

// Shrink implements simkit.Engine.
func (Engine) Shrink(scenario any) []any { return shrink(scenario.(*Scenario)) }

// Prepare implements simkit.Preparer (outside the bubble).
func (Engine) Prepare(cfg simkit.RunConfig, scenario any) {
	// TTL jitter of cached regions and back-off jitter of the code under test use the global math/rand
	rand.Seed(int64(cfg.Seed))
	sc := scenario.(*Scenario)
	ttl, jit := sc.TTLSec, sc.JitterSec
	if ttl <= 0 {
		ttl = 600
	}
	locate.SetRegionCacheTTLWithJitter(ttl, jit)
}

// Cleanup implements simkit.Preparer.
func (Engine) Cleanup(cfg simkit.RunConfig, scenario any) {
	locate.SetRegionCacheTTLWithJitter(600, 60)
}

// Execute implements simkit.Engine.
func (Engine) Execute(t *testing.T, cfg simkit.RunConfig, scenario any) *simkit.RunResult {
	sc := scenario.(*Scenario)
	if sc.LookupBudgetMs <= 0 {
		sc.LookupBudgetMs = 20000
	}
	if sc.ConvergeBudgetMs <= 0 {
		sc.ConvergeBudgetMs = 30000
	}
	if sc.ConvergeAttempts <= 0 {
		sc.ConvergeAttempts = 200
	}
	s := simkit.New(cfg.Seed)
	s.Limits.MaxSimTime = 60 * time.Minute
	res := &simkit.RunResult{}
	w, err := newWorld(s, sc, true)
	if err != nil {
		res.Aborted = "world: " + err.Error()
		return res
	}
	layout0 := w.cur().describe()
	regions0 := len(w.cur().regions)
	s.Run(func() {
		w.scheduleEvents()
		var wg sync.WaitGroup
		for a := range sc.Actors {
			wg.Add(1)
			go w.runActor(a, &wg)
		}
		wg.Wait()
		if n := len(sc.Events); n > 0 {
			if d := time.Duration(sc.Events[n-1].AtUs)*time.Microsecond - s.Now(); d >= 0 {
				time.Sleep(d + time.Millisecond)
			}
		}
		w.converge()
	})
	layoutEnd := w.cur().describe()
	w.check("end of run")
	w.close()
	simkit.Settle()

	res.Aborted = s.Aborted
	res.Events = s.Events
	res.SimTime = s.Now()
	res.Stats = s.Stats()
	res.Trace = w.trace
	hsum := sha1.Sum([]byte(strings.Join(res.Trace, "\n")))
	res.SchedHash = hex.EncodeToString(hsum[:8])

	okOps, errOps := 0, 0
	for _, recs := range w.hist {
		for _, r := range recs {
			if r.Err == "" && r.Panic == "" {
				okOps++
			} else {
				errOps++
			}
		}
	}
	applied := 0
	for k, v := range res.Stats {
		if strings.HasPrefix(k, "event.") {
			applied += v
		}
	}
	// Nontrivial: at least three calls returned a result and the run had more than one region or
	// at least one applied topology / store event.
	res.Nontrivial = okOps >= 3 && (regions0 > 1 || applied > 0)
	res.Stats["runs.multi-region"] = b2i(regions0 > 1)
	res.Stats["runs.topology-changed"] = b2i(applied > 0)
	res.Stats["runs.stale-pd"] = b2i(res.Stats["pd.stale-answer"] > 0)
	res.Stats["runs.actors-"+fmt.Sprint(len(sc.Actors))] = 1
	res.Stats["ops.ok"] = okOps
	res.Stats["ops.error"] = errOps

	for _, p := range w.panics {
		w.violate("backend-panic", firstWords(p, 5), p)
	}
	if s.Aborted != "" {
		// a run that hit a budget of the simulator is not judged for liveness (none was recorded
		// after the abort), safety violations found before it stand
		res.Stats["runs.aborted"] = 1
	}
	res.Violations = w.violations
	if len(res.Violations) > 0 || os.Getenv("VERIF_DUMP") != "" {
		res.Log = append(res.Log, "layout at start: "+layout0, "layout at end:   "+layoutEnd)
		res.Log = append(res.Log, w.log...)
	}
	res.Sample = map[string]any{
		"mode": sc.Mode, "stores": sc.Stores, "regions_at_start": regions0, "actors": len(sc.Actors), "ops_ok": okOps, "ops_err": errOps,
		"events_applied": applied, "pd_calls": res.Stats["pd.getregion"] + res.Stats["pd.getprev"] + res.Stats["pd.getbyid"] + res.Stats["pd.scan"] + res.Stats["pd.bscan"],
		"stale_pd_answers": res.Stats["pd.stale-answer"], "rpcs": len(w.rpcs), "layout_end": layoutEnd, "sim_ms": res.SimTime.Milliseconds(),
	}
	return res
}

func b2i(b bool) int {
	if b {
		return 1
	}
	return 0
}

// converge is the liveness part: after the last event, with every store running, fresh PD answers
// and a loss-free network, a Get of each chosen key must succeed at the store that leads the
// region holding the key, within the stated budgets.
func (w *world) converge() {
	sc := w.sc
	w.mu.Lock()
	w.faults = false
	w.mu.Unlock()
	done := make(chan struct{})
	w.sim.Submit("start-stores", 0, 0, func() {
		for i, sid := range w.storeIDs {
			if w.stopped[sid] {
				w.applyEvent(1000+i, &Event{Kind: "startstore", Store: i})
			}
		}
		close(done)
	})
	<-done
	if !w.quiesce() {
		w.sim.Count("converge.skipped-not-quiet")
		return
	}
	if w.sim.Aborted != "" {
		return
	}
	w.tracef("CONVERGE start; topology: %s", w.cur().describe())
	budget := time.Duration(sc.ConvergeBudgetMs) * time.Millisecond
	for _, k := range sc.Converge {
		key := []byte(k)
		bo := retry.NewBackofferWithVars(context.Background(), sc.ConvergeBudgetMs, nil)
		at := w.sim.Now()
		r := w.get(context.Background(), bo, key, false, sc.ConvergeAttempts+100)
		w.sim.Count("converge.get")
		w.tracef("CONVERGE get %q -> err=%q rpcs=%d rounds=%d elapsed=%s", k, r.err, r.rpcs, r.rounds, fmtDur(r.elapsed))
		if w.sim.Aborted != "" {
			return
		}
		call := fmt.Sprintf("after the last event (at %s) and with fresh PD answers, Get(%q) started at %s", fmtDur(w.lastTopoAt), k, fmtDur(at))
		switch {
		case r.err != "":
			w.violate("no-convergence", "failed", fmt.Sprintf("%s failed after %s and %d requests: %s; topology: %s", call, fmtDur(r.elapsed), r.rpcs, r.err, w.cur().describe()))
		case r.elapsed > budget:
			w.violate("no-convergence", "slow", fmt.Sprintf("%s took %s (budget %s), %d requests; topology: %s", call, fmtDur(r.elapsed), budget, r.rpcs, w.cur().describe()))
		case r.rpcs > sc.ConvergeAttempts:
			w.violate("no-convergence", "attempts", fmt.Sprintf("%s needed %d requests (budget %d); topology: %s", call, r.rpcs, sc.ConvergeAttempts, w.cur().describe()))
		case r.last == nil || !r.last.success || !r.last.leaderOK:
			desc := "<no request>"
			if r.last != nil {
				desc = fmt.Sprintf("%s to %s as region %d epoch %s -> %s; region of the key: %s", r.last.typ, r.last.addr, r.last.regionID, r.last.epoch, r.last.outcome, r.last.truthDesc)
			}
			w.violate("wrong-target", "get", fmt.Sprintf("%s returned success but its last request was not served by the leader of the key's region: %s", call, desc))
		default:
			if r.rpcs > 1 {
				w.sim.Count("converge.needed-retries")
			}
		}
	}
}
