package locatesim

import (
	"bytes"
	"context"
	"encoding/hex"
	"fmt"
	"sort"
	"strings"
	"sync"
	"testing/synctest"
	"time"

	"github.com/gogo/protobuf/proto"
	"github.com/pingcap/kvproto/pkg/kvrpcpb"
	"github.com/pingcap/kvproto/pkg/metapb"
	"github.com/tikv/client-go/v2/internal/apicodec"
	"github.com/tikv/client-go/v2/internal/client"
	"github.com/tikv/client-go/v2/internal/locate"
	"github.com/tikv/client-go/v2/internal/mockstore/mocktikv"
	"github.com/tikv/client-go/v2/oracle"
	"github.com/tikv/client-go/v2/tikvrpc"
	"github.com/tikv/client-go/v2/util/async"
	"github.com/tikv/client-go/v2/verifsim/simkit"
	pd "github.com/tikv/pd/client"
	"github.com/tikv/pd/client/clients/router"
	"github.com/tikv/pd/client/opt"
	"github.com/tikv/pd/client/pkg/caller"
	"google.golang.org/grpc/codes"
	"google.golang.org/grpc/status"
)

// ---------------------------------------------------------------------------------------------
// topology snapshots (what a PD member knows)

type snapRegion struct {
	meta   *metapb.Region // keys in the cluster's (memcomparable-encoded) form
	leader *metapb.Peer
}

type topoSnap struct {
	regions []*snapRegion // ordered by start key
	at      time.Duration
	cause   string
}

func within(start, end, key []byte) bool {
	return bytes.Compare(start, key) <= 0 && (len(end) == 0 || bytes.Compare(key, end) < 0)
}

func (s *topoSnap) byKey(key []byte) *snapRegion {
	for _, r := range s.regions {
		if within(r.meta.StartKey, r.meta.EndKey, key) {
			return r
		}
	}
	return nil
}

func (s *topoSnap) prevOf(key []byte) *snapRegion {
	cur := s.byKey(key)
	if cur == nil || len(cur.meta.StartKey) == 0 {
		return nil
	}
	for _, r := range s.regions {
		if len(r.meta.EndKey) > 0 && bytes.Equal(r.meta.EndKey, cur.meta.StartKey) {
			return r
		}
	}
	return nil
}

func (s *topoSnap) byID(id uint64) *snapRegion {
	for _, r := range s.regions {
		if r.meta.Id == id {
			return r
		}
	}
	return nil
}

// scan: regions intersecting [start,end) in key order, at most limit (limit <= 0: all).
func (s *topoSnap) scan(start, end []byte, limit int) []*snapRegion {
	var out []*snapRegion
	for _, r := range s.regions {
		if len(r.meta.EndKey) > 0 && bytes.Compare(r.meta.EndKey, start) <= 0 {
			continue
		}
		if len(end) > 0 && bytes.Compare(r.meta.StartKey, end) >= 0 {
			break
		}
		out = append(out, r)
		if limit > 0 && len(out) >= limit {
			break
		}
	}
	return out
}

func (r *snapRegion) toPD() *router.Region {
	out := &router.Region{Meta: proto.Clone(r.meta).(*metapb.Region)}
	if r.leader != nil {
		out.Leader = proto.Clone(r.leader).(*metapb.Peer)
	}
	return out
}

func rawOf(k []byte) []byte { return mocktikv.MvccKey(k).Raw() }

func (s *topoSnap) describe() string {
	var sb strings.Builder
	for _, r := range s.regions {
		var lead uint64
		if r.leader != nil {
			lead = r.leader.StoreId
		}
		var stores []string
		for _, p := range r.meta.Peers {
			stores = append(stores, fmt.Sprint(p.StoreId))
		}
		fmt.Fprintf(&sb, "[r%d %q..%q v%d c%d leader@s%d peers@s%s] ", r.meta.Id, rawOf(r.meta.StartKey), rawOf(r.meta.EndKey),
			r.meta.RegionEpoch.GetVersion(), r.meta.RegionEpoch.GetConfVer(), lead, strings.Join(stores, ","))
	}
	return sb.String()
}

// ---------------------------------------------------------------------------------------------
// world

type verKey struct{ id, ver uint64 }

type rawRange struct{ start, end []byte }

type rpcRec struct {
	n         int
	addr      string
	typ       tikvrpc.CmdType
	regionID  uint64
	epoch     string
	key       []byte
	outcome   string // ok, region-error kind, error text
	execAt    time.Duration
	success   bool
	leaderOK  bool // at execution: addressed store led the region that held the key
	truthDesc string
}

type world struct {
	sim *simkit.Sim
	sc  *Scenario

	mvcc     *mocktikv.MVCCLevelDB
	cluster  *mocktikv.Cluster
	storeIDs []uint64
	tiflash  uint64 // store id of the TiFlash store (0: none)
	backend  *mocktikv.RPCClient
	pd       *simPD
	cache    *locate.RegionCache
	cli      *simClient
	codec    apicodec.Codec

	mu      sync.Mutex
	snaps   []*topoSnap
	ranges  map[verKey]rawRange // every (region id, version) that ever existed -> raw key range
	down    chan struct{}
	faults  bool // stale / slow / failing PD answers and network faults are on
	lat     *simkit.Hasher
	flt     *simkit.Hasher
	inPD    int
	inRPC   int
	rpcs    []*rpcRec
	panics  []string
	trace   []string
	log     []string
	verbose bool

	prev       []locate.VerifLocatesimEntry // index at the last checkpoint
	checkpoint int
	violations []simkit.Violation
	lastTopoAt time.Duration
	hist       [][]*opRec
	stopped    map[uint64]bool
}

func fmtDur(d time.Duration) string {
	return fmt.Sprintf("%d.%06ds", int64(d/time.Second), int64(d%time.Second)/1000)
}

// tracef appends a canonical trace line (and the same line to the log).
func (w *world) tracef(format string, args ...any) {
	line := fmt.Sprintf(format, args...)
	w.mu.Lock()
	w.trace = append(w.trace, line)
	if w.verbose {
		w.log = append(w.log, fmt.Sprintf("%12s %s", fmtDur(w.sim.Now()), line))
	}
	w.mu.Unlock()
}

// logf appends to the log only.
func (w *world) logf(format string, args ...any) {
	if !w.verbose {
		return
	}
	line := fmt.Sprintf(format, args...)
	w.mu.Lock()
	w.log = append(w.log, fmt.Sprintf("%12s %s", fmtDur(w.sim.Now()), line))
	w.mu.Unlock()
}

func (w *world) violate(class, sig, detail string) {
	w.mu.Lock()
	defer w.mu.Unlock()
	for _, v := range w.violations {
		if v.Class == class && v.Sig == sig {
			return
		}
	}
	w.violations = append(w.violations, simkit.Violation{Property: "C09", Class: class, Sig: sig, Detail: detail})
}

type noopValidator struct{}

func (noopValidator) ValidateReadTS(ctx context.Context, readTS uint64, isStaleRead bool, opt *oracle.Option) error {
	return nil
}

func newWorld(s *simkit.Sim, sc *Scenario, verbose bool) (*world, error) {
	w := &world{sim: s, sc: sc, ranges: map[verKey]rawRange{}, down: make(chan struct{}), faults: true,
		lat: simkit.NewHasher(s.Seed, "lat"), flt: simkit.NewHasher(s.Seed, "fault"), verbose: verbose, stopped: map[uint64]bool{}}
	mvcc, err := mocktikv.NewMVCCLevelDB("")
	if err != nil {
		return nil, err
	}
	w.mvcc = mvcc
	w.cluster = mocktikv.NewCluster(mvcc)
	stores := sc.Stores
	if stores < 1 {
		stores = 1
	}
	var regionID uint64
	w.storeIDs, _, regionID, _ = mocktikv.BootstrapWithMultiStores(w.cluster, stores)
	if sc.TiFlash {
		w.tiflash = w.cluster.AllocID()
		w.cluster.AddStore(w.tiflash, fmt.Sprintf("tiflash%d", w.tiflash), &metapb.StoreLabel{Key: "engine", Value: "tiflash"})
		w.cluster.AddPeer(regionID, w.tiflash, w.cluster.AllocID())
	}
	for _, k := range sc.Splits {
		w.split([]byte(k), false)
	}
	w.snapshot("initial layout")
	w.backend = mocktikv.NewRPCClient(w.cluster, mvcc, nil)
	w.pd = &simPD{Client: mocktikv.NewPDClient(w.cluster), w: w}
	w.cache = locate.NewRegionCache(locate.NewCodecPDClient(apicodec.ModeTxn, w.pd))
	locate.VerifLocatesimSetLiveness(w.cache, func(storeID uint64) bool {
		st := w.cluster.GetStore(storeID)
		return st != nil && st.GetState() == metapb.StoreState_Up
	})
	w.cli = &simClient{w: w}
	w.codec = apicodec.NewCodecV1(apicodec.ModeTxn)
	w.hist = make([][]*opRec, len(sc.Actors))
	return w, nil
}

func (w *world) close() {
	select {
	case <-w.down:
	default:
		close(w.down)
	}
	w.cache.Close()
	_ = w.mvcc.Close()
}

// snapshot records the current topology (a PD member that is n events behind answers from an
// older one) and every (id, version) -> range pair for the oracles.
func (w *world) snapshot(cause string) {
	s := &topoSnap{at: w.sim.Now(), cause: cause}
	var ids []uint64
	for _, r := range w.cluster.GetAllRegions() {
		ids = append(ids, r.Meta.Id)
	}
	for _, id := range ids {
		meta, leaderID := w.cluster.GetRegion(id)
		if meta == nil {
			continue
		}
		sr := &snapRegion{meta: meta}
		for _, p := range meta.Peers {
			if p.Id == leaderID {
				sr.leader = proto.Clone(p).(*metapb.Peer)
			}
		}
		s.regions = append(s.regions, sr)
		w.ranges[verKey{meta.Id, meta.RegionEpoch.GetVersion()}] = rawRange{rawOf(meta.StartKey), rawOf(meta.EndKey)}
	}
	sort.Slice(s.regions, func(i, j int) bool { return bytes.Compare(s.regions[i].meta.StartKey, s.regions[j].meta.StartKey) < 0 })
	w.mu.Lock()
	w.snaps = append(w.snaps, s)
	w.mu.Unlock()
}

func (w *world) cur() *topoSnap {
	w.mu.Lock()
	defer w.mu.Unlock()
	return w.snaps[len(w.snaps)-1]
}

func (w *world) snapAgo(k int) *topoSnap {
	w.mu.Lock()
	defer w.mu.Unlock()
	i := len(w.snaps) - 1 - k
	if i < 0 {
		i = 0
	}
	return w.snaps[i]
}

// ---------------------------------------------------------------------------------------------
// topology events (simulator goroutine)

func (w *world) split(rawKey []byte, rightDerive bool) bool {
	if len(rawKey) == 0 {
		return false
	}
	enc := mocktikv.NewMvccKey(rawKey)
	region, leader, _, _ := w.cluster.GetRegionByKey(enc)
	if region == nil || bytes.Equal(region.StartKey, enc) {
		return false
	}
	newID := w.cluster.AllocID()
	peerIDs := w.cluster.AllocIDs(len(region.Peers))
	var leaderPeer uint64
	for i, p := range region.Peers {
		if leader != nil && p.StoreId == leader.StoreId {
			leaderPeer = peerIDs[i]
		}
	}
	if leaderPeer == 0 {
		leaderPeer = peerIDs[0]
	}
	w.cluster.VerifLocatesimSplit(region.Id, newID, rawKey, peerIDs, leaderPeer, rightDerive)
	return true
}

func (w *world) merge(rawKey []byte, intoRight bool) bool {
	region, _, _, _ := w.cluster.GetRegionByKey(mocktikv.NewMvccKey(rawKey))
	if region == nil || len(region.EndKey) == 0 {
		return false
	}
	right, _, _, _ := w.cluster.GetRegionByKey(region.EndKey)
	if right == nil || !bytes.Equal(right.StartKey, region.EndKey) || right.Id == region.Id {
		return false
	}
	if intoRight {
		return w.cluster.VerifLocatesimMerge(right.Id, region.Id)
	}
	return w.cluster.VerifLocatesimMerge(region.Id, right.Id)
}

func (w *world) storeUp(id uint64) bool { return !w.stopped[id] }

// moveLeader gives the leadership to the next peer (in peer order) that sits on a running store.
func (w *world) moveLeader(region *metapb.Region, leader *metapb.Peer, avoidStore uint64) bool {
	idx := 0
	for i, p := range region.Peers {
		if leader != nil && p.Id == leader.Id {
			idx = i
		}
	}
	for k := 1; k < len(region.Peers); k++ {
		p := region.Peers[(idx+k)%len(region.Peers)]
		if w.storeUp(p.StoreId) && p.StoreId != avoidStore && p.StoreId != w.tiflash {
			w.cluster.ChangeLeader(region.Id, p.Id)
			return true
		}
	}
	return false
}

func (w *world) applyEvent(i int, ev *Event) {
	ok := false
	switch ev.Kind {
	case "split":
		ok = w.split([]byte(ev.Key), ev.Right)
	case "merge":
		ok = w.merge([]byte(ev.Key), ev.Right)
	case "leader":
		region, leader, _, _ := w.cluster.GetRegionByKey(mocktikv.NewMvccKey([]byte(ev.Key)))
		if region != nil && len(region.Peers) > 1 {
			ok = w.moveLeader(region, leader, 0)
		}
	case "rmpeer":
		// remove a follower (a region always keeps a leader: range lookups legitimately skip
		// regions without one)
		region, leader, _, _ := w.cluster.GetRegionByKey(mocktikv.NewMvccKey([]byte(ev.Key)))
		if region != nil && len(region.Peers) > 1 && leader != nil {
			for k := len(region.Peers) - 1; k >= 0; k-- {
				if p := region.Peers[k]; p.Id != leader.Id && p.StoreId != w.tiflash {
					w.cluster.RemovePeer(region.Id, p.Id)
					ok = true
					break
				}
			}
		}
	case "addpeer":
		region, _, _, _ := w.cluster.GetRegionByKey(mocktikv.NewMvccKey([]byte(ev.Key)))
		if region != nil {
			for k := 0; k < len(w.storeIDs) && !ok; k++ {
				sid := w.storeIDs[(ev.Store+k)%len(w.storeIDs)]
				has := false
				for _, p := range region.Peers {
					has = has || p.StoreId == sid
				}
				if !has {
					w.cluster.AddPeer(region.Id, sid, w.cluster.AllocID())
					ok = true
				}
			}
		}
	case "stopstore":
		ok = w.stopStore(ev.Store)
	case "startstore":
		if ev.Store < len(w.storeIDs) {
			sid := w.storeIDs[ev.Store]
			if w.stopped[sid] {
				w.cluster.StartStore(sid)
				delete(w.stopped, sid)
				ok = true
			}
		}
	}
	if ok {
		w.sim.Count("event." + ev.Kind)
		w.snapshot(fmt.Sprintf("event %d %s", i, ev.Kind))
		w.lastTopoAt = w.sim.Now()
		w.tracef("EVENT %d %s key=%q right=%v store=%d -> %s", i, ev.Kind, ev.Key, ev.Right, ev.Store, w.cur().describe())
	} else {
		w.sim.Count("event-noop." + ev.Kind)
		w.tracef("EVENT %d %s key=%q: not applicable", i, ev.Kind, ev.Key)
	}
}

// stopStore stops a store after its leaders moved away (TiKV elects another leader when one
// dies; the mock has no elections). Not applicable when some region would be left without a
// running peer or another store is already down.
func (w *world) stopStore(idx int) bool {
	if idx >= len(w.storeIDs) || len(w.stopped) > 0 || len(w.storeIDs) < 2 {
		return false
	}
	sid := w.storeIDs[idx]
	snap := w.cur()
	for _, r := range snap.regions {
		other := false
		for _, p := range r.meta.Peers {
			other = other || p.StoreId != sid
		}
		if !other {
			return false
		}
	}
	for _, r := range snap.regions {
		if r.leader != nil && r.leader.StoreId == sid {
			w.moveLeader(r.meta, r.leader, sid)
		}
	}
	w.cluster.StopStore(sid)
	w.stopped[sid] = true
	return true
}

func (w *world) scheduleEvents() {
	for i := range w.sc.Events {
		i := i
		ev := &w.sc.Events[i]
		w.sim.Submit(fmt.Sprintf("event%d", i), time.Duration(ev.AtUs)*time.Microsecond, uint64(i), func() {
			w.check("pre event")
			w.applyEvent(i, ev)
		})
	}
}

// ---------------------------------------------------------------------------------------------
// simulated PD

type simPD struct {
	pd.Client // the repository's mock PD over the same cluster: store queries and everything else
	w         *world
}

var errDown = status.Error(codes.Unavailable, "sim: run is over")

func (p *simPD) WithCallerComponent(caller.Component) pd.Client { return p }
func (p *simPD) Close()                                          {}

type pdRes[T any] struct {
	v   T
	err error
}

// pdCall parks the caller; the answer is computed when the request reaches PD (from the current
// topology, or - if the request allows follower handling and the seed says so - from the
// topology of k events ago) and delivered after the answer leg.
func pdCall[T any](p *simPD, ctx context.Context, kind, arg string, opts []opt.GetRegionOption, fn func(*topoSnap) T, describe func(T) string, metas func(T) []verKey) (T, error) {
	w := p.w
	var zero T
	select {
	case <-w.down:
		return zero, errDown
	default:
	}
	o := &opt.GetRegionOp{}
	for _, f := range opts {
		f(o)
	}
	id := "pd:" + kind + "/" + arg
	key := fmt.Sprintf("%s#%d", id, w.sim.Occ(id))
	ch := make(chan pdRes[T], 1)
	lat1 := 100*time.Microsecond + time.Duration(w.lat.U64(key+"a")%uint64(2*time.Millisecond))
	lat2 := 100*time.Microsecond + time.Duration(w.lat.U64(key+"b")%uint64(2*time.Millisecond))
	w.mu.Lock()
	faults := w.faults
	w.inPD++
	w.mu.Unlock()
	slow := false
	if faults && w.flt.Float(key+"slow") < w.sc.PD.SlowRate {
		slow = true
		lat2 += 20*time.Millisecond + time.Duration(w.lat.U64(key+"s")%uint64(3*time.Second))
	}
	w.sim.Submit(key, lat1, w.lat.U64(key+"t"), func() {
		w.mu.Lock()
		faults := w.faults
		cur := len(w.snaps) - 1
		w.mu.Unlock()
		idx := cur
		var v T
		var err error
		switch {
		case faults && w.flt.Float(key+"fail") < w.sc.PD.FailRate:
			err = status.Error(codes.Unavailable, "sim: pd unavailable")
			w.sim.Count("pd.error")
		default:
			if faults && o.AllowFollowerHandle && cur > 0 && w.flt.Float(key+"stale") < w.sc.PD.StaleRate {
				k := 1 + w.flt.Intn(key+"k", w.sc.PD.MaxStale)
				if idx = cur - k; idx < 0 {
					idx = 0
				}
				w.sim.Count("pd.stale-answer")
			}
			w.mu.Lock()
			snap := w.snaps[idx]
			w.mu.Unlock()
			v = fn(snap)
		}
		if slow {
			w.sim.Count("pd.slow-answer")
		}
		w.sim.Count("pd." + kind)
		d := "error"
		var answered []verKey
		if err == nil {
			d = describe(v)
			if idx != cur {
				answered = metas(v)
			}
		}
		w.tracef("PD %s follower-ok=%v answered from topology #%d (current #%d): %s", key, o.AllowFollowerHandle, idx, cur, d)
		w.sim.Submit("resp:"+key, lat2, w.lat.U64(key+"u"), func() {
			w.mu.Lock()
			w.inPD--
			w.mu.Unlock()
			w.check("pre " + key)
			ch <- pdRes[T]{v, err}
			synctest.Wait()
			w.check("post " + key + " = " + d)
			// reach probe: a stale answer whose description did not make it into the index
			w.mu.Lock()
			index := w.prev
			w.mu.Unlock()
			for _, a := range answered {
				found := false
				for _, e := range index {
					found = found || (e.ID == a.id && e.Ver == a.ver)
				}
				if !found {
					w.sim.Count("probe.stale-pd-description-not-installed")
				} else {
					w.sim.Count("probe.stale-pd-description-in-index")
				}
			}
		})
	})
	select {
	case r := <-ch:
		return r.v, r.err
	case <-ctx.Done():
		return zero, ctx.Err()
	case <-w.down:
		return zero, errDown
	}
}

func descRegion(r *router.Region) string {
	if r == nil || r.Meta == nil {
		return "<none>"
	}
	var lead uint64
	if r.Leader != nil {
		lead = r.Leader.StoreId
	}
	return fmt.Sprintf("r%d %q..%q v%d c%d leader@s%d", r.Meta.Id, rawOf(r.Meta.StartKey), rawOf(r.Meta.EndKey), r.Meta.RegionEpoch.GetVersion(), r.Meta.RegionEpoch.GetConfVer(), lead)
}

func descRegions(rs []*router.Region) string {
	var parts []string
	for _, r := range rs {
		parts = append(parts, descRegion(r))
	}
	return "[" + strings.Join(parts, "; ") + "]"
}

func keysOfRegion(r *router.Region) []verKey {
	if r == nil || r.Meta == nil {
		return nil
	}
	return []verKey{{r.Meta.Id, r.Meta.RegionEpoch.GetVersion()}}
}

func keysOfRegions(rs []*router.Region) []verKey {
	var out []verKey
	for _, r := range rs {
		out = append(out, keysOfRegion(r)...)
	}
	return out
}

func one(r *snapRegion) *router.Region {
	if r == nil {
		return &router.Region{}
	}
	return r.toPD()
}

// GetRegion implements pd.Client.
func (p *simPD) GetRegion(ctx context.Context, key []byte, opts ...opt.GetRegionOption) (*router.Region, error) {
	return pdCall(p, ctx, "getregion", hex.EncodeToString(rawOf(key)), opts, func(s *topoSnap) *router.Region { return one(s.byKey(key)) }, descRegion, keysOfRegion)
}

// GetPrevRegion implements pd.Client.
func (p *simPD) GetPrevRegion(ctx context.Context, key []byte, opts ...opt.GetRegionOption) (*router.Region, error) {
	return pdCall(p, ctx, "getprev", hex.EncodeToString(rawOf(key)), opts, func(s *topoSnap) *router.Region { return one(s.prevOf(key)) }, descRegion, keysOfRegion)
}

// GetRegionByID implements pd.Client. (The real client sends it to the PD leader or a follower
// alike; the region cache passes no follower option, so it is always answered from the current
// topology here.)
func (p *simPD) GetRegionByID(ctx context.Context, id uint64, opts ...opt.GetRegionOption) (*router.Region, error) {
	return pdCall(p, ctx, "getbyid", fmt.Sprint(id), opts, func(s *topoSnap) *router.Region { return one(s.byID(id)) }, descRegion, keysOfRegion)
}

// ScanRegions implements pd.Client.
func (p *simPD) ScanRegions(ctx context.Context, start, end []byte, limit int, opts ...opt.GetRegionOption) ([]*router.Region, error) {
	arg := fmt.Sprintf("%x-%x-%d", rawOf(start), rawOf(end), limit)
	return pdCall(p, ctx, "scan", arg, opts, func(s *topoSnap) []*router.Region {
		var out []*router.Region
		for _, r := range s.scan(start, end, limit) {
			out = append(out, r.toPD())
		}
		return out
	}, descRegions, keysOfRegions)
}

// BatchScanRegions implements pd.Client: the regions covering the given sorted ranges, in key
// order, each region once, at most limit.
func (p *simPD) BatchScanRegions(ctx context.Context, ranges []router.KeyRange, limit int, opts ...opt.GetRegionOption) ([]*router.Region, error) {
	var sb strings.Builder
	for _, r := range ranges {
		fmt.Fprintf(&sb, "%x-%x,", rawOf(r.StartKey), rawOf(r.EndKey))
	}
	fmt.Fprintf(&sb, "%d", limit)
	rs := append([]router.KeyRange(nil), ranges...)
	return pdCall(p, ctx, "bscan", sb.String(), opts, func(s *topoSnap) []*router.Region {
		var out []*router.Region
		var last *snapRegion
		for _, kr := range rs {
			start := kr.StartKey
			if last != nil {
				if len(last.meta.EndKey) == 0 || (len(kr.EndKey) > 0 && bytes.Compare(last.meta.EndKey, kr.EndKey) >= 0) {
					continue // already covered by the last region returned
				}
				if bytes.Compare(last.meta.EndKey, start) > 0 {
					start = last.meta.EndKey
				}
			}
			rem := 0
			if limit > 0 {
				if rem = limit - len(out); rem <= 0 {
					break
				}
			}
			for _, r := range s.scan(start, kr.EndKey, rem) {
				out = append(out, r.toPD())
				last = r
			}
		}
		return out
	}, descRegions, keysOfRegions)
}

// ---------------------------------------------------------------------------------------------
// simulated network between the request sender and the mock stores

type simClient struct{ w *world }

var _ client.Client = (*simClient)(nil)

var errConn = status.Error(codes.Unavailable, "sim: connection lost")

func (c *simClient) Close() error                                   { return nil }
func (c *simClient) CloseAddr(addr string) error                    { return nil }
func (c *simClient) SetEventListener(client.ClientEventListener)    {}
func (c *simClient) SendRequestAsync(ctx context.Context, addr string, req *tikvrpc.Request, cb async.Callback[*tikvrpc.Response]) {
	go func() { cb.Schedule(c.SendRequest(ctx, addr, req, 0)) }()
}

type rpcRes struct {
	resp *tikvrpc.Response
	err  error
}

func reqKey(req *tikvrpc.Request) []byte {
	switch r := req.Req.(type) {
	case *kvrpcpb.GetRequest:
		return r.Key
	case *kvrpcpb.RawGetRequest:
		return r.Key
	}
	return nil
}

func (c *simClient) SendRequest(ctx context.Context, addr string, req *tikvrpc.Request, timeout time.Duration) (*tikvrpc.Response, error) {
	w := c.w
	select {
	case <-w.down:
		return nil, errDown
	default:
	}
	// the RPC client of the library encodes the request and decodes the response with the API
	// codec (region errors carry region borders in the store's encoded form)
	enc, cerr := w.codec.EncodeRequest(req)
	if cerr != nil {
		return nil, cerr
	}
	tikvrpc.AttachContext(enc, enc.Context)
	snap := *enc
	id := fmt.Sprintf("rpc:%s/%s/r%d/%x", req.Type, addr, req.Context.GetRegionId(), reqKey(req))
	key := fmt.Sprintf("%s#%d", id, w.sim.Occ(id))
	ch := make(chan rpcRes, 1)
	lat1 := 200*time.Microsecond + time.Duration(w.lat.U64(key+"a")%uint64(3*time.Millisecond))
	lat2 := 200*time.Microsecond + time.Duration(w.lat.U64(key+"b")%uint64(3*time.Millisecond))
	w.mu.Lock()
	faults := w.faults
	w.inRPC++
	rec := &rpcRec{n: len(w.rpcs), addr: addr, typ: req.Type, regionID: req.Context.GetRegionId(), epoch: fmt.Sprint(req.Context.GetRegionEpoch()), key: reqKey(req)}
	w.rpcs = append(w.rpcs, rec)
	w.mu.Unlock()
	if faults && w.flt.Float(key+"slow") < w.sc.Net.SlowRate {
		lat2 += 20*time.Millisecond + time.Duration(w.lat.U64(key+"s")%uint64(2*time.Second))
		w.sim.Count("rpc.slow")
	}
	w.sim.Submit(key, lat1, w.lat.U64(key+"t"), func() {
		w.mu.Lock()
		faults := w.faults
		w.mu.Unlock()
		var resp *tikvrpc.Response
		var err error
		if faults && w.flt.Float(key+"drop") < w.sc.Net.DropRate {
			err = errConn
			rec.outcome = "dropped"
			w.sim.Count("rpc.drop")
		} else {
			resp, err = w.exec(rec, addr, &snap)
		}
		rec.execAt = w.sim.Now()
		w.sim.Count("rpc." + req.Type.String())
		w.tracef("RPC %s epoch=%s -> %s", key, rec.epoch, rec.outcome)
		w.sim.Submit("resp:"+key, lat2, w.lat.U64(key+"u"), func() {
			w.mu.Lock()
			w.inRPC--
			w.mu.Unlock()
			w.check("pre " + key)
			ch <- rpcRes{resp, err}
			synctest.Wait()
			w.check("post " + key + " = " + rec.outcome)
		})
	})
	var timer <-chan time.Time
	if timeout > 0 {
		t := time.NewTimer(timeout)
		defer t.Stop()
		timer = t.C
	}
	select {
	case r := <-ch:
		if r.err != nil {
			return nil, r.err
		}
		return w.codec.DecodeResponse(enc, r.resp)
	case <-ctx.Done():
		return nil, ctx.Err()
	case <-timer:
		return nil, context.DeadlineExceeded
	case <-w.down:
		return nil, errDown
	}
}

// exec runs the request on the repository's mock store (simulator goroutine). A panic of the
// handler ("key not in region") is a violation.
func (w *world) exec(rec *rpcRec, addr string, req *tikvrpc.Request) (resp *tikvrpc.Response, err error) {
	defer func() {
		if r := recover(); r != nil {
			msg := fmt.Sprint(r)
			rec.outcome = "PANIC " + msg
			w.panics = append(w.panics, fmt.Sprintf("%s: %s key %q sent to %s as region %d epoch %s; topology: %s", msg, req.Type, rec.key, addr, rec.regionID, rec.epoch, w.cur().describe()))
			w.sim.Count("backend.panic")
			resp, err = nil, status.Error(codes.Internal, "sim: server panicked: "+msg)
		}
	}()
	// ground truth at the instant of execution
	if truth := w.cur().byKey(mocktikv.NewMvccKey(rec.key)); truth != nil {
		rec.truthDesc = descRegion(truth.toPD())
		rec.leaderOK = truth.meta.Id == rec.regionID && truth.leader != nil && addr == fmt.Sprintf("store%d", truth.leader.StoreId)
	}
	resp, err = w.backend.SendRequest(context.Background(), addr, req, 0)
	switch {
	case err != nil:
		rec.outcome = "error: " + err.Error()
		w.sim.Count("rpc.conn-error")
	case resp == nil || resp.Resp == nil:
		rec.outcome = "empty"
	default:
		re, _ := resp.GetRegionError()
		switch {
		case re == nil:
			rec.outcome = "ok"
			rec.success = true
			if req.Type == tikvrpc.CmdRawGet {
				// the mock's raw handlers do not look at the key: audit the routing here
				if region, _ := w.cluster.GetRegion(rec.regionID); region != nil && !within(region.StartKey, region.EndKey, mocktikv.NewMvccKey(rec.key)) {
					w.panics = append(w.panics, fmt.Sprintf("RawGet: key not in region (harness audit): key %q executed by region %d [%q,%q) epoch %s", rec.key, region.Id, rawOf(region.StartKey), rawOf(region.EndKey), rec.epoch))
				}
			}
		case re.GetEpochNotMatch() != nil:
			rec.outcome = "EpochNotMatch " + descMetas(re.GetEpochNotMatch().CurrentRegions)
			w.sim.Count("rpc.region-error.epoch-not-match")
		case re.GetNotLeader() != nil:
			rec.outcome = fmt.Sprintf("NotLeader leader=%v", re.GetNotLeader().GetLeader())
			w.sim.Count("rpc.region-error.not-leader")
		case re.GetRegionNotFound() != nil:
			rec.outcome = "RegionNotFound"
			w.sim.Count("rpc.region-error.region-not-found")
		case re.GetStoreNotMatch() != nil:
			rec.outcome = "StoreNotMatch"
			w.sim.Count("rpc.region-error.store-not-match")
		default:
			rec.outcome = "region error " + re.String()
			w.sim.Count("rpc.region-error.other")
		}
	}
	return resp, err
}

func descMetas(ms []*metapb.Region) string {
	var parts []string
	for _, m := range ms {
		parts = append(parts, fmt.Sprintf("r%d %q..%q v%d c%d", m.Id, rawOf(m.StartKey), rawOf(m.EndKey), m.RegionEpoch.GetVersion(), m.RegionEpoch.GetConfVer()))
	}
	return "[" + strings.Join(parts, "; ") + "]"
}

// quiesce waits until no PD call and no RPC is in flight (bounded).
func (w *world) quiesce() bool {
	for i := 0; i < 400; i++ {
		w.mu.Lock()
		n := w.inPD + w.inRPC
		w.mu.Unlock()
		if n == 0 {
			return true
		}
		time.Sleep(50 * time.Millisecond)
	}
	return false
}
