package locatesim

import (
	"fmt"
	"math/rand"
	"sort"
	"strings"

	"github.com/tikv/client-go/v2/verifsim/simkit"
)

// Scenario is the explicit, JSON-serialisable description of one run.
type Scenario struct {
	Mode   string   `json:"mode"`
	Stores int      `json:"stores"`
	// TiFlash: one more store labelled engine=tiflash holds a (learner) peer of every region; it never leads.
	// Removing and re-adding TiKV followers then lists TiKV peers BEHIND the TiFlash peer in the region description
	TiFlash bool `json:"tiflash,omitempty"`
	Splits []string `json:"splits"` // initial region borders (raw keys)
	// region cache TTL knobs (locate.SetRegionCacheTTLWithJitter), inputs of the run
	TTLSec    int64 `json:"ttl_sec"`
	JitterSec int64 `json:"jitter_sec"`

	PD  PDPlan  `json:"pd"`
	Net NetPlan `json:"net"`

	Events []Event `json:"events"`
	Actors []Actor `json:"actors"`

	// Convergence phase (after the last event, fresh PD answers, no faults).
	Converge []string `json:"converge"` // keys sent as Get
	// budgets of the convergence oracle (inputs, not library constants)
	ConvergeBudgetMs int `json:"converge_budget_ms"`
	ConvergeAttempts int `json:"converge_attempts"`
	// back-off budget (ms of back-off sleep) given to every call made while faults flow
	LookupBudgetMs int `json:"lookup_budget_ms"`
}

// PDPlan describes how the simulated PD misbehaves while faults flow.
type PDPlan struct {
	StaleRate float64 `json:"stale_rate"` // answer from a snapshot k events old (only requests that allow follower handling)
	MaxStale  int     `json:"max_stale"`
	SlowRate  float64 `json:"slow_rate"` // answer leg takes 20 ms .. 3 s
	FailRate  float64 `json:"fail_rate"` // gRPC Unavailable
}

// NetPlan describes the faults of the client <-> store network while faults flow.
type NetPlan struct {
	DropRate float64 `json:"drop_rate"` // request lost, caller sees a connection error at once
	SlowRate float64 `json:"slow_rate"` // response leg takes 20 ms .. 2 s
}

// Event is one topology / store event applied by the simulator at simulated time AtUs.
type Event struct {
	AtUs int64  `json:"at_us"`
	Kind string `json:"kind"` // split merge leader addpeer rmpeer stopstore startstore
	Key  string `json:"key,omitempty"`
	// split: the right half keeps the region id (TiKV default); merge: the right neighbour survives
	Right bool `json:"right,omitempty"`
	Store int  `json:"store,omitempty"` // store index for stopstore/startstore/addpeer
}

// Actor is one goroutine calling the region cache.
type Actor struct {
	StartUs int64 `json:"start_us"`
	Ops     []Op  `json:"ops"`
}

// Op is one call.
type Op struct {
	Kind   string      `json:"kind"`
	GapUs  int64       `json:"gap_us"`
	Key    string      `json:"key,omitempty"`
	End    string      `json:"end,omitempty"`
	Keys   []string    `json:"keys,omitempty"`
	Ranges [][2]string `json:"ranges,omitempty"`
	// Huge (batch): instead of Ranges, that many tiny disjoint ranges spread over the key space (built at run time)
	Huge int `json:"huge,omitempty"`
	Count  int         `json:"count,omitempty"`
	Old    int         `json:"old,omitempty"`  // byid: resolve the id from the topology this many events ago
	Flag   bool        `json:"flag,omitempty"` // batch: need-leader option; sendfail: schedule reload
	Flag2  bool        `json:"flag2,omitempty"`
	Ms     int64       `json:"ms,omitempty"` // sleep
}

// Borders are the candidate region borders; queryKeys the keys asked for (borders themselves,
// keys between borders, immediate successors of borders, the smallest and a very large key).
var borders = []string{"b", "d", "f", "h", "k", "m", "p", "s", "v"}

var queryKeys = func() []string {
	ks := []string{"", "a", "c", "e", "g", "i", "l", "n", "q", "t", "w", "z", "zzzz"}
	for _, b := range borders {
		ks = append(ks, b, b+"\x00", b+"5")
	}
	sort.Strings(ks)
	return ks
}()

func pickKey(r *rand.Rand, allowEmpty bool) string {
	for {
		k := queryKeys[r.Intn(len(queryKeys))]
		if k != "" || allowEmpty {
			return k
		}
	}
}

// pickRange returns start < end (end "" = unbounded with probability pInf).
func pickRange(r *rand.Rand, pInf float64) (string, string) {
	for {
		a, b := pickKey(r, true), pickKey(r, true)
		if a > b {
			a, b = b, a
		}
		if a == b {
			continue
		}
		if r.Float64() < pInf {
			return a, ""
		}
		return a, b
	}
}

// pickRanges returns n sorted, non-overlapping (possibly touching) ranges; the last one is
// unbounded with probability pInf.
func pickRanges(r *rand.Rand, n int, pInf float64) [][2]string {
	for {
		set := map[string]bool{}
		for len(set) < 2*n {
			set[pickKey(r, true)] = true
		}
		ks := make([]string, 0, len(set))
		for k := range set {
			ks = append(ks, k)
		}
		sort.Strings(ks)
		var out [][2]string
		i := 0
		for len(out) < n && i+1 < len(ks) {
			if r.Intn(4) == 0 && len(out) > 0 {
				// touching ranges
				out = append(out, [2]string{out[len(out)-1][1], ks[i]})
				i++
				continue
			}
			out = append(out, [2]string{ks[i], ks[i+1]})
			i += 2
		}
		// drop degenerate
		ok := len(out) > 0
		for _, rg := range out {
			if rg[0] >= rg[1] {
				ok = false
			}
		}
		if !ok {
			continue
		}
		if r.Float64() < pInf {
			out[len(out)-1][1] = ""
		}
		return out
	}
}

type weighted struct {
	kind string
	w    int
}

var mixWeights = []weighted{
	{"locate", 13}, {"locend", 10}, {"try", 5}, {"byid", 6}, {"range", 10}, {"batch", 14}, {"group", 8},
	{"loadrange", 5}, {"loadranges", 5}, {"loadall", 4}, {"listids", 4}, {"loadfrom", 2},
	{"get", 14}, {"rawget", 3}, {"inval", 6}, {"enm", 3}, {"sendfail", 4}, {"sleep", 6},
}

var batchWeights = []weighted{
	{"batch", 40}, {"range", 12}, {"inval", 14}, {"sleep", 8}, {"locate", 10}, {"locend", 4}, {"loadrange", 4},
	{"loadranges", 4}, {"get", 6}, {"try", 4}, {"sendfail", 3}, {"group", 3},
}

var sendWeights = []weighted{
	{"get", 40}, {"rawget", 6}, {"locate", 8}, {"locend", 4}, {"batch", 6}, {"range", 4}, {"inval", 6}, {"enm", 6},
	{"sendfail", 8}, {"sleep", 6}, {"byid", 4}, {"group", 4},
}

func pickKind(r *rand.Rand, ws []weighted) string {
	total := 0
	for _, w := range ws {
		total += w.w
	}
	n := r.Intn(total)
	for _, w := range ws {
		if n < w.w {
			return w.kind
		}
		n -= w.w
	}
	return ws[0].kind
}

func genOp(r *rand.Rand, ws []weighted, actor int, ttl int64) Op {
	op := Op{Kind: pickKind(r, ws)}
	// distinct microsecond offsets per actor: gaps are = actor (mod 4)
	op.GapUs = int64(4*(10+r.Intn(700)) + actor)
	switch op.Kind {
	case "locate", "try", "get", "rawget", "inval", "enm":
		op.Key = pickKey(r, true)
	case "locend":
		op.Key = pickKey(r, false) // an empty end key is out of scope (known finding F1)
		if r.Intn(2) == 0 {
			op.Key = borders[r.Intn(len(borders))] // a border: the region that ENDS there is wanted
		}
	case "byid":
		op.Key = pickKey(r, true)
		if r.Intn(3) == 0 {
			op.Old = 1 + r.Intn(4)
		}
		op.Flag = r.Intn(5) == 0 // LocateRegionByIDFromPD
	case "sendfail":
		op.Key = pickKey(r, true)
		op.Flag = r.Intn(2) == 0
		op.Flag2 = r.Intn(3) > 0 // with an error (bumps the store epoch)
	case "range", "loadall":
		op.Key, op.End = pickRange(r, 0.3)
	case "listids":
		op.Key, op.End = pickRange(r, 0) // inclusive, bounded end only
	case "loadrange":
		op.Key, op.End = pickRange(r, 0.3)
		op.Count = 1 + r.Intn(8)
	case "loadfrom":
		op.Key = pickKey(r, true)
		op.Count = 1 + r.Intn(8)
	case "batch":
		op.Ranges = pickRanges(r, 1+r.Intn(5), 0.4)
		op.Flag = r.Intn(2) == 0
		op.Flag2 = r.Intn(4) == 0
		if r.Intn(60) == 0 {
			op.Huge = 2100 + r.Intn(1500)
		}
	case "loadranges":
		op.Ranges = pickRanges(r, 1+r.Intn(4), 0.3)
		op.Count = 1 + r.Intn(8)
		op.Flag = r.Intn(2) == 0
	case "group":
		n := 1 + r.Intn(6)
		set := map[string]bool{}
		for len(set) < n {
			set[pickKey(r, true)] = true
		}
		for k := range set {
			op.Keys = append(op.Keys, k)
		}
		sort.Strings(op.Keys)
		if r.Intn(4) == 0 {
			r.Shuffle(len(op.Keys), func(i, j int) { op.Keys[i], op.Keys[j] = op.Keys[j], op.Keys[i] })
		}
	case "sleep":
		switch r.Intn(4) {
		case 0:
			op.Ms = 1 + int64(r.Intn(50))
		case 1:
			op.Ms = 200 + int64(r.Intn(1500))
		default:
			// long enough for the cache TTL (+ jitter) to run out
			op.Ms = (ttl+1)*1000 + int64(r.Intn(4000))
			if op.Ms > 20000 {
				op.Ms = 1000 + int64(r.Intn(8000))
			}
		}
	}
	return op
}

func genScenario(cfg simkit.RunConfig, mode string) *Scenario {
	r := simkit.Rand(cfg.Seed, "gen")
	sc := &Scenario{Mode: mode}
	sc.Stores = 1 + r.Intn(3)
	sc.TiFlash = sc.Stores >= 2 && r.Intn(3) == 0
	nSplits := r.Intn(6)
	perm := r.Perm(len(borders))
	for _, i := range perm[:nSplits] {
		sc.Splits = append(sc.Splits, borders[i])
	}
	sort.Strings(sc.Splits)
	sc.TTLSec = []int64{2, 3, 5, 8, 600}[r.Intn(5)]
	sc.JitterSec = []int64{0, 1, 3}[r.Intn(3)]
	sc.PD = PDPlan{
		StaleRate: []float64{0, 0.15, 0.35, 0.6}[r.Intn(4)],
		MaxStale:  1 + r.Intn(4),
		SlowRate:  []float64{0, 0.1, 0.3}[r.Intn(3)],
		FailRate:  []float64{0, 0, 0.05}[r.Intn(3)],
	}
	sc.Net = NetPlan{
		DropRate: []float64{0, 0, 0.05, 0.15}[r.Intn(4)],
		SlowRate: []float64{0, 0.1}[r.Intn(2)],
	}
	sc.LookupBudgetMs = 20000
	sc.ConvergeBudgetMs = 30000
	sc.ConvergeAttempts = 200

	ws := mixWeights
	switch mode {
	case "batch":
		ws = batchWeights
	case "send":
		ws = sendWeights
	}
	nActors := 1 + r.Intn(3)
	var opTimes []int64 // planned start instants of the ops (ignoring the time the calls take)
	type endLookup struct {
		at  int64
		key string
	}
	var endLookups []endLookup // LocateEndKey calls on a border
	for a := 0; a < nActors; a++ {
		act := Actor{StartUs: int64(4*r.Intn(300) + a)}
		nOps := 4 + r.Intn(10)
		at := act.StartUs
		for i := 0; i < nOps; i++ {
			op := genOp(r, ws, a, sc.TTLSec)
			at += op.GapUs
			if op.Kind == "sleep" {
				at += op.Ms * 1000
			} else {
				opTimes = append(opTimes, at)
				if op.Kind == "locend" && len(op.Key) == 1 {
					endLookups = append(endLookups, endLookup{at, op.Key})
				}
			}
			act.Ops = append(act.Ops, op)
		}
		sc.Actors = append(sc.Actors, act)
	}
	if len(opTimes) == 0 {
		opTimes = []int64{1000}
	}
	nEvents := r.Intn(10)
	if mode == "send" {
		nEvents = 2 + r.Intn(10)
	}
	stopped := false
	for i := 0; i < nEvents; i++ {
		// an event lands shortly before, during or shortly after some planned call
		at := opTimes[r.Intn(len(opTimes))] + int64(r.Intn(5000)) - 1000
		if at < 1 {
			at = 1
		}
		ev := Event{AtUs: 4*(at/4) + 3} // = 3 (mod 4): never the instant an actor wakes up
		switch k := r.Intn(20); {
		case k < 7:
			ev.Kind, ev.Key, ev.Right = "split", borders[r.Intn(len(borders))], r.Intn(2) == 0
		case k < 12:
			ev.Kind, ev.Key, ev.Right = "merge", pickKey(r, true), r.Intn(2) == 0
		case k < 15:
			ev.Kind, ev.Key = "leader", pickKey(r, true)
		case k < 17:
			ev.Kind, ev.Key = "rmpeer", pickKey(r, true)
		case k < 19:
			ev.Kind, ev.Key, ev.Store = "addpeer", pickKey(r, true), r.Intn(3)
		default:
			if sc.Stores < 2 || stopped {
				ev.Kind, ev.Key = "leader", pickKey(r, true)
				break
			}
			stopped = true
			ev.Kind, ev.Store = "stopstore", r.Intn(sc.Stores)
			sc.Events = append(sc.Events, Event{AtUs: ev.AtUs + 4*int64(100000+r.Intn(1200000)), Kind: "startstore", Store: ev.Store})
		}
		sc.Events = append(sc.Events, ev)
	}
	// a lookup by end key on a border asks PD twice (region of the key, then the region before it):
	// aim a border-removing or border-creating event at the gap between the two answers
	for _, el := range endLookups {
		if r.Intn(10) >= 4 {
			continue
		}
		ev := Event{AtUs: 4*((el.at+300+int64(r.Intn(4000)))/4) + 3}
		if r.Intn(3) > 0 {
			// the key just left of the border: merging its region with the right neighbour removes the border
			left := el.key
			for i, q := range queryKeys {
				if q == el.key && i > 0 {
					left = queryKeys[i-1]
				}
			}
			ev.Kind, ev.Key, ev.Right = "merge", left, r.Intn(2) == 0
		} else {
			ev.Kind, ev.Key, ev.Right = "split", el.key, r.Intn(2) == 0
		}
		sc.Events = append(sc.Events, ev)
	}
	sort.SliceStable(sc.Events, func(i, j int) bool { return sc.Events[i].AtUs < sc.Events[j].AtUs })
	// distinct instants
	for i := 1; i < len(sc.Events); i++ {
		if sc.Events[i].AtUs <= sc.Events[i-1].AtUs {
			sc.Events[i].AtUs = sc.Events[i-1].AtUs + 4
		}
	}
	nConv := 4 + r.Intn(8)
	set := map[string]bool{}
	for len(set) < nConv {
		set[pickKey(r, true)] = true
	}
	for k := range set {
		sc.Converge = append(sc.Converge, k)
	}
	sort.Strings(sc.Converge)
	r.Shuffle(len(sc.Converge), func(i, j int) { sc.Converge[i], sc.Converge[j] = sc.Converge[j], sc.Converge[i] })
	return sc
}

func cloneScenario(sc *Scenario) *Scenario {
	c := *sc
	c.Splits = append([]string(nil), sc.Splits...)
	c.Events = append([]Event(nil), sc.Events...)
	c.Converge = append([]string(nil), sc.Converge...)
	c.Actors = make([]Actor, len(sc.Actors))
	for i, a := range sc.Actors {
		c.Actors[i] = Actor{StartUs: a.StartUs, Ops: append([]Op(nil), a.Ops...)}
	}
	return &c
}

// shrink proposes simpler scenarios.
func shrink(sc *Scenario) []any {
	var out []any
	if len(sc.Actors) > 1 {
		for i := range sc.Actors {
			c := cloneScenario(sc)
			c.Actors = append(c.Actors[:i], c.Actors[i+1:]...)
			out = append(out, c)
		}
	}
	if len(sc.Events) > 0 {
		c := cloneScenario(sc)
		c.Events = nil
		out = append(out, c)
	}
	for i := range sc.Events {
		c := cloneScenario(sc)
		c.Events = append(c.Events[:i], c.Events[i+1:]...)
		out = append(out, c)
	}
	if len(sc.Converge) > 0 {
		c := cloneScenario(sc)
		c.Converge = nil
		out = append(out, c)
	}
	for i := range sc.Converge {
		c := cloneScenario(sc)
		c.Converge = append(c.Converge[:i], c.Converge[i+1:]...)
		out = append(out, c)
	}
	for a := range sc.Actors {
		n := len(sc.Actors[a].Ops)
		if n > 2 {
			// halves first
			c := cloneScenario(sc)
			c.Actors[a].Ops = c.Actors[a].Ops[:n/2]
			out = append(out, c)
			c = cloneScenario(sc)
			c.Actors[a].Ops = c.Actors[a].Ops[n/2:]
			out = append(out, c)
		}
		for i := 0; i < n; i++ {
			c := cloneScenario(sc)
			c.Actors[a].Ops = append(c.Actors[a].Ops[:i], c.Actors[a].Ops[i+1:]...)
			out = append(out, c)
		}
	}
	if sc.PD.StaleRate > 0 || sc.PD.SlowRate > 0 || sc.PD.FailRate > 0 {
		c := cloneScenario(sc)
		c.PD = PDPlan{}
		out = append(out, c)
	}
	if sc.Net.DropRate > 0 || sc.Net.SlowRate > 0 {
		c := cloneScenario(sc)
		c.Net = NetPlan{}
		out = append(out, c)
	}
	if sc.Stores > 1 {
		c := cloneScenario(sc)
		c.Stores--
		out = append(out, c)
	}
	for i := range sc.Splits {
		c := cloneScenario(sc)
		c.Splits = append(c.Splits[:i], c.Splits[i+1:]...)
		out = append(out, c)
	}
	if sc.TTLSec != 600 {
		c := cloneScenario(sc)
		c.TTLSec, c.JitterSec = 600, 0
		out = append(out, c)
	}
	for a := range sc.Actors {
		for i, op := range sc.Actors[a].Ops {
			if len(op.Ranges) > 1 {
				for j := range op.Ranges {
					c := cloneScenario(sc)
					rs := append([][2]string(nil), op.Ranges[:j]...)
					rs = append(rs, op.Ranges[j+1:]...)
					c.Actors[a].Ops[i].Ranges = rs
					out = append(out, c)
				}
			}
			if len(op.Keys) > 1 {
				for j := range op.Keys {
					c := cloneScenario(sc)
					ks := append([]string(nil), op.Keys[:j]...)
					ks = append(ks, op.Keys[j+1:]...)
					c.Actors[a].Ops[i].Keys = ks
					out = append(out, c)
				}
			}
		}
	}
	return out
}

func fmtOp(op *Op) string {
	var sb strings.Builder
	sb.WriteString(op.Kind)
	switch op.Kind {
	case "sleep":
		fmt.Fprintf(&sb, " %dms", op.Ms)
	case "batch", "loadranges":
		fmt.Fprintf(&sb, " %q", op.Ranges)
		if op.Count > 0 {
			fmt.Fprintf(&sb, " count=%d", op.Count)
		}
		fmt.Fprintf(&sb, " needLeader=%v buckets=%v", op.Flag, op.Flag2)
	case "group":
		fmt.Fprintf(&sb, " %q", op.Keys)
	case "range", "loadall", "listids":
		fmt.Fprintf(&sb, " [%q,%q)", op.Key, op.End)
	case "loadrange":
		fmt.Fprintf(&sb, " [%q,%q) count=%d", op.Key, op.End, op.Count)
	case "loadfrom":
		fmt.Fprintf(&sb, " %q count=%d", op.Key, op.Count)
	case "byid":
		fmt.Fprintf(&sb, " region-of %q (topology %d events ago) fromPD=%v", op.Key, op.Old, op.Flag)
	case "sendfail":
		fmt.Fprintf(&sb, " %q reload=%v err=%v", op.Key, op.Flag, op.Flag2)
	default:
		fmt.Fprintf(&sb, " %q", op.Key)
	}
	return sb.String()
}
