package locatesim

import (
	"bytes"
	"fmt"
	"strings"

	"github.com/tikv/client-go/v2/internal/locate"
)

// ---------------------------------------------------------------------------------------------
// oracle 1/2: containment and gap-free coverage, judged against the KEYS ASKED FOR only (a
// lookup may legitimately return a region description that is already outdated)

type span struct {
	id         uint64
	ver, conf  uint64
	start, end []byte
}

func (s span) String() string {
	return fmt.Sprintf("r%d(v%d,c%d)[%q,%q)", s.id, s.ver, s.conf, s.start, s.end)
}

func fmtSpans(ss []span) string {
	parts := make([]string, len(ss))
	for i, s := range ss {
		parts[i] = s.String()
	}
	return "[" + strings.Join(parts, " ") + "]"
}

func spanOfLoc(l *locate.KeyLocation) span {
	return span{id: l.Region.GetID(), ver: l.Region.GetVer(), conf: l.Region.GetConfVer(), start: l.StartKey, end: l.EndKey}
}

func spansOfLocs(ls []*locate.KeyLocation) []span {
	out := make([]span, len(ls))
	for i, l := range ls {
		out[i] = spanOfLoc(l)
	}
	return out
}

func spansOfRegions(rs []*locate.Region) []span {
	out := make([]span, len(rs))
	for i, r := range rs {
		v := r.VerID()
		out[i] = span{id: v.GetID(), ver: v.GetVer(), conf: v.GetConfVer(), start: r.StartKey(), end: r.EndKey()}
	}
	return out
}

// containsByStart: start <= key < end (empty end = +inf).
func containsByStart(s span, key []byte) bool {
	return bytes.Compare(s.start, key) <= 0 && (len(s.end) == 0 || bytes.Compare(key, s.end) < 0)
}

// containsByEnd: start < key <= end (empty end = +inf); key must not be empty.
func containsByEnd(s span, key []byte) bool {
	return bytes.Compare(s.start, key) < 0 && (len(s.end) == 0 || bytes.Compare(key, s.end) <= 0)
}

type coverResult struct {
	ok     bool
	ranOut bool   // the list ended before the ranges were covered (no hole inside the list)
	gapAt  []byte // first uncovered key
	rng    int    // index of the range that is not covered
}

// coverage walks spans IN ORDER and checks that they cover each range [start,end) (end empty =
// unbounded) without a gap: for every range, starting at its start key, the next span (after
// skipping spans that end at or before the current position) must contain the position; the
// position then moves to that span's end. Spans may overlap; they may not be out of order and
// may not leave a hole. A span whose end is empty covers everything to its right.
func coverage(spans []span, ranges [][2][]byte) coverResult {
	idx := 0
	for ri, rg := range ranges {
		pos, end := rg[0], rg[1]
		for {
			for idx < len(spans) && len(spans[idx].end) > 0 && bytes.Compare(spans[idx].end, pos) <= 0 {
				idx++
			}
			if idx >= len(spans) {
				return coverResult{ranOut: true, gapAt: pos, rng: ri}
			}
			s := spans[idx]
			if bytes.Compare(s.start, pos) > 0 {
				return coverResult{gapAt: pos, rng: ri}
			}
			if len(s.end) == 0 || (len(end) > 0 && bytes.Compare(s.end, end) >= 0) {
				break // this range is covered; the same span may serve the next range too
			}
			pos = s.end
			idx++
		}
	}
	return coverResult{ok: true}
}

func bRanges(rs [][2]string) [][2][]byte {
	out := make([][2][]byte, len(rs))
	for i, r := range rs {
		out[i] = [2][]byte{[]byte(r[0]), []byte(r[1])}
	}
	return out
}

// ---------------------------------------------------------------------------------------------
// oracle 3: non-regression of the region index (white box)
//
// The reading that is checked (see CHECK.md): between two consecutive check points (taken around
// every delivered PD answer, every delivered store response and every direct call that can
// install entries - all of them zero-time windows in which exactly one goroutine of the library
// runs) an entry X that is NEW in the ordered index must not be
//
//	R1  older (version or conf version smaller) than the entry L the by-id index mapped X's region
//	    id to at the earlier check point, if L was valid then;
//	R2  older (version smaller) than an entry Y that was valid at the earlier check point and whose
//	    start key lies inside X's range (X.start <= Y.start < X.end).
//
// Entries that start BEFORE X and reach into it (wider stale entries) are not looked at: they may
// linger and are shadowed by the search order.

func fmtEntry(e locate.VerifLocatesimEntry) string {
	flags := ""
	if !e.Valid {
		flags = " INVALID"
	}
	if !e.InSorted {
		flags += " by-id-only"
	}
	if e.ByID {
		flags += " by-id"
	}
	return fmt.Sprintf("r%d(v%d,c%d)[%q,%q)%s", e.ID, e.Ver, e.ConfVer, e.Start, e.End, flags)
}

func fmtIndex(es []locate.VerifLocatesimEntry) string {
	parts := make([]string, len(es))
	for i, e := range es {
		parts[i] = fmtEntry(e)
	}
	return "{" + strings.Join(parts, " ") + "}"
}

// check is a check point of the index oracle.
func (w *world) check(label string) {
	cur := locate.VerifLocatesimDumpIndex(w.cache)
	w.mu.Lock()
	prev := w.prev
	w.prev = cur
	w.checkpoint++
	w.mu.Unlock()
	if prev == nil && len(cur) == 0 {
		return
	}
	old := map[uintptr]bool{}
	for _, e := range prev {
		if e.InSorted {
			old[e.Ptr] = true
		}
	}
	changed := len(prev) != len(cur)
	now := map[uintptr]bool{}
	for _, e := range cur {
		now[e.Ptr] = e.Valid
	}
	for _, e := range prev {
		if v, ok := now[e.Ptr]; !ok {
			w.sim.Count("index.removed")
			if !e.Valid {
				w.sim.Count("index.removed-while-invalid-or-expired")
			}
		} else if e.Valid && !v {
			changed = true
			w.sim.Count("index.became-invalid-or-expired")
		}
	}
	for _, x := range cur {
		if !x.InSorted || old[x.Ptr] {
			continue
		}
		changed = true
		w.sim.Count("index.installed")
		for _, y := range prev {
			if y.Ptr == x.Ptr || !y.Valid {
				continue
			}
			if y.ByID && y.ID == x.ID && (y.Ver > x.Ver || y.ConfVer > x.ConfVer) {
				w.violate("regress-same-region", stepKind(label),
					fmt.Sprintf("at %s (%s): %s was installed although the by-id index held the valid, newer %s; index before: %s; index after: %s",
						fmtDur(w.sim.Now()), label, fmtEntry(x), fmtEntry(y), fmtIndex(prev), fmtIndex(cur)))
			}
			if y.InSorted && bytes.Compare(x.Start, y.Start) <= 0 && (len(x.End) == 0 || bytes.Compare(y.Start, x.End) < 0) && y.Ver > x.Ver {
				w.violate("regress-overlap", stepKind(label),
					fmt.Sprintf("at %s (%s): %s was installed although the valid, newer %s starts inside its range; index before: %s; index after: %s",
						fmtDur(w.sim.Now()), label, fmtEntry(x), fmtEntry(y), fmtIndex(prev), fmtIndex(cur)))
			}
		}
	}
	if changed && w.verbose {
		w.logf("INDEX %s: %s", label, fmtIndex(cur))
	}
}

// ---------------------------------------------------------------------------------------------
// reach probes on the index (never part of an oracle)

// validAt returns the valid cached entry a forward lookup of key would use (greatest start <= key
// that contains key), or nil.
func validAt(es []locate.VerifLocatesimEntry, key []byte) *locate.VerifLocatesimEntry {
	var best *locate.VerifLocatesimEntry
	for i := range es {
		e := &es[i]
		if !e.InSorted || bytes.Compare(e.Start, key) > 0 {
			continue
		}
		if best == nil || bytes.Compare(e.Start, best.Start) > 0 {
			best = e
		}
	}
	if best == nil || !best.Valid {
		return nil
	}
	if len(best.End) > 0 && bytes.Compare(key, best.End) >= 0 {
		return nil
	}
	return best
}

// cacheShape classifies what the cache holds for [start,end) before a range lookup: "cold" (no
// valid entry at start), "full" (valid entries cover the range), "hole" (covered at start, a hole
// later).
func cacheShape(es []locate.VerifLocatesimEntry, start, end []byte) (shape string, lastUnbounded bool) {
	pos := start
	e := validAt(es, pos)
	if e == nil {
		return "cold", false
	}
	for {
		if len(e.End) == 0 {
			return "full", true
		}
		if len(end) > 0 && bytes.Compare(e.End, end) >= 0 {
			return "full", false
		}
		pos = e.End
		if e = validAt(es, pos); e == nil {
			return "hole", false
		}
	}
}

// probeKeyState counts from which cache state a point lookup starts.
func (w *world) probeKeyState(api string, key []byte, byEnd bool) {
	idx := locate.VerifLocatesimDumpIndex(w.cache)
	var best *locate.VerifLocatesimEntry
	for i := range idx {
		e := &idx[i]
		if !e.InSorted {
			continue
		}
		c := bytes.Compare(e.Start, key)
		if c > 0 || (byEnd && c == 0) {
			continue
		}
		if best == nil || bytes.Compare(e.Start, best.Start) > 0 {
			best = e
		}
	}
	state := "cold"
	if best != nil {
		inside := len(best.End) == 0 || bytes.Compare(key, best.End) < 0 || (byEnd && bytes.Equal(key, best.End))
		switch {
		case !inside:
			state = "cold"
		case best.Valid:
			state = "warm"
		case best.Flags&1 != 0:
			state = "flagged-reload"
		default:
			state = "invalidated-or-expired"
		}
	}
	w.sim.Count("probe." + api + ".from-" + state)
}

// stepKind turns a check point label ("post pd:getregion/67#0 = ...") into a stable signature
// ("pd:getregion").
func stepKind(label string) string {
	f := strings.Fields(label)
	if len(f) < 2 {
		return label
	}
	k := f[1]
	if i := strings.IndexAny(k, "/#"); i >= 0 {
		k = k[:i]
	}
	return k
}
