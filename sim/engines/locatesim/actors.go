package locatesim

import (
	"bytes"
	"context"
	"fmt"
	"runtime/debug"
	"sort"
	"strings"
	"sync"
	"time"

	"github.com/pingcap/kvproto/pkg/kvrpcpb"
	"github.com/pingcap/kvproto/pkg/metapb"
	"github.com/pkg/errors"
	"github.com/tikv/client-go/v2/config/retry"
	"github.com/tikv/client-go/v2/internal/locate"
	"github.com/tikv/client-go/v2/internal/mockstore/mocktikv"
	"github.com/tikv/client-go/v2/kv"
	"github.com/tikv/client-go/v2/tikvrpc"
	"github.com/tikv/pd/client/clients/router"
)

// opRec is the recorded outcome of one call.
type opRec struct {
	Actor, Idx   int
	Op           *Op
	InvAt, RetAt time.Duration
	Err          string
	Result       string
	Panic        string
}

func errStr(err error) string {
	if err == nil {
		return ""
	}
	m := err.Error()
	if len(m) > 160 {
		m = m[:160]
	}
	return m
}

// alignedSleep sleeps at least gap and wakes at an instant = actor (mod 4 microseconds), so that
// two actors (and the events, which sit at 3 mod 4) never wake at the same instant.
func (w *world) alignedSleep(actor int, gap time.Duration) {
	target := w.sim.Now() + gap
	us := int64(target / time.Microsecond)
	us += 4 // strictly later, whole microseconds
	us = us - us%4 + int64(actor%3)
	if d := time.Duration(us)*time.Microsecond - w.sim.Now(); d > 0 {
		time.Sleep(d)
	}
}

func (w *world) bo(ctx context.Context) *retry.Backoffer {
	return retry.NewBackofferWithVars(ctx, w.sc.LookupBudgetMs, nil)
}

func (w *world) runActor(a int, wg *sync.WaitGroup) {
	defer wg.Done()
	act := &w.sc.Actors[a]
	w.alignedSleep(a, time.Duration(act.StartUs)*time.Microsecond)
	for i := range act.Ops {
		op := &act.Ops[i]
		w.alignedSleep(a, time.Duration(op.GapUs)*time.Microsecond)
		if op.Kind == "sleep" {
			w.sim.Count("op.sleep")
			w.alignedSleep(a, time.Duration(op.Ms)*time.Millisecond)
			continue
		}
		rec := &opRec{Actor: a, Idx: i, Op: op, InvAt: w.sim.Now()}
		w.tracef("CALL a%d.%d %s", a, i, fmtOp(op))
		w.runOp(rec)
		rec.RetAt = w.sim.Now()
		w.hist[a] = append(w.hist[a], rec)
		w.sim.Count("op." + op.Kind)
		if rec.Err != "" {
			w.sim.Count("op-error." + op.Kind)
		}
		out := rec.Result
		if rec.Err != "" {
			out = "ERR " + rec.Err
		}
		if rec.Panic != "" {
			out = "PANIC " + rec.Panic
		}
		w.tracef("RET  a%d.%d %s -> %s", a, i, op.Kind, out)
	}
}

// runOp executes one call and judges its result. A panic of the library is a violation.
func (w *world) runOp(rec *opRec) {
	defer func() {
		if r := recover(); r != nil {
			rec.Panic = fmt.Sprint(r)
			w.violate("library-panic", firstWords(rec.Panic, 6),
				fmt.Sprintf("call %s panicked: %v\n%s", fmtOp(rec.Op), r, debug.Stack()))
		}
	}()
	op := rec.Op
	ctx := context.Background()
	bo := w.bo(ctx)
	key := []byte(op.Key)
	end := []byte(op.End)
	call := fmt.Sprintf("actor %d call %d at %s: %s", rec.Actor, rec.Idx, fmtDur(rec.InvAt), fmtOp(op))
	switch op.Kind {
	case "locate":
		w.probeKeyState("LocateKey", key, false)
		loc, err := w.cache.LocateKey(bo, key)
		if rec.Err = errStr(err); err != nil {
			return
		}
		s := spanOfLoc(loc)
		rec.Result = s.String()
		if !containsByStart(s, key) {
			w.violate("key-not-in-location", "LocateKey", fmt.Sprintf("%s returned %s, which does not contain the key", call, s))
		}
	case "locend":
		w.probeKeyState("LocateEndKey", key, true)
		loc, err := w.cache.LocateEndKey(bo, key)
		if rec.Err = errStr(err); err != nil {
			return
		}
		s := spanOfLoc(loc)
		rec.Result = s.String()
		if !containsByEnd(s, key) {
			w.violate("key-not-in-location", "LocateEndKey", fmt.Sprintf("%s returned %s, which does not contain the key as an end key (start < key <= end)", call, s))
		}
	case "try":
		loc := w.cache.TryLocateKey(key)
		if loc == nil {
			rec.Result = "<miss>"
			return
		}
		s := spanOfLoc(loc)
		rec.Result = s.String()
		if !containsByStart(s, key) {
			w.violate("key-not-in-location", "TryLocateKey", fmt.Sprintf("%s returned %s, which does not contain the key", call, s))
		}
	case "byid":
		sr := w.snapAgo(op.Old).byKey(mocktikv.NewMvccKey(key))
		if sr == nil {
			rec.Result = "<no region>"
			return
		}
		id := sr.meta.Id
		var loc *locate.KeyLocation
		var err error
		if op.Flag {
			loc, err = w.cache.LocateRegionByIDFromPD(bo, id) // bypasses the cache, installs nothing
		} else {
			loc, err = w.cache.LocateRegionByID(bo, id)
		}
		if rec.Err = errStr(err); err != nil {
			return
		}
		s := spanOfLoc(loc)
		rec.Result = fmt.Sprintf("id %d -> %s", id, s)
		if s.id != id {
			w.violate("wrong-region-id", "LocateRegionByID", fmt.Sprintf("%s asked for region %d and got %s", call, id, s))
		}
	case "range":
		w.probeShape("range", [][2][]byte{{key, end}})
		locs, err := w.cache.LocateKeyRange(bo, key, end)
		if rec.Err = errStr(err); err != nil {
			return
		}
		ss := spansOfLocs(locs)
		rec.Result = fmtSpans(ss)
		if c := coverage(ss, [][2][]byte{{key, end}}); !c.ok {
			w.violate("range-gap", "LocateKeyRange", fmt.Sprintf("%s returned %s: taken in order they do not cover the range, first uncovered key %q", call, fmtSpans(ss), c.gapAt))
		}
	case "batch":
		rs := bRanges(op.Ranges)
		if op.Huge > 0 {
			// thousands of tiny disjoint ranges over the whole key space, written out here and not in the scenario
			// (the library sends uncached ranges to PD in pages; what lies behind the first page must not be forgotten)
			rs = rs[:0]
			per := op.Huge/24 + 1
			for c := byte('b'); c <= 'y' && len(rs) < op.Huge; c++ {
				for j := 0; j < per && len(rs) < op.Huge; j++ {
					rs = append(rs, [2][]byte{[]byte(fmt.Sprintf("%c%05d", c, 2*j)), []byte(fmt.Sprintf("%c%05d", c, 2*j+1))})
				}
			}
			w.sim.Count("probe.batch-huge")
		}
		w.probeShape("batch", rs)
		before := locate.VerifLocatesimDumpIndex(w.cache)
		krs := make([]kv.KeyRange, len(rs))
		for i, r := range rs {
			krs[i] = kv.KeyRange{StartKey: r[0], EndKey: r[1]}
		}
		var opts []locate.BatchLocateKeyRangesOpt
		if op.Flag {
			opts = append(opts, locate.WithNeedRegionHasLeaderPeer())
		}
		if op.Flag2 {
			opts = append(opts, locate.WithNeedBuckets())
		}
		locs, err := w.cache.BatchLocateKeyRanges(bo, krs, opts...)
		if rec.Err = errStr(err); err != nil {
			return
		}
		ss := spansOfLocs(locs)
		rec.Result = fmtSpans(ss)
		if c := coverage(ss, rs); !c.ok {
			// One witness shape gets its own signature (it is a known finding, see CHECK.md): when the
			// call started, the uncovered key was held by a valid cached region with an unbounded end
			// key, and that region is missing from the result.
			sig, extra := "BatchLocateKeyRanges", ""
			for i := range before {
				e := &before[i]
				if !e.InSorted || !e.Valid || len(e.End) != 0 || bytes.Compare(e.Start, c.gapAt) > 0 {
					continue
				}
				dropped := true
				for _, s := range ss {
					dropped = dropped && !(s.id == e.ID && s.ver == e.Ver)
				}
				if dropped {
					sig = "BatchLocateKeyRanges/cached-unbounded-last-region-dropped"
					extra = fmt.Sprintf("; when the call started the cache held the valid region %s, which contains that key and is not in the result; index then: %s", fmtEntry(*e), fmtIndex(before))
					break
				}
			}
			w.violate("range-gap", sig, fmt.Sprintf("%s returned %s: taken in order they do not cover range #%d [%q,%q), first uncovered key %q%s", call, fmtSpans(ss), c.rng, rs[c.rng][0], rs[c.rng][1], c.gapAt, extra))
		}
	case "group":
		keys := make([][]byte, len(op.Keys))
		for i, k := range op.Keys {
			keys[i] = []byte(k)
		}
		groups, first, err := w.cache.GroupKeysByRegion(bo, keys, nil)
		if rec.Err = errStr(err); err != nil {
			return
		}
		w.judgeGroups(rec, call, keys, groups, first)
	case "loadrange":
		regs, err := w.cache.BatchLoadRegionsWithKeyRange(bo, key, end, op.Count)
		if rec.Err = errStr(err); err != nil {
			return
		}
		ss := spansOfRegions(regs)
		rec.Result = fmtSpans(ss)
		w.judgeLimited(call, "BatchLoadRegionsWithKeyRange", ss, [][2][]byte{{key, end}}, op.Count)
	case "loadranges":
		rs := bRanges(op.Ranges)
		krs := make([]router.KeyRange, len(rs))
		for i, r := range rs {
			krs[i] = router.KeyRange{StartKey: r[0], EndKey: r[1]}
		}
		var opts []locate.BatchLocateKeyRangesOpt
		if op.Flag {
			opts = append(opts, locate.WithNeedRegionHasLeaderPeer())
		}
		regs, err := w.cache.BatchLoadRegionsWithKeyRanges(bo, krs, op.Count, opts...)
		if rec.Err = errStr(err); err != nil {
			return
		}
		ss := spansOfRegions(regs)
		rec.Result = fmtSpans(ss)
		w.judgeLimited(call, "BatchLoadRegionsWithKeyRanges", ss, rs, op.Count)
	case "loadall":
		regs, err := w.cache.LoadRegionsInKeyRange(bo, key, end)
		if rec.Err = errStr(err); err != nil {
			return
		}
		ss := spansOfRegions(regs)
		rec.Result = fmtSpans(ss)
		if c := coverage(ss, [][2][]byte{{key, end}}); !c.ok {
			w.violate("range-gap", "LoadRegionsInKeyRange", fmt.Sprintf("%s returned %s: taken in order they do not cover the range, first uncovered key %q", call, fmtSpans(ss), c.gapAt))
		}
	case "listids":
		ids, err := w.cache.ListRegionIDsInKeyRange(bo, key, end)
		if rec.Err = errStr(err); err != nil {
			return
		}
		rec.Result = fmt.Sprint(ids)
		if len(ids) == 0 {
			w.violate("range-gap", "ListRegionIDsInKeyRange", fmt.Sprintf("%s returned no region at all", call))
		}
	case "loadfrom":
		last, err := w.cache.BatchLoadRegionsFromKey(bo, key, op.Count)
		if rec.Err = errStr(err); err != nil {
			return
		}
		rec.Result = fmt.Sprintf("end of last loaded region %q", last)
		if len(last) > 0 && bytes.Compare(last, key) <= 0 {
			w.violate("range-gap", "BatchLoadRegionsFromKey", fmt.Sprintf("%s returned end key %q, which is not beyond the start key", call, last))
		}
	case "get", "rawget":
		w.probeKeyState("Get", key, false)
		res := w.get(ctx, bo, key, op.Kind == "rawget", 300)
		rec.Err = res.err
		rec.Result = fmt.Sprintf("rpcs=%d rounds=%d", res.rpcs, res.rounds)
	case "inval":
		loc := w.cache.TryLocateKey(key)
		if loc == nil {
			rec.Result = "<miss>"
			return
		}
		w.cache.InvalidateCachedRegion(loc.Region)
		rec.Result = "invalidated " + spanOfLoc(loc).String()
		w.sim.Count("probe.explicit-invalidate")
	case "enm":
		// what the request sender does on EpochNotMatch, with the store's current view of the regions
		loc := w.cache.TryLocateKey(key)
		if loc == nil {
			rec.Result = "<miss>"
			return
		}
		rctx, err := w.cache.GetTiKVRPCContext(bo, loc.Region, kv.ReplicaReadLeader, 0)
		if err != nil || rctx == nil {
			rec.Result = "<no rpc context>"
			rec.Err = errStr(err)
			return
		}
		var metas []*metapb.Region
		snap := w.cur()
		if r := snap.byID(loc.Region.GetID()); r != nil {
			metas = append(metas, decodeMeta(r.meta))
			if len(r.meta.EndKey) > 0 {
				if nx := snap.byKey(r.meta.EndKey); nx != nil {
					metas = append(metas, decodeMeta(nx.meta))
				}
			}
		} else {
			for _, r := range snap.scan(mocktikv.NewMvccKey(loc.StartKey), mocktikv.NewMvccKey(loc.EndKey), 0) {
				metas = append(metas, decodeMeta(r.meta))
			}
		}
		w.check("pre OnRegionEpochNotMatch")
		retryIt, err := w.cache.OnRegionEpochNotMatch(bo, rctx, metas)
		w.check("post OnRegionEpochNotMatch " + descMetas(encodeBack(metas)))
		rec.Err = errStr(err)
		rec.Result = fmt.Sprintf("OnRegionEpochNotMatch(%s, %d regions) retry=%v", spanOfLoc(loc), len(metas), retryIt)
		w.sim.Count("probe.explicit-epoch-not-match")
	case "sendfail":
		loc := w.cache.TryLocateKey(key)
		if loc == nil {
			rec.Result = "<miss>"
			return
		}
		rctx, err := w.cache.GetTiKVRPCContext(bo, loc.Region, kv.ReplicaReadLeader, 0)
		if err != nil || rctx == nil {
			rec.Result = "<no rpc context>"
			rec.Err = errStr(err)
			return
		}
		var cause error
		if op.Flag2 {
			cause = errors.New("sim: send failed")
		}
		w.cache.OnSendFail(bo, rctx, op.Flag, cause)
		rec.Result = fmt.Sprintf("OnSendFail(%s, store %s)", spanOfLoc(loc), rctx.Addr)
		w.sim.Count("probe.explicit-send-fail")
	default:
		panic("locatesim: unknown op kind " + op.Kind)
	}
}

// decodeMeta returns a copy of a cluster region with raw (decoded) keys, the form in which the
// request sender hands the regions of an EpochNotMatch error to the cache.
func decodeMeta(m *metapb.Region) *metapb.Region {
	c := *m
	c.StartKey = rawOf(m.StartKey)
	c.EndKey = rawOf(m.EndKey)
	c.Peers = append([]*metapb.Peer(nil), m.Peers...)
	e := *m.RegionEpoch
	c.RegionEpoch = &e
	return &c
}

func encodeBack(ms []*metapb.Region) []*metapb.Region {
	out := make([]*metapb.Region, len(ms))
	for i, m := range ms {
		c := *m
		c.StartKey = mocktikv.NewMvccKey(m.StartKey)
		c.EndKey = mocktikv.NewMvccKey(m.EndKey)
		out[i] = &c
	}
	return out
}

// judgeLimited judges a load call that returns at most count regions: the regions, in order, must
// cover the ranges from the first start key on without a hole; they may stop early only because
// the count was reached.
func (w *world) judgeLimited(call, api string, ss []span, ranges [][2][]byte, count int) {
	c := coverage(ss, ranges)
	if c.ok {
		return
	}
	if c.ranOut && len(ss) >= count {
		w.sim.Count("probe.load-limited-by-count")
		return
	}
	w.violate("range-gap", api, fmt.Sprintf("%s returned %s (%d regions, count %d): taken in order they do not cover range #%d, first uncovered key %q", call, fmtSpans(ss), len(ss), count, c.rng, c.gapAt))
}

func (w *world) rangeOf(v locate.RegionVerID) (rawRange, bool) {
	w.mu.Lock()
	defer w.mu.Unlock()
	r, ok := w.ranges[verKey{v.GetID(), v.GetVer()}]
	return r, ok
}

func (w *world) judgeGroups(rec *opRec, call string, keys [][]byte, groups map[locate.RegionVerID][][]byte, first locate.RegionVerID) {
	ids := make([]locate.RegionVerID, 0, len(groups))
	for id := range groups {
		ids = append(ids, id)
	}
	sort.Slice(ids, func(i, j int) bool {
		if ids[i].GetID() != ids[j].GetID() {
			return ids[i].GetID() < ids[j].GetID()
		}
		if ids[i].GetVer() != ids[j].GetVer() {
			return ids[i].GetVer() < ids[j].GetVer()
		}
		return ids[i].GetConfVer() < ids[j].GetConfVer()
	})
	var sb strings.Builder
	count := map[string]int{}
	for _, id := range ids {
		rg, known := w.rangeOf(id)
		fmt.Fprintf(&sb, "%s", id.String())
		if known {
			fmt.Fprintf(&sb, "[%q,%q)", rg.start, rg.end)
		}
		fmt.Fprintf(&sb, "=%q ", groups[id])
		for _, k := range groups[id] {
			count[string(k)]++
			if !known {
				w.sim.Count("oracle.skip.group-unknown-description")
				continue
			}
			if !within(rg.start, rg.end, k) {
				w.violate("key-not-in-location", "GroupKeysByRegion", fmt.Sprintf("%s put key %q into the group of region %s, whose range is [%q,%q)", call, k, id.String(), rg.start, rg.end))
			}
		}
	}
	rec.Result = sb.String()
	for _, k := range keys {
		if count[string(k)] != 1 {
			w.violate("group-not-a-partition", "GroupKeysByRegion", fmt.Sprintf("%s: key %q appears in %d groups: %s", call, k, count[string(k)], sb.String()))
		}
	}
	if len(keys) > 0 {
		found := false
		for _, k := range groups[first] {
			found = found || bytes.Equal(k, keys[0])
		}
		if !found {
			w.violate("group-not-a-partition", "GroupKeysByRegion-first", fmt.Sprintf("%s: the region returned as the first key's region (%s) does not hold the first key %q: %s", call, first.String(), keys[0], sb.String()))
		}
	}
}

// probeShape counts which cache states range lookups start from.
func (w *world) probeShape(api string, ranges [][2][]byte) {
	idx := locate.VerifLocatesimDumpIndex(w.cache)
	holes, colds, fulls := 0, 0, 0
	for i, r := range ranges {
		shape, unb := cacheShape(idx, r[0], r[1])
		switch shape {
		case "cold":
			colds++
		case "hole":
			holes++
		case "full":
			fulls++
			if unb && i == len(ranges)-1 && (holes > 0 || colds > 0) {
				w.sim.Count("probe." + api + ".miss-then-cached-unbounded-last-region")
			}
		}
	}
	if holes > 0 {
		w.sim.Count("probe." + api + ".cache-hole-in-the-middle")
	}
	if colds > 0 && fulls > 0 {
		w.sim.Count("probe." + api + ".mixed-cold-and-cached-ranges")
	}
	if colds == len(ranges) {
		w.sim.Count("probe." + api + ".cold")
	}
	if fulls == len(ranges) {
		w.sim.Count("probe." + api + ".fully-cached")
	}
}

type getResult struct {
	err     string
	rpcs    int
	rounds  int
	last    *rpcRec
	elapsed time.Duration
}

// get does what a point read of the transactional / raw client does: locate the key, send the
// request to that region through the request sender, on a region error back off the way the
// library's own callers do and start over.
func (w *world) get(ctx context.Context, bo *retry.Backoffer, key []byte, raw bool, maxRounds int) getResult {
	start := w.sim.Now()
	w.mu.Lock()
	n0 := len(w.rpcs)
	w.mu.Unlock()
	res := getResult{}
	finish := func(err string) getResult {
		res.err = err
		res.elapsed = w.sim.Now() - start
		w.mu.Lock()
		res.rpcs = len(w.rpcs) - n0
		if len(w.rpcs) > n0 {
			res.last = w.rpcs[len(w.rpcs)-1]
		}
		w.mu.Unlock()
		return res
	}
	for {
		res.rounds++
		if res.rounds > maxRounds {
			return finish(fmt.Sprintf("harness: gave up after %d rounds", maxRounds))
		}
		loc, err := w.cache.LocateKey(bo, key)
		if err != nil {
			return finish("LocateKey: " + errStr(err))
		}
		if s := spanOfLoc(loc); !containsByStart(s, key) {
			w.violate("key-not-in-location", "LocateKey", fmt.Sprintf("LocateKey(%q) inside a get returned %s, which does not contain the key", key, s))
		}
		var req *tikvrpc.Request
		if raw {
			req = tikvrpc.NewRequest(tikvrpc.CmdRawGet, &kvrpcpb.RawGetRequest{Key: key}, kvrpcpb.Context{})
		} else {
			req = tikvrpc.NewRequest(tikvrpc.CmdGet, &kvrpcpb.GetRequest{Key: key, Version: 1 << 40}, kvrpcpb.Context{})
		}
		// a sender serves one request at a time: one per call, as the library's own callers do
		sender := locate.NewRegionRequestSender(w.cache, w.cli, noopValidator{})
		resp, _, err := sender.SendReq(bo, req, loc.Region, 10*time.Second)
		if err != nil {
			return finish("SendReq: " + errStr(err))
		}
		regionErr, err := resp.GetRegionError()
		if err != nil {
			return finish("GetRegionError: " + errStr(err))
		}
		if regionErr != nil {
			w.sim.Count("get.region-error-retry")
			if err = retry.MayBackoffForRegionError(regionErr, bo); err != nil {
				return finish("backoff: " + errStr(err))
			}
			continue
		}
		return finish("")
	}
}

func firstWords(s string, n int) string {
	f := strings.Fields(s)
	if len(f) > n {
		f = f[:n]
	}
	return strings.Join(f, " ")
}
