package batchsim

import (
	"time"
	_ "unsafe" // go:linkname

	"github.com/pingcap/kvproto/pkg/tikvpb"
	"google.golang.org/grpc"
)

// The four variables below are the hook variables that hooks.patch adds to the
// library (internal/simhook.Hook and three variables of internal/client). The
// engine must also build against the unpatched tree, where they do not exist,
// so it cannot name them in Go source. Instead each declaration is given the
// linker name of the library variable: in a patched build both declarations
// are one (zero initialised) variable, so assigning here installs the hook; in
// an unpatched build they are ordinary private variables that nobody reads.
// Which build is running is found out at run time by probeHooks().

//go:linkname yieldHook github.com/tikv/client-go/v2/internal/simhook.Hook
var yieldHook func(site string)

//go:linkname dialHook github.com/tikv/client-go/v2/internal/client.VerifDial
var dialHook func(target string, opts ...grpc.DialOption) (*grpc.ClientConn, error)

//go:linkname waitReadyHook github.com/tikv/client-go/v2/internal/client.VerifWaitConnReady
var waitReadyHook func(conn *grpc.ClientConn, timeout time.Duration) error

//go:linkname newStreamHook github.com/tikv/client-go/v2/internal/client.VerifNewBatchStream
var newStreamHook func(conn *grpc.ClientConn, forwardedHost, connIdx string) (tikvpb.Tikv_BatchCommandsClient, error)
