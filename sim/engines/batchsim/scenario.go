package batchsim

import (
	"fmt"
	"math/rand"

	"github.com/tikv/client-go/v2/verifsim/simkit"
)

// Scenario is the explicit, JSON-serialisable description of one run. Choices
// that belong to ONE request (its response delay, whether its response is
// dropped, duplicated, replaced by a stream break, ...) are not listed here:
// they are a pure function of (Seed, request tag) through simkit.Hasher, so they
// stay the same when other calls are removed while shrinking. Everything else
// (who calls what, configuration, time-based faults, probabilities) is explicit.
type Scenario struct {
	Mode     string    `json:"mode"`
	Cfg      ClientCfg `json:"cfg"`
	Stores   int       `json:"stores"`    // 1..2 store addresses
	FwdHosts int       `json:"fwd_hosts"` // 0..2 forwarded hosts
	Callers  []Caller  `json:"callers"`
	Closes   []CloseEv `json:"closes,omitempty"`
	Breaks   []BreakEv `json:"breaks,omitempty"`
	Net      NetCfg    `json:"net"`
	Yield    YieldCfg  `json:"yield"`
	Tail     int       `json:"tail"` // healthy calls per caller after the faults have stopped
	HashSalt uint64    `json:"hash_salt"`
	Listener bool      `json:"listener"` // install a health feedback listener
	// Resolves: part of the calls are region-wide ResolveLock requests sent through the collapsing client wrapper
	Resolves bool `json:"resolves,omitempty"`
}

// ClientCfg is the part of config.TiKVClient the run sets.
type ClientCfg struct {
	MaxBatchSize  uint   `json:"max_batch_size"`
	ConnCount     uint   `json:"conn_count"`
	ConcLimit     int64  `json:"conc_limit"` // 0: library default (unlimited)
	BatchWaitSize uint   `json:"batch_wait_size"`
	MaxBatchWaitU int    `json:"max_batch_wait_us"`
	Overload      uint   `json:"overload"`
	Policy        string `json:"policy"`
}

// Caller is one goroutine issuing calls one after the other.
type Caller struct {
	Calls []Call `json:"calls"`
}

// Call is one SendRequest / SendRequestAsync.
type Call struct {
	Store int    `json:"store"`
	Fwd   int    `json:"fwd"` // 0: direct, k>0: forwarded host k-1
	Pri   uint64 `json:"pri"`
	Kind  string `json:"kind"` // get | batchget | rawget | resolve
	// Grp (kind resolve): a region-wide ResolveLock of transaction Grp in the region of the store - calls of one group
	// that overlap in time are collapsed by the client (client_collapse.go) into one request on the wire
	Grp       int  `json:"grp,omitempty"`
	Async     bool `json:"async,omitempty"`
	TimeoutMs int  `json:"timeout_ms"` // 0 (async only): no deadline at all
	CancelUs  int  `json:"cancel_us,omitempty"`
	// CtxExtraMs > 0 (synchronous calls): the caller's context carries a deadline this much LATER than the call's own
	// time-out, as the contexts of statements with a max execution time do; the call is still bounded by its time-out
	CtxExtraMs int `json:"ctx_extra_ms,omitempty"`
	ThinkUs    int `json:"think_us"`
}

// CloseEv closes the client or the pool of one address at a simulated instant.
type CloseEv struct {
	AtUs  int    `json:"at_us"`
	Kind  string `json:"kind"` // close | closeaddr
	Store int    `json:"store"`
}

// BreakEv kills one connection (all its streams at once) at a simulated instant.
type BreakEv struct {
	AtUs        int `json:"at_us"`
	Store       int `json:"store"`
	Conn        int `json:"conn"`
	FailCreates int `json:"fail_creates"`
}

// NetCfg holds per-mille probabilities of per-request fates and delay shapes.
type NetCfg struct {
	Drop       int `json:"drop"`        // response never sent
	Dup        int `json:"dup"`         // response sent twice
	Ghost      int `json:"ghost"`       // an extra response with an id nobody asked for
	RecvBreak  int `json:"recv_break"`  // the stream dies instead of answering
	ConnWide   int `json:"conn_wide"`   // ... and with it every stream of the connection
	SendBreak  int `json:"send_break"`  // Send fails, the batch is lost, the stream is dead
	AmbigSend  int `json:"ambig_send"`  // mode ambig only: Send fails but the server got the batch
	Slow       int `json:"slow"`        // response delayed by 20..400 ms
	VerySlow   int `json:"very_slow"`   // response delayed by 1..6 s
	QuantumUs  int `json:"quantum_us"`  // responses are flushed in groups at most this late
	Health     int `json:"health"`      // flush carries health feedback
	Load       int `json:"load"`        // flush carries a transport layer load
	FailCreate int `json:"fail_create"` // after a break: how many (0..n) re-creations fail, upper bound
	KeepQueued int `json:"keep_queued"` // on a break: responses already queued are still delivered before the error
	// SlowConnect (per mille, per connection): the FIRST wait for the connection to become ready takes 1..80 ms of
	// simulated time (TCP / TLS set-up) while the send loop holds the first batch it has built
	SlowConnect int `json:"slow_connect,omitempty"`
}

// YieldCfg holds per-mille probabilities of delays at yield points.
type YieldCfg struct {
	Delay int `json:"delay"` // a short delay (up to 3 ms; caller path up to 300 us)
	Long  int `json:"long"`  // recv path: 5..300 ms
	Stall int `json:"stall"` // send loop: 20..1500 ms
}

var modes = map[string]bool{"": true, "mix": true, "nofault": true, "nodeadline": true, "ambig": true, "spin": true}

func pick[T any](r *rand.Rand, xs ...T) T { return xs[r.Intn(len(xs))] }

func generate(cfg simkit.RunConfig) *Scenario {
	mode := cfg.Mode
	if mode == "" {
		mode = "mix"
	}
	r := simkit.Rand(cfg.Seed, "gen")
	sc := &Scenario{Mode: mode, HashSalt: cfg.Seed}
	sc.Stores = 1 + r.Intn(2)
	if r.Intn(100) < 45 {
		sc.FwdHosts = 1 + r.Intn(2)
	}
	sc.Cfg = ClientCfg{
		MaxBatchSize:  pick[uint](r, 1, 2, 2, 4, 8, 128),
		ConnCount:     pick[uint](r, 1, 1, 2, 2, 3),
		BatchWaitSize: pick[uint](r, 1, 2, 8),
		MaxBatchWaitU: pick(r, 0, 0, 500, 2000),
		Overload:      pick[uint](r, 0, 200),
		Policy:        pick(r, "basic", "standard", "positive"),
	}
	if r.Intn(100) < 35 {
		sc.Cfg.ConcLimit = pick[int64](r, 1, 2, 4, 8)
	}
	nCallers := pick(r, 2, 2, 3, 3, 4, 4, 6, 8, 12, 16, 24, 32)
	sc.Resolves = mode != "spin" && simkit.Rand(cfg.Seed, "resolves").Intn(3) == 0
	maxCalls := 6
	if nCallers > 12 {
		maxCalls = 3
	}
	sc.Listener = r.Intn(2) == 0

	fault := mode != "nofault"
	if fault {
		n := &sc.Net
		// every run draws which fault kinds are on, so that clean and dirty
		// phases of each kind are both sampled
		if r.Intn(100) < 40 {
			n.Drop = pick(r, 10, 40, 150)
		}
		if r.Intn(100) < 40 {
			n.Dup = pick(r, 20, 80, 300)
		}
		if r.Intn(100) < 40 {
			n.Ghost = pick(r, 20, 80, 300)
		}
		if r.Intn(100) < 50 {
			n.RecvBreak = pick(r, 10, 40, 120)
			n.ConnWide = pick(r, 0, 300, 700)
		}
		if r.Intn(100) < 40 {
			n.SendBreak = pick(r, 10, 40, 120)
		}
		if mode == "ambig" {
			n.AmbigSend = pick(r, 40, 120, 300)
		}
		if r.Intn(100) < 60 {
			n.Slow = pick(r, 30, 100, 300)
		}
		if r.Intn(100) < 40 {
			n.VerySlow = pick(r, 10, 50, 150)
		}
		n.SlowConnect = pick(r, 0, 0, 300, 800)
		n.FailCreate = pick(r, 0, 1, 2, 4)
		n.KeepQueued = pick(r, 0, 500, 1000)
		sc.Yield = YieldCfg{Delay: pick(r, 0, 50, 200, 500), Long: pick(r, 0, 0, 10, 40), Stall: pick(r, 0, 0, 10, 40)}
	}
	sc.Net.QuantumUs = pick(r, 0, 0, 200, 2000)
	sc.Net.Health = pick(r, 0, 100, 500)
	sc.Net.Load = pick(r, 0, 0, 300)

	span := 0 // rough length of the active phase in us, for placing closes and breaks
	for i := 0; i < nCallers; i++ {
		var c Caller
		k := 1 + r.Intn(maxCalls)
		t := 0
		for j := 0; j < k; j++ {
			call := Call{Store: r.Intn(sc.Stores), Kind: pick(r, "get", "get", "batchget", "rawget")}
			if sc.FwdHosts > 0 && r.Intn(100) < 30 {
				call.Fwd = 1 + r.Intn(sc.FwdHosts)
			}
			if sc.Resolves && r.Intn(100) < 45 {
				call.Kind, call.Fwd, call.Grp = "resolve", 0, r.Intn(2)
			}
			switch x := r.Intn(100); {
			case x < 60:
			case x < 85:
				call.Pri = uint64(1 + r.Intn(9))
			default:
				call.Pri = uint64(10 + r.Intn(6))
			}
			call.Async = r.Intn(100) < 30
			switch x := r.Intn(100); {
			case x < 35:
				call.TimeoutMs = 3 + r.Intn(40)
			case x < 80:
				call.TimeoutMs = 80 + r.Intn(400)
			default:
				call.TimeoutMs = 1500 + r.Intn(3000)
			}
			if !fault {
				call.TimeoutMs = 2000 + r.Intn(3000)
			}
			if mode == "nodeadline" && call.Async && r.Intn(100) < 70 && call.Kind != "resolve" {
				call.TimeoutMs = 0
			}
			if fault && !call.Async && call.TimeoutMs > 0 && r.Intn(100) < 15 {
				call.CtxExtraMs = pick(r, 1, 50, 700, 5000, 60000)
			}
			if fault && r.Intn(100) < 15 {
				lim := call.TimeoutMs * 1000
				if lim == 0 {
					lim = 200000
				}
				call.CancelUs = 1 + r.Intn(lim)
			}
			switch x := r.Intn(100); {
			case x < 50:
				call.ThinkUs = r.Intn(300)
			case x < 90:
				call.ThinkUs = r.Intn(5000)
			default:
				call.ThinkUs = r.Intn(60000)
			}
			t += call.ThinkUs + 2000
			c.Calls = append(c.Calls, call)
		}
		if t > span {
			span = t
		}
		sc.Callers = append(sc.Callers, c)
	}
	if span < 20000 {
		span = 20000
	}
	// rarely: one caller pauses for longer than the idle time-out of a batch
	// connection (3 minutes), so that the pool is marked idle and recycled while
	// the next calls arrive
	if r.Intn(100) < 3 {
		c := &sc.Callers[r.Intn(len(sc.Callers))]
		if n := len(c.Calls); n > 1 {
			c.Calls[1+r.Intn(n-1)].ThinkUs = 181000000 + r.Intn(4000000)
		}
	}
	if fault {
		if r.Intn(100) < 35 {
			ev := CloseEv{AtUs: r.Intn(span * 2), Kind: pick(r, "close", "close", "closeaddr"), Store: r.Intn(sc.Stores)}
			sc.Closes = append(sc.Closes, ev)
			if ev.Kind == "closeaddr" && r.Intn(2) == 0 {
				sc.Closes = append(sc.Closes, CloseEv{AtUs: r.Intn(span * 2), Kind: pick(r, "close", "closeaddr"), Store: r.Intn(sc.Stores)})
			}
		}
		for n := pick(r, 0, 0, 1, 1, 2, 3); n > 0; n-- {
			sc.Breaks = append(sc.Breaks, BreakEv{AtUs: r.Intn(span * 2), Store: r.Intn(sc.Stores), Conn: r.Intn(int(sc.Cfg.ConnCount)), FailCreates: pick(r, 0, 0, 1, 3)})
		}
	}
	sc.Tail = pick(r, 0, 1, 1, 2)
	return sc
}

func (sc *Scenario) storeAddr(i int) string { return fmt.Sprintf("store-%d.sim:20160", i) }
func (sc *Scenario) fwdAddr(k int) string {
	if k <= 0 {
		return ""
	}
	return fmt.Sprintf("fwd-%d.sim:20160", k-1)
}

func cloneScenario(sc *Scenario) *Scenario {
	c := *sc
	c.Callers = make([]Caller, len(sc.Callers))
	for i := range sc.Callers {
		c.Callers[i].Calls = append([]Call(nil), sc.Callers[i].Calls...)
	}
	c.Closes = append([]CloseEv(nil), sc.Closes...)
	c.Breaks = append([]BreakEv(nil), sc.Breaks...)
	return &c
}

// shrink proposes simpler scenarios. Request tags are "c<caller>.<k>" with the
// ORIGINAL indices kept in the Call (see Tag), so removing a call does not
// change the hashed fates of the others.
func shrink(sc *Scenario) []any {
	var out []any
	add := func(f func(c *Scenario) bool) {
		c := cloneScenario(sc)
		if f(c) {
			out = append(out, c)
		}
	}
	// drop whole callers (keep at least 1)
	for i := range sc.Callers {
		i := i
		if len(sc.Callers[i].Calls) == 0 {
			continue
		}
		add(func(c *Scenario) bool { c.Callers[i].Calls = nil; return true })
	}
	// drop single calls (from the end of each caller)
	for i := range sc.Callers {
		i := i
		if n := len(sc.Callers[i].Calls); n > 1 {
			add(func(c *Scenario) bool { c.Callers[i].Calls = c.Callers[i].Calls[:n-1]; return true })
		}
	}
	for i := range sc.Closes {
		i := i
		add(func(c *Scenario) bool { c.Closes = append(c.Closes[:i:i], c.Closes[i+1:]...); return true })
	}
	for i := range sc.Breaks {
		i := i
		add(func(c *Scenario) bool { c.Breaks = append(c.Breaks[:i:i], c.Breaks[i+1:]...); return true })
	}
	fields := []func(c *Scenario) *int{
		func(c *Scenario) *int { return &c.Net.Drop },
		func(c *Scenario) *int { return &c.Net.Dup },
		func(c *Scenario) *int { return &c.Net.Ghost },
		func(c *Scenario) *int { return &c.Net.RecvBreak },
		func(c *Scenario) *int { return &c.Net.ConnWide },
		func(c *Scenario) *int { return &c.Net.SendBreak },
		func(c *Scenario) *int { return &c.Net.AmbigSend },
		func(c *Scenario) *int { return &c.Net.Slow },
		func(c *Scenario) *int { return &c.Net.VerySlow },
		func(c *Scenario) *int { return &c.Net.Health },
		func(c *Scenario) *int { return &c.Net.Load },
		func(c *Scenario) *int { return &c.Net.QuantumUs },
		func(c *Scenario) *int { return &c.Net.FailCreate },
		func(c *Scenario) *int { return &c.Yield.Delay },
		func(c *Scenario) *int { return &c.Yield.Long },
		func(c *Scenario) *int { return &c.Yield.Stall },
		func(c *Scenario) *int { return &c.Tail },
	}
	for _, f := range fields {
		f := f
		add(func(c *Scenario) bool {
			p := f(c)
			if *p == 0 {
				return false
			}
			*p = 0
			return true
		})
	}
	// simplify single calls
	for i := range sc.Callers {
		for j := range sc.Callers[i].Calls {
			i, j := i, j
			call := sc.Callers[i].Calls[j]
			if call.CancelUs != 0 {
				add(func(c *Scenario) bool { c.Callers[i].Calls[j].CancelUs = 0; return true })
			}
			if call.Fwd != 0 {
				add(func(c *Scenario) bool { c.Callers[i].Calls[j].Fwd = 0; return true })
			}
			if call.Pri != 0 {
				add(func(c *Scenario) bool { c.Callers[i].Calls[j].Pri = 0; return true })
			}
			if call.Async && call.TimeoutMs != 0 {
				add(func(c *Scenario) bool { c.Callers[i].Calls[j].Async = false; return true })
			}
		}
	}
	if sc.Cfg.ConnCount > 1 {
		add(func(c *Scenario) bool {
			c.Cfg.ConnCount = 1
			for i := range c.Breaks {
				c.Breaks[i].Conn = 0
			}
			return true
		})
	}
	return out
}
