// Package batchsim is the simulation engine for property C18 (batched RPC
// multiplexing): the real RPCClient / batchConn / batchCommandsClient / priority
// queue of internal/client run over a simulated BatchCommands stream whose
// server, delays, reordering, breaks and re-creation failures are decided by the
// simulator from the seed. See CHECK.md.
package batchsim

import (
	"crypto/sha1"
	"encoding/hex"
	"encoding/json"
	"fmt"
	"math/rand"
	"os"
	"runtime"
	"sort"
	"strings"
	"sync"
	"sync/atomic"
	"testing"
	"time"

	"github.com/pingcap/kvproto/pkg/tikvpb"
	"github.com/pingcap/log"
	"github.com/tikv/client-go/v2/config"
	"github.com/tikv/client-go/v2/internal/client"
	"github.com/tikv/client-go/v2/verifsim/simkit"
	"go.uber.org/zap"
	"go.uber.org/zap/zapcore"
	"google.golang.org/grpc"
	"google.golang.org/grpc/credentials/insecure"
)

// Engine implements simkit.Engine.
type Engine struct{}

func (Engine) Name() string { return "batchsim" }

func (Engine) Generate(cfg simkit.RunConfig) (any, bool) {
	if !modes[cfg.Mode] {
		return nil, false
	}
	return generate(cfg), true
}

func (Engine) Decode(raw json.RawMessage) (any, error) {
	var sc Scenario
	if err := json.Unmarshal(raw, &sc); err != nil {
		return nil, err
	}
	return &sc, nil
}

func (Engine) Shrink(scenario any) []any { return shrink(scenario.(*Scenario)) }

// ---- hook detection --------------------------------------------------------------

var (
	probeOnce sync.Once
	hooked    bool
)

// probeHooks finds out whether the library was built with hooks.patch. It makes
// a lazy gRPC connection object (no network), closes it, installs a stream
// factory and asks the library for a stream on that connection: the patched
// library calls the factory, the unpatched one asks gRPC, which refuses at once
// because the connection is closed. It also checks that the yield hook is live.
func probeHooks() bool {
	probeOnce.Do(func() {
		cc, err := grpc.NewClient("passthrough:///batchsim-probe", grpc.WithTransportCredentials(insecure.NewCredentials()))
		if err != nil {
			return
		}
		_ = cc.Close()
		called := false
		newStreamHook = func(*grpc.ClientConn, string, string) (tikvpb.Tikv_BatchCommandsClient, error) {
			called = true
			return nil, fmt.Errorf("probe")
		}
		_ = client.VerifBatchsimRecreate(cc)
		newStreamHook = nil
		hooked = called
	})
	return hooked
}

// ---- process-global configuration (outside the bubble) ---------------------------

var restoreCfg func()

func (Engine) Prepare(cfg simkit.RunConfig, scenario any) {
	sc := scenario.(*Scenario)
	probeHooks()
	restoreCfg = config.UpdateGlobal(func(c *config.Config) {
		t := &c.TiKVClient
		t.MaxBatchSize = sc.Cfg.MaxBatchSize
		t.GrpcConnectionCount = sc.Cfg.ConnCount
		if sc.Cfg.ConcLimit > 0 {
			t.MaxConcurrencyRequestLimit = sc.Cfg.ConcLimit
		} else {
			t.MaxConcurrencyRequestLimit = config.DefMaxConcurrencyRequestLimit
		}
		t.BatchWaitSize = sc.Cfg.BatchWaitSize
		t.MaxBatchWaitTime = time.Duration(sc.Cfg.MaxBatchWaitU) * time.Microsecond
		t.OverloadThreshold = sc.Cfg.Overload
		t.BatchPolicy = sc.Cfg.Policy
	})
}

func (Engine) Cleanup(cfg simkit.RunConfig, scenario any) {
	if restoreCfg != nil {
		restoreCfg()
		restoreCfg = nil
	}
}

// ---- capture of the library's own panic reports ------------------------------------

// The send and receive loops of the batch client recover from panics, log them
// at error level and restart. The harness replaces the global logger by a core
// that keeps error-level entries so that such a panic is seen and reported.
type captureCore struct {
	mu      *sync.Mutex
	entries *[]string
	fields  []zapcore.Field
}

func (c captureCore) Enabled(l zapcore.Level) bool { return l >= zapcore.ErrorLevel }
func (c captureCore) With(fs []zapcore.Field) zapcore.Core {
	n := c
	n.fields = append(append([]zapcore.Field(nil), c.fields...), fs...)
	return n
}
func (c captureCore) Check(e zapcore.Entry, ce *zapcore.CheckedEntry) *zapcore.CheckedEntry {
	if c.Enabled(e.Level) {
		return ce.AddCore(e, c)
	}
	return ce
}
func (c captureCore) Write(e zapcore.Entry, fs []zapcore.Field) error {
	enc := zapcore.NewMapObjectEncoder()
	for _, f := range append(append([]zapcore.Field(nil), c.fields...), fs...) {
		f.AddTo(enc)
	}
	line := e.Message
	if r, ok := enc.Fields["r"]; ok {
		line += fmt.Sprintf(" r=%v", r)
	}
	if st, ok := enc.Fields["stack"]; ok {
		s := fmt.Sprint(st)
		if len(s) > 1200 {
			s = s[:1200] + "..."
		}
		line += "\n" + s
	}
	c.mu.Lock()
	*c.entries = append(*c.entries, line)
	c.mu.Unlock()
	return nil
}
func (c captureCore) Sync() error { return nil }

// ---- Execute -----------------------------------------------------------------------

var runSerial atomic.Int64

func (Engine) Execute(t *testing.T, cfg simkit.RunConfig, scenario any) *simkit.RunResult {
	sc := scenario.(*Scenario)
	res := &simkit.RunResult{Stats: map[string]int{}}
	if !probeHooks() {
		// the library was built without hooks.patch: the real batch path cannot be
		// run without a network. This is not a verdict about the property.
		res.Aborted = "hooks-missing"
		res.SchedHash = "hooks-missing"
		return res
	}
	rand.Seed(int64(cfg.Seed))
	var logMu sync.Mutex
	var errLogs []string
	if os.Getenv("VERIF_VERBOSE") == "" {
		lvl := zap.NewAtomicLevelAt(zapcore.ErrorLevel)
		log.ReplaceGlobals(zap.New(captureCore{mu: &logMu, entries: &errLogs}), &log.ZapProperties{Level: lvl})
	}
	sendPanics0 := atomic.LoadInt64(&client.BatchSendLoopPanicCounter)

	sim := simkit.New(cfg.Seed)
	sim.Limits = simkit.Limits{MaxEvents: 60000, MaxSimTime: 10 * time.Minute}
	w := newWorld(sc, sim)
	w.baseG = runtime.NumGoroutine()
	sim.OnAbort = func() {
		w.tracef("abort: %s", sim.Aborted)
		if os.Getenv("VERIF_DEBUG") != "" {
			buf := make([]byte, 1<<20)
			n := runtime.Stack(buf, true)
			fmt.Fprintf(os.Stderr, "ABORT %s\n%s\n", sim.Aborted, buf[:n])
		}
		w.rootCancel()
		w.releaseAll()
	}
	yieldHook = w.yield
	dialHook = w.dial
	waitReadyHook = w.waitReady
	newStreamHook = w.newStream
	defer func() {
		yieldHook, dialHook, waitReadyHook, newStreamHook = nil, nil, nil, nil
	}()

	aborted := sim.Run(w.main)
	res.Aborted = aborted
	res.SimTime = sim.Now()
	res.Events = sim.Events
	for k, v := range sim.Stats() {
		res.Stats[k] = v
	}
	res.Stats["health-feedback.delivered"] = int(w.feedbacks.Load())

	logMu.Lock()
	panics := append([]string(nil), errLogs...)
	logMu.Unlock()
	sendPanics := int(atomic.LoadInt64(&client.BatchSendLoopPanicCounter) - sendPanics0)
	w.judge(res, panics, sendPanics)

	res.Violations = append(res.Violations, w.viols...)
	res.Trace = w.canonicalTrace()
	h := sha1.Sum([]byte(strings.Join(res.Trace, "\n")))
	res.SchedHash = hex.EncodeToString(h[:8])
	faults := 0
	for k, v := range res.Stats {
		if strings.HasPrefix(k, "fault.") {
			faults += v
		}
	}
	res.Nontrivial = res.Stats["calls.ok"] > 0 && (faults > 0 || res.Stats["send.multi-request-batch"] > 0)
	res.Sample = map[string]any{
		"callers": len(sc.Callers), "calls": res.Stats["calls.total"], "ok": res.Stats["calls.ok"],
		"faults": faults, "sim_ms": int64(res.SimTime / time.Millisecond), "events": res.Events, "cfg": sc.Cfg,
	}
	if len(res.Violations) > 0 || os.Getenv("VERIF_DUMP") != "" {
		res.Log = w.fullLog()
	}
	return res
}

// canonicalTrace: the event log of the run. Lines carry the simulated instant;
// lines of the same instant are ordered by text so that the order in which the
// runtime happened to run goroutines woken by one event does not matter.
func (w *world) canonicalTrace() []string {
	w.traceMu.Lock()
	lines := append([]string(nil), w.trace...)
	w.traceMu.Unlock()
	sort.SliceStable(lines, func(i, j int) bool {
		a, b := lines[i][:12], lines[j][:12]
		if a != b {
			return false // keep emission order across instants (already ascending)
		}
		return lines[i] < lines[j]
	})
	return lines
}

func (w *world) fullLog() []string {
	out := []string{}
	b, _ := json.Marshal(w.sc.Cfg)
	out = append(out, "config "+string(b))
	out = append(out, w.canonicalTrace()...)
	out = append(out, "--- calls ---")
	w.mu.Lock()
	calls := append([]*callRec(nil), w.calls...)
	w.mu.Unlock()
	sort.Slice(calls, func(i, j int) bool { return calls[i].Tag < calls[j].Tag })
	for _, c := range calls {
		out = append(out, c.describe())
	}
	return out
}

func (c *callRec) describe() string {
	c.mu.Lock()
	defer c.mu.Unlock()
	s := fmt.Sprintf("%s store=%s fwd=%q pri=%d async=%v kind=%s timeout=%dms cancel=%dus bound=%v: ", c.Tag, c.Addr, c.Fwd, c.Spec.Pri, c.Spec.Async, c.Spec.Kind, c.Spec.TimeoutMs, c.Spec.CancelUs, c.bound)
	if !c.invoked {
		return s + "not invoked"
	}
	s += fmt.Sprintf("invoked@%v(#%d) ", c.InvAt, c.InvStamp)
	if c.returns == 0 {
		s += "NEVER RETURNED"
	} else {
		s += fmt.Sprintf("returned@%v(#%d) after %v x%d class=%s", c.RetAt, c.RetStamp, c.RetAt-c.InvAt, c.returns, c.Class)
		if c.Err != nil {
			s += fmt.Sprintf(" err=%q", firstLine(c.Err.Error()))
		} else {
			s += fmt.Sprintf(" value=%q", c.Val)
		}
	}
	s += fmt.Sprintf(" [server: id=%d streams=%v answered=%v dropped=%v cancelAt=%v forcedAt=%v]", c.sentID, c.sentOn, c.answered, c.dropped, c.cancelAt, c.forcedAt)
	return s
}

func firstLine(s string) string {
	if i := strings.IndexByte(s, '\n'); i >= 0 {
		s = s[:i]
	}
	if len(s) > 200 {
		s = s[:200] + "..."
	}
	return s
}

// ---- the oracle -----------------------------------------------------------------------

func (w *world) judge(res *simkit.RunResult, panics []string, sendPanics int) {
	sc := w.sc
	w.mu.Lock()
	calls := append([]*callRec(nil), w.calls...)
	w.mu.Unlock()
	sort.Slice(calls, func(i, j int) bool { return calls[i].Tag < calls[j].Tag })
	stuck := map[*callRec]bool{}
	for _, c := range w.stuck {
		stuck[c] = true
	}
	budget := res.Aborted != ""

	for _, c := range calls {
		c.mu.Lock()
		invoked, returns, class := c.invoked, c.returns, c.Class
		c.mu.Unlock()
		if !invoked {
			continue
		}
		res.Stats["calls.total"]++
		if c.Spec.Async {
			res.Stats["calls.async"]++
		}
		if c.Fwd != "" {
			res.Stats["calls.forwarded"]++
		}
		if c.Spec.Pri >= 10 {
			res.Stats["calls.high-priority"]++
		}
		if c.panicMsg != "" {
			w.violate("panic", "caller", fmt.Sprintf("call %s panicked inside the client: %s\n%s", c.Tag, firstLine(c.panicMsg), c.describe()))
			continue
		}
		// (1) exactly once
		if returns > 1 {
			w.violate("returned-twice", kindOf(c), fmt.Sprintf("the callback of %s ran %d times\n%s", c.Tag, returns, c.describe()))
		}
		if stuck[c] || returns == 0 {
			res.Stats["calls.stuck-at-horizon"]++
			if budget {
				continue
			}
			// a call without any deadline that had not returned when the run was
			// given up. It is the library's fault only if the library had what it
			// needs to complete it.
			why := c.stuckWhy
			if why == "" {
				res.Stats["calls.stuck-excused"]++
				continue
			}
			sig := why[:strings.IndexByte(why, ':')]
			w.violate("call-never-returns", sig+"/"+kindOf(c), fmt.Sprintf("%s has no deadline and never completed within %v of simulated time although it had to (%s)\n%s", c.Tag, horizon, why, c.describe()))
			continue
		}
		res.Stats["calls."+strings.SplitN(class, ":", 2)[0]]++
		if c.Err != nil {
			msg := c.Err.Error()
			for _, probe := range []string{"wait sendLoop", "wait recvLoop timeout", "no available connections", "batchConn closed", "batch client closed", "rpcClient is closed", "rpcClient is idle", "cannot create stream", "stream broken", "connection broken"} {
				if strings.Contains(msg, probe) {
					res.Stats["reach.err."+strings.ReplaceAll(probe, " ", "-")]++
				}
			}
			if c.sentID == 0 {
				res.Stats["reach.failed-before-send"]++
			}
		}

		// (2) own response
		want := echoValue(c.wireTag(), c.Addr, c.Fwd)
		if class == "ok" && c.Val != want {
			sig := "garbage"
			if i := strings.IndexByte(c.Val, '|'); i > 0 {
				if c.Val[:i] != c.wireTag() {
					sig = "other-call"
				} else {
					sig = "wrong-route"
				}
			}
			w.violate("wrong-response", sig+"/"+kindOf(c), fmt.Sprintf("%s returned without error but with %q instead of its own %q\n%s", c.Tag, c.Val, want, c.describe()))
		}
		// (3) error class
		if strings.HasPrefix(class, "unexpected:") {
			w.violate("unexpected-error-class", sigOfError(class), fmt.Sprintf("%s failed with an error that is none of time-out / cancellation / connection failure / client closed: %v\n%s", c.Tag, c.Err, c.describe()))
		}
		if budget {
			continue
		}
		if class == "canceled" && c.cancelAt == 0 && c.forcedAt == 0 && (w.rootCancelAt == 0 || c.RetAt < w.rootCancelAt) {
			w.violate("spurious-error", "canceled/"+kindOf(c), fmt.Sprintf("%s failed with context.Canceled although nobody cancelled its context\n%s", c.Tag, c.describe()))
		}
		// (not judged once a pool may have been recycled as idle: the library then
		// closes it on its own, and the harness learns about it a moment later)
		if class == "closed" && (w.firstCloseAt == 0 || c.RetAt < w.firstCloseAt) && c.RetAt < 170*time.Second {
			w.violate("spurious-error", "closed/"+kindOf(c), fmt.Sprintf("%s failed with a 'closed' error although nothing had been closed yet\n%s", c.Tag, c.describe()))
		}
		// (4) not blocked beyond the time-out
		if c.bound > 0 {
			if lat := c.RetAt - c.InvAt; lat > c.bound+slack || c.forcedAt != 0 {
				w.violate("blocked-beyond-timeout", kindOf(c), fmt.Sprintf("%s was still blocked %v after its time-out / cancellation (bound %v, returned after %v)\n%s", c.Tag, slack, c.bound, lat, c.describe()))
			}
		}
		// (5) not blocked after Close
		if w.closedByScenario && !c.Spec.Async && c.InvAt < w.closeStart && c.RetAt > w.closeEnd+slack {
			w.violate("blocked-after-close", kindOf(c), fmt.Sprintf("%s was invoked before Close (at %v..%v) and still blocked %v after Close had returned\n%s", c.Tag, w.closeStart, w.closeEnd, slack, c.describe()))
		}
		// (6) liveness sanity of the healthy tail
		// ("rpcClient is idle" is excused: a pool unused for 3 minutes is recycled
		// by design and the first call that meets it is refused)
		if c.Tail && class != "ok" && class != "idle" && sc.Cfg.ConcLimit == 0 && (!w.clientClosed.Load() || w.closeStart > c.RetAt) {
			w.violate("healthy-call-failed", strings.SplitN(class, ":", 2)[0]+"/"+kindOf(c), fmt.Sprintf("%s was issued %v after the last fault, with a healthy server and a %dms time-out, and failed: %v\n%s", c.Tag, quiesce, c.Spec.TimeoutMs, c.Err, c.describe()))
		}
	}
	// (9) mode spin only: the busy spin of the send loop (beyond the property sentence)
	if sc.Mode == "spin" && w.spinSeen {
		w.violate("send-loop-busy-spin", "no-send", fmt.Sprintf("at %v the send loop of a batch connection iterated %d times in a row without blocking and without sending anything (it would burn a CPU and flood the log until the queued entries are cancelled); see the log for what preceded it", w.spinFirstAt, spinLimit))
	}
	// (7) panics inside the library's loops
	for _, p := range panics {
		w.violate("panic-in-batch-loop", panicSig(p), "the batch client recovered from a panic and restarted a loop: "+p)
	}
	if sendPanics > 0 && len(panics) == 0 {
		w.violate("panic-in-batch-loop", "send-loop", fmt.Sprintf("BatchSendLoopPanicCounter grew by %d", sendPanics))
	}
	// (8) everything ended
	if w.leak > 0 && !budget {
		if w.leakStacks == "" {
			// more goroutines than at the start, but none of them in the client or
			// the harness (runtime helpers come and go): not attributed
			res.Stats["probe.unattributed-goroutines"] += w.leak
		} else {
			w.violate("goroutine-leak", leakSig(w.leakStacks), fmt.Sprintf("%d goroutine(s) still alive 4 simulated seconds after the client was closed and every call had returned:\n%s", w.leak, w.leakStacks))
		}
	}
}

func kindOf(c *callRec) string {
	if c.Spec.Async {
		return "async"
	}
	return "sync"
}

func sigOfError(class string) string {
	s := strings.TrimPrefix(class, "unexpected:")
	s = firstLine(s)
	if len(s) > 60 {
		s = s[:60]
	}
	return s
}

func panicSig(p string) string {
	l := firstLine(p)
	switch {
	case strings.Contains(p, "send on closed channel"):
		return "send-on-closed-channel"
	case strings.Contains(p, "close of closed channel"):
		return "close-of-closed-channel"
	case strings.Contains(p, "nil pointer"):
		return "nil-pointer"
	}
	if len(l) > 60 {
		l = l[:60]
	}
	return l
}

func leakSig(stacks string) string {
	for _, fn := range []string{"batchRecvLoop", "batchSendLoop", "sendBatchRequest", "recreateStreamingClient", "CheckStreamTimeoutLoop", "connMonitor", "runCaller"} {
		if strings.Contains(stacks, fn) {
			return fn
		}
	}
	return "other"
}
