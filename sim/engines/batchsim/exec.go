package batchsim

import (
	"context"
	"fmt"
	"io"
	"runtime"
	"sort"
	"strings"
	"sync"
	"sync/atomic"
	"time"

	"github.com/pingcap/kvproto/pkg/kvrpcpb"
	"github.com/pkg/errors"
	"github.com/tikv/client-go/v2/internal/client"
	"github.com/tikv/client-go/v2/tikvrpc"
	"github.com/tikv/client-go/v2/util/async"
	"github.com/tikv/client-go/v2/verifsim/simkit"
	"google.golang.org/grpc"
	"google.golang.org/grpc/codes"
	"google.golang.org/grpc/status"
)

const (
	propID = "C18"
	// slack is the simulated time a call may need, beyond its time-out or its
	// cancellation instant, to notice and return: the two yield points on the
	// caller's own path are delayed by at most 300 us each; everything else on
	// that path costs no simulated time at all. 50 ms is far above that and far
	// below every time-out the generator uses beyond the short ones.
	slack = 50 * time.Millisecond
	// quiesce is the healthy pause before the tail calls: longer than the
	// largest back-off step of the stream re-creation loop (read from the retry
	// configuration would be better; BoTiKVRPC caps at 2 s) plus margin.
	quiesce = 6 * time.Second
	// horizon bounds the wait for calls that have no deadline of their own.
	horizon = 20 * time.Second
)

type callRec struct {
	Tag    string
	Caller int
	K      int
	Spec   Call
	Tail   bool
	Addr   string
	Fwd    string

	bound time.Duration // 0: no deadline

	mu           sync.Mutex
	invoked      bool
	InvAt, RetAt time.Duration
	InvStamp     uint64
	RetStamp     uint64
	returns      int
	Val          string
	Err          error
	Class        string
	cancelAt     time.Duration // when the harness cancelled the context (0: never)
	forcedAt     time.Duration // when the watchdog of the harness gave up on it
	panicMsg     string

	// server side knowledge (under world.mu)
	sentOn   []string
	sentID   uint64
	dropped  bool
	answered bool
	stuckWhy string

	cancel context.CancelFunc
}

func (c *callRec) done() bool {
	c.mu.Lock()
	defer c.mu.Unlock()
	return c.returns > 0
}

type world struct {
	sc    *Scenario
	sim   *simkit.Sim
	fates *simkit.Hasher
	ties  *simkit.Hasher

	mu            sync.Mutex
	conns         map[*grpc.ClientConn]*simConn
	connList      []*simConn
	dials         map[string]int
	storeOf       map[string]int
	calls         []*callRec
	callByTag     map[string]*callRec
	healthy       bool
	anyConnClosed bool
	feedbackSeq   uint64
	yocc          map[string]int
	actors        map[uint64]string
	unknownActors int
	parked        map[uint64]chan struct{}
	nextPark      uint64

	passthrough atomic.Bool
	passCount   atomic.Int64
	wg          sync.WaitGroup // connection watchers

	traceMu sync.Mutex
	trace   []string

	violMu sync.Mutex
	viols  []simkit.Violation

	cli          *client.RPCClient
	col          client.Client // the collapsing wrapper in front of cli
	rootCtx      context.Context
	rootCancel   context.CancelFunc
	clientClosed atomic.Bool
	closeStart   time.Duration
	closeEnd     time.Duration
	feedbacks    atomic.Int64
	leak         int
	leakStacks   string
	baseG        int

	spinAt, spinDelay, spinForced, spinFirstAt time.Duration
	spinCount, spinSends, totalSends           int
	spinSeen                                   bool

	closedByScenario bool
	closeAddrs       []closeAddrRec
	stuck            []*callRec
	rootCancelAt     time.Duration
	firstCloseAt     time.Duration
	quiet            chan struct{} // closed when the fault phase is over
}

// noteClose records the first instant at which anything was closed.
func (w *world) noteClose() {
	now := w.sim.Now()
	if now == 0 {
		now = 1
	}
	w.mu.Lock()
	if w.firstCloseAt == 0 || now < w.firstCloseAt {
		w.firstCloseAt = now
	}
	w.mu.Unlock()
}

func newWorld(sc *Scenario, sim *simkit.Sim) *world {
	w := &world{
		sc: sc, sim: sim,
		fates:     simkit.NewHasher(sc.HashSalt, "fate"),
		ties:      simkit.NewHasher(sc.HashSalt, "tie"),
		conns:     map[*grpc.ClientConn]*simConn{},
		dials:     map[string]int{},
		storeOf:   map[string]int{},
		callByTag: map[string]*callRec{},
		yocc:      map[string]int{},
		actors:    map[uint64]string{},
		parked:    map[uint64]chan struct{}{},
	}
	for i := 0; i < sc.Stores; i++ {
		w.storeOf[sc.storeAddr(i)] = i
	}
	w.rootCtx, w.rootCancel = context.WithCancel(context.Background())
	w.quiet = make(chan struct{})
	return w
}

func (w *world) tie(key string) uint64 { return w.ties.U64(key) }

func (w *world) tracef(format string, args ...any) {
	line := fmt.Sprintf("%12d ", int64(w.sim.Now())) + fmt.Sprintf(format, args...)
	w.traceMu.Lock()
	w.trace = append(w.trace, line)
	w.traceMu.Unlock()
}

func (w *world) violate(class, sig, detail string) {
	w.violMu.Lock()
	defer w.violMu.Unlock()
	for _, v := range w.viols {
		if v.Class == class && v.Sig == sig {
			return
		}
	}
	w.viols = append(w.viols, simkit.Violation{Property: propID, Class: class, Sig: sig, Detail: detail})
}

// ---- yield points ------------------------------------------------------------

func (w *world) yield(site string) {
	if w.passthrough.Load() {
		// the run is being torn down (or was aborted): nobody schedules any more.
		// A loop of the library that keeps coming here without ever blocking must
		// still not spin in real time: every pass costs simulated time, and after
		// passLimit passes the goroutine is parked for good (the run then ends as
		// an aborted "bubble-leak" run instead of hanging the process).
		if n := w.passCount.Add(1); n > passLimit {
			w.sim.Count("abort.yield-storm-after-teardown")
			select {}
		}
		time.Sleep(200 * time.Microsecond)
		return
	}
	w.mu.Lock()
	// decisions are keyed by (site, actor, n-th time this actor is here) so that
	// they do not depend on the order in which different loops reach the site
	actor := w.actorLocked(curGID(), site)
	ak := site + "@" + actor
	occ := w.yocc[ak]
	w.yocc[ak] = occ + 1
	key := fmt.Sprintf("%s#%d", ak, occ)
	d := w.yieldDelay(site, key)
	if w.healthy {
		d = 0
	}
	if site == "batch.send.head" {
		d = w.spinGuardLocked(d)
	}
	ch := make(chan struct{})
	w.nextPark++
	id := w.nextPark
	w.parked[id] = ch
	w.mu.Unlock()
	w.sim.Count("yield." + site)
	tie := w.tie("y:" + key)
	if site == "batch.failPending" {
		// the library walks a sync.Map here, in an order that differs from
		// process to process: keep the walk contiguous and free of simulated
		// time so that the outcome does not depend on that order
		tie = w.tie("y:" + site)
	}
	w.sim.Submit("y:"+key, d, tie, func() { w.release(id) })
	<-ch
}

// spinGuardLocked handles a send loop that iterates without ever blocking (see
// CHECK.md, "busy spin of the send loop"): such a loop would keep the simulated
// clock from advancing at all. After spinLimit iterations at one instant the
// guard makes each further iteration cost simulated time (1 ms, doubling up to
// 50 ms) until the loop blocks again or sends something.
func (w *world) spinGuardLocked(d time.Duration) time.Duration {
	now := w.sim.Now()
	// "without blocking": the previous iteration was released at spinAt+spinDelay
	// and the only other simulated time an iteration can cost by itself is the
	// short delay of the yield point batch.send.fetched (at most 3.001 ms)
	if gap := now - (w.spinAt + w.spinDelay); gap <= 3001*time.Microsecond && w.spinSends == w.totalSends && w.spinAt != 0 {
		w.spinCount++
	} else {
		w.spinCount, w.spinDelay = 0, 0
	}
	w.spinAt, w.spinSends = now, w.totalSends
	if w.spinCount >= spinLimit {
		if w.spinCount == spinLimit {
			w.sim.Count("probe.send-loop-busy-spin")
			w.spinSeen = true
			w.spinFirstAt = now
			w.tracef("send loop iterated %d times in a row without blocking and without sending: busy spin", spinLimit)
		}
		switch {
		case w.spinForced == 0:
			w.spinForced = time.Millisecond
		case w.spinForced < 50*time.Millisecond:
			w.spinForced *= 2
		}
		w.sim.Count("probe.send-loop-spin-iterations")
		if d < w.spinForced {
			d = w.spinForced
		}
	} else {
		w.spinForced = 0
	}
	w.spinDelay = d
	return d
}

const spinLimit = 200
const passLimit = 20000

// curGID returns the id of the calling goroutine (parsed from its stack header).
func curGID() uint64 {
	var buf [64]byte
	n := runtime.Stack(buf[:], false)
	// "goroutine 123 ["
	var id uint64
	for _, ch := range buf[len("goroutine "):n] {
		if ch < '0' || ch > '9' {
			break
		}
		id = id*10 + uint64(ch-'0')
	}
	return id
}

// nameActor gives the calling goroutine a stable name.
func (w *world) nameActor(name string) {
	gid := curGID()
	w.mu.Lock()
	w.actors[gid] = name
	w.mu.Unlock()
}

func (w *world) actorLocked(gid uint64, site string) string {
	if a, ok := w.actors[gid]; ok {
		return a
	}
	// a send loop before its first Send: numbered by first appearance
	w.unknownActors++
	a := fmt.Sprintf("loop%d", w.unknownActors)
	w.actors[gid] = a
	return a
}

func (w *world) release(id uint64) {
	w.mu.Lock()
	ch := w.parked[id]
	delete(w.parked, id)
	w.mu.Unlock()
	if ch != nil {
		close(ch)
	}
}

func (w *world) releaseAll() {
	w.passthrough.Store(true)
	w.releaseParked()
}

// releaseParked lets every goroutine parked at a yield point continue now.
func (w *world) releaseParked() {
	w.mu.Lock()
	ids := make([]uint64, 0, len(w.parked))
	for id := range w.parked {
		ids = append(ids, id)
	}
	w.mu.Unlock()
	sort.Slice(ids, func(i, j int) bool { return ids[i] < ids[j] })
	for _, id := range ids {
		w.release(id)
	}
}

func (w *world) yieldDelay(site, key string) time.Duration {
	y := w.sc.Yield
	h := w.fates.Intn("yd:"+key, 1000)
	var d time.Duration
	switch site {
	case "batch.call.enqueued", "batch.async.enqueue":
		if h < y.Delay {
			d = time.Duration(1+w.fates.Intn("ydd:"+key, 300)) * time.Microsecond
		}
	case "batch.send.head", "batch.send.fetched":
		if h < y.Stall {
			d = time.Duration(20+w.fates.Intn("ydd:"+key, 1480)) * time.Millisecond
			w.sim.Count("fault.send-loop-stall")
		} else if h < y.Stall+y.Delay {
			d = time.Duration(1+w.fates.Intn("ydd:"+key, 3000)) * time.Microsecond
		}
	case "batch.failPending":
	default:
		if h < y.Long {
			d = time.Duration(5+w.fates.Intn("ydd:"+key, 295)) * time.Millisecond
			w.sim.Count("fault.recv-loop-stall")
		} else if h < y.Long+y.Delay {
			d = time.Duration(1+w.fates.Intn("ydd:"+key, 3000)) * time.Microsecond
		}
	}
	if d > 0 {
		d += time.Duration(w.fates.Intn("ydn:"+key, 991)) * time.Nanosecond
	}
	return d
}

// ---- health feedback listener --------------------------------------------------

type listener struct{ w *world }

func (l listener) OnHealthFeedback(f *kvrpcpb.HealthFeedback) { l.w.feedbacks.Add(1) }

// ---- callers -------------------------------------------------------------------

// exec is the async.Executor the asynchronous calls use: callbacks are queued
// and run by the calling goroutine, as with async.RunLoop.
type exec struct{ ch chan func() }

func (e *exec) Go(f func()) { go f() }
func (e *exec) Append(fs ...func()) {
	for _, f := range fs {
		e.ch <- f
	}
}

func (w *world) newCall(caller, k int, spec Call, tail bool) *callRec {
	tag := fmt.Sprintf("c%d.%d", caller, k)
	if tail {
		tag = fmt.Sprintf("t%d.%d", caller, k)
	}
	c := &callRec{Tag: tag, Caller: caller, K: k, Spec: spec, Tail: tail,
		Addr: w.sc.storeAddr(spec.Store), Fwd: w.sc.fwdAddr(spec.Fwd)}
	w.mu.Lock()
	w.calls = append(w.calls, c)
	w.callByTag[tag] = c
	w.mu.Unlock()
	return c
}

func buildRequest(c *callRec) *tikvrpc.Request {
	kctx := kvrpcpb.Context{ResourceControlContext: &kvrpcpb.ResourceControlContext{OverridePriority: c.Spec.Pri}}
	var req *tikvrpc.Request
	switch c.Spec.Kind {
	case "batchget":
		req = tikvrpc.NewRequest(tikvrpc.CmdBatchGet, &kvrpcpb.BatchGetRequest{Keys: [][]byte{[]byte(c.Tag)}, Version: 1}, kctx)
	case "rawget":
		req = tikvrpc.NewRequest(tikvrpc.CmdRawGet, &kvrpcpb.RawGetRequest{Key: []byte(c.Tag)}, kctx)
	case "resolve":
		// region-wide (no keys, no transaction list): the form client_collapse.go merges
		kctx.RegionId = uint64(100 + c.Spec.Store)
		req = tikvrpc.NewRequest(tikvrpc.CmdResolveLock, &kvrpcpb.ResolveLockRequest{StartVersion: uint64(1000 + c.Spec.Grp)}, kctx)
	default:
		req = tikvrpc.NewRequest(tikvrpc.CmdGet, &kvrpcpb.GetRequest{Key: []byte(c.Tag), Version: 1}, kctx)
	}
	req.ForwardedHost = c.Fwd
	return req
}

// wireTag is the payload tag the server sees for the call: its own tag, or - for the collapsible ResolveLock - the name
// of (region, transaction), which every call of that group shares.
func (c *callRec) wireTag() string {
	if c.Spec.Kind == "resolve" {
		return resolveTag(uint64(100+c.Spec.Store), uint64(1000+c.Spec.Grp))
	}
	return c.Tag
}

func resolveTag(region, startVersion uint64) string {
	return fmt.Sprintf("R%d.%d", region, startVersion)
}

func responseValue(resp *tikvrpc.Response) (string, bool) {
	if resp == nil || resp.Resp == nil {
		return "", false
	}
	switch r := resp.Resp.(type) {
	case *kvrpcpb.GetResponse:
		return string(r.GetValue()), true
	case *kvrpcpb.RawGetResponse:
		return string(r.GetValue()), true
	case *kvrpcpb.ResolveLockResponse:
		return r.GetError().GetAbort(), true
	case *kvrpcpb.BatchGetResponse:
		if len(r.GetPairs()) == 1 {
			return string(r.Pairs[0].GetValue()), true
		}
		return fmt.Sprintf("<%d pairs>", len(r.GetPairs())), true
	}
	return fmt.Sprintf("<%T>", resp.Resp), true
}

func (w *world) recordReturn(c *callRec, resp *tikvrpc.Response, err error) {
	now := w.sim.Now()
	st := w.sim.Stamp()
	c.mu.Lock()
	c.returns++
	if c.returns == 1 {
		c.RetAt, c.RetStamp, c.Err = now, st, err
		if err == nil {
			v, ok := responseValue(resp)
			if !ok {
				v = "<nil response>"
			}
			c.Val = v
			c.Class = "ok"
		} else {
			c.Class = classify(err)
		}
	}
	c.mu.Unlock()
}

// runCall performs one call on the calling goroutine.
func (w *world) runCall(c *callRec, ex *exec) {
	spec := c.Spec
	ctx, cancel := context.WithCancel(w.rootCtx)
	defer cancel()
	timeout := time.Duration(spec.TimeoutMs)*time.Millisecond + time.Duration(w.fates.Intn("ton:"+c.Tag, 983))*time.Nanosecond
	if spec.TimeoutMs == 0 {
		timeout = 0
	}
	c.bound = timeout
	if spec.Async && timeout > 0 {
		var cancel2 context.CancelFunc
		ctx, cancel2 = context.WithTimeout(ctx, timeout)
		defer cancel2()
	} else if spec.CtxExtraMs > 0 && timeout > 0 {
		var cancel2 context.CancelFunc
		ctx, cancel2 = context.WithTimeout(ctx, timeout+time.Duration(spec.CtxExtraMs)*time.Millisecond)
		defer cancel2()
	}
	c.cancel = cancel
	if spec.CancelUs > 0 {
		d := time.Duration(spec.CancelUs)*time.Microsecond + time.Duration(w.fates.Intn("cn:"+c.Tag, 977))*time.Nanosecond
		if c.bound == 0 || d < c.bound {
			c.bound = d
		}
		w.sim.Submit("cancel:"+c.Tag, d, w.tie("cancel:"+c.Tag), func() {
			if c.done() {
				return
			}
			c.mu.Lock()
			c.cancelAt = w.sim.Now()
			c.mu.Unlock()
			w.sim.Count("fault.cancel-in-flight")
			w.tracef("cancel %s", c.Tag)
			cancel()
		})
	}
	if c.bound > 0 {
		w.sim.Submit("watch:"+c.Tag, c.bound+slack, w.tie("watch:"+c.Tag), func() {
			if c.done() {
				return
			}
			c.mu.Lock()
			c.forcedAt = w.sim.Now()
			c.mu.Unlock()
			w.tracef("watchdog: %s still blocked", c.Tag)
			cancel()
		})
	}
	req := buildRequest(c)
	if spec.Kind == "resolve" {
		w.sim.Count("reach.resolve-calls")
	}
	w.nameActor("call:" + c.Tag)
	c.mu.Lock()
	c.invoked = true
	c.InvAt = w.sim.Now()
	c.InvStamp = w.sim.Stamp()
	c.mu.Unlock()
	w.tracef("invoke %s async=%v pri=%d fwd=%q timeout=%v", c.Tag, spec.Async, spec.Pri, c.Fwd, timeout)

	defer func() {
		if r := recover(); r != nil {
			buf := make([]byte, 1<<14)
			n := runtime.Stack(buf, false)
			c.mu.Lock()
			c.panicMsg = fmt.Sprintf("%v\n%s", r, buf[:n])
			c.mu.Unlock()
		}
	}()
	if !spec.Async {
		to := timeout
		resp, err := w.front(c).SendRequest(ctx, c.Addr, req, to)
		w.recordReturn(c, resp, err)
		w.tracef("return %s %s", c.Tag, c.Class)
		return
	}
	cb := async.NewCallback(ex, func(resp *tikvrpc.Response, err error) {
		w.recordReturn(c, resp, err)
		w.tracef("callback %s %s", c.Tag, c.Class)
	})
	w.front(c).SendRequestAsync(ctx, c.Addr, req, cb)
	for !c.done() {
		select {
		case f := <-ex.ch:
			f()
		case <-w.rootCtx.Done():
			// the run is over; give a callback triggered by this very
			// cancellation the chance to arrive
			select {
			case f := <-ex.ch:
				f()
			case <-time.After(time.Second):
			}
			return
		}
	}
}

func (w *world) runCaller(i int, calls []Call, tail bool, wg *sync.WaitGroup) {
	defer wg.Done()
	ex := &exec{ch: make(chan func(), 256)}
	for k, spec := range calls {
		c := w.newCall(i, k, spec, tail)
		think := time.Duration(spec.ThinkUs)*time.Microsecond + time.Duration(1+w.fates.Intn("think:"+c.Tag, 9973))*time.Nanosecond
		select {
		case <-time.After(think):
		case <-w.rootCtx.Done():
			return
		}
		closedBefore := w.clientClosed.Load()
		w.runCall(c, ex)
		if closedBefore && !tail {
			break // one call after Close is enough ("rpcClient is closed")
		}
	}
	// late callbacks of earlier calls (a second invocation would be a bug)
	for {
		select {
		case f := <-ex.ch:
			f()
			continue
		default:
		}
		break
	}
}

// ---- the run -------------------------------------------------------------------

func waitTimeout(wg *sync.WaitGroup, d time.Duration) bool {
	done := make(chan struct{})
	go func() { wg.Wait(); close(done) }()
	select {
	case <-done:
		return true
	case <-time.After(d):
		return false
	}
}

func (w *world) findConn(store, idx int) *simConn {
	w.mu.Lock()
	defer w.mu.Unlock()
	var best *simConn
	for _, c := range w.connList {
		if c.store == store && c.idx == idx && !c.closed {
			if best == nil || c.gen > best.gen {
				best = c
			}
		}
	}
	return best
}

// front is the client a call goes through: the collapsing wrapper (what tikv.NewKVStore puts in front of the RPC
// client) for ResolveLock, the RPC client itself otherwise.
func (w *world) front(c *callRec) client.Client {
	if c.Spec.Kind == "resolve" {
		return w.col
	}
	return w.cli
}

func (w *world) main() {
	sc := w.sc
	w.cli = client.NewRPCClient()
	w.col = client.NewReqCollapse(w.cli)
	if sc.Listener {
		w.cli.SetEventListener(listener{w})
	}
	var bg sync.WaitGroup
	// time-based faults
	for i, b := range sc.Breaks {
		b := b
		w.sim.Submit(fmt.Sprintf("conn-break#%d", i), time.Duration(b.AtUs)*time.Microsecond+time.Duration(313+i)*time.Nanosecond, w.tie(fmt.Sprintf("brk%d", i)), func() {
			c := w.findConn(b.Store, b.Conn)
			if c == nil {
				w.sim.Count("fault.conn-break-no-conn")
				return
			}
			w.mu.Lock()
			if w.healthy {
				w.mu.Unlock()
				return
			}
			n := 0
			for _, s := range c.streams {
				if s.dead == nil {
					n++
				}
				s.killLocked(streamBroken("connection broken (timed)"), false)
			}
			c.breaks++
			c.downFor(w, b.FailCreates, fmt.Sprintf("timed:%s#%d", c.uid, c.breaks))
			w.tracef("timed break %s streams=%d", c.uid, n)
			w.mu.Unlock()
			if n > 0 {
				w.sim.Count("fault.conn-break")
			}
		})
	}
	for i, ev := range sc.Closes {
		i, ev := i, ev
		bg.Add(1)
		go func() {
			defer bg.Done()
			select {
			case <-time.After(time.Duration(ev.AtUs)*time.Microsecond + time.Duration(701+i)*time.Nanosecond):
			case <-w.rootCtx.Done():
				return
			case <-w.quiet:
				return
			}
			if ev.Kind == "close" {
				w.closeClient("scenario")
			} else {
				w.tracef("closeaddr %s", sc.storeAddr(ev.Store))
				w.sim.Count("fault.closeaddr")
				w.noteClose()
				w.mu.Lock()
				w.closeAddrs = append(w.closeAddrs, closeAddrRec{ev.Store, w.sim.Now()})
				w.mu.Unlock()
				_ = w.cli.CloseAddr(sc.storeAddr(ev.Store))
			}
		}()
	}

	var callers sync.WaitGroup
	for i, c := range sc.Callers {
		if len(c.Calls) == 0 {
			continue
		}
		callers.Add(1)
		go w.runCaller(i, c.Calls, false, &callers)
	}
	if !waitTimeout(&callers, w.callersBudget()+horizon) {
		w.sim.Count("run.horizon-reached")
		w.tracef("horizon reached")
		w.judgeStuck()
		w.rootCancelAt = w.sim.Now()
		w.rootCancel()
		w.releaseAll()
		callers.Wait()
	}

	// healthy tail
	if sc.Tail > 0 && !w.clientClosed.Load() && w.sim.Aborted == "" && w.rootCtx.Err() == nil {
		w.mu.Lock()
		w.healthy = true
		w.mu.Unlock()
		close(w.quiet)
		w.releaseParked()
		time.Sleep(quiesce)
		if !w.clientClosed.Load() {
			w.tracef("tail begins")
			var tail sync.WaitGroup
			n := len(sc.Callers)
			if n > 8 {
				n = 8
			}
			for i := 0; i < n; i++ {
				var calls []Call
				for k := 0; k < sc.Tail; k++ {
					call := Call{Store: (i + k) % sc.Stores, Kind: "get", TimeoutMs: 10000, ThinkUs: 10 * (i + 1), Async: (i+k)%3 == 2}
					if sc.FwdHosts > 0 && (i+k)%4 == 1 {
						call.Fwd = 1 + (i % sc.FwdHosts)
					}
					calls = append(calls, call)
				}
				tail.Add(1)
				go w.runCaller(i, calls, true, &tail)
			}
			tail.Wait()
		}
	}

	// teardown
	w.releaseAll()
	w.closeClient("teardown")
	w.rootCancel()
	bg.Wait()
	simkit.Settle()
	w.releaseAll()
	w.wg.Wait()
	time.Sleep(time.Second)
	w.leak = runtime.NumGoroutine() - w.baseG - 2 // this goroutine and the simulator loop
	if w.leak > 0 {
		buf := make([]byte, 1<<20)
		n := runtime.Stack(buf, true)
		w.leakStacks = filterStacks(string(buf[:n]))
	}
}

func (w *world) callersBudget() time.Duration {
	var max time.Duration
	for _, c := range w.sc.Callers {
		var t time.Duration
		for _, call := range c.Calls {
			t += time.Duration(call.ThinkUs)*time.Microsecond + time.Duration(call.TimeoutMs)*time.Millisecond + 2*slack
		}
		if t > max {
			max = t
		}
	}
	return max
}

func (w *world) closeClient(why string) {
	if !w.clientClosed.CompareAndSwap(false, true) {
		return
	}
	w.closeStart = w.sim.Now()
	w.noteClose()
	w.tracef("close client (%s)", why)
	if why == "scenario" {
		w.sim.Count("fault.close-client")
	}
	_ = w.cli.Close()
	w.closeEnd = w.sim.Now()
	if why == "scenario" {
		w.closedByScenario = true
	}
}

// judgeStuck is called at the horizon: calls that are still pending (they can
// only be calls without any deadline). Whether that is the library's fault
// depends on what the library knew at this moment, so the reason is worked out
// here and not at the end of the run.
func (w *world) judgeStuck() {
	w.mu.Lock()
	defer w.mu.Unlock()
	// dead[uid]: the stream broke. alone[uid]: and no stream of ANOTHER
	// forwarding target of the same connection broke before the replacement of
	// this one existed (then the receive loop of this stream cannot have lost
	// the epoch race of recreateStreamingClient, see CHECK.md)
	dead := map[string]bool{}
	alone := map[string]bool{}
	for _, c := range w.connList {
		for _, s := range c.streams {
			if s.dead == nil {
				continue
			}
			dead[s.uid] = true
			alone[s.uid] = true
			// the receive loop of s is busy with this failure until the stream
			// that replaces s exists
			end := time.Duration(1<<62 - 1)
			for _, t := range c.streams {
				if t != s && t.fwd == s.fwd && t.bornAt >= s.diedAt && t.bornAt < end {
					end = t.bornAt
				}
			}
			// A sibling t can make the receive loop of s lose the epoch race only if t's failure was accounted (the
			// connection's epoch advanced) AFTER s's loop had read the epoch, i.e. after s was born. The epoch advances
			// while t's own receive loop re-creates t, before t's replacement exists: a sibling whose replacement was
			// born before s was born is over and done with - s started with the epoch it left behind.
			for _, t := range c.streams {
				if t.fwd == s.fwd || t.dead == nil || t.diedAt > end {
					continue
				}
				replaced := time.Duration(1<<62 - 1)
				for _, u := range c.streams {
					if u != t && u.fwd == t.fwd && u.bornAt >= t.diedAt && u.bornAt < replaced {
						replaced = u.bornAt
					}
				}
				if replaced >= s.bornAt {
					alone[s.uid] = false
				}
			}
		}
	}
	for _, c := range w.calls {
		c.mu.Lock()
		pending := c.invoked && c.returns == 0
		inv := c.InvAt
		c.mu.Unlock()
		if !pending {
			continue
		}
		why := ""
		sent := len(c.sentOn) > 0
		switch {
		case c.answered:
			why = "answered: the response for its request id was returned by Recv to the receive loop"
		case w.closedByScenario && sent:
			why = "closed-sent: the client was closed while the call was pending (its request had been sent)"
		case w.closedByScenario:
			why = "closed-unsent: the client was closed while the call was queued in the batch connection (its request had not been sent yet)"
		case sent && dead[c.sentOn[len(c.sentOn)-1]] && alone[c.sentOn[len(c.sentOn)-1]]:
			why = "stream-broken: the stream it was sent on broke afterwards, and no other stream of that connection had broken"
		case sent && dead[c.sentOn[len(c.sentOn)-1]]:
			why = "stream-broken-with-sibling: the stream it was sent on broke afterwards, after or together with another stream (other forwarding target) of the same connection"
		case !sent && w.closeAddrAfter(c.Spec.Store, inv):
			why = "pool-closed-unsent: the pool of its address was closed by CloseAddr while the call was queued (not sent yet)"
		}
		c.stuckWhy = why
		w.stuck = append(w.stuck, c)
	}
}

func (w *world) closeAddrAfter(store int, t time.Duration) bool {
	for _, e := range w.closeAddrs {
		if e.store == store && e.at >= t {
			return true
		}
	}
	return false
}

type closeAddrRec struct {
	store int
	at    time.Duration
}

func filterStacks(all string) string {
	var keep []string
	for _, g := range strings.Split(all, "\n\n") {
		if strings.Contains(g, "batchsim.(*world).main") || strings.Contains(g, "batchsim.Engine.Execute") {
			continue // this goroutine and the simulator loop
		}
		if strings.Contains(g, "internal/client.") || strings.Contains(g, "batchsim.") || strings.Contains(g, "google.golang.org/grpc") {
			if len(g) > 1500 {
				g = g[:1500] + "..."
			}
			keep = append(keep, g)
		}
	}
	if len(keep) > 8 {
		keep = keep[:8]
	}
	return strings.Join(keep, "\n\n")
}

// ---- classification of errors ----------------------------------------------------

// classify maps an error returned by SendRequest / the callback to the classes
// the property allows: timeout, canceled, connfail, closed. Everything else is
// "unexpected:<text>".
func classify(err error) string {
	cause := errors.Cause(err)
	if cause == nil {
		cause = err
	}
	switch {
	case cause == context.DeadlineExceeded || errors.Is(err, context.DeadlineExceeded):
		return "timeout"
	case cause == context.Canceled || errors.Is(err, context.Canceled):
		return "canceled"
	case cause == io.EOF:
		return "connfail"
	}
	if st, ok := status.FromError(cause); ok {
		switch st.Code() {
		case codes.Unavailable:
			return "connfail"
		case codes.Canceled:
			if strings.Contains(st.Message(), "client connection is closing") {
				return "closed"
			}
		}
	}
	msg := cause.Error()
	switch msg {
	case "batchConn closed", "batch client closed", "rpcClient is closed":
		return "closed"
	case "no available connections":
		return "connfail"
	case "rpcClient is idle":
		return "idle"
	}
	return "unexpected:" + msg
}
